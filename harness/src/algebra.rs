//! alg / split / merge / bg cases: src/bed/bed_trait.rs
use crate::sexp::*;
use crate::util::*;
use bed_utils::bed::{merge_sorted_bed, merge_sorted_bed_with, merge_sorted_bedgraph, BEDLike, BedGraph, GenomicRange, BED};
use std::cmp::Ordering;
use std::sync::Mutex;

fn cmp(o: Ordering) -> Sx {
    a(match o {
        Ordering::Less => "lt",
        Ordering::Equal => "eq",
        Ordering::Greater => "gt",
    })
}

fn ov(x: Option<GenomicRange>) -> Sx {
    x.map(|g| sx_region(&g)).unwrap_or(a("none"))
}

/// the same three records viewed through several record types: all answers must coincide
fn alg_typed<A: BEDLike, B: BEDLike, C: BEDLike>(ra: &A, rb: &B, rc: &C) -> Vec<Sx> {
    vec![
        Sx::L(vec![a("len"), a(ra.len()), a(rb.len()), a(rc.len())]),
        Sx::L(vec![a("ov"), ov(ra.overlap(rb)), ov(rb.overlap(ra)), ov(ra.overlap(rc)), ov(ra.overlap(ra))]),
        Sx::L(vec![a("nov"), a(ra.n_overlap(rb)), a(rb.n_overlap(ra)), a(ra.n_overlap(rc)), a(ra.n_overlap(ra))]),
    ]
}

fn bed6(g: &GenomicRange) -> BED<6> {
    BED::new(g.chrom(), g.start(), g.end(), Some("x".to_string()), None, None, Default::default())
}

pub fn run_alg(args: &[Sx]) -> Sx {
    with_panic(|emit| {
        let types = args[0].atom().to_string();
        let (ga, gb, gc) = (region(&args[1]), region(&args[2]), region(&args[3]));
        let base = alg_typed(&ga, &gb, &gc);
        // mixed record types must give the same answers as plain GenomicRange
        let alt = match types.as_str() {
            "gbn" => alg_typed(&ga, &bed6(&gb), &np(&gc)),
            "nbg" => alg_typed(&np(&ga), &bed6(&gb), &gc),
            "bng" => alg_typed(&bed6(&ga), &np(&gb), &gc),
            _ => alg_typed(&ga, &gb, &gc),
        };
        if !(base == alt) { emit(a("ORACLE-FAIL:record-types-disagree-on-overlap/len")) };
        // the same through METHOD-CALL syntax on the concrete types (an inherent method of the same name would be picked
        // here instead of the trait's) and through the trait path
        let l1 = vec![ga.len(), gb.len(), gc.len(), bed6(&ga).len(), np(&gb).len(), bed6(&gc).to_genomic_range().len()];
        let l2 = vec![BEDLike::len(&ga), BEDLike::len(&gb), BEDLike::len(&gc), BEDLike::len(&ga), BEDLike::len(&gb), BEDLike::len(&gc)];
        if l1 != l2 { emit(a("ORACLE-FAIL:len()-by-method-call-differs-from-BEDLike::len")); }
        let o1 = vec![ov(ga.overlap(&gb)), ov(gb.to_genomic_range().overlap(&ga.to_genomic_range()))];
        let o2 = vec![ov(BEDLike::overlap(&ga, &gb)), ov(BEDLike::overlap(&gb, &ga))];
        if o1 != o2 || ga.n_overlap(&gb) != BEDLike::n_overlap(&ga, &gb) { emit(a("ORACLE-FAIL:overlap-by-method-call-differs-from-BEDLike::overlap")); }
        for x in base {
            emit(x);
        }
        // compare: trait method, derived Ord of GenomicRange, and via to_genomic_range on other types
        let c1 = vec![ga.compare(&gb), gb.compare(&ga), gb.compare(&gc), ga.compare(&gc), ga.compare(&ga)];
        let c2 = vec![ga.cmp(&gb), gb.cmp(&ga), gb.cmp(&gc), ga.cmp(&gc), ga.cmp(&ga)];
        let c3 = vec![
            bed6(&ga).compare(&bed6(&gb)),
            np(&gb).compare(&np(&ga)),
            bed6(&gb).to_genomic_range().cmp(&np(&gc).to_genomic_range()),
            np(&ga).to_genomic_range().compare(&bed6(&gc).to_genomic_range()),
            np(&ga).compare(&np(&ga)),
        ];
        if !(c1 == c2 && c1 == c3) { emit(a("ORACLE-FAIL:compare-/-Ord-/-to_genomic_range-disagree")) };
        // records that differ in name, score, strand, signal ...: the order looks at (chrom, start, end) only
        for k in 0..6usize {
            let c4 = vec![bed6v(&ga, k).compare(&bed6v(&gb, k + 1)), bed6v(&gb, k + 2).compare(&bed6v(&ga, k)), npv(&gb, k).compare(&npv(&gc, k + 1)),
                          bed6v(&ga, k).compare(&bed6v(&gc, k + 2)), npv(&ga, k).compare(&npv(&ga, k + 1))];
            if c4 != c1 { emit(a("ORACLE-FAIL:compare-depends-on-name/score/strand")); break; }
            let o4 = vec![ov(bed6v(&ga, k).overlap(&npv(&gb, k + 1))), ov(npv(&gb, k).overlap(&bed6v(&ga, k + 1)))];
            if o4 != vec![ov(ga.overlap(&gb)), ov(gb.overlap(&ga))] { emit(a("ORACLE-FAIL:overlap-depends-on-name/score/strand")); break; }
        }
        emit(tag("cmp", c1.into_iter().map(cmp).collect()));
        // setters on every record type: a gets b's chromosome, c's start, b's end
        fn set3<R: BEDLike>(mut r: R, c: &str, s: u64, e: u64) -> (String, u64, u64) { r.set_chrom(c).set_start(s).set_end(e); (r.chrom().to_string(), r.start(), r.end()) }
        let want = set3(ga.clone(), gb.chrom(), gc.start(), gb.end());
        let all = vec![set3(bed6(&ga), gb.chrom(), gc.start(), gb.end()), set3(np(&ga), gb.chrom(), gc.start(), gb.end()),
                       set3(BedGraph::from_bed(&ga, 1.5f64), gb.chrom(), gc.start(), gb.end()), set3(bed6(&ga).to_genomic_range(), gb.chrom(), gc.start(), gb.end())];
        if all.iter().any(|x| *x != want) { emit(a("ORACLE-FAIL:setters-disagree-between-record-types")); }
        emit(Sx::L(vec![a("set"), hex(want.0.as_bytes()), a(want.1), a(want.2)]));
    })
}

/// a record type from OUTSIDE the crate that overrides the provided `len()` (e.g. aligned bases of a spliced read, fewer
/// than `end - start`): the tiling of `split_by_len` / `rsplit_by_len` is defined on [start, end), not on `len()`
#[derive(Clone)]
struct Spliced { chrom: String, start: u64, end: u64 }
impl BEDLike for Spliced {
    fn chrom(&self) -> &str { &self.chrom }
    fn set_chrom(&mut self, chrom: &str) -> &mut Self { self.chrom = chrom.to_string(); self }
    fn start(&self) -> u64 { self.start }
    fn set_start(&mut self, start: u64) -> &mut Self { self.start = start; self }
    fn end(&self) -> u64 { self.end }
    fn set_end(&mut self, end: u64) -> &mut Self { self.end = end; self }
    fn len(&self) -> u64 { self.end.saturating_sub(self.start) / 2 }
}

pub fn run_split(args: &[Sx]) -> Sx {
    with_panic(|emit| {
        let g = GenomicRange::new("chrS", args[0].u64(), args[1].u64());
        let b = args[2].u64();
        let chk = |x: &GenomicRange| assert!(x.chrom() == "chrS", "chromosome changed");
        let pr = |x: &GenomicRange| (x.start(), x.end());
        let sp: Vec<GenomicRange> = g.split_by_len(b).map(|x| { chk(&x); x }).collect();
        emit(tag("sp", sp.iter().map(|x| Sx::L(vec![a(x.start()), a(x.end())])).collect()));
        let rsp: Vec<GenomicRange> = g.rsplit_by_len(b).map(|x| { chk(&x); x }).collect();
        emit(tag("rsp", rsp.iter().map(|x| Sx::L(vec![a(x.start()), a(x.end())])).collect()));
        // the tiling does not depend on the record type, its name, score or strand
        for k in 0..3usize {
            let (r6, rn) = (bed6v(&g, k), npv(&g, k));
            if r6.split_by_len(b).map(|x| pr(&x)).ne(sp.iter().map(pr)) || rn.split_by_len(b).map(|x| pr(&x)).ne(sp.iter().map(pr))
                || BedGraph::from_bed(&g, 1.5f64).split_by_len(b).map(|x| pr(&x)).ne(sp.iter().map(pr)) { emit(a("ORACLE-FAIL:split_by_len-depends-on-record-type/strand")); break; }
            if r6.rsplit_by_len(b).map(|x| pr(&x)).ne(rsp.iter().map(pr)) || rn.rsplit_by_len(b).map(|x| pr(&x)).ne(rsp.iter().map(pr)) { emit(a("ORACLE-FAIL:rsplit_by_len-depends-on-record-type/strand")); break; }
        }
        {
            let sp2 = Spliced { chrom: "chrS".to_string(), start: g.start(), end: g.end() };
            if sp2.split_by_len(b).map(|x| pr(&x)).ne(sp.iter().map(pr)) || sp2.rsplit_by_len(b).map(|x| pr(&x)).ne(rsp.iter().map(pr)) {
                emit(a("ORACLE-FAIL:split-of-a-downstream-record-type-with-its-own-len()-does-not-tile-[start,end)"));
            }
        }
        // the other ways of walking the same iterator: nth, skip, step_by, count, last
        let idx: Vec<usize> = vec![0, 1, 2, 3, sp.len().saturating_sub(1), sp.len(), sp.len() + 1, 7, 1 << 20, 1 << 33, usize::MAX / 2, usize::MAX];
        for &n in idx.iter() {
            if g.split_by_len(b).nth(n).map(|x| pr(&x)) != sp.get(n).map(pr) { emit(a("ORACLE-FAIL:split_by_len.nth")); break; }
            if g.rsplit_by_len(b).nth(n).map(|x| pr(&x)) != rsp.get(n).map(pr) { emit(a("ORACLE-FAIL:rsplit_by_len.nth")); break; }
            if n <= sp.len() + 1 {
                if g.split_by_len(b).skip(n).map(|x| pr(&x)).ne(sp.iter().skip(n).map(pr)) { emit(a("ORACLE-FAIL:split_by_len.skip")); break; }
                if g.rsplit_by_len(b).skip(n).map(|x| pr(&x)).ne(rsp.iter().skip(n).map(pr)) { emit(a("ORACLE-FAIL:rsplit_by_len.skip")); break; }
            }
            if n >= 1 {
                if g.split_by_len(b).step_by(n).map(|x| pr(&x)).ne(sp.iter().step_by(n).map(pr)) { emit(a("ORACLE-FAIL:split_by_len.step_by")); break; }
                if g.rsplit_by_len(b).step_by(n).map(|x| pr(&x)).ne(rsp.iter().step_by(n).map(pr)) { emit(a("ORACLE-FAIL:rsplit_by_len.step_by")); break; }
            }
        }
        if g.split_by_len(b).count() != sp.len() || g.rsplit_by_len(b).count() != rsp.len() { emit(a("ORACLE-FAIL:split.count")); }
        if g.split_by_len(b).last().map(|x| pr(&x)) != sp.last().map(pr) || g.rsplit_by_len(b).last().map(|x| pr(&x)) != rsp.last().map(pr) { emit(a("ORACLE-FAIL:split.last")); }
        // a partly consumed iterator, then drained by internal iteration (fold)
        let mut it = g.split_by_len(b); let first = it.next().map(|x| pr(&x));
        let rest: Vec<(u64, u64)> = it.fold(Vec::new(), |mut v, x| { v.push(pr(&x)); v });
        if first != sp.first().map(pr) || rest.iter().ne(sp.iter().skip(1).map(pr).collect::<Vec<_>>().iter()) { emit(a("ORACLE-FAIL:split.next-then-fold")); }
    })
}

/// (splithead s e b k): only the first k pieces of both tilings are taken — the record may have astronomically many
pub fn run_splithead(args: &[Sx]) -> Sx {
    with_panic(|emit| {
        let g = GenomicRange::new("chrS", args[0].u64(), args[1].u64());
        let (b, k) = (args[2].u64(), args[3].usize());
        emit(tag("sp", g.split_by_len(b).take(k).map(|x| Sx::L(vec![a(x.start()), a(x.end())])).collect()));
        emit(tag("rsp", g.rsplit_by_len(b).take(k).map(|x| Sx::L(vec![a(x.start()), a(x.end())])).collect()));
    })
}

pub fn run_merge(args: &[Sx]) -> Sx {
    with_panic(|emit| {
        let recs: Vec<BedGraph<i64>> = args[0].tagged("recs").iter().map(|r| { let l = r.list(); BedGraph::new(l[0].string(), l[1].u64(), l[2].u64(), l[3].i64()) }).collect();
        let groups = Mutex::new(Vec::<Sx>::new());
        let n_out = merge_sorted_bed_with(recs.clone(), |g: Vec<BedGraph<i64>>| {
            groups.lock().unwrap().push(Sx::L(g.iter().map(|r| a(r.value)).collect()));
            g.len()
        }).count();
        let gs = groups.into_inner().unwrap();
        if !(n_out == gs.len()) { emit(a("ORACLE-FAIL:outputs-!=-groups")) };
        emit(tag("groups", gs));
        // a LAZY source: the same records followed by an endless honest tail of far-away singleton records on a later
        // chromosome (its size_hint is astronomically large); the leading groups must come out the same, one by one
        {
            let last_chrom = recs.iter().map(|r| r.chrom.clone()).max().unwrap_or_default();
            let tail_chrom = format!("{}~tail", last_chrom);
            let tail = (0..u64::MAX / 4).map(move |i| BedGraph::new(tail_chrom.as_str(), i * 3, i * 3 + 1, -7i64));
            let lazy: Vec<Vec<i64>> = merge_sorted_bed_with(recs.clone().into_iter().chain(tail), |g: Vec<BedGraph<i64>>| g.iter().map(|r| r.value).collect::<Vec<i64>>()).take(n_out + 2).collect();
            let eager: Vec<Vec<i64>> = merge_sorted_bed_with(recs.clone(), |g: Vec<BedGraph<i64>>| g.iter().map(|r| r.value).collect::<Vec<i64>>()).collect();
            if lazy.len() != n_out + 2 || lazy[..n_out] != eager[..] || lazy[n_out] != vec![-7i64] { emit(a("ORACLE-FAIL:leading-groups-of-a-lazy-endless-source-differ")); }
        }
        let ranges: Vec<GenomicRange> = merge_sorted_bed(recs.clone()).collect();
        emit(tag("ranges", ranges.iter().map(sx_region).collect()));
        // the same stream however it is walked: k external next() calls, then internal iteration (fold / for_each /
        // count / last), nth, skip, step_by
        for k in 0..4usize {
            let mut it = merge_sorted_bed(recs.clone());
            let mut got: Vec<GenomicRange> = Vec::new();
            for _ in 0..k { if let Some(x) = it.next() { got.push(x); } }
            it.for_each(|x| got.push(x));
            if got != ranges { emit(a("ORACLE-FAIL:merge_sorted_bed-next-then-for_each")); break; }
            let mut it = merge_sorted_bed_with(recs.clone(), |g: Vec<BedGraph<i64>>| g.len());
            let mut tot = 0usize; let mut ng = 0usize;
            for _ in 0..k { if let Some(x) = it.next() { tot += x; ng += 1; } }
            let (t2, n2) = it.fold((0usize, 0usize), |(t, n), x| (t + x, n + 1));
            if tot + t2 != recs.len() || ng + n2 != n_out { emit(a("ORACLE-FAIL:merge_sorted_bed_with-next-then-fold")); break; }
            if merge_sorted_bed(recs.clone()).nth(k) != ranges.get(k).cloned() { emit(a("ORACLE-FAIL:merge_sorted_bed.nth")); break; }
            if merge_sorted_bed(recs.clone()).skip(k).ne(ranges.iter().skip(k).cloned()) { emit(a("ORACLE-FAIL:merge_sorted_bed.skip")); break; }
            if merge_sorted_bed(recs.clone()).step_by(k + 1).ne(ranges.iter().step_by(k + 1).cloned()) { emit(a("ORACLE-FAIL:merge_sorted_bed.step_by")); break; }
            let mut it = merge_sorted_bed(recs.clone()); for _ in 0..k { it.next(); }
            if it.count() != ranges.len().saturating_sub(k) { emit(a("ORACLE-FAIL:merge_sorted_bed.count")); break; }
            let mut it = merge_sorted_bed(recs.clone()); for _ in 0..k { it.next(); }
            if it.last() != (if k < ranges.len() { ranges.last().cloned() } else { None }) { emit(a("ORACLE-FAIL:merge_sorted_bed.last")); break; }
        }
    })
}

pub fn run_bg(args: &[Sx]) -> Sx {
    with_panic(|emit| {
        let recs: Vec<BedGraph<i64>> = args[0].tagged("recs").iter().map(|r| { let l = r.list(); BedGraph::new(l[0].string(), l[1].u64(), l[2].u64(), l[3].i64()) }).collect();
        let key = |r: &BedGraph<i64>| (r.chrom.clone(), r.start, r.end, r.value);
        let out: Vec<BedGraph<i64>> = merge_sorted_bedgraph(recs.clone()).collect();
        emit(tag("out", out.iter().map(|r| Sx::L(vec![hex(r.chrom.as_bytes()), a(r.start), a(r.end), a(r.value)])).collect()));
        // the same stream however it is walked
        let want: Vec<_> = out.iter().map(key).collect();
        for k in 0..4usize {
            let mut it = merge_sorted_bedgraph(recs.clone());
            let mut got = Vec::new();
            for _ in 0..k { if let Some(x) = it.next() { got.push(key(&x)); } }
            it.for_each(|x| got.push(key(&x)));
            if got != want { emit(a("ORACLE-FAIL:merge_sorted_bedgraph-next-then-for_each")); break; }
            let mut it = merge_sorted_bedgraph(recs.clone());
            let mut got = Vec::new();
            for _ in 0..k { if let Some(x) = it.next() { got.push(key(&x)); } }
            let got = it.fold(got, |mut v, x| { v.push(key(&x)); v });
            if got != want { emit(a("ORACLE-FAIL:merge_sorted_bedgraph-next-then-fold")); break; }
            if merge_sorted_bedgraph(recs.clone()).nth(k).map(|x| key(&x)) != want.get(k).cloned() { emit(a("ORACLE-FAIL:merge_sorted_bedgraph.nth")); break; }
            if merge_sorted_bedgraph(recs.clone()).skip(k).map(|x| key(&x)).ne(want.iter().skip(k).cloned()) { emit(a("ORACLE-FAIL:merge_sorted_bedgraph.skip")); break; }
            if merge_sorted_bedgraph(recs.clone()).step_by(k + 1).map(|x| key(&x)).ne(want.iter().step_by(k + 1).cloned()) { emit(a("ORACLE-FAIL:merge_sorted_bedgraph.step_by")); break; }
            let mut it = merge_sorted_bedgraph(recs.clone()); for _ in 0..k { it.next(); }
            if it.count() != want.len().saturating_sub(k) { emit(a("ORACLE-FAIL:merge_sorted_bedgraph.count")); break; }
            let mut it = merge_sorted_bedgraph(recs.clone()); for _ in 0..k { it.next(); }
            if it.last().map(|x| key(&x)) != (if k < want.len() { want.last().cloned() } else { None }) { emit(a("ORACLE-FAIL:merge_sorted_bedgraph.last")); break; }
        }
    })
}

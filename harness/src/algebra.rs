//! alg / split / merge / bg cases: src/bed/bed_trait.rs
use crate::sexp::*;
use crate::util::*;
use bed_utils::bed::{merge_sorted_bed, merge_sorted_bed_with, merge_sorted_bedgraph, BEDLike, BedGraph, GenomicRange, NarrowPeak, BED};
use std::cmp::Ordering;
use std::sync::Mutex;

fn cmp(o: Ordering) -> Sx {
    a(match o {
        Ordering::Less => "lt",
        Ordering::Equal => "eq",
        Ordering::Greater => "gt",
    })
}

fn ov(x: Option<GenomicRange>) -> Sx {
    x.map(|g| sx_region(&g)).unwrap_or(a("none"))
}

/// the same three records viewed through several record types: all answers must coincide
fn alg_typed<A: BEDLike, B: BEDLike, C: BEDLike>(ra: &A, rb: &B, rc: &C) -> Vec<Sx> {
    vec![
        Sx::L(vec![a("len"), a(ra.len()), a(rb.len()), a(rc.len())]),
        Sx::L(vec![a("ov"), ov(ra.overlap(rb)), ov(rb.overlap(ra)), ov(ra.overlap(rc)), ov(ra.overlap(ra))]),
        Sx::L(vec![a("nov"), a(ra.n_overlap(rb)), a(rb.n_overlap(ra)), a(ra.n_overlap(rc)), a(ra.n_overlap(ra))]),
    ]
}

fn np(g: &GenomicRange) -> NarrowPeak {
    NarrowPeak { chrom: g.chrom().to_string(), start: g.start(), end: g.end(), name: Some("n".into()), score: None, strand: None, signal_value: 1.5, p_value: None, q_value: Some(0.0), peak: 3 }
}
fn bed6(g: &GenomicRange) -> BED<6> {
    BED::new(g.chrom(), g.start(), g.end(), Some("x".to_string()), None, None, Default::default())
}

pub fn run_alg(args: &[Sx]) -> Sx {
    with_panic(|emit| {
        let types = args[0].atom().to_string();
        let (ga, gb, gc) = (region(&args[1]), region(&args[2]), region(&args[3]));
        let base = alg_typed(&ga, &gb, &gc);
        // mixed record types must give the same answers as plain GenomicRange
        let alt = match types.as_str() {
            "gbn" => alg_typed(&ga, &bed6(&gb), &np(&gc)),
            "nbg" => alg_typed(&np(&ga), &bed6(&gb), &gc),
            "bng" => alg_typed(&bed6(&ga), &np(&gb), &gc),
            _ => alg_typed(&ga, &gb, &gc),
        };
        if !(base == alt) { emit(a("ORACLE-FAIL:record-types-disagree-on-overlap/len")) };
        for x in base {
            emit(x);
        }
        // compare: trait method, derived Ord of GenomicRange, and via to_genomic_range on other types
        let c1 = vec![ga.compare(&gb), gb.compare(&ga), gb.compare(&gc), ga.compare(&gc), ga.compare(&ga)];
        let c2 = vec![ga.cmp(&gb), gb.cmp(&ga), gb.cmp(&gc), ga.cmp(&gc), ga.cmp(&ga)];
        let c3 = vec![
            bed6(&ga).compare(&bed6(&gb)),
            np(&gb).compare(&np(&ga)),
            bed6(&gb).to_genomic_range().cmp(&np(&gc).to_genomic_range()),
            np(&ga).to_genomic_range().compare(&bed6(&gc).to_genomic_range()),
            np(&ga).compare(&np(&ga)),
        ];
        if !(c1 == c2 && c1 == c3) { emit(a("ORACLE-FAIL:compare-/-Ord-/-to_genomic_range-disagree")) };
        emit(tag("cmp", c1.into_iter().map(cmp).collect()));
        // setters on every record type: a gets b's chromosome, c's start, b's end
        fn set3<R: BEDLike>(mut r: R, c: &str, s: u64, e: u64) -> (String, u64, u64) { r.set_chrom(c).set_start(s).set_end(e); (r.chrom().to_string(), r.start(), r.end()) }
        let want = set3(ga.clone(), gb.chrom(), gc.start(), gb.end());
        let all = vec![set3(bed6(&ga), gb.chrom(), gc.start(), gb.end()), set3(np(&ga), gb.chrom(), gc.start(), gb.end()),
                       set3(BedGraph::from_bed(&ga, 1.5f64), gb.chrom(), gc.start(), gb.end()), set3(bed6(&ga).to_genomic_range(), gb.chrom(), gc.start(), gb.end())];
        if all.iter().any(|x| *x != want) { emit(a("ORACLE-FAIL:setters-disagree-between-record-types")); }
        emit(Sx::L(vec![a("set"), hex(want.0.as_bytes()), a(want.1), a(want.2)]));
    })
}

pub fn run_split(args: &[Sx]) -> Sx {
    with_panic(|emit| {
        let g = GenomicRange::new("chrS", args[0].u64(), args[1].u64());
        let b = args[2].u64();
        let chk = |x: &GenomicRange| assert!(x.chrom() == "chrS", "chromosome changed");;
        emit(tag("sp", g.split_by_len(b).map(|x| { chk(&x); Sx::L(vec![a(x.start()), a(x.end())]) }).collect()));
        emit(tag("rsp", g.rsplit_by_len(b).map(|x| { chk(&x); Sx::L(vec![a(x.start()), a(x.end())]) }).collect()));
    })
}

pub fn run_merge(args: &[Sx]) -> Sx {
    with_panic(|emit| {
        let recs: Vec<BedGraph<i64>> = args[0].tagged("recs").iter().map(|r| { let l = r.list(); BedGraph::new(l[0].string(), l[1].u64(), l[2].u64(), l[3].i64()) }).collect();
        let groups = Mutex::new(Vec::<Sx>::new());
        let n_out = merge_sorted_bed_with(recs.clone(), |g: Vec<BedGraph<i64>>| {
            groups.lock().unwrap().push(Sx::L(g.iter().map(|r| a(r.value)).collect()));
            g.len()
        }).count();
        let gs = groups.into_inner().unwrap();
        if !(n_out == gs.len()) { emit(a("ORACLE-FAIL:outputs-!=-groups")) };
        emit(tag("groups", gs));
        emit(tag("ranges", merge_sorted_bed(recs).map(|g| sx_region(&g)).collect()));
    })
}

pub fn run_bg(args: &[Sx]) -> Sx {
    with_panic(|emit| {
        let recs: Vec<BedGraph<i64>> = args[0].tagged("recs").iter().map(|r| { let l = r.list(); BedGraph::new(l[0].string(), l[1].u64(), l[2].u64(), l[3].i64()) }).collect();
        emit(tag("out", merge_sorted_bedgraph(recs).map(|r| Sx::L(vec![hex(r.chrom.as_bytes()), a(r.start), a(r.end), a(r.value)])).collect()));
    })
}

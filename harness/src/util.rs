//! helpers shared by the case runners: panic capture, record decoding
use crate::sexp::*;
use bed_utils::bed::GenomicRange;
use std::sync::Mutex;

/// runs `f` with an `emit` callback; a panic inside the code under test appends `panic`;
/// a panic whose message starts with "glue:" is a harness error, not an observation.
pub fn with_panic<F: FnOnce(&dyn Fn(Sx))>(f: F) -> Sx {
    let out = Mutex::new(Vec::<Sx>::new());
    let r = std::panic::catch_unwind(std::panic::AssertUnwindSafe(|| {
        let emit = |x: Sx| out.lock().unwrap().push(x);
        f(&emit);
    }));
    let mut v = match out.into_inner() {
        Ok(v) => v,
        Err(p) => p.into_inner(),
    };
    if let Err(e) = r {
        let msg = e.downcast_ref::<String>().cloned().or_else(|| e.downcast_ref::<&str>().map(|s| s.to_string())).unwrap_or_default();
        if msg.starts_with("glue:") {
            return Sx::L(vec![a("glue-error"), a(msg.replace(' ', "_"))]);
        }
        v.push(a("panic"));
    }
    tag("r", v)
}

pub fn region(x: &Sx) -> GenomicRange {
    let l = x.list();
    GenomicRange::new(l[0].string(), l[1].u64(), l[2].u64())
}
pub fn sx_region<B: bed_utils::bed::BEDLike>(g: &B) -> Sx {
    Sx::L(vec![hex(g.chrom().as_bytes()), a(g.start()), a(g.end())])
}

//! helpers shared by the case runners: panic capture, record decoding
use crate::sexp::*;
use bed_utils::bed::{BEDLike, GenomicRange, NarrowPeak, Strand, BED};
use std::sync::Mutex;

/// runs `f` with an `emit` callback; a panic inside the code under test appends `panic`;
/// a panic whose message starts with "glue:" is a harness error, not an observation.
pub fn with_panic<F: FnOnce(&dyn Fn(Sx))>(f: F) -> Sx {
    let out = Mutex::new(Vec::<Sx>::new());
    let r = std::panic::catch_unwind(std::panic::AssertUnwindSafe(|| {
        let emit = |x: Sx| out.lock().unwrap().push(x);
        f(&emit);
    }));
    let mut v = match out.into_inner() {
        Ok(v) => v,
        Err(p) => p.into_inner(),
    };
    if let Err(e) = r {
        let msg = e.downcast_ref::<String>().cloned().or_else(|| e.downcast_ref::<&str>().map(|s| s.to_string())).unwrap_or_default();
        if msg.starts_with("glue:") {
            return Sx::L(vec![a("glue-error"), a(msg.replace(' ', "_"))]);
        }
        v.push(a("panic"));
    }
    tag("r", v)
}

pub fn region(x: &Sx) -> GenomicRange {
    let l = x.list();
    GenomicRange::new(l[0].string(), l[1].u64(), l[2].u64())
}
pub fn sx_region<B: bed_utils::bed::BEDLike>(g: &B) -> Sx {
    Sx::L(vec![hex(g.chrom().as_bytes()), a(g.start()), a(g.end())])
}

/// Walks freshly made iterators in the other ways the `Iterator` API offers (a few external `next()` calls followed by
/// internal iteration, `nth`, `skip`, `step_by`, `take` on `by_ref`, `count`, `last`) and compares each with
/// the plainly collected sequence.  Returns the name of the first walk that differs.  (`size_hint` is deliberately not
/// judged: no property speaks about it.)
pub fn walk_check<T: PartialEq, I: Iterator<Item = T>>(mk: &dyn Fn() -> I) -> Option<&'static str> {
    let base: Vec<T> = mk().collect();
    let n = base.len();
    if mk().count() != n { return Some("count"); }
    if mk().last().as_ref() != base.last() { return Some("last"); }
    for k in 0..4usize {
        let mut it = mk();
        let mut got: Vec<T> = Vec::new();
        for _ in 0..k { if let Some(x) = it.next() { got.push(x); } }
        let rest = n.saturating_sub(k);
        let got = it.fold(got, |mut v, x| { v.push(x); v });
        if got != base { return Some("next-then-fold"); }
        let mut it = mk();
        let mut got: Vec<T> = Vec::new();
        for _ in 0..k { if let Some(x) = it.next() { got.push(x); } }
        it.for_each(|x| got.push(x));
        if got != base { return Some("next-then-for_each"); }
        let mut it = mk();
        let mut got: Vec<T> = it.by_ref().take(k).collect();
        got.extend(it);
        if got != base { return Some("take-then-rest"); }
        let mut it = mk(); for _ in 0..k { it.next(); }
        if it.count() != rest { return Some("next-then-count"); }
        let mut it = mk(); for _ in 0..k { it.next(); }
        if it.last().as_ref() != (if k < n { base.last() } else { None }) { return Some("next-then-last"); }
    }
    for &k in [0usize, 1, 2, 3, n.saturating_sub(1), n, n + 1, 1 << 20, usize::MAX / 2, usize::MAX].iter() {
        if mk().nth(k).as_ref() != base.get(k) { return Some("nth"); }
        let mut it = mk(); it.next();
        if it.nth(k).as_ref() != k.checked_add(1).and_then(|j| base.get(j)) { return Some("next-then-nth"); }
        if k <= n + 1 {
            let got: Vec<T> = mk().skip(k).collect();
            if got.len() != n.saturating_sub(k) || got.iter().zip(base.iter().skip(k)).any(|(x, y)| x != y) { return Some("skip"); }
        }
        if k >= 1 && k <= n + 1 {
            let got: Vec<T> = mk().step_by(k).collect();
            if got.len() != base.iter().step_by(k).count() || got.iter().zip(base.iter().step_by(k)).any(|(x, y)| x != y) { return Some("step_by"); }
        }
    }
    None
}

pub fn np(g: &GenomicRange) -> NarrowPeak {
    NarrowPeak { chrom: g.chrom().to_string(), start: g.start(), end: g.end(), name: Some("n".into()), score: None, strand: None, signal_value: 1.5, p_value: None, q_value: Some(0.0), peak: 3 }
}
/// BED<6> views of one range that differ in everything the order must ignore: name, score and strand
pub fn bed6v(g: &GenomicRange, k: usize) -> BED<6> {
    let strand = match k % 3 { 0 => None, 1 => Some(Strand::Forward), _ => Some(Strand::Reverse) };
    let name = match k % 4 { 0 => None, 1 => Some("a".to_string()), 2 => Some("zz".to_string()), _ => Some("".to_string()) };
    let score = match k % 2 { 0 => None, _ => Some(((k % 11) as u16 * 100).try_into().unwrap()) };
    BED::new(g.chrom(), g.start(), g.end(), name, score, strand, Default::default())
}
pub fn npv(g: &GenomicRange, k: usize) -> NarrowPeak {
    let mut r = np(g);
    r.strand = match k % 3 { 0 => None, 1 => Some(Strand::Forward), _ => Some(Strand::Reverse) };
    r.signal_value = k as f64; r.peak = 1000 + k as u64; r.name = if k % 2 == 0 { None } else { Some("q".into()) };
    r
}


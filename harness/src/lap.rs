//! `lap` cases: scripts over one Lapper<I, u32> (I = u8 when W = 255, u64 otherwise).
use crate::sexp::*;
use crate::util::walk_check;
use bed_utils::verif_hooks::{Interval, Lapper};
use num_traits::PrimInt;

fn iv<I: PrimInt>(x: &Sx) -> Interval<I, u32> {
    let l = x.list();
    Interval { start: I::from(l[0].u64()).expect("glue: coord range"), stop: I::from(l[1].u64()).expect("glue: coord range"), val: l[2].u64() as u32 }
}
fn c<I: PrimInt>(x: &Sx) -> I {
    I::from(x.u64()).expect("glue: coord range")
}
fn sx_iv<I: PrimInt>(i: &Interval<I, u32>) -> Sx {
    Sx::L(vec![a(i.start.to_u64().unwrap()), a(i.stop.to_u64().unwrap()), a(i.val)])
}

fn build<I: PrimInt>(ivs: &Sx, ops: &[Sx]) -> Lapper<I, u32> {
    let mut l = Lapper::new(ivs.tagged("ivs").iter().map(iv::<I>).collect());
    for o in ops {
        let o = o.list();
        match o[0].atom() {
            "ins" => l.insert(Interval { start: c(&o[1]), stop: c(&o[2]), val: o[3].u64() as u32 }),
            "merge" => l.merge_overlaps(),
            "setcov" => {
                l.set_cov();
            }
            _ => panic!("glue: build op"),
        }
    }
    l
}

pub fn run_generic<I: PrimInt + std::panic::RefUnwindSafe + std::panic::UnwindSafe + serde::Serialize + serde::de::DeserializeOwned>(ivs: &Sx, ops: &Sx) -> Sx {
    let out = std::sync::Mutex::new(Vec::<Sx>::new());
    let r = std::panic::catch_unwind(std::panic::AssertUnwindSafe(|| {
        let mut l: Lapper<I, u32> = Lapper::new(ivs.tagged("ivs").iter().map(iv::<I>).collect());
        let mut cur = 0usize;
        for o in ops.tagged("ops") {
            let o = o.list();
            let emit = |x: Sx| out.lock().unwrap().push(x);
            match o[0].atom() {
                "ins" => l.insert(Interval { start: c(&o[1]), stop: c(&o[2]), val: o[3].u64() as u32 }),
                "merge" => l.merge_overlaps(),
                "setcov" => {
                    l.set_cov();
                }
                "cur0" => cur = 0,
                // an index that went through its own serde round trip, or a clone of it, is the same index
                "reload" => l = bincode::deserialize(&bincode::serialize(&l).expect("glue: serialize")).expect("deserialize a serialized index"),
                "clone" => {
                    // alternately a plain clone and Clone::clone_from into an EMPTY and into a short-interval index
                    if l.len() % 3 == 0 { l = l.clone(); }
                    else if l.len() % 3 == 1 { let mut t: Lapper<I, u32> = Lapper::new(vec![]); t.clone_from(&l); l = t; }
                    else { let mut t: Lapper<I, u32> = Lapper::new(vec![Interval { start: I::zero(), stop: I::one(), val: 0 }]); t.clone_from(&l); l = t; }
                }
                "find" => {
                    let (qs, qe): (I, I) = (c(&o[1]), c(&o[2]));
                    if let Some(w) = walk_check(&|| l.find(qs, qe)) { emit(a(format!("ORACLE-FAIL:find-walked-by-{}", w))); }
                    emit(tag("h", l.find(qs, qe).map(sx_iv).collect()))
                }
                "seek" => {
                    let (qs, qe): (I, I) = (c(&o[1]), c(&o[2]));
                    // a seek does its cursor work when called; the returned iterator walked any way gives the same hits
                    let c0 = cur;
                    if let Some(w) = walk_check(&|| { let mut cc = c0; l.seek(qs, qe, &mut cc).collect::<Vec<_>>().into_iter() }) { emit(a(format!("ORACLE-FAIL:seek-repeatable-{}", w))); }
                    emit(tag("h", l.seek(qs, qe, &mut cur).map(sx_iv).collect()))
                }
                "count" => emit(a(l.count(c(&o[1]), c(&o[2])))),
                "cov" => emit(a(l.cov().to_u64().unwrap())),
                "len" => emit(a(l.len())),
                "isempty" => emit(a(l.is_empty() as u8)),
                "ivcmp" => {
                    let (x, y) = (iv::<I>(&o[1]), iv::<I>(&o[2]));
                    if (x.partial_cmp(&y) != Some(x.cmp(&y))) || ((x == y) != (x.cmp(&y) == std::cmp::Ordering::Equal)) { emit(a("ORACLE-FAIL:eq/partial_cmp/cmp-disagree")); }
                    emit(Sx::L(vec![a("ivcmp"), a((x == y) as u8), a(match x.cmp(&y) { std::cmp::Ordering::Less => "lt", std::cmp::Ordering::Equal => "eq", std::cmp::Ordering::Greater => "gt" })]));
                }
                "ivs" => {
                    let v: Vec<Sx> = l.iter().map(sx_iv).collect();
                    let v2: Vec<Sx> = (&l).into_iter().map(sx_iv).collect();
                    if v != v2 || v.len() != l.len() { emit(a("ORACLE-FAIL:iter/into_iter/len-disagree")); }
                    if let Some(w) = walk_check(&|| l.iter()) { emit(a(format!("ORACLE-FAIL:iter-walked-by-{}", w))); }
                    emit(tag("ivs", v))
                }
                "depth" => { if let Some(w) = walk_check(&|| l.depth().map(|d| (d.start, d.stop, d.val))) { emit(a(format!("ORACLE-FAIL:depth-walked-by-{}", w))); } emit(tag(
                    "d",
                    l.depth().map(|d| Sx::L(vec![a(d.start.to_u64().unwrap()), a(d.stop.to_u64().unwrap()), a(d.val.to_u64().unwrap())])).collect(),
                )) }
                "ui" => {
                    let b: Lapper<I, u32> = build(&o[1], o[2].tagged("ops"));
                    let (u, i) = l.union_and_intersect(&b);
                    if l.union(&b) != u || l.intersect(&b) != i { emit(a("ORACLE-FAIL:union/intersect-differ-from-union_and_intersect")); }
                    // union()/intersect() are the same computation; exercised for symmetry by the generator
                    emit(Sx::L(vec![a("ui"), a(u.to_u64().unwrap()), a(i.to_u64().unwrap())]));
                }
                _ => panic!("glue: lap op"),
            }
        }
    }));
    let mut v = out.into_inner().unwrap();
    if let Err(e) = r {
        let msg = e.downcast_ref::<String>().cloned().or_else(|| e.downcast_ref::<&str>().map(|s| s.to_string())).unwrap_or_default();
        if msg.starts_with("glue:") {
            return Sx::L(vec![a("glue-error"), a(msg.replace(' ', "_"))]);
        }
        v.push(a("panic"));
    }
    tag("r", v)
}

pub fn run(args: &[Sx]) -> Sx {
    let w = args[0].atom();
    if w == "255" {
        run_generic::<u8>(&args[1], &args[2])
    } else {
        run_generic::<u64>(&args[1], &args[2])
    }
}

//! chunk / kmerge / xsort / tmp cases: src/extsort/{chunk,merger,sort}.rs
use crate::sexp::*;
use crate::util::*;
use bed_utils::extsort::{verif_dump, BinaryHeapMerger, ExternalChunk, ExternalChunkError, ExternalSorterBuilder};
use std::cell::RefCell;
use std::cmp::Ordering;
use std::io::{self, BufReader, BufWriter, Read, Write};
use std::rc::Rc;

fn blob(x: &Sx) -> Vec<u8> {
    let l = x.list();
    let (n, sd) = (l[0].usize(), l[1].usize());
    (0..n).map(|i| ((sd + i * 7) & 255) as u8).collect()
}

/// storage that answers every write call from a plan (then accepts everything)
#[derive(Clone)]
struct FaultyW { stored: Rc<RefCell<Vec<u8>>>, plan: Rc<RefCell<Vec<Sx>>>, fired: Rc<RefCell<usize>> }
impl Write for FaultyW {
    fn write(&mut self, buf: &[u8]) -> io::Result<usize> {
        if buf.is_empty() { return Ok(0); }
        let op = { let mut p = self.plan.borrow_mut(); if p.is_empty() { None } else { Some(p.remove(0)) } };
        match op {
            None => { self.stored.borrow_mut().extend_from_slice(buf); Ok(buf.len()) }
            Some(Sx::L(l)) => { let k = l[1].usize().max(1).min(buf.len()); if k < buf.len() { *self.fired.borrow_mut() += 1; } self.stored.borrow_mut().extend_from_slice(&buf[..k]); Ok(k) }
            Some(Sx::A(s)) => { *self.fired.borrow_mut() += 1; match s.as_str() {
                "zero" => Ok(0),
                "err" => Err(io::Error::new(io::ErrorKind::Other, "planned write error")),
                "intr" => Err(io::Error::new(io::ErrorKind::Interrupted, "planned interrupt")),
                _ => panic!("glue: wop") } }
        }
    }
    fn flush(&mut self) -> io::Result<()> { Ok(()) }
    /// a writer with its OWN vectored write (as files and sockets have): one plan entry answers the whole call, and the
    /// accepted byte count may end anywhere, also strictly inside a later slice
    fn write_vectored(&mut self, bufs: &[io::IoSlice<'_>]) -> io::Result<usize> {
        let all: Vec<u8> = bufs.iter().flat_map(|b| b.iter().copied()).collect();
        self.write(&all)
    }
}
struct FaultyR { data: Vec<u8>, pos: usize, plan: Vec<Sx>, fired: Rc<RefCell<usize>> }
impl Read for FaultyR {
    fn read(&mut self, buf: &mut [u8]) -> io::Result<usize> {
        if buf.is_empty() { return Ok(0); }
        let op = if self.plan.is_empty() { None } else { Some(self.plan.remove(0)) };
        let remaining = self.data.len() - self.pos;
        match op {
            None => { let n = buf.len().min(remaining); buf[..n].copy_from_slice(&self.data[self.pos..self.pos + n]); self.pos += n; Ok(n) }
            Some(Sx::L(l)) => { let n = l[1].usize().max(1).min(buf.len()).min(remaining); if n < buf.len().min(remaining) { *self.fired.borrow_mut() += 1; }
                buf[..n].copy_from_slice(&self.data[self.pos..self.pos + n]); self.pos += n; Ok(n) }
            Some(Sx::A(s)) => { *self.fired.borrow_mut() += 1; match s.as_str() {
                "intr" => Err(io::Error::new(io::ErrorKind::Interrupted, "planned interrupt")),
                "err" => Err(io::Error::new(io::ErrorKind::Other, "planned read error")),
                _ => panic!("glue: rop") } }
        }
    }
}

fn drain_chunk(reader: Box<dyn Read>, cap: usize) -> Vec<Sx> {
    let mut out = Vec::new();
    let chunk: ExternalChunk<Vec<u8>> = ExternalChunk::verif_from_reader(reader);
    for it in chunk {
        match it {
            Ok(v) => out.push(Sx::L(vec![a("ok"), hex(&v)])),
            Err(ExternalChunkError::IO(_)) => { out.push(a("ioerr")); break; }
            Err(ExternalChunkError::SerializationError(_)) => { out.push(a("deerr")); break; }
        }
        if out.len() > cap { out.push(a("ORACLE-FAIL:chunk-does-not-end")); break; }
    }
    out
}

/// a record whose `Serialize` fails after it has already emitted some bytes (like `(u64, PathBuf)` with a non-UTF-8 path)
struct Flaky;
impl serde::Serialize for Flaky {
    fn serialize<S: serde::Serializer>(&self, ser: S) -> Result<S::Ok, S::Error> {
        use serde::ser::SerializeTuple;
        let mut t = ser.serialize_tuple(3)?;
        t.serialize_element(&7u64)?;
        t.serialize_element(&[1u8, 2, 3])?;
        Err(serde::ser::Error::custom("planted serialization failure"))
    }
}

pub fn run_chunk(args: &[Sx]) -> Sx {
    with_panic(|emit| {
        let stack = args[0].atom();
        let items: Vec<Vec<u8>> = args[1].tagged("items").iter().map(blob).collect();
        // in half of the cases an unrelated dump that fails inside `Serialize` runs first on this thread: whatever it
        // leaves behind (scratch buffers, thread-locals) must not leak into the dump under test
        if (items.len() + args[2].tagged("wplan").len()) % 2 == 1 {
            let mut sink: Vec<u8> = Vec::new();
            let r = verif_dump(&mut sink, vec![Flaky, Flaky]);
            if r.is_ok() { emit(a("ORACLE-FAIL:dump-of-an-unserializable-record-returned-Ok")); }
        }
        let fired = Rc::new(RefCell::new(0usize));
        let w = FaultyW { stored: Rc::new(RefCell::new(Vec::new())), plan: Rc::new(RefCell::new(args[2].tagged("wplan").to_vec())), fired: fired.clone() };
        let res: Result<(), String> = match stack {
            "bare" => { let mut ww = w.clone(); verif_dump(&mut ww, items.clone()).map_err(|e| e.to_string()) }
            "buf" => { let mut bw = BufWriter::new(w.clone()); let r = verif_dump(&mut bw, items.clone()).map_err(|e| e.to_string());
                       let r2 = r.and_then(|_| bw.flush().map_err(|e| e.to_string()));
                       // do not let BufWriter's Drop retry the flush after an error
                       let _ = bw.into_parts(); r2 }
            "lz4" => match lz4::EncoderBuilder::new().level(1).build(w.clone()) {
                       // a fault while the encoder writes its header is an error of chunk creation (`?` in ExternalChunk::new)
                       Err(e) => Err(e.to_string()),
                       Ok(mut enc) => { let r = verif_dump(&mut enc, items.clone()).map_err(|e| e.to_string());
                                        match r { Ok(()) => enc.finish().1.map_err(|e| e.to_string()), Err(e) => Err(e) } } },
            _ => panic!("glue: stack"),
        };
        let dump_ok = res.is_ok();
        let stored = w.stored.borrow().clone();
        let mut got: Vec<Sx> = Vec::new();
        // optional (cut k): the storage lost its last k bytes before the chunk is read back
        let cut = if args.len() > 4 { args[4].tagged("cut")[0].usize() } else { 0 };
        let stored_r: Vec<u8> = stored[..stored.len().saturating_sub(cut)].to_vec();
        if dump_ok {
            let fr = FaultyR { data: stored_r.clone(), pos: 0, plan: args[3].tagged("rplan").to_vec(), fired: fired.clone() };
            got = match stack {
                "bare" => drain_chunk(Box::new(fr), items.len() + 2),
                "buf" => drain_chunk(Box::new(BufReader::new(fr)), items.len() + 2),
                "lz4" => match lz4::Decoder::new(fr) { Ok(d) => drain_chunk(Box::new(d), items.len() + 2), Err(_) => vec![a("ioerr")] },
                _ => unreachable!(),
            };
        }
        if dump_ok && cut == 0 && args[3].tagged("rplan").is_empty() && stack != "lz4" && stored.len() <= 100000 {
            let mk = || ExternalChunk::<Vec<u8>>::verif_from_reader(Box::new(std::io::Cursor::new(stored.clone()))).map(|r| r.ok());
            if let Some(w) = walk_check(&mk) { emit(a(format!("ORACLE-FAIL:chunk-walked-by-{}", w))); }
        }
        if stack == "bare" || stack == "buf" {
            emit(Sx::L(vec![a("dump"), a(if dump_ok { "ok" } else { "err" })]));
            if dump_ok {
                emit(Sx::L(vec![a("stored"), hex(&stored)]));
                emit(tag("items", got));
            }
        } else {
            emit(a("oracle-only"));
            emit(Sx::L(vec![a("dump"), a(if dump_ok { "1" } else { "0" })]));
            emit(tag("got", got));
            emit(Sx::L(vec![a("fired"), a(*fired.borrow())]));
        }
    })
}

#[derive(Debug)]
struct TagErr(u64);
impl std::fmt::Display for TagErr { fn fmt(&self, f: &mut std::fmt::Formatter<'_>) -> std::fmt::Result { write!(f, "planted error {}", self.0) } }
impl std::error::Error for TagErr {}

pub fn run_kmerge(args: &[Sx]) -> Sx {
    with_panic(|emit| {
        let rev = args[0].atom() == "1";
        let chunks: Vec<Vec<Result<(u64, u64), TagErr>>> = args[1].tagged("chunks").iter().map(|c| c.list().iter().map(|x| {
            let l = x.list();
            match l[0].atom() { "ok" => Ok((l[1].u64(), l[2].u64())), "err" => Err(TagErr(l[1].u64())), _ => panic!("glue: mitem") }
        }).collect()).collect();
        let total: usize = chunks.iter().map(|c| c.len()).sum();
        // the caller-supplied item count is only what len() reports; it must not influence the merged stream
        let n: usize = if args.len() > 3 { match args[3].atom() { "exact" => total, h => h.parse().expect("glue: hint") } } else { total };
        let cmp = move |x: &(u64, u64), y: &(u64, u64)| -> Ordering { if rev { y.0.cmp(&x.0) } else { x.0.cmp(&y.0) } };
        let mut m = BinaryHeapMerger::new(n, chunks, cmp);
        if m.len() != n { emit(a("ORACLE-FAIL:len-differs-from-num-items")); }
        let mut calls = Vec::new();
        for _ in 0..args[2].usize() {
            calls.push(match m.next() { None => a("none"), Some(Ok((k, id))) => Sx::L(vec![a("ok"), a(k), a(id)]), Some(Err(e)) => Sx::L(vec![a("err"), a(e.0)]) });
        }
        emit(tag("calls", calls));
        // error-free chunks: the merged stream is the same however the iterator is walked
        let clean = args[1].tagged("chunks").iter().all(|c| c.list().iter().all(|x| x.list()[0].atom() == "ok"));
        if clean && total <= 400 {
            let mk = || {
                let cs: Vec<Vec<Result<(u64, u64), TagErr>>> = args[1].tagged("chunks").iter().map(|c| c.list().iter().map(|x| { let l = x.list(); Ok((l[1].u64(), l[2].u64())) }).collect()).collect();
                BinaryHeapMerger::new(total, cs, cmp).map(|r| r.ok())
            };
            if let Some(w) = walk_check(&mk) { emit(a(format!("ORACLE-FAIL:merger-walked-by-{}", w))); }
        }
    })
}

fn scratch() -> std::path::PathBuf {
    let d = std::env::var("BEDV_SCRATCH").unwrap_or_else(|_| "/verif/run/scratch".to_string());
    std::fs::create_dir_all(&d).expect("glue: scratch dir");
    std::path::PathBuf::from(d)
}
fn builder(cs: &Sx, threads: &Sx, comp: &Sx, dir: &std::path::Path) -> ExternalSorterBuilder {
    let mut b = ExternalSorterBuilder::new().with_tmp_dir(dir);
    if cs.atom() != "default" { b = b.with_chunk_size(cs.usize()); }
    if threads.atom() != "default" { b = b.num_threads(threads.usize()); }
    if comp.atom() != "none" { b = b.with_compression(comp.u64() as u32); }
    b
}
fn pad(id: u64, n: usize) -> Vec<u8> { (0..n).map(|i| ((id as usize * 31 + i * 7) & 255) as u8).collect() }

pub fn run_xsort(args: &[Sx]) -> Sx {
    with_panic(|emit| {
        let rev = args[3].atom() == "1";
        let items: Vec<(u64, u64, Vec<u8>)> = args[4].tagged("items").iter().map(|x| { let l = x.list(); (l[0].u64(), l[1].u64(), pad(l[1].u64(), if l.len() > 2 { l[2].usize() } else { 0 })) }).collect();
        let pads: std::collections::HashMap<u64, usize> = items.iter().map(|x| (x.1, x.2.len())).collect();
        let dir = tempfile::tempdir_in(scratch()).expect("glue: tempdir");
        let sorter = builder(&args[0], &args[1], &args[2], dir.path()).build().expect("glue: build sorter");
        let cmp = move |x: &(u64, u64, Vec<u8>), y: &(u64, u64, Vec<u8>)| -> Ordering { if rev { y.0.cmp(&x.0) } else { x.0.cmp(&y.0) } };
        if args.len() > 5 && args[5].atom() == "ord" {
            // ExternalSorter::sort (T: Ord) instead of sort_by: the key is wrapped so that Ord looks at the key only
            #[derive(serde::Serialize, serde::Deserialize, Clone, Debug)]
            struct K(u64, u64, Vec<u8>);
            impl PartialEq for K { fn eq(&self, o: &K) -> bool { self.0 == o.0 } }
            impl Eq for K {}
            impl PartialOrd for K { fn partial_cmp(&self, o: &K) -> Option<Ordering> { Some(self.cmp(o)) } }
            impl Ord for K { fn cmp(&self, o: &K) -> Ordering { self.0.cmp(&o.0) } }
            let it = sorter.sort(items.into_iter().map(|x| K(x.0, x.1, x.2))).expect("sort returned an error");
            emit(Sx::L(vec![a("len"), a(it.len())]));
            let mut out = Vec::new();
            for r in it {
                match r {
                    Ok(K(k, id, p)) => { if pads.get(&id).map(|n| pad(id, *n)) != Some(p) { emit(a("ORACLE-FAIL:payload-altered")); } out.push(Sx::L(vec![a("ok"), a(k), a(id)])) }
                    Err(_) => out.push(Sx::L(vec![a("err"), a(0)])),
                }
            }
            emit(tag("out", out));
            return;
        }
        // records whose serialized form is EMPTY (unit, unit struct): n in, n out, for the same configuration
        {
            #[derive(serde::Serialize, serde::Deserialize, PartialEq, Eq, PartialOrd, Ord, Clone, Debug)]
            struct Nothing;
            let n = items.len();
            let d2 = tempfile::tempdir_in(scratch()).expect("glue: tempdir");
            let s2 = builder(&args[0], &args[1], &args[2], d2.path()).build().expect("glue: build sorter");
            let it = s2.sort(vec![(); n]).expect("sort of unit records returned an error");
            if it.len() != n || it.filter(|r| r.is_ok()).count() != n { emit(a("ORACLE-FAIL:unit-records-lost")); }
            let it = s2.sort_by(vec![Nothing; n], |_, _| Ordering::Equal).expect("sort of unit-struct records returned an error");
            if it.len() != n || it.filter(|r| r.is_ok()).count() != n { emit(a("ORACLE-FAIL:unit-struct-records-lost")); }
        }
        // small inputs: the sorted key sequence is the same however the returned iterator is walked
        // (every walk builds a fresh sorter: only a sample of the small cases pays for it)
        if items.len() <= 12 && items.iter().all(|x| x.2.len() <= 64) && (items.iter().map(|x| x.0 as usize + x.1 as usize).sum::<usize>() + items.len()) % 6 == 0 {
            let mk = || {
                let d3 = tempfile::tempdir_in(scratch()).expect("glue: tempdir");
                let s3 = builder(&args[0], &args[1], &args[2], d3.path()).build().expect("glue: build sorter");
                let v: Vec<Option<u64>> = Vec::new(); let _ = v;
                s3.sort_by(items.clone(), cmp).expect("sort_by returned an error").map(|r| r.ok().map(|x| x.0))
            };
            if let Some(w) = walk_check(&mk) { emit(a(format!("ORACLE-FAIL:sorted-stream-walked-by-{}", w))); }
        }
        let it = sorter.sort_by(items, cmp).expect("sort_by returned an error");
        emit(Sx::L(vec![a("len"), a(it.len())]));
        // the returned stream does not borrow the sorter: dropping the sorter first must not matter
        let mut sorter = Some(sorter);
        if args.len() > 5 && args[5].atom() == "dropfirst" { sorter.take(); }
        let mut out = Vec::new();
        for r in it {
            match r {
                Ok((k, id, p)) => { if pads.get(&id).map(|n| pad(id, *n)) != Some(p) { emit(a("ORACLE-FAIL:payload-altered")); } out.push(Sx::L(vec![a("ok"), a(k), a(id)])) }
                Err(_) => out.push(Sx::L(vec![a("err"), a(0)])),
            }
        }
        drop(sorter);
        emit(tag("out", out));
    })
}

/// (xsortquota cs comp quota n): the real sorter with the process file-size limit (RLIMIT_FSIZE, SIGXFSZ ignored) set to
/// `quota` bytes, i.e. a disk that fills up: either an error is reported (by sort_by or as an Err item) or every record
/// comes back in order.  Judged here (oracle-only case): `ok` or an ORACLE-FAIL marker.
pub fn run_xsortquota(args: &[Sx]) -> Sx {
    with_panic(|emit| {
        let n = args[3].u64();
        let quota = args[2].u64();
        let items: Vec<(u64, u64)> = (0..n).map(|i| ((i * 7919) % 1009, i)).collect();
        let mut expect = items.clone();
        expect.sort();
        let dir = tempfile::tempdir_in(scratch()).expect("glue: tempdir");
        let sorter = builder(&args[0], &a("1"), &args[1], dir.path()).build().expect("glue: build sorter");
        let mut old = libc::rlimit { rlim_cur: 0, rlim_max: 0 };
        unsafe {
            libc::signal(libc::SIGXFSZ, libc::SIG_IGN);
            libc::getrlimit(libc::RLIMIT_FSIZE, &mut old);
            let new = libc::rlimit { rlim_cur: quota, rlim_max: old.rlim_max };
            libc::setrlimit(libc::RLIMIT_FSIZE, &new);
        }
        let res = sorter.sort_by(items, |x: &(u64, u64), y: &(u64, u64)| x.cmp(y));
        let verdict = match res {
            Err(_) => "reported".to_string(),
            Ok(it) => {
                let got: Vec<Result<(u64, u64), ()>> = it.map(|r| r.map_err(|_| ())).collect();
                if got.iter().any(|r| r.is_err()) { "reported".to_string() }
                else if got.iter().map(|r| *r.as_ref().unwrap()).collect::<Vec<_>>() == expect { "complete".to_string() }
                else { format!("ORACLE-FAIL:silent-loss-{}-of-{}", got.len(), n) }
            }
        };
        unsafe { libc::setrlimit(libc::RLIMIT_FSIZE, &old); }
        emit(a("oracle-only"));
        emit(a(verdict));
    })
}

static CMP_COUNT: std::sync::atomic::AtomicUsize = std::sync::atomic::AtomicUsize::new(0);

/// two sorts on ONE sorter object; the two result iterators are consumed alternately
pub fn run_xsort2(args: &[Sx]) -> Sx {
    with_panic(|emit| {
        let rev = args[3].atom() == "1";
        let mk = |x: &Sx| -> Vec<(u64, u64, Vec<u8>)> { x.tagged("items").iter().map(|x| { let l = x.list(); (l[0].u64(), l[1].u64(), pad(l[1].u64(), if l.len() > 2 { l[2].usize() } else { 0 })) }).collect() };
        let (ia, ib) = (mk(&args[4]), mk(&args[5]));
        let dir = tempfile::tempdir_in(scratch()).expect("glue: tempdir");
        let sorter = builder(&args[0], &args[1], &args[2], dir.path()).build().expect("glue: build sorter");
        let cmp = move |x: &(u64, u64, Vec<u8>), y: &(u64, u64, Vec<u8>)| -> Ordering { if rev { y.0.cmp(&x.0) } else { x.0.cmp(&y.0) } };
        let mut it_a = sorter.sort_by(ia, cmp).expect("sort_by returned an error");
        let mut it_b = sorter.sort_by(ib, cmp).expect("sort_by returned an error");
        let (la, lb) = (it_a.len(), it_b.len());
        let (mut oa, mut ob) = (Vec::new(), Vec::new());
        let conv = |r: Result<(u64, u64, Vec<u8>), _>| match r { Ok((k, id, p)) => { if pad(id, p.len()) != p { a("ORACLE-FAIL:payload-altered") } else { Sx::L(vec![a("ok"), a(k), a(id)]) } } Err(_) => Sx::L(vec![a("err"), a(0)]) };
        loop {
            let (xa, xb) = (it_a.next(), it_b.next());
            if xa.is_none() && xb.is_none() { break; }
            if let Some(r) = xa { oa.push(conv(r)); }
            if let Some(r) = xb { ob.push(conv(r)); }
        }
        emit(Sx::L(vec![a("len"), a(la)])); emit(tag("out", oa));
        emit(Sx::L(vec![a("len"), a(lb)])); emit(tag("out", ob));
    })
}

fn listing(root: &std::path::Path) -> Vec<Sx> {
    use std::os::unix::ffi::OsStrExt;
    fn walk(root: &std::path::Path, d: &std::path::Path, out: &mut Vec<Vec<u8>>) {
        if let Ok(rd) = std::fs::read_dir(d) {
            for e in rd.flatten() {
                let p = e.path();
                out.push(p.strip_prefix(root).unwrap().as_os_str().as_bytes().to_vec());
                if p.is_dir() { walk(root, &p, out); }
            }
        }
    }
    let mut v = Vec::new();
    walk(root, root, &mut v);
    v.sort();
    v.into_iter().map(|s| hex(&s)).collect()
}

/// files this process holds open under `root` (also unlinked ones, shown by /proc as "... (deleted)"), relative to root
fn open_under(root: &std::path::Path) -> Vec<Sx> {
    use std::os::unix::ffi::OsStrExt;
    let mut v: Vec<Vec<u8>> = Vec::new();
    let rootb = root.as_os_str().as_bytes();
    if let Ok(rd) = std::fs::read_dir("/proc/self/fd") {
        for e in rd.flatten() {
            if let Ok(t) = std::fs::read_link(e.path()) {
                let mut t = t.as_os_str().as_bytes().to_vec();
                if t.ends_with(b" (deleted)") { t.truncate(t.len() - 10); }
                if t.len() > rootb.len() + 1 && t.starts_with(rootb) && t[rootb.len()] == b'/' {
                    v.push(t[rootb.len() + 1..].to_vec());
                }
            }
        }
    }
    v.sort();
    v.into_iter().map(|s| hex(&s)).collect()
}

/// (tmp (steps ...) n_items exit k drop_order where): one lifetime of a sorter; prints recursive listings of a scratch
/// root holding `c` (the configured directory, with a file and a sub-directory in it) and `o` (where TMPDIR points when a
/// directory is configured explicitly).  steps = builder calls in the given order: (dir) (cs n) (threads n) (comp n).
/// where = dir | env (no with_tmp_dir: TMPDIR=c) | missing (with_tmp_dir(c/not-there/x), which does not exist).
pub fn run_tmp(args: &[Sx]) -> Sx {
    with_panic(|emit| {
        let root = tempfile::tempdir_in(scratch()).expect("glue: tempdir");
        let conf = root.path().join("c");
        let other = root.path().join("o");
        std::fs::create_dir(&conf).unwrap();
        std::fs::create_dir(&other).unwrap();
        std::fs::write(conf.join("keep.txt"), b"x").unwrap();
        std::fs::create_dir(conf.join("keepdir")).unwrap();
        std::fs::write(conf.join("keepdir").join("inner"), b"y").unwrap();
        // entries that LOOK like what a crashed sorter might have left behind (tempfile-style names, empty, old): they were
        // there before the sorter was built, so they must still be there afterwards
        for d in [&conf, &other] {
            for (name, is_dir, age_days) in [(".tmpZk3P9d", true, 3u64), (".tmpAAAAAA", true, 400), (".tmp_cache", true, 30), (".tmpQ1w2E3", false, 9), ("bed-utils-old", true, 50)] {
                let p = d.join(name);
                if is_dir { std::fs::create_dir(&p).unwrap(); } else { std::fs::write(&p, b"").unwrap(); }
                let t = std::time::SystemTime::now() - std::time::Duration::from_secs(age_days * 86400);
                if let Ok(f) = std::fs::File::open(&p) { let _ = f.set_modified(t); }
            }
        }
        let n = args[1].usize();
        let exit = args[2].atom().to_string();      // returned | panic_input | panic_cmp
        let at = args[3].usize();                  // position of the panic / number of items consumed
        let order = args[4].atom().to_string();     // iter_first | sorter_first
        let wh = args[5].atom().to_string();
        // nonutf8: the configured directory has a name that is not valid UTF-8; relchdir: it is given as a RELATIVE path
        // and the process changes its working directory while the sorter is alive
        use std::os::unix::ffi::OsStrExt;
        let odd = root.path().join(std::ffi::OsStr::from_bytes(b"donn\xe9es"));
        if wh == "nonutf8" { std::fs::create_dir(&odd).unwrap(); }
        let start_cwd = std::env::current_dir().unwrap();
        if wh == "relchdir" { std::env::set_current_dir(root.path()).unwrap(); }
        let cfg = if wh == "missing" { conf.join("not-there").join("x") } else if wh == "nonutf8" { odd.clone() }
                  else if wh == "relchdir" { std::path::PathBuf::from("c") } else { conf.clone() };
        std::env::set_var("TMPDIR", if wh == "env" { &conf } else { &other });
        let before = listing(root.path());
        let during = RefCell::new(Vec::<Sx>::new());
        let opens = RefCell::new(Vec::<Sx>::new());
        let snap = || { during.borrow_mut().push(Sx::L(listing(root.path()))); opens.borrow_mut().push(Sx::L(open_under(root.path()))); };
        let built = RefCell::new(true);
        let r = std::panic::catch_unwind(std::panic::AssertUnwindSafe(|| {
            let mut b = ExternalSorterBuilder::new();
            for st in args[0].tagged("steps") {
                let st = st.list();
                match st[0].atom() {
                    "dir" => { if wh != "env" { b = b.with_tmp_dir(&cfg); } }
                    "cs" => b = b.with_chunk_size(st[1].usize()),
                    "threads" => b = b.num_threads(st[1].usize()),
                    "comp" => b = b.with_compression(st[1].u64() as u32),
                    _ => panic!("glue: builder step"),
                }
            }
            let sorter = match b.build() { Ok(s) => s, Err(_) => { *built.borrow_mut() = false; snap(); return; } };
            // (a build that fails although its directory exists is reported below)
            snap();
            let exit2 = exit.clone();
            let input = (0..n as u64).map(|i| { if exit2 == "panic_input" && i as usize == at { snap(); panic!("planned input panic"); } ((i * 7919) % 101, i) });
            let panic_cmp = exit == "panic_cmp";
            CMP_COUNT.store(0, std::sync::atomic::Ordering::SeqCst);
            let cmp = move |x: &(u64, u64), y: &(u64, u64)| -> Ordering {
                if panic_cmp && CMP_COUNT.fetch_add(1, std::sync::atomic::Ordering::SeqCst) == at { panic!("planned comparator panic"); }
                x.0.cmp(&y.0)
            };
            let mut it = sorter.sort_by(input, cmp).expect("sort_by returned an error");
            snap();
            if wh == "relchdir" { std::env::set_current_dir(&other).unwrap(); }
            if exit == "returned" { for _ in 0..at { if it.next().is_none() { break; } } snap(); }
            if order == "iter_first" { drop(it); snap(); drop(sorter); } else { drop(sorter); snap(); let rest = it.count(); let _ = rest; }
        }));
        std::env::set_current_dir(&start_cwd).unwrap();
        std::env::remove_var("TMPDIR");
        let after = listing(root.path());
        emit(a("oracle-only"));
        emit(Sx::L(vec![a("unwound"), a(r.is_err() as u8)]));
        emit(Sx::L(vec![a("built"), a(*built.borrow() as u8)]));
        // only a configured directory that does not exist may make build() fail; state left behind by EARLIER sorters of
        // this process (earlier cases) must not
        if !*built.borrow() && wh != "missing" { emit(a("ORACLE-FAIL:build-failed-although-the-configured-directory-exists")); }
        let cfg_abs = if wh == "relchdir" { conf.clone() } else { cfg.clone() };
        emit(Sx::L(vec![a("cfg"), hex(cfg_abs.strip_prefix(root.path()).unwrap().as_os_str().as_bytes())]));
        emit(tag("before", before));
        emit(tag("during", during.into_inner()));
        emit(tag("after", after));
        emit(tag("opens", opens.into_inner()));
    })
}

/// xsortrec: the crate's own record types through the external sorter, ordered by BEDLike::compare.
/// (xsortrec type cs threads comp (recs (rank id record-fields...)...)): `rank` is the position of the record's
/// (chrom,start,end) among the distinct keys (computed by the generator), so the expected order is by rank;
/// every returned record must be field-for-field the one supplied under its id.
fn sort_recs<T>(build: impl Fn(&[Sx]) -> T, args: &[Sx], emit: &dyn Fn(Sx))
where T: bed_utils::bed::BEDLike + serde::Serialize + serde::de::DeserializeOwned + Send + Clone + PartialEq {
    let items: Vec<(u64, u64, T)> = args[4].tagged("recs").iter().map(|x| { let l = x.list(); (l[0].u64(), l[1].u64(), build(&l[2..])) }).collect();
    let orig: std::collections::HashMap<u64, T> = items.iter().map(|x| (x.1, x.2.clone())).collect();
    let dir = tempfile::tempdir_in(scratch()).expect("glue: tempdir");
    let sorter = builder(&args[1], &args[2], &args[3], dir.path()).build().expect("glue: build sorter");
    let it = sorter.sort_by(items, |a: &(u64, u64, T), b: &(u64, u64, T)| a.2.compare(&b.2)).expect("sort_by returned an error");
    emit(Sx::L(vec![a("len"), a(it.len())]));
    let mut out = Vec::new();
    for r in it {
        match r {
            Ok((k, id, rec)) => { if orig.get(&id) != Some(&rec) { emit(a("ORACLE-FAIL:record-altered")); } out.push(Sx::L(vec![a("ok"), a(k), a(id)])) }
            Err(_) => out.push(Sx::L(vec![a("err"), a(0)])),
        }
    }
    emit(tag("out", out));
}
pub fn run_xsortrec(args: &[Sx]) -> Sx {
    use crate::text::{bedn, bp, np};
    use bed_utils::bed::{BedGraph, GenomicRange};
    with_panic(|emit| match args[0].atom() {
        "gr" => sort_recs(|l| GenomicRange::new(l[0].string(), l[1].u64(), l[2].u64()), args, emit),
        "bed3" => sort_recs(|l| bedn::<3>(l), args, emit),
        "bed4" => sort_recs(|l| bedn::<4>(l), args, emit),
        "bed5" => sort_recs(|l| bedn::<5>(l), args, emit),
        "bed6" => sort_recs(|l| bedn::<6>(l), args, emit),
        "np" => sort_recs(|l| np(l), args, emit),
        "bp" => sort_recs(|l| bp(l), args, emit),
        "bgi" => sort_recs(|l| BedGraph::<i64>::new(l[0].string(), l[1].u64(), l[2].u64(), l[3].i64()), args, emit),
        "bgf" => sort_recs(|l| BedGraph::<f64>::new(l[0].string(), l[1].u64(), l[2].u64(), f64::from_bits(l[3].u64())), args, emit),
        _ => panic!("glue: type"),
    })
}

//! Minimal S-expression reader/printer shared by all case kinds (trusted glue).
#[derive(Debug, Clone, PartialEq)]
pub enum Sx {
    A(String),
    L(Vec<Sx>),
}

impl Sx {
    pub fn parse(s: &str) -> Result<Sx, String> {
        let b = s.as_bytes();
        let mut pos = 0usize;
        let r = Self::item(b, &mut pos)?;
        while pos < b.len() && (b[pos] == b' ' || b[pos] == b'\r' || b[pos] == b'\t') {
            pos += 1;
        }
        if pos != b.len() {
            return Err("trailing".into());
        }
        Ok(r)
    }
    fn item(b: &[u8], pos: &mut usize) -> Result<Sx, String> {
        while *pos < b.len() && (b[*pos] == b' ' || b[*pos] == b'\t' || b[*pos] == b'\r') {
            *pos += 1;
        }
        if *pos >= b.len() {
            return Err("eof".into());
        }
        if b[*pos] == b'(' {
            *pos += 1;
            let mut v = Vec::new();
            loop {
                while *pos < b.len() && (b[*pos] == b' ' || b[*pos] == b'\t' || b[*pos] == b'\r') {
                    *pos += 1;
                }
                if *pos >= b.len() {
                    return Err("unclosed".into());
                }
                if b[*pos] == b')' {
                    *pos += 1;
                    return Ok(Sx::L(v));
                }
                v.push(Self::item(b, pos)?);
            }
        } else if b[*pos] == b')' {
            Err("unexpected )".into())
        } else {
            let st = *pos;
            while *pos < b.len() && !matches!(b[*pos], b' ' | b'(' | b')' | b'\t') {
                *pos += 1;
            }
            Ok(Sx::A(String::from_utf8_lossy(&b[st..*pos]).into_owned()))
        }
    }
    pub fn write(&self, out: &mut String) {
        match self {
            Sx::A(s) => out.push_str(s),
            Sx::L(v) => {
                out.push('(');
                for (i, x) in v.iter().enumerate() {
                    if i > 0 {
                        out.push(' ');
                    }
                    x.write(out);
                }
                out.push(')');
            }
        }
    }
    pub fn atom(&self) -> &str {
        match self {
            Sx::A(s) => s,
            _ => panic!("glue: atom expected"),
        }
    }
    pub fn list(&self) -> &[Sx] {
        match self {
            Sx::L(v) => v,
            Sx::A(s) => panic!("glue: list expected, got {}", s),
        }
    }
    /// (tag items...) -> items
    pub fn tagged(&self, tag: &str) -> &[Sx] {
        let l = self.list();
        assert!(!l.is_empty() && l[0] == Sx::A(tag.to_string()), "glue: expected ({} ...)", tag);
        &l[1..]
    }
    pub fn head(&self) -> &str {
        self.list()[0].atom()
    }
    pub fn u64(&self) -> u64 {
        self.atom().parse().expect("glue: u64")
    }
    pub fn i64(&self) -> i64 {
        self.atom().parse().expect("glue: i64")
    }
    pub fn usize(&self) -> usize {
        self.atom().parse().expect("glue: usize")
    }
    pub fn bytes(&self) -> Vec<u8> {
        let s = self.atom();
        if s == "-" {
            return vec![];
        }
        (0..s.len() / 2).map(|i| u8::from_str_radix(&s[2 * i..2 * i + 2], 16).expect("glue: hex")).collect()
    }
    pub fn string(&self) -> String {
        String::from_utf8(self.bytes()).expect("glue: utf8")
    }
}

pub fn a<T: ToString>(x: T) -> Sx {
    Sx::A(x.to_string())
}
pub fn hex(b: &[u8]) -> Sx {
    if b.is_empty() {
        return Sx::A("-".into());
    }
    let mut s = String::with_capacity(b.len() * 2);
    for x in b {
        s.push_str(&format!("{:02x}", x));
    }
    Sx::A(s)
}
pub fn tag(t: &str, mut items: Vec<Sx>) -> Sx {
    let mut v = vec![Sx::A(t.to_string())];
    v.append(&mut items);
    Sx::L(v)
}

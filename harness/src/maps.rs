//! gmap / iset / imap / cov / bcov cases: src/bed/map.rs and src/coverage.rs
use crate::sexp::*;
use crate::util::*;
use bed_utils::bed::map::{GIntervalIndexMap, GIntervalIndexSet, GIntervalMap};
use bed_utils::bed::{BEDLike, GenomicRange, NarrowPeak, BED};
use bed_utils::coverage::{BinnedCoverage, Coverage, SparseBinnedCoverage, SparseCoverage};

fn q(o: &[Sx]) -> GenomicRange {
    GenomicRange::new(o[1].string(), o[2].u64(), o[3].u64())
}

pub fn run_gmap(args: &[Sx]) -> Sx {
    with_panic(|emit| {
        let recs = args[0].tagged("recs");
        let mut m: GIntervalMap<u32> = if recs.is_empty() {
            GIntervalMap::new()
        } else {
            recs.iter().map(|r| (region(r), r.list()[3].u64() as u32)).collect()
        };
        let item = |(g, v): (GenomicRange, &u32)| Sx::L(vec![hex(g.chrom().as_bytes()), a(g.start()), a(g.end()), a(*v)]);
        // a shadow map built from BED<6> / NarrowPeak views (every strand, name, score) of the same records
        let mut mv: GIntervalMap<u32> = if recs.is_empty() { GIntervalMap::new() } else {
            recs.iter().enumerate().map(|(i, r)| (bed6v(&region(r), i), r.list()[3].u64() as u32)).collect() };
        let key = |(g, v): (GenomicRange, &u32)| (g.chrom().to_string(), g.start(), g.end(), *v);
        for (opi, o) in args[1].tagged("ops").iter().enumerate() {
            let o = o.list();
            match o[0].atom() {
                "ins" => { m.insert(&q(o), o[4].u64() as u32); if opi % 2 == 0 { mv.insert(&npv(&q(o), opi), o[4].u64() as u32) } else { mv.insert(&bed6v(&q(o), opi), o[4].u64() as u32) } }
                "find" => {
                    let qq = q(o);
                    if let Some(w) = walk_check(&|| m.find(&qq).map(|(g, v)| (g, *v))) { emit(a(format!("ORACLE-FAIL:gmap.find-walked-by-{}", w))); }
                    let mut h0: Vec<_> = m.find(&qq).map(key).collect(); h0.sort();
                    for k in 0..3usize {
                        let mut h1: Vec<_> = m.find(&bed6v(&qq, opi + k)).map(key).collect(); h1.sort();
                        let mut h2: Vec<_> = mv.find(&npv(&qq, opi + k)).map(key).collect(); h2.sort();
                        if h1 != h0 || h2 != h0 || m.is_overlapped(&bed6v(&qq, opi + k)) != !h0.is_empty() || mv.is_overlapped(&qq) != !h0.is_empty() { emit(a("ORACLE-FAIL:gmap-lookup-depends-on-record-type/strand/name/score")); break; }
                    }
                    emit(tag("h", m.find(&qq).map(item).collect()))
                }
                "isov" => emit(a(m.is_overlapped(&q(o)) as u8)),
                "len" => emit(a(m.len())),
                "iter" => {
                    if let Some(w) = walk_check(&|| m.iter().map(|(g, v)| (g, *v))) { emit(a(format!("ORACLE-FAIL:gmap.iter-walked-by-{}", w))); }
                    emit(tag("h", m.iter().map(item).collect()))
                }
                _ => panic!("glue: gmap op"),
            }
        }
    })
}

pub fn run_iset(args: &[Sx]) -> Sx {
    with_panic(|emit| {
        let s: GIntervalIndexSet = args[0].tagged("regs").iter().map(region).collect();
        for o in args[1].tagged("ops") {
            let o = o.list();
            match o[0].atom() {
                "get" => {
                    let i = o[1].usize();
                    let g = s.get(i).map(sx_region).unwrap_or(a("none"));
                    if i < s.len() {
                        // Index must agree with get inside the range
                        if !(&s[i] == s.get(i).unwrap()) { emit(a("ORACLE-FAIL:Index-and-get-disagree")) };
                    }
                    emit(g)
                }
                "len" => emit(a(s.len())),
                "iter" => {
                    let v: Vec<Sx> = s.iter().map(sx_region).collect();
                    let v2: Vec<Sx> = s.clone().into_iter().map(|g| sx_region(&g)).collect();
                    if v != v2 { emit(a("ORACLE-FAIL:iter-and-into_iter-disagree")) }
                    if let Some(w) = walk_check(&|| s.iter().cloned()) { emit(a(format!("ORACLE-FAIL:iset.iter-walked-by-{}", w))); }
                    emit(tag("it", v))
                }
                "find" => {
                    let qq = q(o);
                    if let Some(w) = walk_check(&|| s.find(&qq)) { emit(a(format!("ORACLE-FAIL:iset.find-walked-by-{}", w))); }
                    emit(tag("h", s.find(&qq).map(|g| sx_region(&g)).collect()))
                }
                "findidx" => {
                    let qq = q(o);
                    if let Some(w) = walk_check(&|| s.find_index_of(&qq)) { emit(a(format!("ORACLE-FAIL:iset.find_index_of-walked-by-{}", w))); }
                    emit(tag("h", s.find_index_of(&qq).map(a).collect()))
                }
                "findfull" => {
                    let qq = q(o);
                    if let Some(w) = walk_check(&|| s.find_full(&qq).map(|(g, i)| (g, *i))) { emit(a(format!("ORACLE-FAIL:iset.find_full-walked-by-{}", w))); }
                    emit(tag("h", s.find_full(&qq).map(|(g, i)| Sx::L(vec![sx_region(&g), a(*i)])).collect()))
                }
                "isov" => emit(a(s.is_overlapped(&q(o)) as u8)),
                _ => panic!("glue: iset op"),
            }
        }
    })
}

pub fn run_imap(args: &[Sx]) -> Sx {
    with_panic(|emit| {
        let s: GIntervalIndexMap<u64> = args[0].tagged("recs").iter().map(|r| (region(r), r.list()[3].u64())).collect();
        for o in args[1].tagged("ops") {
            let o = o.list();
            match o[0].atom() {
                "get" => emit(s.get(o[1].usize()).map(a).unwrap_or(a("none"))),
                "len" => emit(a(s.len())),
                "find" => {
                    let qq = q(o);
                    if let Some(w) = walk_check(&|| s.find(&qq).map(|(g, v)| (g, *v))) { emit(a(format!("ORACLE-FAIL:imap.find-walked-by-{}", w))); }
                    emit(tag("h", s.find(&qq).map(|(g, v)| Sx::L(vec![sx_region(&g), a(*v)])).collect()))
                }
                "findidx" => emit(tag("h", s.find_index_of(&q(o)).map(|(_, i)| a(*i)).collect())),
                _ => panic!("glue: imap op"),
            }
        }
    })
}

fn total(x: f64) -> Sx {
    // multiplicities are small integers, so the f64 total is exact
    if x.fract() == 0.0 && x.abs() < 1e15 {
        a(x as i64)
    } else {
        a(format!("f{}", x))
    }
}

pub fn run_cov(args: &[Sx]) -> Sx {
    with_panic(|emit| {
        let s: GIntervalIndexSet = args[0].tagged("regs").iter().map(region).collect();
        let mut d: Coverage<i64> = Coverage::new(&s);
        let mut sp: SparseCoverage<i64> = SparseCoverage::new(&s);
        // shadow counters with a narrow element type: total_count is an f64 and must not depend on the counter type
        let narrow_ok = args[1].tagged("ops").iter().all(|o| { let o = o.list(); match o[0].atom() { "ins" => (0..=2).contains(&o[4].i64()), "insat" => (0..=2).contains(&o[2].i64()), _ => true } });
        let mut d8: Coverage<u8> = Coverage::new(&s);
        let mut sp8: SparseCoverage<u8> = SparseCoverage::new(&s);
        let narrow_live = std::cell::Cell::new(narrow_ok);
        // shadow counters fed with the same tags as BED<6> / NarrowPeak records of every strand, name and score: the
        // counts depend on (chrom, start, end) and the multiplicity only
        let mut dv: Coverage<i64> = Coverage::new(&s);
        let mut spv: SparseCoverage<i64> = SparseCoverage::new(&s);
        for (opi, o) in args[1].tagged("ops").iter().enumerate() {
            let o = o.list();
            match o[0].atom() {
                "ins" => {
                    let t = q(o);
                    let k = o[4].i64();
                    d.insert(&t, k);
                    sp.insert(&t, k);
                    if opi % 2 == 0 { dv.insert(&bed6v(&t, opi), k); spv.insert(&npv(&t, opi), k); } else { dv.insert(&npv(&t, opi), k); spv.insert(&bed6v(&t, opi), k); }
                    // the u8 counters are driven only while no per-region count can overflow them
                    if d.get_coverage().iter().any(|c| *c > 250) { narrow_live.set(false); }
                    if narrow_live.get() { d8.insert(&t, k as u8); sp8.insert(&t, k as u8); }
                }
                "insat" => {
                    d.insert_at_index::<GenomicRange>(o[1].usize(), o[2].i64());
                    sp.insert_at_index::<GenomicRange>(o[1].usize(), o[2].i64());
                    dv.insert_at_index::<BED<6>>(o[1].usize(), o[2].i64());
                    spv.insert_at_index::<NarrowPeak>(o[1].usize(), o[2].i64());
                    if d.get_coverage().iter().any(|c| *c > 250) { narrow_live.set(false); }
                    if narrow_live.get() { d8.insert_at_index::<GenomicRange>(o[1].usize(), o[2].i64() as u8); sp8.insert_at_index::<GenomicRange>(o[1].usize(), o[2].i64() as u8); }
                }
                "reset" => {
                    d.reset();
                    sp.reset();
                    d8.reset(); sp8.reset(); dv.reset(); spv.reset();
                }
                "get" => {
                    emit(Sx::L(vec![a("dense"), total(d.total_count()), a(d.len()), Sx::L(d.get_coverage().iter().map(a).collect())]));
                    emit(Sx::L(vec![a("sparse"), total(sp.total_count()), a(sp.len()), Sx::L(sp.get_coverage_as_vec().iter().map(a).collect())]));
                    if narrow_live.get() && (d8.total_count() != d.total_count() || sp8.total_count() != d.total_count()
                        || d8.get_coverage().iter().map(|x| *x as i64).collect::<Vec<_>>() != *d.get_coverage()) { emit(a("ORACLE-FAIL:u8-counters-disagree-with-i64-counters")); }
                    if dv.get_coverage() != d.get_coverage() || spv.get_coverage_as_vec() != sp.get_coverage_as_vec() || dv.total_count() != d.total_count() || spv.total_count() != sp.total_count() {
                        emit(a("ORACLE-FAIL:counts-depend-on-the-tag-record-type/strand/name/score"));
                    }
                    if let Some(w) = walk_check(&|| d.regions().cloned()) { emit(a(format!("ORACLE-FAIL:Coverage.regions-walked-by-{}", w))); }
                    if let Some(w) = walk_check(&|| sp.regions().cloned()) { emit(a(format!("ORACLE-FAIL:SparseCoverage.regions-walked-by-{}", w))); }
                    // the sparse map itself must hold exactly the entries of the vector view
                    for (i, v) in sp.get_coverage().iter() {
                        if !(sp.get_coverage_as_vec()[*i] == *v) { emit(a("ORACLE-FAIL:sparse-map-and-vector-view-disagree")) };
                    }
                    // regions() / get_region keep positional identity
                    for (i, r) in d.regions().enumerate() {
                        if !(d.get_region(i) == Some(r) && sp.get_region(i) == Some(r)) { emit(a("ORACLE-FAIL:regions/get_region-disagree")) };
                    }
                }
                _ => panic!("glue: cov op"),
            }
        }
    })
}

pub fn run_bcov(args: &[Sx]) -> Sx {
    with_panic(|emit| {
        let b = args[0].u64();
        let s: GIntervalIndexSet = args[1].tagged("regs").iter().map(region).collect();
        let mut d: BinnedCoverage<i64> = BinnedCoverage::new(&s, b);
        let mut sp: SparseBinnedCoverage<i64> = SparseBinnedCoverage::new(&s, b);
        let mut dv: BinnedCoverage<i64> = BinnedCoverage::new(&s, b);
        let mut spv: SparseBinnedCoverage<i64> = SparseBinnedCoverage::new(&s, b);
        for (opi, o) in args[2].tagged("ops").iter().enumerate() {
            let o = o.list();
            match o[0].atom() {
                "ins" => {
                    let t = q(o);
                    let k = o[4].i64();
                    d.insert(&t, k);
                    sp.insert(&t, k);
                    if opi % 2 == 0 { dv.insert(&bed6v(&t, opi), k); spv.insert(&npv(&t, opi), k); } else { dv.insert(&npv(&t, opi), k); spv.insert(&bed6v(&t, opi), k); }
                }
                "reset" => {
                    d.reset();
                    sp.reset();
                    dv.reset(); spv.reset();
                }
                "get" => {
                    emit(Sx::L(vec![a("dense"), total(d.total_count()), Sx::L(d.get_coverage().iter().map(|r| Sx::L(r.iter().map(a).collect())).collect())]));
                    emit(Sx::L(vec![a("sparse"), total(sp.total_count()), a(sp.len()), Sx::L(sp.get_coverage_as_vec().iter().map(a).collect())]));
                    if dv.get_coverage() != d.get_coverage() || spv.get_coverage_as_vec() != sp.get_coverage_as_vec() || dv.total_count() != d.total_count() || spv.total_count() != sp.total_count() {
                        emit(a("ORACLE-FAIL:binned-counts-depend-on-the-tag-record-type/strand/name/score"));
                    }
                }
                "len" => {
                    emit(a(d.len()));
                    emit(a(sp.len()));
                }
                "regions" => {
                    let r1: Vec<Sx> = d.regions().map(|it| Sx::L(it.map(|g| sx_region(&g)).collect())).collect();
                    let r2: Vec<Sx> = sp.regions().map(|it| Sx::L(it.map(|g| sx_region(&g)).collect())).collect();
                    if !(r1 == r2) { emit(a("ORACLE-FAIL:dense-and-sparse-regions-disagree")) };
                    if let Some(w) = walk_check(&|| d.regions().map(|it| it.collect::<Vec<_>>())) { emit(a(format!("ORACLE-FAIL:BinnedCoverage.regions-walked-by-{}", w))); }
                    if let Some(w) = walk_check(&|| sp.regions().map(|it| it.collect::<Vec<_>>())) { emit(a(format!("ORACLE-FAIL:SparseBinnedCoverage.regions-walked-by-{}", w))); }
                    if let Some(first) = d.regions().next() { if let Some(w) = walk_check(&|| d.regions().next().unwrap()) { let _ = &first; emit(a(format!("ORACLE-FAIL:bins-of-a-region-walked-by-{}", w))); } }
                    emit(tag("regions", r1));
                }
                "getregion" => emit(sp.get_region(o[1].usize()).map(|g| sx_region(&g)).unwrap_or(a("none"))),
                "getchrom" => emit(sp.get_chrom(o[1].usize()).map(|c| hex(c.as_bytes())).unwrap_or(a("none"))),
                _ => panic!("glue: bcov op"),
            }
        }
    })
}

/// the sparse binned counter alone: region lists whose total number of bins no dense vector could hold
pub fn run_sbcov(args: &[Sx]) -> Sx {
    with_panic(|emit| {
        let b = args[0].u64();
        let s: GIntervalIndexSet = args[1].tagged("regs").iter().map(region).collect();
        let mut sp: SparseBinnedCoverage<i64> = SparseBinnedCoverage::new(&s, b);
        let mut spv: SparseBinnedCoverage<i64> = SparseBinnedCoverage::new(&s, b);
        for (opi, o) in args[2].tagged("ops").iter().enumerate() {
            let o = o.list();
            match o[0].atom() {
                "ins" => { let t = q(o); let k = o[4].i64(); sp.insert(&t, k); spv.insert(&bed6v(&t, opi), k); }
                "reset" => { sp.reset(); spv.reset(); }
                "getmap" => {
                    if spv.get_coverage() != sp.get_coverage() || spv.total_count() != sp.total_count() { emit(a("ORACLE-FAIL:sparse-binned-counts-depend-on-the-tag-record-type")); }
                    emit(Sx::L(vec![a("smap"), total(sp.total_count()), a(sp.len()), Sx::L(sp.get_coverage().iter().map(|(i, v)| Sx::L(vec![a(*i), a(*v)])).collect())]));
                }
                "getregion" => emit(sp.get_region(o[1].usize()).map(|g| sx_region(&g)).unwrap_or(a("none"))),
                "getchrom" => emit(sp.get_chrom(o[1].usize()).map(|c| hex(c.as_bytes())).unwrap_or(a("none"))),
                _ => panic!("glue: sbcov op"),
            }
        }
    })
}

//! Correspondence harness: reads one case per line (S-expression) on stdin, runs the REAL
//! bed-utils code on it, prints one canonical result line per case.
mod sexp;
mod lap;
mod util;
mod maps;
mod algebra;
mod text;
mod extsort;
use sexp::*;
use std::io::{BufRead, Write};

fn run_case(x: &Sx) -> Sx {
    let l = x.list();
    match l[0].atom() {
        "lap" => lap::run(&l[1..]),
        "gmap" => maps::run_gmap(&l[1..]),
        "iset" => maps::run_iset(&l[1..]),
        "imap" => maps::run_imap(&l[1..]),
        "cov" => maps::run_cov(&l[1..]),
        "bcov" => maps::run_bcov(&l[1..]),
        "sbcov" => maps::run_sbcov(&l[1..]),
        "alg" => algebra::run_alg(&l[1..]),
        "split" => algebra::run_split(&l[1..]),
        "splithead" => algebra::run_splithead(&l[1..]),
        "merge" => algebra::run_merge(&l[1..]),
        "bg" => algebra::run_bg(&l[1..]),
        "fmt" => text::run_fmt(&l[1..]),
        "parse" => text::run_parse(&l[1..]),
        "score" => text::run_score(&l[1..]),
        "misc" => text::run_misc(&l[1..]),
        "ser" => text::run_ser(&l[1..]),
        "read" => text::run_read(&l[1..]),
        "wr" => text::run_wr(&l[1..]),
        "skiprun" => text::run_skiprun(&l[1..]),
        "chunk" => extsort::run_chunk(&l[1..]),
        "kmerge" => extsort::run_kmerge(&l[1..]),
        "xsort" => extsort::run_xsort(&l[1..]),
        "tmp" => extsort::run_tmp(&l[1..]),
        "xsortrec" => extsort::run_xsortrec(&l[1..]),
        "xsort2" => extsort::run_xsort2(&l[1..]),
        "xsortquota" => extsort::run_xsortquota(&l[1..]),
        "wrfail" => text::run_wrfail(&l[1..]),
        k => Sx::L(vec![a("glue-error"), a(format!("unknown-kind-{}", k))]),
    }
}

fn main() {
    std::panic::set_hook(Box::new(|_| {}));
    if std::env::args().nth(1).as_deref() == Some("ftab") {
        text::ftab();
        return;
    }
    let stdin = std::io::stdin();
    let stdout = std::io::stdout();
    let mut out = std::io::BufWriter::new(stdout.lock());
    for line in stdin.lock().lines() {
        let line = line.unwrap();
        if line.is_empty() {
            continue;
        }
        let mut s = String::new();
        match Sx::parse(&line) {
            Ok(x) => run_case(&x).write(&mut s),
            Err(e) => s = format!("(glue-error parse-{})", e),
        }
        writeln!(out, "{}", s).unwrap();
        out.flush().unwrap();     // one line per case, visible at once: a crash or hang is attributed to the right case
    }
}

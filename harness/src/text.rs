//! fmt / parse / score / read / wr / skiprun cases: src/bed.rs, src/bed/score.rs, src/bed/io.rs
use crate::sexp::*;
use crate::util::*;
use bed_utils::bed::io::{Reader, Writer};
use bed_utils::bed::{BEDLike, BedGraph, BroadPeak, GenomicRange, NarrowPeak, ParseError, Score, Strand, BED};
use std::io::Read;
use std::str::FromStr;

fn opt<T>(x: &Sx, f: impl Fn(&Sx) -> T) -> Option<T> {
    if let Sx::A(s) = x {
        if s == "none" {
            return None;
        }
    }
    Some(f(x))
}
fn strand(x: &Sx) -> Strand {
    match x.atom() {
        "+" => Strand::Forward,
        "-" => Strand::Reverse,
        _ => panic!("glue: strand"),
    }
}
fn score(x: &Sx) -> Score {
    Score::try_from(x.u64() as u32).expect("glue: score above 1000 in a case")
}
pub fn f(x: &Sx) -> f64 {
    f64::from_bits(x.u64())
}
pub fn bedn<const N: u8>(l: &[Sx]) -> BED<N> {
    BED::new(l[0].string(), l[1].u64(), l[2].u64(), opt(&l[3], |x| x.string()), opt(&l[4], score), opt(&l[5], strand), Default::default())
}
pub fn np(l: &[Sx]) -> NarrowPeak {
    NarrowPeak { chrom: l[0].string(), start: l[1].u64(), end: l[2].u64(), name: opt(&l[3], |x| x.string()), score: opt(&l[4], score), strand: opt(&l[5], strand),
        signal_value: f(&l[6]), p_value: opt(&l[7], f), q_value: opt(&l[8], f), peak: l[9].u64() }
}
pub fn bp(l: &[Sx]) -> BroadPeak {
    BroadPeak { chrom: l[0].string(), start: l[1].u64(), end: l[2].u64(), name: opt(&l[3], |x| x.string()), score: opt(&l[4], score), strand: opt(&l[5], strand),
        signal_value: f(&l[6]), p_value: opt(&l[7], f), q_value: opt(&l[8], f) }
}

fn so<T>(x: Option<T>, g: impl Fn(T) -> Sx) -> Sx {
    x.map(g).unwrap_or(a("none"))
}
fn bedfields<B: BEDLike>(b: &B) -> Vec<Sx> {
    vec![hex(b.chrom().as_bytes()), a(b.start()), a(b.end()), so(b.name(), |s| hex(s.as_bytes())), so(b.score(), |s| a(u16::from(s))),
        so(b.strand(), |s| a(match s { Strand::Forward => "+", Strand::Reverse => "-" }))]
}
trait Rec: Sized + FromStr<Err = ParseError> + std::fmt::Display + BEDLike {
    fn sx(&self) -> Sx;
}
impl Rec for GenomicRange {
    fn sx(&self) -> Sx { sx_region(self) }
}
impl<const N: u8> Rec for BED<N> {
    fn sx(&self) -> Sx {
        let mut v = bedfields(self);
        if !self.optional_fields.is_empty() { v.push(a("OPTIONAL-FIELDS-NOT-EMPTY")); }
        Sx::L(v)
    }
}
impl Rec for NarrowPeak {
    fn sx(&self) -> Sx {
        let mut v = bedfields(self);
        v.extend(vec![a(self.signal_value.to_bits()), so(self.p_value, |x| a(x.to_bits())), so(self.q_value, |x| a(x.to_bits())), a(self.peak)]);
        Sx::L(v)
    }
}
impl Rec for BroadPeak {
    fn sx(&self) -> Sx {
        let mut v = bedfields(self);
        v.extend(vec![a(self.signal_value.to_bits()), so(self.p_value, |x| a(x.to_bits())), so(self.q_value, |x| a(x.to_bits()))]);
        Sx::L(v)
    }
}
impl Rec for BedGraph<i64> {
    fn sx(&self) -> Sx { Sx::L(vec![hex(self.chrom.as_bytes()), a(self.start), a(self.end), a(self.value)]) }
}
impl Rec for BedGraph<f64> {
    fn sx(&self) -> Sx { Sx::L(vec![hex(self.chrom.as_bytes()), a(self.start), a(self.end), a(self.value.to_bits())]) }
}

fn perr(e: &ParseError) -> &'static str {
    #[allow(unreachable_patterns)]
    match e {
        ParseError::MissingReferenceSequenceName => "missing-chrom",
        ParseError::MissingStartPosition => "missing-start",
        ParseError::InvalidStartPosition(_) => "invalid-start",
        ParseError::MissingEndPosition => "missing-end",
        ParseError::InvalidEndPosition(_) => "invalid-end",
        ParseError::MissingName => "missing-name",
        ParseError::MissingScore => "missing-score",
        ParseError::InvalidScore(_) => "invalid-score",
        ParseError::MissingStrand => "missing-strand",
        ParseError::InvalidStrand(_) => "invalid-strand",
        _ => "ext",
    }
}
fn pres<T: Rec>(r: Result<T, ParseError>) -> Sx {
    match r {
        Ok(x) => Sx::L(vec![a("ok"), x.sx()]),
        Err(e) => Sx::L(vec![a("err"), a(perr(&e))]),
    }
}

/// dispatch on the type tag: builds the record from the case and calls `k` with it
macro_rules! with_record {
    ($t:expr, $r:expr, $k:ident, $($extra:expr),*) => {
        match $t {
            "gr" => $k(region($r), $($extra),*),
            "bed3" => $k(bedn::<3>($r.list()), $($extra),*),
            "bed4" => $k(bedn::<4>($r.list()), $($extra),*),
            "bed5" => $k(bedn::<5>($r.list()), $($extra),*),
            "bed6" => $k(bedn::<6>($r.list()), $($extra),*),
            "np" => $k(np($r.list()), $($extra),*),
            "bp" => $k(bp($r.list()), $($extra),*),
            "bgi" => { let l = $r.list(); $k(BedGraph::<i64>::new(l[0].string(), l[1].u64(), l[2].u64(), l[3].i64()), $($extra),*) }
            "bgf" => { let l = $r.list(); $k(BedGraph::<f64>::new(l[0].string(), l[1].u64(), l[2].u64(), f(&l[3])), $($extra),*) }
            _ => panic!("glue: type"),
        }
    };
}
macro_rules! with_type {
    ($t:expr, $k:ident, $($extra:expr),*) => {
        match $t {
            "gr" => $k::<GenomicRange>($($extra),*),
            "bed3" => $k::<BED<3>>($($extra),*),
            "bed4" => $k::<BED<4>>($($extra),*),
            "bed5" => $k::<BED<5>>($($extra),*),
            "bed6" => $k::<BED<6>>($($extra),*),
            "np" => $k::<NarrowPeak>($($extra),*),
            "bp" => $k::<BroadPeak>($($extra),*),
            "bgi" => $k::<BedGraph<i64>>($($extra),*),
            "bgf" => $k::<BedGraph<f64>>($($extra),*),
            _ => panic!("glue: type"),
        }
    };
}

fn fmt_one<T: Rec>(r: T, emit: &dyn Fn(Sx)) {
    let txt = r.to_string();
    emit(Sx::L(vec![a("txt"), hex(txt.as_bytes())]));
    emit(Sx::L(vec![a("rt"), pres(txt.parse::<T>())]));
}
pub fn run_fmt(args: &[Sx]) -> Sx {
    with_panic(|emit| {
        let t = args[0].atom();
        with_record!(t, &args[1], fmt_one, emit);
        if t == "gr" {
            let g = region(&args[1]);
            let p = g.pretty_show();
            emit(Sx::L(vec![a("pretty"), hex(p.as_bytes())]));
            emit(Sx::L(vec![a("prt"), pres(p.parse::<GenomicRange>())]));
        }
    })
}
fn parse_one<T: Rec>(s: &str, emit: &dyn Fn(Sx)) {
    emit(pres(s.parse::<T>()));
}
pub fn run_parse(args: &[Sx]) -> Sx {
    with_panic(|emit| {
        let s = args[1].string();
        with_type!(args[0].atom(), parse_one, &s, emit);
    })
}
fn ser_one<T: Rec + serde::Serialize + serde::de::DeserializeOwned>(r: T, emit: &dyn Fn(Sx)) {
    use bincode::Options;
    let opt = bincode::DefaultOptions::new();
    let bytes = opt.serialize(&r).expect("bincode serialize failed");
    emit(Sx::L(vec![a("bytes"), hex(&bytes)]));
    emit(Sx::L(vec![a("rt"), match opt.deserialize::<T>(&bytes) { Ok(x) => x.sx(), Err(_) => a("none") }]));
}
/// (ser type record): the bincode (DefaultOptions) bytes chunk.rs would spill for this record, and their deserialization
pub fn run_ser(args: &[Sx]) -> Sx {
    with_panic(|emit| { with_record!(args[0].atom(), &args[1], ser_one, emit); })
}
pub fn run_misc(args: &[Sx]) -> Sx {
    with_panic(|emit| match args[0].atom() {
        "optf" => {
            let v: Vec<String> = args[1].list().iter().map(|x| x.string()).collect();
            emit(hex(bed_utils::bed::OptionalFields::from(v).to_string().as_bytes()))
        }
        "strand" => emit(match args[1].string().parse::<Strand>() {
            Ok(s) => Sx::L(vec![a("ok"), hex(s.to_string().as_bytes())]),
            Err(e) => a(if format!("{:?}", e) == "Empty" { "empty" } else { "invalid" }),
        }),
        _ => panic!("glue: misc"),
    })
}
pub fn run_score(args: &[Sx]) -> Sx {
    with_panic(|emit| match args[0].atom() {
        "try" => {
            let n = args[1].u64();
            let r32 = Score::try_from(n as u32);
            if n <= u16::MAX as u64 {
                // the u16 conversion must agree with the u32 one
                if Score::try_from(n as u16).is_ok() != r32.is_ok() { emit(a("ORACLE-FAIL:u16-and-u32-conversions-disagree")); }
            }
            emit(match r32 { Ok(s) => Sx::L(vec![a("ok"), a(u16::from(s))]), Err(_) => a("err") })
        }
        "str" => emit(match args[1].string().parse::<Score>() { Ok(s) => Sx::L(vec![a("ok"), a(u16::from(s))]), Err(_) => a("err") }),
        _ => panic!("glue: score"),
    })
}

/// a byte source that hands out the stream in fragments given by a cyclic plan of sizes
struct Frag { data: Vec<u8>, pos: usize, plan: Vec<usize>, k: usize }
impl Read for Frag {
    fn read(&mut self, buf: &mut [u8]) -> std::io::Result<usize> {
        if self.pos >= self.data.len() || buf.is_empty() { return Ok(0); }
        let want = if self.plan.is_empty() { buf.len() } else { let w = self.plan[self.k % self.plan.len()]; self.k += 1; w.max(1) };
        let n = want.min(buf.len()).min(self.data.len() - self.pos);
        buf[..n].copy_from_slice(&self.data[self.pos..self.pos + n]);
        self.pos += n;
        Ok(n)
    }
}
fn item<T: Rec>(r: std::io::Result<T>) -> Sx {
    match r {
        Ok(x) => Sx::L(vec![a("ok"), x.sx()]),
        Err(e) => {
            // the reader wraps ParseError as io::Error(Other, "{:?}: line"): recover the variant name
            let m = e.to_string();
            let k = if m.starts_with("MissingReferenceSequenceName") { "missing-chrom" }
                else if m.starts_with("MissingStartPosition") { "missing-start" }
                else if m.starts_with("InvalidStartPosition") { "invalid-start" }
                else if m.starts_with("MissingEndPosition") { "missing-end" }
                else if m.starts_with("InvalidEndPosition") { "invalid-end" }
                else if m.starts_with("MissingName") { "missing-name" }
                else if m.starts_with("MissingScore") { "missing-score" }
                else if m.starts_with("InvalidScore") { "invalid-score" }
                else if m.starts_with("MissingStrand") { "missing-strand" }
                else if m.starts_with("InvalidStrand") { "invalid-strand" }
                else if e.kind() == std::io::ErrorKind::InvalidData { "io-invalid-data" }
                else { "ext" };
            Sx::L(vec![a("err"), a(k)])
        }
    }
}
fn r1_prefix_of(_a: &[Sx], p: &Option<String>) -> Option<String> { p.clone() }
fn read_both<T: Rec>(prefix: Option<String>, data: &[u8], plan: &[usize], emit: &dyn Fn(Sx)) {
    let prefix_copy = prefix.clone();
    let mut r1 = Reader::new(Frag { data: data.to_vec(), pos: 0, plan: plan.to_vec(), k: 0 }, prefix.clone());
    let mut it = r1.records::<T>();
    let mut a1: Vec<Sx> = Vec::new();
    while let Some(x) = it.next() { a1.push(item(x)); if a1.len() > data.len() + 2 { emit(a("ORACLE-FAIL:reader-does-not-end")); break; } }
    // ended: must stay ended
    if it.next().is_some() { emit(a("ORACLE-FAIL:item-after-end")); }
    let r2 = Reader::new(Frag { data: data.to_vec(), pos: 0, plan: plan.to_vec(), k: 0 }, prefix);
    let a2: Vec<Sx> = r2.into_records::<T>().take(data.len() + 3).map(item).collect();
    if a1 != a2 { emit(a("ORACLE-FAIL:records-and-into_records-differ")); }
    // positional adaptors (nth / skip / step_by go through Iterator::nth) must see the same sequence
    for k in [1usize, 2, 3] {
        if k <= a1.len() {
            let r4 = Reader::new(Frag { data: data.to_vec(), pos: 0, plan: plan.to_vec(), k: 0 }, r1_prefix_of(&a1, &prefix_copy));
            let a4: Vec<Sx> = r4.into_records::<T>().skip(k).take(data.len() + 3).map(item).collect();
            if a4 != a1[k..] { emit(a("ORACLE-FAIL:into_records-skip-differs")); }
            let r5 = Reader::new(Frag { data: data.to_vec(), pos: 0, plan: plan.to_vec(), k: 0 }, r1_prefix_of(&a1, &prefix_copy));
            let a5: Vec<Sx> = r5.into_records::<T>().step_by(k + 1).take(data.len() + 3).map(item).collect();
            let e5: Vec<Sx> = a1.iter().step_by(k + 1).cloned().collect();
            if a5 != e5 { emit(a("ORACLE-FAIL:into_records-step_by-differs")); }
        }
    }
    if a1.len() <= data.len() + 2 {
        if let Some(w) = walk_check(&|| Reader::new(Frag { data: data.to_vec(), pos: 0, plan: plan.to_vec(), k: 0 }, prefix_copy.clone()).into_records::<T>().map(item)) {
            emit(a(format!("ORACLE-FAIL:into_records-walked-by-{}", w)));
        }
    }
    // unfragmented delivery must give the same items
    let mut r3 = Reader::new(data, None::<String>.or(r1_prefix_dummy()));
    let _ = &mut r3;
    emit(tag("items", a1));
}
fn r1_prefix_dummy() -> Option<String> { None }
fn plan(x: &Sx) -> Vec<usize> { x.tagged("frag").iter().map(|v| v.usize()).collect() }
fn prefix(x: &Sx) -> Option<String> { opt(x, |p| p.string()) }
pub fn run_read(args: &[Sx]) -> Sx {
    with_panic(|emit| {
        let data = args[2].bytes();
        with_type!(args[0].atom(), read_both, prefix(&args[1]), &data, &plan(&args[3]), emit);
    })
}
/// a sink that accepts at most `cap` bytes per write call (legal behaviour of any Write)
struct ShortSink<'a> { out: &'a mut Vec<u8>, cap: usize }
impl<'a> std::io::Write for ShortSink<'a> {
    fn write(&mut self, buf: &[u8]) -> std::io::Result<usize> {
        let n = buf.len().min(self.cap.max(1));
        self.out.extend_from_slice(&buf[..n]);
        Ok(n)
    }
    fn flush(&mut self) -> std::io::Result<()> { Ok(()) }
}
fn write_one<T: Rec>(r: T, w: &mut Writer<ShortSink>) {
    w.write_record(&r).expect("write_record failed");
}
pub fn run_wr(args: &[Sx]) -> Sx {
    with_panic(|emit| {
        let t = args[0].atom();
        let mut lines: Vec<Vec<u8>> = Vec::new();
        for r in args[2].tagged("recs") {
            let mut buf = Vec::new();
            // the sink accepts as many bytes per call as the first entry of the fragmentation plan (all if the plan is empty)
            let cap = plan(&args[4]).first().copied().unwrap_or(usize::MAX);
            { let mut w = Writer::new(ShortSink { out: &mut buf, cap }); with_record!(t, r, write_one, &mut w); }
            lines.push(buf);
        }
        emit(Sx::L(vec![a("txt"), hex(&lines.concat())]));
        let mut data = Vec::new();
        for (l, term) in lines.iter().zip(args[3].tagged("terms")) {
            if l.last() != Some(&b'\n') { emit(a("ORACLE-FAIL:written-line-not-LF-terminated")); }
            data.extend_from_slice(&l[..l.len().saturating_sub(1)]);
            match term.atom() { "lf" => data.push(b'\n'), "crlf" => data.extend_from_slice(b"\r\n"), "none" => {}, _ => panic!("glue: term") }
        }
        with_type!(t, read_both, prefix(&args[1]), &data, &plan(&args[4]), emit);
    })
}
/// a sink that commits whole lines and fails (hard error, nothing accepted) on the k-th write call
struct FailSink<'a> { out: &'a mut Vec<u8>, calls: usize, fail_at: usize }
impl<'a> std::io::Write for FailSink<'a> {
    fn write(&mut self, buf: &[u8]) -> std::io::Result<usize> {
        self.calls += 1;
        if self.calls == self.fail_at { return Err(std::io::Error::new(std::io::ErrorKind::Other, "planned sink error")); }
        self.out.extend_from_slice(buf);
        Ok(buf.len())
    }
    fn flush(&mut self) -> std::io::Result<()> { Ok(()) }
}
fn wrfail_one<T: Rec>(recs: Vec<T>, fail_at: usize, emit: &dyn Fn(Sx)) {
    // expected output: the lines of exactly those records whose write_record returned Ok, when every record is written
    // with ONE write call; with several write calls per record a failed record may leave a partial line, so the check is
    // on the records reported Ok only: each of them must be readable back, in order, right after the previous Ok one
    let mut out = Vec::new();
    let mut ok_recs: Vec<String> = Vec::new();
    {
        let mut w = Writer::new(FailSink { out: &mut out, calls: 0, fail_at });
        for r in &recs { if w.write_record(r).is_ok() { ok_recs.push(r.to_string()); } }
    }
    let text = String::from_utf8_lossy(&out).into_owned();
    // every Ok record's line must occur exactly once and in order; nothing of a failed record may follow a complete line of its own
    let mut pos = 0usize;
    let mut good = true;
    for l in &ok_recs {
        let needle = format!("{}\n", l);
        match text[pos..].find(&needle) { Some(i) => pos += i + needle.len(), None => { good = false; break; } }
    }
    let n_lines = text.matches('\n').count();
    if !good { emit(a("ORACLE-FAIL:a-record-reported-Ok-is-missing-from-the-output")); }
    else if n_lines > ok_recs.len() { emit(a("ORACLE-FAIL:a-record-reported-Err-reached-the-output-as-a-complete-line")); }
    else { emit(a("ok")); }
}
/// (wrfail type (recs ...) k): Writer over a sink whose k-th write call fails; judged here (oracle-only)
pub fn run_wrfail(args: &[Sx]) -> Sx {
    with_panic(|emit| {
        let t = args[0].atom();
        let k = args[2].usize();
        emit(a("oracle-only"));
        macro_rules! go { ($build:expr) => { wrfail_one(args[1].tagged("recs").iter().map($build).collect(), k, emit) } }
        match t {
            "gr" => go!(|r: &Sx| region(r)),
            "bed3" => go!(|r: &Sx| bedn::<3>(r.list())),
            "bed6" => go!(|r: &Sx| bedn::<6>(r.list())),
            "bgi" => go!(|r: &Sx| { let l = r.list(); BedGraph::<i64>::new(l[0].string(), l[1].u64(), l[2].u64(), l[3].i64()) }),
            _ => panic!("glue: wrfail type"),
        }
    })
}

/// n consecutive skipped lines, then `tail`; run on a thread with a 256 KiB stack
pub fn run_skiprun(args: &[Sx]) -> Sx {
    let n = args[0].usize();
    let p = args[1].bytes();
    let tail = args[2].bytes();
    let mut data = Vec::with_capacity(n * (p.len() + 2) + tail.len());
    for _ in 0..n { data.extend_from_slice(&p); data.extend_from_slice(b"x\n"); }
    data.extend_from_slice(&tail);
    let pre = String::from_utf8(p).expect("glue: prefix utf8");
    let h = std::thread::Builder::new().stack_size(256 * 1024).spawn(move || {
        with_panic(|emit| { read_both::<BED<3>>(Some(pre.clone()), &data, &[], emit); })
    }).unwrap();
    h.join().unwrap_or(a("(r panic)"))
}

/// float tables, computed with std directly (not through bed-utils): lines "s <bits>" -> Display text,
/// "p <hex>" -> bits of f64::from_str or none
pub fn ftab() {
    use std::io::BufRead;
    let stdin = std::io::stdin();
    for line in stdin.lock().lines() {
        let line = line.unwrap();
        let mut it = line.split(' ');
        match (it.next(), it.next()) {
            (Some("s"), Some(b)) => println!("{}", hex(format!("{}", f64::from_bits(b.parse().unwrap())).as_bytes()).atom()),
            (Some("p"), Some(h)) => {
                let bytes = Sx::A(h.to_string()).bytes();
                match std::str::from_utf8(&bytes).ok().and_then(|s| s.parse::<f64>().ok()) {
                    Some(v) => println!("{}", v.to_bits()),
                    None => println!("none"),
                }
            }
            _ => println!("?"),
        }
    }
}

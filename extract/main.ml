(* main.ml — the only hand-written OCaml of the model runner: reads one case per line, tokenises it into the
   extracted type Model.sexp (an atom is the list of its character codes as extracted N), calls the extracted
   Model.run_case, prints the answer.  No model logic and no number conversion beyond char code <-> N. *)
open Model

exception Bad of string

(* char code <-> N *)
let rec pos_of_int (i : int) : positive =
  if i = 1 then XH else if i land 1 = 1 then XI (pos_of_int (i lsr 1)) else XO (pos_of_int (i lsr 1))
let code_tab : n array = Array.init 256 (fun i -> if i = 0 then N0 else Npos (pos_of_int i))
let rec int_of_pos (p : positive) : int =
  match p with XH -> 1 | XO q -> 2 * int_of_pos q | XI q -> 2 * int_of_pos q + 1
let code_of_n (x : n) : int = match x with N0 -> 0 | Npos p -> int_of_pos p

let atom_of_sub (s : string) (st : int) (en : int) : sexp =
  let l = ref [] in
  for i = en - 1 downto st do l := code_tab.(Char.code s.[i]) :: !l done;
  SA !l

let parse_line (s : string) : sexp =
  let n = String.length s in
  let pos = ref 0 in
  let rec skip () = if !pos < n && (s.[!pos] = ' ' || s.[!pos] = '\t' || s.[!pos] = '\r') then (incr pos; skip ()) in
  let rec item () =
    skip ();
    if !pos >= n then raise (Bad "eof")
    else if s.[!pos] = '(' then begin
      incr pos;
      let acc = ref [] in
      let rec loop () =
        skip ();
        if !pos >= n then raise (Bad "unclosed")
        else if s.[!pos] = ')' then incr pos
        else (acc := item () :: !acc; loop ()) in
      loop (); SL (List.rev !acc)
    end else if s.[!pos] = ')' then raise (Bad "unexpected )")
    else begin
      let st = !pos in
      while !pos < n && s.[!pos] <> ' ' && s.[!pos] <> '(' && s.[!pos] <> ')' && s.[!pos] <> '\t' do incr pos done;
      atom_of_sub s st !pos
    end in
  let r = item () in
  skip ();
  if !pos <> n then raise (Bad "trailing") else r

let rec print_sexp (b : Buffer.t) (x : sexp) : unit =
  match x with
  | SA a -> List.iter (fun c -> Buffer.add_char b (Char.chr (code_of_n c))) a
  | SL l ->
    Buffer.add_char b '(';
    List.iteri (fun i y -> if i > 0 then Buffer.add_char b ' '; print_sexp b y) l;
    Buffer.add_char b ')'

let () =
  let b = Buffer.create 4096 in
  (try
    while true do
      let line = input_line stdin in
      if line <> "" then begin
        Buffer.clear b;
        (try print_sexp b (run_case (parse_line line))
         with Bad m -> Buffer.clear b; Buffer.add_string b ("(glue-error " ^ String.escaped m ^ ")")
            | Stack_overflow -> Buffer.clear b; Buffer.add_string b "(glue-error stack-overflow)"
            | Failure m -> Buffer.clear b; Buffer.add_string b ("(glue-error failure-" ^ String.escaped m ^ ")")
            | Not_found -> Buffer.clear b; Buffer.add_string b "(glue-error not-found)"
            | Invalid_argument m -> Buffer.clear b; Buffer.add_string b ("(glue-error invalid-" ^ String.escaped m ^ ")"));
        print_string (Buffer.contents b); print_newline ()
      end
    done
  with End_of_file -> ())

(* sexp.ml — trusted glue: S-expression reader/printer and number conversion between
   decimal text and the extracted inductive N / Z / nat.  No model logic here. *)
open Model

type sexp = A of string | L of sexp list

exception Bad of string

let parse_line (s : string) : sexp =
  let n = String.length s in
  let pos = ref 0 in
  let rec skip () = if !pos < n && (s.[!pos] = ' ' || s.[!pos] = '\t' || s.[!pos] = '\r') then (incr pos; skip ()) in
  let rec item () =
    skip ();
    if !pos >= n then raise (Bad "eof")
    else if s.[!pos] = '(' then begin
      incr pos;
      let acc = ref [] in
      let rec loop () =
        skip ();
        if !pos >= n then raise (Bad "unclosed")
        else if s.[!pos] = ')' then incr pos
        else (acc := item () :: !acc; loop ()) in
      loop (); L (List.rev !acc)
    end else if s.[!pos] = ')' then raise (Bad "unexpected )")
    else begin
      let st = !pos in
      while !pos < n && s.[!pos] <> ' ' && s.[!pos] <> '(' && s.[!pos] <> ')' && s.[!pos] <> '\t' do incr pos done;
      A (String.sub s st (!pos - st))
    end in
  let r = item () in
  skip ();
  if !pos <> n then raise (Bad "trailing") else r

let rec print_sexp (b : Buffer.t) (x : sexp) : unit =
  match x with
  | A s -> Buffer.add_string b s
  | L l ->
    Buffer.add_char b '(';
    List.iteri (fun i y -> if i > 0 then Buffer.add_char b ' '; print_sexp b y) l;
    Buffer.add_char b ')'

(* ---- numbers ---- *)
let rec pos_of_int (i : int) : positive =
  if i = 1 then XH else if i land 1 = 1 then XI (pos_of_int (i lsr 1)) else XO (pos_of_int (i lsr 1))
let n_of_int (i : int) : n = if i = 0 then N0 else Npos (pos_of_int i)
let ten = n_of_int 10
let n_of_string (s : string) : n =
  if s = "" then raise (Bad "empty number");
  if String.length s <= 18 then begin
    String.iter (fun c -> if c < '0' || c > '9' then raise (Bad ("number: " ^ s))) s;
    n_of_int (int_of_string s)
  end else begin
    let acc = ref N0 in
    String.iter (fun c ->
      if c < '0' || c > '9' then raise (Bad ("number: " ^ s));
      acc := N.add (N.mul !acc ten) (n_of_int (Char.code c - 48))) s;
    !acc
  end
(* positive -> int when it fits in 61 bits, else None *)
let rec pos_to_int_opt (p : positive) (depth : int) : int option =
  if depth > 60 then None else
  match p with
  | XH -> Some 1
  | XO q -> (match pos_to_int_opt q (depth + 1) with Some v -> Some (2 * v) | None -> None)
  | XI q -> (match pos_to_int_opt q (depth + 1) with Some v -> Some (2 * v + 1) | None -> None)
let rec string_of_n (x : n) : string =
  match x with
  | N0 -> "0"
  | Npos p ->
    (match pos_to_int_opt p 0 with
     | Some v -> string_of_int v
     | None ->
       let q = N.div x ten and r = N.modulo x ten in
       string_of_n q ^ string_of_n r)
let z_of_string (s : string) : z =
  if String.length s > 0 && s.[0] = '-' then Z.opp (Z.of_N (n_of_string (String.sub s 1 (String.length s - 1))))
  else Z.of_N (n_of_string s)
let string_of_z (x : z) : string =
  match x with
  | Z0 -> "0"
  | Zpos p -> string_of_n (Npos p)
  | Zneg p -> "-" ^ string_of_n (Npos p)
let rec nat_of_int (i : int) : nat = if i <= 0 then O else S (nat_of_int (i - 1))
let rec int_of_nat (x : nat) : int = match x with O -> 0 | S y -> 1 + int_of_nat y

(* ---- helpers for decoders ---- *)
let atom = function A s -> s | L _ -> raise (Bad "atom expected")
let lst = function L l -> l | A s -> raise (Bad ("list expected, got " ^ s))
let num x = n_of_string (atom x)
let znum x = z_of_string (atom x)
let int_ x = int_of_string (atom x)
let nat_ x = nat_of_int (int_ x)
let an (x : n) : sexp = A (string_of_n x)
let az (x : z) : sexp = A (string_of_z x)
let anat (x : nat) : sexp = A (string_of_int (int_of_nat x))
(* tagged list: (tag items...) *)
let tagged (t : string) (x : sexp) : sexp list =
  match x with
  | L (A h :: rest) when h = t -> rest
  | _ -> raise (Bad ("expected (" ^ t ^ " ...)"))
(* hex <-> byte list as list of n *)
let bytes_of_hex (s : string) : n list =
  let s = if s = "-" then "" else s in
  let len = String.length s / 2 in
  List.init len (fun i -> n_of_int (int_of_string ("0x" ^ String.sub s (2 * i) 2)))
let hex_of_bytes (l : n list) : string =
  if l = [] then "-" else
  String.concat "" (List.map (fun b -> match b with
     | N0 -> "00"
     | Npos p -> (match pos_to_int_opt p 0 with Some v -> Printf.sprintf "%02x" v | None -> "??")) l)

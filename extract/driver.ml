(* driver.ml — trusted glue: reads one case per line (S-expression), decodes it into the
   extracted model's types, runs the extracted Gallina functions, prints one result line.
   All property logic is in the extracted code (Model); this file only decodes/encodes. *)
open Model
open Sexp

let iv_of x = match lst x with
  | [s; e; v] -> { st = num s; en = num e; vl = num v }
  | _ -> raise (Bad "iv")
let sx_iv (i : iv) = L [an i.st; an i.en; an i.vl]

exception Panicked
let ok = function Ok a -> a | Panic -> raise Panicked

(* ---------- lap: scripts over one Lapper ---------- *)
let build_lapper (ivs : sexp) (ops : sexp list) : lapper =
  let l = ref (lnew (List.map iv_of (tagged "ivs" ivs))) in
  List.iter (fun o -> match o with
    | L [A "ins"; s; e; v] -> l := ok (linsert !l { st = num s; en = num e; vl = num v })
    | L [A "merge"] -> l := lmerge !l
    | L [A "setcov"] -> l := lset_cov !l
    | _ -> raise (Bad "build op")) ops;
  !l

let run_lap (args : sexp list) : sexp =
  match args with
  | [w; ivs; ops] ->
    let w = num w in
    let out = ref [] in
    let emit x = out := x :: !out in
    (try
      let l = ref (lnew (List.map iv_of (tagged "ivs" ivs))) in
      let cur = ref O in
      List.iter (fun o -> match o with
        | L [A "ins"; s; e; v] -> l := ok (linsert !l { st = num s; en = num e; vl = num v })
        | L [A "merge"] -> l := lmerge !l
        | L [A "setcov"] -> l := lset_cov !l
        | L [A "cur0"] -> cur := O
        | L [A "find"; s; e] -> emit (L (A "h" :: List.map sx_iv (ok (lfind !l (num s) (num e)))))
        | L [A "seek"; s; e] ->
          let (hits, c) = ok (lseek !l (num s) (num e) !cur) in
          cur := c; emit (L (A "h" :: List.map sx_iv hits))
        | L [A "count"; s; e] -> emit (anat (ok (lcount !l (num s) (num e))))
        | L [A "cov"] -> emit (an (lcov !l))
        | L [A "len"] -> emit (A (string_of_int (List.length !l.ivs)))
        | L [A "ivs"] -> emit (L (A "ivs" :: List.map sx_iv !l.ivs))
        | L [A "depth"] -> emit (L (A "d" :: List.map sx_iv (ok (ldepth w !l))))
        | L [A "ui"; bivs; bops] ->
          let b = build_lapper bivs (tagged "ops" bops) in
          let (u, i) = ok (lunion_intersect w !l b) in
          emit (L [A "ui"; an u; an i])
        | _ -> raise (Bad "lap op")) (tagged "ops" ops)
    with Panicked -> emit (A "panic"));
    L (A "r" :: List.rev !out)
  | _ -> raise (Bad "lap args")

let run_case (x : sexp) : sexp =
  match x with
  | L (A "lap" :: args) -> run_lap args
  | _ -> raise (Bad "unknown case kind")

let () =
  let b = Buffer.create 4096 in
  (try
    while true do
      let line = input_line stdin in
      if line <> "" then begin
        Buffer.clear b;
        (try print_sexp b (run_case (parse_line line))
         with Bad m -> Buffer.clear b; Buffer.add_string b ("(glue-error " ^ String.escaped m ^ ")")
            | Stack_overflow -> Buffer.clear b; Buffer.add_string b "(glue-error stack-overflow)");
        print_string (Buffer.contents b); print_newline ()
      end
    done
  with End_of_file -> ())

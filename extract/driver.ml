(* driver.ml — trusted glue: reads one case per line (S-expression), decodes it into the
   extracted model's types, runs the extracted Gallina functions, prints one result line.
   All property logic is in the extracted code (Model); this file only decodes/encodes. *)
open Model
open Sexp

let iv_of x = match lst x with
  | [s; e; v] -> { st = num s; en = num e; vl = num v }
  | _ -> raise (Bad "iv")
let sx_iv (i : iv) = L [an i.st; an i.en; an i.vl]

let sx_bool b = A (if b then "1" else "0")
exception Panicked
let ok = function Ok a -> a | Panic -> raise Panicked

(* ---------- lap: scripts over one Lapper ---------- *)
let build_lapper (ivs : sexp) (ops : sexp list) : lapper =
  let l = ref (lnew (List.map iv_of (tagged "ivs" ivs))) in
  List.iter (fun o -> match o with
    | L [A "ins"; s; e; v] -> l := ok (linsert !l { st = num s; en = num e; vl = num v })
    | L [A "merge"] -> l := lmerge !l
    | L [A "setcov"] -> l := lset_cov !l
    | _ -> raise (Bad "build op")) ops;
  !l

let run_lap (args : sexp list) : sexp =
  match args with
  | [w; ivs; ops] ->
    let w = num w in
    let out = ref [] in
    let emit x = out := x :: !out in
    (try
      let l = ref (lnew (List.map iv_of (tagged "ivs" ivs))) in
      let cur = ref O in
      List.iter (fun o -> match o with
        | L [A "ins"; s; e; v] -> l := ok (linsert !l { st = num s; en = num e; vl = num v })
        | L [A "merge"] -> l := lmerge !l
        | L [A "setcov"] -> l := lset_cov !l
        | L [A "cur0"] -> cur := O
        | L [A "reload"] | L [A "clone"] -> ()      (* serde round trip / clone: the same index (all fields are data) *)
        | L [A "find"; s; e] -> emit (L (A "h" :: List.map sx_iv (ok (lfind !l (num s) (num e)))))
        | L [A "seek"; s; e] ->
          let (hits, c) = ok (lseek !l (num s) (num e) !cur) in
          cur := c; emit (L (A "h" :: List.map sx_iv hits))
        | L [A "count"; s; e] -> emit (anat (ok (lcount !l (num s) (num e))))
        | L [A "cov"] -> emit (an (lcov !l))
        | L [A "len"] -> emit (A (string_of_int (List.length !l.ivs)))
        | L [A "isempty"] -> emit (sx_bool (lis_empty !l))
        | L [A "ivcmp"; a; b] -> let x = iv_of a and y = iv_of b in
          emit (L [A "ivcmp"; sx_bool (iv_eq x y); A (match iv_cmp x y with Eq -> "eq" | Lt -> "lt" | Gt -> "gt")])
        | L [A "ivs"] -> emit (L (A "ivs" :: List.map sx_iv !l.ivs))
        | L [A "depth"] -> emit (L (A "d" :: List.map sx_iv (ok (ldepth w !l))))
        | L [A "ui"; bivs; bops] ->
          let b = build_lapper bivs (tagged "ops" bops) in
          let (u, i) = ok (lunion_intersect w !l b) in
          emit (L [A "ui"; an u; an i])
        | _ -> raise (Bad "lap op")) (tagged "ops" ops)
    with Panicked -> emit (A "panic"));
    L (A "r" :: List.rev !out)
  | _ -> raise (Bad "lap args")


(* ---------- records ---------- *)
let chr x = bytes_of_hex (atom x)
let sx_chr c = A (hex_of_bytes c)
let grec_of x = match lst x with
  | [c; s; e; v] -> (chr c, { st = num s; en = num e; vl = num v })
  | _ -> raise (Bad "grec")
let sx_grec ((c, i) : n list * iv) = L [sx_chr c; an i.st; an i.en; an i.vl]
let region_of x = match lst x with
  | [c; s; e] -> ((chr c, num s), num e)
  | _ -> raise (Bad "region")
let sx_region (((c, s), e) : (n list * n) * n) = L [sx_chr c; an s; an e]
let brec_of x = match lst x with
  | [c; s; e; v] -> { b_chr = chr c; b_st = num s; b_en = num e; b_val = znum v }
  | [c; s; e] -> { b_chr = chr c; b_st = num s; b_en = num e; b_val = Z0 }
  | _ -> raise (Bad "brec")

let with_panic (f : (sexp -> unit) -> unit) : sexp =
  let out = ref [] in
  (try f (fun x -> out := x :: !out) with Panicked -> out := A "panic" :: !out);
  L (A "r" :: List.rev !out)

(* ---------- gmap ---------- *)
let run_gmap args = match args with
  | [recs; ops] -> with_panic (fun emit ->
      let m = ref (gcollect (List.map grec_of (tagged "recs" recs))) in
      List.iter (fun o -> match o with
        | L [A "ins"; c; s; e; v] -> m := ok (ginsert !m (grec_of (L [c; s; e; v])))
        | L [A "find"; c; s; e] -> emit (L (A "h" :: List.map sx_grec (ok (gfind !m (chr c) (num s) (num e)))))
        | L [A "isov"; c; s; e] -> emit (sx_bool (ok (gis_overlapped !m (chr c) (num s) (num e))))
        | L [A "len"] -> emit (anat (glen !m))
        | L [A "iter"] -> emit (L (A "h" :: List.map sx_grec (giter !m)))
        | _ -> raise (Bad "gmap op")) (tagged "ops" ops))
  | _ -> raise (Bad "gmap args")

(* ---------- iset / imap ---------- *)
let run_iset args = match args with
  | [regs; ops] -> with_panic (fun emit ->
      let s = iset_new (List.map region_of (tagged "regs" regs)) in
      List.iter (fun o -> match o with
        | L [A "get"; i] -> emit (match iset_get s (nat_ i) with Some r -> sx_region r | None -> A "none")
        | L [A "len"] -> emit (anat (iset_len s))
        | L [A "iter"] -> emit (L (A "it" :: List.map sx_region s.is_data))
        | L [A "find"; c; a; b] -> emit (L (A "h" :: List.map sx_region (ok (iset_find s (chr c) (num a) (num b)))))
        | L [A "findidx"; c; a; b] -> emit (L (A "h" :: List.map an (ok (iset_find_index s (chr c) (num a) (num b)))))
        | L [A "findfull"; c; a; b] ->
          emit (L (A "h" :: List.map (fun (r, i) -> L [sx_region r; an i]) (ok (iset_find_full s (chr c) (num a) (num b)))))
        | L [A "isov"; c; a; b] -> emit (sx_bool (match ok (iset_find_full s (chr c) (num a) (num b)) with [] -> false | _ -> true))
        | _ -> raise (Bad "iset op")) (tagged "ops" ops))
  | _ -> raise (Bad "iset args")
let run_imap args = match args with
  | [recs; ops] -> with_panic (fun emit ->
      let rs = List.map (fun x -> match lst x with [c; a; b; v] -> (region_of (L [c; a; b]), num v) | _ -> raise (Bad "imap rec")) (tagged "recs" recs) in
      let s = imap_new rs in
      List.iter (fun o -> match o with
        | L [A "get"; i] -> emit (match List.nth_opt s.im_data (int_ i) with Some v -> an v | None -> A "none")
        | L [A "len"] -> emit (A (string_of_int (List.length s.im_data)))
        | L [A "find"; c; a; b] -> emit (L (A "h" :: List.map (fun (r, v) -> L [sx_region r; an v]) (ok (imap_find s (chr c) (num a) (num b)))))
        | L [A "findidx"; c; a; b] -> emit (L (A "h" :: List.map (fun (_, i) -> an i.vl) (ok (gfind s.im_idx (chr c) (num a) (num b)))))
        | _ -> raise (Bad "imap op")) (tagged "ops" ops))
  | _ -> raise (Bad "imap args")

(* ---------- coverage ---------- *)
let run_cov args = match args with
  | [regs; ops] -> with_panic (fun emit ->
      let s = iset_new (List.map region_of (tagged "regs" regs)) in
      let d = ref (Ok (cov_new s)) and sp = ref (Ok { sc_total = Z0; sc_map = [] }) in
      List.iter (fun o ->
        let step op = d := Ok (ok (cov_step s !d op)); sp := Ok (ok (scov_step s !sp op)) in
        match o with
        | L [A "ins"; c; a; b; k] -> step (CInsert (chr c, num a, num b, znum k))
        | L [A "insat"; i; k] -> step (CInsertAt (nat_ i, znum k))
        | L [A "reset"] -> step CReset
        | L [A "get"] ->
          let dv = ok !d and sv = ok !sp in
          emit (L [A "dense"; az dv.c_total; A (string_of_int (List.length dv.c_counts)); L (List.map az dv.c_counts)]);
          emit (L [A "sparse"; az sv.sc_total; anat (iset_len s); L (List.map az (ok (smap_as_vec sv.sc_map (iset_len s))))])
        | _ -> raise (Bad "cov op")) (tagged "ops" ops))
  | _ -> raise (Bad "cov args")

let run_bcov args = match args with
  | [b; regs; ops] -> with_panic (fun emit ->
      let b = num b in
      let s = iset_new (List.map region_of (tagged "regs" regs)) in
      let d = ref (Ok (ok (bcov_new s b))) and sp = ref (Ok (ok (sbcov_new s b))) in
      List.iter (fun o ->
        let step op = d := Ok (ok (bcov_step s b !d op)); sp := Ok (ok (sbcov_step s b !sp op)) in
        match o with
        | L [A "ins"; c; x; y; k] -> step (BInsert (chr c, num x, num y, znum k))
        | L [A "reset"] -> step BReset
        | L [A "get"] ->
          let dv = ok !d and sv = ok !sp in
          emit (L [A "dense"; az dv.bc_total; L (List.map (fun r -> L (List.map az r)) dv.bc_counts)]);
          emit (L [A "sparse"; az sv.sb_total; an sv.sb_len; L (List.map az (ok (smap_as_vec sv.sb_map (N.to_nat sv.sb_len))))])
        | L [A "len"] ->
          let dv = ok !d and sv = ok !sp in
          emit (A (string_of_int (List.fold_left (fun a r -> a + List.length r) 0 dv.bc_counts))); emit (an sv.sb_len)
        | L [A "regions"] ->
          emit (L (A "regions" :: List.map (fun r -> L (List.map sx_region r)) (ok (bcov_regions s b))))
        | L [A "getregion"; i] ->
          emit (match ok (sb_get_region (ok !sp) s b (num i)) with Some r -> sx_region r | None -> A "none")
        | L [A "getchrom"; i] ->
          emit (match ok (sb_get_chrom (ok !sp) s b (num i)) with Some c -> sx_chr c | None -> A "none")
        | _ -> raise (Bad "bcov op")) (tagged "ops" ops))
  | _ -> raise (Bad "bcov args")

(* ---------- algebra ---------- *)
let sx_cmp = function Eq -> A "eq" | Lt -> A "lt" | Gt -> A "gt"
let w64 = n_of_string "18446744073709551615"
let run_alg args = match args with
  | [_types; a; b; c] -> with_panic (fun emit ->
      let a = brec_of a and b = brec_of b and c = brec_of c in
      let ov x y = match boverlap x y with Some ((ch, s), e) -> L [sx_chr ch; an s; an e] | None -> A "none" in
      emit (L [A "len"; an (blen a); an (blen b); an (blen c)]);
      emit (L [A "ov"; ov a b; ov b a; ov a c; ov a a]);
      emit (L [A "nov"; an (bn_overlap a b); an (bn_overlap b a); an (bn_overlap a c); an (bn_overlap a a)]);
      emit (L [A "cmp"; sx_cmp (bcompare a b); sx_cmp (bcompare b a); sx_cmp (bcompare b c); sx_cmp (bcompare a c); sx_cmp (bcompare a a)]);
      (* setters: a gets b's chromosome, c's start, b's end *)
      let a' = bset_end (bset_start (bset_chrom a b.b_chr) c.b_st) b.b_en in
      let ((ch, s), e) = to_genomic_range a' in
      emit (L [A "set"; sx_chr ch; an s; an e]))
  | _ -> raise (Bad "alg args")
let run_split args = match args with
  | [s; e; b] -> with_panic (fun emit ->
      let pr (x, y) = L [an x; an y] in
      emit (L (A "sp" :: List.map pr (ok (split_by_len (num s) (num e) (num b)))));
      emit (L (A "rsp" :: List.map pr (ok (rsplit_by_len w64 (num s) (num e) (num b))))))
  | _ -> raise (Bad "split args")
let run_merge args = match args with
  | [recs] -> with_panic (fun emit ->
      let l = List.map brec_of (tagged "recs" recs) in
      let gs = ok (merge_groups l) in
      emit (L (A "groups" :: List.map (fun g -> L (List.map (fun r -> az r.b_val) g)) gs));
      emit (L (A "ranges" :: List.map (fun ((c, s), e) -> L [sx_chr c; an s; an e]) (ok (merge_sorted_bed l)))))
  | _ -> raise (Bad "merge args")
let run_bg args = match args with
  | [recs] -> with_panic (fun emit ->
      let l = List.map brec_of (tagged "recs" recs) in
      emit (L (A "out" :: List.map (fun r -> L [sx_chr r.b_chr; an r.b_st; an r.b_en; az r.b_val]) (ok (merge_sorted_bedgraph l)))))
  | _ -> raise (Bad "bg args")

(* ---------- text: Display / FromStr / Reader / Writer ---------- *)
let opt_of f x = match x with A "none" -> None | _ -> Some (f x)
let strand_of x = match atom x with "+" -> Fwd | "-" -> Rev | _ -> raise (Bad "strand")
let bed_of l = match l with
  | c :: s :: e :: nm :: sc :: sd :: rest ->
    ({ bd_chr = chr c; bd_st = num s; bd_en = num e; bd_name = opt_of chr nm; bd_score = opt_of num sc; bd_strand = opt_of strand_of sd }, rest)
  | _ -> raise (Bad "bed fields")
let sx_opt f = function Some x -> f x | None -> A "none"
let sx_strand = function Fwd -> A "+" | Rev -> A "-"
let sx_bedfields (b : bed) = [sx_chr b.bd_chr; an b.bd_st; an b.bd_en; sx_opt sx_chr b.bd_name; sx_opt an b.bd_score; sx_opt sx_strand b.bd_strand]
(* float tables shipped with the case: (ftab (bits hex)...) and (ptab (hex bits|none)...) *)
let mk_show_f (ft : sexp) : n -> n list =
  let tbl = List.map (fun e -> match lst e with [b; h] -> (atom b, bytes_of_hex (atom h)) | _ -> raise (Bad "ftab")) (tagged "ftab" ft) in
  fun bits -> (try List.assoc (string_of_n bits) tbl with Not_found -> raise (Bad ("float not in ftab: " ^ string_of_n bits)))
let mk_parse_f (pt : sexp) : n list -> n option =
  let tbl = List.map (fun e -> match lst e with [h; b] -> (atom h, (match b with A "none" -> None | _ -> Some (num b))) | _ -> raise (Bad "ptab")) (tagged "ptab" pt) in
  fun s -> (try List.assoc (hex_of_bytes s) tbl with Not_found -> raise (Bad ("token not in ptab: " ^ hex_of_bytes s)))
let sx_perr = function
  | MissingChrom -> "missing-chrom" | MissingStart -> "missing-start" | InvalidStart -> "invalid-start"
  | MissingEnd -> "missing-end" | InvalidEnd -> "invalid-end" | MissingName -> "missing-name"
  | MissingScore -> "missing-score" | InvalidScore -> "invalid-score" | MissingStrand -> "missing-strand"
  | InvalidStrand -> "invalid-strand" | MissingField -> "ext" | InvalidField -> "ext"
let sx_pres f = function POk a -> L [A "ok"; f a] | PErr e -> L [A "err"; A (sx_perr e)] | PPanic -> A "panic"
let sx_gr ((c, s), e) = L [sx_chr c; an s; an e]
let sx_bed b = L (sx_bedfields b)
let sx_np (r : npeak) = L (sx_bedfields r.np_bed @ [an r.np_signal; sx_opt an r.np_p; sx_opt an r.np_q; an r.np_peak])
let sx_bp (r : bpeak) = L (sx_bedfields r.bp_bed @ [an r.bp_signal; sx_opt an r.bp_p; sx_opt an r.bp_q])
let sx_bg (r : bgraph) = L [sx_chr r.bg_chr; an r.bg_st; an r.bg_en; (match r.bg_val with VInt z -> az z | VFloat b -> an b)]
(* a typed record: shown text and a parser for the same type, printing results as sexp *)
let bedn t = n_of_int (int_of_string (String.sub t 3 1))
let show_typed (t : string) (sf : n -> n list) (r : sexp) : n list =
  match t with
  | "gr" -> (match lst r with [c; s; e] -> show_grange (chr c) (num s) (num e) | _ -> raise (Bad "gr"))
  | "bed3" | "bed4" | "bed5" | "bed6" -> show_bed (bedn t) (fst (bed_of (lst r)))
  | "np" -> let (b, rest) = bed_of (lst r) in
    (match rest with [sg; p; q; pk] -> show_npeak sf { np_bed = b; np_signal = num sg; np_p = opt_of num p; np_q = opt_of num q; np_peak = num pk } | _ -> raise (Bad "np"))
  | "bp" -> let (b, rest) = bed_of (lst r) in
    (match rest with [sg; p; q] -> show_bpeak sf { bp_bed = b; bp_signal = num sg; bp_p = opt_of num p; bp_q = opt_of num q } | _ -> raise (Bad "bp"))
  | "bgi" -> (match lst r with [c; s; e; v] -> show_bgraph sf { bg_chr = chr c; bg_st = num s; bg_en = num e; bg_val = VInt (znum v) } | _ -> raise (Bad "bgi"))
  | "bgf" -> (match lst r with [c; s; e; v] -> show_bgraph sf { bg_chr = chr c; bg_st = num s; bg_en = num e; bg_val = VFloat (num v) } | _ -> raise (Bad "bgf"))
  | _ -> raise (Bad "type")
let parse_typed (t : string) (pf : n list -> n option) (s : n list) : sexp =
  match t with
  | "gr" -> sx_pres sx_gr (parse_grange s)
  | "bed3" | "bed4" | "bed5" | "bed6" -> sx_pres sx_bed (parse_bed (bedn t) s)
  | "np" -> sx_pres sx_np (parse_npeak pf s)
  | "bp" -> sx_pres sx_bp (parse_bpeak pf s)
  | "bgi" -> sx_pres sx_bg (parse_bgraph false pf s)
  | "bgf" -> sx_pres sx_bg (parse_bgraph true pf s)
  | _ -> raise (Bad "type")
let run_fmt args = match args with
  | [t; r; ft; pt] -> with_panic (fun emit ->
      let t = atom t in
      let sf = mk_show_f ft and pf = mk_parse_f pt in
      let txt = show_typed t sf r in
      emit (L [A "txt"; A (hex_of_bytes txt)]);
      emit (L [A "rt"; parse_typed t pf txt]);
      if t = "gr" then begin
        match lst r with
        | [c; s; e] -> let p = pretty_show (chr c) (num s) (num e) in
          emit (L [A "pretty"; A (hex_of_bytes p)]); emit (L [A "prt"; parse_typed t pf p])
        | _ -> raise (Bad "gr")
      end)
  | _ -> raise (Bad "fmt args")
let run_parse args = match args with
  | [t; s; pt] -> with_panic (fun emit -> emit (parse_typed (atom t) (mk_parse_f pt) (bytes_of_hex (atom s))))
  | _ -> raise (Bad "parse args")
let run_misc args = match args with
  | [A "optf"; fs] -> with_panic (fun emit -> emit (A (hex_of_bytes (show_optional_fields (List.map (fun x -> bytes_of_hex (atom x)) (lst fs))))))
  | [A "strand"; s] -> with_panic (fun emit ->
      emit (match strand_from_str (bytes_of_hex (atom s)) with
            | SOk st -> L [A "ok"; A (hex_of_bytes (show_strand st))] | SEmpty -> A "empty" | SInvalid -> A "invalid"))
  | _ -> raise (Bad "misc args")
(* bincode wire format of the crate's record types: serialized bytes and the deserialization of those bytes *)
let run_ser args = match args with
  | [A t; r] -> with_panic (fun emit ->
      let out bytes back = emit (L [A "bytes"; A (hex_of_bytes bytes)]); emit (L [A "rt"; back]) in
      match t with
      | "gr" -> (match lst r with [c; s; e] -> let g = ((chr c, num s), num e) in
                  out (ser_grange g) (match de_all de_grange (ser_grange g) with Some x -> sx_gr x | None -> A "none") | _ -> raise (Bad "gr"))
      | "bed3" | "bed4" | "bed5" | "bed6" -> let (b, _) = bed_of (lst r) in
        out (ser_bedrec b []) (match de_all de_bedrec (ser_bedrec b []) with Some (x, []) -> sx_bed x | _ -> A "none")
      | "np" -> let (b, rest) = bed_of (lst r) in
        (match rest with [sg; p; q; pk] -> let x = { np_bed = b; np_signal = num sg; np_p = opt_of num p; np_q = opt_of num q; np_peak = num pk } in
           out (ser_npeak x) (match de_all de_npeak (ser_npeak x) with Some y -> sx_np y | None -> A "none") | _ -> raise (Bad "np"))
      | "bp" -> let (b, rest) = bed_of (lst r) in
        (match rest with [sg; p; q] -> let x = { bp_bed = b; bp_signal = num sg; bp_p = opt_of num p; bp_q = opt_of num q } in
           out (ser_bpeak x) (match de_all de_bpeak (ser_bpeak x) with Some y -> sx_bp y | None -> A "none") | _ -> raise (Bad "bp"))
      | "bgi" -> (match lst r with [c; s; e; v] -> let x = { bg_chr = chr c; bg_st = num s; bg_en = num e; bg_val = VInt (znum v) } in
           out (ser_bgraph x) (match de_all (de_bgraph false) (ser_bgraph x) with Some y -> sx_bg y | None -> A "none") | _ -> raise (Bad "bgi"))
      | "bgf" -> (match lst r with [c; s; e; v] -> let x = { bg_chr = chr c; bg_st = num s; bg_en = num e; bg_val = VFloat (num v) } in
           out (ser_bgraph x) (match de_all (de_bgraph true) (ser_bgraph x) with Some y -> sx_bg y | None -> A "none") | _ -> raise (Bad "bgf"))
      | _ -> raise (Bad "ser type"))
  | _ -> raise (Bad "ser args")
let run_score args = match args with
  | [A "try"; v] -> with_panic (fun emit -> emit (match score_try_from (num v) with Some x -> L [A "ok"; an x] | None -> A "err"))
  | [A "str"; s] -> with_panic (fun emit ->
      emit (match score_from_str (bytes_of_hex (atom s)) with Some v -> L [A "ok"; an v] | None -> A "err"))
  | _ -> raise (Bad "score args")
let lf = n_of_int 10 and cr = n_of_int 13
let rec drop_last = function [] -> [] | [_] -> [] | x :: t -> x :: drop_last t
let reterminate (lines : n list list) (terms : sexp list) : n list =
  (* each written line ends in LF; replace it by the requested terminator *)
  List.concat (List.map2 (fun l t -> let body = drop_last l in
      match atom t with "lf" -> body @ [lf] | "crlf" -> body @ [cr; lf] | "none" -> body | _ -> raise (Bad "term")) lines terms)
let reader_items_sx t pf prefix s =
  match t with
  | "gr" -> List.map (sx_pres sx_gr) (reader_items parse_grange prefix s)
  | "bed3" | "bed4" | "bed5" | "bed6" -> List.map (sx_pres sx_bed) (reader_items (parse_bed (bedn t)) prefix s)
  | "np" -> List.map (sx_pres sx_np) (reader_items (parse_npeak pf) prefix s)
  | "bp" -> List.map (sx_pres sx_bp) (reader_items (parse_bpeak pf) prefix s)
  | "bgi" -> List.map (sx_pres sx_bg) (reader_items (parse_bgraph false pf) prefix s)
  | "bgf" -> List.map (sx_pres sx_bg) (reader_items (parse_bgraph true pf) prefix s)
  | _ -> raise (Bad "type")
let run_read args = match args with
  | [t; prefix; stream; _frag; pt] -> with_panic (fun emit ->
      let t = atom t in
      let pf = mk_parse_f pt in
      let prefix = (match prefix with A "none" -> None | p -> Some (bytes_of_hex (atom p))) in
      let s = bytes_of_hex (atom stream) in
      emit (L (A "items" :: reader_items_sx t pf prefix s)))
  | _ -> raise (Bad "read args")
let run_wr args = match args with
  | [t; prefix; recs; terms; _frag; ft; pt] -> with_panic (fun emit ->
      let t = atom t in
      let sf = mk_show_f ft and pf = mk_parse_f pt in
      let prefix = (match prefix with A "none" -> None | p -> Some (bytes_of_hex (atom p))) in
      let lines = List.map (fun r -> write_record (show_typed t sf r)) (tagged "recs" recs) in
      emit (L [A "txt"; A (hex_of_bytes (List.concat lines))]);
      let s = reterminate lines (tagged "terms" terms) in
      emit (L (A "items" :: reader_items_sx t pf prefix s)))
  | _ -> raise (Bad "wr args")
let run_skiprun args = match args with
  | [nn; prefix; tail] -> with_panic (fun emit ->
      let p = bytes_of_hex (atom prefix) in
      let line = p @ [n_of_int 120; lf] in
      let k = int_ nn in
      let rec build i acc = if i = 0 then acc else build (i - 1) (List.rev_append (List.rev line) acc) in
      let s = build k (bytes_of_hex (atom tail)) in
      emit (L (A "items" :: reader_items_sx "bed3" (fun _ -> None) (Some p) s)))
  | _ -> raise (Bad "skiprun args")

(* ---------- extsort ---------- *)
let wop_of x = match x with
  | L [A "acc"; k] -> WAccept (nat_ k) | A "zero" -> WZero | A "err" -> WErr | A "intr" -> WIntr
  | _ -> raise (Bad "wop")
let rop_of x = match x with
  | L [A "give"; k] -> RGive (nat_ k) | A "intr" -> RIntr | A "err" -> RErr
  | _ -> raise (Bad "rop")
let sx_citem = function CItem v -> L [A "ok"; A (hex_of_bytes v)] | CIoErr -> A "ioerr" | CDeErr -> A "deerr"
let citem_of x = match x with
  | L [A "ok"; h] -> CItem (bytes_of_hex (atom h)) | A "ioerr" -> CIoErr | A "deerr" -> CDeErr
  | _ -> raise (Bad "citem")
(* payloads are given as (len seed): byte i of the blob = (seed + i * 7) mod 256 *)
let blob_of x = match x with
  | L [len; seed] -> let n = int_ len and sd = int_ seed in List.init n (fun i -> n_of_int ((sd + i * 7) land 255))
  | _ -> raise (Bad "blob")
let run_chunk args = match args with
  | [A stack; items; wplan; rplan] | [A stack; items; wplan; rplan; _] -> with_panic (fun emit ->
      let cut = (match args with [_; _; _; _; c] -> (match tagged "cut" c with [k] -> int_ k | _ -> raise (Bad "cut")) | _ -> 0) in
      let drop_tail l = let n = List.length l in List.filteri (fun i _ -> i < n - cut) l in
      let items = List.map blob_of (tagged "items" items) in
      if stack = "lz4" then emit (A "oracle-only")
      else begin
        (* bare storage, or the uncompressed production stack: BufWriter on the way in, BufReader on the way out *)
        let wp = List.map wop_of (tagged "wplan" wplan) and rp = List.map rop_of (tagged "rplan" rplan) in
        let (st, e) = if stack = "bare" then dump { w_stored = []; w_plan = wp } items else dump_buffered wp items in
        match e with
        | Some _ -> emit (L [A "dump"; A "err"])
        | None ->
          emit (L [A "dump"; A "ok"]);
          emit (L [A "stored"; A (hex_of_bytes st.w_stored)]);
          let data = drop_tail st.w_stored in
          emit (L (A "items" :: List.map sx_citem (if stack = "bare" then chunk_read data rp else chunk_read_buffered data rp)))
      end)
  | _ -> raise (Bad "chunk args")
let run_chunkchk args = match args with
  | [items; A dump_ok; got; A hard] ->
    let items = List.map blob_of (tagged "items" items) in
    let got = List.map citem_of (tagged "got" got) in
    L [A "verdict"; sx_bool (chunk_oracle items (dump_ok = "1") got (hard = "1"))]
  | _ -> raise (Bad "chunkchk args")
let mitem_of x = match x with
  | L [A "ok"; k; id] -> MOk (num k, num id) | L [A "err"; t] -> MErr (num t) | _ -> raise (Bad "mitem")
let sx_mout = function OutOk (k, id) -> L [A "ok"; an k; an id] | OutErr t -> L [A "err"; an t]
let mout_of x = match x with
  | L [A "ok"; k; id] -> OutOk (num k, num id) | L [A "err"; t] -> OutErr (num t) | _ -> raise (Bad "mout")
let chunks_of x = List.map (fun c -> List.map mitem_of (lst c)) (tagged "chunks" x)
let run_kmerge args = match args with
  | [A rev; chunks; ncalls] | [A rev; chunks; ncalls; _] -> with_panic (fun emit ->
      let r = ok (merger_calls (rev = "1") (nat_ ncalls) { m_chunks = chunks_of chunks; m_heap = []; m_init = false }) in
      emit (L (A "calls" :: List.map (function Some o -> sx_mout o | None -> A "none") r)))
  | _ -> raise (Bad "kmerge args")
let run_kmergechk args = match args with
  | [A rev; chunks; outs] ->
    L [A "verdict"; sx_bool (merge_oracle (rev = "1") (chunks_of chunks) (List.map mout_of (tagged "outs" outs)))]
  | _ -> raise (Bad "kmergechk args")
let run_xsort args = match args with
  | [cs; _threads; _comp; A rev; items] | [cs; _threads; _comp; A rev; items; _] -> with_panic (fun emit ->
      let input = List.map (fun x -> match lst x with k :: id :: _ -> (num k, num id) | _ -> raise (Bad "xsort item")) (tagged "items" items) in
      (* the default chunk size (50,000,000) exceeds every generated input: same behaviour as len + 1 *)
      let cs = (match cs with A "default" -> nat_of_int (List.length input + 1) | x -> nat_ x) in
      let (n, out) = ok (ext_sort_isort (rev = "1") cs input) in
      emit (L [A "len"; anat n]);
      emit (L (A "out" :: List.map sx_mout out)))
  | _ -> raise (Bad "xsort args")
(* two sorts on one sorter object, results consumed interleaved: the sorter keeps no state between calls in the model *)
let run_xsort2 args = match args with
  | [cs; th; comp; rev; a; b] ->
    (match run_xsort [cs; th; comp; rev; a], run_xsort [cs; th; comp; rev; b] with
     | L (A "r" :: ra), L (A "r" :: rb) -> L (A "r" :: (ra @ rb))
     | _ -> raise (Bad "xsort2"))
  | _ -> raise (Bad "xsort2 args")
let run_tmpchk args = match args with
  | [cfg; before; during; after; opens] ->
    let names x = List.map (fun a -> bytes_of_hex (atom a)) x in
    let cfg = bytes_of_hex (atom cfg) in
    L [A "verdict"; sx_bool (tmp_ok cfg (names (tagged "before" before)) (List.map (fun d -> names (lst d)) (tagged "during" during)) (names (tagged "after" after))
                             && tmp_open_ok cfg (List.map (fun d -> names (lst d)) (tagged "opens" opens)))]
  | _ -> raise (Bad "tmpchk args")

let run_case (x : sexp) : sexp =
  match x with
  | L (A "lap" :: args) -> run_lap args
  | L (A "gmap" :: args) -> run_gmap args
  | L (A "iset" :: args) -> run_iset args
  | L (A "imap" :: args) -> run_imap args
  | L (A "cov" :: args) -> run_cov args
  | L (A "bcov" :: args) -> run_bcov args
  | L (A "alg" :: args) -> run_alg args
  | L (A "split" :: args) -> run_split args
  | L (A "merge" :: args) -> run_merge args
  | L (A "bg" :: args) -> run_bg args
  | L (A "fmt" :: args) -> run_fmt args
  | L (A "parse" :: args) -> run_parse args
  | L (A "score" :: args) -> run_score args
  | L (A "ser" :: args) -> run_ser args
  | L (A "misc" :: args) -> run_misc args
  | L (A "read" :: args) -> run_read args
  | L (A "wr" :: args) -> run_wr args
  | L (A "skiprun" :: args) -> run_skiprun args
  | L (A "chunk" :: args) -> run_chunk args
  | L (A "chunkchk" :: args) -> run_chunkchk args
  | L (A "kmerge" :: args) -> run_kmerge args
  | L (A "kmergechk" :: args) -> run_kmergechk args
  | L (A "xsort" :: args) -> run_xsort args
  | L (A "xsort2" :: args) -> run_xsort2 args
  | L (A "tmpchk" :: args) -> run_tmpchk args
  | L [A "xsortrec"; _t; cs; th; comp; recs] ->
    (* records of the crate's own types: the generator supplies the rank of each record's (chrom,start,end) as key *)
    run_xsort [cs; th; comp; A "0"; L (A "items" :: List.map (fun r -> match lst r with rank :: id :: _ -> L [rank; id] | _ -> raise (Bad "xsortrec rec")) (tagged "recs" recs))]
  | L (A "tmp" :: _) -> L [A "r"; A "oracle-only"]
  | L (A "xsortquota" :: _) -> L [A "r"; A "oracle-only"]
  | L (A "wrfail" :: _) -> L [A "r"; A "oracle-only"]
  | _ -> raise (Bad "unknown case kind")

let () =
  let b = Buffer.create 4096 in
  (try
    while true do
      let line = input_line stdin in
      if line <> "" then begin
        Buffer.clear b;
        (try print_sexp b (run_case (parse_line line))
         with Bad m -> Buffer.clear b; Buffer.add_string b ("(glue-error " ^ String.escaped m ^ ")")
            | Stack_overflow -> Buffer.clear b; Buffer.add_string b "(glue-error stack-overflow)"
            | Failure m -> Buffer.clear b; Buffer.add_string b ("(glue-error failure-" ^ String.escaped m ^ ")")
            | Not_found -> Buffer.clear b; Buffer.add_string b "(glue-error not-found)"
            | Invalid_argument m -> Buffer.clear b; Buffer.add_string b ("(glue-error invalid-" ^ String.escaped m ^ ")"));
        print_string (Buffer.contents b); print_newline ()
      end
    done
  with End_of_file -> ())

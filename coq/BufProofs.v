(* BufProofs.v — C09 behind std::io::{BufWriter, BufReader} (BufModel.v): the uncompressed production
   stack dump -> BufWriter -> storage ; storage -> BufReader -> ExternalChunk::next keeps the guarantees
   proved for the bare storage in ChunkProofs.v.  Stdlib only, no axioms. *)
From BedV Require Import Base AlgebraModel ExtSortModel ChunkProofs BufModel.

(* the logical byte stream a BufWriter has accepted: what reached the storage, then what is still buffered *)
Definition bw_content (w : bufw) : bytes := w_stored (bw_inner w) ++ bw_buf w.
Definition bw_ok (w : bufw) : Prop := nlen (bw_buf w) <= BUF_CAP.
Definition has_hard_w (plan : list wop) : Prop := exists op, In op plan /\ hard_w op.

Lemma has_hard_w_incl : forall p q, (forall op, In op p -> In op q) -> has_hard_w p -> has_hard_w q.
Proof. intros p q H [op [Hi Hh]]. exists op. split; auto. Qed.

Lemma nlen_app : forall a b, nlen (a ++ b) = nlen a + nlen b.
Proof. intros. unfold nlen. rewrite app_length. lia. Qed.
Lemma nlen_nil : nlen [] = 0.
Proof. reflexivity. Qed.
Lemma nlen_nil_inv : forall a, nlen a = 0 -> a = [].
Proof. intros [|x a] H; [reflexivity|]. unfold nlen in H. cbn [length] in H. lia. Qed.

(* ---------------- BufWriter ---------------- *)
Lemma bw_flush_buf_nil : forall f w, bw_buf w = [] -> bw_flush_buf f w = (w, None).
Proof. intros f [buf st] H. cbn [bw_buf] in H. subst buf. destruct f; reflexivity. Qed.

(* any fuel above (buffered bytes + plan entries left) suffices: each iteration stores >= 1 byte or
   consumes a plan entry *)
Lemma bw_flush_buf_gen : forall fuel w w' r,
  (length (bw_buf w) + length (w_plan (bw_inner w)) < fuel)%nat ->
  bw_flush_buf fuel w = (w', r) ->
  (forall op, In op (w_plan (bw_inner w')) -> In op (w_plan (bw_inner w))) /\
  bw_content w' = bw_content w /\
  (length (bw_buf w') <= length (bw_buf w))%nat /\
  match r with None => bw_buf w' = [] | Some _ => has_hard_w (w_plan (bw_inner w)) end.
Proof.
  induction fuel as [|f IH]; intros w w' r Hf H; [lia|].
  destruct w as [buf [sto plan]]. cbn [bw_buf bw_inner w_plan] in Hf.
  destruct buf as [|b t].
  { cbn [bw_flush_buf bw_buf] in H. injection H as <- <-. cbn [bw_inner bw_buf w_plan]. repeat split; auto. }
  cbn [bw_flush_buf bw_buf bw_inner] in H. unfold sys_write in H. cbn [w_plan w_stored] in H.
  unfold bw_content. cbn [bw_inner bw_buf w_plan w_stored].
  destruct plan as [|op plan].
  - (* empty plan: everything accepted *)
    cbn [length skipn] in H. rewrite skipn_all in H. rewrite bw_flush_buf_nil in H by reflexivity.
    injection H as <- <-. cbn [bw_inner bw_buf w_plan w_stored length]. rewrite app_nil_r.
    repeat split; auto. lia.
  - destruct op as [k| | |].
    + (* WAccept k *)
      set (n := Nat.min (Nat.max k 1) (length (b :: t))) in *.
      assert (Hn1 : (1 <= n)%nat) by (subst n; cbn [length]; lia).
      assert (Hn2 : (n <= length (b :: t))%nat) by (subst n; lia).
      destruct n as [|n']; [lia|].
      apply IH in H; cbn [bw_inner bw_buf w_plan w_stored] in *.
      * destruct H as [Hp [Hc [Hl Hr]]]. unfold bw_content in Hc. cbn [bw_inner bw_buf w_stored] in Hc.
        split; [intros op Hop; right; auto|]. split; [|split].
        -- rewrite Hc, <- app_assoc. now rewrite firstn_skipn.
        -- rewrite skipn_length in Hl. lia.
        -- destruct r as [e|]; [|exact Hr]. destruct Hr as [op [Hop Hh]]. exists op. split; [right; exact Hop | exact Hh].
      * rewrite skipn_length. cbn [length] in *. lia.
    + (* WZero *)
      injection H as <- <-. cbn [bw_inner bw_buf w_plan w_stored]. split; [intros op Hop; right; exact Hop|].
      split; [reflexivity|]. split; [lia|]. exists WZero. split; [left; reflexivity | right; reflexivity].
    + (* WErr *)
      injection H as <- <-. cbn [bw_inner bw_buf w_plan w_stored]. split; [intros op Hop; right; exact Hop|].
      split; [reflexivity|]. split; [lia|]. exists WErr. split; [left; reflexivity | left; reflexivity].
    + (* WIntr *)
      apply IH in H; cbn [bw_inner bw_buf w_plan w_stored] in *.
      * destruct H as [Hp [Hc [Hl Hr]]]. unfold bw_content in Hc. cbn [bw_inner bw_buf w_stored] in Hc.
        split; [intros op Hop; right; auto|]. split; [exact Hc|]. split; [exact Hl|].
        destruct r as [e|]; [|exact Hr]. destruct Hr as [op [Hop Hh]]. exists op. split; [right; exact Hop | exact Hh].
      * cbn [length] in *. lia.
Qed.

Lemma bw_fuel_ok : forall w, (length (bw_buf w) + length (w_plan (bw_inner w)) < bw_fuel w)%nat.
Proof. intros. unfold bw_fuel. lia. Qed.

Theorem bw_flush_buf_ok : forall w w', bw_flush_buf (bw_fuel w) w = (w', None) ->
  bw_buf w' = [] /\ w_stored (bw_inner w') = bw_content w.
Proof.
  intros w w' H. apply bw_flush_buf_gen in H; [|apply bw_fuel_ok].
  destruct H as [_ [Hc [_ Hb]]]. split; [exact Hb|]. rewrite <- Hc. unfold bw_content. rewrite Hb. now rewrite app_nil_r.
Qed.

Lemma bw_ok_shrink : forall w w', (length (bw_buf w') <= length (bw_buf w))%nat -> bw_ok w -> bw_ok w'.
Proof. intros w w' H. unfold bw_ok, nlen. lia. Qed.

(* on error: a hard fault (WErr or WZero) is in the plan; the logical content is unchanged (the written part
   is drained from the buffer and appended to the storage); the buffer does not grow *)
Theorem bw_flush_buf_err : forall w w' e, bw_flush_buf (bw_fuel w) w = (w', Some e) ->
  has_hard_w (w_plan (bw_inner w)) /\ bw_content w' = bw_content w /\ (bw_ok w -> bw_ok w').
Proof.
  intros w w' e H. apply bw_flush_buf_gen in H; [|apply bw_fuel_ok].
  destruct H as [_ [Hc [Hl Hh]]]. split; [exact Hh|]. split; [exact Hc|]. apply bw_ok_shrink. exact Hl.
Qed.

Lemma bw_flush_buf_plan : forall w w' r, bw_flush_buf (bw_fuel w) w = (w', r) ->
  forall op, In op (w_plan (bw_inner w')) -> In op (w_plan (bw_inner w)).
Proof. intros w w' r H. apply bw_flush_buf_gen in H; [apply H | apply bw_fuel_ok]. Qed.

(* the part of write_all_cold after the optional flush *)
Lemma bw_write_all_tail : forall w1 d w' r,
  (BUF_CAP <= nlen d -> bw_buf w1 = []) ->
  (nlen d < BUF_CAP -> nlen (bw_buf w1) + nlen d <= BUF_CAP) ->
  (if BUF_CAP <=? nlen d
   then let (st', e) := write_all (wa_fuel (bw_inner w1) d) (bw_inner w1) d in (mkBW (bw_buf w1) st', e)
   else (mkBW (bw_buf w1 ++ d) (bw_inner w1), None)) = (w', r) ->
  (forall op, In op (w_plan (bw_inner w')) -> In op (w_plan (bw_inner w1))) /\
  match r with
  | None => bw_content w' = bw_content w1 ++ d /\ bw_ok w'
  | Some _ => has_hard_w (w_plan (bw_inner w1))
  end.
Proof.
  intros w1 d w' r Hbig Hsmall H.
  destruct (N.leb_spec BUF_CAP (nlen d)) as [Hle|Hlt].
  - destruct (write_all (wa_fuel (bw_inner w1) d) (bw_inner w1) d) as [st' e] eqn:E.
    injection H as <- <-. cbn [bw_inner bw_buf].
    pose proof (write_all_plan _ _ _ _ E) as P. split; [exact P|].
    destruct e as [e|].
    + apply write_all_err in E. exact (proj1 E).
    + apply write_all_ok in E. unfold bw_content, bw_ok. cbn [bw_inner bw_buf].
      rewrite (Hbig Hle), !app_nil_r. split; [exact E|]. rewrite nlen_nil. unfold BUF_CAP. lia.
  - injection H as <- <-. cbn [bw_inner bw_buf]. split; [auto|].
    unfold bw_content, bw_ok. cbn [bw_inner bw_buf]. split; [now rewrite app_assoc|].
    rewrite nlen_app. apply Hsmall. exact Hlt.
Qed.

Lemma bw_write_all_gen : forall w d w' r, bw_ok w -> bw_write_all w d = (w', r) ->
  (forall op, In op (w_plan (bw_inner w')) -> In op (w_plan (bw_inner w))) /\
  match r with
  | None => bw_content w' = bw_content w ++ d /\ bw_ok w'
  | Some _ => has_hard_w (w_plan (bw_inner w))
  end.
Proof.
  intros w d w' r Hok H. unfold bw_write_all in H. unfold bw_ok in Hok.
  destruct (N.ltb_spec (nlen d) (bw_spare w)) as [Hlt|Hge].
  - injection H as <- <-. cbn [bw_inner bw_buf]. split; [auto|].
    unfold bw_content, bw_ok. cbn [bw_inner bw_buf]. split; [now rewrite app_assoc|].
    rewrite nlen_app. unfold bw_spare in Hlt. lia.
  - destruct (N.ltb_spec (bw_spare w) (nlen d)) as [Hlt2|Hge2].
    + destruct (bw_flush_buf (bw_fuel w) w) as [w1 e1] eqn:E1.
      apply bw_flush_buf_gen in E1; [|apply bw_fuel_ok].
      destruct E1 as [P1 [C1 [L1 R1]]].
      destruct e1 as [e|].
      * injection H as <- <-. split; [exact P1 | exact R1].
      * apply bw_write_all_tail in H.
        -- destruct H as [P2 R2]. split; [intros op Hop; apply P1, P2, Hop|].
           destruct r as [e|].
           ++ eapply has_hard_w_incl; [exact P1 | exact R2].
           ++ rewrite <- C1. exact R2.
        -- intros _. exact R1.
        -- intros Hd. rewrite R1, nlen_nil. lia.
    + assert (Hsp : bw_spare w = nlen d) by lia. unfold bw_spare in Hsp.
      apply bw_write_all_tail in H.
      * exact H.
      * intros Hd. apply nlen_nil_inv. lia.
      * intros Hd. lia.
Qed.

Theorem bw_write_all_ok : forall w d w', bw_ok w -> bw_write_all w d = (w', None) ->
  bw_content w' = bw_content w ++ d /\ bw_ok w'.
Proof. intros w d w' Hok H. apply bw_write_all_gen in H; [apply H | exact Hok]. Qed.

Theorem bw_write_all_err : forall w d w' e, bw_ok w -> bw_write_all w d = (w', Some e) ->
  has_hard_w (w_plan (bw_inner w)).
Proof. intros w d w' e Hok H. apply bw_write_all_gen in H; [apply H | exact Hok]. Qed.

Lemma bw_write_all_plan : forall w d w' r, bw_ok w -> bw_write_all w d = (w', r) ->
  forall op, In op (w_plan (bw_inner w')) -> In op (w_plan (bw_inner w)).
Proof. intros w d w' r Hok H. apply bw_write_all_gen in H; [apply H | exact Hok]. Qed.

(* ---------- dump over a BufWriter ---------- *)
Lemma dump_bw_gen : forall items w w' r, bw_ok w -> dump_bw w items = (w', r) ->
  (forall op, In op (w_plan (bw_inner w')) -> In op (w_plan (bw_inner w))) /\
  match r with
  | None => bw_content w' = bw_content w ++ frames items /\ bw_ok w'
  | Some _ => has_hard_w (w_plan (bw_inner w))
  end.
Proof.
  induction items as [|v t IH]; intros w w' r Hok H.
  - cbn [dump_bw] in H. injection H as <- <-. split; [auto|]. unfold frames. cbn [map concat].
    rewrite app_nil_r. split; [reflexivity | exact Hok].
  - cbn [dump_bw] in H.
    destruct (bw_write_all w (le64 _)) as [w1 e1] eqn:E1.
    apply bw_write_all_gen in E1; [|exact Hok]. destruct E1 as [P1 R1].
    destruct e1 as [e|].
    + injection H as <- <-. split; [exact P1 | exact R1].
    + destruct R1 as [C1 Ok1].
      destruct (bw_write_all w1 (ser_blob v)) as [w2 e2] eqn:E2.
      apply bw_write_all_gen in E2; [|exact Ok1]. destruct E2 as [P2 R2].
      destruct e2 as [e|].
      * injection H as <- <-. split; [intros op Hop; apply P1, P2, Hop|].
        eapply has_hard_w_incl; [exact P1 | exact R2].
      * destruct R2 as [C2 Ok2]. apply IH in H; [|exact Ok2]. destruct H as [P3 R3].
        split; [intros op Hop; apply P1, P2, P3, Hop|].
        destruct r as [e|].
        -- eapply has_hard_w_incl; [|exact R3]. intros op Hop. apply P1, P2, Hop.
        -- destruct R3 as [C3 Ok3]. split; [|exact Ok3].
           rewrite C3, C2, C1. unfold frames. cbn [map concat]. unfold frame. now rewrite !app_assoc.
Qed.

Theorem dump_bw_ok : forall items w w', bw_ok w -> dump_bw w items = (w', None) ->
  bw_content w' = bw_content w ++ frames items /\ bw_ok w'.
Proof. intros items w w' Hok H. apply dump_bw_gen in H; [apply H | exact Hok]. Qed.

Theorem dump_bw_err : forall items w w' e, bw_ok w -> dump_bw w items = (w', Some e) ->
  has_hard_w (w_plan (bw_inner w)).
Proof. intros items w w' e Hok H. apply dump_bw_gen in H; [apply H | exact Hok]. Qed.

Lemma bw_ok_empty : forall st, bw_ok (mkBW [] st).
Proof. intros st. unfold bw_ok. cbn [bw_buf]. rewrite nlen_nil. unfold BUF_CAP. lia. Qed.

Lemma dump_buffered_gen : forall plan items st r, dump_buffered plan items = (st, r) ->
  match r with None => w_stored st = frames items | Some _ => has_hard_w plan end.
Proof.
  intros plan items st r H. unfold dump_buffered in H.
  destruct (dump_bw (mkBW [] (mkW [] plan)) items) as [w e] eqn:E.
  apply dump_bw_gen in E; [|apply bw_ok_empty]. destruct E as [P R]. cbn [bw_inner w_plan] in P, R.
  destruct e as [e|].
  - injection H as <- <-. exact R.
  - destruct R as [C _]. unfold bw_content at 2 in C. cbn [bw_inner bw_buf w_stored app] in C.
    unfold bw_flush in H.
    destruct (bw_flush_buf (bw_fuel w) w) as [w2 e2] eqn:E2.
    apply bw_flush_buf_gen in E2; [|apply bw_fuel_ok]. destruct E2 as [P2 [C2 [_ R2]]].
    injection H as <- <-. destruct e2 as [e|].
    + eapply has_hard_w_incl; [exact P | exact R2].
    + rewrite <- C, <- C2. unfold bw_content. rewrite R2. now rewrite app_nil_r.
Qed.

Theorem dump_buffered_ok : forall plan items st, dump_buffered plan items = (st, None) -> w_stored st = frames items.
Proof. intros plan items st H. apply dump_buffered_gen in H. exact H. Qed.

Theorem dump_buffered_err_only_if_fault : forall plan items st e,
  dump_buffered plan items = (st, Some e) -> has_hard_w plan.
Proof. intros plan items st e H. apply dump_buffered_gen in H. exact H. Qed.

Theorem dump_buffered_no_fault_ok : forall plan items,
  (forall op, In op plan -> ~ hard_w op) -> exists st, dump_buffered plan items = (st, None).
Proof.
  intros plan items Hno. destruct (dump_buffered plan items) as [st [e|]] eqn:E.
  - apply dump_buffered_err_only_if_fault in E. destruct E as [op [Hop Hh]]. exfalso. exact (Hno op Hop Hh).
  - exists st. reflexivity.
Qed.

(* finding F8 behind BufWriter: the payload goes through BufWriter::write, whose count is ignored; a payload
   of at least BUF_CAP bytes takes the direct path, where a short write of the storage loses bytes silently *)
Theorem dump_bw_orig_refuted : exists items plan w',
  dump_bw_orig (mkBW [] (mkW [] plan)) items = (w', None) /\
  exists w'', bw_flush w' = (w'', None) /\ w_stored (bw_inner w'') <> frames items.
Proof.
  exists [repeat 7 (N.to_nat 8200)], [WAccept 100; WAccept 4096].
  eexists. split; [vm_compute; reflexivity|].
  eexists. split; [vm_compute; reflexivity|].
  intros H. apply (f_equal (@length N)) in H. vm_compute in H. discriminate H.
Qed.

(* ---------------- BufReader ---------------- *)
(* the logical remaining stream of a BufReader *)
Definition br_stream (r : bufr) : bytes := br_buf r ++ r_data (br_inner r).

Lemma skipn_firstn_app : forall (A : Type) (n m : nat) (l : list A),
  (n <= m)%nat -> skipn n (firstn m l) ++ skipn m l = skipn n l.
Proof.
  intros A n. induction n as [|n IH]; intros m l Hnm.
  - cbn [skipn]. apply firstn_skipn.
  - destruct m as [|m]; [lia|]. destruct l as [|x l]; cbn [firstn skipn]; [reflexivity|]. apply IH. lia.
Qed.

Lemma sys_read_step : forall st req st' x, (0 < req)%nat -> sys_read st req = (st', x) ->
  (forall op, In op (r_plan st') -> In op (r_plan st)) /\
  (length (r_plan st') <= length (r_plan st))%nat /\
  match x with
  | ROk got => exists n, (n <= req)%nat /\ (n <= length (r_data st))%nat /\ got = firstn n (r_data st) /\
                         r_data st' = skipn n (r_data st) /\ (n = 0%nat -> r_data st = [])
  | RFailIntr => r_data st' = r_data st /\ (length (r_plan st') < length (r_plan st))%nat
  | RFailHard => In RErr (r_plan st)
  end.
Proof.
  intros [data plan] req st' x Hreq H. unfold sys_read in H. cbn [r_plan r_data] in *.
  assert (Hnil : forall n, (n <= length data)%nat -> (n = 0%nat -> 0 < length data -> False)%nat -> n = 0%nat -> data = []).
  { intros n _ Hc Hz. destruct data as [|d0 dt]; [reflexivity|]. exfalso. apply (Hc Hz). cbn [length]. lia. }
  destruct plan as [|[k| |] plan]; injection H as <- <-; cbn [r_plan r_data length].
  - split; [auto|]. split; [lia|]. exists (Nat.min req (length data)).
    split; [lia|]. split; [lia|]. split; [reflexivity|]. split; [reflexivity|].
    apply Hnil; lia.
  - split; [intros op Hop; right; exact Hop|]. split; [lia|].
    exists (Nat.min (Nat.min (Nat.max k 1) req) (length data)).
    split; [lia|]. split; [lia|]. split; [reflexivity|]. split; [reflexivity|].
    apply Hnil; lia.
  - split; [intros op Hop; right; exact Hop|]. split; [lia|]. split; [reflexivity | lia].
  - split; [intros op Hop; right; exact Hop|]. split; [lia|]. left. reflexivity.
Qed.

(* one BufReader::read with a non-empty destination: a prefix of the logical stream, at least one byte
   unless the stream is exhausted; or an interruption that consumed a plan entry; or a hard fault *)
Lemma br_read_step : forall r req r' x, (0 < req)%nat -> br_read r req = (r', x) ->
  (forall op, In op (r_plan (br_inner r')) -> In op (r_plan (br_inner r))) /\
  (length (r_plan (br_inner r')) <= length (r_plan (br_inner r)))%nat /\
  match x with
  | ROk got => exists n, (n <= req)%nat /\ (n <= length (br_stream r))%nat /\ got = firstn n (br_stream r) /\
                         br_stream r' = skipn n (br_stream r) /\ (n = 0%nat -> br_stream r = [])
  | RFailIntr => br_stream r' = br_stream r /\
                 (length (r_plan (br_inner r')) < length (r_plan (br_inner r)))%nat
  | RFailHard => In RErr (r_plan (br_inner r))
  end.
Proof.
  intros [buf inner] req r' x Hreq H. unfold br_read in H. cbn [br_buf br_inner] in H.
  unfold br_stream. cbn [br_buf br_inner].
  destruct buf as [|b0 bt].
  - cbn [app]. destruct (N.leb_spec BUF_CAP (N.of_nat req)) as [Hbig|Hsmall].
    + destruct (sys_read inner req) as [st' y] eqn:E. injection H as <- <-.
      apply sys_read_step in E; [|exact Hreq]. cbn [br_inner br_buf app]. exact E.
    + destruct (sys_read inner (N.to_nat BUF_CAP)) as [st' y] eqn:E.
      apply sys_read_step in E; [|lia]. destruct E as [P [L M]].
      destruct y as [got| |].
      * destruct M as [m [Hm1 [Hm2 [Hg [Hd Hz]]]]]. injection H as <- <-. cbn [br_inner br_buf].
        split; [exact P|]. split; [exact L|].
        assert (Hlg : length got = m) by (rewrite Hg; apply firstn_length_le; exact Hm2).
        exists (Nat.min req (length got)). rewrite Hlg.
        split; [lia|]. split; [lia|]. split; [|split].
        -- rewrite Hg, firstn_firstn. f_equal. lia.
        -- rewrite Hd, Hg. apply skipn_firstn_app. lia.
        -- intros Hz'. apply Hz. lia.
      * injection H as <- <-. cbn [br_inner br_buf app]. split; [exact P|]. split; [exact L|]. exact M.
      * injection H as <- <-. cbn [br_inner br_buf app]. split; [exact P|]. split; [exact L|]. exact M.
  - remember (b0 :: bt) as b eqn:Eb.
    assert (Hb : (1 <= length b)%nat) by (subst b; cbn [length]; lia).
    assert (H' : (mkBR (skipn (Nat.min req (length b)) b) inner, ROk (firstn (Nat.min req (length b)) b)) = (r', x)).
    { subst b. exact H. }
    clear H Eb. injection H' as <- <-. cbn [br_inner br_buf]. split; [auto|]. split; [lia|].
    exists (Nat.min req (length b)). rewrite app_length.
    split; [lia|]. split; [lia|]. split; [|split].
    + rewrite firstn_app. replace (Nat.min req (length b) - length b)%nat with 0%nat by lia.
      cbn [firstn]. now rewrite app_nil_r.
    + rewrite skipn_app. replace (Nat.min req (length b) - length b)%nat with 0%nat by lia. reflexivity.
    + intros Hz. lia.
Qed.

Lemma br_read_loop_gen : forall fuel r req acc r' res,
  br_read_loop fuel r req acc = (r', res) ->
  (forall op, In op (r_plan (br_inner r')) -> In op (r_plan (br_inner r))) /\
  match res with
  | inl got => got = acc ++ firstn req (br_stream r) /\ br_stream r' = skipn req (br_stream r) /\
               (req <= length (br_stream r))%nat
  | inr e => (req + length (r_plan (br_inner r)) < fuel)%nat ->
             (e = EUnexpectedEof /\ (length (br_stream r) < req)%nat) \/
             (e = EOther /\ In RErr (r_plan (br_inner r)))
  end.
Proof.
  induction fuel as [|f IH]; intros r req acc r' res H.
  { destruct req as [|req']; cbn [br_read_loop] in H; injection H as <- <-; (split; [auto|]).
    - cbn [firstn skipn]. rewrite app_nil_r. repeat split. lia.
    - intros Hf. lia. }
  destruct req as [|req'].
  { cbn [br_read_loop] in H. injection H as <- <-. split; [auto|].
    cbn [firstn skipn]. rewrite app_nil_r. repeat split. lia. }
  cbn [br_read_loop] in H.
  destruct (br_read r (S req')) as [r1 x] eqn:E. apply br_read_step in E; [|lia].
  destruct E as [P [L M]].
  destruct x as [got| |].
  - destruct M as [n [Hn1 [Hn2 [Hg [Hs Hz]]]]].
    destruct got as [|g0 gt].
    + injection H as <- <-. split; [exact P|]. intros _. left. split; [reflexivity|].
      assert (Hn0 : n = 0%nat).
      { apply (f_equal (@length _)) in Hg. rewrite firstn_length_le in Hg by exact Hn2. cbn [length] in Hg. lia. }
      rewrite (Hz Hn0). cbn [length]. lia.
    + assert (Hl : length (g0 :: gt) = n).
      { rewrite Hg. apply firstn_length_le. exact Hn2. }
      rewrite Hl in H. apply IH in H. destruct H as [P2 R].
      split; [intros op Hop; apply P, P2, Hop|].
      assert (Hn3 : (1 <= n)%nat) by (rewrite <- Hl; cbn [length]; lia).
      destruct res as [out|e].
      * destruct R as [Ho [Hs2 Hle]]. rewrite Hs in Ho, Hs2, Hle. rewrite skipn_length in Hle.
        split; [|split].
        -- rewrite Ho, Hg, <- app_assoc. f_equal. apply firstn_split_sub. exact Hn1.
        -- rewrite Hs2. apply skipn_split_sub. exact Hn1.
        -- lia.
      * intros Hf. destruct R as [[He Hlt]|[He Hi]].
        -- lia.
        -- left. rewrite Hs, skipn_length in Hlt. split; [exact He | lia].
        -- right. split; [exact He | apply P, Hi].
  - injection H as <- <-. split; [exact P|]. intros _. right. split; [reflexivity | exact M].
  - apply IH in H. destruct H as [P2 R]. destruct M as [Ms Ml].
    split; [intros op Hop; apply P, P2, Hop|]. rewrite Ms in R.
    destruct res as [out|e]; [exact R|].
    intros Hf. destruct R as [R|[He Hi]]; [lia | left; exact R | right].
    split; [exact He | apply P, Hi].
Qed.

Lemma br_read_exact_gen : forall r req r' res, br_read_exact r req = (r', res) ->
  (forall op, In op (r_plan (br_inner r')) -> In op (r_plan (br_inner r))) /\
  match res with
  | inl got => got = firstn req (br_stream r) /\ br_stream r' = skipn req (br_stream r) /\
               (req <= length (br_stream r))%nat
  | inr e => (e = EUnexpectedEof /\ (length (br_stream r) < req)%nat) \/
             (e = EOther /\ In RErr (r_plan (br_inner r)))
  end.
Proof.
  intros r req r' res H. unfold br_read_exact in H.
  destruct (Nat.leb_spec req (length (br_buf r))) as [Hle|Hgt].
  - injection H as <- <-. cbn [br_buf br_inner]. split; [auto|]. unfold br_stream. cbn [br_buf br_inner].
    rewrite firstn_app, skipn_app, app_length.
    replace (req - length (br_buf r))%nat with 0%nat by lia. cbn [firstn skipn]. rewrite app_nil_r.
    repeat split. lia.
  - apply br_read_loop_gen in H. destruct H as [P R]. split; [exact P|].
    destruct res as [got|e]; [exact R|]. apply R. lia.
Qed.

Theorem br_read_exact_ok : forall r req r' got, br_read_exact r req = (r', inl got) ->
  got = firstn req (br_buf r ++ r_data (br_inner r)) /\
  br_buf r' ++ r_data (br_inner r') = skipn req (br_buf r ++ r_data (br_inner r)) /\
  (req <= length (br_buf r ++ r_data (br_inner r)))%nat.
Proof. intros r req r' got H. apply br_read_exact_gen in H. exact (proj2 H). Qed.

Theorem br_read_exact_err : forall r req r' e, br_read_exact r req = (r', inr e) ->
  (e = EUnexpectedEof /\ (length (br_buf r ++ r_data (br_inner r)) < req)%nat) \/
  (e = EOther /\ In RErr (r_plan (br_inner r))).
Proof. intros r req r' e H. apply br_read_exact_gen in H. exact (proj2 H). Qed.

Lemma br_read_exact_plan : forall r req r' res, br_read_exact r req = (r', res) ->
  forall op, In op (r_plan (br_inner r')) -> In op (r_plan (br_inner r)).
Proof. intros r req r' res H. apply br_read_exact_gen in H. exact (proj1 H). Qed.

(* ---------- ExternalChunk::next over a BufReader, on well-formed data ---------- *)
Lemma chunk_next_br_nil : forall r, br_stream r = [] -> exists r',
  chunk_next_br r = (r', None) \/
  (chunk_next_br r = (r', Some CIoErr) /\ In RErr (r_plan (br_inner r))).
Proof.
  intros r Hs. unfold chunk_next_br.
  destruct (br_read_exact r 8) as [r1 h] eqn:E1. apply br_read_exact_gen in E1. destruct E1 as [_ E1].
  rewrite Hs in E1. destruct h as [hb|e].
  - cbn [length] in E1. lia.
  - destruct E1 as [[-> _]|[-> Hi]]; exists r1; [left; reflexivity | right; split; [reflexivity | exact Hi]].
Qed.

Lemma chunk_next_br_cons : forall v rest r, blob_ok v -> br_stream r = frame v ++ rest ->
  (exists r', chunk_next_br r = (r', Some (CItem v)) /\ br_stream r' = rest /\
              forall op, In op (r_plan (br_inner r')) -> In op (r_plan (br_inner r))) \/
  (exists r', chunk_next_br r = (r', Some CIoErr) /\ In RErr (r_plan (br_inner r))).
Proof.
  intros v rest r Hv Hs. unfold chunk_next_br.
  destruct (br_read_exact r 8) as [r1 h] eqn:E1. apply br_read_exact_gen in E1. destruct E1 as [P1 E1].
  rewrite Hs in E1. destruct h as [hb|e].
  - destruct E1 as [Hhb [Hd1 _]].
    unfold frame, le64 in Hhb, Hd1. rewrite <- app_assoc in Hhb, Hd1.
    rewrite firstn_le_bytes_app in Hhb. rewrite skipn_le_bytes_app in Hd1. subst hb.
    rewrite le_val_le_bytes by (change (256 ^ N.of_nat 8) with (2 ^ 64); exact Hv).
    rewrite Nat2N.id.
    destruct (br_read_exact r1 (length (ser_blob v))) as [r2 p] eqn:E2.
    apply br_read_exact_gen in E2. destruct E2 as [P2 E2]. rewrite Hd1 in E2.
    destruct p as [pb|e].
    + destruct E2 as [Hpb [Hd2 _]].
      rewrite firstn_length_app in Hpb. rewrite skipn_length_app in Hd2. subst pb.
      rewrite de_ser_blob.
      * left. exists r2. split; [reflexivity|]. split; [exact Hd2 | intros op Hop; apply P1, P2, Hop].
      * unfold blob_ok in Hv. pose proof (ser_blob_length v). lia.
    + right. exists r2. split; [reflexivity|]. rewrite app_length in E2.
      destruct E2 as [[_ Hlt]|[_ Hi]]; [lia | apply P1, Hi].
  - rewrite app_length, frame_length in E1.
    destruct E1 as [[_ Hlt]|[-> Hi]]; [lia|].
    right. exists r1. split; [reflexivity | exact Hi].
Qed.

Lemma chunk_all_br_frames : forall items fuel r,
  Forall blob_ok items -> (length items < fuel)%nat -> br_stream r = frames items ->
  chunk_all_br fuel r = map CItem items \/
  (exists j, (j <= length items)%nat /\
     chunk_all_br fuel r = map CItem (firstn j items) ++ [CIoErr] /\ In RErr (r_plan (br_inner r))).
Proof.
  induction items as [|v t IH]; intros fuel r Hok Hf Hs; (destruct fuel as [|f]; [lia|]); cbn [chunk_all_br].
  - change (frames []) with (@nil N) in Hs.
    destruct (chunk_next_br_nil r Hs) as [r' [E|[E Hi]]]; rewrite E.
    + left. reflexivity.
    + right. exists 0%nat. split; [lia|]. split; [reflexivity | exact Hi].
  - inversion Hok as [|? ? Hv Ht]; subst. rewrite frames_cons in Hs.
    destruct (chunk_next_br_cons v (frames t) r Hv Hs) as [[r' [E [Hs' Hp]]]|[r' [E Hi]]]; rewrite E.
    + cbn [length] in Hf. destruct (IH f r' Ht ltac:(lia) Hs') as [R|[j [Hj [R Hi]]]]; rewrite R.
      * left. reflexivity.
      * right. exists (S j). cbn [length firstn map app]. split; [lia|].
        split; [reflexivity | apply Hp, Hi].
    + right. exists 0%nat. cbn [length firstn map app]. split; [lia|]. split; [reflexivity | exact Hi].
Qed.

Theorem read_frames_buffered : forall items rplan, Forall blob_ok items ->
  chunk_read_buffered (frames items) rplan = map CItem items \/
  (exists j, (j <= length items)%nat /\
     chunk_read_buffered (frames items) rplan = map CItem (firstn j items) ++ [CIoErr] /\ In RErr rplan).
Proof.
  intros items rplan Hok. unfold chunk_read_buffered.
  apply (chunk_all_br_frames items (S (length (frames items))) (mkBR [] (mkR (frames items) rplan))).
  - exact Hok.
  - pose proof (frames_length items). lia.
  - reflexivity.
Qed.

Theorem end_to_end_buffered : forall items wplan rplan st e,
  Forall blob_ok items -> dump_buffered wplan items = (st, e) ->
  e <> None \/
  chunk_read_buffered (w_stored st) rplan = map CItem items \/
  (exists j, (j <= length items)%nat /\
     chunk_read_buffered (w_stored st) rplan = map CItem (firstn j items) ++ [CIoErr] /\ In RErr rplan).
Proof.
  intros items wplan rplan st e Hok Hd. destruct e as [e|]; [left; discriminate|].
  right. apply dump_buffered_ok in Hd. rewrite Hd. apply read_frames_buffered. exact Hok.
Qed.

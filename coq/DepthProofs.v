(* DepthProofs.v — Lapper::depth / IterDepth: the iterator never panics (no index out of range, no
   overflow of p+1, fuel suffices) and emits the maximal run-length encoding of the depth function
   on the covered positions; that encoding is unique. *)
From BedV Require Import Base LapperModel ListFacts LapperProofs LapperSpecs MergeProofs.

(* ---------- small generic facts ---------- *)
Lemma CurOK_mono L c b b' : CurOK L c b -> b <= b' -> CurOK L c b'.
Proof.
  intros (H1 & H2) Hle. split; [exact H1|]. intros i v Hn Hi. specialize (H2 i v Hn Hi). lia.
Qed.

Lemma ovl_point p i : ovl p (p + 1) i = (st i <=? p) && (p <? en i).
Proof.
  unfold ovl. f_equal.
  destruct (N.ltb_spec (st i) (p + 1)), (N.leb_spec (st i) p); try reflexivity; lia.
Qed.

Lemma depth_pos_covered l p : covered l p <-> (0 < depth_at_pos l p)%nat.
Proof.
  unfold depth_at_pos, count_if. induction l as [|x t IH]; cbn [filter length].
  - rewrite covered_nil. lia.
  - rewrite covered_cons. unfold covers at 1.
    destruct (N.leb_spec (st x) p) as [H1|H1], (N.ltb_spec p (en x)) as [H2|H2]; cbn [andb length];
      rewrite IH; split; intros H; try lia; try (destruct H as [H|H]; [lia|exact H]); try (right; exact H); try (left; lia).
Qed.

Lemma span_acc l : forall a, fold_left (fun a i => a + ilen i) l a = a + span l.
Proof.
  unfold span. induction l as [|x t IH]; intros a; cbn [fold_left]; [lia|].
  rewrite (IH (a + ilen x)), (IH (0 + ilen x)). lia.
Qed.
Lemma span_cons x t : span (x :: t) = ilen x + span t.
Proof. unfold span at 1. cbn [fold_left]. rewrite span_acc. lia. Qed.

Lemma skipn_cons_nth {A} (l : list A) : forall k x t, skipn k l = x :: t ->
  nth_error l k = Some x /\ skipn (S k) l = t /\ (k < length l)%nat.
Proof.
  induction l as [|y l IH]; intros k x t H.
  - destruct k; discriminate H.
  - destruct k as [|k].
    + cbn [skipn] in H. injection H as -> ->. cbn [nth_error skipn length]. split; [reflexivity|]. split; [reflexivity|lia].
    + cbn [skipn] in H. destruct (IH k x t H) as (A1 & A2 & A3). cbn [nth_error length].
      split; [exact A1|]. split; [exact A2|lia].
Qed.

Lemma list_case {A} (l : list A) : l = [] \/ exists x t, l = x :: t.
Proof. destruct l as [|x t]; [left; reflexivity|right; exists x, t; reflexivity]. Qed.

Lemma covered_perm l l' p : Permutation l l' -> covered l p <-> covered l' p.
Proof.
  intros HP. unfold covered. split; intros (i & Hi & Hc); exists i; (split; [|exact Hc]).
  - apply (Permutation_in _ HP). exact Hi.
  - apply (Permutation_in _ (Permutation_sym HP)). exact Hi.
Qed.

Lemma covered_map_ends l p : covered (map (fun i => mkiv (st i) (en i) 1) l) p <-> covered l p.
Proof.
  unfold covered. split.
  - intros (x & Hx & Hc). apply in_map_iff in Hx. destruct Hx as (i & <- & Hi). exists i. split; [exact Hi|exact Hc].
  - intros (i & Hi & Hc). exists (mkiv (st i) (en i) 1). split; [|exact Hc].
    apply in_map_iff. exists i. split; [reflexivity|exact Hi].
Qed.

(* ---------- (1) one depth probe ---------- *)
Theorem depth_at_spec : forall W L p c b, LInv L -> CurOK L c b -> b <= p - max_len L -> p < W ->
  exists c', depth_at W L p c = Ok (depth_at_pos (ivs L) p, c') /\ CurOK L c' (p - max_len L).
Proof.
  intros W L p c b HI HC Hb Hp. unfold depth_at, add1.
  apply N.ltb_lt in Hp. rewrite Hp. cbn [rbind].
  destruct (seek_find L p (p + 1) c b HI HC Hb) as (c' & E & HC').
  rewrite E. cbn [rbind fst snd]. exists c'. split; [|exact HC'].
  f_equal. f_equal. unfold depth_at_pos, count_if. f_equal. apply filter_ext. intros i. apply ovl_point.
Qed.

(* ---------- (2) the iterator ---------- *)
Section Depth.
  Variables (W : N) (L : lapper) (m : list iv).
  Hypothesis HI : LInv L.
  Hypothesis Hsep : StrictSep m.
  Hypothesis Hcov : forall p, covered m p <-> covered (ivs L) p.
  Hypothesis HW : forall i, In i (ivs L) -> en i <= W.

  Local Notation dp := (depth_at_pos (ivs L)).

  Lemma block_en_W j : In j m -> en j <= W.
  Proof.
    intros Hj. destruct Hsep as (_ & Hn). specialize (Hn j Hj).
    assert (Hc : covered (ivs L) (en j - 1)).
    { apply Hcov. exists j. split; [exact Hj|unfold covers; lia]. }
    destruct Hc as (i & Hi & Hc). specialize (HW i Hi). unfold covers in Hc. lia.
  Qed.

  Lemma block_depth j p : In j m -> st j <= p < en j -> (0 < dp p)%nat.
  Proof.
    intros Hj Hp. apply depth_pos_covered. apply Hcov. exists j. split; [exact Hj|exact Hp].
  Qed.

  (* the inner while loop: from a position p whose depth is d, walk right while the depth stays d *)
  Lemma depth_inner_spec stop d : stop <= W -> forall fuel p c,
    p < stop -> (N.to_nat (stop - p) <= fuel)%nat -> CurOK L c (p - max_len L) ->
    exists q c', depth_inner W L stop d fuel p c = Ok (q, c') /\ p < q <= stop /\
      (forall x, p < x < q -> dp x = d) /\ (q = stop \/ dp q <> d) /\ CurOK L c' (q - max_len L).
  Proof.
    intros Hstop. induction fuel as [|f IH]; intros p c Hp Hf HC; [lia|].
    cbn [depth_inner]. destruct (N.ltb_spec p stop) as [_|]; [|lia].
    unfold add1. destruct (N.ltb_spec p W) as [_|]; [|lia]. cbn [rbind].
    destruct (N.eqb_spec (p + 1) stop) as [E|NE].
    - exists (p + 1), c. split; [reflexivity|]. split; [lia|]. split; [intros x Hx; lia|].
      split; [left; exact E|]. eapply CurOK_mono; [exact HC|lia].
    - destruct (depth_at_spec W L (p + 1) c (p - max_len L) HI HC) as (c' & E & HC'); [lia|lia|].
      fold (add1 W p). unfold add1 in E |- *.
      rewrite E. cbn [rbind fst snd]. destruct (Nat.eqb_spec (dp (p + 1)) d) as [Ed|Nd].
      + destruct (IH (p + 1) c') as (q & c2 & E2 & Hq & Hr & Hd & HC2); [lia|lia|exact HC'|].
        exists q, c2. split; [exact E2|]. split; [lia|]. split; [|split; assumption].
        intros x Hx. destruct (N.eq_dec x (p + 1)) as [->|]; [exact Ed|apply Hr; lia].
      + exists (p + 1), c'. split; [reflexivity|]. split; [lia|]. split; [intros x Hx; lia|].
        split; [right; exact Nd|exact HC'].
  Qed.

  (* state invariant at the start of a step: block i is at index d_pos, post are the later blocks *)
  Definition ceff (s : dstate) (i : iv) : N := if d_cmp s =? 0 then st i else d_cmp s.
  Definition SInv (s : dstate) (i : iv) (post : list iv) : Prop :=
    d_merged s = m /\ skipn (d_pos s) m = i :: post /\ st i <= ceff s i <= en i /\
    CurOK L (d_cur s) (ceff s i - max_len L).
  (* positions still to be reported *)
  Definition Rem (s : dstate) (i : iv) (post : list iv) (p : N) : Prop :=
    (ceff s i <= p < en i) \/ covered post p.
  Definition meas (s : dstate) (i : iv) (post : list iv) : N := (en i - ceff s i) + span post.

  Definition emit (j : iv) (c0 : N) (pos cur : nat) : res (option (iv * dstate)) :=
    do dc <- depth_at W L c0 cur;
    do pc <- depth_inner W L (en j) (fst dc) (N.to_nat (en j - c0)) c0 (snd dc);
    Ok (Some (mkiv c0 (fst pc) (N.of_nat (fst dc)), mkD m (fst pc) pos (snd pc))).

  Lemma depth_next_cases s i post : SInv s i post ->
    (ceff s i = en i /\ post = [] /\ depth_next W L s = Ok None) \/
    (ceff s i = en i /\ exists i1 post', post = i1 :: post' /\
       skipn (d_pos s + 1) m = i1 :: post' /\
       depth_next W L s = emit i1 (st i1) (d_pos s + 1) (d_cur s)) \/
    (ceff s i < en i /\ depth_next W L s = emit i (ceff s i) (d_pos s) (d_cur s)).
  Proof.
    destruct s as [m' cmp k cur]. unfold SInv, ceff. cbn [d_merged d_cmp d_pos d_cur].
    intros (-> & Hsk & Hc & HC).
    destruct (skipn_cons_nth _ _ _ _ Hsk) as (Hn & Hsk' & Hlt).
    set (ce := if cmp =? 0 then st i else cmp) in *.
    rewrite Nat.add_1_r.
    assert (Hdn : depth_next W L (mkD m cmp k cur) =
      do adv <- (if en i =? ce then
                   if negb (Nat.eqb (S k) (length m)) then
                     do i1 <- idx m (S k); Ok (Some (i1, st i1, S k))
                   else Ok None
                 else Ok (Some (i, ce, k)));
      match adv with
      | None => Ok None
      | Some (j, c0, pos) => emit j c0 pos cur
      end).
    { unfold depth_next. cbn [d_merged d_cmp d_pos d_cur].
      destruct (Nat.leb_spec (length m) k) as [|_]; [lia|].
      unfold idx at 1. rewrite Hn. cbn [of_opt rbind]. rewrite Nat.add_1_r. reflexivity. }
    rewrite Hdn. clear Hdn.
    destruct (N.eqb_spec (en i) ce) as [E|NE].
    - destruct post as [|i1 post'].
      + left. split; [lia|]. split; [reflexivity|].
        assert (Hl : length m = S k).
        { apply (f_equal (@length iv)) in Hsk'. rewrite skipn_length in Hsk'. cbn [length] in Hsk'. lia. }
        rewrite Hl, Nat.eqb_refl. cbn [negb rbind]. reflexivity.
      + right. left. split; [lia|]. exists i1, post'. split; [reflexivity|]. split; [exact Hsk'|].
        destruct (skipn_cons_nth _ _ _ _ Hsk') as (Hn1 & _ & Hlt1).
        destruct (Nat.eqb_spec (S k) (length m)) as [|_]; [lia|]. cbn [negb].
        unfold idx at 1. rewrite Hn1. cbn [of_opt rbind]. reflexivity.
    - right. right. split; [lia|]. cbn [rbind]. reflexivity.
  Qed.

  Lemma emit_step j c0 pos postj cur (R : N -> Prop) (M : N) :
    skipn pos m = j :: postj -> st j <= c0 < en j -> CurOK L cur (c0 - max_len L) ->
    (forall p, R p <-> (c0 <= p < en j) \/ covered postj p) -> M = (en j - c0) + span postj ->
    exists x s', emit j c0 pos cur = Ok (Some (x, s')) /\ SInv s' j postj /\
       meas s' j postj < M /\ st x < en x /\ 0 < vl x /\
       (forall p, st x <= p < en x -> N.of_nat (dp p) = vl x) /\
       (forall p, R p <-> (st x <= p < en x) \/ Rem s' j postj p) /\
       (forall p, Rem s' j postj p -> en x <= p) /\
       (Rem s' j postj (en x) -> N.of_nat (dp (en x)) <> vl x).
  Proof.
    intros Hsk Hc HC HR HM.
    destruct (skipn_cons_nth _ _ _ _ Hsk) as (Hn & Hsk' & Hlt).
    assert (Hj : In j m) by (eapply nth_error_In; exact Hn).
    pose proof (block_en_W j Hj) as HjW.
    assert (Hsepj : StrictSep (j :: postj)).
    { destruct Hsep as (Hs & Hne). rewrite <- Hsk. split; [apply sorted_skipn; exact Hs|].
      intros x Hx. apply Hne. eapply In_skipn_In; exact Hx. }
    assert (Hpost : forall p, covered postj p -> en j < p).
    { intros p Hp. eapply sep_head_lt; [exact Hsepj|exact Hp]. }
    unfold emit.
    destruct (depth_at_spec W L c0 cur (c0 - max_len L) HI HC) as (c1 & E1 & HC1); [lia|lia|].
    rewrite E1. cbn [rbind fst snd].
    destruct (depth_inner_spec (en j) (dp c0) HjW (N.to_nat (en j - c0)) c0 c1) as (q & c2 & E2 & Hq & Hr & Hd & HC2);
      [lia|lia|exact HC1|].
    rewrite E2. cbn [rbind fst snd].
    pose proof (block_depth j c0 Hj Hc) as Hd0.
    assert (Hce : ceff (mkD m q pos c2) j = q).
    { unfold ceff. cbn [d_cmp]. destruct (N.eqb_spec q 0); [lia|reflexivity]. }
    eexists. eexists. split; [reflexivity|].
    unfold Rem, meas, SInv. rewrite Hce. cbn [d_merged d_pos d_cur st en vl].
    split; [split; [reflexivity|]; split; [exact Hsk|]; split; [lia|exact HC2]|].
    split; [lia|]. split; [lia|]. split; [lia|].
    assert (Hrun : forall p, c0 <= p < q -> dp p = dp c0).
    { intros p Hp. destruct (N.eq_dec p c0) as [->|]; [reflexivity|apply Hr; lia]. }
    split; [intros p Hp; rewrite (Hrun p Hp); reflexivity|].
    split; [|split].
    - intros p. rewrite HR. split.
      + intros [H|H]; [|right; right; exact H].
        destruct (N.lt_ge_cases p q); [left; lia|right; left; lia].
      + intros [H|[H|H]]; [left; lia|left; lia|right; exact H].
    - intros p [H|H]; [lia|]. specialize (Hpost p H). lia.
    - intros [H|H].
      + destruct Hd as [Hd|Hd]; [lia|]. intros Heq. apply Hd. apply Nat2N.inj. exact Heq.
      + specialize (Hpost q H). lia.
  Qed.

  Lemma depth_next_spec s i post : SInv s i post ->
    (depth_next W L s = Ok None /\ forall p, ~ Rem s i post p) \/
    (exists x s' j postj, depth_next W L s = Ok (Some (x, s')) /\ SInv s' j postj /\
       meas s' j postj < meas s i post /\
       st x < en x /\ 0 < vl x /\ (forall p, st x <= p < en x -> N.of_nat (dp p) = vl x) /\
       (forall p, Rem s i post p <-> (st x <= p < en x) \/ Rem s' j postj p) /\
       (forall p, Rem s' j postj p -> en x <= p) /\
       (Rem s' j postj (en x) -> N.of_nat (dp (en x)) <> vl x)).
  Proof.
    intros HS. pose proof HS as (Hm & Hsk & Hc & HC).
    destruct (skipn_cons_nth _ _ _ _ Hsk) as (Hn & Hsk' & Hlt).
    assert (Hsepi : StrictSep (i :: post)).
    { destruct Hsep as (Hs & Hne). rewrite <- Hsk. split; [apply sorted_skipn; exact Hs|].
      intros x Hx. apply Hne. eapply In_skipn_In; exact Hx. }
    destruct (depth_next_cases s i post HS) as [(E1 & -> & E)|[(E1 & i1 & post' & -> & Hsk1 & E)|(E1 & E)]].
    - left. split; [exact E|]. intros p [H|H]; [lia|]. apply covered_nil in H. exact H.
    - right.
      assert (Hi1 : st i1 < en i1) by (destruct Hsepi as (_ & Hne); apply Hne; right; left; reflexivity).
      assert (Hb : en i < st i1).
      { destruct Hsepi as (Hs & _). inversion Hs as [|? ? _ Hall]; subst.
        rewrite Forall_forall in Hall. apply (Hall i1). left. reflexivity. }
      destruct (emit_step i1 (st i1) (d_pos s + 1)%nat post' (d_cur s) (Rem s i (i1 :: post')) (meas s i (i1 :: post')))
        as (x & s' & Ee & R1 & R2 & R3); [exact Hsk1|lia| | | |].
      + eapply CurOK_mono; [exact HC|lia].
      + intros p. unfold Rem. rewrite covered_cons. unfold covers. split.
        * intros [H|H]; [lia|exact H].
        * intros H. right. exact H.
      + unfold meas. rewrite span_cons. unfold ilen. lia.
      + exists x, s', i1, post'. split; [rewrite E; exact Ee|]. split; [exact R1|]. split; [exact R2|exact R3].
    - right.
      destruct (emit_step i (ceff s i) (d_pos s) post (d_cur s) (Rem s i post) (meas s i post))
        as (x & s' & Ee & R1 & R2 & R3); [exact Hsk|lia|exact HC| | |].
      + intros p. unfold Rem. reflexivity.
      + unfold meas. reflexivity.
      + exists x, s', i, post. split; [rewrite E; exact Ee|]. split; [exact R1|]. split; [exact R2|exact R3].
  Qed.

  (* runs describing the depth function on the position set R *)
  Definition Good (rs : list iv) (R : N -> Prop) : Prop :=
    (forall r, In r rs -> st r < en r /\ 0 < vl r /\ forall p, st r <= p < en r -> N.of_nat (dp p) = vl r) /\
    StronglySorted (fun a b => en a <= st b) rs /\
    (forall pre a b post, rs = pre ++ a :: b :: post -> en a = st b -> vl a <> vl b) /\
    (forall p, covered rs p <-> R p).

  Lemma Good_nil (R : N -> Prop) : (forall p, ~ R p) -> Good [] R.
  Proof.
    intros H. split; [intros r []|]. split; [constructor|]. split.
    - intros pre a b post E. destruct pre; discriminate E.
    - intros p. rewrite covered_nil. split; [intros []|apply H].
  Qed.

  Lemma Good_cons x rest (R R' : N -> Prop) :
    Good rest R' -> st x < en x -> 0 < vl x -> (forall p, st x <= p < en x -> N.of_nat (dp p) = vl x) ->
    (forall p, R p <-> (st x <= p < en x) \/ R' p) -> (forall p, R' p -> en x <= p) ->
    (R' (en x) -> N.of_nat (dp (en x)) <> vl x) -> Good (x :: rest) R.
  Proof.
    intros (G1 & G2 & G3 & G4) X1 X2 X3 HR HR' Hdiff.
    assert (Hhead : forall b, In b rest -> en x <= st b).
    { intros b Hb. apply HR'. apply G4. exists b. split; [exact Hb|].
      destruct (G1 b Hb) as (Hb1 & _). unfold covers. lia. }
    split; [|split; [|split]].
    - intros r [<-|Hr]; [auto|apply G1; exact Hr].
    - constructor; [exact G2|]. apply Forall_forall. exact Hhead.
    - intros pre a b post E Eab. destruct pre as [|y pre]; cbn [app] in E; injection E as E1 E2.
      + subst a. subst rest. intros Hv.
        destruct (G1 b (or_introl eq_refl)) as (Hb1 & Hb2 & Hb3).
        apply Hdiff.
        * apply G4. exists b. split; [left; reflexivity|unfold covers; lia].
        * rewrite Hv, Eab. apply Hb3. lia.
      + apply (G3 pre a b post E2 Eab).
    - intros p. rewrite covered_cons, HR, G4. unfold covers. reflexivity.
  Qed.

  Lemma depth_all_spec : forall fuel s i post, SInv s i post -> (N.to_nat (meas s i post) < fuel)%nat ->
    exists rs, depth_all W L fuel s = Ok rs /\ Good rs (Rem s i post).
  Proof.
    induction fuel as [|f IH]; intros s i post HS Hf; [lia|].
    cbn [depth_all].
    destruct (depth_next_spec s i post HS)
      as [(E & Hno)|(x & s' & j & postj & E & HS' & Hm & X1 & X2 & X3 & X4 & X5 & X6)]; rewrite E; cbn [rbind].
    - exists []. split; [reflexivity|]. apply Good_nil. exact Hno.
    - destruct (IH s' j postj HS') as (rest & Er & Gr); [lia|]. rewrite Er. cbn [rbind].
      exists (x :: rest). split; [reflexivity|].
      apply (Good_cons x rest (Rem s i post) (Rem s' j postj)); assumption.
  Qed.

  Lemma depth_all_top :
    exists rs, depth_all W L (S (N.to_nat (span m))) (mkD m 0 0%nat 0%nat) = Ok rs /\ DepthRLE (ivs L) rs.
  Proof.
    destruct (list_case m) as [Em|(i & post & Em)].
    - exists []. rewrite Em at 1 2. split; [reflexivity|].
      assert (G : Good [] (covered (ivs L))).
      { apply Good_nil. intros p Hp. apply Hcov in Hp. rewrite Em in Hp. apply covered_nil in Hp. exact Hp. }
      destruct G as (G1 & G2 & G3 & G4). split; [exact G1|]. split; [exact G2|]. split; [exact G3|].
      intros p. symmetry. apply G4.
    - assert (Hce : ceff (mkD m 0 0%nat 0%nat) i = st i).
      { unfold ceff. cbn [d_cmp]. rewrite N.eqb_refl. reflexivity. }
      assert (Hi : st i < en i) by (destruct Hsep as (_ & Hne); apply Hne; rewrite Em; left; reflexivity).
      assert (HS : SInv (mkD m 0 0%nat 0%nat) i post).
      { unfold SInv. rewrite Hce. cbn [d_merged d_pos d_cur skipn]. split; [reflexivity|]. split; [exact Em|].
        split; [lia|]. split; [lia|]. intros k v _ Hk. lia. }
      destruct (depth_all_spec (S (N.to_nat (span m))) _ i post HS) as (rs & E & G1 & G2 & G3 & G4).
      { unfold meas. rewrite Hce, Em, span_cons. unfold ilen. lia. }
      exists rs. split; [exact E|]. split; [exact G1|]. split; [exact G2|]. split; [exact G3|].
      intros p. rewrite G4, <- Hcov. unfold Rem. rewrite Hce. rewrite Em at 1. rewrite covered_cons. unfold covers. reflexivity.
  Qed.
End Depth.

Theorem depth_rle : forall W L, LInv L -> ne_ivs (ivs L) -> (forall i, In i (ivs L) -> en i <= W) ->
  exists rs, ldepth W L = Ok rs /\ DepthRLE (ivs L) rs.
Proof.
  intros W L HI Hne HW.
  set (l1 := map (fun i => mkiv (st i) (en i) 1) (ivs L)).
  set (m := merge_pass [] (ivs (lnew l1))).
  change (ldepth W L) with (depth_all W L (S (N.to_nat (span m))) (mkD m 0 0%nat 0%nat)).
  assert (Hn1 : ne_ivs (ivs (lnew l1))).
  { intros x Hx. apply (Permutation_in _ (lnew_perm l1)) in Hx. unfold l1 in Hx.
    apply in_map_iff in Hx. destruct Hx as (i & <- & Hi). cbn [st en]. apply Hne. exact Hi. }
  destruct (merge_canon (ivs (lnew l1)) (inv_sorted _ (lnew_inv l1)) Hn1) as (Hsep & Hc).
  apply (depth_all_top W L m HI Hsep); [|exact HW].
  intros p. fold m in Hc. rewrite Hc. rewrite (covered_perm _ _ p (lnew_perm l1)). apply covered_map_ends.
Qed.

(* ---------- (3) ---------- *)
Theorem depth_empty : forall W, ldepth W (lnew []) = Ok [].
Proof. intros W. reflexivity. Qed.

(* ---------- (4) uniqueness of maximal run-length encodings ---------- *)
Definition RunsOf (f : N -> N) (R : N -> Prop) (rs : list iv) : Prop :=
  (forall r, In r rs -> st r < en r /\ forall p, st r <= p < en r -> f p = vl r) /\
  StronglySorted (fun a b => en a <= st b) rs /\
  (forall pre a b post, rs = pre ++ a :: b :: post -> en a = st b -> vl a <> vl b) /\
  (forall p, covered rs p <-> R p).

Lemma runs_head_all f R a t : RunsOf f R (a :: t) -> forall r, In r t -> en a <= st r.
Proof.
  intros (_ & G2 & _) r Hr. inversion G2 as [|? ? _ Hall]; subst. rewrite Forall_forall in Hall. apply Hall. exact Hr.
Qed.

Lemma runs_first_le f R a t p : RunsOf f R (a :: t) -> covered (a :: t) p -> st a <= p.
Proof.
  intros H Hc. apply covered_cons in Hc. destruct Hc as [Hc|(r & Hr & Hc)]; [unfold covers in Hc; lia|].
  pose proof (runs_head_all _ _ _ _ H r Hr). destruct H as (G1 & _).
  destruct (G1 a (or_introl eq_refl)) as (Ha & _). unfold covers in Hc. lia.
Qed.

Lemma runs_tail f R a t : RunsOf f R (a :: t) -> RunsOf f (fun p => R p /\ en a <= p) t.
Proof.
  intros H. pose proof (runs_head_all _ _ _ _ H) as Hh. destruct H as (G1 & G2 & G3 & G4).
  split; [|split; [|split]].
  - intros r Hr. apply G1. right. exact Hr.
  - inversion G2; assumption.
  - intros pre x y post E. apply (G3 (a :: pre) x y post). rewrite E. reflexivity.
  - intros p. split.
    + intros Hc. split; [apply G4; apply covered_cons; right; exact Hc|].
      destruct Hc as (r & Hr & Hc). specialize (Hh r Hr). unfold covers in Hc. lia.
    + intros (HR & Hle). apply G4 in HR. apply covered_cons in HR. destruct HR as [HR|HR]; [|exact HR].
      unfold covers in HR. lia.
Qed.

Lemma runs_st_le f R a t1 b t2 : RunsOf f R (a :: t1) -> RunsOf f R (b :: t2) -> st b <= st a.
Proof.
  intros H1 H2. apply (runs_first_le f R b t2 (st a) H2).
  destruct H1 as (G1 & _ & _ & G4). destruct H2 as (_ & _ & _ & K4).
  apply K4. apply G4. destruct (G1 a (or_introl eq_refl)) as (Ha & _).
  apply covered_cons. left. unfold covers. lia.
Qed.

Lemma runs_en_le f R a t1 b t2 : RunsOf f R (a :: t1) -> RunsOf f R (b :: t2) -> st a = st b -> en b <= en a.
Proof.
  intros H1 H2 Est. destruct (N.lt_ge_cases (en a) (en b)) as [Hlt|Hge]; [exfalso|lia].
  pose proof (runs_head_all _ _ _ _ H1) as Hh.
  destruct H1 as (G1 & G2 & G3 & G4). destruct H2 as (K1 & _ & _ & K4).
  destruct (G1 a (or_introl eq_refl)) as (Ha & Fa).
  destruct (K1 b (or_introl eq_refl)) as (Hb & Fb).
  assert (Hc : covered (a :: t1) (en a)).
  { apply G4. apply K4. apply covered_cons. left. unfold covers. lia. }
  apply covered_cons in Hc. destruct Hc as [Hc|(r & Hr & Hc)]; [unfold covers in Hc; lia|].
  destruct t1 as [|h t1']; [destruct Hr|].
  assert (Hrh : r = h).
  { destruct Hr as [Hr|Hr]; [symmetry; exact Hr|exfalso].
    inversion G2 as [|? ? G2' _]; subst. inversion G2' as [|? ? _ Hall]; subst.
    rewrite Forall_forall in Hall. specialize (Hall r Hr).
    specialize (Hh h (or_introl eq_refl)).
    destruct (G1 h (or_intror (or_introl eq_refl))) as (Hhne & _). unfold covers in Hc. lia. }
  subst r. specialize (Hh h (or_introl eq_refl)). unfold covers in Hc.
  assert (Esh : st h = en a) by lia.
  destruct (G1 h (or_intror (or_introl eq_refl))) as (Hhne & Fh).
  apply (G3 [] a h t1' eq_refl); [lia|].
  rewrite <- (Fa (st a)) by lia. rewrite <- (Fh (st h)) by lia.
  rewrite (Fb (st a)) by lia. rewrite (Fb (st h)) by lia. reflexivity.
Qed.

Lemma runs_unique f : forall r1 R r2, RunsOf f R r1 -> RunsOf f R r2 ->
  map (fun r => (st r, en r, vl r)) r1 = map (fun r => (st r, en r, vl r)) r2.
Proof.
  induction r1 as [|a t1 IH]; intros R [|b t2] H1 H2.
  - reflexivity.
  - exfalso. destruct H1 as (_ & _ & _ & G4). destruct H2 as (K1 & _ & _ & K4).
    destruct (K1 b (or_introl eq_refl)) as (Hb & _).
    apply (covered_nil (st b)). apply G4. apply K4. apply covered_cons. left. unfold covers. lia.
  - exfalso. destruct H2 as (_ & _ & _ & G4). destruct H1 as (K1 & _ & _ & K4).
    destruct (K1 a (or_introl eq_refl)) as (Ha & _).
    apply (covered_nil (st a)). apply G4. apply K4. apply covered_cons. left. unfold covers. lia.
  - pose proof (runs_st_le _ _ _ _ _ _ H1 H2) as E1. pose proof (runs_st_le _ _ _ _ _ _ H2 H1) as E2.
    assert (Est : st a = st b) by lia.
    pose proof (runs_en_le _ _ _ _ _ _ H1 H2 Est) as E3.
    pose proof (runs_en_le _ _ _ _ _ _ H2 H1 (eq_sym Est)) as E4.
    assert (Een : en a = en b) by lia.
    assert (Evl : vl a = vl b).
    { destruct H1 as (G1 & _). destruct H2 as (K1 & _).
      destruct (G1 a (or_introl eq_refl)) as (Ha & Fa). destruct (K1 b (or_introl eq_refl)) as (Hb & Fb).
      rewrite <- (Fa (st a)) by lia. rewrite <- (Fb (st a)) by lia. reflexivity. }
    cbn [map]. rewrite Est, Een, Evl. f_equal.
    pose proof (runs_tail _ _ _ _ H1) as T1. pose proof (runs_tail _ _ _ _ H2) as T2.
    rewrite <- Een in T2. exact (IH _ _ T1 T2).
Qed.

Theorem depth_rle_unique : forall l r1 r2, DepthRLE l r1 -> DepthRLE l r2 ->
  map (fun r => (st r, en r, vl r)) r1 = map (fun r => (st r, en r, vl r)) r2.
Proof.
  assert (Hconv : forall l rs, DepthRLE l rs -> RunsOf (fun p => N.of_nat (depth_at_pos l p)) (covered l) rs).
  { intros l rs (G1 & G2 & G3 & G4). split; [|split; [exact G2|split; [exact G3|]]].
    - intros r Hr. destruct (G1 r Hr) as (A & _ & B). split; [exact A|exact B].
    - intros p. symmetry. apply G4. }
  intros l r1 r2 H1 H2. apply (runs_unique (fun p => N.of_nat (depth_at_pos l p)) r1 (covered l) r2); apply Hconv; assumption.
Qed.

(* ---------- (5) every reachable state ---------- *)
Lemma merge_bound W l : sortedK l -> ne_ivs l -> (forall i, In i l -> en i <= W) ->
  forall x, In x (merge_pass [] l) -> en x <= W.
Proof.
  intros Hs Hn HW x Hx. destruct (merge_canon l Hs Hn) as ((_ & Hne) & Hc). specialize (Hne x Hx).
  assert (H : covered l (en x - 1)).
  { apply Hc. exists x. split; [exact Hx|unfold covers; lia]. }
  destruct H as (i & Hi & Hci). specialize (HW i Hi). unfold covers in Hci. lia.
Qed.

Lemma reach_depth_inv W : forall h L, LInv L -> ne_ivs (ivs L) -> (forall i, In i (ivs L) -> en i <= W) ->
  Forall ne_op h -> (forall o, In o h -> match o with Insert i => en i <= W | _ => True end) ->
  exists L', fold_left lstep h (Ok L) = Ok L' /\ LInv L' /\ ne_ivs (ivs L') /\ (forall i, In i (ivs L') -> en i <= W).
Proof.
  induction h as [|o t IH]; intros L HI Hne HW Hh Hb; cbn [fold_left].
  - exists L. auto.
  - inversion Hh as [|? ? Ho Ht]; subst.
    assert (Hbt : forall o', In o' t -> match o' with Insert i => en i <= W | _ => True end)
      by (intros o' Ho'; apply Hb; right; exact Ho').
    pose proof (Hb o (or_introl eq_refl)) as Hbo.
    destruct o as [i| |]; cbn [lstep rbind].
    + destruct (linsert_spec L i HI) as (L1 & E & HI1 & Hp & _). rewrite E. apply IH; [exact HI1| | |exact Ht|exact Hbt].
      * intros x Hx. apply (Permutation_in _ Hp) in Hx. destruct Hx as [<-|Hx]; [exact Ho|apply Hne; exact Hx].
      * intros x Hx. apply (Permutation_in _ Hp) in Hx. destruct Hx as [<-|Hx]; [exact Hbo|apply HW; exact Hx].
    + destruct (merge_canon_sorted (ivs L) (inv_sorted _ HI) Hne) as (_ & Hne').
      apply IH; [apply lmerge_inv; apply ne_le; exact Hne| | |exact Ht|exact Hbt].
      * exact Hne'.
      * cbn [lmerge ivs]. apply (merge_bound W (ivs L) (inv_sorted _ HI) Hne HW).
    + apply IH; [apply lset_cov_inv; exact HI|exact Hne|exact HW|exact Ht|exact Hbt].
Qed.

Lemma c20_depth : forall W l h, ne_ivs l -> Forall ne_op h -> (forall i, In i l -> en i <= W) ->
  (forall o, In o h -> match o with Insert i => en i <= W | _ => True end) ->
  exists L rs, lrun l h = Ok L /\ ldepth W L = Ok rs /\ DepthRLE (ivs L) rs.
Proof.
  intros W l h Hl Hh HW Hb. unfold lrun.
  destruct (reach_depth_inv W h (lnew l) (lnew_inv l)) as (L & E & HI & Hne & HWL); [| |exact Hh|exact Hb|].
  - intros x Hx. apply Hl. apply (Permutation_in _ (lnew_perm l)). exact Hx.
  - intros x Hx. apply HW. apply (Permutation_in _ (lnew_perm l)). exact Hx.
  - destruct (depth_rle W L HI Hne HWL) as (rs & Er & Hr).
    exists L, rs. split; [exact E|]. split; [exact Er|exact Hr].
Qed.

Print Assumptions depth_at_spec.
Print Assumptions depth_rle.
Print Assumptions depth_empty.
Print Assumptions depth_rle_unique.
Print Assumptions c20_depth.

(* TextProofs.v — proofs about the text codecs of TextModel.v (C03: round trips and column layout,
   C12: totality and first bad column).  Stdlib only, no axioms. *)
From BedV Require Import Base AlgebraModel TextModel.
Require Import ZifyN ZifyNat.
Local Ltac Zify.zify_post_hook ::= Z.div_mod_to_equations.

(* ---------- well-formedness predicates ---------- *)
Definition clean (s : bytes) : Prop := ~ In TAB s /\ ~ In CR s /\ ~ In LF s.
Definition FloatCodec (show_f : N -> bytes) (parse_f : bytes -> option N) : Prop :=
  (forall b, f64_is_nan b = false -> parse_f (show_f b) = Some b) /\ (forall b, clean (show_f b)).
Definition wf_opt {A} (P : A -> Prop) (o : option A) : Prop := match o with Some x => P x | None => True end.
Definition wf_bed (n : N) (r : bed) : Prop :=
  clean (bd_chr r) /\ bd_st r <= U64MAX /\ bd_en r <= U64MAX /\
  wf_opt (fun nm => clean nm /\ nm <> dot) (bd_name r) /\ wf_opt (fun v => v <= 1000) (bd_score r) /\
  (n <= 3 -> bd_name r = None) /\ (n <= 4 -> bd_score r = None) /\ (n <= 5 -> bd_strand r = None).
Definition wf_float (b : N) : Prop := f64_is_nan b = false.
Definition wf_pq (o : option N) : Prop := wf_opt (fun b => f64_is_nan b = false /\ f64_ltz b = false) o.
Definition wf_npeak (r : npeak) : Prop := wf_bed 6 (np_bed r) /\ wf_float (np_signal r) /\ wf_pq (np_p r) /\ wf_pq (np_q r) /\ np_peak r <= U64MAX.
Definition wf_bpeak (r : bpeak) : Prop := wf_bed 6 (bp_bed r) /\ wf_float (bp_signal r) /\ wf_pq (bp_p r) /\ wf_pq (bp_q r).
Definition wf_bgraph (r : bgraph) : Prop := clean (bg_chr r) /\ bg_st r <= U64MAX /\ bg_en r <= U64MAX /\
  match bg_val r with VInt z => (-9223372036854775808 <= z <= 9223372036854775807)%Z | VFloat b => f64_is_nan b = false end.
(* the standard column list of a BED6-style record *)
Definition bed_cols (r : bed) : list bytes :=
  [bd_chr r; show_N (bd_st r); show_N (bd_en r); opt_or_dot (fun x => x) (bd_name r); opt_or_dot show_N (bd_score r); opt_or_dot show_strand (bd_strand r)].

(* ====================================================================== *)
(* decimal integers                                                        *)
(* ====================================================================== *)
Lemma is_digit_iff : forall b, is_digit b = true <-> 48 <= b <= 57.
Proof. intros b. unfold is_digit. rewrite andb_true_iff, !N.leb_le. tauto. Qed.

Lemma digits_val_app : forall s t a,
  digits_val (s ++ t) a = match digits_val s a with Some v => digits_val t v | None => None end.
Proof.
  induction s as [|b s IH]; intros t a; cbn [app digits_val]; [reflexivity|].
  destruct (is_digit b); [apply IH|reflexivity].
Qed.

Lemma pow10_succ : forall k : nat, 10 ^ N.of_nat (S k) = 10 * 10 ^ N.of_nat k.
Proof. intros k. rewrite Nat2N.inj_succ, N.pow_succ_r'. reflexivity. Qed.

Lemma pow10_pos : forall k : nat, 0 < 10 ^ N.of_nat k.
Proof. intros k. apply N.neq_0_lt_0, N.pow_nonzero. discriminate. Qed.

Definition digits_of (ds : bytes) (n : N) : Prop :=
  ds <> [] /\ Forall (fun b => is_digit b = true) ds /\
  (forall a, digits_val ds a = Some (a * 10 ^ N.of_nat (length ds) + n)) /\
  (forall t, ds = 48 :: t -> t = [] /\ n = 0).

Lemma digits_of_one : forall n, n < 10 -> digits_of [48 + n mod 10] n.
Proof.
  intros n Hlt. split; [discriminate|].
  split; [constructor; [apply is_digit_iff; lia|constructor]|].
  split.
  - intros a. cbn [digits_val length].
    replace (is_digit (48 + n mod 10)) with true by (symmetry; apply is_digit_iff; lia).
    f_equal. change (N.of_nat 1) with 1. rewrite N.pow_1_r. lia.
  - intros t Ht. injection Ht as H1 H2. split; [auto|lia].
Qed.

Lemma digits_of_snoc : forall ds n, n / 10 <> 0 -> digits_of ds (n / 10) -> digits_of (ds ++ [48 + n mod 10]) n.
Proof.
  intros ds n E (Hne & Hd & Hv & Hz).
  split; [destruct ds; discriminate|].
  split; [apply Forall_app; split; [exact Hd|constructor; [apply is_digit_iff; lia|constructor]]|].
  split.
  - intros a. rewrite digits_val_app, Hv. cbn [digits_val].
    replace (is_digit (48 + n mod 10)) with true by (symmetry; apply is_digit_iff; lia).
    f_equal. rewrite app_length. cbn [length]. rewrite Nat.add_1_r, pow10_succ.
    pose proof (pow10_pos (length ds)). nia.
  - intros t Ht. destruct ds as [|d ds']; [congruence|].
    cbn [app] in Ht. injection Ht as H1 H2. subst d.
    destruct (Hz ds' eq_refl) as [_ H0]. congruence.
Qed.

Lemma digits_fuel_S : forall f n acc, digits_fuel (S f) n acc =
  if n / 10 =? 0 then (48 + n mod 10) :: acc else digits_fuel f (n / 10) ((48 + n mod 10) :: acc).
Proof. reflexivity. Qed.

Lemma digits_fuel_spec : forall f n acc, n < 10 ^ N.of_nat (S f) ->
  exists ds, digits_fuel (S f) n acc = ds ++ acc /\ digits_of ds n.
Proof.
  induction f as [|f IH]; intros n acc Hn; rewrite pow10_succ in Hn;
    rewrite digits_fuel_S; destruct (N.eqb_spec (n / 10) 0) as [E|E];
    try (exists [48 + n mod 10]; split; [reflexivity|apply digits_of_one; lia]).
  assert (Hq : n / 10 < 10 ^ N.of_nat (S f)) by lia.
  destruct (IH (n / 10) ((48 + n mod 10) :: acc) Hq) as (ds & E1 & Hds).
  exists (ds ++ [48 + n mod 10]). split; [rewrite E1, <- app_assoc; reflexivity|].
  apply digits_of_snoc; assumption.
Qed.

Lemma size_nat_pow10 : forall n, n < 10 ^ N.of_nat (S (N.size_nat n)).
Proof.
  intros n. rewrite pow10_succ. destruct n as [|p]; [cbn; lia|].
  cbn [N.size_nat].
  assert (H : N.pos p < 10 ^ N.of_nat (Pos.size_nat p)).
  { induction p as [p IH|p IH|]; cbn [Pos.size_nat]; try rewrite pow10_succ; lia. }
  lia.
Qed.

Lemma show_N_spec : forall n, exists ds, show_N n = ds /\ digits_of ds n.
Proof.
  intros n. unfold show_N.
  destruct (digits_fuel_spec _ n [] (size_nat_pow10 n)) as (ds & E & H).
  exists ds. rewrite E, app_nil_r. split; [reflexivity|exact H].
Qed.

Theorem show_N_digits : forall n, show_N n <> [] /\ Forall (fun b => is_digit b = true) (show_N n) /\
  (forall t, show_N n = 48 :: t -> t = [] /\ n = 0).
Proof.
  intros n. destruct (show_N_spec n) as (ds & E & Hne & Hd & _ & Hz). rewrite E. auto.
Qed.

Theorem digits_val_show : forall n, digits_val (show_N n) 0 = Some n.
Proof.
  intros n. destruct (show_N_spec n) as (ds & E & _ & _ & Hv & _). rewrite E, Hv. f_equal; lia.
Qed.

Lemma show_N_head : forall n, exists d t, show_N n = d :: t /\ 48 <= d <= 57.
Proof.
  intros n. destruct (show_N_digits n) as (Hne & Hd & _).
  destruct (show_N n) as [|d t]; [congruence|]. exists d, t. split; [reflexivity|].
  inversion Hd; subst. apply is_digit_iff; assumption.
Qed.

Theorem parse_uint_show : forall max n, n <= max -> parse_uint max (show_N n) = Some n.
Proof.
  intros max n Hle. unfold parse_uint. pose proof (digits_val_show n) as Hv.
  destruct (show_N_head n) as (d & t & E & Hd). rewrite E in *.
  destruct (N.eqb_spec d PLUS) as [Ep|_]; [unfold PLUS in Ep; lia|].
  rewrite Hv. destruct (N.leb_spec n max); [reflexivity|lia].
Qed.

Theorem parse_int_show : forall z, (-9223372036854775808 <= z <= 9223372036854775807)%Z ->
  parse_int (show_Z z) = Some z.
Proof.
  intros z Hz. unfold show_Z. destruct z as [|p|p].
  - vm_compute. reflexivity.
  - cbn [Z.to_N]. unfold parse_int.
    pose proof (parse_uint_show 9223372036854775807 (N.pos p) ltac:(lia)) as Hp.
    destruct (show_N_head (N.pos p)) as (d & t & E & Hd). rewrite E in *.
    destruct (N.eqb_spec d DASH) as [Ep|_]; [unfold DASH in Ep; lia|].
    rewrite Hp. reflexivity.
  - unfold parse_int. rewrite N.eqb_refl.
    pose proof (digits_val_show (N.pos p)) as Hv.
    destruct (show_N_head (N.pos p)) as (d & t & E & Hd). rewrite E in *.
    rewrite Hv. destruct (N.leb_spec (N.pos p) 9223372036854775808); [reflexivity|lia].
Qed.

Lemma digits_not_in : forall s b, Forall (fun b => is_digit b = true) s -> ~ (48 <= b <= 57) -> ~ In b s.
Proof.
  intros s b Hd Hb Hin. rewrite Forall_forall in Hd. apply Hd, is_digit_iff in Hin. auto.
Qed.

Lemma show_N_not_in : forall n b, ~ (48 <= b <= 57) -> ~ In b (show_N n).
Proof. intros n b Hb. apply digits_not_in; [apply show_N_digits|exact Hb]. Qed.

Theorem show_N_clean : forall n, clean (show_N n).
Proof. intros n. repeat split; apply show_N_not_in; unfold TAB, CR, LF; lia. Qed.

Theorem show_Z_clean : forall z, clean (show_Z z).
Proof.
  intros z. destruct z as [|p|p]; unfold show_Z; try apply show_N_clean.
  repeat split; intros [H|H]; try (unfold DASH, TAB, CR, LF in H; lia);
    revert H; apply show_N_not_in; unfold TAB, CR, LF; lia.
Qed.

(* ====================================================================== *)
(* splitting and column layout                                             *)
(* ====================================================================== *)
Fixpoint concat_with_tab (cols : list bytes) : bytes :=
  match cols with [] => [] | [c] => c | c :: t => c ++ TAB :: concat_with_tab t end.

Lemma split_on_nonempty : forall P s, split_on P s <> [].
Proof.
  intros P s. destruct s as [|b t]; cbn [split_on]; [discriminate|].
  destruct (P b); [discriminate|]. destruct (split_on P t); discriminate.
Qed.

Lemma split_on_nodelim : forall P c, (forall b, In b c -> P b = false) -> split_on P c = [c].
Proof.
  intros P c. induction c as [|b t IH]; intros H; cbn [split_on]; [reflexivity|].
  rewrite (H b (or_introl eq_refl)), IH; [reflexivity|]. intros x Hx. apply H. right. exact Hx.
Qed.

Lemma split_on_field : forall P c d rest, (forall b, In b c -> P b = false) -> P d = true ->
  split_on P (c ++ d :: rest) = c :: split_on P rest.
Proof.
  intros P c d rest. induction c as [|b t IH]; intros H Hd; cbn [split_on app].
  - rewrite Hd. reflexivity.
  - rewrite (H b (or_introl eq_refl)), IH; [reflexivity| |exact Hd]. intros x Hx. apply H. right. exact Hx.
Qed.

Lemma split_on_app : forall P s d x, P d = true ->
  split_on P (s ++ d :: x) = split_on P s ++ split_on P x.
Proof.
  intros P s d x Hd. induction s as [|b t IH]; cbn [split_on app].
  - rewrite Hd. reflexivity.
  - destruct (P b); [rewrite IH; reflexivity|].
    rewrite IH. pose proof (split_on_nonempty P t) as Hne.
    destruct (split_on P t) as [|f r]; [congruence|]. reflexivity.
Qed.

Lemma is_tab_false : forall c b, ~ In TAB c -> In b c -> is_tab b = false.
Proof.
  intros c b Hc Hb. unfold is_tab. destruct (N.eqb_spec b TAB) as [E|E]; [subst; contradiction|reflexivity].
Qed.

Theorem split_join : forall (cols : list bytes), cols <> [] -> Forall (fun c => ~ In TAB c) cols ->
  split_on is_tab (concat_with_tab cols) = cols.
Proof.
  induction cols as [|c t IH]; intros Hne Hall; [congruence|].
  inversion Hall as [|? ? Hc Ht]; subst.
  destruct t as [|c' t'].
  - cbn [concat_with_tab]. apply split_on_nodelim. intros b. apply is_tab_false. exact Hc.
  - change (concat_with_tab (c :: c' :: t')) with (c ++ TAB :: concat_with_tab (c' :: t')).
    rewrite split_on_field; [|intros b; apply is_tab_false; exact Hc|reflexivity].
    rewrite IH; [reflexivity|discriminate|exact Ht].
Qed.

Ltac norm_app := repeat (rewrite <- app_assoc || (progress cbn [app])).

Lemma n_cases_3_6 : forall n, 3 <= n <= 6 -> n = 3 \/ n = 4 \/ n = 5 \/ n = 6.
Proof. intros n H. lia. Qed.

Theorem show_bed_columns : forall n r, 3 <= n <= 6 ->
  show_bed n r = concat_with_tab (firstn (N.to_nat n) (bed_cols r)).
Proof.
  intros n r Hn. unfold show_bed, show3, bed_cols.
  destruct (n_cases_3_6 n Hn) as [E|[E|[E|E]]]; subst n;
    match goal with |- context [N.to_nat ?k] => let v := eval vm_compute in (N.to_nat k) in change (N.to_nat k) with v end;
    cbn [firstn concat_with_tab];
    repeat match goal with |- context [?a <? ?b] => let v := eval vm_compute in (a <? b) in change (a <? b) with v end;
    cbv iota; norm_app; rewrite ?app_nil_r; reflexivity.
Qed.

Lemma show_bed6_eq : forall r, show_bed6 r = show_bed 6 r.
Proof. intros r. reflexivity. Qed.

Lemma concat_with_tab_snoc : forall cols c, cols <> [] ->
  concat_with_tab (cols ++ [c]) = concat_with_tab cols ++ TAB :: c.
Proof.
  induction cols as [|a t IH]; intros c Hne; [congruence|].
  destruct t as [|b t']; [reflexivity|].
  change (concat_with_tab ((a :: b :: t') ++ [c])) with (a ++ TAB :: concat_with_tab ((b :: t') ++ [c])).
  rewrite IH by discriminate.
  change (concat_with_tab (a :: b :: t')) with (a ++ TAB :: concat_with_tab (b :: t')).
  rewrite <- app_assoc. reflexivity.
Qed.

Lemma show_bed6_columns : forall r, show_bed6 r = concat_with_tab (bed_cols r).
Proof. intros r. rewrite show_bed6_eq, show_bed_columns by lia. reflexivity. Qed.

Theorem show_npeak_columns : forall show_f r, show_npeak show_f r =
  concat_with_tab (bed_cols (np_bed r) ++ [show_f (np_signal r); show_pq show_f (np_p r); show_pq show_f (np_q r); show_N (np_peak r)]).
Proof.
  intros show_f r. unfold show_npeak. rewrite show_bed6_columns. unfold bed_cols.
  cbn [concat_with_tab app]. norm_app. reflexivity.
Qed.

Theorem show_bpeak_columns : forall show_f r, show_bpeak show_f r =
  concat_with_tab (bed_cols (bp_bed r) ++ [show_f (bp_signal r); show_pq show_f (bp_p r); show_pq show_f (bp_q r)]).
Proof.
  intros show_f r. unfold show_bpeak. rewrite show_bed6_columns. unfold bed_cols.
  cbn [concat_with_tab app]. norm_app. reflexivity.
Qed.

Theorem show_bgraph_columns : forall show_f r, show_bgraph show_f r =
  concat_with_tab [bg_chr r; show_N (bg_st r); show_N (bg_en r); show_bgval show_f (bg_val r)].
Proof.
  intros show_f r. unfold show_bgraph, show3.
  cbn [concat_with_tab app]. norm_app. reflexivity.
Qed.

Theorem absent_pq_is_minus_one : forall show_f, show_pq show_f None = show_f F_NEG_ONE.
Proof. reflexivity. Qed.

(* ====================================================================== *)
(* round trips                                                             *)
(* ====================================================================== *)
Lemma is_dot_iff : forall s, is_dot s = true <-> s = dot.
Proof.
  intros s. unfold is_dot, dot. destruct s as [|d [|e t]]; split; intros H; try discriminate.
  - apply N.eqb_eq in H. subst. reflexivity.
  - injection H as ->. reflexivity.
Qed.

Lemma is_dot_false : forall s, s <> dot -> is_dot s = false.
Proof. intros s H. destruct (is_dot s) eqn:E; [apply is_dot_iff in E; contradiction|reflexivity]. Qed.

Lemma dot_clean : clean dot.
Proof. unfold clean, dot, DOT, TAB, CR, LF. cbn [In]. repeat split; intros [H|[]]; discriminate. Qed.

Lemma strand_clean : forall s, clean (show_strand s).
Proof.
  intros s. destruct s; unfold clean, show_strand, PLUS, DASH, TAB, CR, LF; cbn [In];
    repeat split; intros [H|[]]; discriminate.
Qed.

Lemma opt_or_dot_clean : forall A (f : A -> bytes) o, wf_opt (fun x => clean (f x)) o -> clean (opt_or_dot f o).
Proof. intros A f o H. destruct o; [exact H|apply dot_clean]. Qed.

Lemma bed_cols_clean : forall n r, wf_bed n r -> Forall clean (bed_cols r).
Proof.
  intros n r (Hc & _ & _ & Hnm & _). unfold bed_cols.
  repeat apply Forall_cons; try apply Forall_nil; try apply show_N_clean; try exact Hc.
  - apply opt_or_dot_clean. destruct (bd_name r); [apply Hnm|exact I].
  - apply opt_or_dot_clean. destruct (bd_score r); [apply show_N_clean|exact I].
  - apply opt_or_dot_clean. destruct (bd_strand r); [apply strand_clean|exact I].
Qed.

Lemma Forall_clean_notab : forall cols, Forall clean cols -> Forall (fun c => ~ In TAB c) cols.
Proof. intros cols H. eapply Forall_impl; [|exact H]. intros c Hc. apply Hc. Qed.

Lemma Forall_firstn' : forall A (P : A -> Prop) k l, Forall P l -> Forall P (firstn k l).
Proof.
  intros A P k. induction k as [|k IH]; intros l H; [constructor|].
  destruct l as [|a t]; [constructor|]. inversion H; subst. cbn [firstn]. constructor; auto.
Qed.

Theorem show_bed_split : forall n r, 3 <= n <= 6 -> wf_bed n r ->
  split_on is_tab (show_bed n r) = firstn (N.to_nat n) (bed_cols r).
Proof.
  intros n r Hn Hwf. rewrite show_bed_columns by exact Hn. apply split_join.
  - unfold bed_cols. destruct (n_cases_3_6 n Hn) as [E|[E|[E|E]]]; subst n; discriminate.
  - apply Forall_firstn', Forall_clean_notab. eapply bed_cols_clean. exact Hwf.
Qed.

Lemma p_chrom_cons : forall c t, p_chrom (c :: t) = POk (c, t).
Proof. reflexivity. Qed.

Lemma p_num_show : forall ms iv max n t, n <= max -> p_num ms iv max (show_N n :: t) = POk (n, t).
Proof. intros ms iv max n t H. unfold p_num, take_field. rewrite parse_uint_show by exact H. reflexivity. Qed.

Lemma p_start_show : forall n t, n <= U64MAX -> p_start (show_N n :: t) = POk (n, t).
Proof. intros. apply p_num_show. assumption. Qed.
Lemma p_end_show : forall n t, n <= U64MAX -> p_end (show_N n :: t) = POk (n, t).
Proof. intros. apply p_num_show. assumption. Qed.
Lemma p_peak_show : forall n t, n <= U64MAX -> p_peak (show_N n :: t) = POk (n, t).
Proof. intros. apply p_num_show. assumption. Qed.

Lemma p_name_show : forall nm t, wf_opt (fun nm => clean nm /\ nm <> dot) nm ->
  p_name (opt_or_dot (fun x => x) nm :: t) = POk (nm, t).
Proof.
  intros nm t H. unfold p_name, take_field. destruct nm as [x|]; cbn [opt_or_dot pbind].
  - rewrite is_dot_false by apply H. reflexivity.
  - reflexivity.
Qed.

Lemma show_N_not_dot : forall n, is_dot (show_N n) = false.
Proof.
  intros n. apply is_dot_false. intros E. destruct (show_N_head n) as (d & t & E' & Hd).
  rewrite E in E'. unfold dot, DOT in E'. injection E' as <- _. lia.
Qed.

Lemma score_from_str_show : forall v, v <= 1000 -> score_from_str (show_N v) = Some v.
Proof.
  intros v H. unfold score_from_str. rewrite parse_uint_show by (unfold U32MAX; lia).
  destruct (N.ltb_spec 1000 v); [lia|reflexivity].
Qed.

Lemma p_score_show : forall sc t, wf_opt (fun v => v <= 1000) sc ->
  p_score (opt_or_dot show_N sc :: t) = POk (sc, t).
Proof.
  intros sc t H. unfold p_score, take_field. destruct sc as [v|]; cbn [opt_or_dot].
  - rewrite show_N_not_dot, score_from_str_show by exact H. reflexivity.
  - reflexivity.
Qed.

Lemma p_strand_show : forall sd t, p_strand (opt_or_dot show_strand sd :: t) = POk (sd, t).
Proof. intros [[|]|] t; reflexivity. Qed.

Ltac eval_ltb :=
  repeat match goal with |- context [?a <? ?b] =>
    let v := eval vm_compute in (a <? b) in change (a <? b) with v end.

Ltac show_fields :=
  repeat (first [ rewrite p_chrom_cons | rewrite p_start_show by assumption | rewrite p_end_show by assumption
                | rewrite p_name_show by assumption | rewrite p_score_show by assumption
                | rewrite p_strand_show | rewrite p_peak_show by assumption ];
          cbn [pbind fst snd]).

Theorem parse_show_bed : forall n r, 3 <= n <= 6 -> wf_bed n r -> parse_bed n (show_bed n r) = POk r.
Proof.
  intros n r Hn Hwf. unfold parse_bed. cbv zeta. rewrite show_bed_split by assumption.
  destruct Hwf as (Hc & Hs & He & Hnm & Hsc & H3 & H4 & H5).
  destruct r as [chr st en nm sc sd]. unfold bed_cols. cbn [bd_chr bd_st bd_en bd_name bd_score bd_strand] in *.
  destruct (n_cases_3_6 n Hn) as [E|[E|[E|E]]]; subst n;
    match goal with |- context [N.to_nat ?k] => let v := eval vm_compute in (N.to_nat k) in change (N.to_nat k) with v end;
    cbn [firstn]; eval_ltb; show_fields;
    try rewrite (H3 ltac:(lia)); try rewrite (H4 ltac:(lia)); try rewrite (H5 ltac:(lia)); reflexivity.
Qed.

Lemma parse_bed6_fields_show : forall r rest, wf_bed 6 r ->
  parse_bed6_fields (bed_cols r ++ rest) = POk (r, rest).
Proof.
  intros r rest (Hc & Hs & He & Hnm & Hsc & H3 & H4 & H5).
  destruct r as [chr st en nm sc sd]. unfold bed_cols, parse_bed6_fields.
  cbn [bd_chr bd_st bd_en bd_name bd_score bd_strand app] in *. show_fields. reflexivity.
Qed.

Lemma digits_no_gr_delim : forall n b, In b (show_N n) -> is_gr_delim b = false.
Proof.
  intros n b Hin. destruct (show_N_digits n) as (_ & Hd & _). rewrite Forall_forall in Hd.
  apply Hd, is_digit_iff in Hin. unfold is_gr_delim, TAB, COLON, DASH.
  destruct (N.eqb_spec b 9), (N.eqb_spec b 58), (N.eqb_spec b 45); try lia; reflexivity.
Qed.

Theorem parse_show_grange : forall c s e, clean c -> ~ In COLON c -> ~ In DASH c -> s <= U64MAX -> e <= U64MAX ->
  parse_grange (show_grange c s e) = POk (c, s, e) /\ parse_grange (pretty_show c s e) = POk (c, s, e).
Proof.
  intros c s e Hc Hcol Hdash Hs He.
  assert (Hcd : forall b, In b c -> is_gr_delim b = false).
  { intros b Hb. unfold is_gr_delim. destruct Hc as (Ht & _ & _).
    destruct (N.eqb_spec b TAB), (N.eqb_spec b COLON), (N.eqb_spec b DASH); subst; try contradiction. reflexivity. }
  assert (Hsplit : forall d1 d2, is_gr_delim d1 = true -> is_gr_delim d2 = true ->
     split_on is_gr_delim (c ++ d1 :: show_N s ++ d2 :: show_N e) = [c; show_N s; show_N e]).
  { intros d1 d2 H1 H2. rewrite split_on_field by assumption.
    rewrite split_on_field; [|apply digits_no_gr_delim|exact H2].
    rewrite split_on_nodelim by apply digits_no_gr_delim. reflexivity. }
  split; unfold parse_grange, show_grange, show3, pretty_show; cbv zeta;
    rewrite Hsplit by reflexivity; show_fields; reflexivity.
Qed.

Lemma p_float_show : forall show_f parse_f b t, FloatCodec show_f parse_f -> f64_is_nan b = false ->
  p_float parse_f (show_f b :: t) = POk (b, t).
Proof.
  intros show_f parse_f b t [Hrt _] Hb. unfold p_float, take_field. rewrite Hrt by exact Hb. reflexivity.
Qed.

Lemma p_pvalue_show : forall show_f parse_f o t, FloatCodec show_f parse_f -> wf_pq o ->
  p_pvalue parse_f (show_pq show_f o :: t) = POk (o, t).
Proof.
  intros show_f parse_f o t Hfc Ho. unfold p_pvalue, show_pq. destruct o as [b|].
  - destruct Ho as [Hn Hl]. rewrite (p_float_show _ _ _ _ Hfc Hn). cbn [pbind fst snd]. rewrite Hl. reflexivity.
  - rewrite (p_float_show _ _ _ _ Hfc) by (vm_compute; reflexivity). cbn [pbind fst snd].
    replace (f64_ltz F_NEG_ONE) with true by (vm_compute; reflexivity). reflexivity.
Qed.

Lemma show_pq_clean : forall show_f parse_f o, FloatCodec show_f parse_f -> clean (show_pq show_f o).
Proof. intros show_f parse_f o [_ H]. apply H. Qed.

Theorem parse_show_npeak : forall show_f parse_f r, FloatCodec show_f parse_f -> wf_npeak r ->
  parse_npeak parse_f (show_npeak show_f r) = POk r.
Proof.
  intros show_f parse_f r Hfc (Hb & Hsg & Hp & Hq & Hpk).
  unfold parse_npeak. rewrite show_npeak_columns, split_join.
  - rewrite parse_bed6_fields_show by exact Hb. cbn [pbind fst snd].
    rewrite (p_float_show _ _ _ _ Hfc Hsg). cbn [pbind fst snd].
    rewrite (p_pvalue_show _ _ _ _ Hfc Hp). cbn [pbind fst snd].
    rewrite (p_pvalue_show _ _ _ _ Hfc Hq). cbn [pbind fst snd].
    rewrite p_peak_show by exact Hpk. cbn [pbind fst snd]. destruct r; reflexivity.
  - unfold bed_cols. discriminate.
  - apply Forall_clean_notab, Forall_app. split; [eapply bed_cols_clean; exact Hb|].
    repeat apply Forall_cons; try apply Forall_nil; try apply Hfc; try apply (show_pq_clean _ _ _ Hfc); apply show_N_clean.
Qed.

Theorem parse_show_bpeak : forall show_f parse_f r, FloatCodec show_f parse_f -> wf_bpeak r ->
  parse_bpeak parse_f (show_bpeak show_f r) = POk r.
Proof.
  intros show_f parse_f r Hfc (Hb & Hsg & Hp & Hq).
  unfold parse_bpeak. rewrite show_bpeak_columns, split_join.
  - rewrite parse_bed6_fields_show by exact Hb. cbn [pbind fst snd].
    rewrite (p_float_show _ _ _ _ Hfc Hsg). cbn [pbind fst snd].
    rewrite (p_pvalue_show _ _ _ _ Hfc Hp). cbn [pbind fst snd].
    rewrite (p_pvalue_show _ _ _ _ Hfc Hq). cbn [pbind fst snd]. destruct r; reflexivity.
  - unfold bed_cols. discriminate.
  - apply Forall_clean_notab, Forall_app. split; [eapply bed_cols_clean; exact Hb|].
    repeat apply Forall_cons; try apply Forall_nil; try apply Hfc; apply (show_pq_clean _ _ _ Hfc).
Qed.

Theorem parse_show_bgraph : forall show_f parse_f r, FloatCodec show_f parse_f -> wf_bgraph r ->
  parse_bgraph (match bg_val r with VInt _ => false | VFloat _ => true end) parse_f (show_bgraph show_f r) = POk r.
Proof.
  intros show_f parse_f r Hfc (Hc & Hs & He & Hv).
  unfold parse_bgraph. cbv zeta. rewrite show_bgraph_columns, split_join.
  - show_fields. destruct r as [chr st en v]. cbn [bg_chr bg_st bg_en bg_val] in *.
    unfold p_bgval, take_field. destruct v as [z|b]; cbn [show_bgval].
    + rewrite parse_int_show by exact Hv. reflexivity.
    + destruct Hfc as [Hrt _]. rewrite Hrt by exact Hv. reflexivity.
  - discriminate.
  - apply Forall_clean_notab. repeat apply Forall_cons; try apply Forall_nil; try exact Hc; try apply show_N_clean.
    destruct (bg_val r); [apply show_Z_clean|apply Hfc].
Qed.

Theorem score_bounds :
  (forall s v, score_from_str s = Some v -> v <= 1000) /\
  (forall n v, score_try_from n = Some v -> v = n /\ n <= 1000) /\
  (forall n, score_try_from n = None <-> 1000 < n) /\
  (forall fs v rest, p_score fs = POk (Some v, rest) -> v <= 1000).
Proof.
  assert (H1 : forall s v, score_from_str s = Some v -> v <= 1000).
  { intros s v. unfold score_from_str. destruct (parse_uint U32MAX s) as [x|]; [|discriminate].
    destruct (N.ltb_spec 1000 x); intros E; injection E as <-; lia. }
  split; [exact H1|]. split; [|split].
  - intros n v. unfold score_try_from. destruct (N.ltb_spec 1000 n); [discriminate|].
    intros E; injection E as <-. split; [reflexivity|assumption].
  - intros n. unfold score_try_from. destruct (N.ltb_spec 1000 n); split; intros; try discriminate; try lia; reflexivity.
  - intros fs v rest. unfold p_score, take_field. destruct fs as [|x t]; [discriminate|].
    destruct (is_dot x); cbn [pbind]; [discriminate|].
    destruct (score_from_str x) as [w|] eqn:E; cbn [pbind]; [|discriminate].
    intros E'. injection E' as -> _. eapply H1. exact E.
Qed.

(* ====================================================================== *)
(* C12: totality                                                           *)
(* ====================================================================== *)
(* the parsers as functions of the column list *)
Definition bed_fields (n : N) (fs : list bytes) : pres bed :=
  pdo c <- p_chrom fs; pdo st <- p_start (snd c); pdo en <- p_end (snd st);
  pdo nm <- (if 3 <? n then p_name (snd en) else POk (None, snd en));
  pdo sc <- (if 4 <? n then p_score (snd nm) else POk (None, snd nm));
  pdo sd <- (if 5 <? n then p_strand (snd sc) else POk (None, snd sc));
  POk (mkBed (fst c) (fst st) (fst en) (fst nm) (fst sc) (fst sd)).
Definition grange_fields (fs : list bytes) : pres (bytes * N * N) :=
  pdo c <- p_chrom fs; pdo st <- p_start (snd c); pdo en <- p_end (snd st);
  POk (fst c, fst st, fst en).
Definition npeak_fields (parse_f : bytes -> option N) (fs : list bytes) : pres npeak :=
  pdo b <- parse_bed6_fields fs;
  pdo sg <- p_float parse_f (snd b); pdo p <- p_pvalue parse_f (snd sg); pdo q <- p_pvalue parse_f (snd p);
  pdo pk <- p_peak (snd q);
  POk (mkNP (fst b) (fst sg) (fst p) (fst q) (fst pk)).
Definition bpeak_fields (parse_f : bytes -> option N) (fs : list bytes) : pres bpeak :=
  pdo b <- parse_bed6_fields fs;
  pdo sg <- p_float parse_f (snd b); pdo p <- p_pvalue parse_f (snd sg); pdo q <- p_pvalue parse_f (snd p);
  POk (mkBP (fst b) (fst sg) (fst p) (fst q)).
Definition bgraph_fields (is_float : bool) (parse_f : bytes -> option N) (fs : list bytes) : pres bgraph :=
  pdo c <- p_chrom fs; pdo st <- p_start (snd c); pdo en <- p_end (snd st);
  pdo v <- p_bgval is_float parse_f (snd en);
  POk (mkBG (fst c) (fst st) (fst en) (fst v)).

Lemma parse_bed_eq : forall n s, parse_bed n s = bed_fields n (split_on is_tab s).
Proof. reflexivity. Qed.
Lemma parse_grange_eq : forall s, parse_grange s = grange_fields (split_on is_gr_delim s).
Proof. reflexivity. Qed.
Lemma parse_npeak_eq : forall pf s, parse_npeak pf s = npeak_fields pf (split_on is_tab s).
Proof. reflexivity. Qed.
Lemma parse_bpeak_eq : forall pf s, parse_bpeak pf s = bpeak_fields pf (split_on is_tab s).
Proof. reflexivity. Qed.
Lemma parse_bgraph_eq : forall fl pf s, parse_bgraph fl pf s = bgraph_fields fl pf (split_on is_tab s).
Proof. reflexivity. Qed.

(* the per-column functions *)
Definition f_num (iv : perr) (max : N) (s : bytes) : pres N :=
  match parse_uint max s with Some v => POk v | None => PErr iv end.
Definition f_name (s : bytes) : pres (option bytes) := POk (if is_dot s then None else Some s).
Definition f_score (s : bytes) : pres (option N) :=
  if is_dot s then POk None else
  match score_from_str s with Some v => POk (Some v) | None => PErr InvalidScore end.
Definition f_strand (s : bytes) : pres (option strand) :=
  if is_dot s then POk None else
  match s with
  | [b] => if b =? PLUS then POk (Some Fwd) else if b =? DASH then POk (Some Rev) else PErr InvalidStrand
  | _ => PErr InvalidStrand
  end.
Definition f_float (parse_f : bytes -> option N) (s : bytes) : pres N :=
  match parse_f s with Some b => POk b | None => PErr InvalidField end.
Definition f_bgval (is_float : bool) (parse_f : bytes -> option N) (s : bytes) : pres bgval :=
  if is_float then match parse_f s with Some b => POk (VFloat b) | None => PErr InvalidField end
  else match parse_int s with Some z => POk (VInt z) | None => PErr InvalidField end.

Lemma p_chrom_eq : p_chrom = take_field MissingChrom (fun s => POk s). Proof. reflexivity. Qed.
Lemma p_start_eq : p_start = take_field MissingStart (f_num InvalidStart U64MAX). Proof. reflexivity. Qed.
Lemma p_end_eq : p_end = take_field MissingEnd (f_num InvalidEnd U64MAX). Proof. reflexivity. Qed.
Lemma p_name_eq : p_name = take_field MissingName f_name. Proof. reflexivity. Qed.
Lemma p_score_eq : p_score = take_field MissingScore f_score. Proof. reflexivity. Qed.
Lemma p_strand_eq : p_strand = take_field MissingStrand f_strand. Proof. reflexivity. Qed.
Lemma p_float_eq : forall pf, p_float pf = take_field MissingField (f_float pf). Proof. reflexivity. Qed.
Lemma p_peak_eq : p_peak = take_field MissingField (f_num InvalidField U64MAX). Proof. reflexivity. Qed.
Lemma p_bgval_eq : forall fl pf, p_bgval fl pf = take_field MissingField (f_bgval fl pf). Proof. reflexivity. Qed.

Lemma pbind_np : forall A B (r : pres A) (f : A -> pres B),
  r <> PPanic -> (forall a, f a <> PPanic) -> pbind r f <> PPanic.
Proof. intros A B r f Hr Hf. destruct r; cbn [pbind]; [apply Hf|discriminate|congruence]. Qed.

Lemma take_field_np : forall A m (f : bytes -> pres A) fs,
  (forall x, f x <> PPanic) -> take_field m f fs <> PPanic.
Proof.
  intros A m f fs Hf. destruct fs as [|x t]; cbn [take_field]; [discriminate|].
  apply pbind_np; [apply Hf|discriminate].
Qed.

Lemma f_num_np : forall iv max x, f_num iv max x <> PPanic.
Proof. intros. unfold f_num. destruct (parse_uint max x); discriminate. Qed.
Lemma f_name_np : forall x, f_name x <> PPanic.
Proof. intros. unfold f_name. discriminate. Qed.
Lemma f_score_np : forall x, f_score x <> PPanic.
Proof. intros. unfold f_score. destruct (is_dot x); [discriminate|]. destruct (score_from_str x); discriminate. Qed.
Lemma f_strand_np : forall x, f_strand x <> PPanic.
Proof.
  intros. unfold f_strand. destruct (is_dot x); [discriminate|].
  destruct x as [|b [|b' t]]; try discriminate. destruct (b =? PLUS); [discriminate|]. destruct (b =? DASH); discriminate.
Qed.
Lemma f_float_np : forall pf x, f_float pf x <> PPanic.
Proof. intros. unfold f_float. destruct (pf x); discriminate. Qed.
Lemma f_bgval_np : forall fl pf x, f_bgval fl pf x <> PPanic.
Proof. intros. unfold f_bgval. destruct fl; [destruct (pf x)|destruct (parse_int x)]; discriminate. Qed.

Lemma p_chrom_np : forall fs, p_chrom fs <> PPanic.
Proof. intros. apply take_field_np. discriminate. Qed.
Lemma p_start_np : forall fs, p_start fs <> PPanic.
Proof. intros. rewrite p_start_eq. apply take_field_np, f_num_np. Qed.
Lemma p_end_np : forall fs, p_end fs <> PPanic.
Proof. intros. rewrite p_end_eq. apply take_field_np, f_num_np. Qed.
Lemma p_name_np : forall fs, p_name fs <> PPanic.
Proof. intros. rewrite p_name_eq. apply take_field_np, f_name_np. Qed.
Lemma p_score_np : forall fs, p_score fs <> PPanic.
Proof. intros. rewrite p_score_eq. apply take_field_np, f_score_np. Qed.
Lemma p_strand_np : forall fs, p_strand fs <> PPanic.
Proof. intros. rewrite p_strand_eq. apply take_field_np, f_strand_np. Qed.
Lemma p_float_np : forall pf fs, p_float pf fs <> PPanic.
Proof. intros. rewrite p_float_eq. apply take_field_np, f_float_np. Qed.
Lemma p_peak_np : forall fs, p_peak fs <> PPanic.
Proof. intros. rewrite p_peak_eq. apply take_field_np, f_num_np. Qed.
Lemma p_bgval_np : forall fl pf fs, p_bgval fl pf fs <> PPanic.
Proof. intros. rewrite p_bgval_eq. apply take_field_np, f_bgval_np. Qed.
Lemma p_pvalue_np : forall pf fs, p_pvalue pf fs <> PPanic.
Proof. intros. unfold p_pvalue. apply pbind_np; [apply p_float_np|discriminate]. Qed.

Ltac np_step :=
  first [ apply p_chrom_np | apply p_start_np | apply p_end_np | apply p_name_np | apply p_score_np
        | apply p_strand_np | apply p_float_np | apply p_peak_np | apply p_bgval_np | apply p_pvalue_np
        | discriminate
        | match goal with |- (if ?b then _ else _) <> _ => destruct b end
        | apply pbind_np; [|intros ?] ].

Lemma parse_bed6_fields_np : forall fs, parse_bed6_fields fs <> PPanic.
Proof. intros fs. unfold parse_bed6_fields. repeat np_step. Qed.

Theorem parsers_total :
  (forall s, parse_grange s <> PPanic) /\ (forall n s, parse_bed n s <> PPanic) /\
  (forall pf s, parse_npeak pf s <> PPanic) /\ (forall pf s, parse_bpeak pf s <> PPanic) /\
  (forall fl pf s, parse_bgraph fl pf s <> PPanic).
Proof.
  repeat split; intros.
  - unfold parse_grange. cbv zeta. repeat np_step.
  - unfold parse_bed. cbv zeta. repeat np_step.
  - unfold parse_npeak. apply pbind_np; [apply parse_bed6_fields_np|intros ?]. repeat np_step.
  - unfold parse_bpeak. apply pbind_np; [apply parse_bed6_fields_np|intros ?]. repeat np_step.
  - unfold parse_bgraph. cbv zeta. repeat np_step.
Qed.

(* ====================================================================== *)
(* C12: first bad column                                                   *)
(* ====================================================================== *)
Definition col_ok (k : nat) (c : bytes) : bool :=
  match k with
  | 0%nat => true
  | 1%nat | 2%nat => match parse_uint U64MAX c with Some _ => true | None => false end
  | 3%nat => true
  | 4%nat => is_dot c || match score_from_str c with Some _ => true | None => false end
  | 5%nat => is_dot c || match c with [b] => (b =? PLUS) || (b =? DASH) | _ => false end
  | _ => true
  end.
Definition err_missing (k : nat) : perr := match k with 0%nat => MissingChrom | 1%nat => MissingStart | 2%nat => MissingEnd | 3%nat => MissingName | 4%nat => MissingScore | _ => MissingStrand end.
Definition err_invalid (k : nat) : perr := match k with 1%nat => InvalidStart | 2%nat => InvalidEnd | 4%nat => InvalidScore | _ => InvalidStrand end.
Definition cols_ok_below (cols : list bytes) (k : nat) : Prop := forall j, (j < k)%nat -> exists c, nth_error cols j = Some c /\ col_ok j c = true.

Lemma take_field_skipn : forall A m (f : bytes -> pres A) i cols,
  take_field m f (skipn i cols) =
  match nth_error cols i with None => PErr m | Some x => pdo v <- f x; POk (v, skipn (S i) cols) end.
Proof.
  intros A m f. induction i as [|i IH]; intros cols.
  - destruct cols; reflexivity.
  - destruct cols as [|a l]; [reflexivity|]. cbn [skipn nth_error]. rewrite IH. reflexivity.
Qed.

Lemma take_field_0 : forall A m (f : bytes -> pres A) cols,
  take_field m f cols =
  match nth_error cols 0 with None => PErr m | Some x => pdo v <- f x; POk (v, skipn 1 cols) end.
Proof. intros. exact (take_field_skipn A m f 0 cols). Qed.

Lemma col_spec_num : forall iv c,
  (match parse_uint U64MAX c with Some _ => true | None => false end = true /\ exists v, f_num iv U64MAX c = POk v) \/
  (match parse_uint U64MAX c with Some _ => true | None => false end = false /\ f_num iv U64MAX c = PErr iv).
Proof. intros iv c. unfold f_num. destruct (parse_uint U64MAX c) as [v|]; [left; eauto|right; auto]. Qed.

Lemma col_spec_1 : forall c,
  (col_ok 1 c = true /\ exists v, f_num InvalidStart U64MAX c = POk v) \/
  (col_ok 1 c = false /\ f_num InvalidStart U64MAX c = PErr InvalidStart).
Proof. intros c. exact (col_spec_num InvalidStart c). Qed.
Lemma col_spec_2 : forall c,
  (col_ok 2 c = true /\ exists v, f_num InvalidEnd U64MAX c = POk v) \/
  (col_ok 2 c = false /\ f_num InvalidEnd U64MAX c = PErr InvalidEnd).
Proof. intros c. exact (col_spec_num InvalidEnd c). Qed.
Lemma col_spec_3 : forall c, exists v, f_name c = POk v.
Proof. intros c. unfold f_name. eauto. Qed.
Lemma col_spec_4 : forall c,
  (col_ok 4 c = true /\ exists v, f_score c = POk v) \/
  (col_ok 4 c = false /\ f_score c = PErr InvalidScore).
Proof.
  intros c. unfold f_score. cbn [col_ok]. destruct (is_dot c); cbn [orb]; [left; eauto|].
  destruct (score_from_str c); [left; eauto|right; auto].
Qed.
Lemma col_spec_5 : forall c,
  (col_ok 5 c = true /\ exists v, f_strand c = POk v) \/
  (col_ok 5 c = false /\ f_strand c = PErr InvalidStrand).
Proof.
  intros c. unfold f_strand. cbn [col_ok]. destruct (is_dot c); cbn [orb]; [left; eauto|].
  destruct c as [|b [|b' t]]; [right; auto| |right; auto].
  destruct (b =? PLUS); cbn [orb]; [left; eauto|]. destruct (b =? DASH); [left; eauto|right; auto].
Qed.

Ltac to_take_field :=
  change p_chrom with (take_field MissingChrom (fun s : bytes => POk s));
  change p_start with (take_field MissingStart (f_num InvalidStart U64MAX));
  change p_end with (take_field MissingEnd (f_num InvalidEnd U64MAX));
  change p_name with (take_field MissingName f_name);
  change p_score with (take_field MissingScore f_score);
  change p_strand with (take_field MissingStrand f_strand).

Ltac use_spec :=
  match goal with
  | |- context [f_num InvalidStart U64MAX ?c] => destruct (col_spec_1 c) as [[? [? ->]]|[? ->]]
  | |- context [f_num InvalidEnd U64MAX ?c] => destruct (col_spec_2 c) as [[? [? ->]]|[? ->]]
  | |- context [f_name ?c] => destruct (col_spec_3 c) as [? ->]
  | |- context [f_score ?c] => destruct (col_spec_4 c) as [[? [? ->]]|[? ->]]
  | |- context [f_strand ?c] => destruct (col_spec_5 c) as [[? [? ->]]|[? ->]]
  end; try congruence; cbn [pbind fst snd].

Ltac col_step :=
  first [rewrite take_field_skipn | rewrite take_field_0];
  match goal with H : nth_error ?l ?j = _ |- context [nth_error ?l ?j] => rewrite H end;
  cbn [pbind fst snd]; try use_spec.

Ltac get_oks Hok :=
  try (destruct (Hok 0%nat ltac:(lia)) as (c0 & E0 & O0));
  try (destruct (Hok 1%nat ltac:(lia)) as (c1 & E1 & O1));
  try (destruct (Hok 2%nat ltac:(lia)) as (c2 & E2 & O2));
  try (destruct (Hok 3%nat ltac:(lia)) as (c3 & E3 & O3));
  try (destruct (Hok 4%nat ltac:(lia)) as (c4 & E4 & O4));
  try (destruct (Hok 5%nat ltac:(lia)) as (c5 & E5 & O5)).

Ltac first_bad_tac Hok :=
  get_oks Hok;
  (split; [intros Hnone|intros c Hc Hbad]); repeat col_step;
  try reflexivity;
  try (match goal with H : col_ok _ _ = false |- _ => cbn in H; discriminate H end).

Lemma first_bad_bed_fields : forall n cols k, 3 <= n <= 6 -> cols <> [] -> (k < N.to_nat n)%nat ->
  cols_ok_below cols k ->
  (nth_error cols k = None -> bed_fields n cols = PErr (err_missing k)) /\
  (forall c, nth_error cols k = Some c -> col_ok k c = false -> bed_fields n cols = PErr (err_invalid k)).
Proof.
  intros n cols k Hn Hne Hk Hok. unfold bed_fields. to_take_field.
  destruct (n_cases_3_6 n Hn) as [E|[E|[E|E]]]; subst n; eval_ltb; cbv iota;
    destruct k as [|[|[|[|[|[|k]]]]]]; try (exfalso; lia);
    try (split; [intros Hnone; destruct cols; [congruence|discriminate Hnone]|intros c Hc Hbad; discriminate Hbad]);
    first_bad_tac Hok.
Qed.

Lemma all_ok_bed_fields : forall n cols, 3 <= n <= 6 -> cols_ok_below cols (N.to_nat n) ->
  exists r, bed_fields n cols = POk r.
Proof.
  intros n cols Hn Hok. unfold bed_fields. to_take_field.
  destruct (n_cases_3_6 n Hn) as [E|[E|[E|E]]]; subst n; eval_ltb; cbv iota;
    get_oks Hok; repeat col_step; eexists; reflexivity.
Qed.

Theorem first_bad_column_bed : forall n s k, 3 <= n <= 6 -> (k < N.to_nat n)%nat ->
  let cols := split_on is_tab s in cols_ok_below cols k ->
  (nth_error cols k = None -> parse_bed n s = PErr (err_missing k)) /\
  (forall c, nth_error cols k = Some c -> col_ok k c = false -> parse_bed n s = PErr (err_invalid k)).
Proof.
  intros n s k Hn Hk cols Hok. rewrite parse_bed_eq.
  apply first_bad_bed_fields; auto. apply split_on_nonempty.
Qed.

Theorem all_columns_ok_bed : forall n s, 3 <= n <= 6 -> cols_ok_below (split_on is_tab s) (N.to_nat n) ->
  exists r, parse_bed n s = POk r.
Proof. intros n s Hn Hok. rewrite parse_bed_eq. apply all_ok_bed_fields; assumption. Qed.

(* GenomicRange *)
Theorem first_bad_column_grange : forall s k, (k < 3)%nat ->
  let cols := split_on is_gr_delim s in cols_ok_below cols k ->
  (nth_error cols k = None -> parse_grange s = PErr (err_missing k)) /\
  (forall c, nth_error cols k = Some c -> col_ok k c = false -> parse_grange s = PErr (err_invalid k)).
Proof.
  intros s k Hk cols Hok. rewrite parse_grange_eq. fold cols.
  assert (Hne : cols <> []) by apply split_on_nonempty. clearbody cols.
  unfold grange_fields. to_take_field.
  destruct k as [|[|[|k]]]; try (exfalso; lia);
    try (split; [intros Hnone; destruct cols; [congruence|discriminate Hnone]|intros c Hc Hbad; discriminate Hbad]);
    first_bad_tac Hok.
Qed.

Theorem all_columns_ok_grange : forall s, cols_ok_below (split_on is_gr_delim s) 3 ->
  exists r, parse_grange s = POk r.
Proof.
  intros s Hok. rewrite parse_grange_eq. unfold grange_fields. to_take_field.
  get_oks Hok; repeat col_step; eexists; reflexivity.
Qed.

(* the six BED columns of NarrowPeak / BroadPeak *)
Lemma first_bad_bed6_fields : forall cols k, cols <> [] -> (k < 6)%nat -> cols_ok_below cols k ->
  (nth_error cols k = None -> parse_bed6_fields cols = PErr (err_missing k)) /\
  (forall c, nth_error cols k = Some c -> col_ok k c = false -> parse_bed6_fields cols = PErr (err_invalid k)).
Proof.
  intros cols k Hne Hk Hok. unfold parse_bed6_fields. to_take_field.
  destruct k as [|[|[|[|[|[|k]]]]]]; try (exfalso; lia);
    try (split; [intros Hnone; destruct cols; [congruence|discriminate Hnone]|intros c Hc Hbad; discriminate Hbad]);
    first_bad_tac Hok.
Qed.

Lemma all_ok_bed6_fields : forall cols, cols_ok_below cols 6 ->
  exists r, parse_bed6_fields cols = POk (r, skipn 6 cols).
Proof.
  intros cols Hok. unfold parse_bed6_fields. to_take_field.
  get_oks Hok; repeat col_step; eexists; reflexivity.
Qed.

Theorem first_bad_column_npeak : forall pf s k, (k < 6)%nat ->
  let cols := split_on is_tab s in cols_ok_below cols k ->
  (nth_error cols k = None -> parse_npeak pf s = PErr (err_missing k)) /\
  (forall c, nth_error cols k = Some c -> col_ok k c = false -> parse_npeak pf s = PErr (err_invalid k)).
Proof.
  intros pf s k Hk cols Hok. rewrite parse_npeak_eq. fold cols. unfold npeak_fields.
  destruct (first_bad_bed6_fields cols k (split_on_nonempty _ _) Hk Hok) as [H1 H2].
  split; [intros Hn; rewrite (H1 Hn)|intros c Hc Hb; rewrite (H2 c Hc Hb)]; reflexivity.
Qed.

Theorem first_bad_column_bpeak : forall pf s k, (k < 6)%nat ->
  let cols := split_on is_tab s in cols_ok_below cols k ->
  (nth_error cols k = None -> parse_bpeak pf s = PErr (err_missing k)) /\
  (forall c, nth_error cols k = Some c -> col_ok k c = false -> parse_bpeak pf s = PErr (err_invalid k)).
Proof.
  intros pf s k Hk cols Hok. rewrite parse_bpeak_eq. fold cols. unfold bpeak_fields.
  destruct (first_bad_bed6_fields cols k (split_on_nonempty _ _) Hk Hok) as [H1 H2].
  split; [intros Hn; rewrite (H1 Hn)|intros c Hc Hb; rewrite (H2 c Hc Hb)]; reflexivity.
Qed.

Theorem first_bad_column_bgraph : forall fl pf s k, (k < 3)%nat ->
  let cols := split_on is_tab s in cols_ok_below cols k ->
  (nth_error cols k = None -> parse_bgraph fl pf s = PErr (err_missing k)) /\
  (forall c, nth_error cols k = Some c -> col_ok k c = false -> parse_bgraph fl pf s = PErr (err_invalid k)).
Proof.
  intros fl pf s k Hk cols Hok. rewrite parse_bgraph_eq. fold cols.
  assert (Hne : cols <> []) by apply split_on_nonempty. clearbody cols.
  unfold bgraph_fields. to_take_field.
  destruct k as [|[|[|k]]]; try (exfalso; lia);
    try (split; [intros Hnone; destruct cols; [congruence|discriminate Hnone]|intros c Hc Hbad; discriminate Hbad]);
    first_bad_tac Hok.
Qed.

(* format-specific columns: only MissingField / InvalidField *)
Definition ext_res {A} (r : pres A) : Prop :=
  (exists a, r = POk a) \/ r = PErr MissingField \/ r = PErr InvalidField.

Lemma ext_bind : forall A B (r : pres A) (f : A -> pres B),
  ext_res r -> (forall a, ext_res (f a)) -> ext_res (pbind r f).
Proof.
  intros A B r f [[a ->]|[->| ->]] Hf; cbn [pbind]; [apply Hf|right; left; reflexivity|right; right; reflexivity].
Qed.

Lemma ext_ok : forall A (a : A), ext_res (POk a).
Proof. intros. left. eauto. Qed.

Lemma ext_take_field : forall A (f : bytes -> pres A) fs,
  (forall x, ext_res (f x)) -> ext_res (take_field MissingField f fs).
Proof.
  intros A f fs Hf. destruct fs as [|x t]; cbn [take_field]; [right; left; reflexivity|].
  apply ext_bind; [apply Hf|intros; apply ext_ok].
Qed.

Lemma ext_f_num : forall x, ext_res (f_num InvalidField U64MAX x).
Proof. intros. unfold f_num. destruct (parse_uint U64MAX x); [apply ext_ok|right; right; reflexivity]. Qed.
Lemma ext_f_float : forall pf x, ext_res (f_float pf x).
Proof. intros. unfold f_float. destruct (pf x); [apply ext_ok|right; right; reflexivity]. Qed.
Lemma ext_f_bgval : forall fl pf x, ext_res (f_bgval fl pf x).
Proof.
  intros. unfold f_bgval. destruct fl; [destruct (pf x)|destruct (parse_int x)];
    try apply ext_ok; right; right; reflexivity.
Qed.
Lemma ext_p_float : forall pf fs, ext_res (p_float pf fs).
Proof. intros. rewrite p_float_eq. apply ext_take_field, ext_f_float. Qed.
Lemma ext_p_peak : forall fs, ext_res (p_peak fs).
Proof. intros. rewrite p_peak_eq. apply ext_take_field, ext_f_num. Qed.
Lemma ext_p_bgval : forall fl pf fs, ext_res (p_bgval fl pf fs).
Proof. intros. rewrite p_bgval_eq. apply ext_take_field, ext_f_bgval. Qed.
Lemma ext_p_pvalue : forall pf fs, ext_res (p_pvalue pf fs).
Proof. intros. unfold p_pvalue. apply ext_bind; [apply ext_p_float|intros; apply ext_ok]. Qed.

Ltac ext_step :=
  first [ apply ext_ok | apply ext_p_float | apply ext_p_peak | apply ext_p_bgval | apply ext_p_pvalue
        | apply ext_bind; [|intros ?] ].

Theorem ext_columns_npeak : forall pf s, cols_ok_below (split_on is_tab s) 6 ->
  (exists r, parse_npeak pf s = POk r) \/ parse_npeak pf s = PErr MissingField \/ parse_npeak pf s = PErr InvalidField.
Proof.
  intros pf s Hok. rewrite parse_npeak_eq. unfold npeak_fields.
  destruct (all_ok_bed6_fields _ Hok) as [r ->]. cbn [pbind fst snd].
  change (ext_res (pdo sg <- p_float pf (skipn 6 (split_on is_tab s)); pdo p <- p_pvalue pf (snd sg);
                   pdo q <- p_pvalue pf (snd p); pdo pk <- p_peak (snd q);
                   POk (mkNP r (fst sg) (fst p) (fst q) (fst pk)))).
  repeat ext_step.
Qed.

Theorem ext_columns_bpeak : forall pf s, cols_ok_below (split_on is_tab s) 6 ->
  (exists r, parse_bpeak pf s = POk r) \/ parse_bpeak pf s = PErr MissingField \/ parse_bpeak pf s = PErr InvalidField.
Proof.
  intros pf s Hok. rewrite parse_bpeak_eq. unfold bpeak_fields.
  destruct (all_ok_bed6_fields _ Hok) as [r ->]. cbn [pbind fst snd].
  change (ext_res (pdo sg <- p_float pf (skipn 6 (split_on is_tab s)); pdo p <- p_pvalue pf (snd sg);
                   pdo q <- p_pvalue pf (snd p);
                   POk (mkBP r (fst sg) (fst p) (fst q)))).
  repeat ext_step.
Qed.

Theorem ext_columns_bgraph : forall fl pf s, cols_ok_below (split_on is_tab s) 3 ->
  (exists r, parse_bgraph fl pf s = POk r) \/ parse_bgraph fl pf s = PErr MissingField \/ parse_bgraph fl pf s = PErr InvalidField.
Proof.
  intros fl pf s Hok. rewrite parse_bgraph_eq. unfold bgraph_fields. to_take_field.
  get_oks Hok. repeat col_step.
  match goal with |- (exists r, ?x = POk r) \/ _ => change (ext_res x) end.
  repeat ext_step.
Qed.

(* ====================================================================== *)
(* C12: extra columns are ignored                                          *)
(* ====================================================================== *)
Definition extensible {A} (p : list bytes -> pres (A * list bytes)) : Prop :=
  forall fs v rest ex, p fs = POk (v, rest) -> p (fs ++ ex) = POk (v, rest ++ ex).

Lemma take_field_ext : forall A m (f : bytes -> pres A), extensible (take_field m f).
Proof.
  intros A m f fs v rest ex. destruct fs as [|x t]; cbn [take_field app]; [discriminate|].
  destruct (f x); cbn [pbind]; try discriminate. intros E. injection E as -> ->. reflexivity.
Qed.

Lemma p_chrom_ext : extensible p_chrom. Proof. apply take_field_ext. Qed.
Lemma p_start_ext : extensible p_start. Proof. apply take_field_ext. Qed.
Lemma p_end_ext : extensible p_end. Proof. apply take_field_ext. Qed.
Lemma p_name_ext : extensible p_name. Proof. apply take_field_ext. Qed.
Lemma p_score_ext : extensible p_score. Proof. apply take_field_ext. Qed.
Lemma p_strand_ext : extensible p_strand. Proof. apply take_field_ext. Qed.
Lemma p_peak_ext : extensible p_peak. Proof. apply take_field_ext. Qed.
Lemma p_float_ext : forall pf, extensible (p_float pf). Proof. intros. apply take_field_ext. Qed.
Lemma p_bgval_ext : forall fl pf, extensible (p_bgval fl pf). Proof. intros. apply take_field_ext. Qed.
Lemma p_pvalue_ext : forall pf, extensible (p_pvalue pf).
Proof.
  intros pf fs v rest ex. unfold p_pvalue.
  destruct (p_float pf fs) as [[b r]| |] eqn:E; cbn [pbind fst snd]; try discriminate.
  rewrite (p_float_ext pf _ _ _ ex E). cbn [pbind fst snd]. intros E'. injection E' as <- <-. reflexivity.
Qed.

(* one stage: the head parser succeeded on fs (otherwise the whole parse is not POk) *)
Ltac ext_stage H :=
  match type of H with
  | pbind (?p ?fs) _ = POk _ =>
    let E := fresh "E" in
    destruct (p fs) as [[? ?]| |] eqn:E; cbn [pbind fst snd] in H; try discriminate H;
    first [ rewrite (p_chrom_ext _ _ _ _ E) | rewrite (p_start_ext _ _ _ _ E) | rewrite (p_end_ext _ _ _ _ E)
          | rewrite (p_name_ext _ _ _ _ E) | rewrite (p_score_ext _ _ _ _ E) | rewrite (p_strand_ext _ _ _ _ E)
          | rewrite (p_peak_ext _ _ _ _ E) | rewrite (p_float_ext _ _ _ _ _ E) | rewrite (p_bgval_ext _ _ _ _ _ _ E)
          | rewrite (p_pvalue_ext _ _ _ _ _ E) ];
    cbn [pbind fst snd]
  end.

Lemma bed_fields_extra : forall n fs r ex, 3 <= n <= 6 -> bed_fields n fs = POk r -> bed_fields n (fs ++ ex) = POk r.
Proof.
  intros n fs r ex Hn H. unfold bed_fields in *.
  destruct (n_cases_3_6 n Hn) as [E|[E|[E|E]]]; subst n;
    repeat match type of H with context [?a <? ?b] =>
      let v := eval vm_compute in (a <? b) in change (a <? b) with v in H end;
    eval_ltb; cbv iota in H |- *; repeat ext_stage H; cbn [pbind fst snd] in H |- *; exact H.
Qed.

Lemma parse_bed6_fields_ext : extensible parse_bed6_fields.
Proof.
  intros fs v rest ex H. unfold parse_bed6_fields in *.
  repeat ext_stage H. injection H as <- <-. reflexivity.
Qed.

Lemma is_tab_TAB : is_tab TAB = true. Proof. reflexivity. Qed.

Theorem extra_columns_ignored_bed : forall n s r x, 3 <= n <= 6 -> parse_bed n s = POk r ->
  parse_bed n (s ++ TAB :: x) = POk r.
Proof.
  intros n s r x Hn H. rewrite parse_bed_eq in *. rewrite split_on_app by apply is_tab_TAB.
  apply bed_fields_extra; assumption.
Qed.

Theorem extra_columns_ignored_npeak : forall pf s r x, parse_npeak pf s = POk r ->
  parse_npeak pf (s ++ TAB :: x) = POk r.
Proof.
  intros pf s r x H. rewrite parse_npeak_eq in *. rewrite split_on_app by apply is_tab_TAB.
  unfold npeak_fields in *.
  destruct (parse_bed6_fields (split_on is_tab s)) as [[b rest]| |] eqn:E; cbn [pbind fst snd] in H; try discriminate H.
  rewrite (parse_bed6_fields_ext _ _ _ _ E). cbn [pbind fst snd].
  repeat ext_stage H. exact H.
Qed.

Theorem extra_columns_ignored_bpeak : forall pf s r x, parse_bpeak pf s = POk r ->
  parse_bpeak pf (s ++ TAB :: x) = POk r.
Proof.
  intros pf s r x H. rewrite parse_bpeak_eq in *. rewrite split_on_app by apply is_tab_TAB.
  unfold bpeak_fields in *.
  destruct (parse_bed6_fields (split_on is_tab s)) as [[b rest]| |] eqn:E; cbn [pbind fst snd] in H; try discriminate H.
  rewrite (parse_bed6_fields_ext _ _ _ _ E). cbn [pbind fst snd].
  repeat ext_stage H. exact H.
Qed.

Theorem extra_columns_ignored_bgraph : forall fl pf s r x, parse_bgraph fl pf s = POk r ->
  parse_bgraph fl pf (s ++ TAB :: x) = POk r.
Proof.
  intros fl pf s r x H. rewrite parse_bgraph_eq in *. rewrite split_on_app by apply is_tab_TAB.
  unfold bgraph_fields in *. repeat ext_stage H. exact H.
Qed.

(* LapperSpecs.v — declarative specifications used by C18, C19, C20 (position sets, canonical
   disjoint covers, cardinalities, run-length encodings).  Definitions only. *)
From BedV Require Import Base LapperModel LapperProofs.

Definition covers (i : iv) (p : N) : Prop := st i <= p /\ p < en i.
Definition covered (l : list iv) (p : N) : Prop := exists i, In i l /\ covers i p.
Definition ne_ivs (l : list iv) : Prop := forall i, In i l -> st i < en i.
Definition ne_op (o : lop) : Prop := match o with Insert i => st i < en i | _ => True end.

(* pairwise disjoint, non-adjacent, ascending, every interval non-empty *)
Definition StrictSep (c : list iv) : Prop := StronglySorted before c /\ ne_ivs c.
(* c is a canonical disjoint cover of the positions covered by l *)
Definition IsCanonOf (l c : list iv) : Prop := StrictSep c /\ forall p, covered c p <-> covered l p.
Definition ends (c : list iv) : list (N * N) := map (fun i => (st i, en i)) c.

(* cardinality of a set of positions: witnessed by a duplicate-free enumeration *)
Definition CardOf (P : N -> Prop) (n : N) : Prop :=
  exists ps : list N, NoDup ps /\ (forall p, In p ps <-> P p) /\ N.of_nat (length ps) = n.

(* number of stored intervals covering p *)
Definition depth_at_pos (l : list iv) (p : N) : nat := count_if (fun i => (st i <=? p) && (p <? en i)) l.

(* runs (s, e, d): vl carries the depth *)
Definition DepthRLE (l : list iv) (rs : list iv) : Prop :=
  (forall r, In r rs -> st r < en r /\ 0 < vl r /\ forall p, st r <= p < en r -> N.of_nat (depth_at_pos l p) = vl r) /\
  StronglySorted (fun a b => en a <= st b) rs /\
  (forall pre a b post, rs = pre ++ a :: b :: post -> en a = st b -> vl a <> vl b) /\
  (forall p, covered l p <-> covered rs p).

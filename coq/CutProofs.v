(* CutProofs.v — C09: what ExternalChunk::next sees when the storage LOST ITS TAIL (the file holds only the
   first n bytes of the frames) and every read is fault-free (empty plan).
   The reader yields exactly the records whose frames are completely inside the first n bytes, unaltered;
   then the chunk simply ends when the cut falls on a record boundary or inside the next 8-byte length header
   (the format cannot tell), and an I/O error is reported when the cut falls inside a payload.
   Proved once over an abstract read_exact and instantiated with the raw storage (ExtSortModel) and with the
   BufReader of BufModel.  Stdlib only, no axioms. *)
From BedV Require Import Base AlgebraModel ExtSortModel ChunkProofs BufModel BufProofs.

(* ---------- ExternalChunk::next over an abstract read_exact ---------- *)
Definition gnext {R : Type} (rd : R -> nat -> R * (bytes + ioerr)) (r : R) : R * option citem :=
  let (r1, h) := rd r 8%nat in
  match h with
  | inr EUnexpectedEof => (r1, None)
  | inr _ => (r1, Some CIoErr)
  | inl hb =>
    let size := N.to_nat (le_val hb) in
    let (r2, p) := rd r1 size in
    match p with
    | inr _ => (r2, Some CIoErr)
    | inl pb => (r2, Some (match de_blob pb with Some v => CItem v | None => CDeErr end))
    end
  end.
Fixpoint gall {R : Type} (rd : R -> nat -> R * (bytes + ioerr)) (fuel : nat) (r : R) : list citem :=
  match fuel with
  | O => []
  | S f => match gnext rd r with
           | (_, None) => []
           | (r', Some (CItem v)) => CItem v :: gall rd f r'
           | (_, Some e) => [e]
           end
  end.

Lemma firstn_In_list : forall (A : Type) (j : nat) (l : list A) (x : A), In x (firstn j l) -> In x l.
Proof.
  intros A j l x H. rewrite <- (firstn_skipn j l). apply in_or_app. left. exact H.
Qed.

Lemma frames_firstn_S : forall v t j, frames (firstn (S j) (v :: t)) = frame v ++ frames (firstn j t).
Proof. intros. cbn [firstn]. apply frames_cons. Qed.

Section Cut.
  Variable R : Type.
  Variable stream : R -> bytes.            (* the bytes the reader has still in front of it *)
  Variable clean : R -> Prop.              (* no fault planned *)
  Variable rd : R -> nat -> R * (bytes + ioerr).
  Hypothesis rd_ok : forall r req r' got, clean r -> rd r req = (r', inl got) ->
    got = firstn req (stream r) /\ stream r' = skipn req (stream r) /\ (req <= length (stream r))%nat /\ clean r'.
  Hypothesis rd_err : forall r req r' e, clean r -> rd r req = (r', inr e) ->
    e = EUnexpectedEof /\ (length (stream r) < req)%nat.

  (* fewer than 8 bytes left: the chunk ends *)
  Lemma gnext_short : forall r, clean r -> (length (stream r) < 8)%nat -> exists r', gnext rd r = (r', None).
  Proof.
    intros r Hc Hlen. unfold gnext. destruct (rd r 8%nat) as [r1 h] eqn:E1.
    destruct h as [hb|e].
    - apply rd_ok in E1; [|exact Hc]. destruct E1 as [_ [_ [Hle _]]]. lia.
    - apply rd_err in E1; [|exact Hc]. destruct E1 as [-> _]. exists r1. reflexivity.
  Qed.

  (* a complete header followed by an incomplete payload: an I/O error *)
  Lemma gnext_cut_payload : forall r v rest n, clean r -> blob_ok v ->
    stream r = firstn n (frame v ++ rest) -> (8 <= n)%nat -> (n < length (frame v))%nat ->
    exists r', gnext rd r = (r', Some CIoErr).
  Proof.
    intros r v rest n Hc Hv Hs Hn8 Hnf. unfold gnext. destruct (rd r 8%nat) as [r1 h] eqn:E1.
    assert (Hlen : length (stream r) = n).
    { rewrite Hs. apply firstn_length_le. rewrite app_length. lia. }
    destruct h as [hb|e].
    - apply rd_ok in E1; [|exact Hc]. destruct E1 as [Hhb [Hs1 [_ Hc1]]].
      assert (Hhb' : hb = le64 (N.of_nat (length (ser_blob v)))).
      { rewrite Hhb, Hs, firstn_firstn. replace (Nat.min 8 n) with 8%nat by lia.
        unfold frame, le64. rewrite <- app_assoc. apply firstn_le_bytes_app. }
      rewrite Hhb'. unfold le64.
      rewrite le_val_le_bytes by (change (256 ^ N.of_nat 8) with (2 ^ 64); exact Hv).
      rewrite Nat2N.id.
      destruct (rd r1 (length (ser_blob v))) as [r2 p] eqn:E2.
      destruct p as [pb|e].
      + apply rd_ok in E2; [|exact Hc1]. destruct E2 as [_ [_ [Hle _]]].
        rewrite Hs1, skipn_length, Hlen in Hle. rewrite frame_length in Hnf. lia.
      + exists r2. reflexivity.
    - apply rd_err in E1; [|exact Hc]. destruct E1 as [_ Hlt]. lia.
  Qed.

  (* a complete frame: exactly that item, leaving exactly the rest *)
  Lemma gnext_full : forall r v rest, clean r -> blob_ok v -> stream r = frame v ++ rest ->
    exists r', gnext rd r = (r', Some (CItem v)) /\ stream r' = rest /\ clean r'.
  Proof.
    intros r v rest Hc Hv Hs. unfold gnext. destruct (rd r 8%nat) as [r1 h] eqn:E1.
    destruct h as [hb|e].
    - apply rd_ok in E1; [|exact Hc]. destruct E1 as [Hhb [Hs1 [_ Hc1]]].
      rewrite Hs in Hhb, Hs1. unfold frame, le64 in Hhb, Hs1. rewrite <- app_assoc in Hhb, Hs1.
      rewrite firstn_le_bytes_app in Hhb. rewrite skipn_le_bytes_app in Hs1. subst hb.
      rewrite le_val_le_bytes by (change (256 ^ N.of_nat 8) with (2 ^ 64); exact Hv).
      rewrite Nat2N.id.
      destruct (rd r1 (length (ser_blob v))) as [r2 p] eqn:E2.
      destruct p as [pb|e].
      + apply rd_ok in E2; [|exact Hc1]. destruct E2 as [Hpb [Hs2 [_ Hc2]]].
        rewrite Hs1 in Hpb, Hs2. rewrite firstn_length_app in Hpb. rewrite skipn_length_app in Hs2. subst pb.
        rewrite de_ser_blob.
        * exists r2. split; [reflexivity|]. split; [exact Hs2 | exact Hc2].
        * unfold blob_ok in Hv. pose proof (ser_blob_length v). lia.
      + apply rd_err in E2; [|exact Hc1]. destruct E2 as [_ Hlt]. rewrite Hs1, app_length in Hlt. lia.
    - apply rd_err in E1; [|exact Hc]. destruct E1 as [_ Hlt].
      rewrite Hs, app_length, frame_length in Hlt. lia.
  Qed.

  Lemma gall_truncated : forall items n fuel r,
    Forall blob_ok items -> (n <= length (frames items))%nat -> (n < fuel)%nat ->
    clean r -> stream r = firstn n (frames items) ->
    exists j, (j <= length items)%nat /\
      (length (frames (firstn j items)) <= n)%nat /\
      (forall v, nth_error items j = Some v -> (n < length (frames (firstn j items)) + length (frame v))%nat) /\
      ( ((n - length (frames (firstn j items)) < 8)%nat /\ gall rd fuel r = map CItem (firstn j items))
        \/ ((8 <= n - length (frames (firstn j items)))%nat /\
            gall rd fuel r = map CItem (firstn j items) ++ [CIoErr]) ).
  Proof.
    induction items as [|v t IH]; intros n fuel r Hok Hn Hf Hc Hs; (destruct fuel as [|f]; [lia|]); cbn [gall].
    - change (frames []) with (@nil N) in *. cbn [length] in Hn.
      exists 0%nat. cbn [firstn length]. change (frames []) with (@nil N). cbn [length map].
      split; [lia|]. split; [lia|]. split; [intros v Hv; discriminate Hv|].
      left. split; [lia|].
      destruct (gnext_short r Hc) as [r' E].
      { rewrite Hs, firstn_nil. cbn [length]. lia. }
      rewrite E. reflexivity.
    - inversion Hok as [|? ? Hv Ht]; subst. rewrite frames_cons in Hn, Hs. rewrite app_length in Hn.
      destruct (le_lt_dec (length (frame v)) n) as [Hfull|Hcut].
      + (* the first frame is complete *)
        assert (Hs' : stream r = frame v ++ firstn (n - length (frame v)) (frames t)).
        { rewrite Hs, firstn_app. f_equal. apply firstn_all2. exact Hfull. }
        destruct (gnext_full r v _ Hc Hv Hs') as [r' [E [Hs1 Hc1]]]. rewrite E.
        pose proof (frame_length v) as Hfl.
        destruct (IH (n - length (frame v))%nat f r' Ht ltac:(lia) ltac:(lia) Hc1 Hs1)
          as [j [Hj [Hle [Hnx Hres]]]].
        exists (S j). rewrite frames_firstn_S, app_length. cbn [length nth_error].
        split; [lia|]. split; [lia|]. split.
        * intros w Hw. specialize (Hnx w Hw). lia.
        * cbn [firstn map app].
          destruct Hres as [[Hlt Hg]|[Hge Hg]]; rewrite Hg; [left|right]; (split; [lia | reflexivity]).
      + (* the first frame is cut *)
        exists 0%nat. cbn [firstn nth_error length map app]. change (frames []) with (@nil N). cbn [length].
        split; [lia|]. split; [lia|]. split.
        * intros w Hw. injection Hw as <-. lia.
        * rewrite Nat.sub_0_r. destruct (le_lt_dec 8 n) as [Hn8|Hn8].
          -- right. split; [exact Hn8|].
             destruct (gnext_cut_payload r v (frames t) n Hc Hv Hs Hn8 Hcut) as [r' E]. rewrite E. reflexivity.
          -- left. split; [exact Hn8|].
             destruct (gnext_short r Hc) as [r' E].
             { rewrite Hs, firstn_length. lia. }
             rewrite E. reflexivity.
  Qed.
End Cut.

(* ---------- instance 1: the raw storage ---------- *)
Definition rd_raw (st : rstore) (req : nat) : rstore * (bytes + ioerr) := read_exact (re_fuel st req) st req [].
Definition clean_raw (st : rstore) : Prop := r_plan st = [].

Lemma nil_of_incl_nil : forall (A : Type) (l : list A), (forall x, In x l -> In x (@nil A)) -> l = [].
Proof. intros A [|a l] H; [reflexivity|]. destruct (H a (or_introl eq_refl)). Qed.

Lemma rd_raw_ok : forall r req r' got, clean_raw r -> rd_raw r req = (r', inl got) ->
  got = firstn req (r_data r) /\ r_data r' = skipn req (r_data r) /\ (req <= length (r_data r))%nat /\ clean_raw r'.
Proof.
  intros r req r' got Hc H. unfold rd_raw in H. pose proof (read_exact_plan _ _ _ _ H) as P.
  apply read_exact_ok in H. destruct H as [H1 [H2 H3]]. repeat split; try assumption.
  unfold clean_raw in *. rewrite Hc in P. apply nil_of_incl_nil. exact P.
Qed.

Lemma rd_raw_err : forall r req r' e, clean_raw r -> rd_raw r req = (r', inr e) ->
  e = EUnexpectedEof /\ (length (r_data r) < req)%nat.
Proof.
  intros r req r' e Hc H. unfold rd_raw in H. apply read_exact_err in H.
  destruct H as [H|[_ Hi]]; [exact H|]. unfold clean_raw in Hc. rewrite Hc in Hi. destruct Hi.
Qed.

Lemma chunk_next_gnext : forall st, chunk_next st = gnext rd_raw st.
Proof. intros st. reflexivity. Qed.

Lemma chunk_all_gall : forall fuel st, chunk_all fuel st = gall rd_raw fuel st.
Proof.
  induction fuel as [|f IH]; intros st; cbn [chunk_all gall]; [reflexivity|].
  rewrite chunk_next_gnext. destruct (gnext rd_raw st) as [st' [[v| |]|]]; try reflexivity.
  now rewrite IH.
Qed.

Theorem read_truncated : forall items n, Forall blob_ok items -> (n <= length (frames items))%nat ->
  exists j, (j <= length items)%nat /\
    (length (frames (firstn j items)) <= n)%nat /\
    (forall v, nth_error items j = Some v -> (n < length (frames (firstn j items)) + length (frame v))%nat) /\
    ( ((n - length (frames (firstn j items)) < 8)%nat /\
       chunk_read (firstn n (frames items)) [] = map CItem (firstn j items))
      \/ ((8 <= n - length (frames (firstn j items)))%nat /\
          chunk_read (firstn n (frames items)) [] = map CItem (firstn j items) ++ [CIoErr]) ).
Proof.
  intros items n Hok Hn. unfold chunk_read. rewrite chunk_all_gall.
  apply (gall_truncated rstore r_data clean_raw rd_raw rd_raw_ok rd_raw_err items n); try assumption.
  - rewrite firstn_length_le by exact Hn. lia.
  - reflexivity.
  - reflexivity.
Qed.

(* ---------- instance 2: through BufReader ---------- *)
Definition clean_br (r : bufr) : Prop := r_plan (br_inner r) = [].

Lemma rd_br_ok : forall r req r' got, clean_br r -> br_read_exact r req = (r', inl got) ->
  got = firstn req (br_stream r) /\ br_stream r' = skipn req (br_stream r) /\
  (req <= length (br_stream r))%nat /\ clean_br r'.
Proof.
  intros r req r' got Hc H. pose proof (br_read_exact_plan _ _ _ _ H) as P.
  apply br_read_exact_ok in H. destruct H as [H1 [H2 H3]]. unfold br_stream. repeat split; try assumption.
  unfold clean_br in *. rewrite Hc in P. apply nil_of_incl_nil. exact P.
Qed.

Lemma rd_br_err : forall r req r' e, clean_br r -> br_read_exact r req = (r', inr e) ->
  e = EUnexpectedEof /\ (length (br_stream r) < req)%nat.
Proof.
  intros r req r' e Hc H. apply br_read_exact_err in H. unfold br_stream.
  destruct H as [H|[_ Hi]]; [exact H|]. unfold clean_br in Hc. rewrite Hc in Hi. destruct Hi.
Qed.

Lemma chunk_next_br_gnext : forall r, chunk_next_br r = gnext br_read_exact r.
Proof. intros r. reflexivity. Qed.

Lemma chunk_all_br_gall : forall fuel r, chunk_all_br fuel r = gall br_read_exact fuel r.
Proof.
  induction fuel as [|f IH]; intros r; cbn [chunk_all_br gall]; [reflexivity|].
  rewrite chunk_next_br_gnext. destruct (gnext br_read_exact r) as [r' [[v| |]|]]; try reflexivity.
  now rewrite IH.
Qed.

Theorem read_truncated_buffered : forall items n, Forall blob_ok items -> (n <= length (frames items))%nat ->
  exists j, (j <= length items)%nat /\
    (length (frames (firstn j items)) <= n)%nat /\
    (forall v, nth_error items j = Some v -> (n < length (frames (firstn j items)) + length (frame v))%nat) /\
    ( ((n - length (frames (firstn j items)) < 8)%nat /\
       chunk_read_buffered (firstn n (frames items)) [] = map CItem (firstn j items))
      \/ ((8 <= n - length (frames (firstn j items)))%nat /\
          chunk_read_buffered (firstn n (frames items)) [] = map CItem (firstn j items) ++ [CIoErr]) ).
Proof.
  intros items n Hok Hn. unfold chunk_read_buffered. rewrite chunk_all_br_gall.
  apply (gall_truncated bufr br_stream clean_br br_read_exact rd_br_ok rd_br_err items n); try assumption.
  - rewrite firstn_length_le by exact Hn. lia.
  - reflexivity.
  - reflexivity.
Qed.

(* ---------- never an altered or partial record ---------- *)
Lemma in_citem_prefix : forall (items : list bytes) j v tail,
  (forall x, In x tail -> x = CIoErr) ->
  In (CItem v) (map CItem (firstn j items) ++ tail) -> In v items.
Proof.
  intros items j v tail Ht H. apply in_app_or in H. destruct H as [H|H].
  - apply in_map_iff in H. destruct H as [x [Hx Hi]]. injection Hx as ->.
    apply (firstn_In_list _ j). exact Hi.
  - apply Ht in H. discriminate H.
Qed.

Corollary truncated_never_alters : forall items n, Forall blob_ok items -> (n <= length (frames items))%nat ->
  forall v, In (CItem v) (chunk_read (firstn n (frames items)) []) -> In v items.
Proof.
  intros items n Hok Hn v H.
  destruct (read_truncated items n Hok Hn) as [j [_ [_ [_ [[_ E]|[_ E]]]]]]; rewrite E in H.
  - apply (in_citem_prefix items j v []); [intros x []|]. rewrite app_nil_r. exact H.
  - apply (in_citem_prefix items j v [CIoErr]); [|exact H]. intros x [<-|[]]. reflexivity.
Qed.

Corollary truncated_never_alters_buffered : forall items n,
  Forall blob_ok items -> (n <= length (frames items))%nat ->
  forall v, In (CItem v) (chunk_read_buffered (firstn n (frames items)) []) -> In v items.
Proof.
  intros items n Hok Hn v H.
  destruct (read_truncated_buffered items n Hok Hn) as [j [_ [_ [_ [[_ E]|[_ E]]]]]]; rewrite E in H.
  - apply (in_citem_prefix items j v []); [intros x []|]. rewrite app_nil_r. exact H.
  - apply (in_citem_prefix items j v [CIoErr]); [|exact H]. intros x [<-|[]]. reflexivity.
Qed.

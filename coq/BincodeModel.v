(* BincodeModel.v — the wire format that src/extsort/chunk.rs gives the crate's record types:
   bincode 1.3 DefaultOptions (little endian, VARINT integer encoding, no trailing bytes) applied to the serde
   derives of GenomicRange, BED<N>, NarrowPeak, BroadPeak, BedGraph<i64|f64>.
   Strings are byte lists (UTF-8 validation on deserialization is not modelled), f64 values their bit patterns. *)
From BedV Require Import Base AlgebraModel TextModel ExtSortModel.

(* decoders return the value and the remaining bytes *)
Definition dec (A : Type) := bytes -> option (A * bytes).
Definition dbind {A B} (d : dec A) (f : A -> dec B) : dec B :=
  fun s => match d s with Some (a, r) => f a r | None => None end.
Definition dret {A} (a : A) : dec A := fun s => Some (a, s).
Notation "'ddo' x <- d ; k" := (dbind d (fun x => k)) (at level 200, x pattern, d at level 100, k at level 200).

(* u64 / u16 / u32 / usize: varint (ExtSortModel.varint / de_varint) *)
Definition ser_u (x : N) : bytes := varint x.
Definition de_u (max : N) : dec N := fun s =>
  match de_varint s with Some (v, r) => if v <=? max then Some (v, r) else None | None => None end.
(* i64: zigzag, then varint *)
Definition zigzag (z : Z) : N := match z with Zneg p => 2 * Npos p - 1 | _ => 2 * Z.to_N z end.
Definition unzigzag (n : N) : Z := if n mod 2 =? 0 then Z.of_N (n / 2) else Z.opp (Z.of_N ((n + 1) / 2)).
Definition ser_i (z : Z) : bytes := varint (zigzag z).
Definition de_i : dec Z := ddo n <- de_u U64MAX; dret (unzigzag n).
(* f64: 8 bytes little endian *)
Definition ser_f (bits : N) : bytes := le_bytes 8 bits.
Definition de_f : dec N := fun s => if Nat.ltb (length s) 8 then None else Some (le_val (firstn 8 s), skipn 8 s).
(* String / Vec<u8>-like: varint length, then the bytes *)
Definition ser_str (s : bytes) : bytes := varint (N.of_nat (length s)) ++ s.
Definition de_str : dec bytes := fun s =>
  match de_varint s with
  | Some (n, r) => if N.of_nat (length r) <? n then None else Some (firstn (N.to_nat n) r, skipn (N.to_nat n) r)
  | None => None
  end.
(* Option<T>: tag byte 0 / 1 *)
Definition ser_opt {A} (f : A -> bytes) (o : option A) : bytes := match o with None => [0] | Some x => 1 :: f x end.
Definition de_opt {A} (d : dec A) : dec (option A) := fun s =>
  match s with
  | 0 :: r => Some (None, r)
  | 1 :: r => match d r with Some (x, r') => Some (Some x, r') | None => None end
  | _ => None
  end.
(* enum Strand { Forward, Reverse }: variant index as u32 varint *)
Definition ser_strand (s : strand) : bytes := match s with Fwd => [0] | Rev => [1] end.
Definition de_strand : dec strand := fun s =>
  match s with 0 :: r => Some (Fwd, r) | 1 :: r => Some (Rev, r) | _ => None end.
(* Vec<String> *)
Definition ser_strs (l : list bytes) : bytes := varint (N.of_nat (length l)) ++ concat (map ser_str l).
Fixpoint de_strs_n (n : nat) : dec (list bytes) :=
  match n with
  | O => dret []
  | S k => ddo x <- de_str; ddo t <- de_strs_n k; dret (x :: t)
  end.
Definition de_strs : dec (list bytes) := fun s =>
  match de_varint s with
  | Some (n, r) => if N.of_nat (length r) <? n then None else de_strs_n (N.to_nat n) r   (* each element needs >= 1 byte *)
  | None => None
  end.

(* ---- the record types ---- *)
(* GenomicRange(String, u64, u64) *)
Definition ser_grange (g : bytes * N * N) : bytes := ser_str (fst (fst g)) ++ ser_u (snd (fst g)) ++ ser_u (snd g).
Definition de_grange : dec (bytes * N * N) :=
  ddo c <- de_str; ddo s <- de_u U64MAX; ddo e <- de_u U64MAX; dret (c, s, e).
(* BED<N> { chrom, start, end, name, score: Option<Score(u16)>, strand, optional_fields: OptionalFields(Vec<String>) } *)
Definition ser_bedrec (r : bed) (optional : list bytes) : bytes :=
  ser_str (bd_chr r) ++ ser_u (bd_st r) ++ ser_u (bd_en r) ++ ser_opt ser_str (bd_name r) ++
  ser_opt ser_u (bd_score r) ++ ser_opt ser_strand (bd_strand r) ++ ser_strs optional.
Definition de_bed6 : dec bed :=
  ddo c <- de_str; ddo s <- de_u U64MAX; ddo e <- de_u U64MAX; ddo nm <- de_opt de_str;
  ddo sc <- de_opt (de_u 65535); ddo sd <- de_opt de_strand; dret (mkBed c s e nm sc sd).
Definition de_bedrec : dec (bed * list bytes) := ddo b <- de_bed6; ddo o <- de_strs; dret (b, o).
(* NarrowPeak / BroadPeak: the six BED fields (no optional_fields), signal f64, p/q Option<f64>, (peak u64) *)
Definition ser_bed6 (r : bed) : bytes :=
  ser_str (bd_chr r) ++ ser_u (bd_st r) ++ ser_u (bd_en r) ++ ser_opt ser_str (bd_name r) ++
  ser_opt ser_u (bd_score r) ++ ser_opt ser_strand (bd_strand r).
Definition ser_npeak (r : npeak) : bytes :=
  ser_bed6 (np_bed r) ++ ser_f (np_signal r) ++ ser_opt ser_f (np_p r) ++ ser_opt ser_f (np_q r) ++ ser_u (np_peak r).
Definition de_npeak : dec npeak :=
  ddo b <- de_bed6; ddo sg <- de_f; ddo p <- de_opt de_f; ddo q <- de_opt de_f; ddo pk <- de_u U64MAX; dret (mkNP b sg p q pk).
Definition ser_bpeak (r : bpeak) : bytes :=
  ser_bed6 (bp_bed r) ++ ser_f (bp_signal r) ++ ser_opt ser_f (bp_p r) ++ ser_opt ser_f (bp_q r).
Definition de_bpeak : dec bpeak :=
  ddo b <- de_bed6; ddo sg <- de_f; ddo p <- de_opt de_f; ddo q <- de_opt de_f; dret (mkBP b sg p q).
(* BedGraph<V> { chrom, start, end, value } with V = i64 or f64 *)
Definition ser_bgraph (r : bgraph) : bytes :=
  ser_str (bg_chr r) ++ ser_u (bg_st r) ++ ser_u (bg_en r) ++ match bg_val r with VInt z => ser_i z | VFloat b => ser_f b end.
Definition de_bgraph (is_float : bool) : dec bgraph :=
  ddo c <- de_str; ddo s <- de_u U64MAX; ddo e <- de_u U64MAX;
  if is_float then (ddo b <- de_f; dret (mkBG c s e (VFloat b))) else (ddo z <- de_i; dret (mkBG c s e (VInt z))).
(* a whole value: no trailing bytes allowed *)
Definition de_all {A} (d : dec A) (s : bytes) : option A :=
  match d s with Some (a, []) => Some a | _ => None end.

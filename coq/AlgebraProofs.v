(* AlgebraProofs.v — proofs about the BEDLike algebra (C13: len / compare / overlap / n_overlap)
   and the binning functions (C14: split_by_len / rsplit_by_len).  Stdlib only.  No axioms. *)
From BedV Require Import Base AlgebraModel LapperModel LapperProofs LapperSpecs MergeProofs.

(* ====================== C13 ====================== *)

Lemma bytes_cmp_eq : forall a b, bytes_cmp a b = Eq <-> a = b.
Proof.
  induction a as [|x a IH]; intros [|y b]; cbn [bytes_cmp].
  - split; reflexivity.
  - split; discriminate.
  - split; discriminate.
  - destruct (x ?= y) eqn:E.
    + apply N.compare_eq_iff in E. subst y. split.
      * intros H. apply IH in H. subst b. reflexivity.
      * intros H. injection H as H. apply IH. exact H.
    + split; [discriminate|]. intros H. injection H as H1 H2. subst y.
      rewrite N.compare_refl in E. discriminate E.
    + split; [discriminate|]. intros H. injection H as H1 H2. subst y.
      rewrite N.compare_refl in E. discriminate E.
Qed.

Lemma bytes_cmp_refl : forall a, bytes_cmp a a = Eq.
Proof. intros a. apply bytes_cmp_eq. reflexivity. Qed.

Lemma bytes_cmp_antisym : forall a b, bytes_cmp b a = CompOpp (bytes_cmp a b).
Proof.
  induction a as [|x a IH]; intros [|y b]; cbn [bytes_cmp]; try reflexivity.
  rewrite (N.compare_antisym x y). destruct (x ?= y); cbn [CompOpp]; auto.
Qed.

Lemma bytes_cmp_trans : forall a b c, bytes_cmp a b = Lt -> bytes_cmp b c = Lt -> bytes_cmp a c = Lt.
Proof.
  induction a as [|x a IH]; intros [|y b] [|z c]; cbn [bytes_cmp]; intros H1 H2;
    try discriminate H1; try discriminate H2; try reflexivity.
  destruct (x ?= y) eqn:E1; try discriminate H1; destruct (y ?= z) eqn:E2; try discriminate H2.
  - apply N.compare_eq_iff in E1. apply N.compare_eq_iff in E2. subst y z.
    rewrite N.compare_refl. eapply IH; eassumption.
  - apply N.compare_eq_iff in E1. subst y. rewrite E2. reflexivity.
  - apply N.compare_eq_iff in E2. subst z. rewrite E1. reflexivity.
  - rewrite (N.lt_trans x y z E1 E2 : (x ?= z) = Lt). reflexivity.
Qed.

Lemma bytes_eqb_eq : forall a b, bytes_eqb a b = true <-> a = b.
Proof.
  intros a b. unfold bytes_eqb. split; intros H.
  - apply bytes_cmp_eq. destruct (bytes_cmp a b); congruence.
  - apply bytes_cmp_eq in H. rewrite H. reflexivity.
Qed.

Definition bcovers (r : brec) (c : bytes) (p : N) : Prop := b_chr r = c /\ b_st r <= p /\ p < b_en r.

Theorem overlap_spec : forall a b c s e, boverlap a b = Some (c, s, e) <->
   (b_chr a = b_chr b /\ N.max (b_st a) (b_st b) < N.min (b_en a) (b_en b) /\ c = b_chr a /\ s = N.max (b_st a) (b_st b) /\ e = N.min (b_en a) (b_en b)).
Proof.
  intros a b c s e. unfold boverlap. cbv zeta.
  destruct (bytes_eqb (b_chr a) (b_chr b)) eqn:E; cbn [negb].
  - apply bytes_eqb_eq in E.
    destruct (N.leb_spec (N.min (b_en a) (b_en b)) (N.max (b_st a) (b_st b))) as [L|L].
    + split; [discriminate|]. intros (_ & H & _). lia.
    + split.
      * intros H. injection H as <- <- <-. repeat split; auto.
      * intros (_ & _ & -> & -> & ->). reflexivity.
  - split; [discriminate|]. intros (H & _). apply bytes_eqb_eq in H. congruence.
Qed.

Theorem overlap_positions : forall a b c s e, boverlap a b = Some (c, s, e) ->
   forall ch p, (ch = c /\ s <= p /\ p < e) <-> (bcovers a ch p /\ bcovers b ch p).
Proof.
  intros a b c s e H. apply overlap_spec in H. destruct H as (Hc & Hlt & -> & -> & ->).
  intros ch p. unfold bcovers. split.
  - intros (-> & H1 & H2). repeat split; try congruence; lia.
  - intros ((H1 & H2 & H3) & (H4 & H5 & H6)). repeat split; try congruence; lia.
Qed.

Theorem overlap_none_iff : forall a b, boverlap a b = None <-> ~ (exists ch p, bcovers a ch p /\ bcovers b ch p).
Proof.
  intros a b. split.
  - intros H (ch & p & (A1 & A2 & A3) & (B1 & B2 & B3)).
    assert (K : boverlap a b = Some (b_chr a, N.max (b_st a) (b_st b), N.min (b_en a) (b_en b))).
    { apply overlap_spec. repeat split; try congruence; lia. }
    congruence.
  - intros H. destruct (boverlap a b) as [[[c s] e]|] eqn:E; [|reflexivity].
    exfalso. apply H. exists c, s. apply (overlap_positions _ _ _ _ _ E).
    apply overlap_spec in E. destruct E as (_ & Hlt & _ & -> & ->). repeat split; lia.
Qed.

Theorem overlap_sym : forall a b, boverlap a b = boverlap b a.
Proof.
  intros a b. destruct (boverlap a b) as [[[c s] e]|] eqn:E1.
  - symmetry. apply overlap_spec. apply overlap_spec in E1.
    destruct E1 as (Hc & Hlt & -> & -> & ->). repeat split; try congruence; lia.
  - destruct (boverlap b a) as [[[c s] e]|] eqn:E2; [|reflexivity].
    apply overlap_spec in E2. destruct E2 as (Hc & Hlt & _).
    assert (K : boverlap a b = Some (b_chr a, N.max (b_st a) (b_st b), N.min (b_en a) (b_en b))).
    { apply overlap_spec. repeat split; try congruence; lia. }
    congruence.
Qed.

Theorem n_overlap_card : forall a b, CardOf (fun p => exists ch, bcovers a ch p /\ bcovers b ch p) (bn_overlap a b).
Proof.
  intros a b. unfold bn_overlap. destruct (boverlap a b) as [[[c s] e]|] eqn:E.
  - apply (card_ext (fun p => s <= p /\ p < e)); [|apply card_range].
    intros p. split.
    + intros Hp. exists c. apply (overlap_positions _ _ _ _ _ E). split; [reflexivity|exact Hp].
    + intros (ch & H). apply (overlap_positions _ _ _ _ _ E) in H. tauto.
  - apply (card_ext (fun _ => False)); [|exact card_empty].
    intros p. split; [tauto|]. intros (ch & H).
    apply overlap_none_iff in E. apply E. exists ch, p. exact H.
Qed.

Theorem len_spec : forall r, (b_st r <= b_en r -> b_st r + blen r = b_en r) /\ (b_en r < b_st r -> blen r = 0) /\ CardOf (fun p => b_st r <= p /\ p < b_en r) (blen r).
Proof.
  intros r. unfold blen. split; [lia|]. split; [lia|]. apply card_range.
Qed.

Theorem compare_refl : forall a, bcompare a a = Eq.
Proof.
  intros a. unfold bcompare. rewrite bytes_cmp_refl, !N.compare_refl. reflexivity.
Qed.

Theorem compare_eq_iff : forall a b, bcompare a b = Eq <-> (b_chr a = b_chr b /\ b_st a = b_st b /\ b_en a = b_en b).
Proof.
  intros a b. unfold bcompare, cmp_then.
  pose proof (bytes_cmp_eq (b_chr a) (b_chr b)) as H1.
  pose proof (N.compare_eq_iff (b_st a) (b_st b)) as H2.
  pose proof (N.compare_eq_iff (b_en a) (b_en b)) as H3.
  destruct (bytes_cmp (b_chr a) (b_chr b)); destruct (b_st a ?= b_st b); destruct (b_en a ?= b_en b);
    (split; [intros H; first [discriminate H | repeat split; [apply H1|apply H2|apply H3]; reflexivity]
            |intros (K1 & K2 & K3); apply H1 in K1; apply H2 in K2; apply H3 in K3; congruence]).
Qed.

Theorem compare_antisym : forall a b, bcompare b a = CompOpp (bcompare a b).
Proof.
  intros a b. unfold bcompare.
  rewrite (bytes_cmp_antisym (b_chr a) (b_chr b)), (N.compare_antisym (b_st a) (b_st b)),
    (N.compare_antisym (b_en a) (b_en b)).
  destruct (bytes_cmp (b_chr a) (b_chr b)); destruct (b_st a ?= b_st b); destruct (b_en a ?= b_en b); reflexivity.
Qed.

Theorem compare_lex : forall a b, bcompare a b = Lt <->
   (bytes_cmp (b_chr a) (b_chr b) = Lt \/ (b_chr a = b_chr b /\ (b_st a < b_st b \/ (b_st a = b_st b /\ b_en a < b_en b)))).
Proof.
  intros a b. unfold bcompare, cmp_then.
  pose proof (bytes_cmp_eq (b_chr a) (b_chr b)) as H1.
  destruct (bytes_cmp (b_chr a) (b_chr b)) eqn:E.
  - assert (Hc : b_chr a = b_chr b) by (apply H1; reflexivity).
    destruct (N.compare_spec (b_st a) (b_st b)) as [S|S|S].
    + destruct (N.compare_spec (b_en a) (b_en b)) as [T|T|T].
      * split; [discriminate|]. intros [K|(_ & [K|(_ & K)])]; [discriminate K|lia|lia].
      * split; [|reflexivity]. intros _. right. split; [exact Hc|]. right. split; assumption.
      * split; [discriminate|]. intros [K|(_ & [K|(_ & K)])]; [discriminate K|lia|lia].
    + split; [|reflexivity]. intros _. right. split; [exact Hc|]. left. exact S.
    + split; [discriminate|]. intros [K|(_ & [K|(K & _)])]; [discriminate K|lia|lia].
  - split; [|reflexivity]. intros _. left. reflexivity.
  - split; [discriminate|]. intros [K|(K & _)]; [discriminate K|].
    apply H1 in K. discriminate K.
Qed.

Theorem compare_trans : forall a b c, bcompare a b = Lt -> bcompare b c = Lt -> bcompare a c = Lt.
Proof.
  intros a b c H1 H2. apply compare_lex in H1. apply compare_lex in H2. apply compare_lex.
  destruct H1 as [H1|(E1 & H1)]; destruct H2 as [H2|(E2 & H2)].
  - left. eapply bytes_cmp_trans; eassumption.
  - left. rewrite <- E2. exact H1.
  - left. rewrite E1. exact H2.
  - right. split; [congruence|lia].
Qed.

(* ====================== C14 ====================== *)

Inductive Tiling (e b : N) : N -> list (N * N) -> Prop :=
| T_nil : forall s, e <= s -> Tiling e b s []
| T_last : forall s, s < e -> e - s <= b -> Tiling e b s [(s, e)]
| T_cons : forall s t, b < e - s -> Tiling e b (s + b) t -> Tiling e b s ((s, s + b) :: t).
Inductive RTiling (s b : N) : N -> list (N * N) -> Prop :=
| R_nil : forall e, e <= s -> RTiling s b e []
| R_last : forall e, s < e -> e - s <= b -> RTiling s b e [(s, e)]
| R_cons : forall e t, b < e - s -> RTiling s b (e - b) t -> RTiling s b e ((e - b, e) :: t).

(* ---- div_ceil facts ---- *)
Lemma div_ceil_0 : forall b, 1 <= b -> div_ceil 0 b = 0.
Proof.
  intros b Hb. unfold div_ceil. rewrite N.mod_0_l by lia. rewrite N.div_0_l by lia. reflexivity.
Qed.

Lemma div_ceil_small : forall a b, 0 < a -> a <= b -> div_ceil a b = 1.
Proof.
  intros a b Ha Hab. unfold div_ceil. destruct (N.eq_dec a b) as [->|Hne].
  - rewrite N.mod_same by lia. rewrite N.div_same by lia. reflexivity.
  - rewrite N.mod_small by lia. rewrite N.div_small by lia.
    destruct (N.eqb_spec a 0); [lia|reflexivity].
Qed.

Lemma div_ceil_add : forall d b, 1 <= b -> div_ceil (d + b) b = div_ceil d b + 1.
Proof.
  intros d b Hb. unfold div_ceil. replace (d + b) with (d + 1 * b) by lia.
  rewrite N.mod_add by lia. rewrite N.div_add by lia.
  destruct (d mod b =? 0); lia.
Qed.

Lemma div_ceil_step : forall a b, 1 <= b -> b < a -> div_ceil a b = div_ceil (a - b) b + 1.
Proof.
  intros a b Hb Hab. rewrite <- div_ceil_add by exact Hb. f_equal. lia.
Qed.

Lemma div_ceil_pos : forall a b, 1 <= b -> 0 < a -> 0 < div_ceil a b.
Proof.
  intros a b Hb Ha. destruct (N.le_gt_cases a b) as [L|L].
  - rewrite div_ceil_small by lia. lia.
  - rewrite div_ceil_step by lia. lia.
Qed.

(* ---- the models are tilings ---- *)
Lemma split_tiling_aux : forall e b, 1 <= b -> forall n s, div_ceil (e - s) b = N.of_nat n ->
  Tiling e b s (map (fun k : nat => (s + N.of_nat k * b, N.min (s + N.of_nat k * b + b) e)) (seq 0 n)).
Proof.
  intros e b Hb. induction n as [|n IH]; intros s Hn.
  - cbn [seq map]. apply T_nil.
    destruct (N.eq_dec (e - s) 0) as [Z|Z]; [lia|].
    pose proof (div_ceil_pos (e - s) b Hb) as P. lia.
  - cbn [seq map]. rewrite <- seq_shift, map_map.
    change (N.of_nat 0) with 0. replace (s + 0 * b) with s by lia.
    assert (Hpos : 0 < e - s).
    { destruct (N.eq_dec (e - s) 0) as [Z|Z]; [|lia]. rewrite Z, div_ceil_0 in Hn by lia. lia. }
    destruct (N.le_gt_cases (e - s) b) as [L|L].
    + rewrite div_ceil_small in Hn by lia. assert (n = 0%nat) by lia. subst n. cbn [seq map].
      replace (N.min (s + b) e) with e by lia. apply T_last; lia.
    + rewrite div_ceil_step in Hn by lia.
      replace (N.min (s + b) e) with (s + b) by lia.
      apply T_cons; [lia|].
      rewrite (map_ext _ (fun k : nat => (s + b + N.of_nat k * b, N.min (s + b + N.of_nat k * b + b) e))).
      * apply IH. replace (e - (s + b)) with (e - s - b) by lia. lia.
      * intros k. f_equal; [lia|]. f_equal. lia.
Qed.

Theorem split_tiles : forall s e b, 1 <= b -> exists ps, split_by_len s e b = Ok ps /\ Tiling e b s ps.
Proof.
  intros s e b Hb. unfold split_by_len. destruct (N.eqb_spec b 0); [lia|].
  eexists. split; [reflexivity|].
  unfold AlgebraModel.nrange. rewrite map_map. apply split_tiling_aux; [exact Hb|].
  rewrite N2Nat.id. reflexivity.
Qed.

Lemma rsplit_tiling_aux : forall s b, 1 <= b -> forall n e, div_ceil (e - s) b = N.of_nat n ->
  RTiling s b e (map (fun k : nat => (N.max (e - N.of_nat k * b - b) s, e - N.of_nat k * b)) (seq 0 n)).
Proof.
  intros s b Hb. induction n as [|n IH]; intros e Hn.
  - cbn [seq map]. apply R_nil.
    destruct (N.eq_dec (e - s) 0) as [Z|Z]; [lia|].
    pose proof (div_ceil_pos (e - s) b Hb) as P. lia.
  - cbn [seq map]. rewrite <- seq_shift, map_map.
    change (N.of_nat 0) with 0. replace (e - 0 * b) with e by lia.
    assert (Hpos : 0 < e - s).
    { destruct (N.eq_dec (e - s) 0) as [Z|Z]; [|lia]. rewrite Z, div_ceil_0 in Hn by lia. lia. }
    destruct (N.le_gt_cases (e - s) b) as [L|L].
    + rewrite div_ceil_small in Hn by lia. assert (n = 0%nat) by lia. subst n. cbn [seq map].
      replace (N.max (e - b) s) with s by lia. apply R_last; lia.
    + rewrite div_ceil_step in Hn by lia.
      replace (N.max (e - b) s) with (e - b) by lia.
      apply R_cons; [lia|].
      rewrite (map_ext _ (fun k : nat => (N.max (e - b - N.of_nat k * b - b) s, e - b - N.of_nat k * b))).
      * apply IH. replace (e - b - s) with (e - s - b) by lia. lia.
      * intros k. f_equal; [f_equal|]; lia.
Qed.

Theorem rsplit_tiles : forall W s e b, 1 <= b -> s < W -> exists ps, rsplit_by_len W s e b = Ok ps /\ RTiling s b e ps.
Proof.
  intros W s e b Hb HW. unfold rsplit_by_len. destruct (N.eqb_spec b 0); [lia|].
  destruct (N.leb_spec W s); [lia|].
  eexists. split; [reflexivity|].
  unfold AlgebraModel.nrange. rewrite map_map. apply rsplit_tiling_aux; [exact Hb|].
  rewrite N2Nat.id. reflexivity.
Qed.

Theorem tiling_unique : forall e b s p1 p2, Tiling e b s p1 -> Tiling e b s p2 -> p1 = p2.
Proof.
  intros e b s p1 p2 H1. revert p2.
  induction H1 as [s Hs|s Hs Hl|s t Hl Ht IH]; intros p2 H2; inversion H2; subst; try lia; try reflexivity.
  f_equal. apply IH. assumption.
Qed.

Theorem rtiling_unique : forall s b e p1 p2, RTiling s b e p1 -> RTiling s b e p2 -> p1 = p2.
Proof.
  intros s b e p1 p2 H1. revert p2.
  induction H1 as [e He|e He Hl|e t Hl Ht IH]; intros p2 H2; inversion H2; subst; try lia; try reflexivity.
  f_equal. apply IH. assumption.
Qed.

Theorem tiling_count : forall e b s ps, 1 <= b -> Tiling e b s ps -> N.of_nat (length ps) = div_ceil (e - s) b.
Proof.
  intros e b s ps Hb H. induction H as [s Hs|s Hs Hl|s t Hl Ht IH]; cbn [length].
  - replace (e - s) with 0 by lia. rewrite div_ceil_0 by exact Hb. reflexivity.
  - rewrite div_ceil_small by lia. reflexivity.
  - rewrite (div_ceil_step (e - s) b) by lia. replace (e - s - b) with (e - (s + b)) by lia.
    rewrite <- IH. lia.
Qed.

Theorem rtiling_count : forall s b e ps, 1 <= b -> RTiling s b e ps -> N.of_nat (length ps) = div_ceil (e - s) b.
Proof.
  intros s b e ps Hb H. induction H as [e He|e He Hl|e t Hl Ht IH]; cbn [length].
  - replace (e - s) with 0 by lia. rewrite div_ceil_0 by exact Hb. reflexivity.
  - rewrite div_ceil_small by lia. reflexivity.
  - rewrite (div_ceil_step (e - s) b) by lia. replace (e - s - b) with (e - b - s) by lia.
    rewrite <- IH. lia.
Qed.

Theorem tiling_partition : forall e b s ps, 1 <= b -> Tiling e b s ps ->
   (forall x y, In (x, y) ps -> x < y /\ y - x <= b /\ s <= x /\ y <= e) /\
   (forall p, s <= p /\ p < e -> exists x y, In (x, y) ps /\ x <= p /\ p < y) /\
   (forall x1 y1 x2 y2 p, In (x1, y1) ps -> In (x2, y2) ps -> x1 <= p < y1 -> x2 <= p < y2 -> (x1, y1) = (x2, y2)).
Proof.
  intros e b s ps Hb H. induction H as [s Hs|s Hs Hl|s t Hl Ht (IH1 & IH2 & IH3)].
  - split; [|split].
    + intros x y [].
    + intros p Hp. lia.
    + intros x1 y1 x2 y2 p [].
  - split; [|split].
    + intros x y [E|[]]. injection E as <- <-. lia.
    + intros p Hp. exists s, e. split; [left; reflexivity|lia].
    + intros x1 y1 x2 y2 p [E1|[]] [E2|[]] _ _. congruence.
  - split; [|split].
    + intros x y [E|Hin].
      * injection E as <- <-. lia.
      * specialize (IH1 x y Hin). lia.
    + intros p Hp. destruct (N.lt_ge_cases p (s + b)) as [L|L].
      * exists s, (s + b). split; [left; reflexivity|lia].
      * destruct (IH2 p) as (x & y & Hin & Hx); [lia|].
        exists x, y. split; [right; exact Hin|exact Hx].
    + intros x1 y1 x2 y2 p [E1|H1] [E2|H2] P1 P2.
      * congruence.
      * injection E1 as <- <-. specialize (IH1 _ _ H2). lia.
      * injection E2 as <- <-. specialize (IH1 _ _ H1). lia.
      * eapply IH3; eassumption.
Qed.

Theorem rtiling_partition : forall s b e ps, 1 <= b -> RTiling s b e ps ->
   (forall x y, In (x, y) ps -> x < y /\ y - x <= b /\ s <= x /\ y <= e) /\
   (forall p, s <= p /\ p < e -> exists x y, In (x, y) ps /\ x <= p /\ p < y) /\
   (forall x1 y1 x2 y2 p, In (x1, y1) ps -> In (x2, y2) ps -> x1 <= p < y1 -> x2 <= p < y2 -> (x1, y1) = (x2, y2)).
Proof.
  intros s b e ps Hb H. induction H as [e He|e He Hl|e t Hl Ht (IH1 & IH2 & IH3)].
  - split; [|split].
    + intros x y [].
    + intros p Hp. lia.
    + intros x1 y1 x2 y2 p [].
  - split; [|split].
    + intros x y [E|[]]. injection E as <- <-. lia.
    + intros p Hp. exists s, e. split; [left; reflexivity|lia].
    + intros x1 y1 x2 y2 p [E1|[]] [E2|[]] _ _. congruence.
  - split; [|split].
    + intros x y [E|Hin].
      * injection E as <- <-. lia.
      * specialize (IH1 x y Hin). lia.
    + intros p Hp. destruct (N.lt_ge_cases p (e - b)) as [L|L].
      * destruct (IH2 p) as (x & y & Hin & Hx); [lia|].
        exists x, y. split; [right; exact Hin|exact Hx].
      * exists (e - b), e. split; [left; reflexivity|lia].
    + intros x1 y1 x2 y2 p [E1|H1] [E2|H2] P1 P2.
      * congruence.
      * injection E1 as <- <-. specialize (IH1 _ _ H2). lia.
      * injection E2 as <- <-. specialize (IH1 _ _ H1). lia.
      * eapply IH3; eassumption.
Qed.

Theorem split_empty : forall s e b, 1 <= b -> e <= s -> split_by_len s e b = Ok [] /\ (forall W, s < W -> rsplit_by_len W s e b = Ok []).
Proof.
  intros s e b Hb Hes. assert (Z : e - s = 0) by lia. split.
  - unfold split_by_len. destruct (N.eqb_spec b 0); [lia|].
    rewrite Z, div_ceil_0 by lia. reflexivity.
  - intros W HW. unfold rsplit_by_len. destruct (N.eqb_spec b 0); [lia|].
    destruct (N.leb_spec W s); [lia|].
    rewrite Z, div_ceil_0 by lia. reflexivity.
Qed.

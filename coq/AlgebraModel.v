(* AlgebraModel.v — Gallina transliteration of src/bed/bed_trait.rs: BEDLike::{len, compare, overlap,
   n_overlap, split_by_len, rsplit_by_len}, MergeBed / merge_sorted_bed(_with), merge_sorted_bedgraph.
   A record is (chrom bytes, start, end, payload); the payload is an id (C07) or a bedGraph value (C08). *)
From BedV Require Import Base.

Definition bytes := list N.
Record brec := mkB { b_chr : bytes; b_st : N; b_en : N; b_val : Z }.

(* str / String comparison = byte-lexicographic *)
Fixpoint bytes_cmp (a b : bytes) : comparison :=
  match a, b with
  | [], [] => Eq
  | [], _ :: _ => Lt
  | _ :: _, [] => Gt
  | x :: a', y :: b' => match x ?= y with Eq => bytes_cmp a' b' | c => c end
  end.
Definition bytes_eqb (a b : bytes) : bool := match bytes_cmp a b with Eq => true | _ => false end.

(* Ordering::then *)
Definition cmp_then (c d : comparison) : comparison := match c with Eq => d | _ => c end.

(* BEDLike::len : end.saturating_sub(start) *)
Definition blen (r : brec) : N := b_en r - b_st r.
(* BEDLike::compare *)
Definition bcompare (a b : brec) : comparison :=
  cmp_then (bytes_cmp (b_chr a) (b_chr b)) (cmp_then (b_st a ?= b_st b) (b_en a ?= b_en b)).
(* BEDLike::overlap : Option<GenomicRange> as (chrom, start, end) *)
Definition boverlap (a b : brec) : option (bytes * N * N) :=
  if negb (bytes_eqb (b_chr a) (b_chr b)) then None else
  let s := N.max (b_st a) (b_st b) in
  let e := N.min (b_en a) (b_en b) in
  if e <=? s then None else Some (b_chr a, s, e).
Definition bn_overlap (a b : brec) : N :=
  match boverlap a b with Some (_, s, e) => e - s | None => 0 end.

(* BEDLike setters and conversions *)
Definition bset_chrom (r : brec) (c : bytes) : brec := mkB c (b_st r) (b_en r) (b_val r).
Definition bset_start (r : brec) (s : N) : brec := mkB (b_chr r) s (b_en r) (b_val r).
Definition bset_end (r : brec) (e : N) : brec := mkB (b_chr r) (b_st r) e (b_val r).
Definition to_genomic_range (r : brec) : bytes * N * N := (b_chr r, b_st r, b_en r).

Definition nrange (n : N) : list N := map N.of_nat (seq 0 (N.to_nat n)).
Definition div_ceil (a b : N) : N := if a mod b =? 0 then a / b else a / b + 1.

(* split_by_len (repaired: saturating_add): (start..end).step_by(bin).map(|x| (x, min(x + bin, end)));
   step_by(0) panics *)
Definition split_by_len (s e b : N) : res (list (N * N)) :=
  if b =? 0 then Panic else
  Ok (map (fun k => (s + k * b, N.min (s + k * b + b) e)) (nrange (div_ceil (e - s) b))).
(* rsplit_by_len as in the source: (start+1..=end).rev().step_by(bin).map(|x| (max(x -sat bin, start), x));
   start + 1 is a raw addition: Panic when start = W (type maximum) *)
Definition rsplit_by_len (W s e b : N) : res (list (N * N)) :=
  if b =? 0 then Panic else
  if W <=? s then Panic else
  Ok (map (fun k => (N.max (e - k * b - b) s, e - k * b)) (nrange (div_ceil (e - s) b))).

(* the first k pieces only (what `.take(k)` delivers): the iterators are lazy, so a record with astronomically many
   pieces still hands out its first ones; same closed form, restricted to the first min(k, #pieces) indices *)
Definition split_head (s e b k : N) : res (list (N * N)) :=
  if b =? 0 then Panic else
  Ok (map (fun i => (s + i * b, N.min (s + i * b + b) e)) (nrange (N.min k (div_ceil (e - s) b)))).
Definition rsplit_head (W s e b k : N) : res (list (N * N)) :=
  if b =? 0 then Panic else
  if W <=? s then Panic else
  Ok (map (fun i => (N.max (e - i * b - b) s, e - i * b)) (nrange (N.min k (div_ceil (e - s) b)))).

(* ---- MergeBed::next folded over the whole input: groups in order; Panic on unsorted input ---- *)
Fixpoint merge_loop (chr : bytes) (s e : N) (acc : list brec) (l : list brec) : res (list (list brec)) :=
  match l with
  | [] => Ok [rev acc]
  | r :: t =>
    if negb (bytes_eqb chr (b_chr r)) || (e <? b_st r) then
      do rest <- merge_loop (b_chr r) (b_st r) (b_en r) [r] t; Ok (rev acc :: rest)
    else if b_st r <? s then Panic
    else if e <? b_en r then merge_loop chr s (b_en r) (r :: acc) t
    else merge_loop chr s e (r :: acc) t
  end.
Definition merge_groups (l : list brec) : res (list (list brec)) :=
  match l with
  | [] => Ok []
  | r :: t => merge_loop (b_chr r) (b_st r) (b_en r) [r] t
  end.
Definition list_min (d : N) (l : list N) : N := fold_left N.min l d.
Definition list_max (d : N) (l : list N) : N := fold_left N.max l d.
(* merge_sorted_bed: one range per group *)
Definition group_range (g : list brec) : res (bytes * N * N) :=
  match g with
  | [] => Panic                      (* x[0] on an empty group; groups are never empty *)
  | r :: t => Ok (b_chr r, list_min (b_st r) (map b_st t), list_max (b_en r) (map b_en t))
  end.
Fixpoint mapM {A B} (f : A -> res B) (l : list A) : res (list B) :=
  match l with [] => Ok [] | x :: t => do y <- f x; do r <- mapM f t; Ok (y :: r) end.
Definition merge_sorted_bed (l : list brec) : res (list (bytes * N * N)) :=
  do gs <- merge_groups l; mapM group_range gs.

(* ---- merge_sorted_bedgraph (repaired: breakpoints grouped by position only) ---- *)
Definition pt_ltb (a b : N * Z) : bool := fst a <? fst b.
(* chunk_by position with summed values; input sorted by position *)
Fixpoint group_pts (l : list (N * Z)) : list (N * Z) :=
  match l with
  | [] => []
  | (p, v) :: t =>
    match group_pts t with
    | (q, w) :: r => if p =? q then (p, (v + w)%Z) :: r else (p, v) :: (q, w) :: r
    | [] => [(p, v)]
    end
  end.
(* the sweep: state prev_pos, acc_val, prev_bedgraph (s, e, v); emits finished records *)
Fixpoint bg_sweep (pts : list (N * Z)) (prev_pos : N) (acc : Z) (ps pe : N) (pv : Z) : list (N * N * Z) :=
  match pts with
  | [] => [(ps, pe, pv)]
  | (pos, vs) :: t =>
    if prev_pos =? pos then bg_sweep t pos (acc + vs)%Z ps pe pv
    else if (acc =? pv)%Z then bg_sweep t pos (acc + vs)%Z ps pos pv
    else (ps, pe, pv) :: bg_sweep t pos (acc + vs)%Z prev_pos pos acc
  end.
Definition bg_group (g : list brec) : res (list brec) :=
  match g with
  | [] => Panic
  | r0 :: _ =>
    let pts := group_pts (isort pt_ltb (flat_map (fun r => [(b_st r, b_val r); (b_en r, Z.opp (b_val r))]) g)) in
    match pts with
    | [] => Panic                                   (* point_groups.next().unwrap() *)
    | (p0, v0) :: t => Ok (map (fun x => mkB (b_chr r0) (fst (fst x)) (snd (fst x)) (snd x)) (bg_sweep t p0 v0 p0 p0 v0))
    end
  end.
Definition merge_sorted_bedgraph (l : list brec) : res (list brec) :=
  do gs <- merge_groups l; do outs <- mapM bg_group gs; Ok (concat outs).

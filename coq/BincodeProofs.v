(* BincodeProofs.v — decode (encode x ++ rest) = (x, rest) for the wire format of BincodeModel.v:
   every field codec and every record type of the crate, and the whole-value corollaries (de_all).
   Stdlib only.  No axioms. *)
From BedV Require Import Base AlgebraModel TextModel ExtSortModel ChunkProofs BincodeModel.
Require Import ZifyN ZifyNat.
Local Ltac Zify.zify_post_hook ::= Z.div_mod_to_equations.

(* ---------- well-formedness of the values that are serialized ---------- *)
Definition wf_len (s : bytes) : Prop := N.of_nat (length s) <= U64MAX.
Definition wf_f (b : N) : Prop := b < 2 ^ 64.
Definition wf_bedw (r : bed) : Prop :=
  wf_len (bd_chr r) /\ bd_st r <= U64MAX /\ bd_en r <= U64MAX /\
  (match bd_name r with Some n => wf_len n | None => True end) /\ (match bd_score r with Some v => v <= 65535 | None => True end).
Definition wf_optf (o : option N) : Prop := match o with Some b => wf_f b | None => True end.

Lemma pow2_64 : 2 ^ 64 = 18446744073709551616.
Proof. reflexivity. Qed.

Lemma u64max_lt : forall u, u <= U64MAX <-> u < 2 ^ 64.
Proof. intros u. rewrite pow2_64. unfold U64MAX. lia. Qed.

(* ---------- sequencing ---------- *)
Lemma dbind_ok : forall A B (d : dec A) (k : A -> dec B) s a r,
  d s = Some (a, r) -> dbind d k s = k a r.
Proof. intros A B d k s a r H. unfold dbind. rewrite H. reflexivity. Qed.

(* ---------- integers ---------- *)
Theorem varint_roundtrip : forall u r, u <= U64MAX -> de_varint (varint u ++ r) = Some (u, r).
Proof. intros u r Hu. apply de_varint_varint. apply u64max_lt. exact Hu. Qed.

Theorem de_u_ser : forall max u r, u <= max -> max <= U64MAX -> de_u max (ser_u u ++ r) = Some (u, r).
Proof.
  intros max u r Hu Hm. unfold de_u, ser_u.
  rewrite varint_roundtrip by (eapply N.le_trans; eassumption).
  apply N.leb_le in Hu. rewrite Hu. reflexivity.
Qed.

Theorem zigzag_roundtrip : forall z, (-9223372036854775808 <= z <= 9223372036854775807)%Z ->
  unzigzag (zigzag z) = z /\ zigzag z <= U64MAX.
Proof.
  intros z Hz. unfold unzigzag, U64MAX.
  destruct z as [|p|p]; unfold zigzag.
  - split; [|cbn; lia]. change (2 * Z.to_N 0) with 0. reflexivity.
  - remember (Z.to_N (Z.pos p)) as n eqn:En.
    assert (Hn : Z.of_N n = Z.pos p) by (subst n; apply Z2N.id; lia).
    rewrite <- Hn in *. clear En Hn p.
    split; [|lia].
    destruct (N.eqb_spec ((2 * n) mod 2) 0) as [E|E]; lia.
  - remember (N.pos p) as n eqn:En.
    assert (Hn : Z.neg p = (- Z.of_N n)%Z) by (subst n; reflexivity).
    assert (Hp : 1 <= n) by (subst n; lia).
    rewrite Hn in *. clear En Hn p.
    split; [|lia].
    destruct (N.eqb_spec ((2 * n - 1) mod 2) 0) as [E|E]; lia.
Qed.

Theorem de_i_ser : forall z r, (-9223372036854775808 <= z <= 9223372036854775807)%Z ->
  de_i (ser_i z ++ r) = Some (z, r).
Proof.
  intros z r Hz. destruct (zigzag_roundtrip z Hz) as [Hu Hm].
  unfold de_i, ser_i. change (varint (zigzag z)) with (ser_u (zigzag z)).
  erewrite dbind_ok by (apply de_u_ser; [exact Hm | apply N.le_refl]).
  unfold dret. rewrite Hu. reflexivity.
Qed.

(* ---------- f64 ---------- *)
Theorem de_f_ser : forall b r, wf_f b -> de_f (ser_f b ++ r) = Some (b, r).
Proof.
  intros b r Hb. unfold de_f, ser_f.
  rewrite firstn_le_bytes_app, skipn_le_bytes_app.
  rewrite le_val_le_bytes by exact Hb.
  destruct (Nat.ltb_spec (length (le_bytes 8 b ++ r)) 8) as [H|H]; [|reflexivity].
  rewrite app_length, le_bytes_length in H. lia.
Qed.

(* ---------- strings, options, strand, Vec<String> ---------- *)
Theorem de_str_ser : forall s r, wf_len s -> de_str (ser_str s ++ r) = Some (s, r).
Proof.
  intros s r Hs. unfold de_str, ser_str. rewrite <- app_assoc.
  rewrite varint_roundtrip by exact Hs.
  rewrite Nat2N.id, firstn_length_app, skipn_length_app.
  destruct (N.ltb_spec (N.of_nat (length (s ++ r))) (N.of_nat (length s))) as [H|H]; [|reflexivity].
  rewrite app_length in H. lia.
Qed.

Theorem de_opt_ser : forall A (f : A -> bytes) (d : dec A) o r,
  (forall x r', o = Some x -> d (f x ++ r') = Some (x, r')) -> de_opt d (ser_opt f o ++ r) = Some (o, r).
Proof.
  intros A f d [x|] r H.
  - change (ser_opt f (Some x) ++ r) with (1 :: (f x ++ r)).
    change (de_opt d (1 :: (f x ++ r)))
      with (match d (f x ++ r) with Some (x, r') => Some (Some x, r') | None => None end).
    rewrite (H x r eq_refl). reflexivity.
  - reflexivity.
Qed.

Theorem de_strand_ser : forall s r, de_strand (ser_strand s ++ r) = Some (s, r).
Proof. intros [|] r; reflexivity. Qed.

Lemma ser_str_length_pos : forall s, (1 <= length (ser_str s))%nat.
Proof. intros s. unfold ser_str. rewrite app_length. pose proof (varint_length_pos (N.of_nat (length s))). lia. Qed.

Lemma concat_ser_str_length : forall l, (length l <= length (concat (map ser_str l)))%nat.
Proof.
  induction l as [|x l IH]; [apply Nat.le_refl|].
  cbn [map concat length]. rewrite app_length. pose proof (ser_str_length_pos x). lia.
Qed.

Lemma de_strs_n_ser : forall l r, Forall wf_len l ->
  de_strs_n (length l) (concat (map ser_str l) ++ r) = Some (l, r).
Proof.
  induction l as [|x l IH]; intros r Hl.
  - reflexivity.
  - inversion Hl as [|? ? Hx Hl']; subst.
    cbn [length de_strs_n map concat]. rewrite <- app_assoc.
    erewrite dbind_ok by (apply de_str_ser; exact Hx). cbn beta.
    erewrite dbind_ok by (apply IH; exact Hl'). reflexivity.
Qed.

Theorem de_strs_ser : forall l r, Forall wf_len l -> N.of_nat (length l) <= U64MAX ->
  de_strs (ser_strs l ++ r) = Some (l, r).
Proof.
  intros l r Hl Hn. unfold de_strs, ser_strs. rewrite <- app_assoc.
  rewrite varint_roundtrip by exact Hn.
  rewrite Nat2N.id, de_strs_n_ser by exact Hl.
  destruct (N.ltb_spec (N.of_nat (length (concat (map ser_str l) ++ r))) (N.of_nat (length l))) as [H|H]; [|reflexivity].
  rewrite app_length in H. pose proof (concat_ser_str_length l). lia.
Qed.

(* ---------- the record types ---------- *)
Local Ltac field_u H := apply de_u_ser; [exact H | apply N.le_refl].

Theorem de_grange_ser : forall c s e r, wf_len c -> s <= U64MAX -> e <= U64MAX ->
  de_grange (ser_grange (c, s, e) ++ r) = Some ((c, s, e), r).
Proof.
  intros c s e r Hc Hs He. unfold de_grange, ser_grange. cbn [fst snd].
  rewrite <- !app_assoc.
  erewrite dbind_ok by (apply de_str_ser; exact Hc). cbn beta.
  erewrite dbind_ok by (field_u Hs). cbn beta.
  erewrite dbind_ok by (field_u He). reflexivity.
Qed.

Theorem de_bed6_ser : forall b r, wf_bedw b -> de_bed6 (ser_bed6 b ++ r) = Some (b, r).
Proof.
  intros b r (Hc & Hs & He & Hn & Hsc). unfold de_bed6, ser_bed6.
  rewrite <- !app_assoc.
  erewrite dbind_ok by (apply de_str_ser; exact Hc). cbn beta.
  erewrite dbind_ok by (field_u Hs). cbn beta.
  erewrite dbind_ok by (field_u He). cbn beta.
  erewrite dbind_ok
    by (apply de_opt_ser; intros x r' E; apply de_str_ser; rewrite E in Hn; exact Hn). cbn beta.
  erewrite dbind_ok
    by (apply de_opt_ser; intros x r' E; apply de_u_ser; [rewrite E in Hsc; exact Hsc | unfold U64MAX; lia]). cbn beta.
  erewrite dbind_ok by (apply de_opt_ser; intros x r' E; apply de_strand_ser).
  destruct b; reflexivity.
Qed.

Lemma ser_bedrec_eq : forall b o, ser_bedrec b o = ser_bed6 b ++ ser_strs o.
Proof. intros b o. unfold ser_bedrec, ser_bed6. rewrite <- !app_assoc. reflexivity. Qed.

Theorem de_bedrec_ser : forall b o r, wf_bedw b -> Forall wf_len o -> N.of_nat (length o) <= U64MAX ->
  de_bedrec (ser_bedrec b o ++ r) = Some ((b, o), r).
Proof.
  intros b o r Hb Ho Hn. rewrite ser_bedrec_eq. unfold de_bedrec. rewrite <- app_assoc.
  erewrite dbind_ok by (apply de_bed6_ser; exact Hb). cbn beta.
  erewrite dbind_ok by (apply de_strs_ser; [exact Ho | exact Hn]). reflexivity.
Qed.

Local Ltac field_optf H := apply de_opt_ser; intros ? ? E; apply de_f_ser; rewrite E in H; exact H.

Theorem de_npeak_ser : forall x r, wf_bedw (np_bed x) -> wf_f (np_signal x) -> wf_optf (np_p x) -> wf_optf (np_q x) ->
  np_peak x <= U64MAX -> de_npeak (ser_npeak x ++ r) = Some (x, r).
Proof.
  intros x r Hb Hs Hp Hq Hk. unfold de_npeak, ser_npeak.
  rewrite <- !app_assoc.
  erewrite dbind_ok by (apply de_bed6_ser; exact Hb). cbn beta.
  erewrite dbind_ok by (apply de_f_ser; exact Hs). cbn beta.
  erewrite dbind_ok by (field_optf Hp). cbn beta.
  erewrite dbind_ok by (field_optf Hq). cbn beta.
  erewrite dbind_ok by (field_u Hk).
  destruct x; reflexivity.
Qed.

Theorem de_bpeak_ser : forall x r, wf_bedw (bp_bed x) -> wf_f (bp_signal x) -> wf_optf (bp_p x) -> wf_optf (bp_q x) ->
  de_bpeak (ser_bpeak x ++ r) = Some (x, r).
Proof.
  intros x r Hb Hs Hp Hq. unfold de_bpeak, ser_bpeak.
  rewrite <- !app_assoc.
  erewrite dbind_ok by (apply de_bed6_ser; exact Hb). cbn beta.
  erewrite dbind_ok by (apply de_f_ser; exact Hs). cbn beta.
  erewrite dbind_ok by (field_optf Hp). cbn beta.
  erewrite dbind_ok by (field_optf Hq).
  destruct x; reflexivity.
Qed.

Theorem de_bgraph_ser : forall x r, wf_len (bg_chr x) -> bg_st x <= U64MAX -> bg_en x <= U64MAX ->
  (match bg_val x with VInt z => (-9223372036854775808 <= z <= 9223372036854775807)%Z | VFloat b => wf_f b end) ->
  de_bgraph (match bg_val x with VInt _ => false | VFloat _ => true end) (ser_bgraph x ++ r) = Some (x, r).
Proof.
  intros [c s e v] r. cbn [bg_chr bg_st bg_en bg_val]. intros Hc Hs He Hv.
  unfold ser_bgraph. cbn [bg_chr bg_st bg_en bg_val].
  destruct v as [z|b]; unfold de_bgraph; rewrite <- !app_assoc.
  - erewrite dbind_ok by (apply de_str_ser; exact Hc). cbn beta.
    erewrite dbind_ok by (field_u Hs). cbn beta.
    erewrite dbind_ok by (field_u He). cbn beta iota.
    erewrite dbind_ok by (apply de_i_ser; exact Hv). reflexivity.
  - erewrite dbind_ok by (apply de_str_ser; exact Hc). cbn beta.
    erewrite dbind_ok by (field_u Hs). cbn beta.
    erewrite dbind_ok by (field_u He). cbn beta iota.
    erewrite dbind_ok by (apply de_f_ser; exact Hv). reflexivity.
Qed.

(* ---------- whole values: no trailing bytes ---------- *)
Lemma de_all_of_ser : forall A (d : dec A) s x, d (s ++ []) = Some (x, []) -> de_all d s = Some x.
Proof. intros A d s x H. rewrite app_nil_r in H. unfold de_all. rewrite H. reflexivity. Qed.

Theorem de_all_grange : forall c s e, wf_len c -> s <= U64MAX -> e <= U64MAX ->
  de_all de_grange (ser_grange (c, s, e)) = Some (c, s, e).
Proof. intros. apply de_all_of_ser, de_grange_ser; assumption. Qed.

Theorem de_all_bedrec : forall b o, wf_bedw b -> Forall wf_len o -> N.of_nat (length o) <= U64MAX ->
  de_all de_bedrec (ser_bedrec b o) = Some (b, o).
Proof. intros. apply de_all_of_ser, de_bedrec_ser; assumption. Qed.

Theorem de_all_npeak : forall x, wf_bedw (np_bed x) -> wf_f (np_signal x) -> wf_optf (np_p x) -> wf_optf (np_q x) ->
  np_peak x <= U64MAX -> de_all de_npeak (ser_npeak x) = Some x.
Proof. intros. apply de_all_of_ser, de_npeak_ser; assumption. Qed.

Theorem de_all_bpeak : forall x, wf_bedw (bp_bed x) -> wf_f (bp_signal x) -> wf_optf (bp_p x) -> wf_optf (bp_q x) ->
  de_all de_bpeak (ser_bpeak x) = Some x.
Proof. intros. apply de_all_of_ser, de_bpeak_ser; assumption. Qed.

Theorem de_all_bgraph : forall x, wf_len (bg_chr x) -> bg_st x <= U64MAX -> bg_en x <= U64MAX ->
  (match bg_val x with VInt z => (-9223372036854775808 <= z <= 9223372036854775807)%Z | VFloat b => wf_f b end) ->
  de_all (de_bgraph (match bg_val x with VInt _ => false | VFloat _ => true end)) (ser_bgraph x) = Some x.
Proof. intros. apply de_all_of_ser, de_bgraph_ser; assumption. Qed.

Theorem records_roundtrip :
  (forall c s e, wf_len c -> s <= U64MAX -> e <= U64MAX ->
     de_all de_grange (ser_grange (c, s, e)) = Some (c, s, e)) /\
  (forall b o, wf_bedw b -> Forall wf_len o -> N.of_nat (length o) <= U64MAX ->
     de_all de_bedrec (ser_bedrec b o) = Some (b, o)) /\
  (forall x, wf_bedw (np_bed x) -> wf_f (np_signal x) -> wf_optf (np_p x) -> wf_optf (np_q x) ->
     np_peak x <= U64MAX -> de_all de_npeak (ser_npeak x) = Some x) /\
  (forall x, wf_bedw (bp_bed x) -> wf_f (bp_signal x) -> wf_optf (bp_p x) -> wf_optf (bp_q x) ->
     de_all de_bpeak (ser_bpeak x) = Some x) /\
  (forall x, wf_len (bg_chr x) -> bg_st x <= U64MAX -> bg_en x <= U64MAX ->
     (match bg_val x with VInt z => (-9223372036854775808 <= z <= 9223372036854775807)%Z | VFloat b => wf_f b end) ->
     de_all (de_bgraph (match bg_val x with VInt _ => false | VFloat _ => true end)) (ser_bgraph x) = Some x).
Proof.
  split; [exact de_all_grange|]. split; [exact de_all_bedrec|]. split; [exact de_all_npeak|].
  split; [exact de_all_bpeak | exact de_all_bgraph].
Qed.

From BedV Require Import Base AlgebraModel ExtSortModel ChunkProofs BufModel BufProofs CutProofs.

(* the outcome oracle accepts what the model itself does, for every write plan and every read plan: the exact
   comparison and the oracle can never disagree on an implementation that behaves like the model *)
Theorem chunk_oracle_accepts_model : forall items wplan rplan st' e,
  Forall blob_ok items -> dump (mkW [] wplan) items = (st', e) ->
  chunk_oracle items (match e with None => true | Some _ => false end)
               (match e with None => chunk_read (w_stored st') rplan | Some _ => [] end)
               (existsb (fun o => match o with RErr => true | _ => false end) rplan) = true.
Proof.
  intros items wplan rplan st' e Hok Hd.
  apply chunk_oracle_spec.
  destruct e as [err|]; [left; reflexivity|].
  destruct (end_to_end_le items wplan rplan st' None Hok Hd) as [H|[H|(j & Hj & Hr & Hin)]].
  - exfalso. apply H. reflexivity.
  - right. left. exact H.
  - right. right. split.
    + apply existsb_exists. exists RErr. split; [exact Hin|reflexivity].
    + exists j. split; [exact Hj|exact Hr].
Qed.

(* ... and on storage that lost its tail (counted as a hard fault by the check) *)
Theorem chunk_oracle_accepts_truncated : forall items n,
  Forall blob_ok items -> (n <= length (frames items))%nat ->
  chunk_oracle items true (chunk_read (firstn n (frames items)) []) true = true
  \/ exists j, (j < length items)%nat /\ chunk_read (firstn n (frames items)) [] = map CItem (firstn j items).
Proof.
  intros items n Hok Hn.
  destruct (read_truncated items n Hok Hn) as (j & Hj & _ & _ & [(_ & Hr)|(_ & Hr)]).
  - destruct (Nat.eq_dec j (length items)) as [->|Hne].
    + left. apply chunk_oracle_spec. right. left. rewrite Hr, firstn_all. reflexivity.
    + right. exists j. split; [lia|exact Hr].
  - left. apply chunk_oracle_spec. right. right. split; [reflexivity|]. exists j. split; [exact Hj|exact Hr].
Qed.

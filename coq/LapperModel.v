(* LapperModel.v — Gallina transliteration of src/intervaltree.rs (Lapper<I,T> for an
   unsigned coordinate type I of maximum value W; T is an opaque payload, here N).
   Loops are structural recursion or recursion on explicit fuel; every slice index is
   [idx] (Panic when out of range); arithmetic that Rust checks in debug builds is
   checked against W where the model says so.  No proofs in this file. *)
From BedV Require Import Base.

Record iv := mkiv { st : N; en : N; vl : N }.

(* Interval::overlap(&self, start, stop) *)
Definition ovl (qs qe : N) (i : iv) : bool := (st i <? qe) && (qs <? en i).

(* Ord for Interval: by start, then stop (val ignored) *)
Definition key_ltb (a b : iv) : bool := (st a <? st b) || ((st a =? st b) && (en a <? en b)).
Definition key_leb (a b : iv) : bool := (st a <? st b) || ((st a =? st b) && (en a <=? en b)).
Definition key_eqb (a b : iv) : bool := (st a =? st b) && (en a =? en b).

Definition ilen (i : iv) : N := en i - st i.          (* checked_sub(..).unwrap_or(0) *)

Record lapper := mkL {
  ivs : list iv; starts : list N; stops : list N;
  max_len : N; cov_c : option N; merged : bool }.

Definition max_ilen (l : list iv) : N := fold_left (fun m i => if m <? ilen i then ilen i else m) l 0.

(* Lapper::new *)
Definition lnew (l : list iv) : lapper :=
  let s := isort key_ltb l in
  mkL s (isort N.ltb (map st s)) (isort N.ltb (map en s)) (max_ilen s) None false.

(* Lapper::lower_bound(start, intervals): the (size, low) loop. fuel >= log2 len + 1 suffices;
   callers pass S (length l).  Out of fuel is Panic (excluded by the theorems). *)
Fixpoint lb_loop {A} (p : A -> bool) (l : list A) (fuel size low : nat) : res nat :=
  if Nat.eqb size 0 then Ok low else
  match fuel with
  | O => Panic
  | S f =>
    let half := Nat.div2 size in
    let other_half := (size - half)%nat in
    let probe := (low + half)%nat in
    let other_low := (low + other_half)%nat in
    do v <- idx l probe;
    lb_loop p l f half (if p v then other_low else low)
  end.
Definition lower_bound (x : N) (l : list iv) : res nat :=
  lb_loop (fun v => st v <? x) l (S (length l)) (length l) 0%nat.

(* Lapper::bsearch_seq_ref(key, elems) with [lt v] = elems[i] < key and
   [guard v] = the first-element test (>= key in the repaired code, > key originally). *)
Fixpoint bs_loop {A} (lt : A -> bool) (l : list A) (fuel low high : nat) : res nat :=
  if Nat.leb (high - low) 1 then Ok high else
  match fuel with
  | O => Panic
  | S f =>
    let mid := Nat.div2 (high + low) in
    do v <- idx l mid;
    if lt v then bs_loop lt l f mid high else bs_loop lt l f low mid
  end.
Definition bsearch_gen {A} (guard lt : A -> bool) (l : list A) : res nat :=
  match l with
  | [] => Ok 0%nat
  | e0 :: _ => if guard e0 then Ok 0%nat else bs_loop lt l (S (length l)) 0%nat (length l)
  end.
(* repaired code: elems[0] >= key *)
Definition bsearch_N (key : N) (l : list N) : res nat :=
  bsearch_gen (fun v => key <=? v) (fun v => v <? key) l.
Definition bsearch_iv (key : iv) (l : list iv) : res nat :=
  bsearch_gen (fun v => key_leb key v) (fun v => key_ltb v key) l.
(* the code as found at the pinned commit: elems[0] > key (finding F1) *)
Definition bsearch_N_orig (key : N) (l : list N) : res nat :=
  bsearch_gen (fun v => key <? v) (fun v => v <? key) l.

(* Lapper::insert *)
Definition linsert (L : lapper) (e : iv) : res lapper :=
  do si <- bsearch_N (st e) (starts L);
  do ei <- bsearch_N (en e) (stops L);
  do ii <- bsearch_iv e (ivs L);
  let ml := if max_len L <? ilen e then ilen e else max_len L in
  do s' <- vec_insert si (st e) (starts L);
  do e' <- vec_insert ei (en e) (stops L);
  do i' <- vec_insert ii e (ivs L);
  Ok (mkL i' s' e' ml None false).

(* IterFind: the scan from offset [off]; structural on the suffix *)
Fixpoint scan (qs qe : N) (l : list iv) : list iv :=
  match l with
  | [] => []
  | i :: t => if ovl qs qe i then i :: scan qs qe t
              else if qe <=? st i then [] else scan qs qe t
  end.

(* Lapper::find *)
Definition lfind (L : lapper) (qs qe : N) : res (list iv) :=
  do off <- lower_bound (qs - max_len L) (ivs L);
  Ok (scan qs qe (skipn off (ivs L))).

(* Lapper::seek: returns the hits and the new cursor *)
Fixpoint seek_adv (l : list iv) (bound : N) (fuel c : nat) : res nat :=
  match fuel with
  | O => Panic
  | S f =>
    if Nat.ltb (c + 1) (length l) then
      do v <- idx l (c + 1);
      if st v <? bound then seek_adv l bound f (c + 1)%nat else Ok c
    else Ok c
  end.
Definition lseek (L : lapper) (qs qe : N) (c : nat) : res (list iv * nat) :=
  do reseed <- (if Nat.eqb c 0 then Ok true
                else if Nat.ltb c (length (ivs L)) then do v <- idx (ivs L) c; Ok (qs <? st v)
                else Ok false);
  do c1 <- (if reseed : bool then lower_bound (qs - max_len L) (ivs L) else Ok c);
  do c2 <- seek_adv (ivs L) (qs - max_len L) (S (length (ivs L))) c1;
  Ok (scan qs qe (skipn c2 (ivs L)), c2).

(* Lapper::count.  [bs] is the binary search used (repaired or original). *)
Fixpoint skip_eq (l : list N) (x : N) (fuel first : nat) : nat :=
  match fuel with
  | O => first
  | S f => match nth_error l first with
           | Some v => if v =? x then skip_eq l x f (S first) else first
           | None => first
           end
  end.
Definition lcount_gen (bs : N -> list N -> res nat) (L : lapper) (qs qe : N) : res nat :=
  let len := length (ivs L) in
  do first0 <- bs qs (stops L);
  do last <- bs qe (starts L);
  let first := skip_eq (stops L) qs (S len) first0 in
  (* usize subtractions: len - last, len - first - num_cant_after *)
  if Nat.ltb len last then Panic else
  let nca := (len - last)%nat in
  if Nat.ltb len first then Panic else
  if Nat.ltb (len - first) nca then Panic else
  Ok (len - first - nca)%nat.
Definition lcount := lcount_gen bsearch_N.
Definition lcount_orig := lcount_gen bsearch_N_orig.

(* Lapper::merge_overlaps: the stack pass; [acc] is the stack, top first *)
Fixpoint merge_pass (acc : list iv) (l : list iv) : list iv :=
  match l with
  | [] => rev acc
  | i :: t =>
    match acc with
    | [] => merge_pass [i] t
    | top :: rest =>
      if en top <? st i then merge_pass (i :: acc) t
      else if en top <? en i then merge_pass (mkiv (st top) (en i) (vl top) :: rest) t
      else merge_pass acc t
    end
  end.
Definition lmerge (L : lapper) : lapper :=
  let m := merge_pass [] (ivs L) in
  mkL m (isort N.ltb (map st m)) (isort N.ltb (map en m)) (max_ilen m) (cov_c L)
      (match ivs L with [] => merged L | _ => true end).

(* Lapper::calculate_coverage: moving interval (ms, me) and accumulated cov *)
Fixpoint cov_loop (l : list iv) (ms me cov : N) : N :=
  match l with
  | [] => cov + (me - ms)
  | i :: t =>
    if (ms <? en i) && (st i <? me)
    then cov_loop t (N.min ms (st i)) (N.max me (en i)) cov
    else cov_loop t (st i) (en i) (cov + (me - ms))
  end.
Definition cov_calc (l : list iv) : N := cov_loop l 0 0 0.
Definition lcov (L : lapper) : N := match cov_c L with Some c => c | None => cov_calc (ivs L) end.
Definition lset_cov (L : lapper) : lapper :=
  mkL (ivs L) (starts L) (stops L) (max_len L) (Some (cov_calc (ivs L))) (merged L).

(* Lapper::is_empty / len; PartialEq and Ord of Interval (val ignored) *)
Definition lis_empty (L : lapper) : bool := match ivs L with [] => true | _ => false end.
Definition llen (L : lapper) : nat := length (ivs L).
Definition iv_eq (a b : iv) : bool := key_eqb a b.
Definition iv_cmp (a b : iv) : comparison := if key_ltb a b then Lt else if key_eqb a b then Eq else Gt.

(* histories *)
Inductive lop := Insert (i : iv) | Merge | SetCov.
Definition lstep (r : res lapper) (o : lop) : res lapper :=
  do L <- r;
  match o with
  | Insert i => linsert L i
  | Merge => Ok (lmerge L)
  | SetCov => Ok (lset_cov L)
  end.
Definition lrun (l : list iv) (h : list lop) : res lapper := fold_left lstep h (Ok (lnew l)).

(* Lapper::union_and_intersect *)
Fixpoint ui_pairs (B : lapper) (la : list iv) (c : nat) : res (list (iv * iv)) :=
  match la with
  | [] => Ok []
  | a :: t =>
    do hc <- lseek B (st a) (en a) c;
    let '(hits, c') := hc in
    do rest <- ui_pairs B t c';
    Ok (map (fun b => (a, b)) hits ++ rest)
  end.
Definition iv_intersect (a b : iv) : N := N.min (en a) (en b) - N.max (st a) (st b).
(* [self.cov() + other.cov()] is a raw addition in the coordinate type: Panic above W *)
Definition lunion_intersect (W : N) (A B : lapper) : res (N * N) :=
  do ps <- ui_pairs B (ivs A) 0%nat;
  if W <? lcov A + lcov B then Panic else
  if negb (merged A) || negb (merged B) then
    let inter := map (fun p => mkiv (N.max (st (fst p)) (st (snd p))) (N.min (en (fst p)) (en (snd p))) 1) ps in
    let T := lset_cov (lmerge (lnew inter)) in
    Ok (lcov A + lcov B - lcov T, lcov T)
  else
    let i := fold_left (fun acc p => acc + iv_intersect (fst p) (snd p)) ps 0 in
    Ok (lcov A + lcov B - i, i).

(* Lapper::depth / IterDepth.  W is the maximum of the coordinate type: [p + 1] panics when
   p = W (debug build).  State: merged list, curr_merged_pos, curr_pos, cursor. *)
Record dstate := mkD { d_merged : list iv; d_cmp : N; d_pos : nat; d_cur : nat }.
Definition depth_init (L : lapper) : dstate :=
  let m := lmerge (lnew (map (fun i => mkiv (st i) (en i) 1) (ivs L))) in
  mkD (ivs m) 0 0%nat 0%nat.
Definition add1 (W p : N) : res N := if p <? W then Ok (p + 1) else Panic.
Definition depth_at (W : N) (L : lapper) (p : N) (c : nat) : res (nat * nat) :=
  do p1 <- add1 W p;
  do hc <- lseek L p p1 c;
  Ok (length (fst hc), snd hc).
(* the inner while loop (repaired form: no look-ahead at interval.stop);
   fuel = N.to_nat (stop - pos) *)
Fixpoint depth_inner (W : N) (L : lapper) (stop : N) (d : nat) (fuel : nat) (p : N) (c : nat)
  : res (N * nat) :=
  match fuel with
  | O => Ok (p, c)
  | S f =>
    if p <? stop then
      do p' <- add1 W p;
      if p' =? stop then Ok (p', c) else
      do dc <- depth_at W L p' c;
      if Nat.eqb (fst dc) d then depth_inner W L stop d f p' (snd dc) else Ok (p', snd dc)
    else Ok (p, c)
  end.
(* IterDepth::next: None = iterator ended *)
Definition depth_next (W : N) (L : lapper) (s : dstate) : res (option (iv * dstate)) :=
  if Nat.leb (length (d_merged s)) (d_pos s) then Ok None else   (* repaired: curr_pos >= end *)
  do i0 <- idx (d_merged s) (d_pos s);
  let cmp0 := if d_cmp s =? 0 then st i0 else d_cmp s in
  do adv <- (if en i0 =? cmp0 then
               if negb (Nat.eqb (d_pos s + 1) (length (d_merged s))) then
                 do i1 <- idx (d_merged s) (d_pos s + 1);
                 Ok (Some (i1, st i1, (d_pos s + 1)%nat))
               else Ok None
             else Ok (Some (i0, cmp0, d_pos s)));
  match adv with
  | None => Ok None
  | Some (i, cmp, pos) =>
    do dc <- depth_at W L cmp (d_cur s);
    do pc <- depth_inner W L (en i) (fst dc) (N.to_nat (en i - cmp)) cmp (snd dc);
    Ok (Some (mkiv cmp (fst pc) (N.of_nat (fst dc)), mkD (d_merged s) (fst pc) pos (snd pc)))
  end.
Fixpoint depth_all (W : N) (L : lapper) (fuel : nat) (s : dstate) : res (list iv) :=
  match fuel with
  | O => Panic
  | S f =>
    do r <- depth_next W L s;
    match r with
    | None => Ok []
    | Some (x, s') => do rest <- depth_all W L f s'; Ok (x :: rest)
    end
  end.
Definition span (l : list iv) : N := fold_left (fun a i => a + ilen i) l 0.
Definition ldepth (W : N) (L : lapper) : res (list iv) :=
  let s := depth_init L in
  depth_all W L (S (N.to_nat (span (d_merged s)))) s.

(* ReaderProofs.v — the line reader of src/bed/io.rs (TextModel.v, last section) against a
   declarative specification of "the lines of a byte stream".
   Everything is generic in the record type A and in [parse : bytes -> pres A].
   Stdlib only.  No axioms. *)
From BedV Require Import Base AlgebraModel TextModel.

(* ---------- specification ---------- *)

(* the lines of a byte stream: maximal LF-free segments; a final segment without LF counts only if non-empty.
   Each comes with a flag: was it LF-terminated *)
Fixpoint raw_lines (s : bytes) : list (bytes * bool) :=
  match s with
  | [] => []
  | b :: t =>
    if b =? LF then ([], true) :: raw_lines t
    else match raw_lines t with
         | (l, term) :: r => if (match t with [] => true | _ => false end) then [([b], false)] else ((b :: l, term) :: r)
         | [] => [([b], false)]
         end
  end.

(* sanity: the definition computes the intended lines *)
Example raw_lines_ex1 : raw_lines [97;10;98] = [([97], true); ([98], false)]. Proof. vm_compute. reflexivity. Qed.
Example raw_lines_ex2 : raw_lines [97;10] = [([97], true)]. Proof. vm_compute. reflexivity. Qed.
Example raw_lines_ex3 : raw_lines [10;10] = [([], true); ([], true)]. Proof. vm_compute. reflexivity. Qed.
Example raw_lines_ex4 : raw_lines [97] = [([97], false)]. Proof. vm_compute. reflexivity. Qed.
Example raw_lines_ex5 : raw_lines [] = []. Proof. vm_compute. reflexivity. Qed.
Example raw_lines_ex6 : raw_lines [97;98;10;10;99;100] = [([97;98], true); ([], true); ([99;100], false)].
Proof. vm_compute. reflexivity. Qed.

(* a CR is stripped only from LF-terminated lines *)
Definition strip_cr (lt : bytes * bool) : bytes := if snd lt && ends_with CR (fst lt) then pop (fst lt) else fst lt.
Definition spec_lines (s : bytes) : list bytes := map strip_cr (raw_lines s).
Definition is_skipped (prefix : option bytes) (line : bytes) : bool := match prefix with Some p => starts_with p line | None => false end.
Definition spec_items {A} (parse : bytes -> pres A) (prefix : option bytes) (s : bytes) : list (pres A) :=
  map parse (filter (fun l => negb (is_skipped prefix l)) (spec_lines s)).

Definition term_ok (t : bytes) : Prop := t = [LF] \/ t = [CR; LF].

(* a stream that is empty or ends with LF: the next byte starts a new line *)
Definition terminated (a : bytes) : Prop := a = [] \/ exists a', a = a' ++ [LF].

(* ---------- raw_lines: characterisation independent of the recursion scheme ---------- *)

Lemma raw_lines_cons : forall b t, b <> LF ->
  raw_lines (b :: t) =
  match raw_lines t with (l, term) :: r => (b :: l, term) :: r | [] => [([b], false)] end.
Proof.
  intros b t Hb. cbn [raw_lines]. destruct (N.eqb_spec b LF) as [E|_]; [contradiction|].
  destruct t as [|c t']; [reflexivity|].
  destruct (raw_lines (c :: t')) as [|[l term] r]; reflexivity.
Qed.

Lemma raw_lines_lf : forall t, raw_lines (LF :: t) = ([], true) :: raw_lines t.
Proof. intros t. cbn [raw_lines]. rewrite N.eqb_refl. reflexivity. Qed.

Lemma raw_lines_nil_inv : forall s, raw_lines s = [] -> s = [].
Proof.
  intros [|b t] H; [reflexivity|]. exfalso.
  destruct (N.eq_dec b LF) as [->|Hb].
  - rewrite raw_lines_lf in H. discriminate.
  - rewrite (raw_lines_cons b t Hb) in H. destruct (raw_lines t) as [|[l term] r]; discriminate.
Qed.

Lemma notin_cons : forall (b c : N) l, ~ In c (b :: l) -> b <> c /\ ~ In c l.
Proof. intros b c l H. split; intro H'; apply H; [left; assumption|right; assumption]. Qed.

Lemma raw_lines_app : forall l rest, ~ In LF l -> raw_lines (l ++ LF :: rest) = (l, true) :: raw_lines rest.
Proof.
  induction l as [|b l IH]; intros rest Hl.
  - cbn [app]. apply raw_lines_lf.
  - apply notin_cons in Hl. destruct Hl as [Hb Hl]. cbn [app].
    rewrite (raw_lines_cons b _ Hb), (IH rest Hl). reflexivity.
Qed.

Lemma raw_lines_last : forall l, ~ In LF l -> l <> [] -> raw_lines l = [(l, false)].
Proof.
  induction l as [|b l IH]; intros Hl Hne; [contradiction|].
  apply notin_cons in Hl. destruct Hl as [Hb Hl].
  rewrite (raw_lines_cons b l Hb). destruct l as [|c l'].
  - reflexivity.
  - rewrite IH; [reflexivity|assumption|discriminate].
Qed.

(* every stream is empty, or a last unterminated non-empty line, or a terminated line followed by a stream *)
Lemma line_cases : forall s,
  s = [] \/ (s <> [] /\ ~ In LF s) \/ exists l rest, ~ In LF l /\ s = l ++ LF :: rest.
Proof.
  induction s as [|b t IH]; [left; reflexivity|right].
  destruct (N.eq_dec b LF) as [->|Hb].
  - right. exists [], t. split; [intros []|reflexivity].
  - destruct IH as [->|[[Hne Hl]|(l & rest & Hl & ->)]].
    + left. split; [discriminate|]. intros [H|[]]. contradiction.
    + left. split; [discriminate|]. intros [H|H]; contradiction.
    + right. exists (b :: l), rest. split; [|reflexivity]. intros [H|H]; contradiction.
Qed.

Lemma terminated_cons_inv : forall b a, terminated (b :: a) -> terminated a /\ (a = [] -> b = LF).
Proof.
  intros b a [H|[a' H]]; [discriminate|]. destruct a' as [|c a'']; cbn [app] in H.
  - injection H as -> ->. split; [left; reflexivity|reflexivity].
  - injection H as -> ->. split; [right; eexists; reflexivity|].
    intros E. destruct a''; discriminate.
Qed.

Lemma raw_lines_app_terminated : forall a c, terminated a -> raw_lines (a ++ c) = raw_lines a ++ raw_lines c.
Proof.
  induction a as [|b a IH]; intros c Ht; [reflexivity|].
  apply terminated_cons_inv in Ht. destruct Ht as [Ht Hb1]. cbn [app].
  destruct (N.eq_dec b LF) as [->|Hb].
  - rewrite !raw_lines_lf, (IH c Ht). reflexivity.
  - rewrite !(raw_lines_cons b _ Hb), (IH c Ht).
    destruct (raw_lines a) as [|[l tm] r] eqn:E.
    + apply raw_lines_nil_inv in E. exfalso. apply Hb, Hb1, E.
    + reflexivity.
Qed.

(* ---------- small facts on ends_with / pop / starts_with / take_line ---------- *)

Lemma ends_with_app1 : forall b s x, ends_with b (s ++ [x]) = (x =? b).
Proof.
  intros b s x. induction s as [|y t IH]; [reflexivity|].
  cbn [app ends_with]. destruct (t ++ [x]) as [|z r] eqn:E.
  - destruct t; discriminate.
  - exact IH.
Qed.

Lemma ends_with_In : forall b s, ends_with b s = true -> In b s.
Proof.
  intros b s. induction s as [|x t IH]; [discriminate|].
  cbn [ends_with]. destruct t as [|y r].
  - intros H. apply N.eqb_eq in H. subst x. left. reflexivity.
  - intros H. right. apply IH. exact H.
Qed.

Lemma ends_with_notin : forall b s, ~ In b s -> ends_with b s = false.
Proof.
  intros b s H. destruct (ends_with b s) eqn:E; [|reflexivity].
  apply ends_with_In in E. contradiction.
Qed.

Lemma pop_app1 : forall s x, pop (s ++ [x]) = s.
Proof. intros s x. unfold pop. apply removelast_last. Qed.

Lemma starts_with_app : forall p x, starts_with p (p ++ x) = true.
Proof.
  induction p as [|a p IH]; intros x; [reflexivity|].
  cbn [app starts_with]. rewrite N.eqb_refl, IH. reflexivity.
Qed.

Lemma take_line_term : forall l rest, ~ In LF l -> take_line (l ++ LF :: rest) = (l ++ [LF], rest).
Proof.
  induction l as [|b l IH]; intros rest Hl; cbn [app take_line].
  - rewrite N.eqb_refl. reflexivity.
  - apply notin_cons in Hl. destruct Hl as [Hb Hl].
    destruct (N.eqb_spec b LF) as [E|_]; [contradiction|]. rewrite (IH rest Hl). reflexivity.
Qed.

Lemma take_line_last : forall l, ~ In LF l -> take_line l = (l, []).
Proof.
  induction l as [|b l IH]; intros Hl; cbn [take_line]; [reflexivity|].
  apply notin_cons in Hl. destruct Hl as [Hb Hl].
  destruct (N.eqb_spec b LF) as [E|_]; [contradiction|]. rewrite (IH Hl). reflexivity.
Qed.

Lemma strip_cr_nocr : forall l tm, ~ In CR l -> strip_cr (l, tm) = l.
Proof.
  intros l tm H. unfold strip_cr. cbn [fst snd]. rewrite (ends_with_notin _ _ H).
  destruct tm; reflexivity.
Qed.

Lemma strip_cr_cr : forall l, strip_cr (l ++ [CR], true) = l.
Proof.
  intros l. unfold strip_cr. cbn [fst snd andb]. rewrite ends_with_app1, N.eqb_refl. apply pop_app1.
Qed.

Lemma strip_cr_unterminated : forall l, strip_cr (l, false) = l.
Proof. reflexivity. Qed.

(* ---------- read_line / rd_next on the two kinds of non-empty stream ---------- *)

Lemma read_line_term : forall l rest, ~ In LF l ->
  read_line (l ++ LF :: rest) = (S (length l), strip_cr (l, true), rest).
Proof.
  intros l rest Hl. unfold read_line. rewrite (take_line_term l rest Hl).
  rewrite app_length. cbn [length]. rewrite Nat.add_1_r. cbn [Nat.eqb].
  rewrite ends_with_app1, N.eqb_refl, pop_app1. reflexivity.
Qed.

Lemma read_line_last : forall l, ~ In LF l -> l <> [] -> read_line l = (length l, l, []).
Proof.
  intros l Hl Hne. unfold read_line. rewrite (take_line_last l Hl).
  destruct l as [|b l']; [contradiction|]. cbn [length Nat.eqb].
  rewrite (ends_with_notin _ _ Hl). reflexivity.
Qed.

Section Reader.
  Context {A : Type} (parse : bytes -> pres A) (prefix : option bytes).

  Lemma rd_next_nil : forall fuel, rd_next parse prefix (S fuel) [] = None.
  Proof. intros fuel. reflexivity. Qed.

  Lemma rd_next_term : forall f l rest, ~ In LF l ->
    rd_next parse prefix (S f) (l ++ LF :: rest) =
    if is_skipped prefix (strip_cr (l, true)) then rd_next parse prefix f rest
    else Some (parse (strip_cr (l, true)), rest).
  Proof.
    intros f l rest Hl. cbn [rd_next]. unfold read_record. rewrite (read_line_term l rest Hl).
    cbn [Nat.eqb negb andb]. unfold is_skipped.
    destruct prefix as [p|]; [destruct (starts_with p (strip_cr (l, true)))|]; reflexivity.
  Qed.

  Lemma rd_next_last : forall f l, ~ In LF l -> l <> [] ->
    rd_next parse prefix (S f) l =
    if is_skipped prefix l then rd_next parse prefix f [] else Some (parse l, []).
  Proof.
    intros f l Hl Hne. cbn [rd_next]. unfold read_record. rewrite (read_line_last l Hl Hne).
    destruct l as [|b l']; [contradiction|]. cbn [length Nat.eqb negb andb]. unfold is_skipped.
    destruct prefix as [p|]; [destruct (starts_with p (b :: l'))|]; reflexivity.
  Qed.

  (* ---------- spec_items on the same decomposition ---------- *)

  Lemma spec_items_nil : spec_items parse prefix [] = [].
  Proof. reflexivity. Qed.

  Lemma spec_items_term : forall l rest, ~ In LF l ->
    spec_items parse prefix (l ++ LF :: rest) =
    (if is_skipped prefix (strip_cr (l, true)) then [] else [parse (strip_cr (l, true))])
    ++ spec_items parse prefix rest.
  Proof.
    intros l rest Hl. unfold spec_items, spec_lines. rewrite (raw_lines_app l rest Hl).
    cbn [map filter]. destruct (is_skipped prefix (strip_cr (l, true))); reflexivity.
  Qed.

  Lemma spec_items_last : forall l, ~ In LF l -> l <> [] ->
    spec_items parse prefix l = if is_skipped prefix l then [] else [parse l].
  Proof.
    intros l Hl Hne. unfold spec_items, spec_lines. rewrite (raw_lines_last l Hl Hne).
    cbn [map filter]. rewrite strip_cr_unterminated. destruct (is_skipped prefix l); reflexivity.
  Qed.

  Lemma spec_items_app_terminated : forall a c, terminated a ->
    spec_items parse prefix (a ++ c) = spec_items parse prefix a ++ spec_items parse prefix c.
  Proof.
    intros a c Ha. unfold spec_items, spec_lines.
    rewrite (raw_lines_app_terminated a c Ha), map_app, filter_app, map_app. reflexivity.
  Qed.

  (* ---------- progress ---------- *)

  Theorem rd_next_rest_shorter_sec : forall fuel s item rest,
    rd_next parse prefix fuel s = Some (item, rest) -> (length rest < length s)%nat.
  Proof.
    induction fuel as [|f IH]; intros s item rest H; [discriminate|].
    destruct (line_cases s) as [->|[[Hne Hl]|(l & r & Hl & ->)]].
    - rewrite rd_next_nil in H. discriminate.
    - rewrite (rd_next_last f s Hl Hne) in H.
      destruct (is_skipped prefix s).
      + apply IH in H. cbn [length] in H. lia.
      + injection H as _ <-. destruct s; [contradiction|]. cbn [length]. lia.
    - rewrite (rd_next_term f l r Hl) in H. rewrite app_length. cbn [length].
      destruct (is_skipped prefix (strip_cr (l, true))).
      + apply IH in H. lia.
      + injection H as _ <-. lia.
  Qed.

  (* ---------- one call of next against the specification ---------- *)

  Lemma rd_next_spec : forall fuel s, (length s < fuel)%nat ->
    match rd_next parse prefix fuel s with
    | None => spec_items parse prefix s = []
    | Some (item, rest) => spec_items parse prefix s = item :: spec_items parse prefix rest
    end.
  Proof.
    induction fuel as [|f IH]; intros s Hf; [lia|].
    destruct (line_cases s) as [->|[[Hne Hl]|(l & r & Hl & ->)]].
    - rewrite rd_next_nil. reflexivity.
    - rewrite (rd_next_last f s Hl Hne), (spec_items_last s Hl Hne).
      destruct (is_skipped prefix s).
      + destruct f as [|f']; [destruct s; [contradiction|cbn [length] in Hf; lia]|].
        rewrite rd_next_nil. reflexivity.
      + reflexivity.
    - rewrite (rd_next_term f l r Hl), (spec_items_term l r Hl).
      rewrite app_length in Hf. cbn [length] in Hf.
      destruct (is_skipped prefix (strip_cr (l, true))).
      + cbn [app]. apply IH. lia.
      + reflexivity.
  Qed.

  Lemma rd_all_spec : forall fuel s, (length s < fuel)%nat ->
    rd_all parse prefix fuel s = spec_items parse prefix s.
  Proof.
    induction fuel as [|f IH]; intros s Hf; [lia|].
    cbn [rd_all].
    pose proof (rd_next_spec (S (length s)) s (Nat.lt_succ_diag_r _)) as Hs.
    destruct (rd_next parse prefix (S (length s)) s) as [[item rest]|] eqn:E.
    - apply rd_next_rest_shorter_sec in E. rewrite Hs. f_equal. apply IH. lia.
    - symmetry. exact Hs.
  Qed.

  Theorem reader_refines_sec : forall s, reader_items parse prefix s = spec_items parse prefix s.
  Proof. intros s. unfold reader_items. apply rd_all_spec. lia. Qed.

  (* ---------- a correctly written record line ---------- *)

  Lemma spec_items_record : forall l t rest, ~ In LF l -> ~ In CR l -> term_ok t ->
    spec_items parse prefix ((l ++ t) ++ rest) =
    (if is_skipped prefix l then [] else [parse l]) ++ spec_items parse prefix rest.
  Proof.
    intros l t rest Hlf Hcr [ -> | -> ].
    - rewrite <- app_assoc. cbn [app]. rewrite (spec_items_term l rest Hlf), (strip_cr_nocr l true Hcr).
      reflexivity.
    - replace ((l ++ [CR; LF]) ++ rest) with ((l ++ [CR]) ++ LF :: rest)
        by (rewrite <- !app_assoc; reflexivity).
      rewrite spec_items_term, strip_cr_cr; [reflexivity|].
      intros H. apply in_app_or in H. destruct H as [H|[H|[]]]; [contradiction|discriminate].
  Qed.
End Reader.

(* ---------- the theorems ---------- *)

Theorem reader_refines : forall A (parse : bytes -> pres A) prefix s,
  reader_items parse prefix s = spec_items parse prefix s.
Proof. intros A parse prefix s. apply reader_refines_sec. Qed.

Theorem reader_ends : forall A (parse : bytes -> pres A) prefix fuel,
  rd_next parse prefix (S fuel) [] = None.
Proof. intros A parse prefix fuel. reflexivity. Qed.

Theorem rd_next_rest_shorter : forall A (parse : bytes -> pres A) prefix fuel s item rest,
  rd_next parse prefix fuel s = Some (item, rest) -> (length rest < length s)%nat.
Proof. intros A parse prefix. apply rd_next_rest_shorter_sec. Qed.

(* ----- skipped lines ----- *)

(* The statement as first posed (side conditions p <> [], ~ In LF p, ~ In LF x, a empty or LF-terminated) is
   FALSE: a prefix ending in CR followed by nothing loses its CR to the CRLF stripping before the prefix
   test, so the line is no longer recognised.  Counterexample: p = "#\r", x = "", a = b = "". *)
Example skipped_line_invisible_as_posed_refuted :
  exists (p a x b : bytes), p <> [] /\ ~ In LF p /\ ~ In LF x /\ (a = [] \/ exists a', a = a' ++ [LF]) /\
    reader_items (parse_bed 3) (Some p) (a ++ (p ++ x ++ [LF]) ++ b) <> reader_items (parse_bed 3) (Some p) (a ++ b).
Proof.
  exists [35; 13], [], [], []. split; [discriminate|]. split; [|split; [intros []|split; [left; reflexivity|]]].
  - intros [H|[H|[]]]; discriminate.
  - vm_compute. discriminate.
Qed.

Lemma skipped_is_skipped : forall p x : bytes, ends_with CR p = false \/ x <> [] ->
  is_skipped (Some p) (strip_cr (p ++ x, true)) = true.
Proof.
  intros p x Hc. unfold is_skipped, strip_cr. cbn [fst snd andb].
  destruct (ends_with CR (p ++ x)) eqn:E; [|apply starts_with_app].
  destruct (exists_last (l := x)) as (x' & c & ->).
  - intros ->. rewrite app_nil_r in E. destruct Hc as [Hc|Hc]; [congruence|contradiction].
  - rewrite app_assoc, pop_app1. apply starts_with_app.
Qed.

(* corrected statement: the prefix does not end in CR, or the skipped line has more than the prefix *)
Theorem skipped_line_invisible_nocr : forall A (parse : bytes -> pres A) (p a x b : bytes),
  p <> [] -> ~ In LF p -> ~ In LF x -> (ends_with CR p = false \/ x <> []) ->
  (a = [] \/ exists a', a = a' ++ [LF]) ->
  reader_items parse (Some p) (a ++ (p ++ x ++ [LF]) ++ b) = reader_items parse (Some p) (a ++ b).
Proof.
  intros A parse p a x b _ Hp Hx Hc Ha. rewrite !reader_refines.
  rewrite !(spec_items_app_terminated parse (Some p) a _ Ha). f_equal.
  replace ((p ++ x ++ [LF]) ++ b) with ((p ++ x) ++ LF :: b) by (rewrite <- !app_assoc; reflexivity).
  rewrite spec_items_term.
  - rewrite (skipped_is_skipped p x Hc). reflexivity.
  - intros H. apply in_app_or in H. destruct H; contradiction.
Qed.

(* the usual case: a prefix without CR (e.g. "#", "track", "browser") *)
Corollary skipped_line_invisible_nocr_in : forall A (parse : bytes -> pres A) (p a x b : bytes),
  p <> [] -> ~ In LF p -> ~ In CR p -> ~ In LF x ->
  (a = [] \/ exists a', a = a' ++ [LF]) ->
  reader_items parse (Some p) (a ++ (p ++ x ++ [LF]) ++ b) = reader_items parse (Some p) (a ++ b).
Proof.
  intros A parse p a x b Hne Hp Hcr Hx Ha. apply skipped_line_invisible_nocr; try assumption.
  left. apply ends_with_notin. assumption.
Qed.

(* unterminated variant, at the end of the stream: holds as posed (no CR stripping on an unterminated line) *)
Theorem skipped_last_line_invisible : forall A (parse : bytes -> pres A) (p a x : bytes),
  p <> [] -> ~ In LF p -> ~ In LF x ->
  (a = [] \/ exists a', a = a' ++ [LF]) ->
  reader_items parse (Some p) (a ++ p ++ x) = reader_items parse (Some p) a.
Proof.
  intros A parse p a x Hne Hp Hx Ha. rewrite !reader_refines.
  rewrite (spec_items_app_terminated parse (Some p) a _ Ha).
  rewrite (spec_items_last parse (Some p) (p ++ x)).
  - cbn [is_skipped]. rewrite starts_with_app. apply app_nil_r.
  - intros H. apply in_app_or in H. destruct H; contradiction.
  - destruct p; [contradiction|discriminate].
Qed.

(* ----- write / read round trip ----- *)

Lemma write_read_spec : forall A (parse : bytes -> pres A) (show : A -> bytes) prefix (rs : list A) (terms : list bytes),
  (forall r, In r rs -> parse (show r) = POk r /\ ~ In LF (show r) /\ ~ In CR (show r) /\ show r <> [] /\
                        is_skipped prefix (show r) = false) ->
  length terms = length rs ->
  (forall t, In t (removelast terms) -> term_ok t) -> (forall t, last terms [LF] = t -> term_ok t \/ t = []) ->
  spec_items parse prefix (concat (map (fun rt => show (fst rt) ++ snd rt) (combine rs terms))) = map POk rs.
Proof.
  intros A parse show prefix. induction rs as [|r rs IH]; intros terms Hrs Hlen Hinit Hlast.
  - reflexivity.
  - destruct terms as [|t terms]; [discriminate|].
    destruct (Hrs r (or_introl eq_refl)) as (Hp & Hlf & Hcr & Hne & Hsk).
    cbn [combine map concat fst snd].
    destruct terms as [|t' terms'].
    + destruct rs as [|r' rs']; [|discriminate]. cbn [combine map concat].
      destruct (Hlast t eq_refl) as [Ht|Ht]; [|subst t].
      * rewrite (spec_items_record parse prefix (show r) t [] Hlf Hcr Ht), Hsk, Hp. reflexivity.
      * rewrite !app_nil_r, (spec_items_last parse prefix (show r) Hlf Hne), Hsk, Hp. reflexivity.
    + assert (Ht : term_ok t) by (apply Hinit; left; reflexivity).
      rewrite (spec_items_record parse prefix (show r) t _ Hlf Hcr Ht), Hsk, Hp. cbn [app map]. f_equal.
      apply IH.
      * intros r0 Hr0. apply Hrs. right. assumption.
      * cbn [length] in Hlen |- *. lia.
      * intros t0 Ht0. apply Hinit. change (removelast (t :: t' :: terms')) with (t :: removelast (t' :: terms')).
        right. assumption.
      * intros t0 Ht0. apply Hlast. exact Ht0.
Qed.

Theorem write_read : forall A (parse : bytes -> pres A) (show : A -> bytes) prefix (rs : list A) (terms : list bytes),
  (forall r, In r rs -> parse (show r) = POk r /\ ~ In LF (show r) /\ ~ In CR (show r) /\ show r <> [] /\
                        is_skipped prefix (show r) = false) ->
  length terms = length rs ->
  (forall t, In t (removelast terms) -> term_ok t) -> (forall t, last terms [LF] = t -> term_ok t \/ t = []) ->
  reader_items parse prefix (concat (map (fun rt => show (fst rt) ++ snd rt) (combine rs terms))) = map POk rs.
Proof. intros. rewrite reader_refines. apply write_read_spec; assumption. Qed.

Theorem writer_is_show_lf : forall shown, write_record shown = shown ++ [LF].
Proof. reflexivity. Qed.

Lemma in_removelast : forall (T : Type) (x : T) l, In x (removelast l) -> In x l.
Proof.
  intros T x. induction l as [|a l IH]; [intros []|].
  destruct l as [|b l']; [intros []|].
  change (removelast (a :: b :: l')) with (a :: removelast (b :: l')).
  intros [H|H]; [left; assumption|right; apply IH; assumption].
Qed.

Lemma last_repeat : forall (T : Type) (x : T) n, last (repeat x n) x = x.
Proof.
  intros T x. induction n as [|n IH]; [reflexivity|].
  cbn [repeat]. destruct n as [|n']; [reflexivity|]. exact IH.
Qed.

Lemma writer_stream : forall A (show : A -> bytes) (rs : list A),
  concat (map (fun r => write_record (show r)) rs) =
  concat (map (fun rt => show (fst rt) ++ snd rt) (combine rs (repeat [LF] (length rs)))).
Proof.
  intros A show. induction rs as [|r rs IH]; [reflexivity|].
  cbn [map concat length repeat combine fst snd]. rewrite IH. reflexivity.
Qed.

Corollary write_read_writer : forall A (parse : bytes -> pres A) (show : A -> bytes) prefix (rs : list A),
  (forall r, In r rs -> parse (show r) = POk r /\ ~ In LF (show r) /\ ~ In CR (show r) /\ show r <> [] /\
                        is_skipped prefix (show r) = false) ->
  reader_items parse prefix (concat (map (fun r => write_record (show r)) rs)) = map POk rs.
Proof.
  intros A parse show prefix rs Hrs. rewrite writer_stream. apply write_read.
  - exact Hrs.
  - apply repeat_length.
  - intros t Ht. apply in_removelast in Ht. apply repeat_spec in Ht. left. exact Ht.
  - intros t <-. left. left. apply last_repeat.
Qed.

(* Props/C04.v — C04: the record reader of src/bed/io.rs yields exactly one item per non-skipped line.
   Only statements, closed by [exact]; proofs live in ReaderProofs.v.
   The specification ([raw_lines], [strip_cr], [spec_lines], [is_skipped], [spec_items], [term_ok]) is
   defined at the top of ReaderProofs.v; [raw_lines] is characterised independently of its recursion by
   [raw_lines_app] / [raw_lines_last] / [raw_lines [] = []]. *)
From BedV Require Import Base AlgebraModel TextModel ReaderProofs.

(* The items of the iterator are: the parse result of every line (LF-terminated segments, CR stripped
   before LF; a non-empty unterminated last segment) that does not start with the prefix, in order.
   Ok for a well-formed line, the parse error for a malformed or blank one, never a silent drop.
   The fuel S (length s) used by rd_next / rd_all inside reader_items always suffices. *)
Theorem C04_reader_refines : forall A (parse : bytes -> pres A) prefix s,
  reader_items parse prefix s = spec_items parse prefix s.
Proof. exact reader_refines. Qed.
Print Assumptions C04_reader_refines.

(* readable characterisation of the lines, independent of the recursion of raw_lines *)
Theorem C04_raw_lines_app : forall l rest, ~ In LF l -> raw_lines (l ++ LF :: rest) = (l, true) :: raw_lines rest.
Proof. exact raw_lines_app. Qed.
Print Assumptions C04_raw_lines_app.
Theorem C04_raw_lines_last : forall l, ~ In LF l -> l <> [] -> raw_lines l = [(l, false)].
Proof. exact raw_lines_last. Qed.
Print Assumptions C04_raw_lines_last.

(* at end of data the iterator ends, and stays ended (the state is the remaining stream, [] again) *)
Theorem C04_reader_ends : forall A (parse : bytes -> pres A) prefix fuel,
  rd_next parse prefix (S fuel) [] = None.
Proof. exact reader_ends. Qed.
Print Assumptions C04_reader_ends.

(* every item consumes at least one byte *)
Theorem C04_progress : forall A (parse : bytes -> pres A) prefix fuel s item rest,
  rd_next parse prefix fuel s = Some (item, rest) -> (length rest < length s)%nat.
Proof. exact rd_next_rest_shorter. Qed.
Print Assumptions C04_progress.

(* A line starting with the prefix, anywhere (at a line start), does not change the items.
   Side condition added w.r.t. the first formulation: the prefix does not end in CR, or the line is longer
   than the prefix (a prefix "#\r" does not match the line "#\r\n": CR is stripped before the test). *)
Theorem C04_skipped_line_invisible_nocr : forall A (parse : bytes -> pres A) (p a x b : bytes),
  p <> [] -> ~ In LF p -> ~ In LF x -> (ends_with CR p = false \/ x <> []) ->
  (a = [] \/ exists a', a = a' ++ [LF]) ->
  reader_items parse (Some p) (a ++ (p ++ x ++ [LF]) ++ b) = reader_items parse (Some p) (a ++ b).
Proof. exact skipped_line_invisible_nocr. Qed.
Print Assumptions C04_skipped_line_invisible_nocr.

Theorem C04_skipped_line_invisible_nocr_in : forall A (parse : bytes -> pres A) (p a x b : bytes),
  p <> [] -> ~ In LF p -> ~ In CR p -> ~ In LF x ->
  (a = [] \/ exists a', a = a' ++ [LF]) ->
  reader_items parse (Some p) (a ++ (p ++ x ++ [LF]) ++ b) = reader_items parse (Some p) (a ++ b).
Proof. exact skipped_line_invisible_nocr_in. Qed.
Print Assumptions C04_skipped_line_invisible_nocr_in.

(* without that side condition the statement is false *)
Theorem C04_skipped_line_invisible_as_posed_refuted :
  exists (p a x b : bytes), p <> [] /\ ~ In LF p /\ ~ In LF x /\ (a = [] \/ exists a', a = a' ++ [LF]) /\
    reader_items (parse_bed 3) (Some p) (a ++ (p ++ x ++ [LF]) ++ b) <> reader_items (parse_bed 3) (Some p) (a ++ b).
Proof. exact skipped_line_invisible_as_posed_refuted. Qed.
Print Assumptions C04_skipped_line_invisible_as_posed_refuted.

(* unterminated prefixed line at the end of the stream *)
Theorem C04_skipped_last_line_invisible : forall A (parse : bytes -> pres A) (p a x : bytes),
  p <> [] -> ~ In LF p -> ~ In LF x ->
  (a = [] \/ exists a', a = a' ++ [LF]) ->
  reader_items parse (Some p) (a ++ p ++ x) = reader_items parse (Some p) a.
Proof. exact skipped_last_line_invisible. Qed.
Print Assumptions C04_skipped_last_line_invisible.

(* records written one per line come back equal, in order and number, whether lines end in LF or CRLF
   and whether or not the last line is terminated *)
Theorem C04_write_read : forall A (parse : bytes -> pres A) (show : A -> bytes) prefix (rs : list A) (terms : list bytes),
  (forall r, In r rs -> parse (show r) = POk r /\ ~ In LF (show r) /\ ~ In CR (show r) /\ show r <> [] /\
                        is_skipped prefix (show r) = false) ->
  length terms = length rs ->
  (forall t, In t (removelast terms) -> term_ok t) -> (forall t, last terms [LF] = t -> term_ok t \/ t = []) ->
  reader_items parse prefix (concat (map (fun rt => show (fst rt) ++ snd rt) (combine rs terms))) = map POk rs.
Proof. exact write_read. Qed.
Print Assumptions C04_write_read.

Theorem C04_writer_is_show_lf : forall shown, write_record shown = shown ++ [LF].
Proof. exact writer_is_show_lf. Qed.
Print Assumptions C04_writer_is_show_lf.

(* the stream produced by Writer::write_record on each record *)
Theorem C04_write_read_writer : forall A (parse : bytes -> pres A) (show : A -> bytes) prefix (rs : list A),
  (forall r, In r rs -> parse (show r) = POk r /\ ~ In LF (show r) /\ ~ In CR (show r) /\ show r <> [] /\
                        is_skipped prefix (show r) = false) ->
  reader_items parse prefix (concat (map (fun r => write_record (show r)) rs)) = map POk rs.
Proof. exact write_read_writer. Qed.
Print Assumptions C04_write_read_writer.

(* non-vacuity: "c\t1\t2\r\n#x\n\nc\t3\t4" with prefix "#": CR stripped, "#x" skipped, the blank line is an
   error item (not dropped), the unterminated last line is read *)
Example C04_nonvacuous :
  let s := [99;9;49;9;50;13;10; 35;120;10; 10; 99;9;51;9;52] in
  reader_items (parse_bed 3) (Some [35]) s =
    [POk (mkBed [99] 1 2 None None None); PErr MissingStart; POk (mkBed [99] 3 4 None None None)] /\
  spec_lines s = [[99;9;49;9;50]; [35;120]; []; [99;9;51;9;52]] /\
  raw_lines s = [([99;9;49;9;50;13], true); ([35;120], true); ([], true); ([99;9;51;9;52], false)].
Proof. vm_compute. repeat split; reflexivity. Qed.

(* non-vacuity of the round trip: two BED3 records, CRLF then no terminator *)
Example C04_write_read_nonvacuous :
  let rs := [mkBed [99] 1 2 None None None; mkBed [99] 3 4 None None None] in
  let terms := [[CR; LF]; []] in
  concat (map (fun rt => show_bed 3 (fst rt) ++ snd rt) (combine rs terms)) = [99;9;49;9;50;13;10;99;9;51;9;52] /\
  reader_items (parse_bed 3) (Some [35]) (concat (map (fun rt => show_bed 3 (fst rt) ++ snd rt) (combine rs terms)))
    = map POk rs.
Proof. vm_compute. split; reflexivity. Qed.

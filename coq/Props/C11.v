(* Props/C11.v — C11: GIntervalIndexSet / GIntervalIndexMap (src/bed/map.rs).  Positions are supply
   positions; queries report every overlapping supplied region once per occurrence with its own position;
   the index map returns the data stored at those positions and never indexes out of bounds.
   Only statements, closed by [exact]; proofs live in GMapProofs.v. *)
From BedV Require Import Base LapperModel AlgebraModel GMapModel GMapProofs.

(* reg_hit c s e r : region r = (chrom, start, end) is on chromosome c and overlaps [s,e) *)

(* positional access: get(i) is the i-th supplied region, None from len on *)
Theorem C11_positional : forall rs,
  is_data (iset_new rs) = rs /\ iset_len (iset_new rs) = length rs /\
  (forall i, iset_get (iset_new rs) i = nth_error rs i) /\
  (forall i, (length rs <= i)%nat -> iset_get (iset_new rs) i = None).
Proof. exact iset_positional. Qed.
Print Assumptions C11_positional.

(* find_index_of: exactly the positions whose region overlaps, each once (the right-hand list has no
   duplicates), so a region supplied several times is reported once per occurrence *)
Theorem C11_find_index : forall rs c s e, exists h,
  iset_find_index (iset_new rs) c s e = Ok h /\
  Permutation h (map N.of_nat (filter (fun i => match nth_error rs i with Some r => reg_hit c s e r | None => false end)
                                      (seq 0 (length rs)))).
Proof. exact iset_find_index_spec. Qed.
Print Assumptions C11_find_index.

(* find_full: (region, position) is reported iff the region sits at that position and overlaps *)
Theorem C11_find_full : forall rs c s e, exists h,
  iset_find_full (iset_new rs) c s e = Ok h /\
  forall r i, In (r, i) h <-> (nth_error rs (N.to_nat i) = Some r /\ reg_hit c s e r = true).
Proof. exact iset_find_full_spec. Qed.
Print Assumptions C11_find_full.

(* ... and no position is reported twice *)
Theorem C11_find_full_nodup : forall rs c s e h,
  iset_find_full (iset_new rs) c s e = Ok h -> NoDup (map snd h).
Proof. exact iset_find_full_nodup. Qed.
Print Assumptions C11_find_full_nodup.

(* find: the regions of find_full, in the same order *)
Theorem C11_find : forall rs c s e, exists hf h,
  iset_find_full (iset_new rs) c s e = Ok hf /\ iset_find (iset_new rs) c s e = Ok h /\ h = map fst hf.
Proof. exact iset_find_spec. Qed.
Print Assumptions C11_find.

(* index map: no panic (every stored position is inside the data vector); the result is the supplied
   (region, data) pairs whose region overlaps, one per supply position *)
Theorem C11_imap_find : forall (rs : list (region * N)) c s e, exists h,
  imap_find (imap_new rs) c s e = Ok h /\
  Permutation h (map (fun i => match nth_error rs i with Some rv => rv | None => ((([], 0), 0), 0) end)
                     (filter (fun i => match nth_error rs i with Some rv => reg_hit c s e (fst rv) | None => false end)
                             (seq 0 (length rs)))).
Proof. exact imap_find_spec. Qed.
Print Assumptions C11_imap_find.

(* non-vacuity: two chromosomes, the region chr1:10-20 supplied at positions 0 and 2 *)
Example C11_nonvacuous :
  let chr1 : bytes := [99;104;114;49] in
  let chr2 : bytes := [99;104;114;50] in
  let regs : list region := [(chr1, 10, 20); (chr2, 5, 15); (chr1, 10, 20); (chr1, 30, 40); (chr2, 15, 25)] in
  iset_len (iset_new regs) = 5%nat /\ iset_get (iset_new regs) 2 = Some (chr1, 10, 20) /\
  iset_get (iset_new regs) 5 = None /\
  iset_find_full (iset_new regs) chr1 12 31 = Ok [((chr1, 10, 20), 0); ((chr1, 10, 20), 2); ((chr1, 30, 40), 3)] /\
  iset_find_index (iset_new regs) chr1 12 31 = Ok [0; 2; 3] /\
  map N.of_nat (filter (fun i => match nth_error regs i with Some r => reg_hit chr1 12 31 r | None => false end)
                       (seq 0 (length regs))) = [0; 2; 3] /\
  iset_find (iset_new regs) chr2 14 16 = Ok [(chr2, 5, 15); (chr2, 15, 25)] /\
  iset_find_index (iset_new regs) chr2 15 16 = Ok [4] /\
  imap_find (imap_new (combine regs [100; 101; 102; 103; 104])) chr1 12 31 =
    Ok [((chr1, 10, 20), 100); ((chr1, 10, 20), 102); ((chr1, 30, 40), 103)].
Proof. repeat split; vm_compute; reflexivity. Qed.

(* Props/C03.v — C03: the text codecs of src/bed.rs round-trip and have the documented column layout.
   Only statements, closed by [exact]; proofs live in TextProofs.v.
   f64 Display / FromStr are the parameters show_f / parse_f; what is assumed about them is the
   premise [FloatCodec show_f parse_f] (round trip on non-NaN bit patterns, no TAB / CR / LF in the text). *)
From BedV Require Import Base AlgebraModel TextModel TextProofs.

(* u64 / u16 Display followed by the unsigned parser is the identity, for any bound the value respects *)
Theorem C03_parse_uint_show : forall max n, n <= max -> parse_uint max (show_N n) = Some n.
Proof. exact parse_uint_show. Qed.
Print Assumptions C03_parse_uint_show.

(* i64 Display followed by str::parse::<i64> is the identity on the i64 range *)
Theorem C03_parse_int_show : forall z, (-9223372036854775808 <= z <= 9223372036854775807)%Z ->
  parse_int (show_Z z) = Some z.
Proof. exact parse_int_show. Qed.
Print Assumptions C03_parse_int_show.

(* joining TAB-free columns with TAB and splitting on TAB gives the columns back *)
Theorem C03_split_join : forall (cols : list bytes), cols <> [] -> Forall (fun c => ~ In TAB c) cols ->
  split_on is_tab (concat_with_tab cols) = cols.
Proof. exact split_join. Qed.
Print Assumptions C03_split_join.

(* BED<n> Display writes the first n of the six standard columns, TAB-separated *)
Theorem C03_show_bed_columns : forall n r, 3 <= n <= 6 ->
  show_bed n r = concat_with_tab (firstn (N.to_nat n) (bed_cols r)).
Proof. exact show_bed_columns. Qed.
Print Assumptions C03_show_bed_columns.

Theorem C03_show_bed_split : forall n r, 3 <= n <= 6 -> wf_bed n r ->
  split_on is_tab (show_bed n r) = firstn (N.to_nat n) (bed_cols r).
Proof. exact show_bed_split. Qed.
Print Assumptions C03_show_bed_split.

(* NarrowPeak: the six BED columns, signalValue, pValue, qValue, peak *)
Theorem C03_show_npeak_columns : forall show_f r, show_npeak show_f r =
  concat_with_tab (bed_cols (np_bed r) ++
    [show_f (np_signal r); show_pq show_f (np_p r); show_pq show_f (np_q r); show_N (np_peak r)]).
Proof. exact show_npeak_columns. Qed.
Print Assumptions C03_show_npeak_columns.

(* BroadPeak: the six BED columns, signalValue, pValue, qValue *)
Theorem C03_show_bpeak_columns : forall show_f r, show_bpeak show_f r =
  concat_with_tab (bed_cols (bp_bed r) ++
    [show_f (bp_signal r); show_pq show_f (bp_p r); show_pq show_f (bp_q r)]).
Proof. exact show_bpeak_columns. Qed.
Print Assumptions C03_show_bpeak_columns.

(* BedGraph: chrom, start, end, value *)
Theorem C03_show_bgraph_columns : forall show_f r, show_bgraph show_f r =
  concat_with_tab [bg_chr r; show_N (bg_st r); show_N (bg_en r); show_bgval show_f (bg_val r)].
Proof. exact show_bgraph_columns. Qed.
Print Assumptions C03_show_bgraph_columns.

(* an absent p/q value is written as the text of -1.0 *)
Theorem C03_absent_pq : forall show_f, show_pq show_f None = show_f F_NEG_ONE.
Proof. exact absent_pq_is_minus_one. Qed.
Print Assumptions C03_absent_pq.

(* round trips *)
Theorem C03_parse_show_bed : forall n r, 3 <= n <= 6 -> wf_bed n r -> parse_bed n (show_bed n r) = POk r.
Proof. exact parse_show_bed. Qed.
Print Assumptions C03_parse_show_bed.

Theorem C03_parse_show_grange : forall c s e,
  clean c -> ~ In COLON c -> ~ In DASH c -> s <= U64MAX -> e <= U64MAX ->
  parse_grange (show_grange c s e) = POk (c, s, e) /\ parse_grange (pretty_show c s e) = POk (c, s, e).
Proof. exact parse_show_grange. Qed.
Print Assumptions C03_parse_show_grange.

Theorem C03_parse_show_npeak : forall show_f parse_f r, FloatCodec show_f parse_f -> wf_npeak r ->
  parse_npeak parse_f (show_npeak show_f r) = POk r.
Proof. exact parse_show_npeak. Qed.
Print Assumptions C03_parse_show_npeak.

Theorem C03_parse_show_bpeak : forall show_f parse_f r, FloatCodec show_f parse_f -> wf_bpeak r ->
  parse_bpeak parse_f (show_bpeak show_f r) = POk r.
Proof. exact parse_show_bpeak. Qed.
Print Assumptions C03_parse_show_bpeak.

(* BedGraph<i64> (is_float = false) for an integer value, BedGraph<f64> (is_float = true) for a float *)
Theorem C03_parse_show_bgraph : forall show_f parse_f r, FloatCodec show_f parse_f -> wf_bgraph r ->
  parse_bgraph (match bg_val r with VInt _ => false | VFloat _ => true end) parse_f (show_bgraph show_f r) = POk r.
Proof. exact parse_show_bgraph. Qed.
Print Assumptions C03_parse_show_bgraph.

(* every score that can be constructed or parsed is at most 1000 *)
Theorem C03_score_bounds :
  (forall s v, score_from_str s = Some v -> v <= 1000) /\
  (forall n v, score_try_from n = Some v -> v = n /\ n <= 1000) /\
  (forall n, score_try_from n = None <-> 1000 < n) /\
  (forall fs v rest, p_score fs = POk (Some v, rest) -> v <= 1000).
Proof. exact score_bounds. Qed.
Print Assumptions C03_score_bounds.

Ltac vc := lazymatch goal with |- _ /\ _ => split; [vc|vc] | |- _ => vm_compute; reflexivity end.

(* non-vacuity 1: the premise FloatCodec is satisfiable (decimal text of the bit pattern) *)
Example C03_floatcodec_nonvacuous : FloatCodec show_N (fun s => digits_val s 0).
Proof. split; [intros b _; apply digits_val_show|apply show_N_clean]. Qed.

(* non-vacuity 2: the NarrowPeak line "chr1\t9356548\t9356648\t.\t0\t.\t182\t5.0945\t-1\t50" with a small
   table for the three floats that occur (182.0, 5.0945, -1.0 as IEEE-754 bit patterns) *)
Example C03_npeak_nonvacuous :
  let t182 := [49; 56; 50] in let t5 := [53; 46; 48; 57; 52; 53] in let tm1 := [45; 49] in
  let b182 := 4640607572284407808 in let b5 := 4617421915502797652 in
  let show_f := fun b => if b =? b182 then t182 else if b =? b5 then t5 else if b =? F_NEG_ONE then tm1 else [48] in
  let parse_f := fun s => if bytes_eqb s t182 then Some b182 else if bytes_eqb s t5 then Some b5
                          else if bytes_eqb s tm1 then Some F_NEG_ONE else None in
  let line := [99; 104; 114; 49; 9; 57; 51; 53; 54; 53; 52; 56; 9; 57; 51; 53; 54; 54; 52; 56; 9; 46; 9; 48; 9; 46;
               9; 49; 56; 50; 9; 53; 46; 48; 57; 52; 53; 9; 45; 49; 9; 53; 48] in
  let r := mkNP (mkBed [99; 104; 114; 49] 9356548 9356648 None (Some 0) None) b182 (Some b5) None 50 in
  wf_npeak r /\ show_npeak show_f r = line /\ parse_npeak parse_f line = POk r.
Proof.
  cbv zeta. split; [|vc].
  unfold wf_npeak, wf_bed, wf_float, wf_pq, wf_opt, clean, U64MAX, TAB, CR, LF.
  cbn [np_bed np_signal np_p np_q np_peak bd_chr bd_st bd_en bd_name bd_score bd_strand In].
  repeat split; try lia; try (vm_compute; reflexivity); try (intros; lia); intuition discriminate.
Qed.

(* non-vacuity 3: a BED6 record with all optional columns present: "chr2\t100\t200\tgeneA\t960\t-" *)
Example C03_bed6_nonvacuous :
  let line := [99; 104; 114; 50; 9; 49; 48; 48; 9; 50; 48; 48; 9; 103; 101; 110; 101; 65; 9; 57; 54; 48; 9; 45] in
  let r := mkBed [99; 104; 114; 50] 100 200 (Some [103; 101; 110; 101; 65]) (Some 960) (Some Rev) in
  wf_bed 6 r /\ show_bed 6 r = line /\ parse_bed 6 line = POk r /\
  split_on is_tab line = bed_cols r.
Proof.
  cbv zeta. split; [|vc].
  unfold wf_bed, wf_opt, clean, dot, U64MAX, TAB, CR, LF, DOT.
  cbn [bd_chr bd_st bd_en bd_name bd_score bd_strand In].
  repeat split; try lia; try (intros; lia); try discriminate; intuition discriminate.
Qed.

(* non-vacuity 4: GenomicRange "chr1:100-200" and bedGraph lines with an integer and a float value *)
Example C03_grange_bgraph_nonvacuous :
  parse_grange [99; 104; 114; 49; 58; 49; 48; 48; 45; 50; 48; 48] = POk ([99; 104; 114; 49], 100, 200) /\
  pretty_show [99; 104; 114; 49] 100 200 = [99; 104; 114; 49; 58; 49; 48; 48; 45; 50; 48; 48] /\
  parse_bgraph false (fun _ => None) [99; 104; 114; 49; 9; 49; 9; 50; 9; 45; 55] = POk (mkBG [99; 104; 114; 49] 1 2 (VInt (-7))) /\
  show_bgraph (fun _ => []) (mkBG [99; 104; 114; 49] 1 2 (VInt (-7))) = [99; 104; 114; 49; 9; 49; 9; 50; 9; 45; 55].
Proof. vc. Qed.

(* Props/C19.v — C19: cov() is the number of covered positions; union_and_intersect returns the
   cardinalities of the union and of the intersection of the two covered position sets, and is
   symmetric.  Only statements, closed by [exact]; proofs live in CovProofs.v. *)
From BedV Require Import Base LapperModel LapperProofs LapperSpecs MergeProofs CovProofs RangeProofs.

(* every reachable state over non-empty intervals (new; insert / merge_overlaps / set_cov):
   cov(), cached or recomputed, is the cardinality of the set of covered positions *)
Theorem C19_cov_card : forall l h, ne_ivs l -> Forall ne_op h ->
  exists L, lrun l h = Ok L /\ CardOf (covered (ivs L)) (lcov L).
Proof. exact c19_cov_card. Qed.
Print Assumptions C19_cov_card.

(* two lappers satisfying the reachable-state invariant (LInvNE, established for every reachable
   state by CovProofs.reach_inv_ne), cov A + cov B representable in the coordinate type (<= W):
   union_and_intersect does not panic, and returns (|covered A ∪ covered B|, |covered A ∩ covered B|)
   in both the merged and the unmerged branch *)
Theorem C19_union_intersect : forall W A B, LInvNE A -> LInvNE B -> lcov A + lcov B <= W ->
  exists u i, lunion_intersect W A B = Ok (u, i) /\
    CardOf (fun p => covered (ivs A) p /\ covered (ivs B) p) i /\
    CardOf (fun p => covered (ivs A) p \/ covered (ivs B) p) u.
Proof. exact ui_card. Qed.
Print Assumptions C19_union_intersect.

Theorem C19_symmetric : forall W A B u i u' i', LInvNE A -> LInvNE B -> lcov A + lcov B <= W ->
  lunion_intersect W A B = Ok (u, i) -> lunion_intersect W B A = Ok (u', i') -> u = u' /\ i = i'.
Proof. exact ui_sym. Qed.
Print Assumptions C19_symmetric.

(* the same for any two lappers reached by arbitrary histories (new; insert / merge_overlaps / set_cov)
   over non-empty intervals, in both argument orders *)
Theorem C19_union_intersect_reachable : forall W la ha lb hb,
  ne_ivs la -> Forall ne_op ha -> ne_ivs lb -> Forall ne_op hb ->
  exists A B, lrun la ha = Ok A /\ lrun lb hb = Ok B /\
    (lcov A + lcov B <= W ->
     exists u i, lunion_intersect W A B = Ok (u, i) /\ lunion_intersect W B A = Ok (u, i) /\
       CardOf (fun p => covered (ivs A) p /\ covered (ivs B) p) i /\
       CardOf (fun p => covered (ivs A) p \/ covered (ivs B) p) u).
Proof. exact c19_ui_reachable. Qed.
Print Assumptions C19_union_intersect_reachable.

(* range lemma: the raw additions of calculate_coverage cannot overflow the coordinate type: in every state
   satisfying the invariant whose stops are <= W, cov() <= W (and the running sum is monotone, cov_loop_mono) *)
Theorem C19_cov_no_overflow : forall W L, LInvNE L -> (forall i, In i (ivs L) -> en i <= W) -> lcov L <= W.
Proof. exact lcov_no_overflow. Qed.
Print Assumptions C19_cov_no_overflow.

(* non-vacuity: covered A = [1,8) u [10,12) (9 positions), covered B = [2,4) u [7,11) (6 positions),
   intersection = [2,4) u [7,8) u [10,11) (4), union = 11; both through the unmerged branch
   (sort + merge + coverage of the materialised intersections) and through the merged branch
   (sum of pairwise intersection lengths) *)
Example C19_nonvacuous :
  let la := [mkiv 3 8 0; mkiv 1 5 1; mkiv 10 12 2] in
  let lb := [mkiv 7 11 0; mkiv 2 4 1] in
  ne_ivs la /\ ne_ivs lb /\
  (exists A B, lrun la [] = Ok A /\ lrun lb [SetCov] = Ok B /\
     merged A = false /\ lcov A = 9 /\ lcov B = 6 /\ lcov A + lcov B <= 255 /\
     lunion_intersect 255 A B = Ok (11, 4) /\ lunion_intersect 255 B A = Ok (11, 4)) /\
  (exists A B, lrun la [Merge] = Ok A /\ lrun lb [Merge; SetCov] = Ok B /\
     merged A = true /\ merged B = true /\ lcov A + lcov B <= 255 /\
     lunion_intersect 255 A B = Ok (11, 4) /\ lunion_intersect 255 B A = Ok (11, 4)).
Proof.
  split; [intros i [<-|[<-|[<-|[]]]]; cbn; lia|].
  split; [intros i [<-|[<-|[]]]; cbn; lia|]. split.
  - eexists _, _. split; [vm_compute; reflexivity|]. split; [vm_compute; reflexivity|].
    repeat split; try (vm_compute; reflexivity). vm_compute. discriminate.
  - eexists _, _. split; [vm_compute; reflexivity|]. split; [vm_compute; reflexivity|].
    repeat split; try (vm_compute; reflexivity). vm_compute. discriminate.
Qed.

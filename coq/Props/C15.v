(* Props/C15.v — C15: external sort leaves no temporary files behind.
   The theorems are about the abstract resource model of TmpModel.v (the semantics of the `tempfile`
   crate and of Drop during unwinding are that model's definitions, observed at run time by the
   harness); C15_listing_oracle states what the extracted oracle tmp_ok accepts. *)
From BedV Require Import Base AlgebraModel ExtSortModel TmpModel TmpProofs TmpOracleProofs.

Theorem C15_restored : forall e0 d script,
  ~ In d e0 -> forallb (fun e => negb (is_build e)) script = true -> In TDropSorter script ->
  t_entries (trun (mkT e0 None 0) (TBuild d :: script)) = e0.
Proof. exact tmp_restored. Qed.
Print Assumptions C15_restored.

Theorem C15_confined : forall e0 d script,
  ~ In d e0 -> forallb (fun e => negb (is_build e)) script = true ->
  Forall (fun s => t_entries s = d :: e0 \/ t_entries s = e0) (ttrace (mkT e0 None 0) (TBuild d :: script)).
Proof. exact tmp_confined. Qed.
Print Assumptions C15_confined.

Theorem C15_listing_oracle : forall cfg before during after, tmp_ok cfg before during after = true ->
  (incl before after /\ incl after before) /\
  forall l, In l during -> incl before l /\
    forall x, In x l -> In x before \/ exists rest, x = cfg ++ [47] ++ rest.
Proof. exact tmp_ok_spec. Qed.
Print Assumptions C15_listing_oracle.

Theorem C15_open_files_oracle : forall cfg opens, tmp_open_ok cfg opens = true ->
  forall l p, In l opens -> In p l -> exists rest, p = cfg ++ [47] ++ rest.
Proof. exact tmp_open_ok_spec. Qed.
Print Assumptions C15_open_files_oracle.

(* consistency of model and oracle: every lifetime of the abstract protocol, seen through recursive listings (entries of the
   configured directory as paths under it, anything else around it unchanged), is accepted by the listing oracle *)
Theorem C15_oracle_accepts_model : forall cfg outside e0 d script,
  ~ In d e0 -> forallb (fun e => negb (is_build e)) script = true -> In TDropSorter script ->
  tmp_ok cfg (listing cfg outside e0)
         (map (fun s => listing cfg outside (t_entries s)) (ttrace (mkT e0 None 0) (TBuild d :: script)))
         (listing cfg outside (t_entries (trun (mkT e0 None 0) (TBuild d :: script)))) = true.
Proof. exact tmp_ok_accepts_model. Qed.
Print Assumptions C15_oracle_accepts_model.

(* "c" = configured directory, "o" = where TMPDIR points; ".t" = the sorter's own directory *)
Example C15_nonvacuous :
  let e0 := [[107]; [100; 105; 114]] in
  let script := [TCreateChunk; TCreateChunk; TNextItem; TDropIter; TDropSorter] in
  let b := [[99]; [99; 47; 107]; [111]] in
  ~ In [46; 116] e0 /\ In TDropSorter script /\
  t_entries (trun (mkT e0 None 0) (TBuild [46; 116] :: script)) = e0 /\
  tmp_ok [99] b [[99; 47; 46; 116] :: b; b] b = true /\
  tmp_ok [99] b [[111; 47; 46; 116] :: b] b = false /\          (* created under TMPDIR instead *)
  tmp_ok [99] b [[99; 47; 46; 116] :: [99; 47; 46; 116; 47; 120] :: b] b = true /\    (* a visible chunk file inside the sorter's directory is allowed *)
  tmp_ok [99] b [[99; 47; 46; 116] :: [99; 120] :: b] b = false /\                    (* "cx": a sibling of the configured directory *)
  tmp_ok [99] b [b] ([99; 47; 46; 116] :: b) = false.            (* left behind *)
Proof.
  split; [intros [H|[H|[]]]; discriminate|]. split; [cbn; tauto|].
  split; [vm_compute; reflexivity|]. repeat split; vm_compute; reflexivity.
Qed.

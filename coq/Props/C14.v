(* Props/C14.v — C14: split_by_len / rsplit_by_len produce the unique tiling of [start, end) into
   pieces of the bin length (the short piece last / first).  Only statements, closed by [exact];
   proofs live in AlgebraProofs.v. *)
From BedV Require Import Base AlgebraModel LapperSpecs AlgebraProofs SplitHeadProofs.

Theorem C14_split_tiles : forall s e b, 1 <= b -> exists ps, split_by_len s e b = Ok ps /\ Tiling e b s ps.
Proof. exact split_tiles. Qed.
Print Assumptions C14_split_tiles.

Theorem C14_rsplit_tiles : forall W s e b, 1 <= b -> s < W -> exists ps, rsplit_by_len W s e b = Ok ps /\ RTiling s b e ps.
Proof. exact rsplit_tiles. Qed.
Print Assumptions C14_rsplit_tiles.

Theorem C14_tiling_unique : forall e b s p1 p2, Tiling e b s p1 -> Tiling e b s p2 -> p1 = p2.
Proof. exact tiling_unique. Qed.
Print Assumptions C14_tiling_unique.

Theorem C14_rtiling_unique : forall s b e p1 p2, RTiling s b e p1 -> RTiling s b e p2 -> p1 = p2.
Proof. exact rtiling_unique. Qed.
Print Assumptions C14_rtiling_unique.

Theorem C14_tiling_count : forall e b s ps, 1 <= b -> Tiling e b s ps -> N.of_nat (length ps) = div_ceil (e - s) b.
Proof. exact tiling_count. Qed.
Print Assumptions C14_tiling_count.

Theorem C14_tiling_partition : forall e b s ps, 1 <= b -> Tiling e b s ps ->
   (forall x y, In (x, y) ps -> x < y /\ y - x <= b /\ s <= x /\ y <= e) /\
   (forall p, s <= p /\ p < e -> exists x y, In (x, y) ps /\ x <= p /\ p < y) /\
   (forall x1 y1 x2 y2 p, In (x1, y1) ps -> In (x2, y2) ps -> x1 <= p < y1 -> x2 <= p < y2 -> (x1, y1) = (x2, y2)).
Proof. exact tiling_partition. Qed.
Print Assumptions C14_tiling_partition.

Theorem C14_rtiling_partition : forall s b e ps, 1 <= b -> RTiling s b e ps ->
   (forall x y, In (x, y) ps -> x < y /\ y - x <= b /\ s <= x /\ y <= e) /\
   (forall p, s <= p /\ p < e -> exists x y, In (x, y) ps /\ x <= p /\ p < y) /\
   (forall x1 y1 x2 y2 p, In (x1, y1) ps -> In (x2, y2) ps -> x1 <= p < y1 -> x2 <= p < y2 -> (x1, y1) = (x2, y2)).
Proof. exact rtiling_partition. Qed.
Print Assumptions C14_rtiling_partition.

Theorem C14_split_empty : forall s e b, 1 <= b -> e <= s -> split_by_len s e b = Ok [] /\ (forall W, s < W -> rsplit_by_len W s e b = Ok []).
Proof. exact split_empty. Qed.
Print Assumptions C14_split_empty.

(* non-vacuity: concrete runs with a short remainder piece, an exact multiple, an empty range, and
   the two Panic conditions (bin 0; start at the type maximum W for rsplit) *)
Example C14_nonvacuous :
  split_by_len 3 10 3 = Ok [(3, 6); (6, 9); (9, 10)] /\
  rsplit_by_len 18446744073709551615 3 10 3 = Ok [(7, 10); (4, 7); (3, 4)] /\
  split_by_len 0 9 3 = Ok [(0, 3); (3, 6); (6, 9)] /\
  rsplit_by_len 18446744073709551615 0 9 3 = Ok [(6, 9); (3, 6); (0, 3)] /\
  split_by_len 10 3 3 = Ok [] /\ rsplit_by_len 18446744073709551615 10 3 3 = Ok [] /\
  split_by_len 3 10 0 = Panic /\ rsplit_by_len 7 7 10 3 = Panic /\
  Tiling 10 3 3 [(3, 6); (6, 9); (9, 10)] /\ RTiling 3 3 10 [(7, 10); (4, 7); (3, 4)] /\
  div_ceil (10 - 3) 3 = 3.
Proof.
  repeat split; try (vm_compute; reflexivity).
  - change 6 with (3 + 3). apply T_cons; [vm_compute; reflexivity|].
    change (3 + 3) with 6. change 9 with (6 + 3). apply T_cons; [vm_compute; reflexivity|].
    change (6 + 3) with 9. apply T_last; vm_compute; [reflexivity|discriminate].
  - change 7 with (10 - 3) at 1. apply R_cons; [vm_compute; reflexivity|].
    change (10 - 3) with 7. change 4 with (7 - 3) at 1. apply R_cons; [vm_compute; reflexivity|].
    change (7 - 3) with 4. apply R_last; vm_compute; [reflexivity|discriminate].
Qed.

(* the first k pieces (what a lazy consumer sees of a record with astronomically many pieces) are the prefix of the
   tiling; the executable split_head / rsplit_head are what the `splithead` cases of the run are compared with *)
Theorem C14_split_head_prefix : forall s e b k l, split_by_len s e b = Ok l ->
  split_head s e b k = Ok (firstn (N.to_nat k) l).
Proof. exact split_head_prefix. Qed.
Print Assumptions C14_split_head_prefix.

Theorem C14_rsplit_head_prefix : forall W s e b k l, rsplit_by_len W s e b = Ok l ->
  rsplit_head W s e b k = Ok (firstn (N.to_nat k) l).
Proof. exact rsplit_head_prefix. Qed.
Print Assumptions C14_rsplit_head_prefix.

Example C14_head_nonvacuous :
  split_head 0 4611686018427387904 1 3 = Ok [(0, 1); (1, 2); (2, 3)] /\
  rsplit_head 18446744073709551615 0 4611686018427387904 3 2 =
    Ok [(4611686018427387901, 4611686018427387904); (4611686018427387898, 4611686018427387901)] /\
  split_head 5 12 5 9 = Ok [(5, 10); (10, 12)] /\ split_by_len 5 12 5 = Ok [(5, 10); (10, 12)].
Proof. repeat match goal with |- _ /\ _ => split end; vm_compute; reflexivity. Qed.

(* Props/C07.v — C07: merge_sorted_bed_with partitions a sorted stream into maximal chained groups;
   merge_sorted_bed returns one range per group.
   Only statements, closed by [exact]; proofs live in MergeBedProofs.v. *)
From BedV Require Import Base AlgebraModel MergeBedProofs.

(* On a stream sorted by BEDLike::compare the iterator does not panic and yields groups gs with:
   concatenation = input, every group is one connected run on one chromosome (Chained), and no two
   consecutive groups could be joined (different chromosome, or the next start lies strictly beyond
   the running maximum end). *)
Theorem C07_groups : forall l, sorted_recs l -> exists gs, merge_groups l = Ok gs /\ Groups l gs.
Proof. exact merge_groups_spec. Qed.
Print Assumptions C07_groups.

(* that partition is the only one with these properties *)
Theorem C07_groups_unique : forall l g1 g2, Groups l g1 -> Groups l g2 -> g1 = g2.
Proof. exact groups_unique. Qed.
Print Assumptions C07_groups_unique.

(* whatever the input: when the iterator finishes without panic, every record was emitted exactly
   once, in order *)
Theorem C07_every_record_once : forall l gs, merge_groups l = Ok gs -> concat gs = l.
Proof. exact merge_groups_every_record_once. Qed.
Print Assumptions C07_every_record_once.

(* merge_sorted_bed: one range (chromosome of the first record, min start, max end) per group; the
   ranges are sorted, pairwise disjoint and non-adjacent inside one chromosome, and cover exactly the
   positions covered by the input (no hypothesis on record lengths is needed) *)
Theorem C07_merged_ranges : forall l, sorted_recs l -> exists gs out,
    merge_groups l = Ok gs /\ merge_sorted_bed l = Ok out /\
    out = map (fun g => (b_chr (hd (mkB [] 0 0 0%Z) g), fold_left N.min (map b_st g) (b_st (hd (mkB [] 0 0 0%Z) g)), gmax g)) gs /\
    (forall pre x y post, out = pre ++ x :: y :: post ->
        let '(c1, s1, e1) := x in let '(c2, s2, e2) := y in
        bytes_cmp c1 c2 = Lt \/ (c1 = c2 /\ e1 < s2)) /\
    (forall ch p, (exists r, In r l /\ b_chr r = ch /\ b_st r <= p /\ p < b_en r) <->
                  (exists c s e, In (c, s, e) out /\ rcovers c s e ch p)).
Proof. exact merge_sorted_bed_spec. Qed.
Print Assumptions C07_merged_ranges.

(* non-vacuity: a sorted stream with a nested record, a touching record, a gap, a chromosome change
   and a zero-length record *)
Example C07_nonvacuous :
  let l := [mkB [1] 0 10 0; mkB [1] 2 5 1; mkB [1] 10 12 2; mkB [1] 20 25 3; mkB [2] 0 3 4; mkB [2] 3 3 5] in
  sorted_recs l /\
  merge_groups l = Ok [[mkB [1] 0 10 0; mkB [1] 2 5 1; mkB [1] 10 12 2]; [mkB [1] 20 25 3]; [mkB [2] 0 3 4; mkB [2] 3 3 5]] /\
  merge_sorted_bed l = Ok [([1], 0, 12); ([1], 20, 25); ([2], 0, 3)].
Proof.
  split; [|split; vm_compute; reflexivity].
  repeat (constructor; [|repeat (constructor; [vm_compute; discriminate|]); constructor]). constructor.
Qed.

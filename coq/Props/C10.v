(* Props/C10.v — C10: the k-way merger (BinaryHeapMerger::next) never panics, delivers every item of
   every sorted, error-free chunk exactly once in comparator order, stays ended, and delivers chunk errors.
   Only statements, closed by [exact]; proofs live in MergerProofs.v.
   Vocabulary (MergerProofs.v): no_err c = the chunk holds no Err item; ok_head c = the Ok items of a chunk
   before its first Err; chunk_sorted rev c = ok_head c is in comparator order; outs_oks outs = the Ok items
   of the consumed stream; ok_prefix outs (model) = the Ok items delivered before the first Err;
   merger_drain_state = merger_drain returning the state reached at the first None instead of the items. *)
From BedV Require Import Base ListFacts AlgebraModel ExtSortModel MergerProofs.

(* whatever the chunks hold (sorted or not, with or without errors), draining the merger does not panic:
   every heap entry's chunk index is in bounds and the fuel suffices *)
Theorem C10_no_panic : forall rev chunks, exists outs, merge_all rev chunks = Ok outs.
Proof. exact merge_no_panic. Qed.
Print Assumptions C10_no_panic.

(* sorted error-free chunks: no error is delivered, the stream is in non-decreasing comparator order and
   is a permutation of all the chunks' items (each exactly once); both comparators *)
Theorem C10_sorted_complete : forall rev chunks, Forall no_err chunks -> Forall (chunk_sorted rev) chunks ->
  exists outs, merge_all rev chunks = Ok outs /\ has_out_err outs = false /\
    sorted_keys rev (outs_oks outs) = true /\ Permutation (outs_oks outs) (all_oks chunks) /\
    length (outs_oks outs) = length outs.
Proof. exact merge_sorted. Qed.
Print Assumptions C10_sorted_complete.

(* after the first None the merger answers None forever *)
Theorem C10_stays_ended : forall rev chunks outs,
  merger_drain rev (S (S (total_len chunks))) (mkM chunks [] false) = Ok outs -> has_out_err outs = false ->
  exists sf, merger_drain_state rev (S (S (total_len chunks))) (mkM chunks [] false) = Ok sf /\
    forall n, merger_calls rev n sf = Ok (repeat None n).
Proof. exact merge_stays_ended. Qed.
Print Assumptions C10_stays_ended.
(* ... from any state and whether or not errors were delivered *)
Theorem C10_stays_ended_gen : forall rev fuel s outs, merger_drain rev fuel s = Ok outs ->
  exists sf, merger_drain_state rev fuel s = Ok sf /\ forall n, merger_calls rev n sf = Ok (repeat None n).
Proof. exact merge_stays_ended_gen. Qed.
Print Assumptions C10_stays_ended_gen.

(* an error item anywhere in any chunk reaches the consumer before the stream ends *)
Theorem C10_err_delivered : forall rev chunks, (exists c, In c chunks /\ exists x, In x c /\ is_merr x = true) ->
  exists outs, merge_all rev chunks = Ok outs /\ has_out_err outs = true.
Proof. exact merge_err_delivered. Qed.
Print Assumptions C10_err_delivered.

(* the items delivered before the first error are in order *)
Theorem C10_err_prefix : forall rev chunks outs,
  Forall (chunk_sorted rev) chunks -> merge_all rev chunks = Ok outs -> sorted_keys rev (ok_prefix outs) = true.
Proof. exact merge_err_prefix. Qed.
Print Assumptions C10_err_prefix.

(* a stream that ended without an error came from error-free chunks *)
Theorem C10_complete_if_clean : forall rev chunks outs,
  merge_all rev chunks = Ok outs -> has_out_err outs = false -> Forall no_err chunks.
Proof. exact merge_complete_if_clean. Qed.
Print Assumptions C10_complete_if_clean.

(* the extracted outcome oracle accepts the model's own behaviour on sorted chunks ... *)
Theorem C10_oracle : forall rev chunks outs,
  Forall (chunk_sorted rev) chunks -> merge_all rev chunks = Ok outs -> merge_oracle rev chunks outs = true.
Proof. exact merge_oracle_accepts_model. Qed.
Print Assumptions C10_oracle.
(* ... and what its verdict means for any observed stream *)
Theorem C10_oracle_sound : forall rev chunks outs, merge_oracle rev chunks outs = true ->
  sorted_keys rev (ok_prefix outs) = true /\
  (has_out_err outs = false -> Forall no_err chunks /\ Permutation (outs_oks outs) (all_oks chunks)) /\
  (has_out_err outs = true -> exists c, In c chunks /\ ~ no_err c).
Proof. exact merge_oracle_sound. Qed.
Print Assumptions C10_oracle_sound.

(* non-vacuity 1: the test-suite case of merger.rs *)
Example C10_nonvacuous :
  let chunks := [[MOk 4 0; MOk 5 1; MOk 7 2]; [MOk 1 3; MOk 6 4]; [MOk 3 5]; []] in
  let outs := [OutOk 1 3; OutOk 3 5; OutOk 4 0; OutOk 5 1; OutOk 6 4; OutOk 7 2] in
  Forall no_err chunks /\ Forall (chunk_sorted false) chunks /\
  merge_all false chunks = Ok outs /\ merge_oracle false chunks outs = true /\
  exists sf, merger_drain_state false (S (S (total_len chunks))) (mkM chunks [] false) = Ok sf /\
             merger_calls false 3 sf = Ok [None; None; None].
Proof.
  cbv zeta. split; [apply planted_false; vm_compute; reflexivity|].
  split; [repeat (constructor; [vm_compute; reflexivity|]); constructor|].
  split; [vm_compute; reflexivity|]. split; [vm_compute; reflexivity|].
  eexists. split; vm_compute; reflexivity.
Qed.
(* non-vacuity 2: ties across chunks (equal keys come out by larger chunk index first), both comparators *)
Example C10_tie_nonvacuous :
  let up := [[MOk 2 0; MOk 5 1]; [MOk 2 2; MOk 5 3]; [MOk 1 4; MOk 2 5]] in
  let down := [[MOk 5 1; MOk 2 0]; [MOk 5 3; MOk 2 2]; [MOk 2 5; MOk 1 4]] in
  Forall no_err up /\ Forall (chunk_sorted false) up /\ Forall no_err down /\ Forall (chunk_sorted true) down /\
  merge_all false up = Ok [OutOk 1 4; OutOk 2 5; OutOk 2 2; OutOk 2 0; OutOk 5 3; OutOk 5 1] /\
  merge_all true down = Ok [OutOk 5 3; OutOk 5 1; OutOk 2 5; OutOk 2 2; OutOk 2 0; OutOk 1 4].
Proof.
  cbv zeta. split; [apply planted_false; vm_compute; reflexivity|].
  split; [repeat (constructor; [vm_compute; reflexivity|]); constructor|].
  split; [apply planted_false; vm_compute; reflexivity|].
  split; [repeat (constructor; [vm_compute; reflexivity|]); constructor|].
  split; vm_compute; reflexivity.
Qed.
(* non-vacuity 3: planted errors. First the test-suite case; then an error met as the refill of a popped
   item: the popped item (1,0) is dropped, the error is returned, the rest of that chunk is never read *)
Example C10_err_nonvacuous :
  let c1 := [[MOk 3 0; MErr 9]; [MOk 1 1; MOk 2 2]] in
  let c2 := [[MOk 1 0; MErr 7; MOk 9 9]; [MOk 2 1]] in
  (exists c, In c c1 /\ exists x, In x c /\ is_merr x = true) /\ Forall (chunk_sorted false) c1 /\
  merge_all false c1 = Ok [OutOk 1 1; OutOk 2 2; OutErr 9] /\
  merge_oracle false c1 [OutOk 1 1; OutOk 2 2; OutErr 9] = true /\
  (exists c, In c c2 /\ exists x, In x c /\ is_merr x = true) /\ Forall (chunk_sorted false) c2 /\
  merge_all false c2 = Ok [OutErr 7; OutOk 2 1] /\
  merge_oracle false c2 [OutErr 7; OutOk 2 1] = true.
Proof.
  cbv zeta. split; [apply planted_spec; vm_compute; reflexivity|].
  split; [repeat (constructor; [vm_compute; reflexivity|]); constructor|].
  split; [vm_compute; reflexivity|]. split; [vm_compute; reflexivity|].
  split; [apply planted_spec; vm_compute; reflexivity|].
  split; [repeat (constructor; [vm_compute; reflexivity|]); constructor|].
  split; vm_compute; reflexivity.
Qed.

(* Props/C18.v — C18: merge_overlaps yields the canonical disjoint cover, which is unique and
   idempotent; the lapper stays fully usable after a merge.
   Only statements, closed by [exact]; proofs live in MergeProofs.v and CovProofs.v. *)
From BedV Require Import Base LapperModel LapperProofs LapperSpecs MergeProofs CovProofs.

(* For every initial vector l and every history h of insert / merge_overlaps / set_cov over
   non-empty intervals (start < stop), the run does not panic; in the reached state L0 the stored
   list of merge_overlaps(L0) is a canonical cover of the positions covered by L0 (ascending,
   pairwise disjoint and non-adjacent, non-empty intervals, same covered set), merging again changes
   nothing, and the merged lapper satisfies the full reachable-state invariant. *)
Theorem C18_merge_canonical : forall l h, ne_ivs l -> Forall ne_op h ->
  exists L0, lrun l h = Ok L0 /\ LInvNE L0 /\
    IsCanonOf (ivs L0) (ivs (lmerge L0)) /\ ivs (lmerge (lmerge L0)) = ivs (lmerge L0) /\ LInvNE (lmerge L0).
Proof. exact c18_merge_canonical. Qed.
Print Assumptions C18_merge_canonical.

(* the canonical cover of a list is unique up to the payloads *)
Theorem C18_canonical_unique : forall l c1 c2, IsCanonOf l c1 -> IsCanonOf l c2 -> ends c1 = ends c2.
Proof. exact canon_unique. Qed.
Print Assumptions C18_canonical_unique.

(* any history containing a merge, continued arbitrarily: no panic, find = filter overlap,
   count = its length, cov = the cardinality of the covered position set *)
Theorem C18_after_merge : forall l h h' qs qe, ne_ivs l -> Forall ne_op h -> Forall ne_op h' -> qs < qe ->
  exists L, lrun l (h ++ Merge :: h') = Ok L /\ LInvNE L /\
    lfind L qs qe = Ok (filter (ovl qs qe) (ivs L)) /\
    lcount L qs qe = Ok (length (filter (ovl qs qe) (ivs L))) /\
    CardOf (covered (ivs L)) (lcov L).
Proof. exact c18_after_merge. Qed.
Print Assumptions C18_after_merge.

(* non-vacuity: a concrete history meets the hypotheses; the merge collapses four overlapping
   intervals into one, and a later insert / find / count / cov still work *)
Example C18_nonvacuous :
  let l := [mkiv 5 10 0; mkiv 1 3 1; mkiv 2 6 2; mkiv 20 25 3] in
  let h := [Insert (mkiv 9 12 4); SetCov; Insert (mkiv 30 31 5)] in
  let h' := [Insert (mkiv 11 21 6); SetCov] in
  ne_ivs l /\ Forall ne_op h /\ Forall ne_op h' /\
  (exists L0, lrun l h = Ok L0 /\ length (ivs L0) = 6%nat /\
     ends (ivs (lmerge L0)) = [(1, 12); (20, 25); (30, 31)] /\ lcov (lmerge L0) = 17 /\
     merged (lmerge L0) = true) /\
  (exists L, lrun l (h ++ Merge :: h') = Ok L /\
     lfind L 4 12 = Ok [mkiv 1 12 1; mkiv 11 21 6] /\ lcount L 4 12 = Ok 2%nat /\ lcov L = 25).
Proof.
  split; [intros i [<-|[<-|[<-|[<-|[]]]]]; cbn; lia|].
  split; [repeat constructor; cbn; lia|]. split; [repeat constructor; cbn; lia|]. split.
  - eexists. split; [vm_compute; reflexivity|]. repeat split; vm_compute; reflexivity.
  - eexists. split; [vm_compute; reflexivity|]. repeat split; vm_compute; reflexivity.
Qed.

(* Props/C20.v — C20: Lapper::depth reports the maximal run-length encoding of the depth function.
   Only statements, closed by [exact]; proofs live in DepthProofs.v. *)
From BedV Require Import Base LapperModel LapperProofs LapperSpecs DepthProofs.

(* For every initial vector l and every history h of insert / merge_overlaps / set_cov over non-empty
   intervals whose stop does not exceed W (the maximum of the coordinate type): the run does not panic,
   and in the reached state the depth iterator does not panic either (no slice index out of range, no
   overflow of p + 1, the fuel of the model suffices) and yields runs rs with DepthRLE (ivs L) rs:
   every run is non-empty, has depth >= 1 and every position of the run is covered by exactly that many
   stored intervals; runs are ascending and disjoint; touching runs differ in depth; the runs cover
   exactly the positions covered by some stored interval. *)
Theorem C20_depth_rle : forall W l h,
  ne_ivs l -> Forall ne_op h -> (forall i, In i l -> en i <= W) ->
  (forall o, In o h -> match o with Insert i => en i <= W | _ => True end) ->
  exists L rs, lrun l h = Ok L /\ ldepth W L = Ok rs /\ DepthRLE (ivs L) rs.
Proof. exact c20_depth. Qed.
Print Assumptions C20_depth_rle.

(* one probe of the iterator: at a position p < W, with a cursor valid for a bound not beyond
   p - max_len, the probe returns the number of stored intervals covering p and a cursor valid for p *)
Theorem C20_depth_step_counts : forall W L p c b, LInv L -> CurOK L c b -> b <= p - max_len L -> p < W ->
  exists c', depth_at W L p c = Ok (depth_at_pos (ivs L) p, c') /\ CurOK L c' (p - max_len L).
Proof. exact depth_at_spec. Qed.
Print Assumptions C20_depth_step_counts.

(* the empty lapper has no runs *)
Theorem C20_empty : forall W, ldepth W (lnew []) = Ok [].
Proof. exact depth_empty. Qed.
Print Assumptions C20_empty.

(* DepthRLE determines the runs: two encodings of the same stored intervals coincide *)
Theorem C20_unique : forall l r1 r2, DepthRLE l r1 -> DepthRLE l r2 ->
  map (fun r => (st r, en r, vl r)) r1 = map (fun r => (st r, en r, vl r)) r2.
Proof. exact depth_rle_unique. Qed.
Print Assumptions C20_unique.

(* non-vacuity: nested, duplicated, book-ended intervals, a gap, an interval reaching W = 255 *)
Example C20_nonvacuous :
  let l := [mkiv 5 20 0; mkiv 0 3 1; mkiv 8 12 2; mkiv 12 15 3; mkiv 8 12 4; mkiv 20 22 5; mkiv 30 31 6] in
  let h := [Insert (mkiv 10 11 7); SetCov; Insert (mkiv 200 255 8); Insert (mkiv 0 1 9)] in
  ne_ivs l /\ Forall ne_op h /\ (forall i, In i l -> en i <= 255) /\
  (forall o, In o h -> match o with Insert i => en i <= 255 | _ => True end) /\
  exists L, lrun l h = Ok L /\ length (ivs L) = 10%nat /\
    ldepth 255 L = Ok [mkiv 0 1 2; mkiv 1 3 1; mkiv 5 8 1; mkiv 8 10 3; mkiv 10 11 4; mkiv 11 12 3;
                       mkiv 12 15 2; mkiv 15 22 1; mkiv 30 31 1; mkiv 200 255 1].
Proof.
  split; [intros i [<-|[<-|[<-|[<-|[<-|[<-|[<-|[]]]]]]]]; cbn; lia|].
  split; [repeat constructor; cbn; lia|].
  split; [intros i [<-|[<-|[<-|[<-|[<-|[<-|[<-|[]]]]]]]]; cbn; lia|].
  split; [intros o [<-|[<-|[<-|[<-|[]]]]]; cbn; try lia; exact I|].
  eexists. split; [vm_compute; reflexivity|]. split; vm_compute; reflexivity.
Qed.

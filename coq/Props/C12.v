(* Props/C12.v — C12: the FromStr implementations of src/bed.rs are total (no panic on any input) and
   report the first bad column; extra trailing columns are ignored.
   Only statements, closed by [exact]; proofs live in TextProofs.v.
   col_ok k c says that column k (0 = chrom, 1 = start, 2 = end, 3 = name, 4 = score, 5 = strand) is
   accepted by its column parser; err_missing k / err_invalid k are the errors of column k. *)
From BedV Require Import Base AlgebraModel TextModel TextProofs.

(* no parser panics, whatever the input bytes and whatever f64::from_str does *)
Theorem C12_total :
  (forall s, parse_grange s <> PPanic) /\ (forall n s, parse_bed n s <> PPanic) /\
  (forall pf s, parse_npeak pf s <> PPanic) /\ (forall pf s, parse_bpeak pf s <> PPanic) /\
  (forall fl pf s, parse_bgraph fl pf s <> PPanic).
Proof. exact parsers_total. Qed.
Print Assumptions C12_total.

(* BED<n>: if columns 0..k-1 are present and accepted, a missing column k gives Missing<k>, a rejected
   column k gives Invalid<k> *)
Theorem C12_first_bad_column_bed : forall n s k, 3 <= n <= 6 -> (k < N.to_nat n)%nat ->
  let cols := split_on is_tab s in cols_ok_below cols k ->
  (nth_error cols k = None -> parse_bed n s = PErr (err_missing k)) /\
  (forall c, nth_error cols k = Some c -> col_ok k c = false -> parse_bed n s = PErr (err_invalid k)).
Proof. exact first_bad_column_bed. Qed.
Print Assumptions C12_first_bad_column_bed.

Theorem C12_all_columns_ok_bed : forall n s, 3 <= n <= 6 ->
  cols_ok_below (split_on is_tab s) (N.to_nat n) -> exists r, parse_bed n s = POk r.
Proof. exact all_columns_ok_bed. Qed.
Print Assumptions C12_all_columns_ok_bed.

(* GenomicRange: columns are separated by TAB, ':' or '-' *)
Theorem C12_first_bad_column_grange : forall s k, (k < 3)%nat ->
  let cols := split_on is_gr_delim s in cols_ok_below cols k ->
  (nth_error cols k = None -> parse_grange s = PErr (err_missing k)) /\
  (forall c, nth_error cols k = Some c -> col_ok k c = false -> parse_grange s = PErr (err_invalid k)).
Proof. exact first_bad_column_grange. Qed.
Print Assumptions C12_first_bad_column_grange.

Theorem C12_all_columns_ok_grange : forall s, cols_ok_below (split_on is_gr_delim s) 3 ->
  exists r, parse_grange s = POk r.
Proof. exact all_columns_ok_grange. Qed.
Print Assumptions C12_all_columns_ok_grange.

(* NarrowPeak / BroadPeak: the six BED columns decide first *)
Theorem C12_first_bad_column_npeak : forall pf s k, (k < 6)%nat ->
  let cols := split_on is_tab s in cols_ok_below cols k ->
  (nth_error cols k = None -> parse_npeak pf s = PErr (err_missing k)) /\
  (forall c, nth_error cols k = Some c -> col_ok k c = false -> parse_npeak pf s = PErr (err_invalid k)).
Proof. exact first_bad_column_npeak. Qed.
Print Assumptions C12_first_bad_column_npeak.

Theorem C12_first_bad_column_bpeak : forall pf s k, (k < 6)%nat ->
  let cols := split_on is_tab s in cols_ok_below cols k ->
  (nth_error cols k = None -> parse_bpeak pf s = PErr (err_missing k)) /\
  (forall c, nth_error cols k = Some c -> col_ok k c = false -> parse_bpeak pf s = PErr (err_invalid k)).
Proof. exact first_bad_column_bpeak. Qed.
Print Assumptions C12_first_bad_column_bpeak.

(* BedGraph: chrom, start, end decide first *)
Theorem C12_first_bad_column_bgraph : forall fl pf s k, (k < 3)%nat ->
  let cols := split_on is_tab s in cols_ok_below cols k ->
  (nth_error cols k = None -> parse_bgraph fl pf s = PErr (err_missing k)) /\
  (forall c, nth_error cols k = Some c -> col_ok k c = false -> parse_bgraph fl pf s = PErr (err_invalid k)).
Proof. exact first_bad_column_bgraph. Qed.
Print Assumptions C12_first_bad_column_bgraph.

(* once the BED columns are accepted, only the format-specific columns can fail, with
   MissingField / InvalidField: never a BED-column error, never a panic *)
Theorem C12_ext_columns_npeak : forall pf s, cols_ok_below (split_on is_tab s) 6 ->
  (exists r, parse_npeak pf s = POk r) \/ parse_npeak pf s = PErr MissingField \/ parse_npeak pf s = PErr InvalidField.
Proof. exact ext_columns_npeak. Qed.
Print Assumptions C12_ext_columns_npeak.

Theorem C12_ext_columns_bpeak : forall pf s, cols_ok_below (split_on is_tab s) 6 ->
  (exists r, parse_bpeak pf s = POk r) \/ parse_bpeak pf s = PErr MissingField \/ parse_bpeak pf s = PErr InvalidField.
Proof. exact ext_columns_bpeak. Qed.
Print Assumptions C12_ext_columns_bpeak.

Theorem C12_ext_columns_bgraph : forall fl pf s, cols_ok_below (split_on is_tab s) 3 ->
  (exists r, parse_bgraph fl pf s = POk r) \/ parse_bgraph fl pf s = PErr MissingField \/ parse_bgraph fl pf s = PErr InvalidField.
Proof. exact ext_columns_bgraph. Qed.
Print Assumptions C12_ext_columns_bgraph.

(* columns after those the format reads do not change the result *)
Theorem C12_extra_columns_ignored_bed : forall n s r x, 3 <= n <= 6 -> parse_bed n s = POk r ->
  parse_bed n (s ++ TAB :: x) = POk r.
Proof. exact extra_columns_ignored_bed. Qed.
Print Assumptions C12_extra_columns_ignored_bed.

Theorem C12_extra_columns_ignored_npeak : forall pf s r x, parse_npeak pf s = POk r ->
  parse_npeak pf (s ++ TAB :: x) = POk r.
Proof. exact extra_columns_ignored_npeak. Qed.
Print Assumptions C12_extra_columns_ignored_npeak.

Theorem C12_extra_columns_ignored_bpeak : forall pf s r x, parse_bpeak pf s = POk r ->
  parse_bpeak pf (s ++ TAB :: x) = POk r.
Proof. exact extra_columns_ignored_bpeak. Qed.
Print Assumptions C12_extra_columns_ignored_bpeak.

Theorem C12_extra_columns_ignored_bgraph : forall fl pf s r x, parse_bgraph fl pf s = POk r ->
  parse_bgraph fl pf (s ++ TAB :: x) = POk r.
Proof. exact extra_columns_ignored_bgraph. Qed.
Print Assumptions C12_extra_columns_ignored_bgraph.

Ltac vc := lazymatch goal with |- _ /\ _ => split; [vc|vc] | |- _ => vm_compute; reflexivity end.

(* non-vacuity 1: "chr1\t12x\t200": column 0 accepted, column 1 present and rejected -> InvalidStart;
   "chr1\t5": columns 0, 1 accepted, column 2 missing -> MissingEnd *)
Example C12_first_bad_nonvacuous :
  let s1 := [99; 104; 114; 49; 9; 49; 50; 120; 9; 50; 48; 48] in
  let s2 := [99; 104; 114; 49; 9; 53] in
  (cols_ok_below (split_on is_tab s1) 1 /\ nth_error (split_on is_tab s1) 1 = Some [49; 50; 120] /\
   col_ok 1 [49; 50; 120] = false /\ parse_bed 3 s1 = PErr InvalidStart) /\
  (cols_ok_below (split_on is_tab s2) 2 /\ nth_error (split_on is_tab s2) 2 = None /\
   parse_bed 3 s2 = PErr MissingEnd /\ parse_bgraph false (fun _ => None) s2 = PErr MissingEnd).
Proof.
  cbv zeta. split; (split; [|vc]).
  - intros j Hj. destruct j as [|j]; [|exfalso; lia]. eexists. split; [vm_compute; reflexivity|]. vm_compute; reflexivity.
  - intros j Hj. destruct j as [|[|j]]; try (exfalso; lia); eexists; (split; [vm_compute; reflexivity|]); vm_compute; reflexivity.
Qed.

(* non-vacuity 2: "chr1\t1\t2\t.\t0\t.\tabc": six accepted BED columns, the signalValue column is rejected
   by a parse_f that accepts nothing -> InvalidField; without the seventh column -> MissingField *)
Example C12_ext_nonvacuous :
  let s := [99; 104; 114; 49; 9; 49; 9; 50; 9; 46; 9; 48; 9; 46; 9; 97; 98; 99] in
  let s' := [99; 104; 114; 49; 9; 49; 9; 50; 9; 46; 9; 48; 9; 46] in
  cols_ok_below (split_on is_tab s) 6 /\ parse_npeak (fun _ => None) s = PErr InvalidField /\
  cols_ok_below (split_on is_tab s') 6 /\ parse_bpeak (fun _ => None) s' = PErr MissingField.
Proof.
  assert (Hc : forall l, (forall j, (j < 6)%nat -> exists c, nth_error l j = Some c /\ col_ok j c = true) -> cols_ok_below l 6)
    by (intros l H; exact H).
  cbv zeta. split; [|split; [vc|split; [|vc]]]; apply Hc;
    intros j Hj; destruct j as [|[|[|[|[|[|j]]]]]]; try (exfalso; lia); eexists; (split; [vm_compute; reflexivity|]); vm_compute; reflexivity.
Qed.

(* non-vacuity 3: "chr1\t1\t2" parses as BED3, and so does "chr1\t1\t2\tjunk\t7" *)
Example C12_extra_nonvacuous :
  let s := [99; 104; 114; 49; 9; 49; 9; 50] in
  let x := [106; 117; 110; 107; 9; 55] in
  parse_bed 3 s = POk (mkBed [99; 104; 114; 49] 1 2 None None None) /\
  parse_bed 3 (s ++ TAB :: x) = POk (mkBed [99; 104; 114; 49] 1 2 None None None).
Proof. cbv zeta. vc. Qed.

(* Props/C13.v — C13: the BEDLike algebra (len, compare, overlap, n_overlap) meets its declarative
   specification.  Only statements, closed by [exact]; proofs live in AlgebraProofs.v. *)
From BedV Require Import Base AlgebraModel LapperSpecs AlgebraProofs.

Theorem C13_overlap_spec : forall a b c s e, boverlap a b = Some (c, s, e) <->
   (b_chr a = b_chr b /\ N.max (b_st a) (b_st b) < N.min (b_en a) (b_en b) /\ c = b_chr a /\ s = N.max (b_st a) (b_st b) /\ e = N.min (b_en a) (b_en b)).
Proof. exact overlap_spec. Qed.
Print Assumptions C13_overlap_spec.

Theorem C13_overlap_positions : forall a b c s e, boverlap a b = Some (c, s, e) ->
   forall ch p, (ch = c /\ s <= p /\ p < e) <-> (bcovers a ch p /\ bcovers b ch p).
Proof. exact overlap_positions. Qed.
Print Assumptions C13_overlap_positions.

Theorem C13_overlap_none_iff : forall a b, boverlap a b = None <-> ~ (exists ch p, bcovers a ch p /\ bcovers b ch p).
Proof. exact overlap_none_iff. Qed.
Print Assumptions C13_overlap_none_iff.

Theorem C13_overlap_sym : forall a b, boverlap a b = boverlap b a.
Proof. exact overlap_sym. Qed.
Print Assumptions C13_overlap_sym.

Theorem C13_n_overlap_card : forall a b, CardOf (fun p => exists ch, bcovers a ch p /\ bcovers b ch p) (bn_overlap a b).
Proof. exact n_overlap_card. Qed.
Print Assumptions C13_n_overlap_card.

Theorem C13_len_spec : forall r, (b_st r <= b_en r -> b_st r + blen r = b_en r) /\ (b_en r < b_st r -> blen r = 0) /\ CardOf (fun p => b_st r <= p /\ p < b_en r) (blen r).
Proof. exact len_spec. Qed.
Print Assumptions C13_len_spec.

Theorem C13_compare_refl : forall a, bcompare a a = Eq.
Proof. exact compare_refl. Qed.
Print Assumptions C13_compare_refl.

Theorem C13_compare_eq_iff : forall a b, bcompare a b = Eq <-> (b_chr a = b_chr b /\ b_st a = b_st b /\ b_en a = b_en b).
Proof. exact compare_eq_iff. Qed.
Print Assumptions C13_compare_eq_iff.

Theorem C13_compare_antisym : forall a b, bcompare b a = CompOpp (bcompare a b).
Proof. exact compare_antisym. Qed.
Print Assumptions C13_compare_antisym.

Theorem C13_compare_trans : forall a b c, bcompare a b = Lt -> bcompare b c = Lt -> bcompare a c = Lt.
Proof. exact compare_trans. Qed.
Print Assumptions C13_compare_trans.

Theorem C13_compare_lex : forall a b, bcompare a b = Lt <->
   (bytes_cmp (b_chr a) (b_chr b) = Lt \/ (b_chr a = b_chr b /\ (b_st a < b_st b \/ (b_st a = b_st b /\ b_en a < b_en b)))).
Proof. exact compare_lex. Qed.
Print Assumptions C13_compare_lex.

(* non-vacuity: concrete records exercise every function, including an overlapping pair, a pair on
   different chromosomes, a touching pair, an inverted record (end < start) and all three orderings *)
Example C13_nonvacuous :
  let a := mkB [99; 104; 114; 49] 10 20 0%Z in
  let b := mkB [99; 104; 114; 49] 15 30 1%Z in
  let c := mkB [99; 104; 114; 50] 15 30 2%Z in
  let d := mkB [99; 104; 114; 49] 20 25 3%Z in
  let i := mkB [99; 104; 114; 49] 9 4 4%Z in
  boverlap a b = Some ([99; 104; 114; 49], 15, 20) /\ bn_overlap a b = 5 /\
  boverlap a c = None /\ bn_overlap a c = 0 /\
  boverlap a d = None /\ boverlap b d = Some ([99; 104; 114; 49], 20, 25) /\
  blen a = 10 /\ blen i = 0 /\
  bcompare a b = Lt /\ bcompare b a = Gt /\ bcompare b c = Lt /\ bcompare a c = Lt /\
  bcompare a a = Eq /\ bcompare a (mkB [99; 104; 114; 49] 10 21 0%Z) = Lt /\
  bcovers a [99; 104; 114; 49] 17 /\ bcovers b [99; 104; 114; 49] 17.
Proof.
  cbv zeta. unfold bcovers. repeat split; try (vm_compute; reflexivity); cbn; lia.
Qed.

(* Props/C17.v — C17: cursor-based seek agrees with find on ascending queries. *)
From BedV Require Import Base LapperModel LapperProofs.

(* Every reachable state (new; insert / merge / set_cov, intervals with start <= stop), every finite
   sequence of queries with non-decreasing starts through ONE cursor that began at 0: no panic
   (no out-of-range index: every slice access in the model is [idx], Panic when out of range),
   and each seek returns exactly what an independent find returns: filter overlap. *)
Theorem C17_seek_equals_find : forall l h qs,
  le_ivs l -> Forall le_op h -> ascending 0 qs ->
  exists L, lrun l h = Ok L /\
    seek_all L qs 0 = Ok (map (fun q => filter (ovl (fst q) (snd q)) (ivs L)) qs) /\
    forall q, In q qs -> lfind L (fst q) (snd q) = Ok (filter (ovl (fst q) (snd q)) (ivs L)).
Proof. exact c17_seek_equals_find. Qed.
Print Assumptions C17_seek_equals_find.

(* new + inserts only: arbitrary intervals, also zero-length and stop < start *)
Theorem C17_seek_equals_find_any : forall l ins qs, ascending 0 qs ->
  exists L, fold_left (fun r i => do L <- r; linsert L i) ins (Ok (lnew l)) = Ok L /\
    seek_all L qs 0 = Ok (map (fun q => filter (ovl (fst q) (snd q)) (ivs L)) qs) /\
    Permutation (ivs L) (l ++ ins).
Proof. exact c17_seek_equals_find_any. Qed.
Print Assumptions C17_seek_equals_find_any.

(* the single-step invariant the run theorem is built from *)
Theorem C17_seek_step : forall L qs qe c b, LInv L -> CurOK L c b -> b <= qs - max_len L ->
  exists c', lseek L qs qe c = Ok (filter (ovl qs qe) (ivs L), c') /\ CurOK L c' (qs - max_len L).
Proof. exact seek_find. Qed.
Print Assumptions C17_seek_step.

Example C17_nonvacuous :
  let l := [mkiv 0 100 0; mkiv 2 4 1; mkiv 6 8 2; mkiv 10 12 3] in
  let qs := [(3, 5); (3, 5); (7, 8); (50, 60); (200, 300)] in
  le_ivs l /\ ascending 0 qs /\
  seek_all (lnew l) qs 0 = Ok [[mkiv 0 100 0; mkiv 2 4 1]; [mkiv 0 100 0; mkiv 2 4 1]; [mkiv 0 100 0; mkiv 6 8 2]; [mkiv 0 100 0]; []].
Proof.
  split; [intros i [<-|[<-|[<-|[<-|[]]]]]; cbn; lia|]. split; [cbn; lia|vm_compute; reflexivity].
Qed.

(* Props/C05.v — C05: Coverage counters equal, per region position, the summed multiplicities of the
   tags inserted since the last reset that hit that region (plus insert_at_index at that position);
   SparseCoverage read back as a vector is the same vector.  Only statements, closed by [exact];
   proofs live in CoverageProofs.v. *)
From BedV Require Import Base AlgebraModel GMapModel AlgebraProofs GMapProofs CoverageProofs.

(* For every region list rs (repetitions allowed) and every history of insert / insert_at_index (index
   in range) / reset: the run does not panic, there is one counter per supplied region, counter i is
   the sum over the operations since the last reset of their contribution to position i, and the
   total is the sum of the multiplicities since the last reset. *)
Theorem C05_counts : forall rs h, Forall (valid_op (length rs)) h ->
  exists c, fold_left (cov_step (iset_new rs)) h (Ok (cov_new (iset_new rs))) = Ok c /\
    length (c_counts c) = length rs /\
    (forall i, (i < length rs)%nat -> nth i (c_counts c) 0%Z = zsum (map (contrib rs i) (since_reset h))) /\
    c_total c = zsum (map mult (since_reset h)).
Proof. exact cov_counts. Qed.
Print Assumptions C05_counts.

Theorem C05_sparse_dense : forall rs h, Forall (valid_op (length rs)) h ->
  exists c sc v, fold_left (cov_step (iset_new rs)) h (Ok (cov_new (iset_new rs))) = Ok c /\
    fold_left (scov_step (iset_new rs)) h (Ok (mkSCov 0 [])) = Ok sc /\
    smap_as_vec (sc_map sc) (length rs) = Ok v /\ v = c_counts c /\ sc_total sc = c_total c.
Proof. exact sparse_dense. Qed.
Print Assumptions C05_sparse_dense.

(* non-vacuity: a region supplied twice, tags on two chromosomes, insert_at_index and a reset *)
Example C05_nonvacuous :
  let chr1 := [99; 104; 114; 49] in let chr2 := [99; 104; 114; 50] in
  let rs := [(chr1, 200, 500); (chr1, 1000, 2000); (chr1, 200, 500)] in
  let h := [CInsert chr1 0 10000 7; CReset; CInsert chr1 100 210 1; CInsertAt 1 5; CInsert chr1 450 1001 2;
            CInsert chr2 100 300 9] in
  Forall (valid_op (length rs)) h /\
  since_reset h = [CInsert chr1 100 210 1; CInsertAt 1 5; CInsert chr1 450 1001 2; CInsert chr2 100 300 9] /\
  fold_left (cov_step (iset_new rs)) h (Ok (cov_new (iset_new rs))) = Ok (mkCov 17 [3; 7; 3]%Z) /\
  (exists sc, fold_left (scov_step (iset_new rs)) h (Ok (mkSCov 0 [])) = Ok sc /\
     smap_as_vec (sc_map sc) (length rs) = Ok [3; 7; 3]%Z /\ sc_total sc = 17%Z) /\
  zsum (map (contrib rs 2) (since_reset h)) = 3%Z /\ zsum (map mult (since_reset h)) = 17%Z /\
  fold_left (cov_step (iset_new rs)) [CInsertAt 3 1] (Ok (cov_new (iset_new rs))) = Panic.
Proof.
  cbv zeta. split; [repeat constructor; cbn; lia|]. split; [vm_compute; reflexivity|].
  split; [vm_compute; reflexivity|]. split; [eexists; split; [vm_compute; reflexivity|split; vm_compute; reflexivity]|].
  split; [vm_compute; reflexivity|]. split; vm_compute; reflexivity.
Qed.

(* Props/C01.v — C01: the external sort (sort_by) returns every input item exactly once in comparator
   order, for every chunk size, both comparators and every in-memory sorting function.
   Only statements, closed by [exact]; proofs live in MergerProofs.v. *)
From BedV Require Import Base ListFacts AlgebraModel ExtSortModel MergerProofs ChunkProofs PipelineProofs TextModel BincodeModel BincodeProofs.

(* run formation loses, duplicates and reorders nothing *)
Theorem C01_runs_concat : forall A cs (l : list A), concat (runs cs l) = l.
Proof. exact runs_concat. Qed.
Print Assumptions C01_runs_concat.

(* every run is non-empty and holds at most max(chunk_size,1) items; all runs but the last are full *)
Theorem C01_runs_sizes : forall A cs (l : list A),
  Forall (fun r => r <> [] /\ (length r <= Nat.max cs 1)%nat) (runs cs l) /\
  (forall pre r post, runs cs l = pre ++ r :: post -> post <> [] -> length r = Nat.max cs 1).
Proof. exact runs_sizes. Qed.
Print Assumptions C01_runs_sizes.

(* for EVERY function srt that returns a sorted permutation of its argument (par_sort_unstable_by under
   any scheduling of the worker pool), every chunk size and both comparators: no panic, the reported
   length is the input length, no error item, the stream is sorted and is a permutation of the input *)
Theorem C01_ext_sort : forall srt rev cs input,
  (forall r, Permutation (srt r) r /\ sorted_keys rev (srt r) = true) ->
  exists out, ext_sort srt rev cs input = Ok (length input, out) /\ has_out_err out = false /\
    length (outs_oks out) = length out /\
    sorted_keys rev (outs_oks out) = true /\ Permutation (outs_oks out) input.
Proof. exact ext_sort_ok. Qed.
Print Assumptions C01_ext_sort.

(* the hypothesis on srt is satisfiable: the runner's insertion sort is such a function *)
Theorem C01_isort_is_sorting : forall rev r,
  Permutation (isort (kltb rev) r) r /\ sorted_keys rev (isort (kltb rev) r) = true.
Proof. exact isort_kltb_sorting. Qed.
Print Assumptions C01_isort_is_sorting.

Theorem C01_ext_sort_isort : forall rev cs input,
  exists out, ext_sort_isort rev cs input = Ok (length input, out) /\ has_out_err out = false /\
    length (outs_oks out) = length out /\
    sorted_keys rev (outs_oks out) = true /\ Permutation (outs_oks out) input.
Proof. exact ext_sort_isort_ok. Qed.
Print Assumptions C01_ext_sort_isort.

(* two sorted permutations of one multiset have the same key sequence: the tie-canonical form compared
   by the harness is well defined *)
Theorem C01_sorted_perm_unique : forall rev l1 l2,
  sorted_keys rev l1 = true -> sorted_keys rev l2 = true -> Permutation l1 l2 -> map fst l1 = map fst l2.
Proof. exact sorted_perm_unique. Qed.
Print Assumptions C01_sorted_perm_unique.

(* non-vacuity: 7 items with ties, chunk size 3 (runs of 3, 3 and 1), both comparators; chunk size 0 *)
(* the spill step that ext_sort's model abstracts: a run (of byte-blob records) dumped to fault-free storage is
   stored as its frames, and reading them back through fault-free storage yields exactly the run (C09 composed) *)
Theorem C01_spill_roundtrip : forall run, Forall blob_ok run ->
  exists st, dump (mkW [] []) run = (st, None) /\ w_stored st = frames run /\ chunk_read (w_stored st) [] = map CItem run.
Proof. exact spill_roundtrip. Qed.
Print Assumptions C01_spill_roundtrip.

Example C01_nonvacuous :
  let input := [(5, 0); (3, 1); (5, 2); (1, 3); (3, 4); (9, 5); (1, 6)] in
  runs 3 input = [[(5, 0); (3, 1); (5, 2)]; [(1, 3); (3, 4); (9, 5)]; [(1, 6)]] /\
  ext_sort_isort false 3 input =
    Ok (7%nat, [OutOk 1 6; OutOk 1 3; OutOk 3 4; OutOk 3 1; OutOk 5 0; OutOk 5 2; OutOk 9 5]) /\
  ext_sort_isort true 3 input =
    Ok (7%nat, [OutOk 9 5; OutOk 5 0; OutOk 5 2; OutOk 3 4; OutOk 3 1; OutOk 1 6; OutOk 1 3]) /\
  length (runs 0 input) = 7%nat /\
  (exists out, ext_sort_isort false 0 input = Ok (7%nat, out) /\
     map fst (outs_oks out) = [1; 1; 3; 3; 5; 5; 9]).
Proof.
  cbv zeta. split; [vm_compute; reflexivity|]. split; [vm_compute; reflexivity|].
  split; [vm_compute; reflexivity|]. split; [vm_compute; reflexivity|].
  eexists. split; vm_compute; reflexivity.
Qed.

(* ---- merged from C01b.v ---- *)
(* GenomicRange(String, u64, u64) *)
Theorem C01_codec_grange : forall c s e, wf_len c -> s <= U64MAX -> e <= U64MAX ->
  de_all de_grange (ser_grange (c, s, e)) = Some (c, s, e).
Proof. exact de_all_grange. Qed.
Print Assumptions C01_codec_grange.

(* BED<N>: the six BED fields and optional_fields (Vec<String>) *)
Theorem C01_codec_bed : forall b o, wf_bedw b -> Forall wf_len o -> N.of_nat (length o) <= U64MAX ->
  de_all de_bedrec (ser_bedrec b o) = Some (b, o).
Proof. exact de_all_bedrec. Qed.
Print Assumptions C01_codec_bed.

(* NarrowPeak *)
Theorem C01_codec_npeak : forall x,
  wf_bedw (np_bed x) -> wf_f (np_signal x) -> wf_optf (np_p x) -> wf_optf (np_q x) -> np_peak x <= U64MAX ->
  de_all de_npeak (ser_npeak x) = Some x.
Proof. exact de_all_npeak. Qed.
Print Assumptions C01_codec_npeak.

(* BroadPeak *)
Theorem C01_codec_bpeak : forall x,
  wf_bedw (bp_bed x) -> wf_f (bp_signal x) -> wf_optf (bp_p x) -> wf_optf (bp_q x) ->
  de_all de_bpeak (ser_bpeak x) = Some x.
Proof. exact de_all_bpeak. Qed.
Print Assumptions C01_codec_bpeak.

(* BedGraph<i64> / BedGraph<f64>: the decoder is chosen by the value type *)
Theorem C01_codec_bgraph : forall x, wf_len (bg_chr x) -> bg_st x <= U64MAX -> bg_en x <= U64MAX ->
  (match bg_val x with VInt z => (-9223372036854775808 <= z <= 9223372036854775807)%Z | VFloat b => wf_f b end) ->
  de_all (de_bgraph (match bg_val x with VInt _ => false | VFloat _ => true end)) (ser_bgraph x) = Some x.
Proof. exact de_all_bgraph. Qed.
Print Assumptions C01_codec_bgraph.

(* the integer encodings underneath: varint for u64, zigzag for i64 *)
Theorem C01_codec_varint : forall u r, u <= U64MAX -> de_varint (varint u ++ r) = Some (u, r).
Proof. exact varint_roundtrip. Qed.
Print Assumptions C01_codec_varint.

Theorem C01_codec_zigzag : forall z, (-9223372036854775808 <= z <= 9223372036854775807)%Z ->
  unzigzag (zigzag z) = z /\ zigzag z <= U64MAX.
Proof. exact zigzag_roundtrip. Qed.
Print Assumptions C01_codec_zigzag.

(* non-vacuity: a concrete NarrowPeak (chr1, 300, 70000, name None, score 1000, strand -, signal 1.5,
   p None, q 0.0, peak 2^32) meets the hypotheses; its bytes exercise all four varint widths, both
   option tags, the enum index and the 8-byte f64 *)
Example C01_codec_nonvacuous :
  let x := mkNP (mkBed [99; 104; 114; 49] 300 70000 None (Some 1000) (Some Rev))
                4609434218613702656 None (Some 0) 4294967296 in
  (wf_bedw (np_bed x) /\ wf_f (np_signal x) /\ wf_optf (np_p x) /\ wf_optf (np_q x) /\ np_peak x <= U64MAX) /\
  ser_npeak x = [4; 99; 104; 114; 49;                    (* chrom: length 4, "chr1" *)
                 251; 44; 1;                             (* start 300: u16 marker *)
                 252; 112; 17; 1; 0;                     (* end 70000: u32 marker *)
                 0;                                      (* name None *)
                 1; 251; 232; 3;                         (* score Some 1000 *)
                 1; 1;                                   (* strand Some Reverse *)
                 0; 0; 0; 0; 0; 0; 248; 63;              (* signal 1.5 *)
                 0;                                      (* p None *)
                 1; 0; 0; 0; 0; 0; 0; 0; 0;              (* q Some 0.0 *)
                 253; 0; 0; 0; 0; 1; 0; 0; 0] /\         (* peak 2^32: u64 marker *)
  de_all de_npeak (ser_npeak x) = Some x.
Proof.
  intros x. split; [|split; vm_compute; reflexivity].
  repeat split; vm_compute; try reflexivity; try exact I; intro H; discriminate H.
Qed.

(* Props/C01.v — C01: the external sort (sort_by) returns every input item exactly once in comparator
   order, for every chunk size, both comparators and every in-memory sorting function.
   Only statements, closed by [exact]; proofs live in MergerProofs.v. *)
From BedV Require Import Base ListFacts AlgebraModel ExtSortModel MergerProofs ChunkProofs PipelineProofs.

(* run formation loses, duplicates and reorders nothing *)
Theorem C01_runs_concat : forall A cs (l : list A), concat (runs cs l) = l.
Proof. exact runs_concat. Qed.
Print Assumptions C01_runs_concat.

(* every run is non-empty and holds at most max(chunk_size,1) items; all runs but the last are full *)
Theorem C01_runs_sizes : forall A cs (l : list A),
  Forall (fun r => r <> [] /\ (length r <= Nat.max cs 1)%nat) (runs cs l) /\
  (forall pre r post, runs cs l = pre ++ r :: post -> post <> [] -> length r = Nat.max cs 1).
Proof. exact runs_sizes. Qed.
Print Assumptions C01_runs_sizes.

(* for EVERY function srt that returns a sorted permutation of its argument (par_sort_unstable_by under
   any scheduling of the worker pool), every chunk size and both comparators: no panic, the reported
   length is the input length, no error item, the stream is sorted and is a permutation of the input *)
Theorem C01_ext_sort : forall srt rev cs input,
  (forall r, Permutation (srt r) r /\ sorted_keys rev (srt r) = true) ->
  exists out, ext_sort srt rev cs input = Ok (length input, out) /\ has_out_err out = false /\
    length (outs_oks out) = length out /\
    sorted_keys rev (outs_oks out) = true /\ Permutation (outs_oks out) input.
Proof. exact ext_sort_ok. Qed.
Print Assumptions C01_ext_sort.

(* the hypothesis on srt is satisfiable: the runner's insertion sort is such a function *)
Theorem C01_isort_is_sorting : forall rev r,
  Permutation (isort (kltb rev) r) r /\ sorted_keys rev (isort (kltb rev) r) = true.
Proof. exact isort_kltb_sorting. Qed.
Print Assumptions C01_isort_is_sorting.

Theorem C01_ext_sort_isort : forall rev cs input,
  exists out, ext_sort_isort rev cs input = Ok (length input, out) /\ has_out_err out = false /\
    length (outs_oks out) = length out /\
    sorted_keys rev (outs_oks out) = true /\ Permutation (outs_oks out) input.
Proof. exact ext_sort_isort_ok. Qed.
Print Assumptions C01_ext_sort_isort.

(* two sorted permutations of one multiset have the same key sequence: the tie-canonical form compared
   by the harness is well defined *)
Theorem C01_sorted_perm_unique : forall rev l1 l2,
  sorted_keys rev l1 = true -> sorted_keys rev l2 = true -> Permutation l1 l2 -> map fst l1 = map fst l2.
Proof. exact sorted_perm_unique. Qed.
Print Assumptions C01_sorted_perm_unique.

(* non-vacuity: 7 items with ties, chunk size 3 (runs of 3, 3 and 1), both comparators; chunk size 0 *)
(* the spill step that ext_sort's model abstracts: a run (of byte-blob records) dumped to fault-free storage is
   stored as its frames, and reading them back through fault-free storage yields exactly the run (C09 composed) *)
Theorem C01_spill_roundtrip : forall run, Forall blob_ok run ->
  exists st, dump (mkW [] []) run = (st, None) /\ w_stored st = frames run /\ chunk_read (w_stored st) [] = map CItem run.
Proof. exact spill_roundtrip. Qed.
Print Assumptions C01_spill_roundtrip.

Example C01_nonvacuous :
  let input := [(5, 0); (3, 1); (5, 2); (1, 3); (3, 4); (9, 5); (1, 6)] in
  runs 3 input = [[(5, 0); (3, 1); (5, 2)]; [(1, 3); (3, 4); (9, 5)]; [(1, 6)]] /\
  ext_sort_isort false 3 input =
    Ok (7%nat, [OutOk 1 6; OutOk 1 3; OutOk 3 4; OutOk 3 1; OutOk 5 0; OutOk 5 2; OutOk 9 5]) /\
  ext_sort_isort true 3 input =
    Ok (7%nat, [OutOk 9 5; OutOk 5 0; OutOk 5 2; OutOk 3 4; OutOk 3 1; OutOk 1 6; OutOk 1 3]) /\
  length (runs 0 input) = 7%nat /\
  (exists out, ext_sort_isort false 0 input = Ok (7%nat, out) /\
     map fst (outs_oks out) = [1; 1; 3; 3; 5; 5; 9]).
Proof.
  cbv zeta. split; [vm_compute; reflexivity|]. split; [vm_compute; reflexivity|].
  split; [vm_compute; reflexivity|]. split; [vm_compute; reflexivity|].
  eexists. split; vm_compute; reflexivity.
Qed.

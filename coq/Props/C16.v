(* Props/C16.v — C16: the fast overlap count equals the number of overlapping intervals.
   Only statements, closed by [exact]; proofs live in LapperProofs.v. *)
From BedV Require Import Base LapperModel LapperProofs.

(* For every initial vector l and every history h of insert / merge_overlaps / set_cov over intervals
   with start <= stop, the run does not panic and in the reached state, for every query qs < qe:
   find returns exactly the stored intervals overlapping [qs,qe) (as a list, in stored order) and
   count returns their number. *)
Theorem C16_count_equals_find : forall l h qs qe,
  le_ivs l -> Forall le_op h -> qs < qe ->
  exists L, lrun l h = Ok L /\
    lfind L qs qe = Ok (filter (ovl qs qe) (ivs L)) /\
    lcount L qs qe = Ok (length (filter (ovl qs qe) (ivs L))).
Proof. exact c16_count_equals_find. Qed.
Print Assumptions C16_count_equals_find.

(* finding F1, machine-checked: with the first-element test as found at the pinned commit
   (elems[0] > key) the statement is false *)
Theorem C16_orig_refuted : exists l qs qe, le_ivs l /\ qs < qe /\
  lcount_orig (lnew l) qs qe <> Ok (length (filter (ovl qs qe) (ivs (lnew l)))).
Proof. exact c16_orig_refuted. Qed.
Print Assumptions C16_orig_refuted.

(* non-vacuity: a concrete history meets the hypotheses and reaches a non-trivial state *)
Example C16_nonvacuous :
  let l := [mkiv 5 10 0; mkiv 0 3 1; mkiv 3 3 2] in
  let h := [Insert (mkiv 2 7 3); Merge; Insert (mkiv 7 9 4)] in
  le_ivs l /\ Forall le_op h /\
  exists L, lrun l h = Ok L /\ lcount L 1 8 = Ok 2%nat /\ length (ivs L) = 2%nat.
Proof.
  split; [intros i [<-|[<-|[<-|[]]]]; cbn; lia|]. split; [repeat constructor; cbn; lia|].
  eexists. split; [vm_compute; reflexivity|]. split; vm_compute; reflexivity.
Qed.

(* Props/C08.v — C08: merge_sorted_bedgraph = pointwise sum of the input values, run-length encoded.
   Only statements, closed by [exact]; proofs live in MergeBedProofs.v. *)
From BedV Require Import Base AlgebraModel MergeBedProofs.

(* On a sorted stream of non-empty records there is no panic and the output is the run-length
   encoding (BgRLE) of the pointwise sum: output records are non-empty, sorted and disjoint, cover
   exactly the covered positions of the input, carry at every position the sum of the values of the
   input records covering it, and two touching output records on one chromosome differ in value. *)
Theorem C08_bedgraph_rle : forall l, sorted_recs l -> (forall r, In r l -> b_st r < b_en r) ->
    exists out, merge_sorted_bedgraph l = Ok out /\ BgRLE l out.
Proof. exact bedgraph_spec. Qed.
Print Assumptions C08_bedgraph_rle.

(* BgRLE determines the output: any two encodings of the same input agree field by field *)
Theorem C08_rle_unique : forall l o1 o2, BgRLE l o1 -> BgRLE l o2 ->
    map (fun r => (b_chr r, b_st r, b_en r, b_val r)) o1 = map (fun r => (b_chr r, b_st r, b_en r, b_val r)) o2.
Proof. exact bgrle_unique. Qed.
Print Assumptions C08_rle_unique.

(* non-vacuity: mixed-sign values starting at one position (sum 0 on [0,2)), a nested record, a
   touching record continuing a run with the same value ([6,10) and [10,12) give [6,12)), a gap and
   a chromosome change *)
Example C08_nonvacuous :
  let l := [mkB [1] 0 4 (-5); mkB [1] 0 10 5; mkB [1] 2 6 3; mkB [1] 10 12 5; mkB [1] 20 21 1; mkB [2] 1 3 7] in
  sorted_recs l /\ (forall r, In r l -> b_st r < b_en r) /\
  merge_sorted_bedgraph l =
    Ok [mkB [1] 0 2 0; mkB [1] 2 4 3; mkB [1] 4 6 8; mkB [1] 6 12 5; mkB [1] 20 21 1; mkB [2] 1 3 7].
Proof.
  split; [|split; [|vm_compute; reflexivity]].
  - repeat (constructor; [|repeat (constructor; [vm_compute; discriminate|]); constructor]). constructor.
  - intros r [<-|[<-|[<-|[<-|[<-|[<-|[]]]]]]]; cbn [b_st b_en]; lia.
Qed.

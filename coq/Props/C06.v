(* Props/C06.v — C06: BinnedCoverage / SparseBinnedCoverage.  The bin range of a tag inside a region is
   exactly the set of bins it overlaps; regions() are the bins, which tile each region; every bin
   counter is the summed multiplicity of the tags since the last reset overlapping that bin; the
   sparse variant read back as a vector is the flattened dense table; get_region / get_chrom return
   exactly the bin at a flat index and None beyond len().  Only statements, closed by [exact];
   proofs live in CoverageProofs.v. *)
From BedV Require Import Base AlgebraModel GMapModel AlgebraProofs GMapProofs CoverageProofs.

Theorem C06_bin_range : forall r ts te b c, 1 <= b -> ne_region r -> ts < te -> reg_hit c ts te r = true ->
  exists i j, bin_range r ts te b = Ok (i, j) /\ i <= j /\ j < nbins r b /\
    forall k, k < nbins r b -> ((i <= k /\ k <= j) <-> reg_hit c ts te (bin_of r b k) = true).
Proof. exact bin_range_iff. Qed.
Print Assumptions C06_bin_range.

Theorem C06_regions_are_bins : forall rs b, 1 <= b -> bcov_regions (iset_new rs) b = Ok (map (fun r => bins r b) rs).
Proof. exact regions_are_bins. Qed.
Print Assumptions C06_regions_are_bins.

Theorem C06_bins_tile : forall r b, 1 <= b ->
  Tiling (snd r) b (snd (fst r)) (map (fun g => (snd (fst g), snd g)) (bins r b)) /\
  (forall g, In g (bins r b) -> fst (fst g) = fst (fst r)).
Proof. exact bins_tile. Qed.
Print Assumptions C06_bins_tile.

Theorem C06_binned_counts : forall rs b h, 1 <= b -> Forall ne_region rs -> Forall ne_tag h ->
  exists c0 c, bcov_new (iset_new rs) b = Ok c0 /\ fold_left (bcov_step (iset_new rs) b) h (Ok c0) = Ok c /\
    length (bc_counts c) = length rs /\
    (forall i r, nth_error rs i = Some r -> exists row, nth_error (bc_counts c) i = Some row /\ N.of_nat (length row) = nbins r b /\
        forall k, k < nbins r b -> nth (N.to_nat k) row 0%Z = zsum (map (bcontrib rs b i k) (bsince_reset h))) /\
    bc_total c = zsum (map (fun o => match o with BInsert _ _ _ m => m | BReset => 0%Z end) (bsince_reset h)).
Proof. exact binned_counts. Qed.
Print Assumptions C06_binned_counts.

Theorem C06_sparse_agrees : forall rs b h, 1 <= b -> Forall ne_region rs -> Forall ne_tag h ->
  exists c0 c s0 s v, bcov_new (iset_new rs) b = Ok c0 /\ fold_left (bcov_step (iset_new rs) b) h (Ok c0) = Ok c /\
    sbcov_new (iset_new rs) b = Ok s0 /\ fold_left (sbcov_step (iset_new rs) b) h (Ok s0) = Ok s /\
    sb_len s = N.of_nat (length (concat (bc_counts c))) /\
    smap_as_vec (sb_map s) (N.to_nat (sb_len s)) = Ok v /\ v = concat (bc_counts c) /\ sb_total s = bc_total c.
Proof. exact sparse_binned_agrees. Qed.
Print Assumptions C06_sparse_agrees.

Theorem C06_get_region : forall rs b h, 1 <= b -> Forall ne_region rs -> Forall ne_tag h ->
  exists s0 s, sbcov_new (iset_new rs) b = Ok s0 /\ fold_left (sbcov_step (iset_new rs) b) h (Ok s0) = Ok s /\
    sb_len s = N.of_nat (length (concat (map (fun r => bins r b) rs))) /\
    forall idx, sb_get_region s (iset_new rs) b idx = Ok (nth_error (concat (map (fun r => bins r b) rs)) (N.to_nat idx)) /\
                sb_get_chrom s (iset_new rs) b idx = Ok (option_map (fun g => fst (fst g)) (nth_error (concat (map (fun r => bins r b) rs)) (N.to_nat idx))).
Proof. exact get_region_spec. Qed.
Print Assumptions C06_get_region.

(* non-vacuity: a region supplied twice, bin 100, a tag ending on a bin edge + 1, a tag on another
   chromosome, a reset; counters, flattened sparse vector, get_region inside and at len() *)
Example C06_nonvacuous :
  let chr1 := [99; 104; 114; 49] in let chr2 := [99; 104; 114; 50] in
  let rs := [(chr1, 200, 500); (chr1, 1000, 2000); (chr1, 200, 500)] in
  let h := [BInsert chr1 0 10000 7; BReset; BInsert chr1 100 210 1; BInsert chr1 450 1101 2; BInsert chr2 100 300 9] in
  Forall ne_region rs /\ Forall ne_tag h /\
  bin_range (chr1, 1000, 2000) 450 1101 100 = Ok (0, 1) /\ bin_range (chr1, 1000, 2000) 450 1100 100 = Ok (0, 0) /\
  bins (chr1, 200, 500) 100 = [(chr1, 200, 300); (chr1, 300, 400); (chr1, 400, 500)] /\
  bins (chr1, 200, 450) 100 = [(chr1, 200, 300); (chr1, 300, 400); (chr1, 400, 450)] /\
  (exists c0, bcov_new (iset_new rs) 100 = Ok c0 /\
     fold_left (bcov_step (iset_new rs) 100) h (Ok c0) = Ok (mkBC 12 [[1; 0; 2]; [2; 2; 0; 0; 0; 0; 0; 0; 0; 0]; [1; 0; 2]]%Z)) /\
  (exists s0 s, sbcov_new (iset_new rs) 100 = Ok s0 /\ fold_left (sbcov_step (iset_new rs) 100) h (Ok s0) = Ok s /\
     sb_len s = 16 /\ sb_total s = 12%Z /\
     smap_as_vec (sb_map s) 16 = Ok [1; 0; 2; 2; 2; 0; 0; 0; 0; 0; 0; 0; 0; 1; 0; 2]%Z /\
     sb_get_region s (iset_new rs) 100 2 = Ok (Some (chr1, 400, 500)) /\
     sb_get_region s (iset_new rs) 100 3 = Ok (Some (chr1, 1000, 1100)) /\
     sb_get_region s (iset_new rs) 100 15 = Ok (Some (chr1, 400, 500)) /\
     sb_get_region s (iset_new rs) 100 16 = Ok None /\
     sb_get_chrom s (iset_new rs) 100 15 = Ok (Some chr1) /\ sb_get_chrom s (iset_new rs) 100 16 = Ok None) /\
  bcov_new (iset_new rs) 0 = Panic.
Proof.
  cbv zeta. split; [repeat constructor; vm_compute; reflexivity|]. split; [repeat constructor; vm_compute; reflexivity|].
  split; [vm_compute; reflexivity|]. split; [vm_compute; reflexivity|]. split; [vm_compute; reflexivity|].
  split; [vm_compute; reflexivity|]. split; [eexists; split; vm_compute; reflexivity|].
  split; [|vm_compute; reflexivity].
  eexists. eexists. split; [vm_compute; reflexivity|]. split; [vm_compute; reflexivity|].
  repeat split; vm_compute; reflexivity.
Qed.

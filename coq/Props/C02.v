(* Props/C02.v — C02: GIntervalMap (src/bed/map.rs).  collect (FromIterator) followed by any inserts
   never panics and stores exactly the supplied records (as a multiset, duplicates kept); find returns
   exactly the stored records on the query chromosome that overlap the query; is_overlapped and len agree.
   Only statements, closed by [exact]; proofs live in GMapProofs.v. *)
From BedV Require Import Base LapperModel AlgebraModel GMapModel GMapProofs.

(* hit_b c s e r : record r is on chromosome c and overlaps [s,e)
   GInv m        : chromosome keys are distinct and every per-chromosome Lapper satisfies its invariant
   gbuild rs ins : collect rs, then insert the records of ins one by one *)

(* the whole property: for every supply rs, every insert sequence ins and every query (c,s,e) *)
Theorem C02_gmap : forall rs ins c s e, exists m h,
  gbuild rs ins = Ok m /\ Permutation (giter m) (rs ++ ins) /\ glen m = length (rs ++ ins) /\
  gfind m c s e = Ok h /\ Permutation h (filter (hit_b c s e) (rs ++ ins)) /\ (forall r, In r h -> fst r = c) /\
  gis_overlapped m c s e = Ok (existsb (hit_b c s e) (rs ++ ins)).
Proof. exact c02_gmap. Qed.
Print Assumptions C02_gmap.

(* FromIterator: the invariant holds and the stored records are the supplied ones *)
Theorem C02_collect : forall rs, GInv (gcollect rs) /\ Permutation (giter (gcollect rs)) rs.
Proof. exact gcollect_spec. Qed.
Print Assumptions C02_collect.

(* insert: no panic, invariant kept, exactly one record added *)
Theorem C02_insert : forall m r, GInv m ->
  exists m', ginsert m r = Ok m' /\ GInv m' /\ Permutation (giter m') (r :: giter m).
Proof. exact ginsert_spec. Qed.
Print Assumptions C02_insert.

(* find: no panic; the hits are the stored records that are on chromosome c and overlap [s,e) *)
Theorem C02_find : forall m c s e, GInv m ->
  exists h, gfind m c s e = Ok h /\ Permutation h (filter (hit_b c s e) (giter m)).
Proof. exact gfind_spec. Qed.
Print Assumptions C02_find.

(* find never reports a record of another chromosome (no invariant needed) *)
Theorem C02_find_same_chrom : forall m c s e h, gfind m c s e = Ok h -> forall r, In r h -> fst r = c.
Proof. exact gfind_same_chrom. Qed.
Print Assumptions C02_find_same_chrom.

Theorem C02_is_overlapped : forall m c s e, GInv m ->
  gis_overlapped m c s e = Ok (existsb (hit_b c s e) (giter m)).
Proof. exact gis_overlapped_spec. Qed.
Print Assumptions C02_is_overlapped.

Theorem C02_len : forall m, glen m = length (giter m).
Proof. exact glen_spec. Qed.
Print Assumptions C02_len.

(* non-vacuity: two chromosomes plus a third created by insert, one record supplied twice *)
Example C02_nonvacuous :
  let chr1 : bytes := [99;104;114;49] in
  let chr2 : bytes := [99;104;114;50] in
  let rs := [(chr1, mkiv 10 20 0); (chr2, mkiv 5 15 1); (chr1, mkiv 10 20 0); (chr1, mkiv 30 40 3)] in
  let ins := [(chr2, mkiv 12 18 4); (chr1, mkiv 15 35 5); ([120], mkiv 0 1 6)] in
  exists m, gbuild rs ins = Ok m /\ glen m = 7%nat /\ map fst m = [chr1; chr2; [120]] /\
    gfind m chr1 12 16 = Ok [(chr1, mkiv 10 20 0); (chr1, mkiv 10 20 0); (chr1, mkiv 15 35 5)] /\
    filter (hit_b chr1 12 16) (rs ++ ins) = [(chr1, mkiv 10 20 0); (chr1, mkiv 10 20 0); (chr1, mkiv 15 35 5)] /\
    gfind m chr2 12 31 = Ok [(chr2, mkiv 5 15 1); (chr2, mkiv 12 18 4)] /\
    gis_overlapped m chr1 20 30 = Ok true /\ gis_overlapped m chr2 20 30 = Ok false /\
    gis_overlapped m [121] 0 100 = Ok false.
Proof.
  eexists. split; [vm_compute; reflexivity|]. repeat split; vm_compute; reflexivity.
Qed.

(* Props/C09.v — C09: the chunk codec over a faulty storage (src/extsort/chunk.rs: dump, ExternalChunk::next).
   Only statements, closed by [exact]; proofs live in ChunkProofs.v. *)
From BedV Require Import Base AlgebraModel ExtSortModel ChunkProofs BufModel BufProofs CutProofs OracleProofs.

(* bincode DefaultOptions on Vec<u8>: deserialize (serialize v) = v *)
Theorem C09_codec : forall v, N.of_nat (length v) < 2 ^ 64 -> de_blob (ser_blob v) = Some v.
Proof. exact de_ser_blob. Qed.
Print Assumptions C09_codec.

(* write_all returning Ok has stored the whole buffer, whatever short counts / Interrupted the storage answered *)
Theorem C09_write_all_ok : forall st buf st',
  write_all (wa_fuel st buf) st buf = (st', None) -> w_stored st' = w_stored st ++ buf.
Proof. exact write_all_ok. Qed.
Print Assumptions C09_write_all_ok.

(* write_all returns an error only if the storage answered a hard error or Ok(0); a prefix of the buffer was stored *)
Theorem C09_write_all_err : forall st buf st' e,
  write_all (wa_fuel st buf) st buf = (st', Some e) ->
  (exists op, In op (w_plan st) /\ hard_w op) /\
  exists pre suf, buf = pre ++ suf /\ w_stored st' = w_stored st ++ pre.
Proof. exact write_all_err. Qed.
Print Assumptions C09_write_all_err.

(* dump returning Ok has stored exactly the frames of the items *)
Theorem C09_dump_ok : forall items st st',
  dump st items = (st', None) -> w_stored st' = w_stored st ++ frames items.
Proof. exact dump_ok. Qed.
Print Assumptions C09_dump_ok.

Theorem C09_dump_err_only_if_fault : forall items st st' e,
  dump st items = (st', Some e) -> exists op, In op (w_plan st) /\ hard_w op.
Proof. exact dump_err_only_if_fault. Qed.
Print Assumptions C09_dump_err_only_if_fault.

Theorem C09_dump_no_fault_ok : forall items st,
  (forall op, In op (w_plan st) -> ~ hard_w op) -> exists st', dump st items = (st', None).
Proof. exact dump_no_fault_ok. Qed.
Print Assumptions C09_dump_no_fault_ok.

(* reading well-formed chunk data: exactly the items, or a prefix of them (possibly all of them: the
   reader still asks for the next header) followed by one I/O error, and then only if the storage
   answered a hard error.  Never a missing, truncated or altered record. *)
Theorem C09_read_frames : forall items rplan, Forall blob_ok items ->
  chunk_read (frames items) rplan = map CItem items \/
  (exists j, (j <= length items)%nat /\
     chunk_read (frames items) rplan = map CItem (firstn j items) ++ [CIoErr] /\ In RErr rplan).
Proof. exact read_frames_le. Qed.
Print Assumptions C09_read_frames.

Theorem C09_end_to_end : forall items wplan rplan st' e,
  Forall blob_ok items -> dump (mkW [] wplan) items = (st', e) ->
  e <> None \/
  chunk_read (w_stored st') rplan = map CItem items \/
  (exists j, (j <= length items)%nat /\
     chunk_read (w_stored st') rplan = map CItem (firstn j items) ++ [CIoErr] /\ In RErr rplan).
Proof. exact end_to_end_le. Qed.
Print Assumptions C09_end_to_end.

(* what the executable oracle accepts *)
Theorem C09_oracle_spec : forall items dump_ok got hard,
  chunk_oracle items dump_ok got hard = true <->
  (dump_ok = false \/ got = map CItem items \/
   (hard = true /\ exists j, (j <= length items)%nat /\ got = map CItem (firstn j items) ++ [CIoErr])).
Proof. exact chunk_oracle_spec. Qed.
Print Assumptions C09_oracle_spec.

(* finding F8, machine-checked: with the payload written by a single write() whose count is ignored
   (the code as found) dump returns Ok although the stored bytes are not the frames *)
Theorem C09_orig_refuted : exists items plan st',
  dump_orig (mkW [] plan) items = (st', None) /\ w_stored st' <> frames items.
Proof. exact dump_orig_refuted. Qed.
Print Assumptions C09_orig_refuted.

(* non-vacuity: three items of sizes 0, 3, 300 through short / interrupted writes and reads *)
Example C09_nonvacuous :
  let items := [[]; [1; 2; 3]; repeat 7 300] in
  Forall blob_ok items /\
  exists st', dump (mkW [] [WAccept 2; WIntr; WAccept 1]) items = (st', None) /\
    chunk_read (w_stored st') [RGive 1; RIntr; RGive 3] = map CItem items.
Proof.
  split; [repeat constructor; vm_compute; reflexivity|].
  exists (fst (dump (mkW [] [WAccept 2; WIntr; WAccept 1]) [[]; [1; 2; 3]; repeat 7 300])).
  split; vm_compute; reflexivity.
Qed.

(* ---- merged from C09b.v ---- *)
(* BufWriter::write_all returning Ok has accepted the whole buffer into the logical stream
   (stored bytes, then buffered bytes), and the buffer stays within its capacity *)
Theorem C09_buffered_write_all_ok : forall w d w', bw_ok w -> bw_write_all w d = (w', None) ->
  bw_content w' = bw_content w ++ d /\ bw_ok w'.
Proof. exact bw_write_all_ok. Qed.
Print Assumptions C09_buffered_write_all_ok.

(* dump through a BufWriter followed by flush, returning Ok, has stored exactly the frames of the items *)
Theorem C09_buffered_dump_ok : forall plan items st,
  dump_buffered plan items = (st, None) -> w_stored st = frames items.
Proof. exact dump_buffered_ok. Qed.
Print Assumptions C09_buffered_dump_ok.

(* it returns an error only if the storage answered a hard error or Ok(0) *)
Theorem C09_buffered_dump_err_only_if_fault : forall plan items st e,
  dump_buffered plan items = (st, Some e) -> has_hard_w plan.
Proof. exact dump_buffered_err_only_if_fault. Qed.
Print Assumptions C09_buffered_dump_err_only_if_fault.

Theorem C09_buffered_dump_no_fault_ok : forall plan items,
  (forall op, In op plan -> ~ hard_w op) -> exists st, dump_buffered plan items = (st, None).
Proof. exact dump_buffered_no_fault_ok. Qed.
Print Assumptions C09_buffered_dump_no_fault_ok.

(* reading well-formed chunk data through a BufReader: exactly the items, or a prefix of them followed by
   one I/O error, and then only if the storage answered a hard error *)
Theorem C09_buffered_read_frames : forall items rplan, Forall blob_ok items ->
  chunk_read_buffered (frames items) rplan = map CItem items \/
  (exists j, (j <= length items)%nat /\
     chunk_read_buffered (frames items) rplan = map CItem (firstn j items) ++ [CIoErr] /\ In RErr rplan).
Proof. exact read_frames_buffered. Qed.
Print Assumptions C09_buffered_read_frames.

Theorem C09_buffered_end_to_end : forall items wplan rplan st e,
  Forall blob_ok items -> dump_buffered wplan items = (st, e) ->
  e <> None \/
  chunk_read_buffered (w_stored st) rplan = map CItem items \/
  (exists j, (j <= length items)%nat /\
     chunk_read_buffered (w_stored st) rplan = map CItem (firstn j items) ++ [CIoErr] /\ In RErr rplan).
Proof. exact end_to_end_buffered. Qed.
Print Assumptions C09_buffered_end_to_end.

(* finding F8 behind BufWriter, machine-checked: with the payload passed to BufWriter::write and the count
   ignored (the code as found), dump and flush both return Ok and the stored bytes are not the frames *)
Theorem C09_buffered_orig_refuted : exists items plan w',
  dump_bw_orig (mkBW [] (mkW [] plan)) items = (w', None) /\
  exists w'', bw_flush w' = (w'', None) /\ w_stored (bw_inner w'') <> frames items.
Proof. exact dump_bw_orig_refuted. Qed.
Print Assumptions C09_buffered_orig_refuted.

(* non-vacuity: items of sizes 0, 3, 300 through short counts and interruptions on both sides *)
Example C09_buffered_nonvacuous :
  let items := [[]; [1; 2; 3]; repeat 9 300%nat] in
  Forall blob_ok items /\
  (exists st, dump_buffered [WAccept 2; WIntr; WAccept 1] items = (st, None) /\ w_stored st = frames items) /\
  chunk_read_buffered (frames items) [RGive 1; RIntr; RGive 3] = map CItem items.
Proof.
  split; [repeat constructor; vm_compute; reflexivity|]. split.
  - eexists. split; [vm_compute; reflexivity | vm_compute; reflexivity].
  - vm_compute. reflexivity.
Qed.
Print Assumptions C09_buffered_nonvacuous.

(* ---- the chunk reader over a storage that LOST ITS TAIL (only the first n bytes of the frames are left), fault-free reads ---- *)

(* j = the number of frames completely inside the first n bytes.  The reader yields exactly those j records,
   unaltered; when the cut falls on a record boundary or inside the next 8-byte length header the chunk then
   simply ends (the format has no way to tell); when it falls inside a payload an I/O error is reported. *)
Theorem C09_truncated_storage : forall items n, Forall blob_ok items -> (n <= length (frames items))%nat ->
  exists j, (j <= length items)%nat /\
    (length (frames (firstn j items)) <= n)%nat /\
    (forall v, nth_error items j = Some v -> (n < length (frames (firstn j items)) + length (frame v))%nat) /\
    ( ((n - length (frames (firstn j items)) < 8)%nat /\
       chunk_read (firstn n (frames items)) [] = map CItem (firstn j items))
      \/ ((8 <= n - length (frames (firstn j items)))%nat /\
          chunk_read (firstn n (frames items)) [] = map CItem (firstn j items) ++ [CIoErr]) ).
Proof. exact read_truncated. Qed.
Print Assumptions C09_truncated_storage.

(* the same through the BufReader that ExternalChunk::new puts in front of the file *)
Theorem C09_truncated_storage_buffered : forall items n, Forall blob_ok items -> (n <= length (frames items))%nat ->
  exists j, (j <= length items)%nat /\
    (length (frames (firstn j items)) <= n)%nat /\
    (forall v, nth_error items j = Some v -> (n < length (frames (firstn j items)) + length (frame v))%nat) /\
    ( ((n - length (frames (firstn j items)) < 8)%nat /\
       chunk_read_buffered (firstn n (frames items)) [] = map CItem (firstn j items))
      \/ ((8 <= n - length (frames (firstn j items)))%nat /\
          chunk_read_buffered (firstn n (frames items)) [] = map CItem (firstn j items) ++ [CIoErr]) ).
Proof. exact read_truncated_buffered. Qed.
Print Assumptions C09_truncated_storage_buffered.

(* never an altered or partial record: every record the reader yields was written *)
Theorem C09_truncated_never_alters : forall items n, Forall blob_ok items -> (n <= length (frames items))%nat ->
  forall v, In (CItem v) (chunk_read (firstn n (frames items)) []) -> In v items.
Proof. exact truncated_never_alters. Qed.
Print Assumptions C09_truncated_never_alters.

Theorem C09_truncated_never_alters_buffered : forall items n,
  Forall blob_ok items -> (n <= length (frames items))%nat ->
  forall v, In (CItem v) (chunk_read_buffered (firstn n (frames items)) []) -> In v items.
Proof. exact truncated_never_alters_buffered. Qed.
Print Assumptions C09_truncated_never_alters_buffered.

(* non-vacuity: three records (frames of 9, 12 and 311 bytes = 332 bytes).  One byte cut off (inside the last
   payload): two records, then an I/O error.  Cut after exactly two frames (21 bytes), or 3 bytes into the third
   length header (24 bytes): two records and a silent end.  Nothing cut: all three records. *)
Example C09_truncated_nonvacuous :
  let items := [[]; [1; 2; 3]; repeat 7 300%nat] in
  Forall blob_ok items /\ length (frames items) = 332%nat /\
  chunk_read (firstn 331 (frames items)) [] = [CItem []; CItem [1; 2; 3]; CIoErr] /\
  chunk_read (firstn 21 (frames items)) [] = [CItem []; CItem [1; 2; 3]] /\
  chunk_read (firstn 24 (frames items)) [] = [CItem []; CItem [1; 2; 3]] /\
  chunk_read (firstn 332 (frames items)) [] = map CItem items /\
  chunk_read_buffered (firstn 331 (frames items)) [] = [CItem []; CItem [1; 2; 3]; CIoErr] /\
  chunk_read_buffered (firstn 21 (frames items)) [] = [CItem []; CItem [1; 2; 3]] /\
  chunk_read_buffered (firstn 24 (frames items)) [] = [CItem []; CItem [1; 2; 3]] /\
  chunk_read_buffered (firstn 332 (frames items)) [] = map CItem items.
Proof.
  cbv zeta. split; [repeat constructor; vm_compute; reflexivity|].
  repeat match goal with |- _ /\ _ => split end; vm_compute; reflexivity.
Qed.
Print Assumptions C09_truncated_nonvacuous.

(* ---- consistency of the two ways a chunk case is judged: the outcome oracle accepts what the model itself does ---- *)
Theorem C09_oracle_accepts_model : forall items wplan rplan st' e,
  Forall blob_ok items -> dump (mkW [] wplan) items = (st', e) ->
  chunk_oracle items (match e with None => true | Some _ => false end)
               (match e with None => chunk_read (w_stored st') rplan | Some _ => [] end)
               (existsb (fun o => match o with RErr => true | _ => false end) rplan) = true.
Proof. exact chunk_oracle_accepts_model. Qed.
Print Assumptions C09_oracle_accepts_model.

(* on storage that lost its tail (counted as a hard fault by the check) the model's outcome is accepted by the oracle,
   or it is one of the silent ends on a frame boundary / inside a length header that only the exact comparison admits *)
Theorem C09_oracle_accepts_truncated : forall items n,
  Forall blob_ok items -> (n <= length (frames items))%nat ->
  chunk_oracle items true (chunk_read (firstn n (frames items)) []) true = true
  \/ exists j, (j < length items)%nat /\ chunk_read (firstn n (frames items)) [] = map CItem (firstn j items).
Proof. exact chunk_oracle_accepts_truncated. Qed.
Print Assumptions C09_oracle_accepts_truncated.

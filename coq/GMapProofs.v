(* GMapProofs.v — GIntervalMap (C02) and GIntervalIndexSet / GIntervalIndexMap (C11):
   collect / insert / find / is_overlapped / len against the multiset of supplied records;
   positional access and index-reporting queries of the index set / index map. *)
From BedV Require Import Base LapperModel ListFacts LapperProofs AlgebraModel GMapModel.

(* ---------- chromosome names ---------- *)
Lemma bytes_cmp_eq : forall a b, bytes_cmp a b = Eq <-> a = b.
Proof.
  induction a as [|x a IH]; intros [|y b]; cbn [bytes_cmp].
  - split; intros _; reflexivity.
  - split; discriminate.
  - split; discriminate.
  - destruct (x ?= y) eqn:E.
    + apply N.compare_eq_iff in E. subst y. rewrite IH. split; [intros ->; reflexivity|].
      intros H. injection H as H. exact H.
    + split; [discriminate|]. intros H. injection H as H1 _. subst y. rewrite N.compare_refl in E. discriminate.
    + split; [discriminate|]. intros H. injection H as H1 _. subst y. rewrite N.compare_refl in E. discriminate.
Qed.

Lemma bytes_eqb_iff : forall a b, bytes_eqb a b = true <-> a = b.
Proof.
  intros a b. rewrite <- bytes_cmp_eq. unfold bytes_eqb.
  destruct (bytes_cmp a b); split; intros H; try reflexivity; discriminate.
Qed.
Lemma bytes_eqb_refl a : bytes_eqb a a = true.
Proof. apply bytes_eqb_iff. reflexivity. Qed.
Lemma bytes_eqb_neq a b : a <> b -> bytes_eqb a b = false.
Proof. intros H. destruct (bytes_eqb a b) eqn:E; [|reflexivity]. apply bytes_eqb_iff in E. contradiction. Qed.

(* ---------- small list facts ---------- *)
Lemma filter_perm {A} (p : A -> bool) l l' : Permutation l l' -> Permutation (filter p l) (filter p l').
Proof.
  induction 1 as [|x l l' H IH|x y l|l l' l'' H1 IH1 H2 IH2]; cbn [filter].
  - constructor.
  - destruct (p x); [constructor|]; exact IH.
  - destruct (p x), (p y); try reflexivity. apply perm_swap.
  - etransitivity; eassumption.
Qed.
Lemma existsb_perm {A} (p : A -> bool) l l' : Permutation l l' -> existsb p l = existsb p l'.
Proof.
  induction 1 as [|x l l' H IH|x y l|l l' l'' H1 IH1 H2 IH2]; cbn [existsb].
  - reflexivity.
  - rewrite IH. reflexivity.
  - destruct (p x), (p y); reflexivity.
  - congruence.
Qed.
Lemma filter_map_comm {A B} (f : A -> B) (p : B -> bool) l :
  filter p (map f l) = map f (filter (fun x => p (f x)) l).
Proof.
  induction l as [|x t IH]; cbn [map filter]; [reflexivity|].
  destruct (p (f x)); cbn [map]; rewrite IH; reflexivity.
Qed.
Lemma filter_nonempty_existsb {A} (p : A -> bool) l :
  match filter p l with [] => false | _ :: _ => true end = existsb p l.
Proof.
  induction l as [|x t IH]; cbn [filter existsb]; [reflexivity|].
  destruct (p x); [reflexivity|exact IH].
Qed.

(* ======================= C02: GIntervalMap ======================= *)
Definition hit_b (c : bytes) (s e : N) (r : grec) : bool := bytes_eqb (fst r) c && ovl s e (snd r).
Definition GInv (m : gmap) : Prop := NoDup (map fst m) /\ forall k L, In (k, L) m -> LInv L.

(* the records held by the grouping stage of from_iter *)
Definition gflat (g : list (bytes * list iv)) : list grec :=
  flat_map (fun kv => map (fun i => (fst kv, i)) (snd kv)) g.
Definition gfold (rs : list grec) (g : list (bytes * list iv)) : list (bytes * list iv) :=
  fold_left (fun g r => gpush g (fst r) (snd r)) rs g.

Lemma gpush_keys g c i k : In k (map fst (gpush g c i)) -> k = c \/ In k (map fst g).
Proof.
  induction g as [|[k0 v] t IH]; cbn [gpush map fst In].
  - intros [H|[]]; auto.
  - destruct (bytes_eqb k0 c) eqn:E; cbn [map fst In].
    + intros H; right; exact H.
    + intros [H|H]; [right; left; exact H|]. destruct (IH H); auto.
Qed.

Lemma gpush_nodup g c i : NoDup (map fst g) -> NoDup (map fst (gpush g c i)).
Proof.
  induction g as [|[k0 v] t IH]; cbn [gpush map fst]; intros H.
  - constructor; [intros []|constructor].
  - inversion H as [|? ? Hn Ht]; subst. destruct (bytes_eqb k0 c) eqn:E; cbn [map fst].
    + constructor; assumption.
    + constructor; [|apply IH; exact Ht]. intros Hin. apply gpush_keys in Hin.
      destruct Hin as [->|Hin]; [|contradiction]. rewrite bytes_eqb_refl in E. discriminate.
Qed.

Lemma gpush_flat g c i : Permutation (gflat (gpush g c i)) (gflat g ++ [(c, i)]).
Proof.
  unfold gflat. induction g as [|[k0 v] t IH]; cbn [gpush flat_map fst snd map app].
  - reflexivity.
  - destruct (bytes_eqb k0 c) eqn:E; cbn [flat_map fst snd].
    + apply bytes_eqb_iff in E. subst k0. rewrite map_app. cbn [map]. rewrite <- !app_assoc.
      apply Permutation_app_head. apply Permutation_app_comm.
    + rewrite <- app_assoc. apply Permutation_app_head. exact IH.
Qed.

Lemma gfold_spec : forall rs g, NoDup (map fst g) ->
  NoDup (map fst (gfold rs g)) /\ Permutation (gflat (gfold rs g)) (gflat g ++ rs).
Proof.
  unfold gfold. induction rs as [|r t IH]; intros g H; cbn [fold_left].
  - split; [exact H|rewrite app_nil_r; reflexivity].
  - destruct (IH (gpush g (fst r) (snd r)) (gpush_nodup _ _ _ H)) as (H1 & H2). split; [exact H1|].
    rewrite H2, gpush_flat, <- app_assoc. destruct r; reflexivity.
Qed.

Lemma giter_cons k L t : giter ((k, L) :: t) = map (fun i => (k, i)) (ivs L) ++ giter t.
Proof. reflexivity. Qed.

Lemma giter_lnew g : Permutation (giter (map (fun kv => (fst kv, lnew (snd kv))) g)) (gflat g).
Proof.
  induction g as [|[k v] t IH]; [reflexivity|].
  cbn [map fst snd]. rewrite giter_cons. unfold gflat. cbn [flat_map fst snd]. fold (gflat t).
  apply Permutation_app; [|exact IH]. apply Permutation_map. apply lnew_perm.
Qed.

Lemma gcollect_eq rs : gcollect rs = map (fun kv => (fst kv, lnew (snd kv))) (gfold rs []).
Proof. reflexivity. Qed.

Theorem gcollect_spec : forall rs, GInv (gcollect rs) /\ Permutation (giter (gcollect rs)) rs.
Proof.
  intros rs. rewrite gcollect_eq. destruct (gfold_spec rs []) as (H1 & H2); [constructor|].
  split; [split|].
  - rewrite map_map. cbn [fst]. exact H1.
  - intros k L Hin. apply in_map_iff in Hin. destruct Hin as ([k0 v] & Heq & _).
    injection Heq as _ <-. apply lnew_inv.
  - rewrite giter_lnew. exact H2.
Qed.

(* ---- lookups ---- *)
Lemma glookup_in m c L : glookup m c = Some L -> In (c, L) m.
Proof.
  induction m as [|[k L0] t IH]; cbn [glookup]; [discriminate|].
  destruct (bytes_eqb k c) eqn:E.
  - intros H. injection H as <-. apply bytes_eqb_iff in E. subst k. left. reflexivity.
  - intros H. right. apply IH. exact H.
Qed.
Lemma glookup_none m c : glookup m c = None -> ~ In c (map fst m).
Proof.
  induction m as [|[k L0] t IH]; cbn [glookup map fst In]; [intros _ []|].
  destruct (bytes_eqb k c) eqn:E; [discriminate|]. intros H [Hk|Hin].
  - subst k. rewrite bytes_eqb_refl in E. discriminate.
  - exact (IH H Hin).
Qed.
Lemma glookup_some_iff m c L : NoDup (map fst m) -> (glookup m c = Some L <-> In (c, L) m).
Proof.
  intros Hnd. split; [apply glookup_in|].
  induction m as [|[k L0] t IH]; [intros []|]. cbn [glookup map fst] in *.
  inversion Hnd as [|? ? Hn Ht]; subst. intros [Heq|Hin].
  - injection Heq as -> ->. rewrite bytes_eqb_refl. reflexivity.
  - destruct (bytes_eqb k c) eqn:E; [|apply IH; assumption].
    apply bytes_eqb_iff in E. subst k. exfalso. apply Hn. apply in_map_iff. exists (c, L). split; [reflexivity|exact Hin].
Qed.

(* ---- find = filter over all stored records ---- *)
Lemma filter_block_same c s e l :
  filter (hit_b c s e) (map (fun i => (c, i)) l) = map (fun i => (c, i)) (filter (ovl s e) l).
Proof.
  induction l as [|a t IH]; cbn [map filter]; [reflexivity|].
  unfold hit_b at 1. cbn [fst snd]. rewrite bytes_eqb_refl. cbn [andb].
  destruct (ovl s e a); cbn [map]; rewrite IH; reflexivity.
Qed.
Lemma filter_block_other k c s e (l : list iv) : bytes_eqb k c = false ->
  filter (hit_b c s e) (map (fun i => (k, i)) l) = [].
Proof.
  intros E. induction l as [|a t IH]; cbn [map filter]; [reflexivity|].
  unfold hit_b at 1. cbn [fst snd]. rewrite E. cbn [andb]. exact IH.
Qed.
Lemma filter_giter_absent m c s e : ~ In c (map fst m) -> filter (hit_b c s e) (giter m) = [].
Proof.
  induction m as [|[k L] t IH]; intros H; [reflexivity|].
  rewrite giter_cons, filter_app. cbn [map fst In] in H.
  rewrite filter_block_other by (apply bytes_eqb_neq; intros ->; apply H; left; reflexivity).
  cbn [app]. apply IH. intros Hin. apply H. right. exact Hin.
Qed.
Lemma giter_filter m c s e : NoDup (map fst m) ->
  filter (hit_b c s e) (giter m) =
  match glookup m c with Some L => map (fun i => (c, i)) (filter (ovl s e) (ivs L)) | None => [] end.
Proof.
  induction m as [|[k L] t IH]; intros Hnd; [reflexivity|].
  cbn [map fst] in Hnd. inversion Hnd as [|? ? Hn Ht]; subst.
  rewrite giter_cons, filter_app. cbn [glookup]. destruct (bytes_eqb k c) eqn:E.
  - apply bytes_eqb_iff in E. subst k. rewrite filter_block_same, filter_giter_absent by exact Hn.
    apply app_nil_r.
  - rewrite filter_block_other by exact E. cbn [app]. apply IH. exact Ht.
Qed.

Lemma gfind_eq m c s e : GInv m -> gfind m c s e = Ok (filter (hit_b c s e) (giter m)).
Proof.
  intros (Hnd & HL). unfold gfind. rewrite giter_filter by exact Hnd.
  destruct (glookup m c) as [L|] eqn:E; [|reflexivity].
  rewrite find_filter by (eapply HL; apply glookup_in; exact E). reflexivity.
Qed.

Theorem gfind_spec : forall m c s e, GInv m ->
  exists h, gfind m c s e = Ok h /\ Permutation h (filter (hit_b c s e) (giter m)).
Proof. intros m c s e HI. eexists. split; [apply gfind_eq; exact HI|reflexivity]. Qed.

Theorem gfind_same_chrom : forall m c s e h, gfind m c s e = Ok h -> forall r, In r h -> fst r = c.
Proof.
  intros m c s e h H r Hr. unfold gfind in H. destruct (glookup m c) as [L|].
  - destruct (lfind L s e) as [h0|]; cbn [rbind] in H; [|discriminate]. injection H as <-.
    apply in_map_iff in Hr. destruct Hr as (i & <- & _). reflexivity.
  - injection H as <-. destruct Hr.
Qed.

Theorem gis_overlapped_spec : forall m c s e, GInv m ->
  gis_overlapped m c s e = Ok (existsb (hit_b c s e) (giter m)).
Proof.
  intros m c s e HI. unfold gis_overlapped. rewrite gfind_eq by exact HI. cbn [rbind].
  f_equal. apply filter_nonempty_existsb.
Qed.

Theorem glen_spec : forall m, glen m = length (giter m).
Proof.
  induction m as [|[k L] t IH]; [reflexivity|].
  rewrite giter_cons, app_length, map_length. unfold glen in *. cbn [fold_right snd]. rewrite IH. reflexivity.
Qed.

(* ---- insert ---- *)
Lemma gupdate_keys m c L k : In k (map fst (gupdate m c L)) -> k = c \/ In k (map fst m).
Proof.
  induction m as [|[k0 L0] t IH]; cbn [gupdate map fst In].
  - intros [H|[]]; auto.
  - destruct (bytes_eqb k0 c) eqn:E; cbn [map fst In].
    + intros H; right; exact H.
    + intros [H|H]; [right; left; exact H|]. destruct (IH H); auto.
Qed.
Lemma gupdate_nodup m c L : NoDup (map fst m) -> NoDup (map fst (gupdate m c L)).
Proof.
  induction m as [|[k0 L0] t IH]; cbn [gupdate map fst]; intros H.
  - constructor; [intros []|constructor].
  - inversion H as [|? ? Hn Ht]; subst. destruct (bytes_eqb k0 c) eqn:E; cbn [map fst].
    + constructor; assumption.
    + constructor; [|apply IH; exact Ht]. intros Hin. apply gupdate_keys in Hin.
      destruct Hin as [->|Hin]; [|contradiction]. rewrite bytes_eqb_refl in E. discriminate.
Qed.
Lemma gupdate_in m c L k L0 : In (k, L0) (gupdate m c L) -> L0 = L \/ In (k, L0) m.
Proof.
  induction m as [|[k1 L1] t IH]; cbn [gupdate In].
  - intros [H|[]]. injection H as _ <-. left. reflexivity.
  - destruct (bytes_eqb k1 c) eqn:E; cbn [In].
    + intros [H|H]; [injection H as _ <-; left; reflexivity|right; right; exact H].
    + intros [H|H]; [right; left; exact H|]. destruct (IH H); auto.
Qed.
Lemma gupdate_giter m c L' e :
  Permutation (ivs L') (e :: ivs (match glookup m c with Some L => L | None => lnew [] end)) ->
  Permutation (giter (gupdate m c L')) ((c, e) :: giter m).
Proof.
  induction m as [|[k L0] t IH]; cbn [glookup gupdate]; intros HP.
  - change (ivs (lnew [])) with (@nil iv) in HP. rewrite giter_cons. change (giter []) with (@nil grec).
    rewrite app_nil_r. exact (Permutation_map (fun i => (c, i)) HP).
  - destruct (bytes_eqb k c) eqn:E.
    + apply bytes_eqb_iff in E. subst k. rewrite !giter_cons.
      exact (Permutation_app_tail (giter t) (Permutation_map (fun i => (c, i)) HP)).
    + rewrite !giter_cons. rewrite (IH HP). symmetry. apply Permutation_middle.
Qed.

Theorem ginsert_spec : forall m r, GInv m ->
  exists m', ginsert m r = Ok m' /\ GInv m' /\ Permutation (giter m') (r :: giter m).
Proof.
  intros m [c e] (Hnd & HL). unfold ginsert. cbn [fst snd].
  assert (HLI : LInv (match glookup m c with Some L => L | None => lnew [] end)).
  { destruct (glookup m c) as [L|] eqn:E; [eapply HL; apply glookup_in; exact E|apply lnew_inv]. }
  destruct (linsert_spec _ e HLI) as (L' & E & HI' & HP & _). rewrite E. cbn [rbind].
  eexists. split; [reflexivity|]. split; [split|].
  - apply gupdate_nodup; exact Hnd.
  - intros k L0 Hin. apply gupdate_in in Hin. destruct Hin as [->|Hin]; [exact HI'|eapply HL; exact Hin].
  - apply gupdate_giter. exact HP.
Qed.

(* ---- collect followed by any number of inserts ---- *)
Definition gbuild (rs ins : list grec) : res gmap :=
  fold_left (fun r x => do m <- r; ginsert m x) ins (Ok (gcollect rs)).

Lemma ginserts_inv : forall ins m base, GInv m -> Permutation (giter m) base ->
  exists m2, fold_left (fun r x => do m <- r; ginsert m x) ins (Ok m) = Ok m2 /\ GInv m2 /\
             Permutation (giter m2) (base ++ ins).
Proof.
  induction ins as [|x t IH]; intros m base HI HP; cbn [fold_left].
  - exists m. rewrite app_nil_r. auto.
  - cbn [rbind]. destruct (ginsert_spec m x HI) as (m' & E & HI' & Hp). rewrite E.
    destruct (IH m' (base ++ [x]) HI') as (m2 & E2 & HI2 & HP2).
    + rewrite Hp, HP. apply Permutation_cons_append.
    + exists m2. split; [exact E2|]. split; [exact HI2|]. rewrite HP2, <- app_assoc. reflexivity.
Qed.

Theorem gbuild_spec : forall rs ins, exists m, gbuild rs ins = Ok m /\ GInv m /\ Permutation (giter m) (rs ++ ins).
Proof.
  intros rs ins. destruct (gcollect_spec rs) as (HI & HP). apply ginserts_inv; assumption.
Qed.

Theorem c02_gmap : forall rs ins c s e, exists m h,
  gbuild rs ins = Ok m /\ Permutation (giter m) (rs ++ ins) /\ glen m = length (rs ++ ins) /\
  gfind m c s e = Ok h /\ Permutation h (filter (hit_b c s e) (rs ++ ins)) /\ (forall r, In r h -> fst r = c) /\
  gis_overlapped m c s e = Ok (existsb (hit_b c s e) (rs ++ ins)).
Proof.
  intros rs ins c s e. destruct (gbuild_spec rs ins) as (m & E & HI & HP).
  exists m, (filter (hit_b c s e) (giter m)).
  split; [exact E|]. split; [exact HP|]. split; [rewrite glen_spec; apply Permutation_length; exact HP|].
  split; [apply gfind_eq; exact HI|]. split; [apply filter_perm; exact HP|].
  split; [apply (gfind_same_chrom m c s e); apply gfind_eq; exact HI|].
  rewrite gis_overlapped_spec by exact HI. f_equal. apply existsb_perm. exact HP.
Qed.

(* ======================= C11: GIntervalIndexSet / GIntervalIndexMap ======================= *)
Definition reg_hit (c : bytes) (s e : N) (r : region) : bool :=
  bytes_eqb (fst (fst r)) c && (snd (fst r) <? e) && (s <? snd r).

(* the record stored for the region at a position, and the pair reported for a stored record *)
Definition rec_of (kr : N * region) : grec :=
  (fst (fst (snd kr)), mkiv (snd (fst (snd kr))) (snd (snd kr)) (fst kr)).
Definition out_of (g : grec) : region * N := ((fst g, st (snd g), en (snd g)), vl (snd g)).

Lemma iset_new_idx rs : is_idx (iset_new rs) = gcollect (map rec_of (enumerate_from 0 rs)).
Proof. reflexivity. Qed.
Lemma hit_rec c s e kr : hit_b c s e (rec_of kr) = reg_hit c s e (snd kr).
Proof. unfold hit_b, reg_hit, rec_of, ovl. cbn [fst snd st en]. rewrite andb_assoc. reflexivity. Qed.
Lemma out_rec kr : out_of (rec_of kr) = (snd kr, fst kr).
Proof. destruct kr as [i [[ch a] b]]. reflexivity. Qed.

Theorem iset_positional : forall rs,
  is_data (iset_new rs) = rs /\ iset_len (iset_new rs) = length rs /\
  (forall i, iset_get (iset_new rs) i = nth_error rs i) /\
  (forall i, (length rs <= i)%nat -> iset_get (iset_new rs) i = None).
Proof.
  intros rs. split; [reflexivity|]. split; [reflexivity|]. split; [reflexivity|].
  intros i Hi. apply nth_error_None. exact Hi.
Qed.

(* positions: filtering an enumerated list = filtering the positions *)
Lemma enum_filter_map {A B} (F : N * A -> B) (q : A -> bool) : forall (l : list A) (G : nat -> B) (k : N),
  (forall j x, nth_error l j = Some x -> G j = F (k + N.of_nat j, x)) ->
  map F (filter (fun p => q (snd p)) (enumerate_from k l)) =
  map G (filter (fun j => match nth_error l j with Some x => q x | None => false end) (seq 0 (length l))).
Proof.
  induction l as [|x t IH]; intros G k HG; [reflexivity|].
  cbn [enumerate_from filter snd length]. rewrite <- cons_seq, <- seq_shift. cbn [filter nth_error].
  assert (Ht : map F (filter (fun p => q (snd p)) (enumerate_from (k + 1) t)) =
               map G (filter (fun j => match nth_error (x :: t) j with Some x0 => q x0 | None => false end)
                             (map S (seq 0 (length t))))).
  { rewrite filter_map_comm, map_map. cbn [nth_error]. apply (IH (fun j => G (S j)) (k + 1)).
    intros j y Hj. rewrite (HG (S j) y Hj). f_equal. f_equal. lia. }
  destruct (q x); cbn [map]; [|exact Ht]. rewrite Ht. f_equal. rewrite (HG 0%nat x eq_refl). f_equal. f_equal.
  cbn [N.of_nat]. lia.
Qed.

Lemma enum_in {A} (l : list A) : forall k i a, In (i, a) (enumerate_from k l) -> k <= i < k + N.of_nat (length l).
Proof.
  induction l as [|x t IH]; intros k i a; cbn [enumerate_from In length]; [intros []|].
  intros [H|H].
  - injection H as <- _. lia.
  - apply IH in H. lia.
Qed.

(* the hits of the stored map, up to order *)
Lemma idx_find_perm rs c s e : exists h0,
  gfind (is_idx (iset_new rs)) c s e = Ok h0 /\
  Permutation h0 (map rec_of (filter (fun kr => reg_hit c s e (snd kr)) (enumerate_from 0 rs))).
Proof.
  rewrite iset_new_idx. destruct (gcollect_spec (map rec_of (enumerate_from 0 rs))) as (HI & HP).
  eexists. split; [apply gfind_eq; exact HI|].
  rewrite (filter_perm _ _ _ HP), filter_map_comm.
  rewrite (filter_ext _ _ (hit_rec c s e)). reflexivity.
Qed.

Definition pos_hit (rs : list region) (c : bytes) (s e : N) (i : nat) : bool :=
  match nth_error rs i with Some r => reg_hit c s e r | None => false end.

Lemma iset_find_full_perm rs c s e : exists hf,
  iset_find_full (iset_new rs) c s e = Ok hf /\
  forall B (F : region * N -> B) (G : nat -> B),
    (forall j x, nth_error rs j = Some x -> G j = F (x, N.of_nat j)) ->
    Permutation (map F hf) (map G (filter (pos_hit rs c s e) (seq 0 (length rs)))).
Proof.
  destruct (idx_find_perm rs c s e) as (h0 & E & HP). unfold iset_find_full. rewrite E. cbn [rbind].
  eexists. split; [reflexivity|]. intros B F G HG. fold out_of.
  rewrite (Permutation_map out_of HP), !map_map.
  rewrite (enum_filter_map (fun x => F (out_of (rec_of x))) (reg_hit c s e) rs G 0); [reflexivity|].
  intros j x Hj. cbv beta. rewrite out_rec. cbn [fst snd]. rewrite (HG j x Hj), N.add_0_l. reflexivity.
Qed.

Theorem iset_find_index_spec : forall rs c s e, exists h,
  iset_find_index (iset_new rs) c s e = Ok h /\
  Permutation h (map N.of_nat (filter (fun i => match nth_error rs i with Some r => reg_hit c s e r | None => false end)
                                      (seq 0 (length rs)))).
Proof.
  intros rs c s e. destruct (iset_find_full_perm rs c s e) as (hf & E & H).
  unfold iset_find_index. rewrite E. cbn [rbind]. eexists. split; [reflexivity|].
  apply (H N snd N.of_nat). intros j x _. reflexivity.
Qed.

Lemma NoDup_map_inj {A B} (f : A -> B) l : (forall x y, f x = f y -> x = y) -> NoDup l -> NoDup (map f l).
Proof.
  intros Hf. induction 1 as [|x l Hn Hnd IH]; cbn [map]; constructor; [|exact IH].
  intros Hin. apply in_map_iff in Hin. destruct Hin as (y & Hy & Hin). apply Hf in Hy. subst y. contradiction.
Qed.

Theorem iset_find_index_nodup : forall rs c s e h, iset_find_index (iset_new rs) c s e = Ok h -> NoDup h.
Proof.
  intros rs c s e h Hh. destruct (iset_find_index_spec rs c s e) as (h' & E & HP).
  rewrite Hh in E. injection E as <-. apply (Permutation_NoDup (Permutation_sym HP)).
  apply NoDup_map_inj; [intros x y Hxy; lia|]. apply NoDup_filter. apply seq_NoDup.
Qed.

Theorem iset_find_full_spec : forall rs c s e, exists h,
  iset_find_full (iset_new rs) c s e = Ok h /\
  forall r i, In (r, i) h <-> (nth_error rs (N.to_nat i) = Some r /\ reg_hit c s e r = true).
Proof.
  intros rs c s e. destruct (iset_find_full_perm rs c s e) as (hf & E & H).
  exists hf. split; [exact E|]. intros r i.
  pose (G := fun j => match nth_error rs j with Some x => (x, N.of_nat j) | None => (([], 0, 0), 0) end : region * N).
  assert (HP : Permutation hf (map G (filter (pos_hit rs c s e) (seq 0 (length rs))))).
  { rewrite <- (map_id hf) at 1. apply (H _ (fun x => x) G). intros j x Hj. unfold G. rewrite Hj. reflexivity. }
  split.
  - intros Hin. apply (Permutation_in _ HP) in Hin. apply in_map_iff in Hin. destruct Hin as (j & Hj & Hin).
    apply filter_In in Hin. destruct Hin as (_ & Hp). unfold pos_hit in Hp. unfold G in Hj.
    destruct (nth_error rs j) as [x|] eqn:En; [|discriminate]. injection Hj as -> <-.
    rewrite Nat2N.id. auto.
  - intros (Hn & Hr). apply (Permutation_in _ (Permutation_sym HP)). apply in_map_iff. exists (N.to_nat i). split.
    + unfold G. rewrite Hn, N2Nat.id. reflexivity.
    + apply filter_In. split.
      * apply in_seq. split; [lia|]. cbn. apply nth_error_Some. congruence.
      * unfold pos_hit. rewrite Hn. exact Hr.
Qed.

Theorem iset_find_full_nodup : forall rs c s e h, iset_find_full (iset_new rs) c s e = Ok h -> NoDup (map snd h).
Proof.
  intros rs c s e h Hh. apply (iset_find_index_nodup rs c s e). unfold iset_find_index. rewrite Hh. reflexivity.
Qed.

Theorem iset_find_spec : forall rs c s e, exists hf h,
  iset_find_full (iset_new rs) c s e = Ok hf /\ iset_find (iset_new rs) c s e = Ok h /\ h = map fst hf.
Proof.
  intros rs c s e. destruct (iset_find_full_perm rs c s e) as (hf & E & _).
  exists hf, (map fst hf). split; [exact E|]. split; [|reflexivity]. unfold iset_find. rewrite E. reflexivity.
Qed.

(* ---- index map: data looked up at the reported positions ---- *)
Lemma mapM_ok {A B} (f : A -> res B) (g : A -> B) l : (forall x, In x l -> f x = Ok (g x)) -> mapM f l = Ok (map g l).
Proof.
  induction l as [|x t IH]; intros H; cbn [mapM map]; [reflexivity|].
  rewrite (H x (or_introl eq_refl)). cbn [rbind]. rewrite IH by (intros y Hy; apply H; right; exact Hy). reflexivity.
Qed.

Lemma idx_nth {A} (l : list A) i d : (i < length l)%nat -> idx l i = Ok (nth i l d).
Proof.
  intros H. destruct (idx_ok l i H) as (v & E & Hn). rewrite E. f_equal. symmetry. apply nth_error_nth. exact Hn.
Qed.

Theorem imap_find_spec : forall (rs : list (region * N)) c s e, exists h,
  imap_find (imap_new rs) c s e = Ok h /\
  Permutation h (map (fun i => match nth_error rs i with Some rv => rv | None => ((([], 0), 0), 0) end)
                     (filter (fun i => match nth_error rs i with Some rv => reg_hit c s e (fst rv) | None => false end)
                             (seq 0 (length rs)))).
Proof.
  intros rs c s e. destruct (idx_find_perm (map fst rs) c s e) as (h0 & E & HP).
  unfold imap_find. change (im_idx (imap_new rs)) with (is_idx (iset_new (map fst rs))).
  change (im_data (imap_new rs)) with (map snd rs). rewrite E. cbn [rbind].
  pose (g0 := fun g : grec => ((fst g, st (snd g), en (snd g)), nth (N.to_nat (vl (snd g))) (map snd rs) 0)).
  rewrite (mapM_ok _ g0).
  - eexists. split; [reflexivity|]. rewrite (Permutation_map g0 HP), map_map.
    rewrite (enum_filter_map (fun x => g0 (rec_of x)) (reg_hit c s e) (map fst rs)
               (fun i => match nth_error rs i with Some rv => rv | None => ((([], 0), 0), 0) end) 0).
    + rewrite map_length. apply Permutation_map.
      rewrite (filter_ext _ (fun i => match nth_error rs i with Some rv => reg_hit c s e (fst rv) | None => false end));
        [reflexivity|].
      intros j. rewrite nth_error_map. destruct (nth_error rs j); reflexivity.
    + intros j x Hj. rewrite nth_error_map in Hj. destruct (nth_error rs j) as [[r v]|] eqn:En; [|discriminate].
      cbn [option_map fst] in Hj. injection Hj as <-. unfold g0, rec_of. cbn [fst snd st en vl].
      destruct r as [[ch a] b]. cbn [fst snd]. f_equal.
      replace (N.to_nat (0 + N.of_nat j)) with j by lia.
      symmetry. apply nth_error_nth. rewrite nth_error_map, En. reflexivity.
  - intros x Hx. apply (Permutation_in _ HP) in Hx. apply in_map_iff in Hx. destruct Hx as ([i r] & <- & Hin).
    apply filter_In in Hin. destruct Hin as (Hin & _). apply enum_in in Hin. rewrite map_length in Hin.
    unfold rec_of. cbn [fst snd st en vl]. rewrite (idx_nth _ _ 0) by (rewrite map_length; lia).
    reflexivity.
Qed.

(* TmpOracleProofs.v — the listing oracle tmp_ok accepts every lifetime of the abstract tempfile protocol: the model's own
   behaviour is never rejected by the oracle that judges the real directory listings (consistency of model and oracle). *)
From BedV Require Import Base AlgebraModel ExtSortModel TmpModel TmpProofs.

(* what a recursive listing shows for a state of the model: the entries of the configured directory as paths under it,
   and whatever else lies around it (the configured directory itself, siblings, the directory TMPDIR points to, ...) *)
Definition listing (cfg : bytes) (outside : list bytes) (entries : list bytes) : list bytes :=
  map (fun n => cfg ++ [47] ++ n) entries ++ outside.

Lemma strip_prefix_self : forall p t, strip_prefix p (p ++ t) = Some t.
Proof. induction p as [|a p IH]; intros t; [reflexivity|]. cbn [app strip_prefix]. rewrite N.eqb_refl. apply IH. Qed.

Lemma under_cfg_child : forall cfg d, under_cfg cfg (cfg ++ [47] ++ d) = true.
Proof. intros cfg d. unfold under_cfg. rewrite app_assoc, strip_prefix_self. reflexivity. Qed.

Lemma subset_b_refl : forall l, subset_b l l = true.
Proof. intros l. apply subset_b_iff. intros x Hx. exact Hx. Qed.

Lemma subset_b_cons : forall x l, subset_b l (x :: l) = true.
Proof. intros x l. apply subset_b_iff. intros y Hy. right. exact Hy. Qed.

Lemma new_entries_self : forall l, new_entries l l = [].
Proof.
  intros l. unfold new_entries.
  assert (H : forall m, incl m l -> filter (fun x => negb (str_in x l)) m = []).
  { induction m as [|y m IH]; intros Hm; [reflexivity|]. cbn [filter].
    assert (E : str_in y l = true) by (apply str_in_iff; apply Hm; left; reflexivity).
    rewrite E. cbn [negb]. apply IH. intros z Hz. apply Hm. right. exact Hz. }
  apply H. intros x Hx. exact Hx.
Qed.

Lemma new_entries_cons : forall x l, new_entries l (x :: l) = [] \/ new_entries l (x :: l) = [x].
Proof.
  intros x l. pose proof (new_entries_self l) as E. unfold new_entries in *. cbn [filter].
  destruct (str_in x l); cbn [negb]; rewrite E; [left|right]; reflexivity.
Qed.

Lemma during_ok_before : forall cfg b, during_ok' cfg b b = true.
Proof. intros cfg b. unfold during_ok'. rewrite subset_b_refl, new_entries_self. reflexivity. Qed.

Lemma during_ok_child : forall cfg d b, during_ok' cfg b ((cfg ++ [47] ++ d) :: b) = true.
Proof.
  intros cfg d b. pose proof (under_cfg_child cfg d) as Hu.
  generalize dependent (cfg ++ [47] ++ d). intros c Hu.
  unfold during_ok'. rewrite subset_b_cons.
  change (@cons (list N) c b) with (@cons bytes c b).
  destruct (new_entries_cons c b) as [E|E].
  - rewrite E. reflexivity.
  - rewrite E. cbn [forallb andb]. rewrite Hu. reflexivity.
Qed.

Theorem tmp_ok_accepts_model : forall cfg outside e0 d script,
  ~ In d e0 -> forallb (fun e => negb (is_build e)) script = true -> In TDropSorter script ->
  tmp_ok cfg (listing cfg outside e0)
         (map (fun s => listing cfg outside (t_entries s)) (ttrace (mkT e0 None 0) (TBuild d :: script)))
         (listing cfg outside (t_entries (trun (mkT e0 None 0) (TBuild d :: script)))) = true.
Proof.
  intros cfg outside e0 d script Hd Hs Hin. unfold tmp_ok. apply andb_true_iff. split.
  - apply forallb_forall. intros l Hl. apply in_map_iff in Hl. destruct Hl as (s & <- & Hs').
    pose proof (tmp_confined e0 d script Hd Hs) as Hc. rewrite Forall_forall in Hc.
    destruct (Hc s Hs') as [E|E]; rewrite E.
    + unfold listing. cbn [map app]. apply during_ok_child.
    + apply during_ok_before.
  - rewrite (tmp_restored e0 d script Hd Hs Hin). unfold same_set. rewrite subset_b_refl. reflexivity.
Qed.

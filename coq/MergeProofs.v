(* MergeProofs.v — merge_overlaps yields the canonical disjoint cover; canonical covers are unique;
   calculate_coverage computes the cardinality of the covered position set. *)
From BedV Require Import Base LapperModel ListFacts LapperProofs LapperSpecs.

(* ---------- covered: structural facts ---------- *)
Lemma covered_nil p : covered [] p <-> False.
Proof. unfold covered. split; [intros (i & [] & _)|intros []]. Qed.

Lemma covered_cons x l p : covered (x :: l) p <-> covers x p \/ covered l p.
Proof.
  unfold covered. split.
  - intros (i & [<-|Hi] & Hc); [left; exact Hc|right; exists i; auto].
  - intros [Hc|(i & Hi & Hc)].
    + exists x. split; [left; reflexivity|exact Hc].
    + exists i. split; [right; exact Hi|exact Hc].
Qed.

Lemma covered_app l1 l2 p : covered (l1 ++ l2) p <-> covered l1 p \/ covered l2 p.
Proof.
  unfold covered. split.
  - intros (i & Hi & Hc). apply in_app_or in Hi. destruct Hi as [Hi|Hi]; [left|right]; exists i; auto.
  - intros [(i & Hi & Hc)|(i & Hi & Hc)]; exists i; (split; [apply in_or_app; auto|exact Hc]).
Qed.

Lemma covered_rev l p : covered (rev l) p <-> covered l p.
Proof.
  unfold covered. split; intros (i & Hi & Hc); exists i; (split; [|exact Hc]).
  - rewrite <- in_rev in Hi. exact Hi.
  - rewrite <- in_rev. exact Hi.
Qed.

Lemma ne_le l : ne_ivs l -> le_ivs l.
Proof. intros H i Hi. specialize (H i Hi). lia. Qed.

(* ---------- (1) merge_pass computes a canonical cover ---------- *)
Lemma merge_pass_canon : forall l acc,
  strictK (rev acc) -> ne_ivs acc -> ne_ivs l -> sortedK l ->
  (forall top rest, acc = top :: rest -> forall i, In i l -> st top <= st i) ->
  strictK (merge_pass acc l) /\ ne_ivs (merge_pass acc l) /\
  forall p, covered (merge_pass acc l) p <-> covered (rev acc) p \/ covered l p.
Proof.
  induction l as [|i t IH]; intros acc Hs Hacc Hl Hsl Hhd; cbn [merge_pass].
  - split; [exact Hs|]. split.
    + intros x Hx. apply Hacc. rewrite <- in_rev in Hx. exact Hx.
    + intros p. rewrite covered_nil. tauto.
  - assert (Hi : st i < en i) by (apply Hl; left; reflexivity).
    assert (Ht : ne_ivs t) by (intros x Hx; apply Hl; right; exact Hx).
    inversion Hsl as [|? ? Hst Hall]; subst.
    assert (Hit : forall x, In x t -> st i <= st x).
    { rewrite Forall_forall in Hall. intros x Hx. apply key_le_st. apply Hall. exact Hx. }
    destruct acc as [|top rest].
    + destruct (IH [i]) as (A & B & C).
      * cbn. constructor; constructor.
      * intros x [<-|[]]. exact Hi.
      * exact Ht.
      * exact Hst.
      * intros top rest E x Hx. injection E as <- <-. apply Hit. exact Hx.
      * split; [exact A|]. split; [exact B|]. intros p. rewrite C. cbn [rev app].
        rewrite !covered_cons, !covered_nil. tauto.
    + assert (Htop : st top < en top) by (apply Hacc; left; reflexivity).
      assert (Hti : st top <= st i) by (apply (Hhd top rest eq_refl); left; reflexivity).
      pose proof Hs as Hs0.
      cbn [rev] in Hs. apply sorted_snoc in Hs. destruct Hs as (Hs & Hallr).
      destruct (N.ltb_spec (en top) (st i)) as [H1|H1].
      * destruct (IH (i :: top :: rest)) as (A & B & C).
        -- cbn [rev]. apply sorted_snoc. split; [apply sorted_snoc; split; assumption|].
           apply Forall_app. split; [|constructor; [exact H1|constructor]].
           rewrite Forall_forall in Hallr |- *. intros a Ha. specialize (Hallr a Ha).
           unfold before in *. lia.
        -- intros x [<-|Hx]; [exact Hi|apply Hacc; exact Hx].
        -- exact Ht.
        -- exact Hst.
        -- intros top' rest' E x Hx. injection E as <- <-. apply Hit. exact Hx.
        -- split; [exact A|]. split; [exact B|]. intros p. rewrite C. cbn [rev].
           rewrite !covered_app, !covered_cons, !covered_nil. tauto.
      * destruct (N.ltb_spec (en top) (en i)) as [H2|H2].
        -- destruct (IH (mkiv (st top) (en i) (vl top) :: rest)) as (A & B & C).
           ++ cbn [rev]. apply sorted_snoc. split; [exact Hs|]. exact Hallr.
           ++ intros x [<-|Hx]; [cbn [st en]; lia|apply Hacc; right; exact Hx].
           ++ exact Ht.
           ++ exact Hst.
           ++ intros top' rest' E x Hx. injection E as <- <-. cbn [st]. specialize (Hit x Hx). lia.
           ++ split; [exact A|]. split; [exact B|]. intros p. rewrite C. cbn [rev].
              rewrite !covered_app, !covered_cons, !covered_nil.
              assert (Hm : covers (mkiv (st top) (en i) (vl top)) p <-> covers top p \/ covers i p)
                by (unfold covers; cbn [st en]; lia).
              rewrite Hm. tauto.
        -- destruct (IH (top :: rest)) as (A & B & C).
           ++ exact Hs0.
           ++ exact Hacc.
           ++ exact Ht.
           ++ exact Hst.
           ++ intros top' rest' E x Hx. injection E as <- <-. specialize (Hit x Hx). lia.
           ++ split; [exact A|]. split; [exact B|]. intros p. rewrite C. rewrite (covered_cons i t).
              assert (Hm : covers i p -> covered (rev (top :: rest)) p).
              { intros Hc. exists top. split; [rewrite <- in_rev; left; reflexivity|].
                unfold covers in *. lia. }
              tauto.
Qed.

Theorem merge_canon : forall l, sortedK l -> ne_ivs l -> IsCanonOf l (merge_pass [] l).
Proof.
  intros l Hs Hn. destruct (merge_pass_canon l []) as (A & B & C).
  - cbn. constructor.
  - intros x [].
  - exact Hn.
  - exact Hs.
  - intros top rest E. discriminate E.
  - split; [split; assumption|]. intros p. rewrite C. cbn [rev]. rewrite covered_nil. tauto.
Qed.

(* ---------- (4) ---------- *)
Theorem merge_canon_sorted : forall l, sortedK l -> ne_ivs l ->
  sortedK (merge_pass [] l) /\ ne_ivs (merge_pass [] l).
Proof.
  intros l Hs Hn. destruct (merge_canon l Hs Hn) as ((A & B) & _).
  split; [apply strict_sortedK; [exact A|apply ne_le; exact B]|exact B].
Qed.

(* ---------- (3) merge_pass is the identity on separated lists ---------- *)
Lemma merge_pass_idem : forall c acc, strictK c ->
  (forall top rest, acc = top :: rest -> forall x, In x c -> before top x) ->
  merge_pass acc c = rev acc ++ c.
Proof.
  induction c as [|i t IH]; intros acc Hs Hb; cbn [merge_pass].
  - rewrite app_nil_r. reflexivity.
  - inversion Hs as [|? ? Hst Hall]; subst. rewrite Forall_forall in Hall.
    destruct acc as [|top rest].
    + rewrite IH; [reflexivity|exact Hst|].
      intros top rest E x Hx. injection E as <- <-. apply Hall. exact Hx.
    + assert (H1 : en top < st i) by (apply (Hb top rest eq_refl); left; reflexivity).
      apply N.ltb_lt in H1. rewrite H1. rewrite IH.
      * cbn [rev]. rewrite <- !app_assoc. reflexivity.
      * exact Hst.
      * intros top' rest' E x Hx. injection E as <- <-. apply Hall. exact Hx.
Qed.

Theorem merge_idem : forall c, StrictSep c -> merge_pass [] c = c.
Proof.
  intros c (Hs & _). rewrite merge_pass_idem; [reflexivity|exact Hs|].
  intros top rest E. discriminate E.
Qed.

(* ---------- (2) canonical covers are unique ---------- *)
Lemma sep_tail a t : StrictSep (a :: t) -> StrictSep t.
Proof.
  intros (Hs & Hn). split; [inversion Hs; assumption|]. intros x Hx. apply Hn. right. exact Hx.
Qed.

Lemma sep_head_ne a t : StrictSep (a :: t) -> st a < en a.
Proof. intros (_ & Hn). apply Hn. left. reflexivity. Qed.

Lemma sep_head_lt a t p : StrictSep (a :: t) -> covered t p -> en a < p.
Proof.
  intros (Hs & Hn) (j & Hj & Hc). inversion Hs as [|? ? Hst Hall]; subst.
  rewrite Forall_forall in Hall. specialize (Hall j Hj). unfold before in Hall. unfold covers in Hc. lia.
Qed.

Lemma sep_first_le a t p : StrictSep (a :: t) -> covered (a :: t) p -> st a <= p.
Proof.
  intros S Hc. apply covered_cons in Hc. destruct Hc as [Hc|Hc]; [unfold covers in Hc; lia|].
  pose proof (sep_head_lt _ _ _ S Hc). pose proof (sep_head_ne _ _ S). lia.
Qed.

Lemma sep_st_le a t1 b t2 : StrictSep (a :: t1) -> StrictSep (b :: t2) ->
  (forall p, covered (a :: t1) p -> covered (b :: t2) p) -> st b <= st a.
Proof.
  intros S1 S2 H. pose proof (sep_head_ne _ _ S1) as Na.
  apply (sep_first_le b t2 (st a) S2). apply H. apply covered_cons. left. unfold covers. lia.
Qed.

Lemma sep_en_le a t1 b t2 : StrictSep (a :: t1) -> StrictSep (b :: t2) -> st a = st b ->
  (forall p, covered (b :: t2) p -> covered (a :: t1) p) -> en b <= en a.
Proof.
  intros S1 S2 E H. pose proof (sep_head_ne _ _ S1) as Na.
  destruct (N.lt_ge_cases (en a) (en b)) as [Hlt|Hge]; [exfalso|lia].
  assert (Hc : covered (a :: t1) (en a)).
  { apply H. apply covered_cons. left. unfold covers. lia. }
  apply covered_cons in Hc. destruct Hc as [Hc|Hc]; [unfold covers in Hc; lia|].
  pose proof (sep_head_lt _ _ _ S1 Hc). lia.
Qed.

Lemma sep_tail_sub a t1 b t2 : StrictSep (a :: t1) -> en b <= en a ->
  (forall p, covered (a :: t1) p -> covered (b :: t2) p) ->
  forall p, covered t1 p -> covered t2 p.
Proof.
  intros S1 E H p Hc. pose proof (sep_head_lt _ _ _ S1 Hc) as Hlt.
  assert (Hc2 : covered (b :: t2) p) by (apply H; apply covered_cons; right; exact Hc).
  apply covered_cons in Hc2. destruct Hc2 as [Hb|Hb]; [unfold covers in Hb; lia|exact Hb].
Qed.

Lemma sep_ends_eq : forall c1 c2, StrictSep c1 -> StrictSep c2 ->
  (forall p, covered c1 p <-> covered c2 p) -> ends c1 = ends c2.
Proof.
  induction c1 as [|a t1 IH]; intros [|b t2] S1 S2 H.
  - reflexivity.
  - exfalso. pose proof (sep_head_ne _ _ S2). apply (covered_nil (st b)). apply H.
    apply covered_cons. left. unfold covers. lia.
  - exfalso. pose proof (sep_head_ne _ _ S1). apply (covered_nil (st a)). apply H.
    apply covered_cons. left. unfold covers. lia.
  - assert (H12 : forall p, covered (a :: t1) p -> covered (b :: t2) p) by (intros p; apply H).
    assert (H21 : forall p, covered (b :: t2) p -> covered (a :: t1) p) by (intros p; apply H).
    pose proof (sep_st_le _ _ _ _ S1 S2 H12) as E1.
    pose proof (sep_st_le _ _ _ _ S2 S1 H21) as E2.
    assert (Est : st a = st b) by lia.
    pose proof (sep_en_le _ _ _ _ S1 S2 Est H21) as E3.
    pose proof (sep_en_le _ _ _ _ S2 S1 (eq_sym Est) H12) as E4.
    assert (Een : en a = en b) by lia.
    cbn [ends map]. rewrite Est, Een. f_equal.
    apply IH; [eapply sep_tail; exact S1|eapply sep_tail; exact S2|].
    intros p. split.
    + apply (sep_tail_sub a t1 b t2 S1); [lia|exact H12].
    + apply (sep_tail_sub b t2 a t1 S2); [lia|exact H21].
Qed.

Theorem canon_unique : forall l c1 c2, IsCanonOf l c1 -> IsCanonOf l c2 -> ends c1 = ends c2.
Proof.
  intros l c1 c2 (S1 & H1) (S2 & H2). apply sep_ends_eq; [exact S1|exact S2|].
  intros p. rewrite H1, H2. reflexivity.
Qed.

(* ---------- (6), (7) cardinalities ---------- *)
Theorem card_unique : forall P n m, CardOf P n -> CardOf P m -> n = m.
Proof.
  intros P n m (ps & Nd1 & In1 & L1) (qs & Nd2 & In2 & L2). subst n m. f_equal.
  apply Permutation_length. apply NoDup_Permutation; [exact Nd1|exact Nd2|].
  intros p. rewrite In1, In2. reflexivity.
Qed.

Theorem card_ext : forall P Q n, (forall p, P p <-> Q p) -> CardOf P n -> CardOf Q n.
Proof.
  intros P Q n H (ps & Nd & Hin & L). exists ps. split; [exact Nd|]. split; [|exact L].
  intros p. rewrite Hin. apply H.
Qed.

(* ---------- (5) enumerations ---------- *)
Definition nrange (s e : N) : list N := map N.of_nat (seq (N.to_nat s) (N.to_nat (e - s))).

Lemma NoDup_map_inj {A B} (f : A -> B) l :
  (forall x y, f x = f y -> x = y) -> NoDup l -> NoDup (map f l).
Proof.
  intros Hinj. induction 1 as [|x t Hx Hnd IH]; cbn [map]; constructor; [|exact IH].
  intros Hin. apply in_map_iff in Hin. destruct Hin as (y & E & Hy). apply Hinj in E. subst y. contradiction.
Qed.

Lemma NoDup_app_disj {A} (l1 l2 : list A) :
  NoDup l1 -> NoDup l2 -> (forall x, In x l1 -> In x l2 -> False) -> NoDup (l1 ++ l2).
Proof.
  induction 1 as [|x t Hx Hnd IH]; intros H2 Hd; cbn [app]; [exact H2|].
  constructor.
  - intros Hin. apply in_app_or in Hin. destruct Hin as [Hin|Hin]; [contradiction|].
    apply (Hd x); [left; reflexivity|exact Hin].
  - apply IH; [exact H2|]. intros y Hy1 Hy2. apply (Hd y); [right; exact Hy1|exact Hy2].
Qed.

Lemma nrange_in s e p : In p (nrange s e) <-> s <= p /\ p < e.
Proof.
  unfold nrange. rewrite in_map_iff. split.
  - intros (k & E & Hk). apply in_seq in Hk. subst p. lia.
  - intros (H1 & H2). exists (N.to_nat p). split; [apply N2Nat.id|]. apply in_seq. lia.
Qed.

Lemma card_range s e : CardOf (fun p => s <= p /\ p < e) (e - s).
Proof.
  exists (nrange s e). split; [|split].
  - unfold nrange. apply NoDup_map_inj; [intros x y E; apply Nat2N.inj; exact E|apply seq_NoDup].
  - intros p. apply nrange_in.
  - unfold nrange. rewrite map_length, seq_length. apply N2Nat.id.
Qed.

Lemma card_union P Q n m : CardOf P n -> CardOf Q m -> (forall p, P p -> Q p -> False) ->
  CardOf (fun p => P p \/ Q p) (n + m).
Proof.
  intros (ps & Nd1 & In1 & L1) (qs & Nd2 & In2 & L2) Hd. exists (ps ++ qs). split; [|split].
  - apply NoDup_app_disj; [exact Nd1|exact Nd2|]. intros x Hx Hy. apply (Hd x); [apply In1; exact Hx|apply In2; exact Hy].
  - intros p. rewrite in_app_iff, In1, In2. reflexivity.
  - rewrite app_length, Nat2N.inj_add, L1, L2. reflexivity.
Qed.

Lemma card_empty : CardOf (fun _ => False) 0.
Proof. exists []. split; [constructor|]. split; [intros p; cbn; tauto|reflexivity]. Qed.

Definition sum_len (c : list iv) : N := fold_right (fun i a => (en i - st i) + a) 0 c.

Theorem sep_card : forall c, StrictSep c -> CardOf (covered c) (sum_len c).
Proof.
  induction c as [|a t IH]; intros S.
  - cbn [sum_len fold_right]. apply (card_ext (fun _ => False)); [|exact card_empty].
    intros p. rewrite covered_nil. reflexivity.
  - cbn [sum_len fold_right]. fold (sum_len t).
    apply (card_ext (fun p => (st a <= p /\ p < en a) \/ covered t p)).
    + intros p. rewrite covered_cons. unfold covers. reflexivity.
    + apply card_union; [apply card_range|apply IH; eapply sep_tail; exact S|].
      intros p Hp Hc. pose proof (sep_head_lt _ _ _ S Hc). lia.
Qed.

(* ---------- (8) calculate_coverage ---------- *)
Lemma cov_loop_card : forall l ms me cov (P : N -> Prop),
  sortedK l -> ne_ivs l -> (forall i, In i l -> ms <= st i) ->
  CardOf P cov -> (forall p, P p -> p < ms) ->
  CardOf (fun p => P p \/ (ms <= p /\ p < me) \/ covered l p) (cov_loop l ms me cov).
Proof.
  induction l as [|i t IH]; intros ms me cov P Hsl Hl Hms HP Hlt; cbn [cov_loop].
  - apply (card_ext (fun p => P p \/ (ms <= p /\ p < me))).
    + intros p. rewrite covered_nil. tauto.
    + apply card_union; [exact HP|apply card_range|]. intros p Hp Hq. specialize (Hlt p Hp). lia.
  - assert (Hi : st i < en i) by (apply Hl; left; reflexivity).
    assert (Ht : ne_ivs t) by (intros x Hx; apply Hl; right; exact Hx).
    assert (Hmi : ms <= st i) by (apply Hms; left; reflexivity).
    inversion Hsl as [|? ? Hst Hall]; subst.
    assert (Hit : forall x, In x t -> st i <= st x).
    { rewrite Forall_forall in Hall. intros x Hx. apply key_le_st. apply Hall. exact Hx. }
    destruct (N.ltb_spec ms (en i)) as [H1|H1]; [|lia].
    destruct (N.ltb_spec (st i) me) as [H2|H2]; cbn [andb].
    + eapply card_ext; [|apply (IH (N.min ms (st i)) (N.max me (en i)) cov P Hst Ht)].
      * intros p. cbn beta. rewrite covered_cons. unfold covers.
        assert (Hm : (N.min ms (st i) <= p /\ p < N.max me (en i)) <->
                     ((ms <= p /\ p < me) \/ (st i <= p /\ p < en i))) by lia.
        rewrite Hm. tauto.
      * intros x Hx. specialize (Hit x Hx). lia.
      * exact HP.
      * intros p Hp. specialize (Hlt p Hp). lia.
    + eapply card_ext; [|apply (IH (st i) (en i) (cov + (me - ms)) (fun p => P p \/ (ms <= p /\ p < me)) Hst Ht)].
      * intros p. cbn beta. rewrite covered_cons. unfold covers. tauto.
      * exact Hit.
      * apply card_union; [exact HP|apply card_range|]. intros p Hp Hq. specialize (Hlt p Hp). lia.
      * intros p [Hp|Hp]; [specialize (Hlt p Hp); lia|lia].
Qed.

Theorem cov_card : forall l, sortedK l -> ne_ivs l -> CardOf (covered l) (cov_calc l).
Proof.
  intros l Hs Hn. unfold cov_calc.
  eapply card_ext; [|apply (cov_loop_card l 0 0 0 (fun _ => False) Hs Hn)].
  - intros p. cbn beta. split; [intros [[]|[H|H]]; [lia|exact H]|intros H; right; right; exact H].
  - intros i _. lia.
  - exact card_empty.
  - intros p [].
Qed.

(* ---------- (9) ---------- *)
Theorem cov_merge_same : forall l, sortedK l -> ne_ivs l -> cov_calc (merge_pass [] l) = cov_calc l.
Proof.
  intros l Hs Hn. destruct (merge_canon_sorted l Hs Hn) as (Hs' & Hn').
  destruct (merge_canon l Hs Hn) as (_ & Hc).
  apply (card_unique (covered l)); [|apply cov_card; assumption].
  apply (card_ext (covered (merge_pass [] l))); [exact Hc|apply cov_card; assumption].
Qed.

Print Assumptions merge_canon.
Print Assumptions canon_unique.
Print Assumptions merge_idem.
Print Assumptions merge_canon_sorted.
Print Assumptions sep_card.
Print Assumptions card_unique.
Print Assumptions card_ext.
Print Assumptions cov_card.
Print Assumptions cov_merge_same.

(* TmpModel.v — abstract resource model of the temporary-directory protocol of src/extsort/sort.rs
   (C15).  What the code relies on, stated as the semantics of the events:
     tempfile::tempdir_in(dir)   creates ONE fresh directory D under the configured directory;
     tempfile::tempfile_in(D)    creates a file in D and unlinks it at once: no visible entry, one open handle;
     dropping the TempDir        removes D recursively (also while unwinding from a panic);
     dropping the iterator       closes the handles.
   These facts about the `tempfile` crate and about Drop-on-unwind are observed at run time by the
   harness (directory listings judged by ExtSortModel.tmp_ok); here they are the model's semantics. *)
From BedV Require Import Base AlgebraModel.

Record tstate := mkT { t_entries : list bytes;      (* visible top-level entries of the configured directory *)
                       t_dir : option bytes;         (* the sorter's own directory while its TempDir is alive *)
                       t_open : nat }.               (* open, already unlinked chunk files *)
Inductive tev := TBuild (d : bytes) | TCreateChunk | TNextItem | TDropSorter | TDropIter.
Definition remove_name (d : bytes) (l : list bytes) : list bytes := filter (fun x => negb (bytes_eqb x d)) l.
Definition tstep (s : tstate) (e : tev) : tstate :=
  match e with
  | TBuild d => mkT (d :: t_entries s) (Some d) (t_open s)
  | TCreateChunk => mkT (t_entries s) (t_dir s) (S (t_open s))
  | TNextItem => s
  | TDropSorter => match t_dir s with
                   | Some d => mkT (remove_name d (t_entries s)) None (t_open s)
                   | None => s
                   end
  | TDropIter => mkT (t_entries s) (t_dir s) 0
  end.
Definition trun (s : tstate) (script : list tev) : tstate := fold_left tstep script s.
(* all the states a script passes through *)
Fixpoint ttrace (s : tstate) (script : list tev) : list tstate :=
  match script with [] => [s] | e :: t => s :: ttrace (tstep s e) t end.
Definition is_build (e : tev) : bool := match e with TBuild _ => true | _ => false end.

(* CoverageProofs.v — C05 (Coverage / SparseCoverage) and C06 (BinnedCoverage / SparseBinnedCoverage):
   counters against the history of inserts since the last reset; the sparse variants agree with the
   dense ones; bin ranges, bins as tilings, flat indexing of bins.  Stdlib only.  No axioms. *)
From BedV Require Import Base LapperModel ListFacts LapperProofs AlgebraModel GMapModel AlgebraProofs GMapProofs.

(* ======================= generic sums ======================= *)
Definition zsum (l : list Z) : Z := fold_right Z.add 0%Z l.

Lemma zsum_app l1 l2 : zsum (l1 ++ l2) = (zsum l1 + zsum l2)%Z.
Proof. induction l1 as [|x t IH]; cbn [app zsum fold_right]; [reflexivity|]. fold (zsum t). fold (zsum (t ++ l2)). rewrite IH. lia. Qed.

Lemma zsum_map_snoc {A} (f : A -> Z) l x : zsum (map f (l ++ [x])) = (zsum (map f l) + f x)%Z.
Proof. rewrite map_app, zsum_app. cbn [map zsum fold_right]. lia. Qed.

Lemma zsum_map_cons {A} (f : A -> Z) l x : zsum (map f (x :: l)) = (f x + zsum (map f l))%Z.
Proof. reflexivity. Qed.

Lemma zsum_perm l l' : Permutation l l' -> zsum l = zsum l'.
Proof.
  unfold zsum. induction 1 as [|x l l' H IH|x y l|l l' l'' H1 IH1 H2 IH2]; cbn [fold_right].
  - reflexivity.
  - rewrite IH. reflexivity.
  - lia.
  - congruence.
Qed.

Lemma zsum_zero {A} (f : A -> Z) l : (forall x, In x l -> f x = 0%Z) -> zsum (map f l) = 0%Z.
Proof.
  induction l as [|x t IH]; intros H; [reflexivity|].
  rewrite zsum_map_cons, (H x (or_introl eq_refl)), IH; [reflexivity|].
  intros y Hy. apply H. right. exact Hy.
Qed.

Lemma zsum_one {A} (f : A -> Z) l a : NoDup l -> In a l -> (forall x, In x l -> x <> a -> f x = 0%Z) ->
  zsum (map f l) = f a.
Proof.
  induction l as [|x t IH]; intros Hnd Hin H; [destruct Hin|].
  inversion Hnd as [|? ? Hn Ht]; subst. rewrite zsum_map_cons. destruct Hin as [->|Hin].
  - rewrite zsum_zero; [lia|]. intros y Hy. apply H; [right; exact Hy|]. intros ->. contradiction.
  - rewrite (H x (or_introl eq_refl)) by (intros ->; contradiction).
    rewrite IH; [reflexivity|exact Ht|exact Hin|]. intros y Hy. apply H. right. exact Hy.
Qed.

(* ======================= C05: Coverage / SparseCoverage ======================= *)
Definition since_reset (h : list cop) : list cop :=
  fold_left (fun acc o => match o with CReset => [] | _ => acc ++ [o] end) h [].
Definition contrib (rs : list region) (i : nat) (o : cop) : Z :=
  match o with
  | CInsert c s e k => match nth_error rs i with Some r => if reg_hit c s e r then k else 0%Z | None => 0%Z end
  | CInsertAt j k => if Nat.eqb j i then k else 0%Z
  | CReset => 0%Z
  end.
Definition mult (o : cop) : Z := match o with CInsert _ _ _ k => k | CInsertAt _ k => k | CReset => 0%Z end.
Definition valid_op (n : nat) (o : cop) : Prop := match o with CInsertAt j _ => (j < n)%nat | _ => True end.

Lemma since_reset_snoc h o :
  since_reset (h ++ [o]) = match o with CReset => [] | _ => since_reset h ++ [o] end.
Proof. unfold since_reset. rewrite fold_left_app. reflexivity. Qed.

(* ---- dense counters ---- *)
Lemma add_at_ok l i k : (i < length l)%nat -> exists l', add_at l i k = Ok l'.
Proof.
  revert i. induction l as [|x t IH]; intros i Hi; cbn [length] in Hi; [lia|].
  destruct i as [|j]; cbn [add_at]; [eexists; reflexivity|].
  destruct (IH j) as (t' & E); [lia|]. rewrite E. cbn [rbind]. eexists. reflexivity.
Qed.

Lemma add_at_nth l i k l' : add_at l i k = Ok l' ->
  length l' = length l /\ (i < length l)%nat /\
  forall x, nth x l' 0%Z = (nth x l 0%Z + if Nat.eqb i x then k else 0)%Z.
Proof.
  revert i l'. induction l as [|a t IH]; intros i l' H; cbn [add_at] in H; [discriminate|].
  destruct i as [|j].
  - injection H as <-. cbn [length]. split; [reflexivity|]. split; [lia|].
    intros [|x]; cbn [nth Nat.eqb]; lia.
  - destruct (add_at t j k) as [t'|] eqn:E; cbn [rbind] in H; [|discriminate]. injection H as <-.
    destruct (IH j t' E) as (H1 & H2 & H3). cbn [length]. split; [lia|]. split; [lia|].
    intros [|x]; cbn [nth Nat.eqb]; [lia|apply H3].
Qed.

Definition ind_at (x : nat) (k : Z) (j : N) : Z := if Nat.eqb (N.to_nat j) x then k else 0%Z.

Lemma add_all_ok l is k : Forall (fun j => (N.to_nat j < length l)%nat) is -> exists l', add_all l is k = Ok l'.
Proof.
  revert l. induction is as [|i t IH]; intros l H; cbn [add_all]; [eexists; reflexivity|].
  inversion H as [|? ? Hi Ht]; subst. destruct (add_at_ok l (N.to_nat i) k Hi) as (l1 & E). rewrite E. cbn [rbind].
  apply IH. destruct (add_at_nth _ _ _ _ E) as (Hl & _). rewrite Hl. exact Ht.
Qed.

Lemma add_all_nth l is k l' : add_all l is k = Ok l' ->
  length l' = length l /\ Forall (fun j => (N.to_nat j < length l)%nat) is /\
  forall x, nth x l' 0%Z = (nth x l 0%Z + zsum (map (ind_at x k) is))%Z.
Proof.
  revert l l'. induction is as [|i t IH]; intros l l' H; cbn [add_all] in H.
  - injection H as <-. split; [reflexivity|]. split; [constructor|]. intros x. cbn [map zsum fold_right]. lia.
  - destruct (add_at l (N.to_nat i) k) as [l1|] eqn:E; cbn [rbind] in H; [|discriminate].
    destruct (add_at_nth _ _ _ _ E) as (H1 & H2 & H3). destruct (IH l1 l' H) as (H4 & H5 & H6).
    split; [lia|]. split.
    + constructor; [exact H2|]. rewrite <- H1. exact H5.
    + intros x. rewrite H6, H3, zsum_map_cons. unfold ind_at at 2. lia.
Qed.

(* the tag's positions: exact, without repetition *)
Lemma find_index_sum rs c s e h i k : iset_find_index (iset_new rs) c s e = Ok h ->
  Forall (fun j => (N.to_nat j < length rs)%nat) h /\
  ((i < length rs)%nat -> zsum (map (ind_at i k) h) = contrib rs i (CInsert c s e k)).
Proof.
  intros Hh. destruct (iset_find_index_spec rs c s e) as (h' & E & HP). rewrite Hh in E. injection E as <-.
  split.
  - apply Forall_forall. intros j Hj. apply (Permutation_in _ HP) in Hj. apply in_map_iff in Hj.
    destruct Hj as (q & <- & Hq). apply filter_In in Hq. destruct Hq as (Hq & _). apply in_seq in Hq. lia.
  - intros Hi. rewrite (zsum_perm _ _ (Permutation_map (ind_at i k) HP)), map_map.
    cbn [contrib]. set (p := fun q => match nth_error rs q with Some r => reg_hit c s e r | None => false end).
    assert (Hnd : NoDup (filter p (seq 0 (length rs)))) by (apply NoDup_filter, seq_NoDup).
    destruct (nth_error rs i) as [r|] eqn:En; [|apply nth_error_None in En; lia].
    destruct (reg_hit c s e r) eqn:Er.
    + rewrite (zsum_one _ _ i Hnd).
      * unfold ind_at. rewrite Nat2N.id, Nat.eqb_refl. reflexivity.
      * apply filter_In. split; [apply in_seq; lia|]. unfold p. rewrite En. exact Er.
      * intros q _ Hne. unfold ind_at. rewrite Nat2N.id. destruct (Nat.eqb_spec q i); [contradiction|reflexivity].
    + apply zsum_zero. intros q Hq. apply filter_In in Hq. destruct Hq as (_ & Hq). unfold ind_at. rewrite Nat2N.id.
      destruct (Nat.eqb_spec q i) as [->|]; [|reflexivity]. unfold p in Hq. rewrite En in Hq. congruence.
Qed.

Theorem cov_counts : forall rs h, Forall (valid_op (length rs)) h ->
  exists c, fold_left (cov_step (iset_new rs)) h (Ok (cov_new (iset_new rs))) = Ok c /\
    length (c_counts c) = length rs /\
    (forall i, (i < length rs)%nat -> nth i (c_counts c) 0%Z = zsum (map (contrib rs i) (since_reset h))) /\
    c_total c = zsum (map mult (since_reset h)).
Proof.
  intros rs h. induction h as [|o h IH] using rev_ind; intros Hv.
  - eexists. split; [reflexivity|]. unfold cov_new, iset_len. cbn [c_counts c_total is_data iset_new].
    split; [apply repeat_length|]. split; [|reflexivity]. intros i _. apply nth_repeat.
  - apply Forall_app in Hv. destruct Hv as (Hv & Ho). inversion Ho as [|? ? Ho' _]; subst.
    destruct (IH Hv) as (c0 & E & Hl & Hn & Ht). rewrite fold_left_app, E. cbn [fold_left]. rewrite since_reset_snoc.
    unfold cov_step at 1. cbn [rbind]. destruct o as [ch qs qe k|j k|].
    + destruct (iset_find_index_spec rs ch qs qe) as (is & Eis & _). rewrite Eis. cbn [rbind].
      destruct (find_index_sum rs ch qs qe is 0%nat k Eis) as (Hb & _).
      destruct (add_all_ok (c_counts c0) is k) as (l' & El); [rewrite Hl; exact Hb|]. rewrite El. cbn [rbind].
      destruct (add_all_nth _ _ _ _ El) as (H1 & _ & H3).
      eexists. split; [reflexivity|]. cbn [c_counts c_total]. split; [lia|]. split.
      * intros i Hi. rewrite H3, zsum_map_snoc, (Hn i Hi).
        destruct (find_index_sum rs ch qs qe is i k Eis) as (_ & Hs). rewrite (Hs Hi). reflexivity.
      * rewrite zsum_map_snoc, Ht. reflexivity.
    + cbn [valid_op] in Ho'. destruct (add_at_ok (c_counts c0) j k) as (l' & El); [lia|]. rewrite El. cbn [rbind].
      destruct (add_at_nth _ _ _ _ El) as (H1 & _ & H3).
      eexists. split; [reflexivity|]. cbn [c_counts c_total]. split; [lia|]. split.
      * intros i Hi. rewrite H3, zsum_map_snoc, (Hn i Hi). reflexivity.
      * rewrite zsum_map_snoc, Ht. reflexivity.
    + eexists. split; [reflexivity|]. cbn [c_counts c_total]. split; [rewrite repeat_length; exact Hl|].
      split; [|reflexivity]. intros i _. rewrite nth_repeat. reflexivity.
Qed.

(* ---- sparse counters ---- *)
Definition sval (m : list (N * Z)) (i : N) : Z := match smap_get m i with Some v => v | None => 0%Z end.
Definition skeys (n : nat) (m : list (N * Z)) : Prop := Forall (fun kv => (N.to_nat (fst kv) < n)%nat) m.

Lemma smap_add_sval m i k x : sval (smap_add m i k) x = (sval m x + if N.eqb i x then k else 0)%Z.
Proof.
  unfold sval. induction m as [|[j v] t IH]; cbn [smap_add smap_get].
  - destruct (i =? x); lia.
  - destruct (N.eqb_spec j i) as [->|Hji]; cbn [smap_get].
    + destruct (N.eqb_spec i x); lia.
    + destruct (N.eqb_spec j x) as [->|Hjx].
      * destruct (N.eqb_spec i x); [congruence|lia].
      * exact IH.
Qed.

Lemma smap_add_keys n m i k : skeys n m -> (N.to_nat i < n)%nat -> skeys n (smap_add m i k).
Proof.
  unfold skeys. intros Hm Hi. induction Hm as [|[j v] t Hj Ht IH]; cbn [smap_add].
  - constructor; [exact Hi|constructor].
  - destruct (j =? i); constructor; cbn [fst] in *; assumption.
Qed.

Lemma smap_adds_sval is k : forall m x,
  sval (fold_left (fun m i => smap_add m i k) is m) x = (sval m x + zsum (map (fun j => if N.eqb j x then k else 0%Z) is))%Z.
Proof.
  induction is as [|i t IH]; intros m x; cbn [fold_left].
  - cbn [map zsum fold_right]. lia.
  - rewrite IH, smap_add_sval, zsum_map_cons. lia.
Qed.

Lemma smap_adds_keys n is k : forall m, skeys n m -> Forall (fun j => (N.to_nat j < n)%nat) is ->
  skeys n (fold_left (fun m i => smap_add m i k) is m).
Proof.
  induction is as [|i t IH]; intros m Hm His; cbn [fold_left]; [exact Hm|].
  inversion His; subst. apply IH; [apply smap_add_keys|]; assumption.
Qed.

Lemma ind_at_N x k is : map (fun j => if j =? N.of_nat x then k else 0%Z) is = map (ind_at x k) is.
Proof.
  apply map_ext. intros j. unfold ind_at. destruct (N.eqb_spec j (N.of_nat x)) as [->|Hne].
  - rewrite Nat2N.id, Nat.eqb_refl. reflexivity.
  - destruct (Nat.eqb_spec (N.to_nat j) x); [lia|reflexivity].
Qed.

Lemma smap_as_vec_ok m n : skeys n m ->
  smap_as_vec m n = Ok (map (fun i => sval m (N.of_nat i)) (seq 0 n)).
Proof.
  intros Hk. unfold smap_as_vec.
  replace (forallb (fun kv => (N.to_nat (fst kv) <? n)%nat) m) with true; [reflexivity|].
  symmetry. apply forallb_forall. intros kv Hin. apply Nat.ltb_lt. unfold skeys in Hk.
  rewrite Forall_forall in Hk. apply Hk. exact Hin.
Qed.

Lemma scov_counts : forall rs h, Forall (valid_op (length rs)) h ->
  exists sc, fold_left (scov_step (iset_new rs)) h (Ok (mkSCov 0 [])) = Ok sc /\
    skeys (length rs) (sc_map sc) /\
    (forall i, (i < length rs)%nat -> sval (sc_map sc) (N.of_nat i) = zsum (map (contrib rs i) (since_reset h))) /\
    sc_total sc = zsum (map mult (since_reset h)).
Proof.
  intros rs h. induction h as [|o h IH] using rev_ind; intros Hv.
  - eexists. split; [reflexivity|]. cbn [sc_map sc_total]. split; [constructor|]. split; [|reflexivity].
    intros i _. reflexivity.
  - apply Forall_app in Hv. destruct Hv as (Hv & Ho). inversion Ho as [|? ? Ho' _]; subst.
    destruct (IH Hv) as (c0 & E & Hk & Hn & Ht). rewrite fold_left_app, E. cbn [fold_left]. rewrite since_reset_snoc.
    unfold scov_step at 1. cbn [rbind]. destruct o as [ch qs qe k|j k|].
    + destruct (iset_find_index_spec rs ch qs qe) as (is & Eis & _). rewrite Eis. cbn [rbind].
      destruct (find_index_sum rs ch qs qe is 0%nat k Eis) as (Hb & _).
      eexists. split; [reflexivity|]. cbn [sc_map sc_total]. split; [apply smap_adds_keys; assumption|]. split.
      * intros i Hi. rewrite smap_adds_sval, zsum_map_snoc, (Hn i Hi), ind_at_N.
        destruct (find_index_sum rs ch qs qe is i k Eis) as (_ & Hs). rewrite (Hs Hi). reflexivity.
      * rewrite zsum_map_snoc, Ht. reflexivity.
    + cbn [valid_op] in Ho'.
      eexists. split; [reflexivity|]. cbn [sc_map sc_total]. split; [apply smap_add_keys; [exact Hk|lia]|]. split.
      * intros i Hi. rewrite smap_add_sval, zsum_map_snoc, (Hn i Hi). cbn [contrib].
        destruct (N.eqb_spec (N.of_nat j) (N.of_nat i)); destruct (Nat.eqb_spec j i); try lia; reflexivity.
      * rewrite zsum_map_snoc, Ht. reflexivity.
    + eexists. split; [reflexivity|]. cbn [sc_map sc_total]. split; [constructor|]. split; [|reflexivity].
      intros i _. reflexivity.
Qed.

Theorem sparse_dense : forall rs h, Forall (valid_op (length rs)) h ->
  exists c sc v, fold_left (cov_step (iset_new rs)) h (Ok (cov_new (iset_new rs))) = Ok c /\
    fold_left (scov_step (iset_new rs)) h (Ok (mkSCov 0 [])) = Ok sc /\
    smap_as_vec (sc_map sc) (length rs) = Ok v /\ v = c_counts c /\ sc_total sc = c_total c.
Proof.
  intros rs h Hv. destruct (cov_counts rs h Hv) as (c & E1 & Hl & Hn & Ht).
  destruct (scov_counts rs h Hv) as (sc & E2 & Hk & Hs & Hst).
  exists c, sc. eexists. split; [exact E1|]. split; [exact E2|]. split; [apply smap_as_vec_ok; exact Hk|].
  split; [|congruence].
  apply (nth_ext _ _ 0%Z 0%Z).
  - rewrite map_length, seq_length. lia.
  - intros x Hx. rewrite map_length, seq_length in Hx.
    rewrite (nth_indep _ 0%Z (sval (sc_map sc) (N.of_nat 0))) by (rewrite map_length, seq_length; exact Hx).
    rewrite (map_nth (fun i => sval (sc_map sc) (N.of_nat i)) (seq 0 (length rs)) 0%nat x), seq_nth by exact Hx.
    cbn [Nat.add]. rewrite (Hs x Hx), (Hn x Hx). reflexivity.
Qed.

(* ======================= C06: BinnedCoverage / SparseBinnedCoverage ======================= *)
Definition bin_of (r : region) (b k : N) : region := (fst (fst r), snd (fst r) + k * b, N.min (snd (fst r) + k * b + b) (snd r)).
Definition bins (r : region) (b : N) : list region := map (bin_of r b) (nrange (nbins r b)).
Definition ne_region (r : region) : Prop := snd (fst r) < snd r.
Definition bcontrib (rs : list region) (b : N) (i : nat) (k : N) (o : bop) : Z :=
  match o with
  | BInsert c s e m => match nth_error rs i with Some r => if reg_hit c s e (bin_of r b k) then m else 0%Z | None => 0%Z end
  | BReset => 0%Z
  end.
Definition bsince_reset (h : list bop) : list bop := fold_left (fun acc o => match o with BReset => [] | _ => acc ++ [o] end) h [].
Definition ne_tag (o : bop) : Prop := match o with BInsert _ s e _ => s < e | BReset => True end.

(* ---- division facts ---- *)
Lemma div_le_iff a b k : 0 < b -> (a / b <= k <-> a < (k + 1) * b).
Proof.
  intros Hb. pose proof (N.div_mod a b ltac:(lia)) as Hd. pose proof (N.mod_lt a b ltac:(lia)) as Hm.
  set (q := a / b) in *. set (r := a mod b) in *. split; intros H.
  - pose proof (N.mul_le_mono_r q k b H). lia.
  - destruct (N.le_gt_cases q k) as [L|L]; [exact L|]. pose proof (N.mul_le_mono_r (k + 1) q b ltac:(lia)). lia.
Qed.
Lemma le_div_iff a b k : 0 < b -> (k <= a / b <-> k * b <= a).
Proof.
  intros Hb. pose proof (N.div_mod a b ltac:(lia)) as Hd. pose proof (N.mod_lt a b ltac:(lia)) as Hm.
  set (q := a / b) in *. set (r := a mod b) in *. split; intros H.
  - pose proof (N.mul_le_mono_r k q b H). lia.
  - destruct (N.le_gt_cases k q) as [L|L]; [exact L|]. pose proof (N.mul_le_mono_r (q + 1) k b ltac:(lia)). lia.
Qed.
Lemma lt_div_ceil_iff a b k : 1 <= b -> (k < div_ceil a b <-> k * b < a).
Proof.
  intros Hb. unfold div_ceil. pose proof (N.div_mod a b ltac:(lia)) as Hd. pose proof (N.mod_lt a b ltac:(lia)) as Hm.
  set (q := a / b) in *. set (r := a mod b) in *.
  destruct (N.eqb_spec r 0) as [E|E]; split; intros H.
  - pose proof (N.mul_le_mono_r (k + 1) q b ltac:(lia)). lia.
  - destruct (N.lt_ge_cases k q) as [L|L]; [exact L|]. pose proof (N.mul_le_mono_r q k b L). lia.
  - pose proof (N.mul_le_mono_r k q b ltac:(lia)). lia.
  - destruct (N.lt_ge_cases k (q + 1)) as [L|L]; [exact L|]. pose proof (N.mul_le_mono_r (q + 1) k b L). lia.
Qed.

Theorem bin_range_iff : forall r ts te b c, 1 <= b -> ne_region r -> ts < te -> reg_hit c ts te r = true ->
  exists i j, bin_range r ts te b = Ok (i, j) /\ i <= j /\ j < nbins r b /\
    forall k, k < nbins r b -> ((i <= k /\ k <= j) <-> reg_hit c ts te (bin_of r b k) = true).
Proof.
  intros [[ch rs] re] ts te b c Hb Hne Ht Hh. unfold ne_region, reg_hit in Hh, Hne. cbn [fst snd] in Hh, Hne.
  apply andb_prop in Hh. destruct Hh as (Hh & H3). apply andb_prop in Hh. destruct Hh as (H1 & H2).
  apply N.ltb_lt in H2, H3.
  unfold bin_range, rlen, sub_chk, nbins, rlen. cbn [fst snd].
  destruct (N.eqb_spec b 0); [lia|]. destruct (N.ltb_spec te 1); [lia|]. cbn [rbind].
  destruct (N.ltb_spec (te - 1) rs); [lia|]. cbn [rbind].
  destruct (N.ltb_spec (re - rs) 1); [lia|]. cbn [rbind].
  eexists. eexists. split; [reflexivity|].
  assert (Hj : N.min (te - 1 - rs) (re - rs - 1) / b < div_ceil (re - rs) b).
  { apply lt_div_ceil_iff; [exact Hb|].
    assert (N.min (te - 1 - rs) (re - rs - 1) / b * b <= N.min (te - 1 - rs) (re - rs - 1)) by (apply le_div_iff; lia).
    lia. }
  split; [|split; [exact Hj|]].
  - apply le_div_iff; [lia|].
    assert ((ts - rs) / b * b <= ts - rs) by (apply le_div_iff; lia). lia.
  - intros k Hk. apply lt_div_ceil_iff in Hk; [|exact Hb]. unfold reg_hit, bin_of. cbn [fst snd]. rewrite H1. cbn [andb].
    rewrite andb_true_iff, !N.ltb_lt, div_le_iff, le_div_iff by lia. lia.
Qed.

(* ---- regions() yields the bins; the bins tile the region ---- *)
Lemma split_bins r b : 1 <= b ->
  split_by_len (snd (fst r)) (snd r) b =
  Ok (map (fun k => (snd (fst r) + k * b, N.min (snd (fst r) + k * b + b) (snd r))) (nrange (nbins r b))).
Proof. intros Hb. unfold split_by_len. destruct (N.eqb_spec b 0); [lia|]. reflexivity. Qed.

Theorem regions_are_bins : forall rs b, 1 <= b -> bcov_regions (iset_new rs) b = Ok (map (fun r => bins r b) rs).
Proof.
  intros rs b Hb. unfold bcov_regions. change (is_data (iset_new rs)) with rs.
  apply mapM_ok. intros r _. rewrite split_bins by exact Hb. cbn [rbind]. rewrite map_map. reflexivity.
Qed.

Theorem bins_tile : forall r b, 1 <= b ->
  Tiling (snd r) b (snd (fst r)) (map (fun g => (snd (fst g), snd g)) (bins r b)) /\
  (forall g, In g (bins r b) -> fst (fst g) = fst (fst r)).
Proof.
  intros r b Hb. split.
  - destruct (split_tiles (snd (fst r)) (snd r) b Hb) as (ps & E & HT). rewrite split_bins in E by exact Hb.
    injection E as <-. unfold bins. rewrite map_map. exact HT.
  - intros g Hg. unfold bins in Hg. apply in_map_iff in Hg. destruct Hg as (k & <- & _). reflexivity.
Qed.

(* ---- rows of counters ---- *)
Lemma add_row_ok rows o is k : (o < length rows)%nat ->
  Forall (fun j => (N.to_nat j < length (nth o rows []))%nat) is -> exists rows', add_row rows o is k = Ok rows'.
Proof.
  revert o. induction rows as [|r t IH]; intros o Ho His; cbn [length] in Ho; [lia|].
  destruct o as [|o']; cbn [add_row nth] in *.
  - destruct (add_all_ok r is k His) as (r' & E). rewrite E. cbn [rbind]. eexists; reflexivity.
  - destruct (IH o') as (t' & E); [lia|exact His|]. rewrite E. cbn [rbind]. eexists; reflexivity.
Qed.

Lemma add_row_nth rows o is k rows' : add_row rows o is k = Ok rows' ->
  map (@length Z) rows' = map (@length Z) rows /\ (o < length rows)%nat /\
  forall i x, nth x (nth i rows' []) 0%Z =
              (nth x (nth i rows []) 0%Z + if Nat.eqb o i then zsum (map (ind_at x k) is) else 0)%Z.
Proof.
  revert o rows'. induction rows as [|r t IH]; intros o rows' H; cbn [add_row] in H; [discriminate|].
  destruct o as [|o'].
  - destruct (add_all r is k) as [r'|] eqn:E; cbn [rbind] in H; [|discriminate]. injection H as <-.
    destruct (add_all_nth _ _ _ _ E) as (H1 & _ & H3). cbn [map length]. split; [rewrite H1; reflexivity|]. split; [lia|].
    intros [|i] x; cbn [nth Nat.eqb]; [apply H3|lia].
  - destruct (add_row t o' is k) as [t'|] eqn:E; cbn [rbind] in H; [|discriminate]. injection H as <-.
    destruct (IH o' t' E) as (H1 & H2 & H3). cbn [map length]. split; [rewrite H1; reflexivity|]. split; [lia|].
    intros [|i] x; cbn [nth Nat.eqb]; [lia|apply H3].
Qed.

(* the flattened counters: adding inside a row = adding at the shifted flat positions *)
Lemma add_at_app_l l1 l2 i k l1' : add_at l1 i k = Ok l1' -> add_at (l1 ++ l2) i k = Ok (l1' ++ l2).
Proof.
  revert i l1'. induction l1 as [|a t IH]; intros i l1' H; cbn [add_at] in H; [discriminate|].
  destruct i as [|j]; cbn [app add_at].
  - injection H as <-. reflexivity.
  - destruct (add_at t j k) as [t'|] eqn:E; cbn [rbind] in H; [|discriminate]. injection H as <-.
    rewrite (IH j t' E). reflexivity.
Qed.
Lemma add_at_app_r l1 l2 i k l2' : add_at l2 i k = Ok l2' -> add_at (l1 ++ l2) (length l1 + i) k = Ok (l1 ++ l2').
Proof.
  intros H. induction l1 as [|a t IH]; cbn [app length Nat.add add_at]; [exact H|]. rewrite IH. reflexivity.
Qed.
Lemma add_all_app_l l2 is k : forall l1 l1', add_all l1 is k = Ok l1' -> add_all (l1 ++ l2) is k = Ok (l1' ++ l2).
Proof.
  induction is as [|i t IH]; intros l1 l1' H; cbn [add_all] in *.
  - injection H as <-. reflexivity.
  - destruct (add_at l1 (N.to_nat i) k) as [l1a|] eqn:E; cbn [rbind] in H; [|discriminate].
    rewrite (add_at_app_l _ l2 _ _ _ E). cbn [rbind]. apply IH. exact H.
Qed.
Lemma add_all_app_r l1 is k : forall l2 l2', add_all l2 is k = Ok l2' ->
  add_all (l1 ++ l2) (map (fun j => N.of_nat (length l1) + j) is) k = Ok (l1 ++ l2').
Proof.
  induction is as [|i t IH]; intros l2 l2' H; cbn [add_all map] in *.
  - injection H as <-. reflexivity.
  - destruct (add_at l2 (N.to_nat i) k) as [l2a|] eqn:E; cbn [rbind] in H; [|discriminate].
    replace (N.to_nat (N.of_nat (length l1) + i)) with (length l1 + N.to_nat i)%nat by lia.
    rewrite (add_at_app_r l1 _ _ _ _ E). cbn [rbind]. apply IH. exact H.
Qed.

Definition roff (rows : list (list Z)) (o : nat) : N := N.of_nat (length (concat (firstn o rows))).

Lemma add_row_concat rows o is k rows' : add_row rows o is k = Ok rows' ->
  add_all (concat rows) (map (fun j => roff rows o + j) is) k = Ok (concat rows').
Proof.
  revert o rows'. induction rows as [|r t IH]; intros o rows' H; cbn [add_row] in H; [discriminate|].
  destruct o as [|o'].
  - destruct (add_all r is k) as [r'|] eqn:E; cbn [rbind] in H; [|discriminate]. injection H as <-.
    unfold roff. cbn [firstn concat length]. rewrite (map_ext _ (fun j => j)) by (intros j; lia). rewrite map_id.
    apply add_all_app_l. exact E.
  - destruct (add_row t o' is k) as [t'|] eqn:E; cbn [rbind] in H; [|discriminate]. injection H as <-.
    cbn [concat]. specialize (IH o' t' E). apply (add_all_app_r r) in IH. rewrite map_map in IH.
    rewrite (map_ext _ (fun j => N.of_nat (length r) + (roff t o' + j))); [exact IH|].
    intros j. unfold roff. cbn [firstn concat]. rewrite app_length. lia.
Qed.

(* ---- shapes: row i has nbins (region i) counters ---- *)
Definition ns_of (rs : list region) (b : N) : list nat := map (fun r => N.to_nat (nbins r b)) rs.

Lemma list_sum_cons x t : list_sum (x :: t) = (x + list_sum t)%nat.
Proof. reflexivity. Qed.

Lemma length_concat {A} (ls : list (list A)) : length (concat ls) = list_sum (map (@length A) ls).
Proof.
  induction ls as [|l t IH]; [reflexivity|]. cbn [concat map]. rewrite app_length, list_sum_cons, IH. reflexivity.
Qed.

Lemma roff_shape rows ns o : map (@length Z) rows = ns -> roff rows o = N.of_nat (list_sum (firstn o ns)).
Proof. intros <-. unfold roff. rewrite length_concat, firstn_map. reflexivity. Qed.

Lemma shape_row rs b rows i r : map (@length Z) rows = ns_of rs b -> nth_error rs i = Some r ->
  length (nth i rows []) = N.to_nat (nbins r b) /\ (i < length rows)%nat.
Proof.
  intros Hs Hr. split.
  - transitivity (nth i (map (@length Z) rows) 0%nat); [symmetry; exact (map_nth (@length Z) rows [] i)|].
    rewrite Hs. apply nth_error_nth. unfold ns_of. exact (map_nth_error (fun r => N.to_nat (nbins r b)) i rs Hr).
  - assert (Hl : length rows = length rs).
    { rewrite <- (map_length (@length Z) rows), Hs. unfold ns_of. apply map_length. }
    rewrite Hl. apply nth_error_Some. congruence.
Qed.

Lemma accu_sizes_spec b : forall rs len0 a l, accu_sizes rs b len0 = (a, l) ->
  l = len0 + N.of_nat (list_sum (ns_of rs b)) /\ length a = length rs /\
  forall o, (o < length rs)%nat -> nth_error a o = Some (len0 + N.of_nat (list_sum (firstn o (ns_of rs b)))).
Proof.
  induction rs as [|r t IH]; intros len0 a l H; cbn [accu_sizes] in H.
  - injection H as <- <-. split; [cbn; lia|]. split; [reflexivity|]. intros o Ho. cbn [length] in Ho. lia.
  - destruct (accu_sizes t b (len0 + nbins r b)) as [a' l'] eqn:E. injection H as <- <-.
    destruct (IH _ _ _ E) as (H1 & H2 & H3). unfold ns_of. cbn [map length]. fold (ns_of t b). rewrite list_sum_cons.
    split; [lia|]. split; [lia|]. intros [|o] Ho; cbn [nth_error firstn].
    + f_equal. cbn [list_sum fold_right]. lia.
    + rewrite H3 by lia. rewrite list_sum_cons. f_equal. lia.
Qed.

(* ---- i..=j ---- *)
Lemma irange_in i j y : i <= j -> (In y (irange i j) <-> i <= y /\ y <= j).
Proof.
  intros Hij. unfold irange, nrange. rewrite map_map, in_map_iff. split.
  - intros (q & <- & Hq). apply in_seq in Hq. lia.
  - intros Hy. exists (N.to_nat (y - i)). split; [lia|]. apply in_seq. lia.
Qed.
Lemma irange_nodup i j : NoDup (irange i j).
Proof. unfold irange, nrange. rewrite map_map. apply NoDup_map_inj; [intros x y H; lia|apply seq_NoDup]. Qed.
Lemma irange_sum i j x k : i <= j ->
  zsum (map (ind_at x k) (irange i j)) = if (i <=? N.of_nat x) && (N.of_nat x <=? j) then k else 0%Z.
Proof.
  intros Hij.
  assert (Hz : ~ (i <= N.of_nat x /\ N.of_nat x <= j) -> zsum (map (ind_at x k) (irange i j)) = 0%Z).
  { intros Hn. apply zsum_zero. intros y Hy. apply irange_in in Hy; [|exact Hij]. unfold ind_at.
    destruct (Nat.eqb_spec (N.to_nat y) x); [lia|reflexivity]. }
  destruct (N.leb_spec i (N.of_nat x)) as [L1|L1]; [destruct (N.leb_spec (N.of_nat x) j) as [L2|L2]|]; cbn [andb].
  - rewrite (zsum_one _ _ (N.of_nat x) (irange_nodup i j)).
    + unfold ind_at. rewrite Nat2N.id, Nat.eqb_refl. reflexivity.
    + apply irange_in; [exact Hij|lia].
    + intros y _ Hne. unfold ind_at. destruct (Nat.eqb_spec (N.to_nat y) x); [lia|reflexivity].
  - apply Hz. lia.
  - apply Hz. lia.
Qed.

Lemma bin_hit_region c ts te r b k : reg_hit c ts te (bin_of r b k) = true -> reg_hit c ts te r = true.
Proof.
  destruct r as [[ch s] e]. unfold reg_hit, bin_of. cbn [fst snd]. rewrite !andb_true_iff, !N.ltb_lt.
  intros ((H1 & H2) & H3). repeat split; [exact H1|lia|lia].
Qed.

(* ---- one insert: the fold over the hit regions, dense and sparse side by side ---- *)
Definition dstep (ts te b : N) (k : Z) (acc : res (list (list Z))) (h : region * N) : res (list (list Z)) :=
  do rows <- acc; do ij <- bin_range (fst h) ts te b; add_row rows (N.to_nat (snd h)) (irange (fst ij) (snd ij)) k.
Definition sstep (accu : list N) (ts te b : N) (k : Z) (acc : res (list (N * Z))) (h : region * N) : res (list (N * Z)) :=
  do m <- acc; do ij <- bin_range (fst h) ts te b; do n <- idx accu (N.to_nat (snd h));
  Ok (fold_left (fun m k' => smap_add m (n + k') k) (irange (fst ij) (snd ij)) m).

Lemma bcov_step_insert s b c ch ts te k : bcov_step s b (Ok c) (BInsert ch ts te k) =
  do hits <- iset_find_full s ch ts te; do rows <- fold_left (dstep ts te b k) hits (Ok (bc_counts c));
  Ok (mkBC (bc_total c + k) rows).
Proof. reflexivity. Qed.
Lemma sbcov_step_insert s b c ch ts te k : sbcov_step s b (Ok c) (BInsert ch ts te k) =
  do hits <- iset_find_full s ch ts te; do m <- fold_left (sstep (sb_accu c) ts te b k) hits (Ok (sb_map c));
  Ok (mkSB (sb_len c) (sb_total c + k) (sb_accu c) m).
Proof. reflexivity. Qed.

Lemma fold_smap_shift n k is : forall m,
  fold_left (fun m k' => smap_add m (n + k') k) is m = fold_left (fun m i => smap_add m i k) (map (fun j => n + j) is) m.
Proof. induction is as [|i t IH]; intros m; cbn [fold_left map]; [reflexivity|apply IH]. Qed.

Lemma inner_fold rs b c ts te k accu : 1 <= b -> ts < te -> Forall ne_region rs ->
  (forall o, (o < length rs)%nat -> nth_error accu o = Some (N.of_nat (list_sum (firstn o (ns_of rs b))))) ->
  forall hits rows m,
  (forall h, In h hits -> nth_error rs (N.to_nat (snd h)) = Some (fst h) /\ reg_hit c ts te (fst h) = true) ->
  map (@length Z) rows = ns_of rs b ->
  skeys (length (concat rows)) m ->
  (forall x, sval m x = nth (N.to_nat x) (concat rows) 0%Z) ->
  exists rows' m', fold_left (dstep ts te b k) hits (Ok rows) = Ok rows' /\
    fold_left (sstep accu ts te b k) hits (Ok m) = Ok m' /\
    map (@length Z) rows' = ns_of rs b /\
    skeys (length (concat rows')) m' /\
    (forall x, sval m' x = nth (N.to_nat x) (concat rows') 0%Z) /\
    (forall i r x, nth_error rs i = Some r -> N.of_nat x < nbins r b ->
       nth x (nth i rows' []) 0%Z = (nth x (nth i rows []) 0%Z +
         zsum (map (fun h : region * N => if Nat.eqb (N.to_nat (snd h)) i
                                then (if reg_hit c ts te (bin_of (fst h) b (N.of_nat x)) then k else 0%Z) else 0%Z) hits))%Z).
Proof.
  intros Hb Ht Hrs Hacc. induction hits as [|[rh p] t IH]; intros rows m Hh Hs Hk Hv.
  - exists rows, m. cbn [fold_left]. repeat split; auto. intros i r x _ _. cbn [map zsum fold_right]. lia.
  - cbn [fold_left]. destruct (Hh (rh, p) (or_introl eq_refl)) as (Hn & Hr). cbn [fst snd] in Hn, Hr.
    assert (Hne : ne_region rh) by (rewrite Forall_forall in Hrs; apply Hrs; eapply nth_error_In; exact Hn).
    destruct (bin_range_iff rh ts te b c Hb Hne Ht Hr) as (i0 & j0 & Ebr & Hij & Hj & Hiff).
    destruct (shape_row rs b rows _ _ Hs Hn) as (Hlen & Ho).
    assert (Hp : (N.to_nat p < length rs)%nat) by (apply nth_error_Some; congruence).
    destruct (add_row_ok rows (N.to_nat p) (irange i0 j0) k Ho) as (rows1 & Ear).
    { apply Forall_forall. intros y Hy. apply irange_in in Hy; [|exact Hij]. rewrite Hlen. lia. }
    assert (Ed : dstep ts te b k (Ok rows) (rh, p) = Ok rows1).
    { unfold dstep. cbn [rbind fst snd]. rewrite Ebr. cbn [rbind fst snd]. exact Ear. }
    rewrite Ed.
    set (off := N.of_nat (list_sum (firstn (N.to_nat p) (ns_of rs b)))).
    set (m1 := fold_left (fun m k' => smap_add m (off + k') k) (irange i0 j0) m).
    assert (Es : sstep accu ts te b k (Ok m) (rh, p) = Ok m1).
    { unfold sstep. cbn [rbind fst snd]. rewrite Ebr. cbn [rbind fst snd]. unfold idx. rewrite (Hacc _ Hp).
      cbn [of_opt rbind]. reflexivity. }
    rewrite Es.
    destruct (add_row_nth _ _ _ _ _ Ear) as (Hs1 & _ & Hp1).
    pose proof (add_row_concat _ _ _ _ _ Ear) as Hc. rewrite (roff_shape rows _ _ Hs) in Hc. fold off in Hc.
    destruct (add_all_nth _ _ _ _ Hc) as (Hl1 & Hb1 & Hx1).
    destruct (IH rows1 m1) as (rows' & m' & E1 & E2 & Hs' & Hk' & Hv' & Hp').
    + intros h Hin. apply Hh. right. exact Hin.
    + rewrite Hs1. exact Hs.
    + rewrite Hl1. unfold m1. rewrite fold_smap_shift. apply smap_adds_keys; [exact Hk|exact Hb1].
    + intros x. unfold m1. rewrite fold_smap_shift, smap_adds_sval, Hv, Hx1. f_equal.
      rewrite <- ind_at_N, N2Nat.id. reflexivity.
    + exists rows', m'. split; [exact E1|]. split; [exact E2|]. split; [exact Hs'|]. split; [exact Hk'|].
      split; [exact Hv'|]. intros i r x Hi Hx. rewrite (Hp' i r x Hi Hx), Hp1, zsum_map_cons. cbn [fst snd].
      destruct (Nat.eqb_spec (N.to_nat p) i) as [Epi|Epi]; [|lia].
      subst i. rewrite Hn in Hi. injection Hi as <-. rewrite irange_sum by exact Hij.
      specialize (Hiff (N.of_nat x) Hx). destruct Hiff as [Hf Hg].
      destruct (reg_hit c ts te (bin_of rh b (N.of_nat x)));
        destruct (N.leb_spec i0 (N.of_nat x)); destruct (N.leb_spec (N.of_nat x) j0); cbn [andb]; try lia;
        first [ destruct (Hg eq_refl); lia | assert (false = true) by (apply Hf; lia); discriminate ].
Qed.

Lemma hits_sum rs b c ts te k hits i r x :
  (forall r' p, In (r', p) hits <-> nth_error rs (N.to_nat p) = Some r' /\ reg_hit c ts te r' = true) ->
  NoDup (map snd hits) -> nth_error rs i = Some r ->
  zsum (map (fun h : region * N => if Nat.eqb (N.to_nat (snd h)) i
                         then (if reg_hit c ts te (bin_of (fst h) b x) then k else 0%Z) else 0%Z) hits)
  = if reg_hit c ts te (bin_of r b x) then k else 0%Z.
Proof.
  intros Hspec Hnd Hi. apply NoDup_map_inv in Hnd.
  destruct (reg_hit c ts te r) eqn:Er.
  - rewrite (zsum_one _ _ (r, N.of_nat i) Hnd).
    + cbn [fst snd]. rewrite Nat2N.id, Nat.eqb_refl. reflexivity.
    + apply Hspec. rewrite Nat2N.id. auto.
    + intros [r' p'] Hin Hne. cbn [fst snd]. destruct (Nat.eqb_spec (N.to_nat p') i) as [E|E]; [|reflexivity].
      exfalso. apply Hne. apply Hspec in Hin. destruct Hin as (Hin & _). rewrite E, Hi in Hin. injection Hin as <-.
      f_equal. lia.
  - replace (reg_hit c ts te (bin_of r b x)) with false.
    + apply zsum_zero. intros [r' p'] Hin. cbn [fst snd]. destruct (Nat.eqb_spec (N.to_nat p') i) as [E|E]; [|reflexivity].
      apply Hspec in Hin. destruct Hin as (Hin & Hr'). rewrite E, Hi in Hin. injection Hin as <-. congruence.
    + destruct (reg_hit c ts te (bin_of r b x)) eqn:Eb; [|reflexivity]. apply bin_hit_region in Eb. congruence.
Qed.

(* ---- all-zero rows ---- *)
Definition AllZero (rows : list (list Z)) : Prop := forall row y, In row rows -> In y row -> y = 0%Z.
Lemma allzero_nth rows i x : AllZero rows -> nth x (nth i rows []) 0%Z = 0%Z.
Proof.
  intros H. destruct (nth_in_or_default i rows []) as [Hi|Hi].
  - destruct (nth_in_or_default x (nth i rows []) 0%Z) as [Hx|Hx]; [exact (H _ _ Hi Hx)|exact Hx].
  - rewrite Hi. destruct x; reflexivity.
Qed.
Lemma allzero_concat rows x : AllZero rows -> nth x (concat rows) 0%Z = 0%Z.
Proof.
  intros H. destruct (nth_in_or_default x (concat rows) 0%Z) as [Hx|Hx]; [|exact Hx].
  apply in_concat in Hx. destruct Hx as (row & Hr & Hy). exact (H _ _ Hr Hy).
Qed.
Lemma allzero_repeat {A} (f : A -> nat) l : AllZero (map (fun r => repeat 0%Z (f r)) l).
Proof.
  intros row y Hr Hy. apply in_map_iff in Hr. destruct Hr as (r & <- & _). apply repeat_spec in Hy. exact Hy.
Qed.

Lemma bsince_reset_snoc h o :
  bsince_reset (h ++ [o]) = match o with BReset => [] | _ => bsince_reset h ++ [o] end.
Proof. unfold bsince_reset. rewrite fold_left_app. reflexivity. Qed.

Definition btot (o : bop) : Z := match o with BInsert _ _ _ m => m | BReset => 0%Z end.
Definition bc0 (rs : list region) (b : N) : bcov := mkBC 0 (map (fun r => repeat 0%Z (N.to_nat (nbins r b))) rs).
Definition sb0 (rs : list region) (b : N) : sbcov := mkSB (snd (accu_sizes rs b 0)) 0 (fst (accu_sizes rs b 0)) [].

Lemma news_ok rs b : 1 <= b -> bcov_new (iset_new rs) b = Ok (bc0 rs b) /\ sbcov_new (iset_new rs) b = Ok (sb0 rs b).
Proof.
  intros Hb. unfold bcov_new, sbcov_new, bc0, sb0. destruct (N.eqb_spec b 0); [lia|].
  change (is_data (iset_new rs)) with rs. destruct (accu_sizes rs b 0). split; reflexivity.
Qed.

Lemma binned_run rs b : 1 <= b -> Forall ne_region rs -> forall h, Forall ne_tag h ->
  exists c s, fold_left (bcov_step (iset_new rs) b) h (Ok (bc0 rs b)) = Ok c /\
    fold_left (sbcov_step (iset_new rs) b) h (Ok (sb0 rs b)) = Ok s /\
    map (@length Z) (bc_counts c) = ns_of rs b /\
    (forall i r x, nth_error rs i = Some r -> N.of_nat x < nbins r b ->
       nth x (nth i (bc_counts c) []) 0%Z = zsum (map (bcontrib rs b i (N.of_nat x)) (bsince_reset h))) /\
    bc_total c = zsum (map btot (bsince_reset h)) /\
    sb_len s = snd (accu_sizes rs b 0) /\ sb_accu s = fst (accu_sizes rs b 0) /\ sb_total s = bc_total c /\
    skeys (length (concat (bc_counts c))) (sb_map s) /\
    (forall x, sval (sb_map s) x = nth (N.to_nat x) (concat (bc_counts c)) 0%Z).
Proof.
  intros Hb Hrs h. induction h as [|o h IH] using rev_ind; intros Hh.
  - exists (bc0 rs b), (sb0 rs b). split; [reflexivity|]. split; [reflexivity|]. unfold bc0, sb0.
    cbn [bc_counts bc_total sb_len sb_accu sb_total sb_map].
    split; [|split; [|split; [reflexivity|split; [reflexivity|split; [reflexivity|split; [reflexivity|split; [constructor|]]]]]]].
    + rewrite map_map. unfold ns_of. apply map_ext. intros r. apply repeat_length.
    + intros i r x _ _. apply allzero_nth. apply allzero_repeat.
    + intros x. rewrite allzero_concat by apply allzero_repeat. reflexivity.
  - apply Forall_app in Hh. destruct Hh as (Hh & Ho). inversion Ho as [|? ? Ho' _]; subst.
    destruct (IH Hh) as (c & s & E1 & E2 & Hs & Hp & Ht & Hl & Ha & Hst & Hk & Hv).
    rewrite !fold_left_app, E1, E2. cbn [fold_left]. rewrite bsince_reset_snoc. destruct o as [ch ts te k|].
    + cbn [ne_tag] in Ho'. rewrite bcov_step_insert, sbcov_step_insert.
      destruct (iset_find_full_spec rs ch ts te) as (hits & Eh & Hspec).
      pose proof (iset_find_full_nodup _ _ _ _ _ Eh) as Hnd. rewrite Eh. cbn [rbind].
      destruct (accu_sizes rs b 0) as [a l] eqn:Ea. cbn [fst snd] in Ha, Hl.
      destruct (accu_sizes_spec b rs 0 a l Ea) as (_ & _ & Hacc).
      destruct (inner_fold rs b ch ts te k (sb_accu s) Hb Ho' Hrs) with (hits := hits) (rows := bc_counts c) (m := sb_map s)
        as (rows' & m' & Ed & Es & Hs' & Hk' & Hv' & Hp').
      * intros o Ho2. rewrite Ha, (Hacc o Ho2), N.add_0_l. reflexivity.
      * intros [r' p'] Hin. cbn [fst snd]. apply Hspec. exact Hin.
      * exact Hs.
      * exact Hk.
      * exact Hv.
      * rewrite Ed, Es. cbn [rbind]. eexists. eexists. split; [reflexivity|]. split; [reflexivity|].
        cbn [bc_counts bc_total sb_len sb_accu sb_total sb_map].
        split; [exact Hs'|]. split; [|split; [|split; [exact Hl|split; [exact Ha|split; [congruence|split; [exact Hk'|exact Hv']]]]]].
        -- intros i r x Hi Hx. rewrite (Hp' i r x Hi Hx), (Hp i r x Hi Hx), zsum_map_snoc. f_equal.
           rewrite (hits_sum rs b ch ts te k hits i r (N.of_nat x) Hspec Hnd Hi). cbn [bcontrib]. rewrite Hi. reflexivity.
        -- rewrite zsum_map_snoc, Ht. reflexivity.
    + unfold bcov_step at 1, sbcov_step at 1. cbn [rbind]. eexists. eexists. split; [reflexivity|]. split; [reflexivity|].
      cbn [bc_counts bc_total sb_len sb_accu sb_total sb_map].
      split; [|split; [|split; [reflexivity|split; [exact Hl|split; [exact Ha|split; [reflexivity|split; [constructor|]]]]]]].
      * rewrite map_map, <- Hs. apply map_ext. intros r. apply repeat_length.
      * intros i r x _ _. rewrite allzero_nth by apply allzero_repeat. reflexivity.
      * intros x. rewrite allzero_concat by apply allzero_repeat. reflexivity.
Qed.

Theorem binned_counts : forall rs b h, 1 <= b -> Forall ne_region rs -> Forall ne_tag h ->
  exists c0 c, bcov_new (iset_new rs) b = Ok c0 /\ fold_left (bcov_step (iset_new rs) b) h (Ok c0) = Ok c /\
    length (bc_counts c) = length rs /\
    (forall i r, nth_error rs i = Some r -> exists row, nth_error (bc_counts c) i = Some row /\ N.of_nat (length row) = nbins r b /\
        forall k, k < nbins r b -> nth (N.to_nat k) row 0%Z = zsum (map (bcontrib rs b i k) (bsince_reset h))) /\
    bc_total c = zsum (map (fun o => match o with BInsert _ _ _ m => m | BReset => 0%Z end) (bsince_reset h)).
Proof.
  intros rs b h Hb Hrs Hh. destruct (news_ok rs b Hb) as (En & _).
  destruct (binned_run rs b Hb Hrs h Hh) as (c & s & E1 & _ & Hs & Hp & Ht & _).
  exists (bc0 rs b), c. split; [exact En|]. split; [exact E1|]. split; [|split; [|exact Ht]].
  - rewrite <- (map_length (@length Z) (bc_counts c)), Hs. unfold ns_of. apply map_length.
  - intros i r Hi. destruct (shape_row rs b _ _ _ Hs Hi) as (Hlen & Hlt).
    exists (nth i (bc_counts c) []). split; [apply nth_error_nth'; exact Hlt|]. split; [lia|].
    intros k Hk. rewrite (Hp i r (N.to_nat k) Hi) by lia. rewrite N2Nat.id. reflexivity.
Qed.

Theorem sparse_binned_agrees : forall rs b h, 1 <= b -> Forall ne_region rs -> Forall ne_tag h ->
  exists c0 c s0 s v, bcov_new (iset_new rs) b = Ok c0 /\ fold_left (bcov_step (iset_new rs) b) h (Ok c0) = Ok c /\
    sbcov_new (iset_new rs) b = Ok s0 /\ fold_left (sbcov_step (iset_new rs) b) h (Ok s0) = Ok s /\
    sb_len s = N.of_nat (length (concat (bc_counts c))) /\
    smap_as_vec (sb_map s) (N.to_nat (sb_len s)) = Ok v /\ v = concat (bc_counts c) /\ sb_total s = bc_total c.
Proof.
  intros rs b h Hb Hrs Hh. destruct (news_ok rs b Hb) as (En1 & En2).
  destruct (binned_run rs b Hb Hrs h Hh) as (c & s & E1 & E2 & Hs & _ & _ & Hl & _ & Hst & Hk & Hv).
  assert (Hlen : sb_len s = N.of_nat (length (concat (bc_counts c)))).
  { rewrite Hl, length_concat, Hs. destruct (accu_sizes rs b 0) as [a l] eqn:Ea.
    destruct (accu_sizes_spec b rs 0 a l Ea) as (H1 & _). cbn [snd]. lia. }
  exists (bc0 rs b), c, (sb0 rs b), s. eexists.
  split; [exact En1|]. split; [exact E1|]. split; [exact En2|]. split; [exact E2|]. split; [exact Hlen|].
  rewrite Hlen, Nat2N.id. split; [apply smap_as_vec_ok; exact Hk|]. split; [|exact Hst].
  apply (nth_ext _ _ 0%Z 0%Z).
  - rewrite map_length, seq_length. reflexivity.
  - intros x Hx. rewrite map_length, seq_length in Hx.
    rewrite (nth_indep _ 0%Z (sval (sb_map s) (N.of_nat 0))) by (rewrite map_length, seq_length; exact Hx).
    rewrite (map_nth (fun i => sval (sb_map s) (N.of_nat i)) (seq 0 (length (concat (bc_counts c)))) 0%nat x), seq_nth by exact Hx.
    cbn [Nat.add]. rewrite Hv, Nat2N.id. reflexivity.
Qed.

(* ---- flat index -> (region, bin): the prefix sums are strictly increasing ---- *)
Lemma nth_error_seq a n k : (k < n)%nat -> nth_error (seq a n) k = Some (a + k)%nat.
Proof.
  intros H. rewrite (nth_error_nth' _ 0%nat) by (rewrite seq_length; exact H). rewrite seq_nth by exact H. reflexivity.
Qed.

Lemma bins_length r b : length (bins r b) = N.to_nat (nbins r b).
Proof. unfold bins, nrange. rewrite !map_length, seq_length. reflexivity. Qed.

Lemma locate b : 1 <= b -> forall rs len0 k0 a l, Forall ne_region rs -> accu_sizes rs b len0 = (a, l) ->
  l = len0 + N.of_nat (length (concat (map (fun r => bins r b) rs))) /\
  forall ix, len0 <= ix -> ix < l ->
  exists j r aj, nth_error rs j = Some r /\ nth_error a j = Some aj /\ len0 + N.of_nat j <= aj /\ aj <= ix /\
    nth_error (concat (map (fun r => bins r b) rs)) (N.to_nat (ix - len0)) = Some (bin_of r b (ix - aj)) /\
    ((std_bsearch a ix k0 = Found (k0 + j) /\ ix = aj) \/ (std_bsearch a ix k0 = NotFound (S (k0 + j)) /\ aj < ix)).
Proof.
  intros Hb. induction rs as [|r t IH]; intros len0 k0 a l Hne Ha; cbn [accu_sizes] in Ha.
  - injection Ha as <- <-. cbn [map concat length]. split; [lia|]. intros ix H1 H2. lia.
  - destruct (accu_sizes t b (len0 + nbins r b)) as [a' l'] eqn:E. injection Ha as <- <-.
    inversion Hne as [|? ? Hr Ht]; subst.
    destruct (IH (len0 + nbins r b) (S k0) a' l' Ht E) as (Hl & Hloc).
    assert (Hnb : 0 < nbins r b) by (apply div_ceil_pos; [exact Hb|unfold rlen, ne_region in *; lia]).
    pose proof (bins_length r b) as Hbl.
    cbn [map concat]. rewrite app_length, Hbl. split; [lia|].
    intros ix H1 H2. destruct (N.lt_ge_cases ix (len0 + nbins r b)) as [L|L].
    + exists 0%nat, r, len0. cbn [nth_error]. split; [reflexivity|]. split; [reflexivity|]. split; [lia|].
      split; [exact H1|]. split.
      * rewrite nth_error_app1 by lia. unfold bins, nrange. rewrite map_map.
        assert (Hq : (N.to_nat (ix - len0) < N.to_nat (nbins r b))%nat) by lia.
        rewrite (map_nth_error (fun q => bin_of r b (N.of_nat q)) (N.to_nat (ix - len0)) (seq 0 (N.to_nat (nbins r b)))
                   (nth_error_seq 0 _ _ Hq)).
        f_equal. f_equal. lia.
      * cbn [std_bsearch]. destruct (N.eqb_spec len0 ix) as [->|Hne'].
        -- left. split; [f_equal; lia|reflexivity].
        -- right. destruct (N.ltb_spec ix len0); [lia|]. split; [|lia].
           destruct t as [|r' t']; cbn [accu_sizes] in E.
           ++ injection E as <- <-. cbn [std_bsearch]. f_equal. lia.
           ++ destruct (accu_sizes t' b (len0 + nbins r b + nbins r' b)) as [a2 l2]. injection E as <- <-.
              cbn [std_bsearch]. destruct (N.eqb_spec (len0 + nbins r b) ix); [lia|].
              destruct (N.ltb_spec ix (len0 + nbins r b)); [|lia]. f_equal. lia.
    + destruct (Hloc ix L ltac:(lia)) as (j & r' & aj & A1 & A2 & A3 & A4 & A5 & A6).
      exists (S j), r', aj. cbn [nth_error]. split; [exact A1|]. split; [exact A2|]. split; [lia|]. split; [exact A4|]. split.
      * rewrite nth_error_app2 by lia. rewrite Hbl.
        replace (N.to_nat (ix - len0) - N.to_nat (nbins r b))%nat with (N.to_nat (ix - (len0 + nbins r b))) by lia.
        exact A5.
      * cbn [std_bsearch]. destruct (N.eqb_spec len0 ix); [lia|]. destruct (N.ltb_spec ix len0); [lia|].
        replace (k0 + S j)%nat with (S k0 + j)%nat by lia. exact A6.
Qed.

Theorem get_region_spec : forall rs b h, 1 <= b -> Forall ne_region rs -> Forall ne_tag h ->
  exists s0 s, sbcov_new (iset_new rs) b = Ok s0 /\ fold_left (sbcov_step (iset_new rs) b) h (Ok s0) = Ok s /\
    sb_len s = N.of_nat (length (concat (map (fun r => bins r b) rs))) /\
    forall idx, sb_get_region s (iset_new rs) b idx = Ok (nth_error (concat (map (fun r => bins r b) rs)) (N.to_nat idx)) /\
                sb_get_chrom s (iset_new rs) b idx = Ok (option_map (fun g => fst (fst g)) (nth_error (concat (map (fun r => bins r b) rs)) (N.to_nat idx))).
Proof.
  intros rs b h Hb Hrs Hh. destruct (news_ok rs b Hb) as (_ & En2).
  destruct (binned_run rs b Hb Hrs h Hh) as (c & s & _ & E2 & _ & _ & _ & Hl & Ha & _).
  destruct (accu_sizes rs b 0) as [a l] eqn:Ea. cbn [fst snd] in Hl, Ha.
  destruct (locate b Hb rs 0 0%nat a l Hrs Ea) as (Hlen & Hloc). rewrite N.add_0_l in Hlen.
  exists (sb0 rs b), s. split; [exact En2|]. split; [exact E2|]. split; [congruence|].
  intros ix. unfold sb_get_region, sb_get_chrom, sb_locate. rewrite Hl, Ha. change (is_data (iset_new rs)) with rs.
  destruct (N.leb_spec l ix) as [L|L].
  - cbn [rbind]. replace (nth_error (concat (map (fun r => bins r b) rs)) (N.to_nat ix)) with (@None region).
    + split; reflexivity.
    + symmetry. apply nth_error_None. lia.
  - destruct (Hloc ix ltac:(lia) L) as (j & r & aj & A1 & A2 & A3 & A4 & A5 & A6).
    rewrite N.sub_0_r in A5. rewrite A5. cbn [option_map Nat.add] in *.
    destruct A6 as [(Eb & Hi)|(Eb & Hi)]; rewrite Eb.
    + destruct (N.ltb_spec (N.of_nat j) l); [|lia]. unfold idx. rewrite A1. cbn [of_opt rbind].
      subst aj. rewrite N.sub_diag. split; reflexivity.
    + destruct (N.ltb_spec (N.of_nat j) l); [|lia]. unfold idx. rewrite A1, A2. cbn [of_opt rbind].
      split; reflexivity.
Qed.

(* MergeBedProofs.v — C07 (merge_sorted_bed_with partitions a sorted stream into maximal chained
   groups; merge_sorted_bed) and C08 (merge_sorted_bedgraph = pointwise sum, run-length encoded).
   Stdlib only, no axioms. *)
From BedV Require Import Base AlgebraModel ListFacts.

(* ------------------------------------------------------------------------------------------ *)
(* byte strings                                                                               *)
(* ------------------------------------------------------------------------------------------ *)
Lemma bytes_cmp_eq a : forall b, bytes_cmp a b = Eq <-> a = b.
Proof.
  induction a as [|x a IH]; intros [|y b]; cbn [bytes_cmp]; split; intros H;
    try discriminate; try reflexivity.
  - destruct (x ?= y) eqn:E; try discriminate. apply N.compare_eq_iff in E.
    apply IH in H. congruence.
  - injection H as -> ->. rewrite N.compare_refl. apply IH. reflexivity.
Qed.

Lemma bytes_cmp_refl a : bytes_cmp a a = Eq.
Proof. apply bytes_cmp_eq. reflexivity. Qed.

Lemma bytes_eqb_eq' a b : bytes_eqb a b = true <-> a = b.
Proof.
  unfold bytes_eqb. rewrite <- bytes_cmp_eq. destruct (bytes_cmp a b); split; congruence.
Qed.

Lemma bytes_cmp_antisym a : forall b, bytes_cmp b a = CompOpp (bytes_cmp a b).
Proof.
  induction a as [|x a IH]; intros [|y b]; cbn [bytes_cmp]; try reflexivity.
  rewrite (N.compare_antisym x y). destruct (x ?= y); cbn [CompOpp]; auto.
Qed.

Lemma bytes_cmp_lt_trans a : forall b c,
  bytes_cmp a b = Lt -> bytes_cmp b c = Lt -> bytes_cmp a c = Lt.
Proof.
  induction a as [|x a IH]; intros [|y b] [|z c]; cbn [bytes_cmp]; try discriminate; try reflexivity.
  intros H1 H2.
  destruct (N.compare_spec x y) as [E1|E1|E1]; try discriminate;
  destruct (N.compare_spec y z) as [E2|E2|E2]; try discriminate; subst.
  - rewrite N.compare_refl. eauto.
  - rewrite (proj2 (N.compare_lt_iff _ _)) by lia. reflexivity.
  - rewrite (proj2 (N.compare_lt_iff _ _)) by lia. reflexivity.
  - rewrite (proj2 (N.compare_lt_iff _ _)) by lia. reflexivity.
Qed.

(* not Gt both ways = equal *)
Lemma bytes_cmp_le_antisym a b : bytes_cmp a b <> Gt -> bytes_cmp b a <> Gt -> a = b.
Proof.
  intros H1 H2. apply bytes_cmp_eq. rewrite (bytes_cmp_antisym a b) in H2.
  destruct (bytes_cmp a b); cbn [CompOpp] in H2; congruence.
Qed.

Lemma bytes_cmp_lt_irrefl a : bytes_cmp a a <> Lt.
Proof. rewrite bytes_cmp_refl. discriminate. Qed.

Lemma bytes_cmp_lt_asym a b : bytes_cmp a b = Lt -> bytes_cmp b a = Lt -> False.
Proof. intros H1 H2. rewrite (bytes_cmp_antisym a b), H1 in H2. discriminate. Qed.

Lemma bcmp_chr a b : bcompare a b <> Gt -> bytes_cmp (b_chr a) (b_chr b) <> Gt.
Proof. unfold bcompare, cmp_then. destruct (bytes_cmp (b_chr a) (b_chr b)); congruence. Qed.

Lemma bcmp_st a b : bcompare a b <> Gt -> b_chr a = b_chr b -> b_st a <= b_st b.
Proof.
  unfold bcompare. intros H E. rewrite E, bytes_cmp_refl in H. unfold cmp_then in H.
  destruct (N.compare_spec (b_st a) (b_st b)); try lia. congruence.
Qed.

Lemma bcmp_chr_lt a b : bcompare a b <> Gt -> b_chr a <> b_chr b -> bytes_cmp (b_chr a) (b_chr b) = Lt.
Proof.
  intros H Hne. apply bcmp_chr in H. destruct (bytes_cmp (b_chr a) (b_chr b)) eqn:E; try congruence.
  apply bytes_cmp_eq in E. congruence.
Qed.

(* ------------------------------------------------------------------------------------------ *)
(* generic list facts                                                                         *)
(* ------------------------------------------------------------------------------------------ *)
Lemma ss_app_inv {A} (R : A -> A -> Prop) l1 : forall l2,
  StronglySorted R (l1 ++ l2) ->
  StronglySorted R l1 /\ StronglySorted R l2 /\ (forall x y, In x l1 -> In y l2 -> R x y).
Proof.
  induction l1 as [|a l1 IH]; intros l2 H; cbn [app] in H.
  - split; [constructor|]. split; [exact H|]. intros x y [].
  - apply StronglySorted_inv in H. destruct H as [H Ha]. apply IH in H. destruct H as (H1 & H2 & H12).
    apply Forall_app in Ha. destruct Ha as [Ha1 Ha2].
    split; [constructor; assumption|]. split; [exact H2|].
    intros x y [<-|Hx] Hy.
    + rewrite Forall_forall in Ha2. auto.
    + auto.
Qed.

Lemma ss_concat_in {A} (R : A -> A -> Prop) (ls : list (list A)) l :
  StronglySorted R (concat ls) -> In l ls -> StronglySorted R l.
Proof.
  intros H Hin. apply in_split in Hin. destruct Hin as (l1 & l2 & ->).
  rewrite concat_app in H. cbn [concat] in H.
  apply ss_app_inv in H. destruct H as (_ & H & _). apply ss_app_inv in H. tauto.
Qed.

Lemma app_eq_cases {A} (a1 : list A) : forall a2 x y, a1 ++ x = a2 ++ y ->
  a1 = a2 \/ (exists r rest, a2 = a1 ++ r :: rest /\ x = r :: rest ++ y)
          \/ (exists r rest, a1 = a2 ++ r :: rest /\ y = r :: rest ++ x).
Proof.
  induction a1 as [|u a1 IH]; intros [|v a2] x y E; cbn [app] in E.
  - left; reflexivity.
  - right; left. exists v, a2. split; [reflexivity|]. subst x. reflexivity.
  - right; right. exists u, a1. split; [reflexivity|]. subst y; reflexivity.
  - injection E as -> E.
    destruct (IH _ _ _ E) as [->|[(r & rest & -> & ->)|(r & rest & -> & ->)]].
    + left; reflexivity.
    + right; left. exists r, rest. split; reflexivity.
    + right; right. exists r, rest. split; reflexivity.
Qed.

(* a property of all adjacent pairs *)
Definition AdjP {A} (P : A -> A -> Prop) (l : list A) : Prop :=
  forall pre x y post, l = pre ++ x :: y :: post -> P x y.

Lemma AdjP_nil {A} (P : A -> A -> Prop) : AdjP P [].
Proof. intros pre x y post E. destruct pre; discriminate. Qed.

Lemma AdjP_one {A} (P : A -> A -> Prop) a : AdjP P [a].
Proof. intros pre x y post E. destruct pre as [|? [|? ?]]; discriminate. Qed.

Lemma AdjP_cons {A} (P : A -> A -> Prop) a b l : AdjP P (a :: b :: l) <-> P a b /\ AdjP P (b :: l).
Proof.
  split.
  - intros H. split.
    + apply (H [] a b l). reflexivity.
    + intros pre x y post E. apply (H (a :: pre) x y post). rewrite E. reflexivity.
  - intros [H1 H2] pre x y post E. destruct pre as [|p pre]; cbn [app] in E.
    + injection E as <- <- _. exact H1.
    + injection E as _ E. apply (H2 pre x y post). exact E.
Qed.

Lemma AdjP_tail {A} (P : A -> A -> Prop) a l : AdjP P (a :: l) -> AdjP P l.
Proof. intros H pre x y post E. apply (H (a :: pre) x y post). rewrite E. reflexivity. Qed.

Lemma AdjP_app {A} (P : A -> A -> Prop) l1 : forall l2,
  AdjP P l1 -> AdjP P l2 ->
  (forall a x y b, l1 = a ++ [x] -> l2 = y :: b -> P x y) ->
  AdjP P (l1 ++ l2).
Proof.
  induction l1 as [|u l1 IH]; intros l2 H1 H2 Hb; cbn [app]; [exact H2|].
  destruct l1 as [|v l1].
  - cbn [app]. destruct l2 as [|w l2]; [apply AdjP_one|].
    apply AdjP_cons. split; [|exact H2]. apply (Hb [] u w l2); reflexivity.
  - cbn [app]. apply AdjP_cons. apply AdjP_cons in H1. destruct H1 as [Huv H1].
    split; [exact Huv|]. apply (IH l2 H1 H2).
    intros a x y b E1 E2. apply (Hb (u :: a) x y b); [rewrite E1; reflexivity|exact E2].
Qed.

Lemma AdjP_impl {A} (P Q : A -> A -> Prop) l : (forall x y, P x y -> Q x y) -> AdjP P l -> AdjP Q l.
Proof. intros H HP pre x y post E. apply H. eapply HP; eauto. Qed.

Lemma fold_min_id l : forall a, (forall x, In x l -> a <= x) -> fold_left N.min l a = a.
Proof.
  induction l as [|y l IH]; intros a H; cbn [fold_left]; [reflexivity|].
  assert (N.min a y = a) as -> by (specialize (H y (or_introl eq_refl)); lia).
  apply IH. intros x Hx. apply H. right; exact Hx.
Qed.

(* ------------------------------------------------------------------------------------------ *)
(* C07 definitions                                                                            *)
(* ------------------------------------------------------------------------------------------ *)
Definition sorted_recs (l : list brec) : Prop := StronglySorted (fun a b => bcompare a b <> Gt) l.
Definition gmax (g : list brec) : N := fold_left N.max (map b_en g) 0.
(* g is one connected run: non-empty, one chromosome, every record after the first starts no later
   than the running maximum end of the records before it *)
Definition Chained (g : list brec) : Prop :=
  g <> [] /\ forall pre r post, g = pre ++ r :: post -> pre <> [] ->
    b_chr r = b_chr (hd r pre) /\ b_st r <= gmax pre.
(* two consecutive groups cannot be joined *)
Definition Separated (g g' : list brec) : Prop :=
  forall a b, hd_error g = Some a -> hd_error g' = Some b -> b_chr a <> b_chr b \/ gmax g < b_st b.
Fixpoint AdjSep (gs : list (list brec)) : Prop :=
  match gs with g :: ((g' :: _) as t) => Separated g g' /\ AdjSep t | _ => True end.
Definition Groups (l : list brec) (gs : list (list brec)) : Prop :=
  concat gs = l /\ Forall Chained gs /\ AdjSep gs.

(* ---- gmax ---- *)
Lemma fold_max_acc l : forall a, fold_left N.max l a = N.max a (fold_left N.max l 0).
Proof.
  induction l as [|x l IH]; intros a; cbn [fold_left]; [lia|].
  rewrite (IH (N.max a x)), (IH (N.max 0 x)). lia.
Qed.

Lemma gmax_nil : gmax [] = 0.
Proof. reflexivity. Qed.

Lemma gmax_cons r t : gmax (r :: t) = N.max (b_en r) (gmax t).
Proof. unfold gmax. cbn [map fold_left]. rewrite (fold_max_acc _ (N.max 0 (b_en r))). lia. Qed.

Lemma gmax_app g h : gmax (g ++ h) = N.max (gmax g) (gmax h).
Proof.
  induction g as [|r g IH]; cbn [app].
  - rewrite gmax_nil. lia.
  - rewrite !gmax_cons, IH. lia.
Qed.

Lemma gmax_one r : gmax [r] = b_en r.
Proof. rewrite gmax_cons, gmax_nil. lia. Qed.

Lemma gmax_in r g : In r g -> b_en r <= gmax g.
Proof.
  induction g as [|x g IH]; intros []; rewrite gmax_cons.
  - subst. lia.
  - specialize (IH H). lia.
Qed.

Lemma gmax_lub g e : (forall r, In r g -> b_en r <= e) -> gmax g <= e.
Proof.
  induction g as [|x g IH]; intros H.
  - rewrite gmax_nil. lia.
  - rewrite gmax_cons. pose proof (H x (or_introl eq_refl)).
    assert (gmax g <= e) by (apply IH; intros r Hr; apply H; right; exact Hr). lia.
Qed.

Lemma gmax_witness g p : p < gmax g -> exists r, In r g /\ p < b_en r.
Proof.
  induction g as [|x g IH]; intros H.
  - rewrite gmax_nil in H. lia.
  - rewrite gmax_cons in H. destruct (N.lt_ge_cases p (b_en x)) as [Hx|Hx].
    + exists x. split; [left; reflexivity|exact Hx].
    + destruct IH as (r & Hr & Hp); [lia|]. exists r. split; [right; exact Hr|exact Hp].
Qed.

(* ---- Chained ---- *)
Lemma chained_single r : Chained [r].
Proof.
  split; [discriminate|]. intros pre x post E Hp.
  destruct pre as [|a pre]; [congruence|]. cbn [app] in E. injection E as _ E.
  destruct pre; discriminate.
Qed.

Lemma chained_prefix g1 g2 : Chained (g1 ++ g2) -> g1 <> [] -> Chained g1.
Proof.
  intros [_ H] Hne. split; [exact Hne|]. intros pre r post E Hp.
  apply (H pre r (post ++ g2)); [|exact Hp]. rewrite E, <- app_assoc. reflexivity.
Qed.

Lemma chained_snoc g r h tl : Chained g -> g = h :: tl -> b_chr r = b_chr h -> b_st r <= gmax g ->
  Chained (g ++ [r]).
Proof.
  intros [_ Hc] -> Hchr Hst. split; [discriminate|]. intros pre x post E Hp.
  induction post as [|y post' _] using rev_ind.
  - apply app_inj_tail in E. destruct E as [<- <-]. cbn [hd]. split; assumption.
  - rewrite app_comm_cons, app_assoc in E. apply app_inj_tail in E. destruct E as [E _].
    apply (Hc pre x post' E Hp).
Qed.

Lemma chained_chr g h tl r : Chained g -> g = h :: tl -> In r g -> b_chr r = b_chr h.
Proof.
  intros [_ Hc] -> [<-|Hr]; [reflexivity|].
  apply in_split in Hr. destruct Hr as (l1 & l2 & ->).
  destruct (Hc (h :: l1) r l2) as [H _]; [reflexivity|discriminate|exact H].
Qed.

(* no holes: the union of the records of a chained group is [start of first, gmax) *)
Lemma chained_no_hole g : forall h tl p, Chained g -> g = h :: tl -> b_st h <= p -> p < gmax g ->
  exists r, In r g /\ b_st r <= p /\ p < b_en r.
Proof.
  induction g as [|x g' IH] using rev_ind; intros h tl p Hc E Hs He; [discriminate|].
  rewrite gmax_app, gmax_one in He.
  destruct g' as [|h' tl'].
  - cbn [app] in E. injection E as <- <-. rewrite gmax_nil in He.
    exists x. split; [left; reflexivity|lia].
  - cbn [app] in E. injection E as -> _.
    assert (Hc' : Chained (h :: tl')) by (apply (chained_prefix _ [x] Hc); discriminate).
    destruct Hc as [_ Hc]. destruct (Hc (h :: tl') x []) as [_ Hx]; [reflexivity|discriminate|].
    destruct (N.lt_ge_cases p (gmax (h :: tl'))) as [Hlt|Hge].
    + destruct (IH h tl' p Hc' eq_refl Hs Hlt) as (r & Hr & Hp).
      exists r. split; [apply in_or_app; left; exact Hr|exact Hp].
    + exists x. split; [apply in_or_app; right; left; reflexivity|lia].
Qed.

(* ---- AdjSep / Groups ---- *)
Lemma AdjSep_cons g g' t : AdjSep (g :: g' :: t) <-> Separated g g' /\ AdjSep (g' :: t).
Proof. reflexivity. Qed.

Lemma AdjSep_tail g t : AdjSep (g :: t) -> AdjSep t.
Proof. destruct t as [|g' t]; [intros; exact I|]. intros H. apply AdjSep_cons in H. exact (proj2 H). Qed.

Lemma AdjSep_suffix a : forall b, AdjSep (a ++ b) -> AdjSep b.
Proof. induction a as [|g a IH]; intros b H; [exact H|]. apply IH. apply (AdjSep_tail g). exact H. Qed.

Lemma groups_head r t gs : Groups (r :: t) gs -> exists g gs', gs = (r :: g) :: gs'.
Proof.
  intros (Hc & Hch & _). destruct gs as [|g gs]; [discriminate|].
  inversion Hch as [|? ? [Hne _] _]; subst. destruct g as [|x g]; [congruence|].
  cbn [concat app] in Hc. injection Hc as -> _. eauto.
Qed.

Lemma sorted_st_ge h tl r : sorted_recs (h :: tl) -> In r (h :: tl) -> b_chr r = b_chr h -> b_st h <= b_st r.
Proof.
  intros Hs [<-|Hr] Hc; [lia|]. apply StronglySorted_inv in Hs. destruct Hs as [_ Hs].
  rewrite Forall_forall in Hs. apply bcmp_st; [apply Hs; exact Hr|congruence].
Qed.

(* ------------------------------------------------------------------------------------------ *)
(* C07: merge_groups                                                                          *)
(* ------------------------------------------------------------------------------------------ *)
Lemma merge_loop_spec : forall l acc h tl chr s e,
  rev acc = h :: tl -> chr = b_chr h -> s = b_st h -> e = gmax (rev acc) ->
  Chained (rev acc) -> sorted_recs (rev acc ++ l) ->
  exists gs, merge_loop chr s e acc l = Ok gs /\ Groups (rev acc ++ l) gs.
Proof.
  induction l as [|r t IH]; intros acc h tl chr s e Hrev -> -> -> Hch Hs.
  - cbn [merge_loop]. exists [rev acc]. split; [reflexivity|].
    split; [cbn [concat]; reflexivity|]. split; [constructor; [assumption|constructor]|exact I].
  - cbn [merge_loop].
    pose proof (ss_app_inv _ _ _ Hs) as (Hs1 & Hs2 & Hs12).
    destruct (negb (bytes_eqb (b_chr h) (b_chr r)) || (gmax (rev acc) <? b_st r)) eqn:C.
    + destruct (IH [r] r [] (b_chr r) (b_st r) (b_en r)) as (rest & Hrest & HG); try reflexivity.
      * cbn [rev app]. rewrite gmax_one. reflexivity.
      * apply chained_single.
      * exact Hs2.
      * rewrite Hrest. cbn [rbind]. eexists; split; [reflexivity|].
        cbn [rev app] in HG. destruct (groups_head _ _ _ HG) as (g' & gs' & ->).
        destruct HG as (HGc & HGf & HGs).
        split; [cbn [concat]; cbn [concat] in HGc; rewrite HGc; reflexivity|].
        split; [constructor; assumption|].
        apply AdjSep_cons. split; [|exact HGs].
        intros a b Ha Hb. rewrite Hrev in Ha. cbn [hd_error] in Ha, Hb.
        injection Ha as <-. injection Hb as <-.
        apply orb_true_iff in C. destruct C as [C|C].
        -- left. intros E. apply bytes_eqb_eq' in E. rewrite E in C. discriminate.
        -- right. apply N.ltb_lt in C. exact C.
    + apply orb_false_iff in C. destruct C as [C1 C2].
      apply negb_false_iff, bytes_eqb_eq' in C1. apply N.ltb_ge in C2.
      assert (Hhr : b_st h <= b_st r).
      { apply bcmp_st; [|exact C1]. apply Hs12; [rewrite Hrev|]; left; reflexivity. }
      destruct (b_st r <? b_st h) eqn:C3; [apply N.ltb_lt in C3; lia|].
      assert (Hmax : (if gmax (rev acc) <? b_en r
                      then merge_loop (b_chr h) (b_st h) (b_en r) (r :: acc) t
                      else merge_loop (b_chr h) (b_st h) (gmax (rev acc)) (r :: acc) t)
                     = merge_loop (b_chr h) (b_st h) (N.max (gmax (rev acc)) (b_en r)) (r :: acc) t).
      { destruct (N.ltb_spec (gmax (rev acc)) (b_en r)); f_equal; lia. }
      rewrite Hmax. clear Hmax.
      replace (rev acc ++ r :: t) with (rev (r :: acc) ++ t)
        by (cbn [rev]; rewrite <- app_assoc; reflexivity).
      apply (IH (r :: acc) h (tl ++ [r])).
      * cbn [rev]. rewrite Hrev. reflexivity.
      * reflexivity.
      * reflexivity.
      * cbn [rev]. rewrite gmax_app, gmax_one. reflexivity.
      * cbn [rev]. apply (chained_snoc _ _ h tl); auto.
      * cbn [rev]. rewrite <- app_assoc. exact Hs.
Qed.

Theorem merge_groups_spec : forall l, sorted_recs l -> exists gs, merge_groups l = Ok gs /\ Groups l gs.
Proof.
  intros [|r t] Hs.
  - exists []. split; [reflexivity|]. split; [reflexivity|]. split; [constructor|exact I].
  - unfold merge_groups.
    apply (merge_loop_spec t [r] r []); try reflexivity.
    + cbn [rev app]. rewrite gmax_one. reflexivity.
    + apply chained_single.
    + exact Hs.
Qed.

Lemma merge_loop_concat : forall l acc chr s e gs,
  merge_loop chr s e acc l = Ok gs -> concat gs = rev acc ++ l.
Proof.
  induction l as [|r t IH]; intros acc chr s e gs H; cbn [merge_loop] in H.
  - injection H as <-. cbn [concat]. reflexivity.
  - destruct (negb (bytes_eqb chr (b_chr r)) || (e <? b_st r)).
    + destruct (merge_loop (b_chr r) (b_st r) (b_en r) [r] t) as [rest|] eqn:E; [|discriminate].
      cbn [rbind] in H. injection H as <-. apply IH in E. cbn [concat]. rewrite E. reflexivity.
    + destruct (b_st r <? s); [discriminate|].
      destruct (e <? b_en r); apply IH in H; rewrite H; cbn [rev]; rewrite <- app_assoc; reflexivity.
Qed.

Theorem merge_groups_every_record_once : forall l gs, merge_groups l = Ok gs -> concat gs = l.
Proof.
  intros [|r t] gs H; unfold merge_groups in H.
  - injection H as <-. reflexivity.
  - apply merge_loop_concat in H. exact H.
Qed.

(* ---- uniqueness of the grouping ---- *)
Lemma groups_no_split a1 t1 a2 r rest y :
  Chained a1 -> Chained a2 -> Forall Chained t1 -> AdjSep (a1 :: t1) ->
  a2 = a1 ++ r :: rest -> concat t1 = r :: rest ++ y -> False.
Proof.
  intros [Hne1 _] [_ Hc2] Hf Hs -> Hcat.
  destruct t1 as [|g' t1]; [discriminate|].
  inversion Hf as [|? ? [Hne' _] _]; subst.
  destruct g' as [|b g']; [congruence|]. cbn [concat app] in Hcat. injection Hcat as -> _.
  destruct a1 as [|h a1]; [congruence|].
  apply AdjSep_cons in Hs. destruct Hs as [Hs _].
  destruct (Hc2 (h :: a1) r rest) as [Hchr Hst]; [reflexivity|discriminate|].
  destruct (Hs h r) as [H|H]; try reflexivity.
  - cbn [hd] in Hchr. congruence.
  - lia.
Qed.

Theorem groups_unique : forall l g1 g2, Groups l g1 -> Groups l g2 -> g1 = g2.
Proof.
  intros l g1. revert l. induction g1 as [|a1 t1 IH]; intros l g2 (Hc1 & Hf1 & Hs1) (Hc2 & Hf2 & Hs2).
  - cbn [concat] in Hc1. subst l. destruct g2 as [|a2 t2]; [reflexivity|].
    inversion Hf2 as [|? ? [Hne _] _]; subst. destruct a2; [congruence|discriminate].
  - destruct g2 as [|a2 t2].
    + inversion Hf1 as [|? ? [Hne _] _]; subst. destruct a1; [congruence|discriminate].
    + inversion Hf1 as [|? ? Ha1 Hf1']; subst. inversion Hf2 as [|? ? Ha2 Hf2']; subst.
      cbn [concat] in Hc2.
      destruct (app_eq_cases _ _ _ _ Hc2) as [E|[(r & rest & E & Ey)|(r & rest & E & Ey)]].
      * subst a2. apply app_inv_head in Hc2. f_equal.
        apply AdjSep_tail in Hs1. apply AdjSep_tail in Hs2.
        apply (IH (concat t1)); (split; [|split]); auto.
      * exfalso. exact (groups_no_split _ _ _ _ _ _ Ha2 Ha1 Hf2' Hs2 E Ey).
      * exfalso. exact (groups_no_split _ _ _ _ _ _ Ha1 Ha2 Hf1' Hs1 E Ey).
Qed.

(* ------------------------------------------------------------------------------------------ *)
(* C07: merge_sorted_bed                                                                      *)
(* ------------------------------------------------------------------------------------------ *)
Definition cov_at (l : list brec) (ch : bytes) (p : N) : Prop :=
  exists r, In r l /\ b_chr r = ch /\ b_st r <= p /\ p < b_en r.
Definition rcovers (c : bytes) (s e : N) (ch : bytes) (p : N) : Prop := ch = c /\ s <= p /\ p < e.

Definition dflt : brec := mkB [] 0 0 0%Z.
Definition gchr (g : list brec) : bytes := b_chr (hd dflt g).
Definition gst (g : list brec) : N := b_st (hd dflt g).
Definition grange_of (g : list brec) : bytes * N * N :=
  (b_chr (hd dflt g), fold_left N.min (map b_st g) (b_st (hd dflt g)), gmax g).

Lemma cov_at_app l1 l2 ch p : cov_at (l1 ++ l2) ch p <-> cov_at l1 ch p \/ cov_at l2 ch p.
Proof.
  unfold cov_at. split.
  - intros (r & Hr & H). apply in_app_or in Hr. destruct Hr; [left|right]; eauto.
  - intros [(r & Hr & H)|(r & Hr & H)]; exists r; (split; [apply in_or_app; tauto|exact H]).
Qed.

Lemma cov_at_concat ls ch p : cov_at (concat ls) ch p <-> exists l, In l ls /\ cov_at l ch p.
Proof.
  unfold cov_at. split.
  - intros (r & Hr & H). apply in_concat in Hr. destruct Hr as (l & Hl & Hr). exists l. eauto.
  - intros (l & Hl & r & Hr & H). exists r. split; [|exact H]. apply in_concat. eauto.
Qed.

Lemma cov_at_nil ch p : ~ cov_at [] ch p.
Proof. intros (r & [] & _). Qed.

Lemma mapM_group_range gs : Forall Chained gs -> mapM group_range gs = Ok (map grange_of gs).
Proof.
  induction 1 as [|g gs [Hne _] _ IH]; [reflexivity|].
  cbn [mapM map]. rewrite IH. destruct g as [|r t]; [congruence|].
  unfold group_range, grange_of, list_min, list_max, gmax. cbn [rbind hd map fold_left].
  rewrite N.min_id, N.max_0_l. reflexivity.
Qed.

Lemma group_st_ge g r : Chained g -> sorted_recs g -> In r g -> gst g <= b_st r.
Proof.
  intros Hc Hs Hr. destruct g as [|h tl]; [destruct Hr|]. unfold gst. cbn [hd].
  apply (sorted_st_ge h tl r Hs Hr). apply (chained_chr _ h tl r Hc eq_refl Hr).
Qed.

Lemma group_chr g r : Chained g -> In r g -> b_chr r = gchr g.
Proof.
  intros Hc Hr. destruct g as [|h tl]; [destruct Hr|]. unfold gchr. cbn [hd].
  apply (chained_chr _ h tl r Hc eq_refl Hr).
Qed.

Lemma grange_sorted g : Chained g -> sorted_recs g -> grange_of g = (gchr g, gst g, gmax g).
Proof.
  intros Hc Hs. unfold grange_of. fold (gchr g). fold (gst g). f_equal. f_equal.
  apply fold_min_id. intros x Hx. apply in_map_iff in Hx. destruct Hx as (r & <- & Hr).
  apply group_st_ge; assumption.
Qed.

(* a chained sorted group covers exactly [start of its first record, gmax) on its chromosome *)
Lemma cov_group g ch p : Chained g -> sorted_recs g ->
  (cov_at g ch p <-> ch = gchr g /\ gst g <= p /\ p < gmax g).
Proof.
  intros Hc Hs. split.
  - intros (r & Hr & <- & H1 & H2). split; [apply group_chr; assumption|].
    pose proof (group_st_ge g r Hc Hs Hr). pose proof (gmax_in r g Hr). lia.
  - intros (-> & H1 & H2). destruct g as [|h tl]; [destruct Hc; congruence|].
    unfold gst in H1. cbn [hd] in H1.
    destruct (chained_no_hole _ h tl p Hc eq_refl H1 H2) as (r & Hr & Hp).
    exists r. split; [exact Hr|]. split; [apply group_chr; assumption|exact Hp].
Qed.

(* consecutive groups of a sorted stream are ordered and, on one chromosome, not adjacent *)
Lemma sep_order g g' rest : Chained g -> Chained g' -> Separated g g' -> sorted_recs (g ++ g' ++ rest) ->
  bytes_cmp (gchr g) (gchr g') = Lt \/ (gchr g = gchr g' /\ gmax g < gst g').
Proof.
  intros [Hne _] [Hne' _] Hsep Hs.
  destruct g as [|a ta]; [congruence|]. destruct g' as [|b tb]; [congruence|].
  unfold gchr, gst. cbn [hd].
  apply ss_app_inv in Hs. destruct Hs as (_ & _ & Hs).
  assert (Hab : bcompare a b <> Gt).
  { apply Hs; [left; reflexivity|]. cbn [app]. left; reflexivity. }
  destruct (bytes_eqb (b_chr a) (b_chr b)) eqn:E.
  - apply bytes_eqb_eq' in E. destruct (Hsep a b eq_refl eq_refl) as [H|H]; [congruence|].
    right. split; assumption.
  - left. apply bcmp_chr_lt; [exact Hab|]. intros E'. apply bytes_eqb_eq' in E'. congruence.
Qed.

Definition range_lt (x y : bytes * N * N) : Prop :=
  let '(c1, s1, e1) := x in let '(c2, s2, e2) := y in
  bytes_cmp c1 c2 = Lt \/ (c1 = c2 /\ e1 < s2).

Lemma ranges_sorted : forall gs, Forall Chained gs -> AdjSep gs -> sorted_recs (concat gs) ->
  AdjP range_lt (map grange_of gs).
Proof.
  induction gs as [|g R IH]; intros Hf Hsep Hs; [apply AdjP_nil|].
  destruct R as [|g' R']; [apply AdjP_one|].
  cbn [map]. apply AdjP_cons.
  inversion Hf as [|? ? Hg Hf']; subst. inversion Hf' as [|? ? Hg' _]; subst.
  apply AdjSep_cons in Hsep. destruct Hsep as [Hgg' Hsep].
  split.
  - rewrite (grange_sorted g), (grange_sorted g'); auto.
    + unfold range_lt. cbn [concat] in Hs. apply (sep_order g g' (concat R')); assumption.
    + apply (ss_concat_in _ _ _ Hs). right; left; reflexivity.
    + apply (ss_concat_in _ _ _ Hs). left; reflexivity.
  - apply IH; auto. cbn [concat] in Hs. apply ss_app_inv in Hs. tauto.
Qed.

Theorem merge_sorted_bed_spec : forall l, sorted_recs l -> exists gs out,
    merge_groups l = Ok gs /\ merge_sorted_bed l = Ok out /\
    out = map (fun g => (b_chr (hd (mkB [] 0 0 0%Z) g), fold_left N.min (map b_st g) (b_st (hd (mkB [] 0 0 0%Z) g)), gmax g)) gs /\
    (* sorted, and disjoint + non-adjacent inside one chromosome *)
    (forall pre x y post, out = pre ++ x :: y :: post ->
        let '(c1, s1, e1) := x in let '(c2, s2, e2) := y in
        bytes_cmp c1 c2 = Lt \/ (c1 = c2 /\ e1 < s2)) /\
    (* covers exactly the positions covered by the input *)
    (forall ch p, (exists r, In r l /\ b_chr r = ch /\ b_st r <= p /\ p < b_en r) <->
                  (exists c s e, In (c, s, e) out /\ rcovers c s e ch p)).
Proof.
  intros l Hs. destruct (merge_groups_spec l Hs) as (gs & Hm & Hc & Hf & Hsep).
  exists gs, (map grange_of gs).
  split; [exact Hm|]. split; [unfold merge_sorted_bed; rewrite Hm; cbn [rbind]; apply mapM_group_range; exact Hf|].
  split; [reflexivity|]. subst l. split.
  - exact (ranges_sorted gs Hf Hsep Hs).
  - intros ch p. change (cov_at (concat gs) ch p <-> (exists c s e, In (c, s, e) (map grange_of gs) /\ rcovers c s e ch p)).
    rewrite cov_at_concat. split.
    + intros (g & Hg & Hcov).
      assert (Hcg : Chained g) by (rewrite Forall_forall in Hf; auto).
      assert (Hsg : sorted_recs g) by (apply (ss_concat_in _ _ _ Hs Hg)).
      apply (cov_group g ch p Hcg Hsg) in Hcov.
      exists (gchr g), (gst g), (gmax g). split; [|exact Hcov].
      rewrite <- (grange_sorted g Hcg Hsg). apply in_map. exact Hg.
    + intros (c & s & e & Hin & Hr). apply in_map_iff in Hin. destruct Hin as (g & Hgr & Hg).
      assert (Hcg : Chained g) by (rewrite Forall_forall in Hf; auto).
      assert (Hsg : sorted_recs g) by (apply (ss_concat_in _ _ _ Hs Hg)).
      rewrite (grange_sorted g Hcg Hsg) in Hgr. injection Hgr as <- <- <-.
      exists g. split; [exact Hg|]. apply (cov_group g ch p Hcg Hsg). exact Hr.
Qed.

(* ------------------------------------------------------------------------------------------ *)
(* C08: merge_sorted_bedgraph                                                                 *)
(* ------------------------------------------------------------------------------------------ *)
Definition val_at (l : list brec) (ch : bytes) (p : N) : Z :=
  fold_right (fun r a => if bytes_eqb (b_chr r) ch && (b_st r <=? p) && (p <? b_en r) then (b_val r + a)%Z else a) 0%Z l.
Definition BgRLE (l out : list brec) : Prop :=
  (forall o, In o out -> b_st o < b_en o) /\
  (forall pre x y post, out = pre ++ x :: y :: post ->
      bytes_cmp (b_chr x) (b_chr y) = Lt \/ (b_chr x = b_chr y /\ b_en x <= b_st y)) /\
  (forall ch p, cov_at l ch p <-> cov_at out ch p) /\
  (forall o ch p, In o out -> b_chr o = ch -> b_st o <= p -> p < b_en o -> b_val o = val_at l ch p) /\
  (forall pre x y post, out = pre ++ x :: y :: post -> b_chr x = b_chr y -> b_en x = b_st y -> b_val x <> b_val y).

(* ---- step functions given by breakpoint lists ---- *)
Fixpoint psum (pts : list (N * Z)) (x : N) : Z :=
  match pts with
  | [] => 0%Z
  | (pos, v) :: t => if pos <=? x then (v + psum t x)%Z else psum t x
  end.
Fixpoint inc (prev : N) (t : list (N * Z)) : Prop :=
  match t with [] => True | (pos, _) :: t' => prev < pos /\ inc pos t' end.
Fixpoint lastpos (t : list (N * Z)) (prev : N) : N :=
  match t with [] => prev | (pos, _) :: t' => lastpos t' pos end.

Lemma psum_inc_zero : forall t prev x, inc prev t -> x <= prev -> psum t x = 0%Z.
Proof.
  induction t as [|[pos v] t IH]; intros prev x Hi Hx; cbn [psum]; [reflexivity|].
  destruct Hi as [Hlt Hi]. destruct (N.leb_spec pos x); [lia|]. apply (IH pos); [exact Hi|lia].
Qed.

Lemma psum_app l1 l2 x : psum (l1 ++ l2) x = (psum l1 x + psum l2 x)%Z.
Proof.
  induction l1 as [|[pos v] l1 IH]; cbn [app psum]; [lia|]. rewrite IH. destruct (pos <=? x); lia.
Qed.

Lemma psum_perm l l' x : Permutation l l' -> psum l x = psum l' x.
Proof.
  induction 1 as [|[p v] l l' _ IH|[p v] [q w] l|l l' l'' _ IH1 _ IH2]; cbn [psum].
  - reflexivity.
  - rewrite IH. reflexivity.
  - destruct (p <=? x), (q <=? x); lia.
  - congruence.
Qed.

Lemma psum_group l x : psum (group_pts l) x = psum l x.
Proof.
  induction l as [|[p v] t IH]; [reflexivity|]. cbn [group_pts].
  destruct (group_pts t) as [|[q w] r].
  - cbn [psum] in *. rewrite <- IH. reflexivity.
  - destruct (N.eqb_spec p q) as [->|Hne].
    + cbn [psum] in *. rewrite <- IH. destruct (q <=? x); lia.
    + cbn [psum] in *. rewrite <- IH. reflexivity.
Qed.

Lemma group_pts_pos l q : In q (map fst (group_pts l)) <-> In q (map fst l).
Proof.
  induction l as [|[p v] t IH]; [reflexivity|]. cbn [group_pts].
  destruct (group_pts t) as [|[q' w] r].
  - cbn [map fst In] in *. tauto.
  - destruct (N.eqb_spec p q') as [->|Hne]; cbn [map fst In] in *; tauto.
Qed.

Definition hdpos (l : list (N * Z)) : option N := match l with [] => None | (p, _) :: _ => Some p end.

Lemma group_pts_hd l : hdpos (group_pts l) = hdpos l.
Proof.
  destruct l as [|[p v] t]; [reflexivity|]. cbn [group_pts].
  destruct (group_pts t) as [|[q w] r]; [reflexivity|]. destruct (p =? q); reflexivity.
Qed.

Definition SInc (l : list (N * Z)) : Prop := match l with [] => True | (p, _) :: t => inc p t end.

Lemma group_pts_inc l : StronglySorted (leR pt_ltb) l -> SInc (group_pts l).
Proof.
  induction 1 as [|[p v] t Hs IH Hall]; [exact I|]. cbn [group_pts].
  pose proof (group_pts_hd t) as Hhd.
  destruct (group_pts t) as [|[q w] r]; [exact I|].
  assert (Hpq : p <= q).
  { destruct t as [|[q' w'] t']; [discriminate|]. cbn [hdpos] in Hhd. injection Hhd as <-.
    inversion Hall as [|? ? Hle _]; subst. unfold leR, pt_ltb in Hle. cbn [fst] in Hle.
    apply N.ltb_ge in Hle. exact Hle. }
  cbn [SInc] in IH. destruct (N.eqb_spec p q) as [->|Hne]; cbn [SInc inc].
  - exact IH.
  - split; [lia|exact IH].
Qed.

Lemma inc_lastpos : forall t prev, inc prev t ->
  prev <= lastpos t prev /\
  (forall q, In q (map fst t) -> prev < q /\ q <= lastpos t prev) /\
  In (lastpos t prev) (prev :: map fst t).
Proof.
  induction t as [|[pos v] t IH]; intros prev Hi; cbn [lastpos map fst].
  - split; [lia|]. split; [intros q []|left; reflexivity].
  - destruct Hi as [Hlt Hi]. destruct (IH pos Hi) as (H1 & H2 & H3).
    split; [lia|]. split.
    + intros q [<-|Hq]; [lia|]. specialize (H2 q Hq). lia.
    + right. exact H3.
Qed.

(* ---- output of the sweep: a tiling of [s,e) by maximal runs of constant value of F ---- *)
Inductive Tiling (c : bytes) (F : N -> Z) : N -> N -> list brec -> Prop :=
| T_one o s e : b_chr o = c -> b_st o = s -> b_en o = e -> s < e ->
    (forall x, s <= x -> x < e -> F x = b_val o) -> Tiling c F s e [o]
| T_cons o o' rest s e : b_chr o = c -> b_st o = s -> s < b_en o ->
    (forall x, s <= x -> x < b_en o -> F x = b_val o) ->
    b_val o <> b_val o' -> Tiling c F (b_en o) e (o' :: rest) -> Tiling c F s e (o :: o' :: rest).

Lemma tiling_head c F s e o rest : Tiling c F s e (o :: rest) ->
  b_chr o = c /\ b_st o = s /\ s < b_en o /\ F s = b_val o.
Proof.
  intros H. inversion H as [o1 s1 e1 Hc Hs He Hlt HF|o1 o' rest1 s1 e1 Hc Hs Hlt HF Hv HT]; subst.
  - repeat split; auto. apply HF; lia.
  - repeat split; auto. apply HF; lia.
Qed.

Lemma tiling_lt c F s e og : Tiling c F s e og -> s < e.
Proof. induction 1; lia. Qed.

Lemma tiling_first c F s e og : Tiling c F s e og -> exists o rest, og = o :: rest /\ b_chr o = c /\ b_st o = s.
Proof. intros H. destruct og as [|o rest]; [inversion H|]. apply tiling_head in H. exists o, rest. tauto. Qed.

Lemma tiling_last c F s e og : Tiling c F s e og -> exists a o, og = a ++ [o] /\ b_en o = e.
Proof.
  induction 1 as [o s e Hc Hs He Hlt HF|o o' rest s e Hc Hs Hlt HF Hv HT IH].
  - exists [], o. split; [reflexivity|exact He].
  - destruct IH as (a & x & E & Hx). exists (o :: a), x. split; [rewrite E; reflexivity|exact Hx].
Qed.

Lemma tiling_in c F s e og : Tiling c F s e og -> forall o, In o og ->
  b_chr o = c /\ b_st o < b_en o /\ s <= b_st o /\ b_en o <= e /\
  (forall x, b_st o <= x -> x < b_en o -> F x = b_val o).
Proof.
  induction 1 as [o s e Hc Hs He Hlt HF|o o' rest s e Hc Hs Hlt HF Hv HT IH]; intros x Hx.
  - destruct Hx as [<-|[]]. subst s e. repeat split; auto; lia.
  - destruct Hx as [<-|Hx].
    + pose proof (tiling_lt _ _ _ _ _ HT). subst s. repeat split; auto; lia.
    + destruct (IH x Hx) as (H1 & H2 & H3 & H4 & H5). repeat split; auto; lia.
Qed.

Lemma tiling_adj c F s e og : Tiling c F s e og ->
  AdjP (fun x y => b_chr x = b_chr y /\ b_en x = b_st y /\ b_val x <> b_val y) og.
Proof.
  induction 1 as [o s e Hc Hs He Hlt HF|o o' rest s e Hc Hs Hlt HF Hv HT IH].
  - apply AdjP_one.
  - apply AdjP_cons. split; [|exact IH]. apply tiling_head in HT. destruct HT as (H1 & H2 & _).
    repeat split; congruence.
Qed.

Lemma tiling_cov_at c F s e og ch p : Tiling c F s e og ->
  (cov_at og ch p <-> ch = c /\ s <= p /\ p < e).
Proof.
  induction 1 as [o s e Hc Hs He Hlt HF|o o' rest s e Hc Hs Hlt HF Hv HT IH].
  - unfold cov_at. split.
    + intros (r & [<-|[]] & H1 & H2 & H3). subst. auto.
    + intros (-> & H1 & H2). exists o. subst. split; [left; reflexivity|auto].
  - change (o :: o' :: rest) with ([o] ++ o' :: rest). rewrite cov_at_app, IH.
    pose proof (tiling_lt _ _ _ _ _ HT) as Hlt'. unfold cov_at. split.
    + intros [(r & [<-|[]] & H1 & H2 & H3)|(-> & H1 & H2)]; subst; repeat split; auto; lia.
    + intros (-> & H1 & H2). destruct (N.lt_ge_cases p (b_en o)) as [Hp|Hp].
      * left. exists o. subst. split; [left; reflexivity|auto].
      * right. auto.
Qed.

Definition mkrec (c : bytes) (x : N * N * Z) : brec := mkB c (fst (fst x)) (snd (fst x)) (snd x).

Lemma sweep_tiling c F : forall t prev acc ps pe pv,
  pe = prev -> inc prev t -> ps <= pe -> (ps < pe \/ (pv = acc /\ t <> [])) ->
  (forall x, ps <= x -> x < prev -> F x = pv) ->
  (forall x, prev <= x -> F x = (acc + psum t x)%Z) ->
  Tiling c F ps (lastpos t prev) (map (mkrec c) (bg_sweep t prev acc ps pe pv)).
Proof.
  induction t as [|[pos vs] t' IH]; intros prev acc ps pe pv -> Hinc Hle Hne HF1 HF2.
  - cbn [bg_sweep map lastpos]. destruct Hne as [Hlt|[_ Hne]]; [|congruence].
    apply T_one; try reflexivity; [exact Hlt|]. intros x H1 H2. cbn [mkrec b_val snd]. auto.
  - cbn [bg_sweep lastpos]. destruct Hinc as [Hlt Hinc].
    assert (E : (prev =? pos) = false) by (apply N.eqb_neq; lia). rewrite E. clear E.
    assert (Hmid : forall x, prev <= x -> x < pos -> F x = acc).
    { intros x H1 H2. rewrite HF2 by exact H1. cbn [psum]. destruct (N.leb_spec pos x); [lia|].
      rewrite (psum_inc_zero t' pos x Hinc) by lia. lia. }
    assert (Hnext : forall x, pos <= x -> F x = (acc + vs + psum t' x)%Z).
    { intros x H1. rewrite HF2 by lia. cbn [psum]. destruct (N.leb_spec pos x); lia. }
    destruct (Z.eqb_spec acc pv) as [Eq|Ne].
    + apply IH; auto; try lia.
      intros x H1 H2. destruct (N.lt_ge_cases x prev); [apply HF1; auto|]. rewrite Hmid; auto.
    + destruct Hne as [Hlt'|[E _]]; [|congruence]. cbn [map].
      assert (HT : Tiling c F prev (lastpos t' pos) (map (mkrec c) (bg_sweep t' pos (acc + vs)%Z prev pos acc))).
      { apply IH; auto; try lia. }
      destruct (map (mkrec c) (bg_sweep t' pos (acc + vs)%Z prev pos acc)) as [|o' rest]; [inversion HT|].
      pose proof (tiling_head _ _ _ _ _ _ HT) as (_ & _ & _ & Hv).
      rewrite Hmid in Hv by lia.
      apply T_cons; try reflexivity.
      * exact Hlt'.
      * intros x H1 H2. cbn [mkrec b_val b_en snd fst] in *. auto.
      * cbn [mkrec b_val snd]. congruence.
      * exact HT.
Qed.

(* ---- the breakpoints of one group ---- *)
Definition pts_of (r : brec) : list (N * Z) := [(b_st r, b_val r); (b_en r, Z.opp (b_val r))].
Definition grp_pts (g : list brec) : list (N * Z) := group_pts (isort pt_ltb (flat_map pts_of g)).

Lemma pt_asym x y : pt_ltb x y = true -> pt_ltb y x = false.
Proof. unfold pt_ltb. intros H. apply N.ltb_lt in H. apply N.ltb_ge. lia. Qed.
Lemma pt_le_trans x y z : leR pt_ltb x y -> leR pt_ltb y z -> leR pt_ltb x z.
Proof. unfold leR, pt_ltb. rewrite !N.ltb_ge. lia. Qed.

Lemma raw_pts_pos g q :
  In q (map fst (flat_map pts_of g)) <-> exists r, In r g /\ (q = b_st r \/ q = b_en r).
Proof.
  rewrite in_map_iff. split.
  - intros ([q' v] & <- & H). apply in_flat_map in H. destruct H as (r & Hr & Hin).
    exists r. split; [exact Hr|]. unfold pts_of in Hin.
    destruct Hin as [E|[E|[]]]; injection E as <- _; cbn [fst]; auto.
  - intros (r & Hr & [->| ->]).
    + exists (b_st r, b_val r). split; [reflexivity|]. apply in_flat_map. exists r.
      split; [exact Hr|left; reflexivity].
    + exists (b_en r, Z.opp (b_val r)). split; [reflexivity|]. apply in_flat_map. exists r.
      split; [exact Hr|right; left; reflexivity].
Qed.

Lemma grp_pts_pos g q :
  In q (map fst (grp_pts g)) <-> exists r, In r g /\ (q = b_st r \/ q = b_en r).
Proof.
  unfold grp_pts. rewrite group_pts_pos, <- raw_pts_pos.
  pose proof (Permutation_map fst (isort_perm pt_ltb (flat_map pts_of g))) as HP.
  split; intros H.
  - exact (Permutation_in _ HP H).
  - exact (Permutation_in _ (Permutation_sym HP) H).
Qed.

Lemma val_at_cons r l ch p :
  val_at (r :: l) ch p =
  if bytes_eqb (b_chr r) ch && (b_st r <=? p) && (p <? b_en r) then (b_val r + val_at l ch p)%Z else val_at l ch p.
Proof. reflexivity. Qed.

Lemma psum_raw g c x : (forall r, In r g -> b_chr r = c /\ b_st r <= b_en r) ->
  psum (flat_map pts_of g) x = val_at g c x.
Proof.
  induction g as [|r g IH]; intros H; [reflexivity|].
  cbn [flat_map pts_of app psum]. rewrite val_at_cons, IH by (intros r' Hr'; apply H; right; exact Hr').
  destruct (H r (or_introl eq_refl)) as [Hc Hle].
  apply bytes_eqb_eq' in Hc. rewrite Hc. cbn [andb].
  destruct (N.leb_spec (b_st r) x), (N.leb_spec (b_en r) x), (N.ltb_spec x (b_en r)); cbn [andb]; lia.
Qed.

Lemma grp_pts_psum g c x : (forall r, In r g -> b_chr r = c /\ b_st r <= b_en r) ->
  psum (grp_pts g) x = val_at g c x.
Proof.
  intros H. unfold grp_pts. rewrite psum_group, (psum_perm _ _ x (isort_perm pt_ltb _)).
  apply psum_raw. exact H.
Qed.

Lemma grp_pts_shape g : Chained g -> sorted_recs g -> (forall r, In r g -> b_st r < b_en r) ->
  exists v0 t, grp_pts g = (gst g, v0) :: t /\ inc (gst g) t /\ t <> [] /\ lastpos t (gst g) = gmax g.
Proof.
  intros Hc Hs Hne.
  assert (Hinc : SInc (grp_pts g)).
  { unfold grp_pts. apply group_pts_inc. apply isort_sorted; [exact pt_asym|exact pt_le_trans]. }
  pose proof (grp_pts_pos g) as Hpos.
  destruct g as [|h tl]; [destruct Hc; congruence|].
  assert (Hh : In h (h :: tl)) by (left; reflexivity).
  assert (Hgst : gst (h :: tl) = b_st h) by reflexivity.
  destruct (grp_pts (h :: tl)) as [|[p0 v0] t].
  - exfalso. apply (Hpos (b_st h)). exists h. auto.
  - cbn [SInc] in Hinc. cbn [map fst] in Hpos.
    destruct (inc_lastpos t p0 Hinc) as (HL1 & HL2 & HL3).
    assert (Hp0 : p0 = b_st h).
    { assert (b_st h <= p0).
      { destruct (proj1 (Hpos p0) (or_introl eq_refl)) as (r & Hr & Hq).
        pose proof (group_st_ge _ r Hc Hs Hr). pose proof (Hne r Hr). lia. }
      assert (p0 <= b_st h).
      { destruct (proj2 (Hpos (b_st h))) as [E|Hin]; [exists h; auto|lia|].
        apply HL2 in Hin. lia. }
      lia. }
    subst p0. exists v0, t. rewrite Hgst. split; [reflexivity|]. split; [exact Hinc|]. split.
    + intros ->. destruct (proj2 (Hpos (b_en h))) as [E|[]]; [exists h; auto|].
      specialize (Hne h Hh). lia.
    + apply N.le_antisymm.
      * destruct (proj1 (Hpos _) HL3) as (r & Hr & Hq). pose proof (gmax_in r _ Hr).
        pose proof (Hne r Hr). lia.
      * apply gmax_lub. intros r Hr.
        destruct (proj2 (Hpos (b_en r))) as [E|Hin]; [exists r; auto|lia|].
        apply HL2 in Hin. lia.
Qed.

Lemma bg_group_spec g : Chained g -> sorted_recs g -> (forall r, In r g -> b_st r < b_en r) ->
  exists og, bg_group g = Ok og /\ Tiling (gchr g) (val_at g (gchr g)) (gst g) (gmax g) og.
Proof.
  intros Hc Hs Hne.
  destruct (grp_pts_shape g Hc Hs Hne) as (v0 & t & E & Hinc & Htne & Hlast).
  assert (HF : forall x, psum (grp_pts g) x = val_at g (gchr g) x).
  { intros x. apply grp_pts_psum. intros r Hr. split; [apply group_chr; assumption|].
    specialize (Hne r Hr). lia. }
  destruct g as [|r0 tl]; [destruct Hc; congruence|].
  unfold bg_group. change (group_pts (isort pt_ltb (flat_map (fun r => [(b_st r, b_val r); (b_en r, Z.opp (b_val r))]) (r0 :: tl)))) with (grp_pts (r0 :: tl)).
  rewrite E. eexists. split; [reflexivity|]. rewrite <- Hlast.
  change (map (fun x => mkB (b_chr r0) (fst (fst x)) (snd (fst x)) (snd x))) with (map (mkrec (b_chr r0))).
  change (gchr (r0 :: tl)) with (b_chr r0).
  apply sweep_tiling; auto.
  - lia.
  - intros x H1 H2. lia.
  - intros x Hx. change (b_chr r0) with (gchr (r0 :: tl)). rewrite <- HF, E. cbn [psum].
    destruct (N.leb_spec (gst (r0 :: tl)) x); [reflexivity|lia].
Qed.

(* ---- values and coverage across groups ---- *)
Lemma val_at_app l1 l2 ch p : val_at (l1 ++ l2) ch p = (val_at l1 ch p + val_at l2 ch p)%Z.
Proof.
  induction l1 as [|r l1 IH]; cbn [app]; [reflexivity|]. rewrite !val_at_cons, IH.
  destruct (bytes_eqb (b_chr r) ch && (b_st r <=? p) && (p <? b_en r)); lia.
Qed.

Lemma val_at_nocov l ch p : ~ cov_at l ch p -> val_at l ch p = 0%Z.
Proof.
  induction l as [|r l IH]; intros H; [reflexivity|]. rewrite val_at_cons.
  destruct (bytes_eqb (b_chr r) ch && (b_st r <=? p) && (p <? b_en r)) eqn:E.
  - exfalso. apply H. apply andb_true_iff in E. destruct E as [E E3].
    apply andb_true_iff in E. destruct E as [E1 E2].
    apply bytes_eqb_eq' in E1. apply N.leb_le in E2. apply N.ltb_lt in E3.
    exists r. split; [left; reflexivity|auto].
  - apply IH. intros (r' & Hr' & Hc). apply H. exists r'. split; [right; exact Hr'|exact Hc].
Qed.

Lemma sorted_head_chr b l r : sorted_recs (b :: l) -> In r (b :: l) -> bytes_cmp (b_chr b) (b_chr r) <> Gt.
Proof.
  intros Hs [<-|Hr]; [rewrite bytes_cmp_refl; discriminate|].
  apply StronglySorted_inv in Hs. destruct Hs as [_ Hs]. rewrite Forall_forall in Hs.
  apply bcmp_chr. auto.
Qed.

(* a position covered by one group is not covered by any later group *)
Lemma sep_disjoint g R ch p : Chained g -> Forall Chained R -> AdjSep (g :: R) ->
  sorted_recs (g ++ concat R) -> cov_at g ch p -> cov_at (concat R) ch p -> False.
Proof.
  intros Hc Hf Hsep Hs Hg HR.
  destruct R as [|g' R']; [exact (cov_at_nil _ _ HR)|].
  inversion Hf as [|? ? Hc' Hf']; subst. apply AdjSep_cons in Hsep. destruct Hsep as [Hsep _].
  cbn [concat] in Hs.
  pose proof (sep_order g g' (concat R') Hc Hc' Hsep Hs) as Hord.
  apply ss_app_inv in Hs. destruct Hs as (Hsg & Hs' & _).
  apply (cov_group g ch p Hc Hsg) in Hg. destruct Hg as (Hch & Hg1 & Hg2).
  destruct HR as (r' & Hr' & Hr'c & Hr'1 & Hr'2). cbn [concat] in Hr'.
  destruct g' as [|b tb]; [destruct Hc'; congruence|].
  unfold gchr, gst in Hord. cbn [hd] in Hord. fold (gchr g) in Hord. cbn [app] in Hs', Hr'.
  pose proof (sorted_head_chr b _ r' Hs' Hr') as Hbc. rewrite Hr'c in Hbc.
  destruct Hord as [Hlt|[Heq Hlt]].
  - rewrite <- Hch in Hlt. rewrite (bytes_cmp_antisym ch (b_chr b)), Hlt in Hbc. cbn [CompOpp] in Hbc. congruence.
  - assert (b_st b <= b_st r') by (apply (sorted_st_ge b _ r' Hs' Hr'); congruence). lia.
Qed.

Lemma groups_val gs G1 g G2 ch p : Forall Chained gs -> AdjSep gs -> sorted_recs (concat gs) ->
  gs = G1 ++ g :: G2 -> cov_at g ch p -> val_at (concat gs) ch p = val_at g ch p.
Proof.
  intros Hf Hsep Hs -> Hg.
  rewrite concat_app. cbn [concat]. rewrite !val_at_app.
  rewrite (val_at_nocov (concat G1)), (val_at_nocov (concat G2)); [lia| |].
  - intros HR. apply Forall_app in Hf. destruct Hf as [_ Hf]. inversion Hf as [|? ? Hc Hf']; subst.
    apply AdjSep_suffix in Hsep. rewrite concat_app in Hs. cbn [concat] in Hs.
    apply ss_app_inv in Hs. destruct Hs as (_ & Hs & _).
    exact (sep_disjoint g G2 ch p Hc Hf' Hsep Hs Hg HR).
  - intros H1. apply cov_at_concat in H1. destruct H1 as (g1 & Hg1 & Hcov1).
    apply in_split in Hg1. destruct Hg1 as (A & B & ->).
    rewrite <- app_assoc in Hf, Hsep, Hs. cbn [app] in Hf, Hsep, Hs.
    apply Forall_app in Hf. destruct Hf as [_ Hf]. inversion Hf as [|? ? Hc Hf']; subst.
    apply AdjSep_suffix in Hsep. rewrite concat_app in Hs. cbn [concat] in Hs.
    apply ss_app_inv in Hs. destruct Hs as (_ & Hs & _).
    apply (sep_disjoint g1 (B ++ g :: G2) ch p Hc Hf' Hsep Hs Hcov1).
    apply cov_at_concat. exists g. split; [apply in_or_app; right; left; reflexivity|exact Hg].
Qed.

(* ---- assembling the per-group outputs ---- *)
Lemma mapM_forall2 {A B} (f : A -> res B) (Q : A -> B -> Prop) l :
  (forall x, In x l -> exists y, f x = Ok y /\ Q x y) ->
  exists ys, mapM f l = Ok ys /\ Forall2 Q l ys.
Proof.
  induction l as [|x l IH]; intros H.
  - exists []. split; [reflexivity|constructor].
  - destruct (H x (or_introl eq_refl)) as (y & Hy & HQ).
    destruct IH as (ys & Hys & HF); [intros x' Hx'; apply H; right; exact Hx'|].
    exists (y :: ys). cbn [mapM]. rewrite Hy, Hys. split; [reflexivity|constructor; assumption].
Qed.

Lemma Forall2_in_l {A B} (Q : A -> B -> Prop) l1 l2 x :
  Forall2 Q l1 l2 -> In x l1 -> exists y, In y l2 /\ Q x y.
Proof.
  induction 1 as [|a b l1 l2 Hab _ IH]; intros []; [subst; exists b; split; [left; reflexivity|exact Hab]|].
  destruct (IH H) as (y & Hy & HQ). exists y. split; [right; exact Hy|exact HQ].
Qed.

Lemma Forall2_in_r_split {A B} (Q : A -> B -> Prop) l1 l2 y :
  Forall2 Q l1 l2 -> In y l2 -> exists a x b, l1 = a ++ x :: b /\ Q x y.
Proof.
  induction 1 as [|a b l1 l2 Hab _ IH]; intros [].
  - subst. exists [], a, l1. split; [reflexivity|exact Hab].
  - destruct (IH H) as (a' & x & b' & -> & HQ). exists (a :: a'), x, b'. split; [reflexivity|exact HQ].
Qed.

Definition GT (g og : list brec) : Prop := Tiling (gchr g) (val_at g (gchr g)) (gst g) (gmax g) og.

Definition rle_adj (x y : brec) : Prop :=
  (bytes_cmp (b_chr x) (b_chr y) = Lt \/ (b_chr x = b_chr y /\ b_en x <= b_st y)) /\
  (b_chr x = b_chr y -> b_en x = b_st y -> b_val x <> b_val y).

Lemma global_adj gs outs : Forall2 GT gs outs -> Forall Chained gs -> AdjSep gs -> sorted_recs (concat gs) ->
  AdjP rle_adj (concat outs).
Proof.
  induction 1 as [|g og gs outs Hgt HF2 IH]; intros Hf Hsep Hs; [apply AdjP_nil|].
  inversion Hf as [|? ? Hc Hf']; subst. cbn [concat] in *.
  apply AdjP_app.
  - apply tiling_adj in Hgt. revert Hgt. apply AdjP_impl. intros x y (H1 & H2 & H3).
    split; [right; split; [exact H1|lia]|auto].
  - apply IH; [exact Hf'|exact (AdjSep_tail _ _ Hsep)|]. apply ss_app_inv in Hs. tauto.
  - intros a x y b E1 E2.
    destruct HF2 as [|g' og' gs' outs' Hgt' HF2']; [discriminate|].
    inversion Hf' as [|? ? Hc' _]; subst. apply AdjSep_cons in Hsep. destruct Hsep as [Hsep _].
    cbn [concat] in Hs, E2.
    pose proof (sep_order g g' (concat gs') Hc Hc' Hsep Hs) as Hord.
    destruct (tiling_first _ _ _ _ _ Hgt') as (o & rest & -> & Hoc & Hos).
    cbn [app] in E2. injection E2 as <- _.
    destruct (tiling_last _ _ _ _ _ Hgt) as (a' & o' & E' & Hoe).
    apply app_inj_tail in E'. destruct E' as [_ <-].
    assert (Hxc : b_chr x = gchr g).
    { apply (tiling_in _ _ _ _ _ Hgt). apply in_or_app. right; left; reflexivity. }
    unfold rle_adj. rewrite Hxc, Hoc, Hoe, Hos. destruct Hord as [Hlt|[Heq Hlt]]; split; auto.
    + intros E. rewrite E, bytes_cmp_refl in Hlt. discriminate.
    + right. split; [exact Heq|lia].
    + intros _ E. lia.
Qed.

Lemma bgrle_of_groups gs outs : Forall2 GT gs outs -> Forall Chained gs -> AdjSep gs ->
  sorted_recs (concat gs) -> BgRLE (concat gs) (concat outs).
Proof.
  intros HF2 Hf Hsep Hs.
  assert (Hgood : forall g, In g gs -> Chained g /\ sorted_recs g).
  { intros g Hg. split; [rewrite Forall_forall in Hf; auto|exact (ss_concat_in _ _ _ Hs Hg)]. }
  pose proof (global_adj gs outs HF2 Hf Hsep Hs) as Hadj.
  split; [|split; [|split; [|split]]].
  - intros o Ho. apply in_concat in Ho. destruct Ho as (og & Hog & Ho).
    destruct (Forall2_in_r_split _ _ _ _ HF2 Hog) as (A & g & B & _ & Hgt).
    apply (tiling_in _ _ _ _ _ Hgt o Ho).
  - intros pre x y post E. exact (proj1 (Hadj pre x y post E)).
  - intros ch p. rewrite !cov_at_concat. split.
    + intros (g & Hg & Hcov). destruct (Forall2_in_l _ _ _ _ HF2 Hg) as (og & Hog & Hgt).
      exists og. split; [exact Hog|]. apply (tiling_cov_at _ _ _ _ _ ch p Hgt).
      destruct (Hgood g Hg) as [Hc Hsg]. apply (cov_group g ch p Hc Hsg). exact Hcov.
    + intros (og & Hog & Hcov). destruct (Forall2_in_r_split _ _ _ _ HF2 Hog) as (A & g & B & -> & Hgt).
      assert (Hg : In g (A ++ g :: B)) by (apply in_or_app; right; left; reflexivity).
      exists g. split; [exact Hg|]. destruct (Hgood g Hg) as [Hc Hsg].
      apply (cov_group g ch p Hc Hsg). apply (tiling_cov_at _ _ _ _ _ ch p Hgt). exact Hcov.
  - intros o ch p Ho Hch H1 H2. apply in_concat in Ho. destruct Ho as (og & Hog & Ho).
    destruct (Forall2_in_r_split _ _ _ _ HF2 Hog) as (A & g & B & E & Hgt).
    assert (Hg : In g gs) by (rewrite E; apply in_or_app; right; left; reflexivity).
    destruct (Hgood g Hg) as [Hc Hsg].
    destruct (tiling_in _ _ _ _ _ Hgt o Ho) as (T1 & T2 & T3 & T4 & T5).
    rewrite (groups_val gs A g B ch p Hf Hsep Hs E).
    + rewrite <- Hch, T1. symmetry. apply T5; assumption.
    + apply (cov_group g ch p Hc Hsg). split; [congruence|lia].
  - intros pre x y post E. exact (proj2 (Hadj pre x y post E)).
Qed.

Theorem bedgraph_spec : forall l, sorted_recs l -> (forall r, In r l -> b_st r < b_en r) ->
    exists out, merge_sorted_bedgraph l = Ok out /\ BgRLE l out.
Proof.
  intros l Hs Hne. destruct (merge_groups_spec l Hs) as (gs & Hm & Hc & Hf & Hsep). subst l.
  destruct (mapM_forall2 bg_group GT gs) as (outs & Houts & HF2).
  { intros g Hg. apply bg_group_spec.
    - rewrite Forall_forall in Hf. auto.
    - exact (ss_concat_in _ _ _ Hs Hg).
    - intros r Hr. apply Hne. apply in_concat. eauto. }
  exists (concat outs). split.
  - unfold merge_sorted_bedgraph. rewrite Hm. cbn [rbind]. rewrite Houts. reflexivity.
  - apply bgrle_of_groups; assumption.
Qed.

(* ---- uniqueness of the run-length encoding ---- *)
Definition covers (o : brec) (ch : bytes) (p : N) : Prop := b_chr o = ch /\ b_st o <= p /\ p < b_en o.
Definition rlt (x y : brec) : Prop :=
  bytes_cmp (b_chr x) (b_chr y) = Lt \/ (b_chr x = b_chr y /\ b_en x <= b_st y).
Definition rmax (x y : brec) : Prop := b_chr x = b_chr y -> b_en x = b_st y -> b_val x <> b_val y.
Definition WF (o : list brec) : Prop :=
  (forall x, In x o -> b_st x < b_en x) /\ AdjP rlt o /\ AdjP rmax o.
Definition tup (r : brec) := (b_chr r, b_st r, b_en r, b_val r).

Lemma WF_tail x t : WF (x :: t) -> WF t.
Proof.
  intros (H1 & H2 & H3). split; [intros y Hy; apply H1; right; exact Hy|].
  split; eapply AdjP_tail; eauto.
Qed.

Lemma rlt_trans x y z : b_st y < b_en y -> rlt x y -> rlt y z -> rlt x z.
Proof.
  unfold rlt. intros Hy [H1|[E1 H1]] [H2|[E2 H2]].
  - left. eapply bytes_cmp_lt_trans; eauto.
  - left. rewrite <- E2. exact H1.
  - left. rewrite E1. exact H2.
  - right. split; [congruence|lia].
Qed.

Lemma head_rlt : forall t x, (forall y, In y (x :: t) -> b_st y < b_en y) -> AdjP rlt (x :: t) ->
  forall y, In y t -> rlt x y.
Proof.
  induction t as [|y' t IH]; intros x Hne Hadj y Hy; [destruct Hy|].
  apply AdjP_cons in Hadj. destruct Hadj as [Hxy' Hadj].
  destruct Hy as [<-|Hy]; [exact Hxy'|].
  apply (rlt_trans x y' y); [apply Hne; right; left; reflexivity|exact Hxy'|].
  apply IH; [intros z Hz; apply Hne; right; exact Hz|exact Hadj|exact Hy].
Qed.

Lemma head_min x t ch p : WF (x :: t) -> cov_at (x :: t) ch p ->
  bytes_cmp (b_chr x) ch = Lt \/ (b_chr x = ch /\ b_st x <= p).
Proof.
  intros (Hne & Hadj & _) (r & Hr & Hc & H1 & H2). destruct Hr as [<-|Hr]; [right; auto|].
  destruct (head_rlt t x Hne Hadj r Hr) as [H|[E H]].
  - left. rewrite <- Hc. exact H.
  - right. split; [congruence|]. specialize (Hne x (or_introl eq_refl)). lia.
Qed.

Lemma tail_cov x t ch p : WF (x :: t) -> (cov_at t ch p <-> cov_at (x :: t) ch p /\ ~ covers x ch p).
Proof.
  intros (Hne & Hadj & _). split.
  - intros (r & Hr & Hc & H1 & H2). split; [exists r; split; [right; exact Hr|auto]|].
    intros (Hxc & Hx1 & Hx2). destruct (head_rlt t x Hne Hadj r Hr) as [H|[E H]].
    + rewrite Hxc, Hc, bytes_cmp_refl in H. discriminate.
    + lia.
  - intros [(r & [<-|Hr] & Hc) Hn]; [exfalso; apply Hn; exact Hc|]. exists r. split; assumption.
Qed.

Lemma chr_st_eq c1 c2 (s1 s2 : N) :
  bytes_cmp c2 c1 = Lt \/ (c2 = c1 /\ s2 <= s1) ->
  bytes_cmp c1 c2 = Lt \/ (c1 = c2 /\ s1 <= s2) -> c1 = c2 /\ s1 = s2.
Proof.
  intros [H1|[E1 H1]] [H2|[E2 H2]].
  - exfalso. exact (bytes_cmp_lt_asym _ _ H1 H2).
  - exfalso. rewrite E2 in H1. exact (bytes_cmp_lt_irrefl _ H1).
  - exfalso. rewrite E1 in H2. exact (bytes_cmp_lt_irrefl _ H2).
  - split; [exact E2|lia].
Qed.

Lemma end_not_lt x1 t1 x2 t2 : WF (x1 :: t1) -> WF (x2 :: t2) ->
  (forall ch p, cov_at (x2 :: t2) ch p -> cov_at (x1 :: t1) ch p) ->
  (forall x y ch p, In x (x1 :: t1) -> In y (x2 :: t2) -> covers x ch p -> covers y ch p -> b_val x = b_val y) ->
  b_chr x1 = b_chr x2 -> b_st x1 = b_st x2 -> b_en x1 < b_en x2 -> False.
Proof.
  intros W1 W2 Hcov VA Ec Es Hlt.
  pose proof W1 as (Hne1 & Hadj1 & Hmax1).
  pose proof (Hne1 x1 (or_introl eq_refl)) as Hx1.
  assert (Hc2 : covers x2 (b_chr x1) (b_en x1)) by (unfold covers; split; [auto|lia]).
  destruct (Hcov (b_chr x1) (b_en x1)) as (r & Hr & Hrc).
  { exists x2. split; [left; reflexivity|exact Hc2]. }
  destruct Hr as [<-|Hr]; [lia|].
  destruct t1 as [|y' t1']; [destruct Hr|].
  pose proof (head_min y' t1' (b_chr x1) (b_en x1) (WF_tail _ _ W1)) as Hmin.
  destruct (chr_st_eq (b_chr x1) (b_chr y') (b_en x1) (b_st y')) as [Ec' Es'].
  - apply Hmin. exists r. split; assumption.
  - apply AdjP_cons in Hadj1. exact (proj1 Hadj1).
  - apply AdjP_cons in Hmax1. destruct Hmax1 as [Hm _]. apply (Hm Ec' Es').
    pose proof (Hne1 y' (or_intror (or_introl eq_refl))) as Hy'.
    rewrite (VA x1 x2 (b_chr x1) (b_st x1)), (VA y' x2 (b_chr x1) (b_en x1)); try reflexivity.
    + right; left; reflexivity.
    + left; reflexivity.
    + unfold covers. split; [auto|lia].
    + exact Hc2.
    + left; reflexivity.
    + left; reflexivity.
    + unfold covers. split; [auto|lia].
    + unfold covers. split; [auto|lia].
Qed.

Lemma rle_unique : forall o1 o2, WF o1 -> WF o2 ->
  (forall ch p, cov_at o1 ch p <-> cov_at o2 ch p) ->
  (forall x y ch p, In x o1 -> In y o2 -> covers x ch p -> covers y ch p -> b_val x = b_val y) ->
  map tup o1 = map tup o2.
Proof.
  induction o1 as [|x1 t1 IH]; intros o2 W1 W2 Hcov VA.
  - destruct o2 as [|x2 t2]; [reflexivity|]. exfalso.
    destruct W2 as (Hne2 & _). pose proof (Hne2 x2 (or_introl eq_refl)).
    apply (cov_at_nil (b_chr x2) (b_st x2)). apply Hcov. exists x2. split; [left; reflexivity|]. split; [auto|lia].
  - destruct o2 as [|x2 t2].
    + exfalso. destruct W1 as (Hne1 & _). pose proof (Hne1 x1 (or_introl eq_refl)).
      apply (cov_at_nil (b_chr x1) (b_st x1)). apply Hcov. exists x1. split; [left; reflexivity|]. split; [auto|lia].
    + pose proof W1 as (Hne1 & _). pose proof W2 as (Hne2 & _).
      pose proof (Hne1 x1 (or_introl eq_refl)) as Hx1. pose proof (Hne2 x2 (or_introl eq_refl)) as Hx2.
      destruct (chr_st_eq (b_chr x1) (b_chr x2) (b_st x1) (b_st x2)) as [Ec Es].
      { apply (head_min x2 t2 _ _ W2). apply Hcov. exists x1. split; [left; reflexivity|]. split; [auto|lia]. }
      { apply (head_min x1 t1 _ _ W1). apply Hcov. exists x2. split; [left; reflexivity|]. split; [auto|lia]. }
      assert (Ev : b_val x1 = b_val x2).
      { apply (VA x1 x2 (b_chr x1) (b_st x1)); try (left; reflexivity); unfold covers; (split; [auto|lia]). }
      assert (Ee : b_en x1 = b_en x2).
      { destruct (N.lt_trichotomy (b_en x1) (b_en x2)) as [Hlt|[E|Hgt]]; [exfalso|exact E|exfalso].
        - apply (end_not_lt x1 t1 x2 t2 W1 W2); auto. intros ch p. apply Hcov.
        - apply (end_not_lt x2 t2 x1 t1 W2 W1); auto.
          + intros ch p. apply Hcov.
          + intros x y ch p Hx Hy Cx Cy. symmetry. exact (VA y x ch p Hy Hx Cy Cx). }
      cbn [map]. f_equal; [unfold tup; congruence|].
      apply IH; [exact (WF_tail _ _ W1)|exact (WF_tail _ _ W2)| |].
      * intros ch p. rewrite (tail_cov x1 t1 ch p W1), (tail_cov x2 t2 ch p W2), Hcov.
        unfold covers. rewrite Ec, Es, Ee. reflexivity.
      * intros x y ch p Hx Hy. apply VA; right; assumption.
Qed.

Lemma bgrle_wf l o : BgRLE l o -> WF o.
Proof. intros (H1 & H2 & _ & _ & H5). split; [exact H1|]. split; [exact H2|exact H5]. Qed.

Theorem bgrle_unique : forall l o1 o2, BgRLE l o1 -> BgRLE l o2 ->
    map (fun r => (b_chr r, b_st r, b_en r, b_val r)) o1 = map (fun r => (b_chr r, b_st r, b_en r, b_val r)) o2.
Proof.
  intros l o1 o2 B1 B2. apply rle_unique; [exact (bgrle_wf _ _ B1)|exact (bgrle_wf _ _ B2)| |].
  - intros ch p. destruct B1 as (_ & _ & C1 & _). destruct B2 as (_ & _ & C2 & _).
    rewrite <- C1, <- C2. reflexivity.
  - intros x y ch p Hx Hy (Cx & Cx1 & Cx2) (Cy & Cy1 & Cy2).
    destruct B1 as (_ & _ & _ & V1 & _). destruct B2 as (_ & _ & _ & V2 & _).
    rewrite (V1 x ch p Hx Cx Cx1 Cx2), (V2 y ch p Hy Cy Cy1 Cy2). reflexivity.
Qed.

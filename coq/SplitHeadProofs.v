(* SplitHeadProofs.v — the "first k pieces" functions are prefixes of the full tilings. *)
From BedV Require Import Base AlgebraModel.
From Coq Require Import Lia.

Lemma firstn_seq : forall k a n, firstn k (seq a n) = seq a (Nat.min k n).
Proof.
  induction k as [|k IH]; intros a n; [reflexivity|].
  destruct n as [|n]; [reflexivity|]. cbn [seq firstn Nat.min]. f_equal. apply IH.
Qed.

Lemma firstn_nrange : forall k n, firstn (N.to_nat k) (nrange n) = nrange (N.min k n).
Proof.
  intros k n. unfold nrange. rewrite firstn_map, firstn_seq. f_equal. f_equal. lia.
Qed.

Theorem split_head_prefix : forall s e b k l, split_by_len s e b = Ok l ->
  split_head s e b k = Ok (firstn (N.to_nat k) l).
Proof.
  intros s e b k l. unfold split_by_len, split_head. destruct (b =? 0); [discriminate|].
  intros H. injection H as <-. rewrite firstn_map, firstn_nrange. reflexivity.
Qed.

Theorem rsplit_head_prefix : forall W s e b k l, rsplit_by_len W s e b = Ok l ->
  rsplit_head W s e b k = Ok (firstn (N.to_nat k) l).
Proof.
  intros W s e b k l. unfold rsplit_by_len, rsplit_head. destruct (b =? 0); [discriminate|].
  destruct (W <=? s); [discriminate|].
  intros H. injection H as <-. rewrite firstn_map, firstn_nrange. reflexivity.
Qed.

(* and they panic exactly when the full functions do *)
Theorem split_head_panics : forall s e b k, split_head s e b k = Panic <-> split_by_len s e b = Panic.
Proof. intros s e b k. unfold split_head, split_by_len. destruct (b =? 0); split; intros H; try reflexivity; discriminate. Qed.
Theorem rsplit_head_panics : forall W s e b k, rsplit_head W s e b k = Panic <-> rsplit_by_len W s e b = Panic.
Proof.
  intros W s e b k. unfold rsplit_head, rsplit_by_len. destruct (b =? 0); [split; reflexivity|].
  destruct (W <=? s); split; intros H; try reflexivity; discriminate.
Qed.

(* TextModel.v — Gallina transliteration of the text codecs of src/bed.rs, src/bed/score.rs,
   src/bed/strand.rs (Display / FromStr of GenomicRange, BED<N>, NarrowPeak, BroadPeak, BedGraph<V>)
   and of the line reader / writer of src/bed/io.rs.
   Strings are byte lists (all delimiters are ASCII; see DESIGN.md section 3).  f64 values are their
   IEEE-754 bit patterns; f64::fmt / f64::from_str are NOT modelled: they are the function parameters
   [show_f] / [parse_f] (hypotheses about them appear as premises of the theorems). *)
From BedV Require Import Base AlgebraModel.

Definition TAB : N := 9.   Definition LF : N := 10.   Definition CR : N := 13.
Definition COLON : N := 58. Definition DASH : N := 45. Definition DOT : N := 46. Definition PLUS : N := 43.

(* ---------- decimal integers ---------- *)
Fixpoint digits_fuel (fuel : nat) (n : N) (acc : bytes) : bytes :=
  match fuel with
  | O => acc
  | S f => let acc' := (48 + n mod 10) :: acc in
           if n / 10 =? 0 then acc' else digits_fuel f (n / 10) acc'
  end.
(* u64 / u16 Display *)
Definition show_N (n : N) : bytes := digits_fuel (S (N.size_nat n)) n [].
(* i64 Display *)
Definition show_Z (z : Z) : bytes :=
  match z with Zneg p => DASH :: show_N (Npos p) | _ => show_N (Z.to_N z) end.

Definition is_digit (b : N) : bool := (48 <=? b) && (b <=? 57).
(* value of a non-empty all-digit string; None if a non-digit occurs *)
Fixpoint digits_val (s : bytes) (acc : N) : option N :=
  match s with
  | [] => Some acc
  | b :: t => if is_digit b then digits_val t (acc * 10 + (b - 48)) else None
  end.
(* unsigned decimal: optional '+', at least one digit, leading zeros allowed, value <= max
   (lexical::parse::<u64|u32>, str::parse::<u64>) *)
Definition parse_uint (max : N) (s : bytes) : option N :=
  let body := match s with b :: t => if b =? PLUS then t else s | [] => s end in
  match body with
  | [] => None
  | _ => match digits_val body 0 with
         | Some v => if v <=? max then Some v else None
         | None => None
         end
  end.
(* signed decimal (str::parse::<i64>): optional '+' or '-', at least one digit, range check *)
Definition parse_int (s : bytes) : option Z :=
  match s with
  | [] => None
  | b :: t =>
    if b =? DASH then
      match t with [] => None | _ =>
        match digits_val t 0 with Some v => if v <=? 9223372036854775808 then Some (Z.opp (Z.of_N v)) else None | None => None end end
    else
      match parse_uint 9223372036854775807 s with Some v => Some (Z.of_N v) | None => None end
  end.

(* ---------- splitting ---------- *)
(* str::split(delimiter set): always at least one field *)
Fixpoint split_on (is_delim : N -> bool) (s : bytes) : list bytes :=
  match s with
  | [] => [[]]
  | b :: t =>
    if is_delim b then [] :: split_on is_delim t
    else match split_on is_delim t with
         | f :: r => (b :: f) :: r
         | [] => [[b]]                       (* unreachable: split_on never returns [] *)
         end
  end.
Definition is_tab (b : N) : bool := b =? TAB.
Definition is_gr_delim (b : N) : bool := (b =? TAB) || (b =? COLON) || (b =? DASH).

(* ---------- records ---------- *)
Inductive strand := Fwd | Rev.
Record bed := mkBed { bd_chr : bytes; bd_st : N; bd_en : N;
                      bd_name : option bytes; bd_score : option N; bd_strand : option strand }.
Record npeak := mkNP { np_bed : bed; np_signal : N; np_p : option N; np_q : option N; np_peak : N }.
Record bpeak := mkBP { bp_bed : bed; bp_signal : N; bp_p : option N; bp_q : option N }.
Inductive bgval := VInt (z : Z) | VFloat (bits : N).
Record bgraph := mkBG { bg_chr : bytes; bg_st : N; bg_en : N; bg_val : bgval }.

(* f64: p < 0.0 on the bit pattern (sign set, not -0.0, not NaN) *)
Definition F_NEG_ZERO : N := 9223372036854775808.            (* 0x8000_0000_0000_0000 *)
Definition F_NEG_INF : N := 18442240474082181120.            (* 0xFFF0_0000_0000_0000 *)
Definition F_NEG_ONE : N := 13830554455654793216.            (* 0xBFF0_0000_0000_0000 = -1.0 *)
Definition f64_ltz (b : N) : bool := (F_NEG_ZERO <? b) && (b <=? F_NEG_INF).
Definition f64_is_nan (b : N) : bool :=
  let m := b mod F_NEG_ZERO in 9218868437227405312 <? m.      (* exponent all ones, mantissa <> 0 *)

(* ---------- Display ---------- *)
Definition dot : bytes := [DOT].
Definition show_strand (s : strand) : bytes := match s with Fwd => [PLUS] | Rev => [DASH] end.
Definition opt_or_dot {A} (f : A -> bytes) (o : option A) : bytes := match o with Some x => f x | None => dot end.
Definition show3 (c : bytes) (s e : N) : bytes := c ++ TAB :: show_N s ++ TAB :: show_N e.
Definition show_grange (c : bytes) (s e : N) : bytes := show3 c s e.
Definition pretty_show (c : bytes) (s e : N) : bytes := c ++ COLON :: show_N s ++ DASH :: show_N e.
(* impl Display for BED<N> *)
Definition show_bed (n : N) (r : bed) : bytes :=
  show3 (bd_chr r) (bd_st r) (bd_en r) ++
  (if 3 <? n then
     TAB :: opt_or_dot (fun x => x) (bd_name r) ++
     (if 4 <? n then
        TAB :: opt_or_dot show_N (bd_score r) ++
        (if 5 <? n then TAB :: opt_or_dot show_strand (bd_strand r) else [])
      else [])
   else []).
Definition show_bed6 (r : bed) : bytes :=
  show3 (bd_chr r) (bd_st r) (bd_en r) ++ TAB :: opt_or_dot (fun x => x) (bd_name r) ++
  TAB :: opt_or_dot show_N (bd_score r) ++ TAB :: opt_or_dot show_strand (bd_strand r).
Definition show_pq (show_f : N -> bytes) (o : option N) : bytes :=
  show_f (match o with Some b => b | None => F_NEG_ONE end).
Definition show_npeak (show_f : N -> bytes) (r : npeak) : bytes :=
  show_bed6 (np_bed r) ++ TAB :: show_f (np_signal r) ++ TAB :: show_pq show_f (np_p r) ++
  TAB :: show_pq show_f (np_q r) ++ TAB :: show_N (np_peak r).
Definition show_bpeak (show_f : N -> bytes) (r : bpeak) : bytes :=
  show_bed6 (bp_bed r) ++ TAB :: show_f (bp_signal r) ++ TAB :: show_pq show_f (bp_p r) ++
  TAB :: show_pq show_f (bp_q r).
Definition show_bgval (show_f : N -> bytes) (v : bgval) : bytes :=
  match v with VInt z => show_Z z | VFloat b => show_f b end.
Definition show_bgraph (show_f : N -> bytes) (r : bgraph) : bytes :=
  show3 (bg_chr r) (bg_st r) (bg_en r) ++ TAB :: show_bgval show_f (bg_val r).

(* impl Display for OptionalFields: fields joined by TAB *)
Fixpoint show_optional_fields (fs : list bytes) : bytes :=
  match fs with [] => [] | [f] => f | f :: t => f ++ TAB :: show_optional_fields t end.
(* impl FromStr for Strand: "" -> Empty, "+" / "-", anything else Invalid *)
Inductive strand_res := SOk (s : strand) | SEmpty | SInvalid.
Definition strand_from_str (s : bytes) : strand_res :=
  match s with
  | [] => SEmpty
  | [b] => if b =? PLUS then SOk Fwd else if b =? DASH then SOk Rev else SInvalid
  | _ => SInvalid
  end.

(* ---------- FromStr ---------- *)
Inductive perr := MissingChrom | MissingStart | InvalidStart | MissingEnd | InvalidEnd | MissingName
                | MissingScore | InvalidScore | MissingStrand | InvalidStrand | MissingField | InvalidField.
Inductive pres (A : Type) := POk (a : A) | PErr (e : perr) | PPanic.
Arguments POk {A} a. Arguments PErr {A} e. Arguments PPanic {A}.
Definition pbind {A B} (r : pres A) (f : A -> pres B) : pres B :=
  match r with POk a => f a | PErr e => PErr e | PPanic => PPanic end.
Notation "'pdo' x <- r ; k" := (pbind r (fun x => k)) (at level 200, x pattern, r at level 100, k at level 200).

Definition U64MAX : N := 18446744073709551615.
Definition U32MAX : N := 4294967295.
(* each parser consumes the head of the remaining field list and returns the rest *)
Definition take_field {A} (missing : perr) (f : bytes -> pres A) (fs : list bytes) : pres (A * list bytes) :=
  match fs with
  | [] => PErr missing
  | x :: t => pdo v <- f x; POk (v, t)
  end.
Definition p_chrom := take_field MissingChrom (fun s => POk s).
Definition p_num (missing invalid : perr) (max : N) :=
  take_field missing (fun s => match parse_uint max s with Some v => POk v | None => PErr invalid end).
Definition p_start := p_num MissingStart InvalidStart U64MAX.
Definition p_end := p_num MissingEnd InvalidEnd U64MAX.
Definition is_dot (s : bytes) : bool := match s with [d] => d =? DOT | _ => false end.
Definition p_name := take_field MissingName (fun s => POk (if is_dot s then None else Some s)).
(* Score::from_str: u32, then try_from(n).unwrap_or(Score(1000)) *)
Definition score_from_str (s : bytes) : option N :=
  match parse_uint U32MAX s with Some v => Some (if 1000 <? v then 1000 else v) | None => None end.
Definition p_score := take_field MissingScore (fun s =>
  if is_dot s then POk None else
  match score_from_str s with Some v => POk (Some v) | None => PErr InvalidScore end).
Definition p_strand := take_field MissingStrand (fun s =>
  if is_dot s then POk None else
  match s with
  | [b] => if b =? PLUS then POk (Some Fwd) else if b =? DASH then POk (Some Rev) else PErr InvalidStrand
  | _ => PErr InvalidStrand
  end).
(* Score::try_from(u32) *)
Definition score_try_from (n : N) : option N := if 1000 <? n then None else Some n.

(* extension columns (repaired code: MissingField / InvalidField instead of unwrap panics) *)
Definition p_float (parse_f : bytes -> option N) :=
  take_field MissingField (fun s => match parse_f s with Some b => POk b | None => PErr InvalidField end).
Definition p_pvalue (parse_f : bytes -> option N) (fs : list bytes) : pres (option N * list bytes) :=
  pdo r <- p_float parse_f fs; POk (if f64_ltz (fst r) then None else Some (fst r), snd r).
Definition p_peak := p_num MissingField InvalidField U64MAX.

Definition parse_grange (s : bytes) : pres (bytes * N * N) :=
  let fs := split_on is_gr_delim s in
  pdo c <- p_chrom fs; pdo st <- p_start (snd c); pdo en <- p_end (snd st);
  POk (fst c, fst st, fst en).
(* impl FromStr for BED<N> *)
Definition parse_bed (n : N) (s : bytes) : pres bed :=
  let fs := split_on is_tab s in
  pdo c <- p_chrom fs; pdo st <- p_start (snd c); pdo en <- p_end (snd st);
  pdo nm <- (if 3 <? n then p_name (snd en) else POk (None, snd en));
  pdo sc <- (if 4 <? n then p_score (snd nm) else POk (None, snd nm));
  pdo sd <- (if 5 <? n then p_strand (snd sc) else POk (None, snd sc));
  POk (mkBed (fst c) (fst st) (fst en) (fst nm) (fst sc) (fst sd)).
Definition parse_bed6_fields (fs : list bytes) : pres (bed * list bytes) :=
  pdo c <- p_chrom fs; pdo st <- p_start (snd c); pdo en <- p_end (snd st);
  pdo nm <- p_name (snd en); pdo sc <- p_score (snd nm); pdo sd <- p_strand (snd sc);
  POk (mkBed (fst c) (fst st) (fst en) (fst nm) (fst sc) (fst sd), snd sd).
Definition parse_npeak (parse_f : bytes -> option N) (s : bytes) : pres npeak :=
  pdo b <- parse_bed6_fields (split_on is_tab s);
  pdo sg <- p_float parse_f (snd b); pdo p <- p_pvalue parse_f (snd sg); pdo q <- p_pvalue parse_f (snd p);
  pdo pk <- p_peak (snd q);
  POk (mkNP (fst b) (fst sg) (fst p) (fst q) (fst pk)).
Definition parse_bpeak (parse_f : bytes -> option N) (s : bytes) : pres bpeak :=
  pdo b <- parse_bed6_fields (split_on is_tab s);
  pdo sg <- p_float parse_f (snd b); pdo p <- p_pvalue parse_f (snd sg); pdo q <- p_pvalue parse_f (snd p);
  POk (mkBP (fst b) (fst sg) (fst p) (fst q)).
(* BedGraph<i64> (is_float = false) / BedGraph<f64> (is_float = true) *)
Definition p_bgval (is_float : bool) (parse_f : bytes -> option N) :=
  take_field MissingField (fun s =>
    if is_float then match parse_f s with Some b => POk (VFloat b) | None => PErr InvalidField end
    else match parse_int s with Some z => POk (VInt z) | None => PErr InvalidField end).
Definition parse_bgraph (is_float : bool) (parse_f : bytes -> option N) (s : bytes) : pres bgraph :=
  let fs := split_on is_tab s in
  pdo c <- p_chrom fs; pdo st <- p_start (snd c); pdo en <- p_end (snd st);
  pdo v <- p_bgval is_float parse_f (snd en);
  POk (mkBG (fst c) (fst st) (fst en) (fst v)).

(* ---------- src/bed/io.rs ---------- *)
(* BufRead::read_line: bytes through the first LF, or to the end of the data *)
Fixpoint take_line (s : bytes) : bytes * bytes :=
  match s with
  | [] => ([], [])
  | b :: t => if b =? LF then ([b], t) else let (l, r) := take_line t in (b :: l, r)
  end.
(* str::ends_with(char): is the last byte b?  (one linear pass; List.rev would be quadratic on a 100 KiB line) *)
Fixpoint ends_with (b : N) (s : bytes) : bool :=
  match s with
  | [] => false
  | x :: t => match t with [] => x =? b | _ :: _ => ends_with b t end
  end.
Definition pop (s : bytes) : bytes := removelast s.
(* read_line: (raw byte count, stripped line, rest of the stream) *)
Definition read_line (s : bytes) : nat * bytes * bytes :=
  let (raw, rest) := take_line s in
  let n := length raw in
  if Nat.eqb n 0 then (0%nat, [], rest) else
  let l1 := if ends_with LF raw then
              let l := pop raw in if ends_with CR l then pop l else l
            else raw in
  (n, l1, rest).
Fixpoint starts_with (p s : bytes) : bool :=
  match p, s with
  | [], _ => true
  | _ :: _, [] => false
  | a :: p', b :: s' => (a =? b) && starts_with p' s'
  end.
Inductive lsize := LSize (n : nat) | LSkip.
(* Reader::read_record *)
Definition read_record (prefix : option bytes) (s : bytes) : lsize * bytes * bytes :=
  let '(n, line, rest) := read_line s in
  if negb (Nat.eqb n 0) && (match prefix with Some p => starts_with p line | None => false end)
  then (LSkip, line, rest) else (LSize n, line, rest).
(* Records::next / IntoRecords::next as a loop; an item is the parse result of one line.
   fuel bounds the number of lines looked at (S (length s) suffices). *)
Fixpoint rd_next {A} (parse : bytes -> pres A) (prefix : option bytes) (fuel : nat) (s : bytes)
  : option (pres A * bytes) :=
  match fuel with
  | O => None
  | S f =>
    let '(sz, line, rest) := read_record prefix s in
    match sz with
    | LSize O => None
    | LSkip => rd_next parse prefix f rest
    | LSize _ => Some (parse line, rest)
    end
  end.
Fixpoint rd_all {A} (parse : bytes -> pres A) (prefix : option bytes) (fuel : nat) (s : bytes) : list (pres A) :=
  match fuel with
  | O => []
  | S f => match rd_next parse prefix (S (length s)) s with
           | None => []
           | Some (item, rest) => item :: rd_all parse prefix f rest
           end
  end.
Definition reader_items {A} (parse : bytes -> pres A) (prefix : option bytes) (s : bytes) : list (pres A) :=
  rd_all parse prefix (S (length s)) s.
(* Writer::write_record = Display + LF *)
Definition write_record (shown : bytes) : bytes := shown ++ [LF].

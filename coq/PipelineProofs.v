(* PipelineProofs.v — the spill step of the external sort, composed from the chunk theorems: a run written to
   fault-free storage and read back through fault-free storage is the same run (what ext_sort's model abstracts
   when it hands the sorted runs directly to the merger). *)
From BedV Require Import Base AlgebraModel ExtSortModel ChunkProofs.

Theorem spill_roundtrip : forall run, Forall blob_ok run ->
  exists st, dump (mkW [] []) run = (st, None) /\ w_stored st = frames run /\ chunk_read (w_stored st) [] = map CItem run.
Proof.
  intros run Hb.
  destruct (dump_no_fault_ok run (mkW [] [])) as (st & E); [intros op []|].
  exists st. split; [exact E|].
  pose proof (dump_ok run (mkW [] []) st E) as Hs. cbn [w_stored app] in Hs.
  split; [exact Hs|]. rewrite Hs.
  destruct (read_frames_le run [] Hb) as [H|(j & _ & _ & Hin)]; [exact H|destruct Hin].
Qed.

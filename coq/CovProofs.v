(* CovProofs.v — the reachable-state invariant with non-empty intervals (LInvNE), coverage as a
   cardinality, merge_overlaps as canonicalisation over histories, and union_and_intersect as the
   cardinalities of the intersection and the union of the two covered position sets. *)
From BedV Require Import Base LapperModel ListFacts LapperProofs LapperSpecs MergeProofs.

(* ---------- (A) the invariant of reachable states over non-empty intervals ---------- *)
Definition LInvNE (L : lapper) : Prop :=
  LInv L /\ ne_ivs (ivs L) /\ (merged L = true -> StrictSep (ivs L)) /\
  (forall c, cov_c L = Some c -> CardOf (covered (ivs L)) c).

Lemma ne_perm l l' : Permutation l l' -> ne_ivs l' -> ne_ivs l.
Proof. intros HP H i Hi. apply H. eapply Permutation_in; [exact HP|exact Hi]. Qed.

Lemma covered_perm l l' p : Permutation l l' -> (covered l p <-> covered l' p).
Proof.
  intros HP. unfold covered. split; intros (i & Hi & Hc); exists i; (split; [|exact Hc]).
  - eapply Permutation_in; [exact HP|exact Hi].
  - eapply Permutation_in; [apply Permutation_sym; exact HP|exact Hi].
Qed.

Lemma lnew_inv_ne l : ne_ivs l -> LInvNE (lnew l).
Proof.
  intros H. split; [apply lnew_inv|]. split; [eapply ne_perm; [apply lnew_perm|exact H]|].
  unfold lnew; cbn [merged cov_c]. split; [intros E; discriminate E|intros c E; discriminate E].
Qed.

Lemma linsert_cov L e L' : linsert L e = Ok L' -> cov_c L' = None.
Proof.
  unfold linsert.
  destruct (bsearch_N (st e) (starts L)) as [si|]; cbn [rbind]; [|intros E; discriminate E].
  destruct (bsearch_N (en e) (stops L)) as [ei|]; cbn [rbind]; [|intros E; discriminate E].
  destruct (bsearch_iv e (ivs L)) as [ii|]; cbn [rbind]; [|intros E; discriminate E].
  destruct (vec_insert si (st e) (starts L)) as [s'|]; cbn [rbind]; [|intros E; discriminate E].
  destruct (vec_insert ei (en e) (stops L)) as [e'|]; cbn [rbind]; [|intros E; discriminate E].
  destruct (vec_insert ii e (ivs L)) as [i'|]; cbn [rbind]; [|intros E; discriminate E].
  intros E. injection E as <-. reflexivity.
Qed.

Lemma linsert_inv_ne L e : LInvNE L -> st e < en e -> exists L', linsert L e = Ok L' /\ LInvNE L'.
Proof.
  intros (HI & Hn & _ & _) He. destruct (linsert_spec L e HI) as (L' & E & HI' & HP & Hm).
  exists L'. split; [exact E|]. split; [exact HI'|]. split; [|split].
  - intros x Hx. apply (Permutation_in _ HP) in Hx. destruct Hx as [<-|Hx]; [exact He|apply Hn; exact Hx].
  - intros Hm'. rewrite Hm in Hm'. discriminate Hm'.
  - intros c Hc. rewrite (linsert_cov _ _ _ E) in Hc. discriminate Hc.
Qed.

Lemma lmerge_inv_ne L : LInvNE L -> LInvNE (lmerge L).
Proof.
  intros (HI & Hn & Hm & Hc).
  destruct (merge_canon (ivs L) (inv_sorted L HI) Hn) as (HS & Hcov).
  split; [exact (proj1 (lmerge_inv L (ne_le _ Hn)))|].
  split; [exact (proj2 HS)|]. split.
  - intros _. exact HS.
  - unfold lmerge; cbn [cov_c ivs]. intros c E. eapply card_ext; [|apply Hc; exact E].
    intros p. symmetry. apply Hcov.
Qed.

Lemma lset_cov_inv_ne L : LInvNE L -> LInvNE (lset_cov L).
Proof.
  intros (HI & Hn & Hm & Hc). split; [apply lset_cov_inv; exact HI|]. split; [exact Hn|]. split; [exact Hm|].
  unfold lset_cov; cbn [cov_c ivs]. intros c E. injection E as <-.
  apply cov_card; [exact (inv_sorted L HI)|exact Hn].
Qed.

Lemma run_inv_ne h : Forall ne_op h -> forall L, LInvNE L ->
  exists L', fold_left lstep h (Ok L) = Ok L' /\ LInvNE L'.
Proof.
  induction 1 as [|o t Ho Ht IH]; intros L HN; cbn [fold_left].
  - exists L. split; [reflexivity|exact HN].
  - destruct o as [i| |]; cbn [lstep rbind].
    + destruct (linsert_inv_ne L i HN Ho) as (L' & E & HN'). rewrite E. apply IH. exact HN'.
    + apply IH. apply lmerge_inv_ne. exact HN.
    + apply IH. apply lset_cov_inv_ne. exact HN.
Qed.

Theorem reach_inv_ne : forall l h, ne_ivs l -> Forall ne_op h -> exists L, lrun l h = Ok L /\ LInvNE L.
Proof.
  intros l h Hl Hh. unfold lrun. apply run_inv_ne; [exact Hh|apply lnew_inv_ne; exact Hl].
Qed.

(* ---------- (B) cov() is the cardinality of the covered set ---------- *)
Theorem lcov_card : forall L, LInvNE L -> CardOf (covered (ivs L)) (lcov L).
Proof.
  intros L (HI & Hn & _ & Hc). unfold lcov. destruct (cov_c L) as [c|] eqn:E.
  - apply Hc. reflexivity.
  - apply cov_card; [exact (inv_sorted L HI)|exact Hn].
Qed.

(* ---------- (C), (D) C18 ---------- *)
Theorem c18_merge_canonical : forall l h, ne_ivs l -> Forall ne_op h ->
  exists L0, lrun l h = Ok L0 /\ LInvNE L0 /\
    IsCanonOf (ivs L0) (ivs (lmerge L0)) /\ ivs (lmerge (lmerge L0)) = ivs (lmerge L0) /\ LInvNE (lmerge L0).
Proof.
  intros l h Hl Hh. destruct (reach_inv_ne l h Hl Hh) as (L0 & E & HN).
  exists L0. split; [exact E|]. split; [exact HN|].
  pose proof HN as (HI & Hn & _ & _).
  pose proof (merge_canon (ivs L0) (inv_sorted _ HI) Hn) as HC.
  split; [exact HC|]. split; [|apply lmerge_inv_ne; exact HN].
  unfold lmerge; cbn [ivs]. apply merge_idem. exact (proj1 HC).
Qed.

Theorem c18_after_merge : forall l h h' qs qe, ne_ivs l -> Forall ne_op h -> Forall ne_op h' -> qs < qe ->
  exists L, lrun l (h ++ Merge :: h') = Ok L /\ LInvNE L /\
    lfind L qs qe = Ok (filter (ovl qs qe) (ivs L)) /\
    lcount L qs qe = Ok (length (filter (ovl qs qe) (ivs L))) /\
    CardOf (covered (ivs L)) (lcov L).
Proof.
  intros l h h' qs qe Hl Hh Hh' Hq.
  assert (Hall : Forall ne_op (h ++ Merge :: h')).
  { apply Forall_app. split; [exact Hh|]. constructor; [exact I|exact Hh']. }
  destruct (reach_inv_ne l _ Hl Hall) as (L & E & HN).
  exists L. split; [exact E|]. split; [exact HN|].
  pose proof HN as (HI & Hn & _ & _).
  split; [apply find_filter; exact HI|]. split; [|apply lcov_card; exact HN].
  apply count_find; [exact HI|exact (ne_le _ Hn)|exact Hq].
Qed.

Lemma c19_cov_card : forall l h, ne_ivs l -> Forall ne_op h ->
  exists L, lrun l h = Ok L /\ CardOf (covered (ivs L)) (lcov L).
Proof.
  intros l h Hl Hh. destruct (reach_inv_ne l h Hl Hh) as (L & E & HN).
  exists L. split; [exact E|apply lcov_card; exact HN].
Qed.

(* ---------- (E) union_and_intersect ---------- *)

(* (E.1) the pairs enumerated by the seek loop *)
Definition pairs_of (lb la : list iv) : list (iv * iv) :=
  flat_map (fun a => map (fun b => (a, b)) (filter (ovl (st a) (en a)) lb)) la.

Lemma ui_pairs_spec B : LInv B -> forall la c lo,
  CurOK B c (lo - max_len B) -> sortedK la -> (forall a, In a la -> lo <= st a) ->
  ui_pairs B la c = Ok (pairs_of (ivs B) la).
Proof.
  intros HI. unfold pairs_of.
  induction la as [|a t IH]; intros c lo Hc Hs Hlo; cbn [ui_pairs flat_map]; [reflexivity|].
  destruct (seek_find B (st a) (en a) c (lo - max_len B) HI Hc) as (c' & E & Hc').
  { specialize (Hlo a (or_introl eq_refl)). lia. }
  rewrite E. cbn [rbind].
  inversion Hs as [|? ? Hst Hall]; subst.
  rewrite (IH c' (st a) Hc' Hst).
  - reflexivity.
  - intros x Hx. rewrite Forall_forall in Hall. apply key_le_st. apply Hall. exact Hx.
Qed.

Lemma pairs_of_in lb la a b :
  In (a, b) (pairs_of lb la) <-> In a la /\ In b lb /\ ovl (st a) (en a) b = true.
Proof.
  unfold pairs_of. rewrite in_flat_map. split.
  - intros (x & Hx & Hin). apply in_map_iff in Hin. destruct Hin as (y & Heq & Hy).
    injection Heq as <- <-. apply filter_In in Hy. tauto.
  - intros (Ha & Hb & Ho). exists a. split; [exact Ha|]. apply in_map_iff. exists b.
    split; [reflexivity|]. apply filter_In. split; assumption.
Qed.

(* (E.2) the materialised intersections *)
Definition ixiv (p : iv * iv) : iv :=
  mkiv (N.max (st (fst p)) (st (snd p))) (N.min (en (fst p)) (en (snd p))) 1.

Lemma ixiv_covers a b p : covers (ixiv (a, b)) p <-> covers a p /\ covers b p.
Proof. unfold covers, ixiv. cbn [fst snd st en]. lia. Qed.

Lemma ovl_covers a b p : covers a p -> covers b p -> ovl (st a) (en a) b = true.
Proof.
  unfold covers, ovl. intros Ha Hb. apply andb_true_iff. rewrite !N.ltb_lt. lia.
Qed.

Lemma ixiv_ne a b : st a < en a -> st b < en b -> ovl (st a) (en a) b = true ->
  st (ixiv (a, b)) < en (ixiv (a, b)).
Proof.
  unfold ovl, ixiv. cbn [fst snd st en]. rewrite andb_true_iff, !N.ltb_lt. lia.
Qed.

Lemma inter_ne lb la : ne_ivs la -> ne_ivs lb -> ne_ivs (map ixiv (pairs_of lb la)).
Proof.
  intros Ha Hb i Hi. apply in_map_iff in Hi. destruct Hi as ((a, b) & <- & Hin).
  apply pairs_of_in in Hin. destruct Hin as (H1 & H2 & H3).
  apply ixiv_ne; [apply Ha; exact H1|apply Hb; exact H2|exact H3].
Qed.

Lemma inter_covered lb la p :
  covered (map ixiv (pairs_of lb la)) p <-> covered la p /\ covered lb p.
Proof.
  unfold covered. split.
  - intros (i & Hi & Hc). apply in_map_iff in Hi. destruct Hi as ((a, b) & <- & Hin).
    apply pairs_of_in in Hin. destruct Hin as (Ha & Hb & _). apply ixiv_covers in Hc.
    destruct Hc as (Hca & Hcb). split; [exists a|exists b]; split; assumption.
  - intros ((a & Ha & Hca) & (b & Hb & Hcb)). exists (ixiv (a, b)).
    split; [|apply ixiv_covers; split; assumption].
    apply in_map. apply pairs_of_in. split; [exact Ha|]. split; [exact Hb|].
    eapply ovl_covers; [exact Hca|exact Hcb].
Qed.

Lemma cov_new_merge l : ne_ivs l -> CardOf (covered l) (lcov (lset_cov (lmerge (lnew l)))).
Proof.
  intros Hn.
  assert (Hn' : ne_ivs (ivs (lnew l))) by (eapply ne_perm; [apply lnew_perm|exact Hn]).
  pose proof (inv_sorted _ (lnew_inv l)) as Hs.
  unfold lcov, lset_cov; cbn [cov_c ivs]. unfold lmerge; cbn [ivs].
  rewrite cov_merge_same by assumption.
  eapply card_ext; [|apply cov_card; assumption]. intros p. apply covered_perm. apply lnew_perm.
Qed.

(* (E.4) inclusion-exclusion for cardinalities *)
Lemma card_incl_excl P Q a b i :
  CardOf P a -> CardOf Q b -> CardOf (fun p => P p /\ Q p) i -> CardOf (fun p => P p \/ Q p) (a + b - i).
Proof.
  intros (ps & Nd1 & In1 & L1) (qs & Nd2 & In2 & L2) (rs & Nd3 & In3 & L3).
  set (inP := fun q => if in_dec N.eq_dec q ps then true else false).
  assert (HinP : forall q, inP q = true <-> In q ps).
  { intros q. unfold inP. destruct (in_dec N.eq_dec q ps) as [H|H]; split; intros H'; try assumption; try reflexivity.
    - discriminate H'.
    - contradiction. }
  assert (Hlen : length (filter inP qs) = length rs).
  { apply Permutation_length. apply NoDup_Permutation; [apply NoDup_filter; exact Nd2|exact Nd3|].
    intros p. rewrite filter_In, HinP, In1, In2, In3. tauto. }
  pose proof (count_complement inP qs) as Hcc. unfold count_if in Hcc.
  exists (ps ++ filter (fun q => negb (inP q)) qs). split; [|split].
  - apply NoDup_app_disj; [exact Nd1|apply NoDup_filter; exact Nd2|].
    intros x Hx Hy. apply filter_In in Hy. destruct Hy as (_ & Hy). apply HinP in Hx.
    rewrite Hx in Hy. discriminate Hy.
  - intros p. rewrite in_app_iff, filter_In, In1, In2. split.
    + intros [H|(H & _)]; [left|right]; exact H.
    + intros [H|H]; [left; exact H|]. destruct (inP p) eqn:E.
      * left. apply In1. apply HinP. exact E.
      * right. split; [exact H|reflexivity].
  - rewrite app_length. subst a b i. lia.
Qed.

(* (E.3) merged branch: the sum of the pairwise intersection lengths *)
Definition isum (a : iv) (l : list iv) : N := fold_right (fun b s => iv_intersect a b + s) 0 l.
Definition psum (ps : list (iv * iv)) : N := fold_right (fun p s => iv_intersect (fst p) (snd p) + s) 0 ps.

Lemma fold_left_psum ps : forall acc,
  fold_left (fun acc p => acc + iv_intersect (fst p) (snd p)) ps acc = acc + psum ps.
Proof.
  unfold psum. induction ps as [|x t IH]; intros acc; cbn [fold_left fold_right]; [lia|].
  rewrite IH. lia.
Qed.

Lemma psum_app l1 l2 : psum (l1 ++ l2) = psum l1 + psum l2.
Proof.
  unfold psum. induction l1 as [|x t IH]; cbn [app fold_right]; [lia|]. rewrite IH. lia.
Qed.

Lemma psum_map a l : psum (map (fun b => (a, b)) l) = isum a l.
Proof.
  unfold psum, isum. induction l as [|x t IH]; cbn [map fold_right fst snd]; [reflexivity|].
  rewrite IH. reflexivity.
Qed.

Lemma card_inter_range a b : CardOf (fun p => covers a p /\ covers b p) (iv_intersect a b).
Proof.
  unfold iv_intersect.
  eapply card_ext; [|apply (card_range (N.max (st a) (st b)) (N.min (en a) (en b)))].
  intros p. unfold covers. cbn beta. lia.
Qed.

Lemma inner_card a : forall lb, StrictSep lb ->
  CardOf (fun p => covers a p /\ covered lb p) (isum a (filter (ovl (st a) (en a)) lb)).
Proof.
  induction lb as [|b t IH]; intros S.
  - cbn [filter isum fold_right]. eapply card_ext; [|exact card_empty].
    intros p. cbn beta. rewrite covered_nil. tauto.
  - specialize (IH (sep_tail _ _ S)). cbn [filter]. destruct (ovl (st a) (en a) b) eqn:E.
    + unfold isum in *. cbn [fold_right].
      eapply card_ext; [|apply card_union; [apply (card_inter_range a b)|exact IH|]].
      * intros p. cbn beta. rewrite covered_cons. tauto.
      * cbn beta. intros p (_ & Hb) (_ & Ht). pose proof (sep_head_lt _ _ _ S Ht) as Hlt.
        unfold covers in Hb. lia.
    + eapply card_ext; [|exact IH]. intros p. cbn beta. rewrite covered_cons. split; [tauto|].
      intros (Ha & [Hb|Ht]); [|tauto]. exfalso.
      rewrite (ovl_covers a b p Ha Hb) in E. discriminate E.
Qed.

Lemma outer_card lb : StrictSep lb -> forall la, StrictSep la ->
  CardOf (fun p => covered la p /\ covered lb p) (psum (pairs_of lb la)).
Proof.
  intros SB. induction la as [|a t IH]; intros SA.
  - unfold pairs_of, psum. cbn [flat_map fold_right]. eapply card_ext; [|exact card_empty].
    intros p. cbn beta. rewrite covered_nil. tauto.
  - unfold pairs_of. cbn [flat_map]. fold (pairs_of lb t). rewrite psum_app, psum_map.
    eapply card_ext; [|apply card_union; [apply (inner_card a lb SB)|apply IH; eapply sep_tail; exact SA|]].
    + intros p. cbn beta. rewrite covered_cons. tauto.
    + cbn beta. intros p (Ha & _) (Ht & _). pose proof (sep_head_lt _ _ _ SA Ht) as Hlt.
      unfold covers in Ha. lia.
Qed.

Theorem ui_card : forall W A B, LInvNE A -> LInvNE B -> lcov A + lcov B <= W ->
  exists u i, lunion_intersect W A B = Ok (u, i) /\
    CardOf (fun p => covered (ivs A) p /\ covered (ivs B) p) i /\
    CardOf (fun p => covered (ivs A) p \/ covered (ivs B) p) u.
Proof.
  intros W A B HA HB HW.
  pose proof (lcov_card A HA) as CA. pose proof (lcov_card B HB) as CB.
  destruct HA as (HIA & HnA & HmA & _). destruct HB as (HIB & HnB & HmB & _).
  unfold lunion_intersect.
  assert (Hps : ui_pairs B (ivs A) 0%nat = Ok (pairs_of (ivs B) (ivs A))).
  { apply (ui_pairs_spec B HIB (ivs A) 0%nat 0).
    - split; [lia|]. intros i v _ Hi. lia.
    - exact (inv_sorted _ HIA).
    - intros a _. lia. }
  rewrite Hps. cbn [rbind]. destruct (N.ltb_spec W (lcov A + lcov B)) as [Hlt|_]; [lia|].
  destruct (negb (merged A) || negb (merged B)) eqn:Em.
  - assert (CI : CardOf (fun p => covered (ivs A) p /\ covered (ivs B) p)
                   (lcov (lset_cov (lmerge (lnew (map ixiv (pairs_of (ivs B) (ivs A)))))))).
    { eapply card_ext; [|apply cov_new_merge; apply inter_ne; assumption].
      intros p. apply inter_covered. }
    eexists _, _. split; [reflexivity|]. split; [exact CI|].
    apply card_incl_excl; [exact CA|exact CB|exact CI].
  - apply orb_false_iff in Em. destruct Em as (E1 & E2). apply negb_false_iff in E1, E2.
    rewrite fold_left_psum, N.add_0_l.
    pose proof (outer_card (ivs B) (HmB E2) (ivs A) (HmA E1)) as CI.
    eexists _, _. split; [reflexivity|]. split; [exact CI|].
    apply card_incl_excl; [exact CA|exact CB|exact CI].
Qed.

(* ---------- (F) symmetry ---------- *)
Theorem ui_sym : forall W A B u i u' i', LInvNE A -> LInvNE B -> lcov A + lcov B <= W ->
  lunion_intersect W A B = Ok (u, i) -> lunion_intersect W B A = Ok (u', i') -> u = u' /\ i = i'.
Proof.
  intros W A B u i u' i' HA HB HW E1 E2.
  destruct (ui_card W A B HA HB HW) as (u1 & i1 & E1' & CI & CU).
  destruct (ui_card W B A HB HA) as (u2 & i2 & E2' & CI' & CU'); [lia|].
  rewrite E1 in E1'. rewrite E2 in E2'. injection E1' as <- <-. injection E2' as <- <-.
  split.
  - apply (card_unique _ _ _ CU). eapply card_ext; [|exact CU']. intros p. cbn beta. tauto.
  - apply (card_unique _ _ _ CI). eapply card_ext; [|exact CI']. intros p. cbn beta. tauto.
Qed.

Print Assumptions reach_inv_ne.
Print Assumptions lcov_card.
Print Assumptions c18_merge_canonical.
Print Assumptions c18_after_merge.
Print Assumptions c19_cov_card.
Print Assumptions card_incl_excl.
Print Assumptions ui_card.
Print Assumptions ui_sym.

(* history-level form of ui_card: two lappers reached by arbitrary histories over non-empty intervals *)
Lemma c19_ui_reachable : forall W la ha lb hb, ne_ivs la -> Forall ne_op ha -> ne_ivs lb -> Forall ne_op hb ->
  exists A B, lrun la ha = Ok A /\ lrun lb hb = Ok B /\
    (lcov A + lcov B <= W ->
     exists u i, lunion_intersect W A B = Ok (u, i) /\ lunion_intersect W B A = Ok (u, i) /\
       CardOf (fun p => covered (ivs A) p /\ covered (ivs B) p) i /\
       CardOf (fun p => covered (ivs A) p \/ covered (ivs B) p) u).
Proof.
  intros W la ha lb hb Hla Hha Hlb Hhb.
  destruct (reach_inv_ne la ha Hla Hha) as (A & EA & HA).
  destruct (reach_inv_ne lb hb Hlb Hhb) as (B & EB & HB).
  exists A, B. split; [exact EA|]. split; [exact EB|]. intros Hw.
  destruct (ui_card W A B HA HB Hw) as (u & i & E1 & Hi & Hu).
  assert (Hw' : lcov B + lcov A <= W) by lia.
  destruct (ui_card W B A HB HA Hw') as (u' & i' & E2 & _ & _).
  destruct (ui_sym W A B u i u' i' HA HB Hw E1 E2) as (-> & ->).
  exists u', i'. auto.
Qed.

(* LapRun.v — a Gallina interpreter for `lap` cases (scripts over one Lapper), mirroring what extract/driver.ml
   does around the extracted functions.  It exists so that a sample of the cases the extracted runner has
   executed can be re-evaluated INSIDE Coq (vm_compute) and compared with the runner's answers: a cross-check of
   the extraction and of the OCaml glue (thorough tier of C16..C20).  No model logic here. *)
From BedV Require Import Base LapperModel.

Inductive sop :=
| SIns (i : iv) | SMerge | SSetCov | SCur0
| SFind (s e : N) | SSeek (s e : N) | SCount (s e : N) | SCov | SLen | SIsEmpty | SIvs | SDepth
| SIvCmp (a b : iv)
| SUI (bivs : list iv) (bops : list lop).
Inductive sout :=
| RHits (l : list iv) | RNat (n : N) | RIvs (l : list iv) | RDepth (l : list iv) | RUI (u i : N)
| RBool (b : bool) | RIvCmp (eq : bool) (c : comparison) | RPanic.

Fixpoint run_sops (W : N) (L : lapper) (cur : nat) (ops : list sop) : list sout :=
  match ops with
  | [] => []
  | o :: t =>
    match o with
    | SIns i => match linsert L i with Ok L' => run_sops W L' cur t | Panic => [RPanic] end
    | SMerge => run_sops W (lmerge L) cur t
    | SSetCov => run_sops W (lset_cov L) cur t
    | SCur0 => run_sops W L 0%nat t
    | SFind s e => match lfind L s e with Ok h => RHits h :: run_sops W L cur t | Panic => [RPanic] end
    | SSeek s e => match lseek L s e cur with Ok (h, c) => RHits h :: run_sops W L c t | Panic => [RPanic] end
    | SCount s e => match lcount L s e with Ok n => RNat (N.of_nat n) :: run_sops W L cur t | Panic => [RPanic] end
    | SCov => RNat (lcov L) :: run_sops W L cur t
    | SLen => RNat (N.of_nat (llen L)) :: run_sops W L cur t
    | SIsEmpty => RBool (lis_empty L) :: run_sops W L cur t
    | SIvs => RIvs (ivs L) :: run_sops W L cur t
    | SDepth => match ldepth W L with Ok d => RDepth d :: run_sops W L cur t | Panic => [RPanic] end
    | SIvCmp a b => RIvCmp (iv_eq a b) (iv_cmp a b) :: run_sops W L cur t
    | SUI bivs bops =>
      match lrun bivs bops with
      | Ok B => match lunion_intersect W L B with Ok (u, i) => RUI u i :: run_sops W L cur t | Panic => [RPanic] end
      | Panic => [RPanic]
      end
    end
  end.
Definition run_lap (W : N) (l : list iv) (ops : list sop) : list sout := run_sops W (lnew l) 0%nat ops.

(* LapperProofs.v — invariants of the Lapper model and the refinement of find / count / seek
   to their declarative specifications (filter, cardinalities). *)
From BedV Require Import Base LapperModel ListFacts.

(* ---------- the two orders ---------- *)
Lemma N_asym : forall x y : N, N.ltb x y = true -> N.ltb y x = false.
Proof. intros. apply N.ltb_lt in H. apply N.ltb_ge. lia. Qed.
Lemma N_le_trans : forall x y z : N, leR N.ltb x y -> leR N.ltb y z -> leR N.ltb x z.
Proof. unfold leR. intros x y z H1 H2. apply N.ltb_ge in H1, H2. apply N.ltb_ge. lia. Qed.
Lemma leN_iff x y : leR N.ltb x y <-> x <= y.
Proof. unfold leR. rewrite N.ltb_ge. reflexivity. Qed.

Lemma key_ltb_iff a b : key_ltb a b = true <-> (st a < st b \/ (st a = st b /\ en a < en b)).
Proof.
  unfold key_ltb. rewrite orb_true_iff, andb_true_iff, !N.ltb_lt, N.eqb_eq. reflexivity.
Qed.
Lemma key_ltb_false a b : key_ltb a b = false <-> (st b < st a \/ (st a = st b /\ en b <= en a)).
Proof.
  destruct (key_ltb a b) eqn:E.
  - apply key_ltb_iff in E. split; [discriminate|]. lia.
  - split; [|reflexivity]. intros _.
    assert (~ (st a < st b \/ (st a = st b /\ en a < en b))) by (rewrite <- key_ltb_iff; congruence). lia.
Qed.
Lemma key_asym : forall x y, key_ltb x y = true -> key_ltb y x = false.
Proof. intros x y H. apply key_ltb_iff in H. apply key_ltb_false. lia. Qed.
Lemma key_le_trans : forall x y z, leR key_ltb x y -> leR key_ltb y z -> leR key_ltb x z.
Proof. unfold leR. intros x y z H1 H2. apply key_ltb_false in H1, H2. apply key_ltb_false. lia. Qed.
Lemma key_le_st x y : leR key_ltb x y -> st x <= st y.
Proof. unfold leR. intros H. apply key_ltb_false in H. lia. Qed.
Lemma key_leb_guard key v : key_leb key v = negb (key_ltb v key).
Proof.
  destruct (key_ltb v key) eqn:E; cbn [negb].
  - apply key_ltb_iff in E. unfold key_leb. apply orb_false_iff. split.
    + apply N.ltb_ge. lia.
    + apply andb_false_iff. destruct (N.eqb_spec (st key) (st v)); [right; apply N.leb_gt; lia|left; reflexivity].
  - apply key_ltb_false in E. unfold key_leb. apply orb_true_iff.
    destruct E as [E|[E1 E2]]; [left; apply N.ltb_lt; lia|right].
    apply andb_true_iff. split; [apply N.eqb_eq; lia|apply N.leb_le; lia].
Qed.

Notation sortedK := (StronglySorted (leR key_ltb)).
Notation sortedN := (StronglySorted (leR N.ltb)).

(* ---------- max_ilen ---------- *)
Lemma max_ilen_acc l : forall m,
  m <= fold_left (fun m i => if m <? ilen i then ilen i else m) l m /\
  forall i, In i l -> ilen i <= fold_left (fun m i => if m <? ilen i then ilen i else m) l m.
Proof.
  induction l as [|x t IH]; intros m; cbn [fold_left].
  - split; [lia|]. intros i [].
  - destruct (N.ltb_spec m (ilen x)) as [H|H].
    + destruct (IH (ilen x)) as (H1 & H2). split; [lia|]. intros i [<-|Hi]; [exact H1|auto].
    + destruct (IH m) as (H1 & H2). split; [exact H1|]. intros i [<-|Hi]; [lia|auto].
Qed.
Lemma max_ilen_spec l i : In i l -> ilen i <= max_ilen l.
Proof. intros H. apply (proj2 (max_ilen_acc l 0)). exact H. Qed.

(* ---------- the invariant ---------- *)
Record LInv (L : lapper) : Prop := mkLInv {
  inv_sorted : sortedK (ivs L);
  inv_starts_sorted : sortedN (starts L);
  inv_starts_perm : Permutation (starts L) (map st (ivs L));
  inv_stops_sorted : sortedN (stops L);
  inv_stops_perm : Permutation (stops L) (map en (ivs L));
  inv_maxlen : forall i, In i (ivs L) -> ilen i <= max_len L }.

Lemma lnew_inv l : LInv (lnew l).
Proof.
  unfold lnew. constructor; cbn [ivs starts stops max_len cov_c].
  - apply isort_sorted; [exact key_asym|exact key_le_trans].
  - apply isort_sorted; [exact N_asym|exact N_le_trans].
  - apply isort_perm.
  - apply isort_sorted; [exact N_asym|exact N_le_trans].
  - apply isort_perm.
  - apply max_ilen_spec.
Qed.
Lemma lnew_perm l : Permutation (ivs (lnew l)) l.
Proof. apply isort_perm. Qed.

Lemma bsearch_N_spec key l : sortedN l -> bsearch_N key l = Ok (count_if (fun v => v <? key) l).
Proof.
  intros H. unfold bsearch_N. apply bsearch_gen_spec.
  - intros v. rewrite N.leb_antisym. reflexivity.
  - apply (sorted_part N.ltb N_le_trans key l H).
Qed.
Lemma bsearch_iv_spec key l : sortedK l -> bsearch_iv key l = Ok (count_if (fun v => key_ltb v key) l).
Proof.
  intros H. unfold bsearch_iv. apply bsearch_gen_spec.
  - intros v. apply key_leb_guard.
  - apply (sorted_part key_ltb key_le_trans key l H).
Qed.

Lemma linsert_spec L e : LInv L ->
  exists L', linsert L e = Ok L' /\ LInv L' /\ Permutation (ivs L') (e :: ivs L) /\ merged L' = false.
Proof.
  intros [Hs Hss Hsp Hes Hep Hml]. unfold linsert.
  rewrite (bsearch_N_spec _ _ Hss), (bsearch_N_spec _ _ Hes), (bsearch_iv_spec _ _ Hs). cbn [rbind].
  rewrite !vec_insert_ok by apply count_if_le. cbn [rbind].
  eexists. split; [reflexivity|]. split; [|split; [apply insert_perm|reflexivity]].
  constructor; cbn [ivs starts stops max_len cov_c].
  - apply (insert_at_part_sorted key_ltb key_asym key_le_trans e _ Hs).
  - apply (insert_at_part_sorted N.ltb N_asym N_le_trans (st e) _ Hss).
  - rewrite insert_perm. rewrite (Permutation_map st (insert_perm _ e (ivs L))). cbn [map]. constructor. exact Hsp.
  - apply (insert_at_part_sorted N.ltb N_asym N_le_trans (en e) _ Hes).
  - rewrite insert_perm. rewrite (Permutation_map en (insert_perm _ e (ivs L))). cbn [map]. constructor. exact Hep.
  - intros i Hi. apply (Permutation_in _ (insert_perm _ e (ivs L))) in Hi.
    destruct Hi as [<-|Hi].
    + destruct (N.ltb_spec (max_len L) (ilen e)); lia.
    + specialize (Hml i Hi). destruct (N.ltb_spec (max_len L) (ilen e)); lia.
Qed.

Lemma lset_cov_inv L : LInv L -> LInv (lset_cov L).
Proof.
  intros [Hs Hss Hsp Hes Hep Hml]. constructor; cbn [lset_cov ivs starts stops max_len cov_c]; assumption.
Qed.

(* ---------- lower_bound ---------- *)
Lemma sorted_st_part x l : sortedK l ->
  part_at (fun v => st v <? x) l (count_if (fun v => st v <? x) l).
Proof.
  unfold count_if. induction 1 as [|y t Hs IH Hall]; cbn [filter length].
  - split; [simpl; lia|]. split; intros i v Hn; destruct i; discriminate.
  - destruct IH as (Hk & Ht & Hf). destruct (N.ltb_spec (st y) x) as [E|E]; cbn [length].
    + split; [cbn [length]; lia|]. split; intros i v Hn Hi.
      * destruct i; [injection Hn as <-; apply N.ltb_lt; exact E|]. simpl in Hn. eapply Ht; [exact Hn|lia].
      * destruct i; [lia|]. simpl in Hn. eapply Hf; [exact Hn|lia].
    + assert (Hz : filter (fun v => st v <? x) t = []).
      { clear - Hall E. induction t as [|z t IH]; [reflexivity|]. cbn [filter].
        inversion Hall as [|? ? Hyz Hall']; subst. apply key_le_st in Hyz.
        destruct (N.ltb_spec (st z) x); [lia|auto]. }
      rewrite Hz in *. cbn [length] in *. split; [lia|]. split; intros i v Hn Hi; [lia|].
      destruct i; [injection Hn as <-; apply N.ltb_ge; exact E|]. simpl in Hn. eapply Hf; [exact Hn|lia].
Qed.

Lemma lower_bound_spec x l : sortedK l -> lower_bound x l = Ok (count_if (fun v => st v <? x) l).
Proof.
  intros H. unfold lower_bound. apply lb_loop_spec.
  - apply sorted_st_part. exact H.
  - lia.
  - pose proof (count_if_le (fun v => st v <? x) l). lia.
  - lia.
Qed.

(* ---------- find = filter ---------- *)
Lemma scan_filter qs qe l : sortedK l -> scan qs qe l = filter (ovl qs qe) l.
Proof.
  induction 1 as [|y t Hs IH Hall]; cbn [scan filter]; [reflexivity|].
  destruct (ovl qs qe y) eqn:E; [rewrite IH; reflexivity|].
  destruct (N.leb_spec qe (st y)) as [H|H]; [|exact IH].
  symmetry. clear IH Hs. induction t as [|z t IH]; [reflexivity|]. cbn [filter].
  inversion Hall as [|? ? Hyz Hall']; subst. apply key_le_st in Hyz.
  unfold ovl at 1. destruct (N.ltb_spec (st z) qe); [lia|]. cbn [andb]. auto.
Qed.

Lemma sorted_skipn {A} (R : A -> A -> Prop) n l : StronglySorted R l -> StronglySorted R (skipn n l).
Proof.
  revert l. induction n as [|n IH]; intros l H; [exact H|]. destruct l; [constructor|].
  cbn [skipn]. apply IH. inversion H; assumption.
Qed.

Lemma filter_firstn_none {A} (p : A -> bool) n l :
  (forall i v, nth_error l i = Some v -> (i < n)%nat -> p v = false) ->
  filter p l = filter p (skipn n l).
Proof.
  revert l. induction n as [|n IH]; intros l H; [reflexivity|]. destruct l as [|y t]; [reflexivity|].
  cbn [filter skipn]. rewrite (H 0%nat y) by (try reflexivity; lia).
  apply IH. intros i v Hn Hi. apply (H (S i)); [exact Hn|lia].
Qed.

(* an interval that starts before qs - max_len cannot reach qs *)
Lemma early_no_ovl ml qs qe i : ilen i <= ml -> st i < qs - ml -> ovl qs qe i = false.
Proof.
  unfold ilen, ovl. intros H1 H2. apply andb_false_iff. right. apply N.ltb_ge. lia.
Qed.

Theorem find_filter L qs qe : LInv L -> lfind L qs qe = Ok (filter (ovl qs qe) (ivs L)).
Proof.
  intros HI. destruct HI as [Hs _ _ _ _ Hml]. unfold lfind.
  rewrite (lower_bound_spec _ _ Hs). cbn [rbind]. f_equal.
  rewrite scan_filter by (apply sorted_skipn; exact Hs).
  symmetry. apply filter_firstn_none.
  intros i v Hn Hi. destruct (sorted_st_part (qs - max_len L) _ Hs) as (_ & Ht & _).
  specialize (Ht _ _ Hn Hi). apply N.ltb_lt in Ht.
  apply (early_no_ovl (max_len L)); [apply Hml; eapply nth_error_In; exact Hn|exact Ht].
Qed.

(* ---------- seek ---------- *)
Definition CurOK (L : lapper) (c : nat) (b : N) : Prop :=
  (c <= length (ivs L))%nat /\ forall i v, nth_error (ivs L) i = Some v -> (i < c)%nat -> st v < b.

Lemma sorted_nth_le l i j a b : sortedK l -> nth_error l i = Some a -> nth_error l j = Some b -> (i <= j)%nat -> st a <= st b.
Proof.
  intros Hs. revert i j. induction Hs as [|y t Hs IH Hall]; intros i j Ha Hb Hij.
  - destruct i; discriminate.
  - destruct i as [|i], j as [|j]; cbn [nth_error] in *.
    + injection Ha as <-. injection Hb as <-. lia.
    + injection Ha as <-. rewrite Forall_forall in Hall. apply key_le_st. apply Hall. eapply nth_error_In; exact Hb.
    + lia.
    + eapply IH; eauto. lia.
Qed.

Lemma seek_adv_spec l bound : sortedK l ->
  forall fuel c, (length l - c <= fuel)%nat -> (c <= length l)%nat ->
  (forall i v, nth_error l i = Some v -> (i < c)%nat -> st v < bound) ->
  exists c', seek_adv l bound (S fuel) c = Ok c' /\ (c <= c' <= length l)%nat /\
             (forall i v, nth_error l i = Some v -> (i < c')%nat -> st v < bound).
Proof.
  intros Hs. induction fuel as [|f IH]; intros c Hf Hc Hb.
  - cbn [seek_adv]. destruct (Nat.ltb_spec (c + 1) (length l)); [lia|]. exists c. auto.
  - remember (S f) as f1. cbn [seek_adv]. destruct (Nat.ltb_spec (c + 1) (length l)) as [H|H].
    + destruct (idx_ok l (c + 1)) as (v & Hv & Hn); [lia|]. rewrite Hv. cbn [rbind].
      destruct (N.ltb_spec (st v) bound) as [Hlt|Hge].
      * subst f1. destruct (IH (c + 1)%nat) as (c' & E & Hr & Hb'); [lia|lia| |].
        { intros i w Hw Hi. destruct (Nat.eq_dec i c) as [->|Hne].
          - pose proof (sorted_nth_le _ _ _ _ _ Hs Hw Hn). lia.
          - destruct (Nat.eq_dec i (c + 1)) as [->|Hne2]; [congruence|]. apply (Hb i); [exact Hw|lia]. }
        exists c'. split; [exact E|]. split; [lia|exact Hb'].
      * exists c. split; [reflexivity|]. split; [lia|exact Hb].
    + exists c. split; [reflexivity|]. split; [lia|exact Hb].
Qed.

Theorem seek_find L qs qe c b : LInv L -> CurOK L c b -> b <= qs - max_len L ->
  exists c', lseek L qs qe c = Ok (filter (ovl qs qe) (ivs L), c') /\ CurOK L c' (qs - max_len L).
Proof.
  intros HI (Hc & Hb) Hle. destruct HI as [Hs _ _ _ _ Hml]. unfold lseek.
  set (bound := qs - max_len L) in *.
  assert (Hres : forall c2, (c2 <= length (ivs L))%nat ->
            (forall i v, nth_error (ivs L) i = Some v -> (i < c2)%nat -> st v < bound) ->
            scan qs qe (skipn c2 (ivs L)) = filter (ovl qs qe) (ivs L)).
  { intros c2 _ H2. rewrite scan_filter by (apply sorted_skipn; exact Hs). symmetry.
    apply filter_firstn_none. intros i v Hn Hi. apply (early_no_ovl (max_len L)).
    - apply Hml. eapply nth_error_In; exact Hn.
    - apply (H2 i v Hn Hi). }
  assert (Hreseed : exists c1, (c1 <= length (ivs L))%nat /\
      (forall i v, nth_error (ivs L) i = Some v -> (i < c1)%nat -> st v < bound) /\
      (do reseed <- (if Nat.eqb c 0 then Ok true
                else if Nat.ltb c (length (ivs L)) then do v <- idx (ivs L) c; Ok (qs <? st v)
                else Ok false);
       do c1' <- (if reseed : bool then lower_bound bound (ivs L) else Ok c);
       do c2 <- seek_adv (ivs L) bound (S (length (ivs L))) c1';
       Ok (scan qs qe (skipn c2 (ivs L)), c2)) =
      (do c2 <- seek_adv (ivs L) bound (S (length (ivs L))) c1;
       Ok (scan qs qe (skipn c2 (ivs L)), c2))).
  { pose proof (sorted_st_part bound _ Hs) as (Hk & Ht & _).
    assert (Hlb : forall i v, nth_error (ivs L) i = Some v -> (i < count_if (fun v => N.ltb (st v) bound) (ivs L))%nat -> st v < bound).
    { intros i v Hn Hi. apply N.ltb_lt. eapply Ht; eauto. }
    destruct (Nat.eqb c 0) eqn:E0.
    - cbn [rbind]. rewrite (lower_bound_spec _ _ Hs). cbn [rbind]. eexists. split; [exact Hk|]. split; [exact Hlb|reflexivity].
    - destruct (Nat.ltb_spec c (length (ivs L))) as [Hlt|Hge].
      + destruct (idx_ok (ivs L) c) as (v & Hv & Hn); [lia|]. rewrite Hv. cbn [rbind].
        destruct (qs <? st v).
        * rewrite (lower_bound_spec _ _ Hs). cbn [rbind]. eexists. split; [exact Hk|]. split; [exact Hlb|reflexivity].
        * cbn [rbind]. exists c. split; [lia|]. split; [|reflexivity]. intros i w Hw Hi. specialize (Hb i w Hw Hi). lia.
      + cbn [rbind]. exists c. split; [lia|]. split; [|reflexivity]. intros i w Hw Hi. specialize (Hb i w Hw Hi). lia. }
  destruct Hreseed as (c1 & Hc1 & Hb1 & ->).
  destruct (seek_adv_spec (ivs L) bound Hs (length (ivs L)) c1) as (c2 & E & Hr & Hb2); [lia|lia|exact Hb1|].
  rewrite E. cbn [rbind]. exists c2. rewrite (Hres c2) by (try lia; exact Hb2).
  split; [reflexivity|]. split; [lia|exact Hb2].
Qed.

(* a whole run of queries with non-decreasing starts through one cursor that began at 0 *)
Fixpoint seek_all (L : lapper) (qs : list (N * N)) (c : nat) : res (list (list iv)) :=
  match qs with
  | [] => Ok []
  | (s, e) :: t => do hc <- lseek L s e c; do rest <- seek_all L t (snd hc); Ok (fst hc :: rest)
  end.
Fixpoint ascending (lo : N) (qs : list (N * N)) : Prop :=
  match qs with [] => True | (s, _) :: t => lo <= s /\ ascending s t end.

Lemma seek_all_spec L : LInv L -> forall qs c lo, CurOK L c (lo - max_len L) -> ascending lo qs ->
  seek_all L qs c = Ok (map (fun q => filter (ovl (fst q) (snd q)) (ivs L)) qs).
Proof.
  intros HI. induction qs as [|(s, e) t IH]; intros c lo Hc Ha; cbn [seek_all map]; [reflexivity|].
  destruct Ha as (Hlo & Ha).
  destruct (seek_find L s e c (lo - max_len L) HI Hc) as (c' & E & Hc'); [lia|].
  rewrite E. cbn [rbind snd fst]. rewrite (IH c' s Hc' Ha). reflexivity.
Qed.

Theorem seek_run L qs : LInv L -> ascending 0 qs ->
  seek_all L qs 0 = Ok (map (fun q => filter (ovl (fst q) (snd q)) (ivs L)) qs).
Proof.
  intros HI Ha. apply (seek_all_spec L HI qs 0%nat 0); [|exact Ha].
  split; [lia|]. intros i v _ Hi. lia.
Qed.

(* ---------- count ---------- *)
Lemma skip_eq_spec l x : sortedN l -> forall fuel first,
  first = count_if (fun v => v <? x) l -> (length l - first < fuel)%nat ->
  skip_eq l x fuel first = count_if (fun v => v <=? x) l.
Proof.
  (* by induction on the sorted list: the elements < x come first, then those = x *)
  intros Hs. induction Hs as [|y t Hs IH Hall]; intros fuel first Hf Hfu.
  - subst. destruct fuel; reflexivity.
  - unfold count_if in *. cbn [filter] in *.
    assert (Hmono : forall z, In z t -> y <= z).
    { rewrite Forall_forall in Hall. intros z Hz. apply leN_iff. auto. }
    destruct (N.ltb_spec y x) as [Hlt|Hge].
    + (* y < x : skip_eq looks past position 0 only through nth_error of the tail *)
      destruct (N.leb_spec y x); [|lia]. cbn [length] in *.
      subst first.
      assert (Hgen : forall fuel k, skip_eq (y :: t) x fuel (S k) = S (skip_eq t x fuel k)).
      { induction fuel0 as [|f IHf]; intros k; cbn [skip_eq]; [reflexivity|].
        cbn [nth_error]. destruct (nth_error t k) as [v|]; [|reflexivity].
        destruct (v =? x); [rewrite IHf|]; reflexivity. }
      rewrite Hgen. f_equal. apply IH; [reflexivity|lia].
    + (* y >= x: nothing in the list is < x *)
      assert (Hz : filter (fun v => v <? x) t = []).
      { clear - Hmono Hge. induction t as [|z t IH]; [reflexivity|]. cbn [filter].
        destruct (N.ltb_spec z x) as [H|H]; [specialize (Hmono z (or_introl eq_refl)); lia|].
        apply IH. intros w Hw. apply Hmono. right. exact Hw. }
      rewrite Hz in *. cbn [length] in Hf. subst first.
      destruct (N.leb_spec y x) as [Hle|Hgt].
      * assert (y = x) by lia. subst y.
        destruct fuel as [|fuel]; [cbn [length] in Hfu; lia|]. cbn [skip_eq nth_error]. rewrite N.eqb_refl.
        cbn [length].
        assert (Hgen : forall fuel k, skip_eq (x :: t) x fuel (S k) = S (skip_eq t x fuel k)).
        { induction fuel0 as [|f IHf]; intros k; cbn [skip_eq]; [reflexivity|].
          cbn [nth_error]. destruct (nth_error t k) as [v|]; [|reflexivity].
          destruct (v =? x); [rewrite IHf|]; reflexivity. }
        rewrite Hgen. f_equal. apply IH; [reflexivity|cbn [length] in Hfu; lia].
      * assert (Hz2 : filter (fun v => v <=? x) t = []).
        { clear - Hmono Hgt. induction t as [|z t IH]; [reflexivity|]. cbn [filter].
          destruct (N.leb_spec z x) as [H|H]; [specialize (Hmono z (or_introl eq_refl)); lia|].
          apply IH. intros w Hw. apply Hmono. right. exact Hw. }
        rewrite Hz2. cbn [length]. destruct fuel; [reflexivity|]. cbn [skip_eq nth_error].
        destruct (N.eqb_spec y x); [lia|reflexivity].
Qed.

Lemma count_complement {A} (p : A -> bool) l : (count_if p l + count_if (fun x => negb (p x)) l = length l)%nat.
Proof.
  unfold count_if. induction l as [|x t IH]; cbn [filter length]; [reflexivity|].
  destruct (p x); cbn [negb length]; lia.
Qed.

Lemma count_disjoint3 {A} (p q r : A -> bool) l :
  (forall x, In x l -> (p x = true /\ q x = false /\ r x = false) \/ (p x = false /\ q x = true /\ r x = false)
                       \/ (p x = false /\ q x = false /\ r x = true)) ->
  (count_if p l + count_if q l + count_if r l = length l)%nat.
Proof.
  unfold count_if. induction l as [|x t IH]; intros H; cbn [filter length]; [reflexivity|].
  assert (IH' := IH (fun y Hy => H y (or_intror Hy))).
  destruct (H x (or_introl eq_refl)) as [(->&->&->)|[(->&->&->)|(->&->&->)]]; cbn [length]; lia.
Qed.

Theorem count_find L qs qe : LInv L -> (forall i, In i (ivs L) -> st i <= en i) -> qs < qe ->
  lcount L qs qe = Ok (length (filter (ovl qs qe) (ivs L))).
Proof.
  intros [Hs Hss Hsp Hes Hep _] Hle Hq. unfold lcount, lcount_gen.
  rewrite (bsearch_N_spec _ _ Hes), (bsearch_N_spec _ _ Hss). cbn [rbind].
  rewrite (skip_eq_spec _ _ Hes) by (try reflexivity; pose proof (count_if_le (fun v => v <? qs) (stops L));
    apply Permutation_length in Hep; rewrite map_length in Hep; lia).
  rewrite (count_if_perm _ _ _ Hep), (count_if_perm _ _ _ Hsp), !count_if_map.
  pose proof (count_disjoint3 (fun i => en i <=? qs) (fun i => negb (st i <? qe)) (ovl qs qe) (ivs L)) as Hd.
  pose proof (count_complement (fun i => st i <? qe) (ivs L)) as Hc.
  fold (count_if (ovl qs qe) (ivs L)).
  assert (Hd' : (count_if (fun i => N.leb (en i) qs) (ivs L) + count_if (fun i => negb (N.ltb (st i) qe)) (ivs L) +
                 count_if (ovl qs qe) (ivs L) = length (ivs L))%nat).
  { apply Hd. intros x Hx. specialize (Hle x Hx). unfold ovl.
    destruct (N.leb_spec (en x) qs), (N.ltb_spec (st x) qe), (N.ltb_spec qs (en x)); cbn [negb andb]; try lia; auto. }
  set (a := count_if (fun i => en i <=? qs) (ivs L)) in *.
  set (b := count_if (fun i => st i <? qe) (ivs L)) in *.
  set (nb := count_if (fun i => negb (st i <? qe)) (ivs L)) in *.
  set (n := length (ivs L)) in *.
  destruct (Nat.ltb_spec n b); [lia|].
  destruct (Nat.ltb_spec n a); [lia|].
  destruct (Nat.ltb_spec (n - a) (n - b)); [lia|].
  f_equal. lia.
Qed.

(* ---------- merge_overlaps keeps the invariant (intervals with start <= stop) ---------- *)
Definition le_ivs (l : list iv) : Prop := forall i, In i l -> st i <= en i.
Definition before (a b : iv) : Prop := en a < st b.
Notation strictK := (StronglySorted before).

Lemma sorted_snoc {A} (R : A -> A -> Prop) l x :
  StronglySorted R (l ++ [x]) <-> StronglySorted R l /\ Forall (fun a => R a x) l.
Proof.
  induction l as [|y t IH]; cbn [app].
  - split; [intros _; split; constructor|intros _; constructor; constructor].
  - split.
    + intros H. inversion H as [|? ? Hs Hall]; subst. apply IH in Hs. destruct Hs as (Hs & Hx).
      apply Forall_app in Hall. destruct Hall as (Ha & Hb). inversion Hb; subst.
      split; [constructor; assumption|constructor; assumption].
    + intros (H & Hx). inversion H as [|? ? Hs Hall]; subst. inversion Hx; subst.
      constructor; [apply IH; split; assumption|]. apply Forall_app. split; [assumption|constructor; [assumption|constructor]].
Qed.

Lemma merge_pass_strict : forall l acc,
  strictK (rev acc) -> le_ivs acc -> le_ivs l ->
  strictK (merge_pass acc l) /\ le_ivs (merge_pass acc l).
Proof.
  induction l as [|i t IH]; intros acc Hs Hacc Hl; cbn [merge_pass].
  - split; [exact Hs|]. intros x Hx. apply Hacc. apply in_rev. exact Hx.
  - assert (Hi : st i <= en i) by (apply Hl; left; reflexivity).
    assert (Ht : le_ivs t) by (intros x Hx; apply Hl; right; exact Hx).
    destruct acc as [|top rest].
    + apply IH; [cbn; constructor; constructor| |exact Ht]. intros x [<-|[]]. exact Hi.
    + assert (Htop : st top <= en top) by (apply Hacc; left; reflexivity).
      cbn [rev] in Hs. apply sorted_snoc in Hs. destruct Hs as (Hs & Hall).
      destruct (N.ltb_spec (en top) (st i)) as [H1|H1].
      * apply IH; [|intros x [<-|Hx]; [exact Hi|apply Hacc; exact Hx]|exact Ht].
        cbn [rev]. apply sorted_snoc. split; [apply sorted_snoc; split; assumption|].
        apply Forall_app. split; [|constructor; [exact H1|constructor]].
        rewrite Forall_forall in *. intros a Ha. specialize (Hall a Ha). unfold before in *. lia.
      * destruct (N.ltb_spec (en top) (en i)) as [H2|H2].
        -- apply IH; [| |exact Ht].
           ++ cbn [rev]. apply sorted_snoc. split; [exact Hs|]. exact Hall.
           ++ intros x [<-|Hx]; [cbn; lia|apply Hacc; right; exact Hx].
        -- apply IH; [|exact Hacc|exact Ht]. cbn [rev]. apply sorted_snoc. split; assumption.
Qed.

Lemma strict_sortedK l : strictK l -> le_ivs l -> sortedK l.
Proof.
  induction 1 as [|y t Hs IH Hall]; intros Hle; [constructor|].
  constructor; [apply IH; intros x Hx; apply Hle; right; exact Hx|].
  rewrite Forall_forall in *. intros z Hz. specialize (Hall z Hz). unfold before in Hall.
  assert (st y <= en y) by (apply Hle; left; reflexivity).
  unfold leR. apply key_ltb_false. lia.
Qed.

Lemma lmerge_inv L : le_ivs (ivs L) -> LInv (lmerge L) /\ le_ivs (ivs (lmerge L)).
Proof.
  intros Hle. destruct (merge_pass_strict (ivs L) []) as (Hs & Hl); [constructor|intros x []|exact Hle|].
  split; [|exact Hl]. unfold lmerge. constructor; cbn [ivs starts stops max_len].
  - apply strict_sortedK; assumption.
  - apply isort_sorted; [exact N_asym|exact N_le_trans].
  - apply isort_perm.
  - apply isort_sorted; [exact N_asym|exact N_le_trans].
  - apply isort_perm.
  - apply max_ilen_spec.
Qed.

(* ---------- every reachable state: Lapper::new l followed by any history ---------- *)
Definition le_op (o : lop) : Prop := match o with Insert i => st i <= en i | _ => True end.

Theorem reach_inv l h : le_ivs l -> Forall le_op h ->
  exists L, lrun l h = Ok L /\ LInv L /\ le_ivs (ivs L).
Proof.
  intros Hl Hh. unfold lrun.
  assert (H0 : LInv (lnew l) /\ le_ivs (ivs (lnew l))).
  { split; [apply lnew_inv|]. intros x Hx. apply Hl. apply (Permutation_in _ (lnew_perm l)). exact Hx. }
  revert H0. generalize (lnew l). induction Hh as [|o t Ho Ht IH]; intros L (HI & HL); cbn [fold_left].
  - exists L. auto.
  - destruct o as [i| |]; cbn [lstep rbind].
    + destruct (linsert_spec L i HI) as (L' & E & HI' & Hp & _). rewrite E. apply IH. split; [exact HI'|].
      intros x Hx. apply (Permutation_in _ Hp) in Hx. destruct Hx as [<-|Hx]; [exact Ho|apply HL; exact Hx].
    + apply IH. apply lmerge_inv. exact HL.
    + apply IH. split; [apply lset_cov_inv; exact HI|exact HL].
Qed.

(* insert-only histories need no assumption on the intervals at all (zero-length, stop < start) *)
Lemma inserts_inv : forall ins L base, LInv L -> Permutation (ivs L) base ->
  exists L2, fold_left (fun r i => do L <- r; linsert L i) ins (Ok L) = Ok L2 /\ LInv L2 /\ Permutation (ivs L2) (base ++ ins).
Proof.
  induction ins as [|i t IH]; intros L base HI HP; cbn [fold_left].
  - exists L. rewrite app_nil_r. auto.
  - cbn [rbind]. destruct (linsert_spec L i HI) as (L' & E & HI' & Hp & _). rewrite E.
    destruct (IH L' (base ++ [i]) HI') as (L2 & E2 & HI2 & HP2).
    + rewrite Hp, HP. apply Permutation_cons_append.
    + exists L2. split; [exact E2|]. split; [exact HI2|]. rewrite HP2, <- app_assoc. reflexivity.
Qed.

Theorem reach_inv_inserts l ins :
  exists L, fold_left (fun r i => do L <- r; linsert L i) ins (Ok (lnew l)) = Ok L /\ LInv L /\ Permutation (ivs L) (l ++ ins).
Proof. apply inserts_inv; [apply lnew_inv|apply lnew_perm]. Qed.

(* ---------- property-level statements C16 / C17 ---------- *)
Lemma c16_count_equals_find : forall l h qs qe,
  le_ivs l -> Forall le_op h -> qs < qe ->
  exists L, lrun l h = Ok L /\
    lfind L qs qe = Ok (filter (ovl qs qe) (ivs L)) /\
    lcount L qs qe = Ok (length (filter (ovl qs qe) (ivs L))).
Proof.
  intros l h qs qe Hl Hh Hq. destruct (reach_inv l h Hl Hh) as (L & E & HI & HL).
  exists L. split; [exact E|]. split; [apply find_filter; exact HI|apply count_find; assumption].
Qed.

(* the code as found (first-element test `>`): count is wrong when q.stop = the smallest start *)
Lemma c16_orig_refuted : exists l qs qe, le_ivs l /\ qs < qe /\
  lcount_orig (lnew l) qs qe <> Ok (length (filter (ovl qs qe) (ivs (lnew l)))).
Proof.
  exists [mkiv 5 10 0], 1, 5. split; [intros i [<-|[]]; cbn; lia|]. split; [lia|]. vm_compute. discriminate.
Qed.

Lemma c17_seek_equals_find : forall l h qs,
  le_ivs l -> Forall le_op h -> ascending 0 qs ->
  exists L, lrun l h = Ok L /\
    seek_all L qs 0 = Ok (map (fun q => filter (ovl (fst q) (snd q)) (ivs L)) qs) /\
    forall q, In q qs -> lfind L (fst q) (snd q) = Ok (filter (ovl (fst q) (snd q)) (ivs L)).
Proof.
  intros l h qs Hl Hh Ha. destruct (reach_inv l h Hl Hh) as (L & E & HI & HL).
  exists L. split; [exact E|]. split; [apply seek_run; assumption|]. intros q _. apply find_filter. exact HI.
Qed.

(* insert-only histories: arbitrary intervals (also stop < start) *)
Lemma c17_seek_equals_find_any : forall l ins qs, ascending 0 qs ->
  exists L, fold_left (fun r i => do L <- r; linsert L i) ins (Ok (lnew l)) = Ok L /\
    seek_all L qs 0 = Ok (map (fun q => filter (ovl (fst q) (snd q)) (ivs L)) qs) /\
    Permutation (ivs L) (l ++ ins).
Proof.
  intros l ins qs Ha. destruct (reach_inv_inserts l ins) as (L & E & HI & HP).
  exists L. split; [exact E|]. split; [apply seek_run; assumption|exact HP].
Qed.

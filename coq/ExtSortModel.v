(* ExtSortModel.v — Gallina transliteration of src/extsort/{chunk,merger,sort}.rs.
   chunk.rs: dump / ExternalChunk::next over an abstract storage that answers each write / read call
   from a fault plan (the std::io::Write / Read contract: short counts, Interrupted, hard errors);
   merger.rs: BinaryHeapMerger::next; sort.rs: run formation + per-run sort + merge.
   Records are (key, id) pairs compared by key (natural or reversed) for the merger / sorter, and
   byte blobs (Vec<u8>, bincode DefaultOptions = varint length prefix + bytes) for the chunk codec. *)
From BedV Require Import Base AlgebraModel.

(* ---------- little-endian u64, bincode varint, Vec<u8> ---------- *)
Fixpoint le_bytes (n : nat) (x : N) : bytes :=
  match n with O => [] | S k => (x mod 256) :: le_bytes k (x / 256) end.
Fixpoint le_val (l : bytes) : N := match l with [] => 0 | b :: t => b + 256 * le_val t end.
Definition le64 (x : N) : bytes := le_bytes 8 x.
(* bincode varint (DefaultOptions): u < 251 one byte; else marker 251/252/253 + u16/u32/u64 LE *)
Definition varint (u : N) : bytes :=
  if u <? 251 then [u]
  else if u <? 65536 then 251 :: le_bytes 2 u
  else if u <? 4294967296 then 252 :: le_bytes 4 u
  else 253 :: le_bytes 8 u.
Definition ser_blob (v : bytes) : bytes := varint (N.of_nat (length v)) ++ v.
Definition de_varint (s : bytes) : option (N * bytes) :=
  match s with
  | [] => None
  | m :: t =>
    if m <? 251 then Some (m, t)
    else let k := if m =? 251 then 2%nat else if m =? 252 then 4%nat else if m =? 253 then 8%nat else 0%nat in
         if Nat.eqb k 0 then None
         else if Nat.ltb (length t) k then None
         else Some (le_val (firstn k t), skipn k t)
  end.
(* deserialize: exactly one Vec<u8>, no trailing bytes (bincode rejects trailing bytes by default) *)
Definition de_blob (s : bytes) : option bytes :=
  match de_varint s with
  | Some (n, rest) => if N.of_nat (length rest) =? n then Some rest else None
  | None => None
  end.
Definition frame (v : bytes) : bytes := le64 (N.of_nat (length (ser_blob v))) ++ ser_blob v.
Definition frames (items : list bytes) : bytes := concat (map frame items).

(* ---------- the Write contract ---------- *)
Inductive wop := WAccept (k : nat) | WZero | WErr | WIntr.
Record wstore := mkW { w_stored : bytes; w_plan : list wop }.
Inductive wres := WOk (n : nat) | WFailHard | WFailIntr.
(* one call of Write::write(buf), buf non-empty: answered from the plan; empty plan = accept all *)
Definition sys_write (st : wstore) (buf : bytes) : wstore * wres :=
  match w_plan st with
  | [] => (mkW (w_stored st ++ buf) [], WOk (length buf))
  | WAccept k :: p => let n := Nat.min (Nat.max k 1) (length buf) in
                      (mkW (w_stored st ++ firstn n buf) p, WOk n)
  | WZero :: p => (mkW (w_stored st) p, WOk 0)
  | WErr :: p => (mkW (w_stored st) p, WFailHard)
  | WIntr :: p => (mkW (w_stored st) p, WFailIntr)
  end.
Inductive ioerr := EWriteZero | EOther | EUnexpectedEof.
(* std::io::Write::write_all *)
Fixpoint write_all (fuel : nat) (st : wstore) (buf : bytes) : wstore * option ioerr :=
  match buf with
  | [] => (st, None)
  | _ =>
    match fuel with
    | O => (st, Some EOther)                                   (* out of fuel: excluded by the theorems *)
    | S f =>
      let (st', r) := sys_write st buf in
      match r with
      | WOk O => (st', Some EWriteZero)
      | WOk n => write_all f st' (skipn n buf)
      | WFailIntr => write_all f st' buf
      | WFailHard => (st', Some EOther)
      end
    end
  end.
Definition wa_fuel (st : wstore) (buf : bytes) : nat := S (length buf + length (w_plan st)).
(* dump (repaired: payload written with write_all) *)
Fixpoint dump (st : wstore) (items : list bytes) : wstore * option ioerr :=
  match items with
  | [] => (st, None)
  | v :: t =>
    let p := ser_blob v in
    let (st1, e1) := write_all (wa_fuel st (le64 0)) st (le64 (N.of_nat (length p))) in
    match e1 with
    | Some e => (st1, Some e)
    | None =>
      let (st2, e2) := write_all (wa_fuel st1 p) st1 p in
      match e2 with Some e => (st2, Some e) | None => dump st2 t end
    end
  end.
(* the code as found: payload written with a single write() whose count is ignored (finding F8) *)
Fixpoint dump_orig (st : wstore) (items : list bytes) : wstore * option ioerr :=
  match items with
  | [] => (st, None)
  | v :: t =>
    let p := ser_blob v in
    let (st1, e1) := write_all (wa_fuel st (le64 0)) st (le64 (N.of_nat (length p))) in
    match e1 with
    | Some e => (st1, Some e)
    | None =>
      match p with
      | [] => dump_orig st1 t
      | _ => let (st2, r) := sys_write st1 p in
             match r with WOk _ => dump_orig st2 t | _ => (st2, Some EOther) end
      end
    end
  end.

(* ---------- the Read contract ---------- *)
Inductive rop := RGive (k : nat) | RIntr | RErr.
Record rstore := mkR { r_data : bytes; r_plan : list rop }.
Inductive rres := ROk (got : bytes) | RFailHard | RFailIntr.
Definition sys_read (st : rstore) (req : nat) : rstore * rres :=
  match r_plan st with
  | [] => let n := Nat.min req (length (r_data st)) in (mkR (skipn n (r_data st)) [], ROk (firstn n (r_data st)))
  | RGive k :: p => let n := Nat.min (Nat.min (Nat.max k 1) req) (length (r_data st)) in
                    (mkR (skipn n (r_data st)) p, ROk (firstn n (r_data st)))
  | RIntr :: p => (mkR (r_data st) p, RFailIntr)
  | RErr :: p => (mkR (r_data st) p, RFailHard)
  end.
(* std::io::Read::read_exact *)
Fixpoint read_exact (fuel : nat) (st : rstore) (req : nat) (acc : bytes) : rstore * (bytes + ioerr) :=
  match req with
  | O => (st, inl acc)
  | _ =>
    match fuel with
    | O => (st, inr EOther)
    | S f =>
      let (st', r) := sys_read st req in
      match r with
      | ROk [] => (st', inr EUnexpectedEof)
      | ROk got => read_exact f st' (req - length got) (acc ++ got)
      | RFailIntr => read_exact f st' req acc
      | RFailHard => (st', inr EOther)
      end
    end
  end.
Definition re_fuel (st : rstore) (req : nat) : nat := S (req + length (r_plan st)).
Inductive citem := CItem (v : bytes) | CIoErr | CDeErr.
(* ExternalChunk::next : None = end of chunk *)
Definition chunk_next (st : rstore) : rstore * option citem :=
  let (st1, h) := read_exact (re_fuel st 8) st 8 [] in
  match h with
  | inr EUnexpectedEof => (st1, None)
  | inr _ => (st1, Some CIoErr)
  | inl hb =>
    let size := N.to_nat (le_val hb) in
    let (st2, p) := read_exact (re_fuel st1 size) st1 size [] in
    match p with
    | inr _ => (st2, Some CIoErr)
    | inl pb => (st2, Some (match de_blob pb with Some v => CItem v | None => CDeErr end))
    end
  end.
(* drain until the end or the first error item *)
Fixpoint chunk_all (fuel : nat) (st : rstore) : list citem :=
  match fuel with
  | O => []
  | S f => match chunk_next st with
           | (_, None) => []
           | (st', Some (CItem v)) => CItem v :: chunk_all f st'
           | (_, Some e) => [e]
           end
  end.
Definition chunk_read (data : bytes) (plan : list rop) : list citem :=
  chunk_all (S (length data)) (mkR data plan).

(* outcome-level oracle for stacks that wrap the storage (BufWriter, lz4): given the items, whether
   dump returned Ok, what the reader produced and whether a hard fault was planned *)
Definition citem_eqb (a b : citem) : bool :=
  match a, b with CItem x, CItem y => bytes_eqb x y | CIoErr, CIoErr => true | CDeErr, CDeErr => true | _, _ => false end.
Fixpoint list_eqb {A} (eqb : A -> A -> bool) (l1 l2 : list A) : bool :=
  match l1, l2 with [] , [] => true | x :: t1, y :: t2 => eqb x y && list_eqb eqb t1 t2 | _, _ => false end.
Fixpoint is_ok_prefix_then_err (items : list bytes) (got : list citem) : bool :=
  match got, items with
  | [CIoErr], _ => true
  | [CDeErr], _ => false
  | CItem v :: g, x :: t => bytes_eqb v x && is_ok_prefix_then_err t g
  | _, _ => false
  end.
Definition chunk_oracle (items : list bytes) (dump_ok : bool) (got : list citem) (hard_fault_planned : bool) : bool :=
  negb dump_ok
  || list_eqb citem_eqb got (map CItem items)
  || (hard_fault_planned && is_ok_prefix_then_err items got).

(* ---------- merger.rs ---------- *)
Inductive mitem := MOk (k id : N) | MErr (tag : N).
Record mstate := mkM { m_chunks : list (list mitem); m_heap : list (N * N * nat); m_init : bool }.
Definition kcmp (rev : bool) (a b : N) : comparison := if rev then b ?= a else a ?= b.
(* BinaryHeap<(Reverse<item>, idx)>::pop : the greatest element; x is better than y when its key is
   smaller under the comparator, or equal with a larger chunk index *)
Definition better (rev : bool) (x y : N * N * nat) : bool :=
  match kcmp rev (fst (fst x)) (fst (fst y)) with
  | Lt => true | Gt => false | Eq => Nat.ltb (snd y) (snd x)
  end.
Fixpoint pop_best (rev : bool) (h : list (N * N * nat)) : option ((N * N * nat) * list (N * N * nat)) :=
  match h with
  | [] => None
  | x :: t => match pop_best rev t with
              | None => Some (x, [])
              | Some (y, r) => if better rev y x then Some (y, x :: r) else Some (x, t)
              end
  end.
Fixpoint set_nth {A} (l : list A) (i : nat) (x : A) : list A :=
  match l, i with [] , _ => [] | _ :: t, O => x :: t | y :: t, S j => y :: set_nth t j x end.
(* the priming loop: returns the first Err met (its chunk head consumed) or the primed heap *)
Fixpoint prime (chunks : list (list mitem)) (ci : nat) (heap : list (N * N * nat))
  : list (list mitem) * list (N * N * nat) * option N :=
  match chunks with
  | [] => ([], heap, None)
  | c :: t =>
    match c with
    | [] => let '(t', h', e) := prime t (S ci) heap in (c :: t', h', e)
    | MOk k id :: c' => let '(t', h', e) := prime t (S ci) ((k, id, ci) :: heap) in (c' :: t', h', e)
    | MErr tag :: c' => (c' :: t, heap, Some tag)
    end
  end.
Inductive mout := OutOk (k id : N) | OutErr (tag : N).
(* BinaryHeapMerger::next *)
Definition merger_next (rev : bool) (s : mstate) : res (mstate * option mout) :=
  let '(chunks1, heap1, e) := if m_init s then (m_chunks s, m_heap s, None) else prime (m_chunks s) 0 (m_heap s) in
  match e with
  | Some tag => Ok (mkM chunks1 heap1 false, Some (OutErr tag))
  | None =>
    match pop_best rev heap1 with
    | None => Ok (mkM chunks1 heap1 true, None)
    | Some ((k, id, ci), heap2) =>
      do c <- idx chunks1 ci;
      match c with
      | [] => Ok (mkM chunks1 heap2 true, Some (OutOk k id))
      | MOk k' id' :: c' => Ok (mkM (set_nth chunks1 ci c') ((k', id', ci) :: heap2) true, Some (OutOk k id))
      | MErr tag :: c' => Ok (mkM (set_nth chunks1 ci c') heap2 true, Some (OutErr tag))
      end
    end
  end.
(* call next [n] times *)
Fixpoint merger_calls (rev : bool) (n : nat) (s : mstate) : res (list (option mout)) :=
  match n with
  | O => Ok []
  | S k => do r <- merger_next rev s; do rest <- merger_calls rev k (fst r); Ok (snd r :: rest)
  end.
(* drain until the first None *)
Fixpoint merger_drain (rev : bool) (fuel : nat) (s : mstate) : res (list mout) :=
  match fuel with
  | O => Panic
  | S f => do r <- merger_next rev s;
           match snd r with
           | None => Ok []
           | Some o => do rest <- merger_drain rev f (fst r); Ok (o :: rest)
           end
  end.
Definition total_len (chunks : list (list mitem)) : nat := fold_right (fun c a => (length c + a)%nat) 0%nat chunks.
Definition merge_all (rev : bool) (chunks : list (list mitem)) : res (list mout) :=
  merger_drain rev (S (S (total_len chunks))) (mkM chunks [] false).

(* outcome-level oracle for the merged stream (used when the exact sequence differs only by tie-breaking):
   outs = what the consumer saw up to the first None *)
Definition is_merr (x : mitem) : bool := match x with MErr _ => true | _ => false end.
Fixpoint ok_prefix (outs : list mout) : list (N * N) :=
  match outs with OutOk k id :: t => (k, id) :: ok_prefix t | _ => [] end.
Definition has_out_err (outs : list mout) : bool := existsb (fun o => match o with OutErr _ => true | _ => false end) outs.
Fixpoint sorted_keys (rev : bool) (l : list (N * N)) : bool :=
  match l with
  | a :: ((b :: _) as t) => (match kcmp rev (fst a) (fst b) with Gt => false | _ => true end) && sorted_keys rev t
  | _ => true
  end.
Fixpoint remove_one (x : N * N) (l : list (N * N)) : option (list (N * N)) :=
  match l with
  | [] => None
  | y :: t => if (fst x =? fst y) && (snd x =? snd y) then Some t
              else match remove_one x t with Some r => Some (y :: r) | None => None end
  end.
Fixpoint sub_multiset (a b : list (N * N)) : option (list (N * N)) :=   (* Some (b minus a) when a is contained in b *)
  match a with [] => Some b | x :: t => match remove_one x b with Some b' => sub_multiset t b' | None => None end end.
Definition all_oks (chunks : list (list mitem)) : list (N * N) :=
  flat_map (fun c => flat_map (fun x => match x with MOk k id => [(k, id)] | MErr _ => [] end) c) chunks.
Definition merge_oracle (rev : bool) (chunks : list (list mitem)) (outs : list mout) : bool :=
  let planted := existsb (existsb is_merr) chunks in
  let pre := ok_prefix outs in
  sorted_keys rev pre &&
  (if has_out_err outs
   then planted && (match sub_multiset pre (all_oks chunks) with Some _ => true | None => false end)
   else negb planted && (match sub_multiset pre (all_oks chunks) with Some [] => Nat.eqb (length pre) (length outs) | _ => false end)).

(* ---------- sort.rs ---------- *)
(* run formation: push; flush when len >= chunk_size; flush the non-empty tail *)
Fixpoint runs_loop {A} (cs : nat) (buf : list A) (l : list A) : list (list A) :=
  match l with
  | [] => match buf with [] => [] | _ => [rev buf] end
  | x :: t => let buf' := x :: buf in
              if Nat.leb cs (length buf') then rev buf' :: runs_loop cs [] t else runs_loop cs buf' t
  end.
Definition runs {A} (cs : nat) (l : list A) : list (list A) := runs_loop cs [] l.
Definition kltb (rev : bool) (a b : N * N) : bool := match kcmp rev (fst a) (fst b) with Lt => true | _ => false end.
(* sort_by with [srt] standing for par_sort_unstable_by (any sorting function; the runner uses isort) *)
Definition ext_sort (srt : list (N * N) -> list (N * N)) (rev : bool) (cs : nat) (input : list (N * N))
  : res (nat * list mout) :=
  let chunks := map (fun r => map (fun x => MOk (fst x) (snd x)) (srt r)) (runs cs input) in
  do out <- merge_all rev chunks; Ok (length input, out).
Definition ext_sort_isort (rev : bool) (cs : nat) (input : list (N * N)) := ext_sort (isort (kltb rev)) rev cs input.

(* ---------- temp-directory protocol (C15): judged on directory listings taken by the harness ---------- *)
(* a listing is the recursive list of entry names (paths relative to a scratch root that holds the configured
   directory [cfg] and, next to it, the directory that TMPDIR points to); [before] = at build time, [during] = any
   snapshot while the sorter or its iterator is alive, [after] = once both have been dropped *)
Definition str_in (x : bytes) (l : list bytes) : bool := existsb (bytes_eqb x) l.
Definition subset_b (a b : list bytes) : bool := forallb (fun x => str_in x b) a.
Definition same_set (a b : list bytes) : bool := subset_b a b && subset_b b a.
Definition new_entries (before l : list bytes) : list bytes := filter (fun x => negb (str_in x before)) l.
Definition has_sep (x : bytes) : bool := existsb (fun b => b =? 47) x.
Fixpoint strip_prefix (p s : bytes) : option bytes :=
  match p, s with
  | [], _ => Some s
  | _ :: _, [] => None
  | a :: p', b :: s' => if a =? b then strip_prefix p' s' else None
  end.
(* d is a direct child of the configured directory: cfg ++ "/" ++ name, name without '/' and non-empty *)
Definition direct_child (cfg d : bytes) : bool :=
  match strip_prefix (cfg ++ [47]) d with
  | Some name => negb (has_sep name) && negb (match name with [] => true | _ => false end)
  | None => false
  end.
(* entries not present before: every one of them lives UNDER the configured directory (the sorter's own directory and
   whatever it keeps inside it, at any depth; how many entries, their names and their nesting are not specified by the
   property), nothing anywhere else, e.g. under TMPDIR when a directory was configured *)
Definition under_cfg (cfg p : bytes) : bool := match strip_prefix (cfg ++ [47]) p with Some _ => true | None => false end.
Definition during_ok' (cfg : bytes) (before l : list bytes) : bool :=
  subset_b before l && forallb (under_cfg cfg) (new_entries before l).
Definition tmp_ok (cfg : bytes) (before : list bytes) (during : list (list bytes)) (after : list bytes) : bool :=
  forallb (during_ok' cfg before) during && same_set before after.
(* files the process holds open under the scratch root at a snapshot (also already unlinked ones, which no listing
   shows): each must live under the configured directory *)
Definition tmp_open_ok (cfg : bytes) (opens : list (list bytes)) : bool := forallb (forallb (under_cfg cfg)) opens.

(* Base.v — common imports, small generic definitions used by every model file.
   Stdlib only.  No axioms. *)
From Coq Require Export List Arith NArith ZArith Lia Bool Sorting.Sorted Sorting.Permutation.
Export ListNotations.
Global Open Scope N_scope.

Arguments N.add : simpl never.
Arguments N.sub : simpl never.
Arguments N.mul : simpl never.
Arguments N.div : simpl never.
Arguments N.modulo : simpl never.
Arguments N.eqb : simpl never.
Arguments N.ltb : simpl never.
Arguments N.leb : simpl never.
Arguments N.max : simpl never.
Arguments N.min : simpl never.

(* Outcome of a modelled API call: a value, or a Rust panic
   (index out of bounds, unwrap on None, overflow with checks on, explicit panic!). *)
Inductive res (A : Type) : Type := Ok (a : A) | Panic.
Arguments Ok {A} a.
Arguments Panic {A}.

Definition rbind {A B} (r : res A) (f : A -> res B) : res B :=
  match r with Ok a => f a | Panic => Panic end.
Notation "'do' x <- r ; k" := (rbind r (fun x => k)) (at level 200, x pattern, r at level 100, k at level 200).

Definition of_opt {A} (o : option A) : res A := match o with Some a => Ok a | None => Panic end.

(* Vec indexing: v[i] panics when i >= len *)
Definition idx {A} (l : list A) (i : nat) : res A := of_opt (nth_error l i).

(* Vec::insert(i, x): panics when i > len *)
Definition vec_insert {A} (i : nat) (x : A) (l : list A) : res (list A) :=
  if Nat.leb i (length l) then Ok (firstn i l ++ x :: skipn i l) else Panic.

(* stable insertion sort w.r.t. a strict "less than" test:
   [x] is placed before the first element that is not less than it *)
Section Sort.
  Context {A : Type} (ltb : A -> A -> bool).
  Fixpoint ins (x : A) (l : list A) : list A :=
    match l with
    | [] => [x]
    | y :: t => if ltb y x then y :: ins x t else x :: l
    end.
  Definition isort (l : list A) : list A := fold_right ins [] l.
End Sort.

Definition count_if {A} (p : A -> bool) (l : list A) : nat := length (filter p l).

(* ChunkProofs.v — C09: the chunk codec (src/extsort/chunk.rs) over a faulty storage.
   dump writes exactly the frames of the items or reports an error that a hard storage fault caused;
   ExternalChunk::next reads back exactly the items, or a prefix of them followed by an I/O error
   that a hard read fault caused.  Stdlib only, no axioms. *)
From BedV Require Import Base AlgebraModel ExtSortModel.

(* ---------- bytes_eqb ---------- *)
Lemma bytes_cmp_eq : forall a b, bytes_cmp a b = Eq <-> a = b.
Proof.
  induction a as [|x a IH]; intros [|y b]; cbn [bytes_cmp]; split; intro H; try reflexivity; try discriminate.
  - destruct (x ?= y) eqn:E; try discriminate. apply N.compare_eq in E. apply IH in H. congruence.
  - injection H as -> ->. rewrite N.compare_refl. apply IH. reflexivity.
Qed.
Lemma bytes_eqb_eq : forall a b, bytes_eqb a b = true <-> a = b.
Proof.
  intros a b. unfold bytes_eqb. rewrite <- bytes_cmp_eq. destruct (bytes_cmp a b); split; intro H; congruence.
Qed.

(* ---------- little-endian integers ---------- *)
Lemma le_bytes_length : forall n x, length (le_bytes n x) = n.
Proof. induction n as [|n IH]; intros x; cbn [le_bytes length]; [reflexivity | now rewrite IH]. Qed.

Lemma le_val_le_bytes : forall n x, x < 256 ^ N.of_nat n -> le_val (le_bytes n x) = x.
Proof.
  induction n as [|n IH]; intros x Hx.
  - cbn [le_bytes le_val]. change (256 ^ N.of_nat 0) with 1 in Hx. lia.
  - cbn [le_bytes le_val]. rewrite Nat2N.inj_succ, N.pow_succ_r' in Hx.
    rewrite IH.
    + pose proof (N.div_mod' x 256). lia.
    + apply N.div_lt_upper_bound; lia.
Qed.

Theorem le_roundtrip : forall n x, x < 256 ^ N.of_nat n -> le_val (le_bytes n x) = x /\ length (le_bytes n x) = n.
Proof. intros n x Hx. split; [apply le_val_le_bytes; exact Hx | apply le_bytes_length]. Qed.

Lemma firstn_le_bytes_app : forall n x (v : bytes), firstn n (le_bytes n x ++ v) = le_bytes n x.
Proof.
  intros n x v. rewrite firstn_app, le_bytes_length, Nat.sub_diag. cbn [firstn].
  rewrite app_nil_r. apply firstn_all2. rewrite le_bytes_length. apply Nat.le_refl.
Qed.
Lemma skipn_le_bytes_app : forall n x (v : bytes), skipn n (le_bytes n x ++ v) = v.
Proof.
  intros n x v. rewrite skipn_app, le_bytes_length, Nat.sub_diag. cbn [skipn].
  rewrite skipn_all2; [reflexivity | rewrite le_bytes_length; apply Nat.le_refl].
Qed.

(* ---------- bincode varint / Vec<u8> ---------- *)
Lemma de_varint_varint : forall u rest, u < 2 ^ 64 -> de_varint (varint u ++ rest) = Some (u, rest).
Proof.
  intros u rest Hu. unfold varint.
  destruct (u <? 251) eqn:E1.
  - cbn [app de_varint]. rewrite E1. reflexivity.
  - apply N.ltb_ge in E1.
    assert (Hlen : forall n, Nat.ltb (length (le_bytes n u ++ rest)) n = false).
    { intros n. apply Nat.ltb_ge. rewrite app_length, le_bytes_length. lia. }
    destruct (u <? 65536) eqn:E2; [|destruct (u <? 4294967296) eqn:E3].
    + apply N.ltb_lt in E2. cbn [app de_varint].
      change (251 <? 251) with false. change (251 =? 251) with true. cbv iota.
      change (Nat.eqb 2 0) with false. cbv iota. rewrite Hlen.
      rewrite firstn_le_bytes_app, skipn_le_bytes_app, le_val_le_bytes; [reflexivity|].
      change (256 ^ N.of_nat 2) with 65536. exact E2.
    + apply N.ltb_lt in E3. cbn [app de_varint].
      change (252 <? 251) with false. change (252 =? 251) with false. change (252 =? 252) with true. cbv iota.
      change (Nat.eqb 4 0) with false. cbv iota. rewrite Hlen.
      rewrite firstn_le_bytes_app, skipn_le_bytes_app, le_val_le_bytes; [reflexivity|].
      change (256 ^ N.of_nat 4) with 4294967296. exact E3.
    + cbn [app de_varint].
      change (253 <? 251) with false. change (253 =? 251) with false. change (253 =? 252) with false.
      change (253 =? 253) with true. cbv iota.
      change (Nat.eqb 8 0) with false. cbv iota. rewrite Hlen.
      rewrite firstn_le_bytes_app, skipn_le_bytes_app, le_val_le_bytes; [reflexivity|].
      change (256 ^ N.of_nat 8) with (2 ^ 64). exact Hu.
Qed.

Theorem de_ser_blob : forall v, N.of_nat (length v) < 2 ^ 64 -> de_blob (ser_blob v) = Some v.
Proof.
  intros v Hv. unfold de_blob, ser_blob. rewrite de_varint_varint by exact Hv.
  rewrite N.eqb_refl. reflexivity.
Qed.

Lemma varint_length_pos : forall u, (1 <= length (varint u))%nat.
Proof.
  intros u. unfold varint.
  destruct (u <? 251); [|destruct (u <? 65536); [|destruct (u <? 4294967296)]]; cbn [length]; lia.
Qed.

Lemma ser_blob_length : forall v, (length v < length (ser_blob v))%nat.
Proof. intros v. unfold ser_blob. rewrite app_length. pose proof (varint_length_pos (N.of_nat (length v))). lia. Qed.

(* ---------- the Write contract ---------- *)
Definition hard_w (op : wop) : Prop := op = WErr \/ op = WZero.

(* any fuel above (bytes left + plan entries left) suffices *)
Lemma write_all_gen : forall fuel st buf st' r,
  (length buf + length (w_plan st) < fuel)%nat ->
  write_all fuel st buf = (st', r) ->
  (forall op, In op (w_plan st') -> In op (w_plan st)) /\
  match r with
  | None => w_stored st' = w_stored st ++ buf
  | Some _ => (exists op, In op (w_plan st) /\ hard_w op) /\
              exists pre suf, buf = pre ++ suf /\ w_stored st' = w_stored st ++ pre
  end.
Proof.
  induction fuel as [|f IH]; intros st buf st' r Hf H; [lia|].
  destruct buf as [|b t].
  { cbn [write_all] in H. injection H as <- <-. split; [auto|]. now rewrite app_nil_r. }
  cbn [write_all] in H. unfold sys_write in H.
  destruct st as [sto plan]. cbn [w_plan w_stored] in *.
  destruct plan as [|op plan].
  - (* empty plan: everything accepted *)
    cbn [length] in H. cbn [skipn] in H. rewrite skipn_all in H.
    destruct f; cbn [write_all] in H; injection H as <- <-; cbn [w_plan w_stored]; split; auto.
  - destruct op as [k| | |].
    + (* WAccept k *)
      set (n := Nat.min (Nat.max k 1) (length (b :: t))) in *.
      assert (Hn1 : (1 <= n)%nat) by (subst n; cbn [length]; lia).
      assert (Hn2 : (n <= length (b :: t))%nat) by (subst n; lia).
      destruct n as [|n']; [lia|].
      apply IH in H; cbn [w_plan w_stored] in *.
      * destruct H as [Hp Hr]. split; [intros op Hop; right; auto|].
        destruct r as [e|].
        -- destruct Hr as [[op [Hop Hh]] [pre [suf [Hb Hs]]]]. split.
           ++ exists op. split; [right; exact Hop | exact Hh].
           ++ exists (firstn (S n') (b :: t) ++ pre), suf. split.
              ** rewrite <- app_assoc, <- Hb. symmetry. apply firstn_skipn.
              ** rewrite Hs. now rewrite app_assoc.
        -- rewrite Hr, <- app_assoc. now rewrite firstn_skipn.
      * rewrite skipn_length. cbn [length] in *. lia.
    + (* WZero *)
      injection H as <- <-. cbn [w_plan w_stored]. split; [intros op Hop; right; exact Hop|]. split.
      * exists WZero. split; [left; reflexivity | right; reflexivity].
      * exists [], (b :: t). split; [reflexivity | now rewrite app_nil_r].
    + (* WErr *)
      injection H as <- <-. cbn [w_plan w_stored]. split; [intros op Hop; right; exact Hop|]. split.
      * exists WErr. split; [left; reflexivity | left; reflexivity].
      * exists [], (b :: t). split; [reflexivity | now rewrite app_nil_r].
    + (* WIntr *)
      apply IH in H; cbn [w_plan w_stored] in *.
      * destruct H as [Hp Hr]. split; [intros op Hop; right; auto|].
        destruct r as [e|]; [|exact Hr].
        destruct Hr as [[op [Hop Hh]] Hs]. split; [|exact Hs].
        exists op. split; [right; exact Hop | exact Hh].
      * cbn [length] in *. lia.
Qed.

Lemma wa_fuel_ok : forall st buf, (length buf + length (w_plan st) < wa_fuel st buf)%nat.
Proof. intros. unfold wa_fuel. lia. Qed.

Theorem write_all_ok : forall st buf st',
  write_all (wa_fuel st buf) st buf = (st', None) -> w_stored st' = w_stored st ++ buf.
Proof. intros st buf st' H. apply write_all_gen in H; [apply H | apply wa_fuel_ok]. Qed.

Theorem write_all_err : forall st buf st' e,
  write_all (wa_fuel st buf) st buf = (st', Some e) ->
  (exists op, In op (w_plan st) /\ hard_w op) /\
  exists pre suf, buf = pre ++ suf /\ w_stored st' = w_stored st ++ pre.
Proof. intros st buf st' e H. apply write_all_gen in H; [apply H | apply wa_fuel_ok]. Qed.

Lemma write_all_plan : forall st buf st' r,
  write_all (wa_fuel st buf) st buf = (st', r) -> forall op, In op (w_plan st') -> In op (w_plan st).
Proof. intros st buf st' r H. apply write_all_gen in H; [apply H | apply wa_fuel_ok]. Qed.

Lemma wa_fuel_le64 : forall st x, wa_fuel st (le64 0) = wa_fuel st (le64 x).
Proof. intros. unfold wa_fuel, le64. now rewrite !le_bytes_length. Qed.

(* ---------- dump ---------- *)
Lemma dump_gen : forall items st st' r,
  dump st items = (st', r) ->
  match r with
  | None => w_stored st' = w_stored st ++ frames items
  | Some _ => exists op, In op (w_plan st) /\ hard_w op
  end.
Proof.
  induction items as [|v t IH]; intros st st' r H.
  - cbn [dump] in H. injection H as <- <-. unfold frames. cbn [map concat]. now rewrite app_nil_r.
  - cbn [dump] in H. rewrite (wa_fuel_le64 st (N.of_nat (length (ser_blob v)))) in H.
    destruct (write_all _ st (le64 _)) as [st1 e1] eqn:E1.
    pose proof (write_all_plan _ _ _ _ E1) as P1.
    destruct e1 as [e|].
    + injection H as <- <-. apply write_all_err in E1. apply E1.
    + apply write_all_ok in E1.
      destruct (write_all _ st1 (ser_blob v)) as [st2 e2] eqn:E2.
      pose proof (write_all_plan _ _ _ _ E2) as P2.
      destruct e2 as [e|].
      * injection H as <- <-. apply write_all_err in E2. destruct E2 as [[op [Hop Hh]] _].
        exists op. split; [apply P1; exact Hop | exact Hh].
      * apply write_all_ok in E2. apply IH in H. destruct r as [e|].
        -- destruct H as [op [Hop Hh]]. exists op. split; [apply P1, P2; exact Hop | exact Hh].
        -- rewrite H, E2, E1. unfold frames. cbn [map concat]. unfold frame. now rewrite !app_assoc.
Qed.

Theorem dump_ok : forall items st st', dump st items = (st', None) -> w_stored st' = w_stored st ++ frames items.
Proof. intros items st st' H. apply dump_gen in H. exact H. Qed.

Theorem dump_err_only_if_fault : forall items st st' e,
  dump st items = (st', Some e) -> exists op, In op (w_plan st) /\ hard_w op.
Proof. intros items st st' e H. apply dump_gen in H. exact H. Qed.

Theorem dump_no_fault_ok : forall items st,
  (forall op, In op (w_plan st) -> ~ hard_w op) -> exists st', dump st items = (st', None).
Proof.
  intros items st Hno. destruct (dump st items) as [st' [e|]] eqn:E.
  - apply dump_err_only_if_fault in E. destruct E as [op [Hop Hh]]. exfalso. exact (Hno op Hop Hh).
  - exists st'. reflexivity.
Qed.

(* finding F8: with the payload written by a single write() whose count is ignored, a short write
   loses bytes silently *)
Theorem dump_orig_refuted : exists items plan st',
  dump_orig (mkW [] plan) items = (st', None) /\ w_stored st' <> frames items.
Proof.
  exists [[1; 2; 3; 4; 5; 6; 7; 8; 9; 10]], [WAccept 100; WAccept 4].
  eexists. split; [vm_compute; reflexivity | vm_compute; discriminate].
Qed.

(* ---------- the Read contract ---------- *)
Definition blob_ok (v : bytes) : Prop := N.of_nat (length (ser_blob v)) < 2 ^ 64.

Lemma firstn_split_sub : forall (A : Type) (n m : nat) (l : list A),
  (n <= m)%nat -> firstn n l ++ firstn (m - n) (skipn n l) = firstn m l.
Proof.
  intros A n. induction n as [|n IH]; intros m l Hnm.
  - cbn [firstn skipn app]. now rewrite Nat.sub_0_r.
  - destruct m as [|m]; [lia|]. destruct l as [|x l].
    + cbn [firstn skipn app]. now rewrite firstn_nil.
    + cbn [firstn skipn app Nat.sub]. f_equal. apply IH. lia.
Qed.

Lemma skipn_split_sub : forall (A : Type) (n m : nat) (l : list A),
  (n <= m)%nat -> skipn (m - n) (skipn n l) = skipn m l.
Proof.
  intros A n. induction n as [|n IH]; intros m l Hnm.
  - cbn [skipn]. now rewrite Nat.sub_0_r.
  - destruct m as [|m]; [lia|]. destruct l as [|x l].
    + cbn [skipn]. now rewrite skipn_nil.
    + cbn [skipn Nat.sub]. apply IH. lia.
Qed.

Lemma read_exact_gen : forall fuel st req acc st' r,
  read_exact fuel st req acc = (st', r) ->
  (forall op, In op (r_plan st') -> In op (r_plan st)) /\
  match r with
  | inl got => got = acc ++ firstn req (r_data st) /\ r_data st' = skipn req (r_data st) /\
               (req <= length (r_data st))%nat
  | inr e => (req + length (r_plan st) < fuel)%nat ->
             (e = EUnexpectedEof /\ (length (r_data st) < req)%nat) \/ (e = EOther /\ In RErr (r_plan st))
  end.
Proof.
  induction fuel as [|f IH]; intros st req acc st' r H.
  { destruct req as [|req']; cbn [read_exact] in H; injection H as <- <-; (split; [auto|]).
    - cbn [firstn skipn]. rewrite app_nil_r. repeat split. lia.
    - intros Hf. lia. }
  destruct req as [|req'].
  { cbn [read_exact] in H. injection H as <- <-. split; [auto|].
    cbn [firstn skipn]. rewrite app_nil_r. repeat split. lia. }
  cbn [read_exact] in H. unfold sys_read in H.
  destruct st as [data plan]. cbn [r_data r_plan] in *.
  (* the common step: a read that returned the first n bytes, n <= req, n <= length data *)
  assert (Step : forall n plan', (n <= S req')%nat -> (n <= length data)%nat ->
            (n = 0%nat -> data = []) -> (length plan' <= length plan)%nat ->
            (forall op, In op plan' -> In op plan) ->
            match firstn n data with
            | [] => (mkR (skipn n data) plan', inr EUnexpectedEof)
            | _ :: _ => read_exact f (mkR (skipn n data) plan') (S req' - length (firstn n data)) (acc ++ firstn n data)
            end = (st', r) ->
            (forall op, In op (r_plan st') -> In op plan) /\
            match r with
            | inl got => got = acc ++ firstn (S req') data /\ r_data st' = skipn (S req') data /\
                         (S req' <= length data)%nat
            | inr e => (S req' + length plan < S f)%nat ->
                       (e = EUnexpectedEof /\ (length data < S req')%nat) \/ (e = EOther /\ In RErr plan)
            end).
  { intros n plan' Hn1 Hn2 Hn0 Hpl Hin Hs.
    destruct (firstn n data) as [|g0 gt] eqn:Eg.
    - injection Hs as <- <-. cbn [r_plan]. split; [exact Hin|]. intros _. left. split; [reflexivity|].
      assert (n = 0%nat) as Hz.
      { apply (f_equal (@length _)) in Eg. rewrite firstn_length_le in Eg by exact Hn2. exact Eg. }
      rewrite (Hn0 Hz). cbn [length]. lia.
    - assert (Hl : length (g0 :: gt) = n).
      { rewrite <- Eg. apply firstn_length_le. exact Hn2. }
      rewrite Hl in Hs. apply IH in Hs. cbn [r_data r_plan] in Hs.
      destruct Hs as [Hp Hr]. split; [intros op Hop; apply Hin, Hp, Hop|].
      destruct r as [got|e].
      + destruct Hr as [Hg [Hd Hle]]. rewrite skipn_length in Hle. split; [|split].
        * rewrite Hg, <- Eg, <- app_assoc. f_equal. apply firstn_split_sub. exact Hn1.
        * rewrite Hd. apply skipn_split_sub. exact Hn1.
        * lia.
      + intros Hf. destruct Hr as [[He Hlt]|[He Hi]].
        * assert (0 < n)%nat by (rewrite <- Hl; cbn [length]; lia). lia.
        * left. split; [exact He|]. rewrite skipn_length in Hlt. lia.
        * right. split; [exact He | apply Hin, Hi]. }
  destruct plan as [|op plan].
  - apply (Step (Nat.min (S req') (length data)) []) in H; cbn [length]; try lia; auto.
    intros Hz. destruct data; [reflexivity | cbn [length] in Hz; lia].
  - destruct op as [k| |].
    + apply (Step (Nat.min (Nat.min (Nat.max k 1) (S req')) (length data)) plan) in H;
        cbn [length]; try lia.
      * exact H.
      * intros Hz. destruct data; [reflexivity | cbn [length] in Hz; lia].
      * intros op Hop. right. exact Hop.
    + apply IH in H. cbn [r_data r_plan] in H. destruct H as [Hp Hr].
      split; [intros op Hop; right; auto|]. destruct r as [got|e]; [exact Hr|].
      intros Hf. cbn [length] in Hf. destruct Hr as [Hr|[He Hi]]; [lia | left; exact Hr | right].
      split; [exact He | right; exact Hi].
    + injection H as <- <-. cbn [r_plan]. split; [intros op Hop; right; exact Hop|].
      intros _. right. split; [reflexivity | left; reflexivity].
Qed.

Lemma re_fuel_ok : forall st req, (req + length (r_plan st) < re_fuel st req)%nat.
Proof. intros. unfold re_fuel. lia. Qed.

Theorem read_exact_ok : forall req st st' got,
  read_exact (re_fuel st req) st req [] = (st', inl got) ->
  got = firstn req (r_data st) /\ r_data st' = skipn req (r_data st) /\ (req <= length (r_data st))%nat.
Proof. intros req st st' got H. apply read_exact_gen in H. destruct H as [_ H]. exact H. Qed.

Theorem read_exact_err : forall req st st' e,
  read_exact (re_fuel st req) st req [] = (st', inr e) ->
  (e = EUnexpectedEof /\ (length (r_data st) < req)%nat) \/ (e = EOther /\ In RErr (r_plan st)).
Proof. intros req st st' e H. apply read_exact_gen in H. destruct H as [_ H]. apply H, re_fuel_ok. Qed.

Lemma read_exact_plan : forall req st st' r,
  read_exact (re_fuel st req) st req [] = (st', r) -> forall op, In op (r_plan st') -> In op (r_plan st).
Proof. intros req st st' r H. apply read_exact_gen in H. apply H. Qed.

(* ---------- ExternalChunk::next over well-formed data ---------- *)
Lemma firstn_length_app : forall (A : Type) (s rest : list A), firstn (length s) (s ++ rest) = s.
Proof.
  intros. rewrite firstn_app, Nat.sub_diag, firstn_all. cbn [firstn]. apply app_nil_r.
Qed.
Lemma skipn_length_app : forall (A : Type) (s rest : list A), skipn (length s) (s ++ rest) = rest.
Proof.
  intros. rewrite skipn_app, Nat.sub_diag, skipn_all. reflexivity.
Qed.

Lemma frame_length : forall v, length (frame v) = (8 + length (ser_blob v))%nat.
Proof. intros v. unfold frame, le64. now rewrite app_length, le_bytes_length. Qed.

Lemma frames_cons : forall v t, frames (v :: t) = frame v ++ frames t.
Proof. reflexivity. Qed.

Lemma frames_length : forall items, (length items <= length (frames items))%nat.
Proof.
  induction items as [|v t IH]; [cbn; lia|].
  rewrite frames_cons, app_length, frame_length. cbn [length]. lia.
Qed.

(* at the end of the data: end of chunk, or an I/O error caused by a hard read fault *)
Lemma chunk_next_nil : forall plan, exists st',
  chunk_next (mkR [] plan) = (st', None) \/
  (chunk_next (mkR [] plan) = (st', Some CIoErr) /\ In RErr plan).
Proof.
  intros plan. unfold chunk_next.
  destruct (read_exact (re_fuel (mkR [] plan) 8) (mkR [] plan) 8 []) as [st1 h] eqn:E1.
  destruct h as [hb|e].
  - apply read_exact_ok in E1. cbn [r_data length] in E1. lia.
  - apply read_exact_err in E1. cbn [r_data r_plan] in E1.
    destruct E1 as [[-> _]|[-> Hi]]; exists st1; [left; reflexivity | right; split; [reflexivity | exact Hi]].
Qed.

(* in front of a frame: exactly that item, leaving exactly the rest; or an I/O error caused by a hard
   read fault *)
Lemma chunk_next_cons : forall v rest plan, blob_ok v ->
  (exists plan', chunk_next (mkR (frame v ++ rest) plan) = (mkR rest plan', Some (CItem v)) /\
                 forall op, In op plan' -> In op plan) \/
  (exists st', chunk_next (mkR (frame v ++ rest) plan) = (st', Some CIoErr) /\ In RErr plan).
Proof.
  intros v rest plan Hv. unfold chunk_next.
  destruct (read_exact (re_fuel (mkR (frame v ++ rest) plan) 8) (mkR (frame v ++ rest) plan) 8 [])
    as [st1 h] eqn:E1.
  pose proof (read_exact_plan _ _ _ _ E1) as P1. cbn [r_plan] in P1.
  destruct h as [hb|e].
  - apply read_exact_ok in E1. cbn [r_data] in E1. destruct E1 as [Hhb [Hd1 _]].
    unfold frame, le64 in Hhb, Hd1. rewrite <- app_assoc in Hhb, Hd1.
    rewrite firstn_le_bytes_app in Hhb. rewrite skipn_le_bytes_app in Hd1. subst hb.
    rewrite le_val_le_bytes by (change (256 ^ N.of_nat 8) with (2 ^ 64); exact Hv).
    rewrite Nat2N.id.
    destruct (read_exact (re_fuel st1 (length (ser_blob v))) st1 (length (ser_blob v)) [])
      as [st2 p] eqn:E2.
    pose proof (read_exact_plan _ _ _ _ E2) as P2.
    destruct p as [pb|e].
    + apply read_exact_ok in E2. rewrite Hd1 in E2. destruct E2 as [Hpb [Hd2 _]].
      rewrite firstn_length_app in Hpb. rewrite skipn_length_app in Hd2. subst pb.
      rewrite de_ser_blob.
      * left. destruct st2 as [d2 p2]. cbn [r_data r_plan] in *. subst d2.
        exists p2. split; [reflexivity | intros op Hop; apply P1, P2, Hop].
      * unfold blob_ok in Hv. pose proof (ser_blob_length v). lia.
    + right. exists st2. split; [reflexivity|].
      apply read_exact_err in E2. rewrite Hd1, app_length in E2.
      destruct E2 as [[_ Hlt]|[_ Hi]]; [lia | apply P1, Hi].
  - apply read_exact_err in E1. cbn [r_data r_plan] in E1. rewrite app_length, frame_length in E1.
    destruct E1 as [[_ Hlt]|[-> Hi]]; [lia|].
    right. exists st1. split; [reflexivity | exact Hi].
Qed.

Lemma chunk_all_frames : forall items fuel plan,
  Forall blob_ok items -> (length items < fuel)%nat ->
  chunk_all fuel (mkR (frames items) plan) = map CItem items \/
  (exists j, (j <= length items)%nat /\
     chunk_all fuel (mkR (frames items) plan) = map CItem (firstn j items) ++ [CIoErr] /\ In RErr plan).
Proof.
  induction items as [|v t IH]; intros fuel plan Hok Hf; (destruct fuel as [|f]; [lia|]); cbn [chunk_all].
  - change (frames []) with (@nil N).
    destruct (chunk_next_nil plan) as [st' [E|[E Hi]]]; rewrite E.
    + left. reflexivity.
    + right. exists 0%nat. split; [lia|]. split; [reflexivity | exact Hi].
  - inversion Hok as [|? ? Hv Ht]; subst. rewrite frames_cons.
    destruct (chunk_next_cons v (frames t) plan Hv) as [[plan' [E Hp]]|[st' [E Hi]]]; rewrite E.
    + cbn [length] in Hf. destruct (IH f plan' Ht ltac:(lia)) as [R|[j [Hj [R Hi]]]]; rewrite R.
      * left. reflexivity.
      * right. exists (S j). cbn [length firstn map app]. split; [lia|].
        split; [reflexivity | apply Hp, Hi].
    + right. exists 0%nat. cbn [length firstn map app]. split; [lia|]. split; [reflexivity | exact Hi].
Qed.

(* the statement with a strict bound on j is false: after the last item the reader still issues a
   read for the next header, which can fail hard *)
Theorem read_frames_strict_refuted :
  ~ (forall items rplan, Forall blob_ok items ->
      chunk_read (frames items) rplan = map CItem items \/
      (exists j, (j < length items)%nat /\
         chunk_read (frames items) rplan = map CItem (firstn j items) ++ [CIoErr] /\ In RErr rplan)).
Proof.
  intros H. destruct (H [] [RErr] (Forall_nil _)) as [E|[j [Hj _]]].
  - vm_compute in E. discriminate.
  - cbn [length] in Hj. lia.
Qed.

(* corrected: j <= length items *)
Theorem read_frames_le : forall items rplan, Forall blob_ok items ->
  chunk_read (frames items) rplan = map CItem items \/
  (exists j, (j <= length items)%nat /\
     chunk_read (frames items) rplan = map CItem (firstn j items) ++ [CIoErr] /\ In RErr rplan).
Proof.
  intros items rplan Hok. unfold chunk_read. apply chunk_all_frames; [exact Hok|].
  pose proof (frames_length items). lia.
Qed.

Theorem end_to_end_strict_refuted :
  ~ (forall items wplan rplan st' e, Forall blob_ok items -> dump (mkW [] wplan) items = (st', e) ->
      e <> None \/
      chunk_read (w_stored st') rplan = map CItem items \/
      (exists j, (j < length items)%nat /\
         chunk_read (w_stored st') rplan = map CItem (firstn j items) ++ [CIoErr] /\ In RErr rplan)).
Proof.
  intros H. destruct (H [] [] [RErr] (mkW [] []) None (Forall_nil _) eq_refl) as [E|[E|[j [Hj _]]]].
  - apply E. reflexivity.
  - vm_compute in E. discriminate.
  - cbn [length] in Hj. lia.
Qed.

Theorem end_to_end_le : forall items wplan rplan st' e,
  Forall blob_ok items -> dump (mkW [] wplan) items = (st', e) ->
  e <> None \/
  chunk_read (w_stored st') rplan = map CItem items \/
  (exists j, (j <= length items)%nat /\
     chunk_read (w_stored st') rplan = map CItem (firstn j items) ++ [CIoErr] /\ In RErr rplan).
Proof.
  intros items wplan rplan st' e Hok Hd. destruct e as [e|]; [left; discriminate|].
  right. apply dump_ok in Hd. cbn [w_stored app] in Hd. rewrite Hd. apply read_frames_le. exact Hok.
Qed.

(* ---------- the outcome oracle ---------- *)
Lemma citem_eqb_eq : forall a b, citem_eqb a b = true <-> a = b.
Proof.
  intros [x| |] [y| |]; cbn [citem_eqb]; try (split; intro H; (reflexivity || discriminate)).
  rewrite bytes_eqb_eq. split; intro H; congruence.
Qed.

Lemma list_eqb_citem : forall l1 l2, list_eqb citem_eqb l1 l2 = true <-> l1 = l2.
Proof.
  induction l1 as [|a l1 IH]; intros [|b l2]; cbn [list_eqb]; try (split; intro H; (reflexivity || discriminate)).
  rewrite andb_true_iff, citem_eqb_eq, IH. split; [intros [-> ->]; reflexivity | intros H; injection H; auto].
Qed.

Lemma is_ok_prefix_spec : forall items got,
  is_ok_prefix_then_err items got = true <->
  exists j, (j <= length items)%nat /\ got = map CItem (firstn j items) ++ [CIoErr].
Proof.
  induction items as [|x t IH]; intros got.
  - split.
    + intros H. exists 0%nat. split; [lia|]. cbn [firstn map app].
      destruct got as [|[v| |] [|c g]]; cbn in H; try discriminate. reflexivity.
    + intros [j [Hj ->]]. rewrite firstn_nil. reflexivity.
  - split.
    + intros H. destruct got as [|[v| |] g].
      * discriminate.
      * assert (H' : bytes_eqb v x && is_ok_prefix_then_err t g = true).
        { destruct g; exact H. }
        apply andb_true_iff in H'. destruct H' as [Hv Hg]. apply bytes_eqb_eq in Hv. subst v.
        apply IH in Hg. destruct Hg as [j [Hj ->]]. exists (S j). cbn [length]. split; [lia | reflexivity].
      * destruct g; [|discriminate]. exists 0%nat. split; [lia | reflexivity].
      * destruct g; discriminate.
    + intros [j [Hj ->]]. destruct j as [|j].
      * reflexivity.
      * cbn [firstn map app].
        assert (E : forall g, is_ok_prefix_then_err (x :: t) (CItem x :: g) =
                              bytes_eqb x x && is_ok_prefix_then_err t g).
        { intros g. destruct g; reflexivity. }
        rewrite E. apply andb_true_iff. split; [apply bytes_eqb_eq; reflexivity|].
        apply IH. exists j. cbn [length] in Hj. split; [lia | reflexivity].
Qed.

Theorem chunk_oracle_spec : forall items dump_ok got hard,
  chunk_oracle items dump_ok got hard = true <->
  (dump_ok = false \/ got = map CItem items \/
   (hard = true /\ exists j, (j <= length items)%nat /\ got = map CItem (firstn j items) ++ [CIoErr])).
Proof.
  intros items dok got hard. unfold chunk_oracle.
  rewrite !orb_true_iff, andb_true_iff, negb_true_iff, list_eqb_citem, is_ok_prefix_spec. tauto.
Qed.

(* Extract.v — extraction of the case runner to OCaml.
   ExtrOcamlBasic only (bool, option, unit, list, prod, sumbool, sumor -> OCaml's own types);
   N, Z, positive, nat stay the extracted inductive types.  No Extract Constant, no Extract Inductive.
   Everything the runner does between the tokenizer and the printer (extract/main.ml) is Run.run_case:
   the decoders / encoders of the case language and the model functions they call are extracted with it. *)
From Coq Require Import Extraction ExtrOcamlBasic.
From BedV Require Import Run.
Extraction Language OCaml.
Extraction "model.ml" run_case.

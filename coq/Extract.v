(* Extract.v — extraction of the executable models to OCaml.
   ExtrOcamlBasic only (bool, option, unit, list, prod, sumbool, sumor -> OCaml's own types);
   N, Z, positive, nat stay the extracted inductive types.  No Extract Constant. *)
From Coq Require Import Extraction ExtrOcamlBasic.
From BedV Require Import Base LapperModel.
Extraction Language OCaml.
Extraction "model.ml"
  (* numbers *) N.of_nat N.to_nat N.add N.mul N.sub N.div N.modulo N.eqb N.ltb N.leb N.compare
  Z.of_N Z.to_N Z.add Z.opp Z.ltb Z.eqb Z.compare
  (* lapper *) lnew linsert lmerge lset_cov lcov lfind lseek lcount lcount_orig
  lunion_intersect ldepth.

(* Extract.v — extraction of the executable models to OCaml.
   ExtrOcamlBasic only (bool, option, unit, list, prod, sumbool, sumor -> OCaml's own types);
   N, Z, positive, nat stay the extracted inductive types.  No Extract Constant. *)
From Coq Require Import Extraction ExtrOcamlBasic.
From BedV Require Import Base LapperModel AlgebraModel GMapModel TextModel ExtSortModel BincodeModel BufModel.
Extraction Language OCaml.
Extraction "model.ml"
  (* numbers *) N.of_nat N.to_nat N.add N.mul N.sub N.div N.modulo N.eqb N.ltb N.leb N.compare
  Z.of_N Z.to_N Z.add Z.opp Z.ltb Z.eqb Z.compare
  (* lapper *) lnew linsert lmerge lset_cov lcov lfind lseek lcount lcount_orig
  lunion_intersect ldepth lis_empty llen iv_eq iv_cmp
  (* algebra *) blen bcompare boverlap bn_overlap split_by_len rsplit_by_len merge_groups merge_sorted_bed merge_sorted_bedgraph bset_chrom bset_start bset_end to_genomic_range
  (* maps and coverage *) gcollect ginsert gfind gis_overlapped glen giter
  iset_new iset_len iset_get iset_find_full iset_find_index iset_find imap_new imap_find
  cov_new cov_step scov_step smap_as_vec bcov_new bcov_step bcov_regions sbcov_new sbcov_step sb_get_region sb_get_chrom smap_get
  (* text *) show_N show_Z parse_uint parse_int show_grange pretty_show show_bed show_npeak show_bpeak show_bgraph
  parse_grange parse_bed parse_npeak parse_bpeak parse_bgraph score_try_from score_from_str p_score show_optional_fields strand_from_str show_strand
  reader_items write_record bytes_eqb
  (* extsort *) frames dump chunk_read chunk_oracle merger_calls merge_all merge_oracle ext_sort_isort tmp_ok tmp_open_ok
  (* bincode record codecs, BufWriter/BufReader stack *) ser_grange de_grange ser_bedrec de_bedrec ser_npeak de_npeak ser_bpeak de_bpeak
  ser_bgraph de_bgraph de_all dump_buffered chunk_read_buffered.

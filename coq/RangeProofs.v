(* RangeProofs.v — range lemmas: the raw additions of calculate_coverage stay inside the coordinate type. *)
From BedV Require Import Base LapperModel ListFacts LapperProofs LapperSpecs MergeProofs CovProofs.

Lemma nodup_bounded_length (ps : list N) (W : N) :
  NoDup ps -> (forall p, In p ps -> p < W) -> N.of_nat (length ps) <= W.
Proof.
  intros Hnd Hb.
  assert (Hincl : incl ps (map N.of_nat (seq 0 (N.to_nat W)))).
  { intros p Hp. specialize (Hb p Hp). apply in_map_iff. exists (N.to_nat p). split; [apply N2Nat.id|].
    apply in_seq. lia. }
  pose proof (NoDup_incl_length Hnd Hincl) as Hl. rewrite map_length, seq_length in Hl. lia.
Qed.

(* the accumulated coverage never decreases along the loop, so every intermediate sum is below the result *)
Lemma cov_loop_mono l : forall ms me cov, cov <= cov_loop l ms me cov.
Proof.
  induction l as [|i t IH]; intros ms me cov; cbn [cov_loop]; [lia|].
  destruct ((ms <? en i) && (st i <? me)).
  - apply IH.
  - specialize (IH (st i) (en i) (cov + (me - ms))). lia.
Qed.

Theorem cov_no_overflow : forall W l, sortedK l -> ne_ivs l -> (forall i, In i l -> en i <= W) -> cov_calc l <= W.
Proof.
  intros W l Hs Hne Hb. destruct (cov_card l Hs Hne) as (ps & Hnd & Hin & Hlen).
  rewrite <- Hlen. apply nodup_bounded_length; [exact Hnd|].
  intros p Hp. apply Hin in Hp. destruct Hp as (i & Hi & (_ & Hlt)). specialize (Hb i Hi). lia.
Qed.

(* every reachable state: cov() fits the coordinate type when every stop does *)
Theorem lcov_no_overflow : forall W L, LInvNE L -> (forall i, In i (ivs L) -> en i <= W) -> lcov L <= W.
Proof.
  intros W L HI Hb. destruct (lcov_card L HI) as (ps & Hnd & Hin & Hlen).
  rewrite <- Hlen. apply nodup_bounded_length; [exact Hnd|].
  intros p Hp. apply Hin in Hp. destruct Hp as (i & Hi & (_ & Hlt)). specialize (Hb i Hi). lia.
Qed.

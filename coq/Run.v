(* Run.v — the case runner in Gallina: what extract/driver.ml and the helpers of extract/sexp.ml did in
   hand-written OCaml (decode one S-expression case, call the model functions, encode the answer) as total
   Gallina functions, so that the whole of it is extracted (and can be evaluated inside Coq with vm_compute).
   The only hand-written OCaml left (extract/main.ml) tokenises a line into [sexp] and prints a [sexp].
   An atom is the list of its character codes.  No model logic here: decoding, sequencing, encoding. *)
From Coq Require String Ascii.
From BedV Require Export Base AlgebraModel.
From BedV Require Import LapperModel GMapModel TextModel ExtSortModel BincodeModel BufModel.

Inductive sexp := SA (a : bytes) | SL (l : list sexp).

(* ---------- the error monad: what driver.ml did with exceptions ----------
   Bad msg   = exception Bad (malformed case): the answer is (glue-error msg)
   Panicked  = exception Panicked (the model returned Panic) *)
Inductive err (A : Type) : Type := Good (a : A) | Bad (msg : bytes) | Panicked.
Arguments Good {A} a. Arguments Bad {A} msg. Arguments Panicked {A}.
Definition ebind {A B} (r : err A) (f : A -> err B) : err B :=
  match r with Good a => f a | Bad m => Bad m | Panicked => Panicked end.
Notation "'edo' x <- r ; k" := (ebind r (fun x => k)) (at level 200, x pattern, r at level 100, k at level 200).
(* driver.ml's [ok] *)
Definition ok {A} (r : res A) : err A := match r with Ok a => Good a | Panic => Panicked end.
Fixpoint emap {A B} (f : A -> err B) (l : list A) : err (list B) :=
  match l with
  | [] => Good []
  | x :: t => edo y <- f x; edo r <- emap f t; Good (y :: r)
  end.

(* the emitted answers of a case, in order, and how the run ended (driver.ml's [with_panic] / the try of run_lap):
   items emitted before a panic are kept and followed by the atom panic; a Bad discards everything *)
Inductive outs := ODone | OPanic | OBad (msg : bytes) | OEmit (x : sexp) (k : outs).
Definition obind {A} (r : err A) (k : A -> outs) : outs :=
  match r with Good a => k a | Bad m => OBad m | Panicked => OPanic end.
Notation "'odo' x <- r ; k" := (obind r (fun x => k)) (at level 200, x pattern, r at level 100, k at level 200).

(* ---------- decimal text <-> N / Z / nat ---------- *)
Definition digit_val (c : N) : option N :=
  match c with
  | 48 => Some 0 | 49 => Some 1 | 50 => Some 2 | 51 => Some 3 | 52 => Some 4
  | 53 => Some 5 | 54 => Some 6 | 55 => Some 7 | 56 => Some 8 | 57 => Some 9
  | _ => None
  end.
Definition mul10 (n : N) : N := N.double (n + N.double (N.double n)).
Fixpoint dec_digits (s : bytes) (acc : N) : option N :=
  match s with
  | [] => Some acc
  | c :: t => match digit_val c with Some d => dec_digits t (mul10 acc + d) | None => None end
  end.

(* little-endian decimal digit characters: 2 * ds + c *)
Fixpoint dbl_digits (ds : bytes) (c : bool) : bytes :=
  match ds with
  | [] => if c then [49] else []
  | d :: t =>
    match d with
    | 48 => (if c then 49 else 48) :: dbl_digits t false
    | 49 => (if c then 51 else 50) :: dbl_digits t false
    | 50 => (if c then 53 else 52) :: dbl_digits t false
    | 51 => (if c then 55 else 54) :: dbl_digits t false
    | 52 => (if c then 57 else 56) :: dbl_digits t false
    | 53 => (if c then 49 else 48) :: dbl_digits t true
    | 54 => (if c then 51 else 50) :: dbl_digits t true
    | 55 => (if c then 53 else 52) :: dbl_digits t true
    | 56 => (if c then 55 else 54) :: dbl_digits t true
    | _ => (if c then 57 else 56) :: dbl_digits t true
    end
  end.
Fixpoint pos_digits_le (p : positive) : bytes :=
  match p with
  | xH => [49]
  | xO q => dbl_digits (pos_digits_le q) false
  | xI q => dbl_digits (pos_digits_le q) true
  end.
(* string_of_n / string_of_z / string_of_int *)
Definition text_of_N (n : N) : bytes :=
  match n with N0 => [48] | Npos p => rev_append (pos_digits_le p) [] end.
Definition text_of_Z (z : Z) : bytes :=
  match z with Z0 => [48] | Zpos p => text_of_N (Npos p) | Zneg p => 45 :: text_of_N (Npos p) end.
Definition text_of_nat (n : nat) : bytes := text_of_N (N.of_nat n).

(* ---------- hex text <-> bytes ---------- *)
(* OCaml's parse_digit *)
Definition hexval (c : N) : option N :=
  match c with
  | 48 => Some 0 | 49 => Some 1 | 50 => Some 2 | 51 => Some 3 | 52 => Some 4
  | 53 => Some 5 | 54 => Some 6 | 55 => Some 7 | 56 => Some 8 | 57 => Some 9
  | 97 => Some 10 | 98 => Some 11 | 99 => Some 12 | 100 => Some 13 | 101 => Some 14 | 102 => Some 15
  | 65 => Some 10 | 66 => Some 11 | 67 => Some 12 | 68 => Some 13 | 69 => Some 14 | 70 => Some 15
  | _ => None
  end.
Definition shl4 (n : N) : N := N.double (N.double (N.double (N.double n))).
(* byte i = int_of_string ("0x" ^ two characters): the first must be a hex digit, the second a hex digit or '_'
   (OCaml's int_of_string skips underscores after the first digit); a trailing odd character is ignored *)
Fixpoint unhex_acc (s : bytes) (acc : bytes) : option bytes :=
  match s with
  | c1 :: c2 :: t =>
    match hexval c1 with
    | None => None
    | Some hi =>
      match c2 with
      | 95 => unhex_acc t (hi :: acc)
      | _ => match hexval c2 with Some lo => unhex_acc t ((shl4 hi + lo) :: acc) | None => None end
      end
    end
  | _ => Some acc
  end.

Definition hexchar (n : N) : option N :=
  match n with
  | 0 => Some 48 | 1 => Some 49 | 2 => Some 50 | 3 => Some 51 | 4 => Some 52
  | 5 => Some 53 | 6 => Some 54 | 7 => Some 55 | 8 => Some 56 | 9 => Some 57
  | 10 => Some 97 | 11 => Some 98 | 12 => Some 99 | 13 => Some 100 | 14 => Some 101 | 15 => Some 102
  | _ => None
  end.
(* (p mod 2^k, p / 2^k) *)
Fixpoint low_bits (k : nat) (p : positive) : N * N :=
  match k with
  | O => (0, Npos p)
  | S k' =>
    match p with
    | xH => (1, 0)
    | xO q => let (lo, hi) := low_bits k' q in (N.double lo, hi)
    | xI q => let (lo, hi) := low_bits k' q in (N.succ_double lo, hi)
    end
  end.
Definition nib_split (n : N) : N * N := match n with N0 => (0, 0) | Npos p => low_bits 4 p end.
Definition hexchar' (n : N) : N := match hexchar n with Some c => c | None => 63 end.
Fixpoint hex_fuel (fuel : nat) (n : N) (acc : bytes) : bytes :=
  match fuel with
  | O => acc
  | S f => let (lo, hi) := nib_split n in
           let acc' := hexchar' lo :: acc in
           match hi with N0 => acc' | _ => hex_fuel f hi acc' end
  end.
Definition TWO61 : N := 2305843009213693952.
(* Printf "%02x" of a value that fits an OCaml int (below 2^61 as sexp.ml tested it), "??" otherwise *)
Definition hex_of_byte (b : N) (tail : bytes) : bytes :=
  let (lo, hi) := nib_split b in
  match hexchar hi with
  | Some c => c :: hexchar' lo :: tail
  | None => if b <? TWO61 then hex_fuel 16 b tail else 63 :: 63 :: tail
  end.
Definition hex_of_bytes (l : bytes) : bytes :=
  match l with
  | [] => [45]
  | _ => fold_left (fun acc b => hex_of_byte b acc) (rev_append l []) []
  end.

(* ---------- OCaml's int_of_string on 63-bit ints ---------- *)
Definition digit_in_base (base c : N) : option N :=
  match hexval c with Some d => if d <? base then Some d else None | None => None end.
Fixpoint int_digits (base : N) (s : bytes) (acc : N) : option N :=
  match s with
  | [] => Some acc
  | c :: t =>
    match c with
    | 95 => int_digits base t acc
    | _ => match digit_in_base base c with Some d => int_digits base t (acc * base + d) | None => None end
    end
  end.
Definition int_body (base : N) (s : bytes) : option N :=
  match s with
  | [] => None
  | c :: t => match digit_in_base base c with Some d => int_digits base t d | None => None end
  end.
Definition TWO62 : Z := 4611686018427387904.
Definition TWO63 : Z := 9223372036854775808.
Definition wrap63 (z : Z) : Z :=
  if (TWO62 <=? z)%Z then (z - TWO63)%Z else if (z <? - TWO62)%Z then (z + TWO63)%Z else z.
Definition int_prefix (c : N) : option (N * bool) :=          (* 0x 0o 0b 0u: base, and whether signed *)
  if (c =? 120) || (c =? 88) then Some (16, false)
  else if (c =? 111) || (c =? 79) then Some (8, false)
  else if (c =? 98) || (c =? 66) then Some (2, false)
  else if (c =? 117) || (c =? 85) then Some (10, false)
  else None.
Definition int_sign (s : bytes) : bool * bytes :=
  match s with
  | c :: t => if c =? 45 then (true, t) else if c =? 43 then (false, t) else (false, s)
  | [] => (false, s)
  end.
Definition int_base (s1 : bytes) : N * bool * bytes :=
  match s1 with
  | z :: c :: t => if z =? 48 then match int_prefix c with Some (b, sg) => (b, sg, t) | None => (10, true, s1) end
                   else (10, true, s1)
  | _ => (10, true, s1)
  end.
Definition int_range (neg signed : bool) (v : N) : option Z :=
  let z := Z.of_N v in
  if signed then
    if neg then (if (z <=? TWO62)%Z then Some (- z)%Z else None)
    else (if (z <? TWO62)%Z then Some z else None)
  else if (z <? TWO63)%Z then Some (wrap63 (if neg then (- z)%Z else z)) else None.
Definition ocaml_int_of_string (s : bytes) : option Z :=
  let ns := int_sign s in
  let bs2 := int_base (snd ns) in
  match int_body (fst (fst bs2)) (snd bs2) with
  | None => None
  | Some v => int_range (fst ns) (snd (fst bs2)) v
  end.

(* ---------- atoms used by the case language ---------- *)
(* literal atoms are written as Coq strings and evaluated to byte lists once, at definition time *)
Module Atoms.
Import String.
Definition bs (s : string) : bytes := List.map Ascii.N_of_ascii (list_ascii_of_string s).
Arguments bs _%string.
Definition s_r : bytes := Eval vm_compute in bs "r".
Definition s_panic : bytes := Eval vm_compute in bs "panic".
Definition s_glue_error : bytes := Eval vm_compute in bs "glue-error".
Definition s_none : bytes := Eval vm_compute in bs "none".
Definition s_h : bytes := Eval vm_compute in bs "h".
Definition s_ivs : bytes := Eval vm_compute in bs "ivs".
Definition s_ops : bytes := Eval vm_compute in bs "ops".
Definition s_ins : bytes := Eval vm_compute in bs "ins".
Definition s_merge : bytes := Eval vm_compute in bs "merge".
Definition s_setcov : bytes := Eval vm_compute in bs "setcov".
Definition s_cur0 : bytes := Eval vm_compute in bs "cur0".
Definition s_reload : bytes := Eval vm_compute in bs "reload".
Definition s_clone : bytes := Eval vm_compute in bs "clone".
Definition s_find : bytes := Eval vm_compute in bs "find".
Definition s_seek : bytes := Eval vm_compute in bs "seek".
Definition s_count : bytes := Eval vm_compute in bs "count".
Definition s_cov : bytes := Eval vm_compute in bs "cov".
Definition s_len : bytes := Eval vm_compute in bs "len".
Definition s_isempty : bytes := Eval vm_compute in bs "isempty".
Definition s_ivcmp : bytes := Eval vm_compute in bs "ivcmp".
Definition s_depth : bytes := Eval vm_compute in bs "depth".
Definition s_ui : bytes := Eval vm_compute in bs "ui".
Definition s_d : bytes := Eval vm_compute in bs "d".
Definition s_eq : bytes := Eval vm_compute in bs "eq".
Definition s_lt : bytes := Eval vm_compute in bs "lt".
Definition s_gt : bytes := Eval vm_compute in bs "gt".
Definition s_recs : bytes := Eval vm_compute in bs "recs".
Definition s_isov : bytes := Eval vm_compute in bs "isov".
Definition s_iter : bytes := Eval vm_compute in bs "iter".
Definition s_regs : bytes := Eval vm_compute in bs "regs".
Definition s_get : bytes := Eval vm_compute in bs "get".
Definition s_it : bytes := Eval vm_compute in bs "it".
Definition s_findidx : bytes := Eval vm_compute in bs "findidx".
Definition s_findfull : bytes := Eval vm_compute in bs "findfull".
Definition s_insat : bytes := Eval vm_compute in bs "insat".
Definition s_reset : bytes := Eval vm_compute in bs "reset".
Definition s_dense : bytes := Eval vm_compute in bs "dense".
Definition s_sparse : bytes := Eval vm_compute in bs "sparse".
Definition s_regions : bytes := Eval vm_compute in bs "regions".
Definition s_getregion : bytes := Eval vm_compute in bs "getregion".
Definition s_getchrom : bytes := Eval vm_compute in bs "getchrom".
Definition s_ov : bytes := Eval vm_compute in bs "ov".
Definition s_nov : bytes := Eval vm_compute in bs "nov".
Definition s_cmp : bytes := Eval vm_compute in bs "cmp".
Definition s_set : bytes := Eval vm_compute in bs "set".
Definition s_sp : bytes := Eval vm_compute in bs "sp".
Definition s_rsp : bytes := Eval vm_compute in bs "rsp".
Definition s_groups : bytes := Eval vm_compute in bs "groups".
Definition s_ranges : bytes := Eval vm_compute in bs "ranges".
Definition s_out : bytes := Eval vm_compute in bs "out".
Definition s_ftab : bytes := Eval vm_compute in bs "ftab".
Definition s_ptab : bytes := Eval vm_compute in bs "ptab".
Definition s_ok : bytes := Eval vm_compute in bs "ok".
Definition s_err : bytes := Eval vm_compute in bs "err".
Definition s_ext : bytes := Eval vm_compute in bs "ext".
Definition s_missing_chrom : bytes := Eval vm_compute in bs "missing-chrom".
Definition s_missing_start : bytes := Eval vm_compute in bs "missing-start".
Definition s_invalid_start : bytes := Eval vm_compute in bs "invalid-start".
Definition s_missing_end : bytes := Eval vm_compute in bs "missing-end".
Definition s_invalid_end : bytes := Eval vm_compute in bs "invalid-end".
Definition s_missing_name : bytes := Eval vm_compute in bs "missing-name".
Definition s_missing_score : bytes := Eval vm_compute in bs "missing-score".
Definition s_invalid_score : bytes := Eval vm_compute in bs "invalid-score".
Definition s_missing_strand : bytes := Eval vm_compute in bs "missing-strand".
Definition s_invalid_strand : bytes := Eval vm_compute in bs "invalid-strand".
Definition s_gr : bytes := Eval vm_compute in bs "gr".
Definition s_bed3 : bytes := Eval vm_compute in bs "bed3".
Definition s_bed4 : bytes := Eval vm_compute in bs "bed4".
Definition s_bed5 : bytes := Eval vm_compute in bs "bed5".
Definition s_bed6 : bytes := Eval vm_compute in bs "bed6".
Definition s_np : bytes := Eval vm_compute in bs "np".
Definition s_bp : bytes := Eval vm_compute in bs "bp".
Definition s_bgi : bytes := Eval vm_compute in bs "bgi".
Definition s_bgf : bytes := Eval vm_compute in bs "bgf".
Definition s_txt : bytes := Eval vm_compute in bs "txt".
Definition s_rt : bytes := Eval vm_compute in bs "rt".
Definition s_pretty : bytes := Eval vm_compute in bs "pretty".
Definition s_prt : bytes := Eval vm_compute in bs "prt".
Definition s_optf : bytes := Eval vm_compute in bs "optf".
Definition s_strand : bytes := Eval vm_compute in bs "strand".
Definition s_empty : bytes := Eval vm_compute in bs "empty".
Definition s_invalid : bytes := Eval vm_compute in bs "invalid".
Definition s_bytes : bytes := Eval vm_compute in bs "bytes".
Definition s_try : bytes := Eval vm_compute in bs "try".
Definition s_str : bytes := Eval vm_compute in bs "str".
Definition s_lf : bytes := Eval vm_compute in bs "lf".
Definition s_crlf : bytes := Eval vm_compute in bs "crlf".
Definition s_items : bytes := Eval vm_compute in bs "items".
Definition s_terms : bytes := Eval vm_compute in bs "terms".
Definition s_acc : bytes := Eval vm_compute in bs "acc".
Definition s_zero : bytes := Eval vm_compute in bs "zero".
Definition s_intr : bytes := Eval vm_compute in bs "intr".
Definition s_give : bytes := Eval vm_compute in bs "give".
Definition s_ioerr : bytes := Eval vm_compute in bs "ioerr".
Definition s_deerr : bytes := Eval vm_compute in bs "deerr".
Definition s_cut : bytes := Eval vm_compute in bs "cut".
Definition s_lz4 : bytes := Eval vm_compute in bs "lz4".
Definition s_bare : bytes := Eval vm_compute in bs "bare".
Definition s_oracle_only : bytes := Eval vm_compute in bs "oracle-only".
Definition s_dump : bytes := Eval vm_compute in bs "dump".
Definition s_stored : bytes := Eval vm_compute in bs "stored".
Definition s_wplan : bytes := Eval vm_compute in bs "wplan".
Definition s_rplan : bytes := Eval vm_compute in bs "rplan".
Definition s_verdict : bytes := Eval vm_compute in bs "verdict".
Definition s_got : bytes := Eval vm_compute in bs "got".
Definition s_chunks : bytes := Eval vm_compute in bs "chunks".
Definition s_calls : bytes := Eval vm_compute in bs "calls".
Definition s_outs : bytes := Eval vm_compute in bs "outs".
Definition s_default : bytes := Eval vm_compute in bs "default".
Definition s_before : bytes := Eval vm_compute in bs "before".
Definition s_during : bytes := Eval vm_compute in bs "during".
Definition s_after : bytes := Eval vm_compute in bs "after".
Definition s_opens : bytes := Eval vm_compute in bs "opens".
Definition s_lap : bytes := Eval vm_compute in bs "lap".
Definition s_gmap : bytes := Eval vm_compute in bs "gmap".
Definition s_iset : bytes := Eval vm_compute in bs "iset".
Definition s_imap : bytes := Eval vm_compute in bs "imap".
Definition s_bcov : bytes := Eval vm_compute in bs "bcov".
Definition s_alg : bytes := Eval vm_compute in bs "alg".
Definition s_split : bytes := Eval vm_compute in bs "split".
Definition s_bg : bytes := Eval vm_compute in bs "bg".
Definition s_fmt : bytes := Eval vm_compute in bs "fmt".
Definition s_parse : bytes := Eval vm_compute in bs "parse".
Definition s_score : bytes := Eval vm_compute in bs "score".
Definition s_ser : bytes := Eval vm_compute in bs "ser".
Definition s_misc : bytes := Eval vm_compute in bs "misc".
Definition s_read : bytes := Eval vm_compute in bs "read".
Definition s_wr : bytes := Eval vm_compute in bs "wr".
Definition s_skiprun : bytes := Eval vm_compute in bs "skiprun".
Definition s_chunk : bytes := Eval vm_compute in bs "chunk".
Definition s_chunkchk : bytes := Eval vm_compute in bs "chunkchk".
Definition s_kmerge : bytes := Eval vm_compute in bs "kmerge".
Definition s_kmergechk : bytes := Eval vm_compute in bs "kmergechk".
Definition s_xsort : bytes := Eval vm_compute in bs "xsort".
Definition s_xsort2 : bytes := Eval vm_compute in bs "xsort2".
Definition s_xsortrec : bytes := Eval vm_compute in bs "xsortrec".
Definition s_tmpchk : bytes := Eval vm_compute in bs "tmpchk".
Definition s_tmp : bytes := Eval vm_compute in bs "tmp".
Definition s_xsortquota : bytes := Eval vm_compute in bs "xsortquota".
Definition s_wrfail : bytes := Eval vm_compute in bs "wrfail".

(* messages of malformed cases (the text after glue-error is free) *)
Definition m_atom : bytes := Eval vm_compute in bs "atom-expected".
Definition m_list : bytes := Eval vm_compute in bs "list-expected".
Definition m_number : bytes := Eval vm_compute in bs "bad-number".
Definition m_int : bytes := Eval vm_compute in bs "failure-int_of_string".
Definition m_neg : bytes := Eval vm_compute in bs "invalid-negative-count".
Definition m_hex : bytes := Eval vm_compute in bs "failure-int_of_string-hex".
Definition m_tag : bytes := Eval vm_compute in bs "expected-tagged-list".
Definition m_rec : bytes := Eval vm_compute in bs "bad-record".
Definition m_op : bytes := Eval vm_compute in bs "bad-op".
Definition m_args : bytes := Eval vm_compute in bs "bad-args".
Definition m_type : bytes := Eval vm_compute in bs "bad-type".
Definition m_ftab : bytes := Eval vm_compute in bs "float-not-in-ftab".
Definition m_ptab : bytes := Eval vm_compute in bs "token-not-in-ptab".
Definition m_map2 : bytes := Eval vm_compute in bs "invalid-List.map2".
Definition m_kind : bytes := Eval vm_compute in bs "unknown-case-kind".
Definition m_uncaught : bytes := Eval vm_compute in bs "uncaught-panic".

Definition s_sbcov : bytes := Eval vm_compute in bs "sbcov".
Definition s_getmap : bytes := Eval vm_compute in bs "getmap".
Definition s_smap : bytes := Eval vm_compute in bs "smap".

Definition s_splithead : bytes := Eval vm_compute in bs "splithead".

End Atoms.
Export Atoms.

Definition is_ (k h : bytes) : bool := bytes_eqb k h.

(* ---------- sexp.ml's decoders and encoders ---------- *)
Definition atom (x : sexp) : err bytes := match x with SA a => Good a | SL _ => Bad m_atom end.
Definition lst (x : sexp) : err (list sexp) := match x with SL l => Good l | SA _ => Bad m_list end.
(* n_of_string: non-empty, decimal digits only *)
Definition n_of_text (s : bytes) : err N :=
  match s with
  | [] => Bad m_number
  | _ => match dec_digits s 0 with Some v => Good v | None => Bad m_number end
  end.
Definition z_of_text (s : bytes) : err Z :=
  match s with
  | 45 :: t => edo v <- n_of_text t; Good (Z.opp (Z.of_N v))
  | _ => edo v <- n_of_text s; Good (Z.of_N v)
  end.
Definition num (x : sexp) : err N := edo a <- atom x; n_of_text a.
Definition znum (x : sexp) : err Z := edo a <- atom x; z_of_text a.
(* int_ (an OCaml int) and nat_ (nat_of_int: negative values give O) *)
Definition intd (x : sexp) : err Z :=
  edo a <- atom x; match ocaml_int_of_string a with Some z => Good z | None => Bad m_int end.
Definition natd (x : sexp) : err nat := edo z <- intd x; Good (Z.to_nat z).
Definition an (x : N) : sexp := SA (text_of_N x).
Definition az (x : Z) : sexp := SA (text_of_Z x).
Definition anat (x : nat) : sexp := SA (text_of_nat x).
Definition sx_bool (b : bool) : sexp := SA (if b then [49] else [48]).
Definition tagged (t : bytes) (x : sexp) : err (list sexp) :=
  match x with
  | SL (SA h :: rest) => if is_ t h then Good rest else Bad m_tag
  | _ => Bad m_tag
  end.
Definition bytes_of_hex (s : bytes) : err bytes :=
  match s with
  | [45] => Good []
  | _ => match unhex_acc s [] with Some r => Good (rev_append r []) | None => Bad m_hex end
  end.
Definition chr (x : sexp) : err bytes := edo a <- atom x; bytes_of_hex a.
Definition sx_chr (c : bytes) : sexp := SA (hex_of_bytes c).
Definition sx_hex (c : bytes) : sexp := SA (hex_of_bytes c).

Fixpoint finish_tail (o : outs) : err (list sexp) :=
  match o with
  | ODone => Good []
  | OPanic => Good [SA s_panic]
  | OBad m => Bad m
  | OEmit x k => match finish_tail k with Good l => Good (x :: l) | e => e end
  end.
(* the answer of a case run under with_panic: (r items...) *)
Definition with_panic (o : outs) : err sexp := edo l <- finish_tail o; Good (SL (SA s_r :: l)).

(* ---------- lap: scripts over one Lapper ---------- *)
Definition iv3 (s e v : sexp) : err iv := edo s <- num s; edo e <- num e; edo v <- num v; Good (mkiv s e v).
Definition iv_of (x : sexp) : err iv :=
  match x with SL [s; e; v] => iv3 s e v | SL _ => Bad m_rec | SA _ => Bad m_list end.
Definition sx_iv (i : iv) : sexp := SL [an (st i); an (en i); an (vl i)].
Definition sx_cmp (c : comparison) : sexp := SA (match c with Eq => s_eq | Lt => s_lt | Gt => s_gt end).

Fixpoint build_ops (L : lapper) (ops : list sexp) : err lapper :=
  match ops with
  | [] => Good L
  | SL (SA h :: args) :: t =>
    match args with
    | [] =>
      if is_ s_merge h then build_ops (lmerge L) t
      else if is_ s_setcov h then build_ops (lset_cov L) t
      else Bad m_op
    | [s; e; v] =>
      if is_ s_ins h then edo i <- iv3 s e v; edo L' <- ok (linsert L i); build_ops L' t
      else Bad m_op
    | _ => Bad m_op
    end
  | _ :: _ => Bad m_op
  end.
Definition build_lapper (bivs bops : sexp) : err lapper :=
  edo ops <- tagged s_ops bops;
  edo l <- tagged s_ivs bivs;
  edo ivl <- emap iv_of l;
  build_ops (lnew ivl) ops.

Fixpoint lap_ops (W : N) (L : lapper) (cur : nat) (ops : list sexp) : outs :=
  match ops with
  | [] => ODone
  | SL (SA h :: args) :: t =>
    match args with
    | [] =>
      if is_ s_merge h then lap_ops W (lmerge L) cur t
      else if is_ s_setcov h then lap_ops W (lset_cov L) cur t
      else if is_ s_cur0 h then lap_ops W L 0%nat t
      else if is_ s_reload h then lap_ops W L cur t
      else if is_ s_clone h then lap_ops W L cur t
      else if is_ s_cov h then OEmit (an (lcov L)) (lap_ops W L cur t)
      else if is_ s_len h then OEmit (anat (length (ivs L))) (lap_ops W L cur t)
      else if is_ s_isempty h then OEmit (sx_bool (lis_empty L)) (lap_ops W L cur t)
      else if is_ s_ivs h then OEmit (SL (SA s_ivs :: map sx_iv (ivs L))) (lap_ops W L cur t)
      else if is_ s_depth h then odo d <- ok (ldepth W L); OEmit (SL (SA s_d :: map sx_iv d)) (lap_ops W L cur t)
      else OBad m_op
    | [a; b] =>
      if is_ s_find h then
        odo s <- num a; odo e <- num b; odo hits <- ok (lfind L s e);
        OEmit (SL (SA s_h :: map sx_iv hits)) (lap_ops W L cur t)
      else if is_ s_seek h then
        odo s <- num a; odo e <- num b; odo hc <- ok (lseek L s e cur);
        OEmit (SL (SA s_h :: map sx_iv (fst hc))) (lap_ops W L (snd hc) t)
      else if is_ s_count h then
        odo s <- num a; odo e <- num b; odo n <- ok (lcount L s e);
        OEmit (anat n) (lap_ops W L cur t)
      else if is_ s_ivcmp h then
        odo x <- iv_of a; odo y <- iv_of b;
        OEmit (SL [SA s_ivcmp; sx_bool (iv_eq x y); sx_cmp (iv_cmp x y)]) (lap_ops W L cur t)
      else if is_ s_ui h then
        odo B <- build_lapper a b; odo ui <- ok (lunion_intersect W L B);
        OEmit (SL [SA s_ui; an (fst ui); an (snd ui)]) (lap_ops W L cur t)
      else OBad m_op
    | [s; e; v] =>
      if is_ s_ins h then odo i <- iv3 s e v; odo L' <- ok (linsert L i); lap_ops W L' cur t
      else OBad m_op
    | _ => OBad m_op
    end
  | _ :: _ => OBad m_op
  end.
Definition run_lap (args : list sexp) : err sexp :=
  match args with
  | [w; ivl; ops] =>
    edo w <- num w;
    with_panic (odo l <- tagged s_ivs ivl; odo ivl <- emap iv_of l; odo ops <- tagged s_ops ops;
                lap_ops w (lnew ivl) 0%nat ops)
  | _ => Bad m_args
  end.

(* ---------- records ---------- *)
Definition grec4 (c s e v : sexp) : err grec :=
  edo c <- chr c; edo i <- iv3 s e v; Good (c, i).
Definition grec_of (x : sexp) : err grec :=
  match x with SL [c; s; e; v] => grec4 c s e v | SL _ => Bad m_rec | SA _ => Bad m_list end.
Definition sx_grec (r : grec) : sexp := SL [sx_chr (fst r); an (st (snd r)); an (en (snd r)); an (vl (snd r))].
Definition region3 (c s e : sexp) : err region :=
  edo c <- chr c; edo s <- num s; edo e <- num e; Good (c, s, e).
Definition region_of (x : sexp) : err region :=
  match x with SL [c; s; e] => region3 c s e | SL _ => Bad m_rec | SA _ => Bad m_list end.
Definition sx_region (r : region) : sexp := SL [sx_chr (fst (fst r)); an (snd (fst r)); an (snd r)].
Definition brec_of (x : sexp) : err brec :=
  match x with
  | SL [c; s; e; v] => edo c <- chr c; edo s <- num s; edo e <- num e; edo v <- znum v; Good (mkB c s e v)
  | SL [c; s; e] => edo c <- chr c; edo s <- num s; edo e <- num e; Good (mkB c s e 0%Z)
  | SL _ => Bad m_rec
  | SA _ => Bad m_list
  end.
Definition qry (c a b : sexp) : err (bytes * N * N) := region3 c a b.

(* ---------- gmap ---------- *)
Fixpoint gmap_ops (m : gmap) (ops : list sexp) : outs :=
  match ops with
  | [] => ODone
  | SL (SA h :: args) :: t =>
    match args with
    | [] =>
      if is_ s_len h then OEmit (anat (glen m)) (gmap_ops m t)
      else if is_ s_iter h then OEmit (SL (SA s_h :: map sx_grec (giter m))) (gmap_ops m t)
      else OBad m_op
    | [c; s; e] =>
      if is_ s_find h then
        odo q <- qry c s e; odo r <- ok (gfind m (fst (fst q)) (snd (fst q)) (snd q));
        OEmit (SL (SA s_h :: map sx_grec r)) (gmap_ops m t)
      else if is_ s_isov h then
        odo q <- qry c s e; odo r <- ok (gis_overlapped m (fst (fst q)) (snd (fst q)) (snd q));
        OEmit (sx_bool r) (gmap_ops m t)
      else OBad m_op
    | [c; s; e; v] =>
      if is_ s_ins h then odo r <- grec4 c s e v; odo m' <- ok (ginsert m r); gmap_ops m' t
      else OBad m_op
    | _ => OBad m_op
    end
  | _ :: _ => OBad m_op
  end.
Definition run_gmap (args : list sexp) : err sexp :=
  match args with
  | [recs; ops] =>
    with_panic (odo l <- tagged s_recs recs; odo rs <- emap grec_of l; odo ops <- tagged s_ops ops;
                gmap_ops (gcollect rs) ops)
  | _ => Bad m_args
  end.

(* ---------- iset / imap ---------- *)
Definition sx_opt {A} (f : A -> sexp) (o : option A) : sexp := match o with Some x => f x | None => SA s_none end.
Fixpoint iset_ops (s : iset) (ops : list sexp) : outs :=
  match ops with
  | [] => ODone
  | SL (SA h :: args) :: t =>
    match args with
    | [] =>
      if is_ s_len h then OEmit (anat (iset_len s)) (iset_ops s t)
      else if is_ s_iter h then OEmit (SL (SA s_it :: map sx_region (is_data s))) (iset_ops s t)
      else OBad m_op
    | [i] =>
      if is_ s_get h then odo i <- natd i; OEmit (sx_opt sx_region (iset_get s i)) (iset_ops s t)
      else OBad m_op
    | [c; a; b] =>
      if is_ s_find h then
        odo q <- qry c a b; odo r <- ok (iset_find s (fst (fst q)) (snd (fst q)) (snd q));
        OEmit (SL (SA s_h :: map sx_region r)) (iset_ops s t)
      else if is_ s_findidx h then
        odo q <- qry c a b; odo r <- ok (iset_find_index s (fst (fst q)) (snd (fst q)) (snd q));
        OEmit (SL (SA s_h :: map an r)) (iset_ops s t)
      else if is_ s_findfull h then
        odo q <- qry c a b; odo r <- ok (iset_find_full s (fst (fst q)) (snd (fst q)) (snd q));
        OEmit (SL (SA s_h :: map (fun ri => SL [sx_region (fst ri); an (snd ri)]) r)) (iset_ops s t)
      else if is_ s_isov h then
        odo q <- qry c a b; odo r <- ok (iset_find_full s (fst (fst q)) (snd (fst q)) (snd q));
        OEmit (sx_bool (match r with [] => false | _ => true end)) (iset_ops s t)
      else OBad m_op
    | _ => OBad m_op
    end
  | _ :: _ => OBad m_op
  end.
Definition run_iset (args : list sexp) : err sexp :=
  match args with
  | [regs; ops] =>
    with_panic (odo l <- tagged s_regs regs; odo rs <- emap region_of l; odo ops <- tagged s_ops ops;
                iset_ops (iset_new rs) ops)
  | _ => Bad m_args
  end.
Fixpoint imap_ops (s : imap) (ops : list sexp) : outs :=
  match ops with
  | [] => ODone
  | SL (SA h :: args) :: t =>
    match args with
    | [] =>
      if is_ s_len h then OEmit (anat (length (im_data s))) (imap_ops s t)
      else OBad m_op
    | [i] =>
      if is_ s_get h then
        odo i <- intd i;
        if (i <? 0)%Z then OBad m_neg                             (* List.nth_opt: Invalid_argument *)
        else OEmit (sx_opt an (nth_error (im_data s) (Z.to_nat i))) (imap_ops s t)
      else OBad m_op
    | [c; a; b] =>
      if is_ s_find h then
        odo q <- qry c a b; odo r <- ok (imap_find s (fst (fst q)) (snd (fst q)) (snd q));
        OEmit (SL (SA s_h :: map (fun rv => SL [sx_region (fst rv); an (snd rv)]) r)) (imap_ops s t)
      else if is_ s_findidx h then
        odo q <- qry c a b; odo r <- ok (gfind (im_idx s) (fst (fst q)) (snd (fst q)) (snd q));
        OEmit (SL (SA s_h :: map (fun g => an (vl (snd g))) r)) (imap_ops s t)
      else OBad m_op
    | _ => OBad m_op
    end
  | _ :: _ => OBad m_op
  end.
Definition imap_rec_of (x : sexp) : err (region * N) :=
  match x with
  | SL [c; a; b; v] => edo r <- region3 c a b; edo v <- num v; Good (r, v)
  | SL _ => Bad m_rec
  | SA _ => Bad m_list
  end.
Definition run_imap (args : list sexp) : err sexp :=
  match args with
  | [recs; ops] =>
    with_panic (odo l <- tagged s_recs recs; odo rs <- emap imap_rec_of l; odo ops <- tagged s_ops ops;
                imap_ops (imap_new rs) ops)
  | _ => Bad m_args
  end.

(* ---------- coverage ---------- *)
Definition cov_both (s : iset) (d : cov) (sp : scov) (op : cop) : err (cov * scov) :=
  edo d' <- ok (cov_step s (Ok d) op); edo sp' <- ok (scov_step s (Ok sp) op); Good (d', sp').
Fixpoint cov_ops (s : iset) (d : cov) (sp : scov) (ops : list sexp) : outs :=
  match ops with
  | [] => ODone
  | SL (SA h :: args) :: t =>
    match args with
    | [] =>
      if is_ s_reset h then odo ds <- cov_both s d sp CReset; cov_ops s (fst ds) (snd ds) t
      else if is_ s_get h then
        OEmit (SL [SA s_dense; az (c_total d); anat (length (c_counts d)); SL (map az (c_counts d))])
          (odo v <- ok (smap_as_vec (sc_map sp) (iset_len s));
           OEmit (SL [SA s_sparse; az (sc_total sp); anat (iset_len s); SL (map az v)]) (cov_ops s d sp t))
      else OBad m_op
    | [i; k] =>
      if is_ s_insat h then
        odo i <- natd i; odo k <- znum k; odo ds <- cov_both s d sp (CInsertAt i k); cov_ops s (fst ds) (snd ds) t
      else OBad m_op
    | [c; a; b; k] =>
      if is_ s_ins h then
        odo q <- qry c a b; odo k <- znum k;
        odo ds <- cov_both s d sp (CInsert (fst (fst q)) (snd (fst q)) (snd q) k); cov_ops s (fst ds) (snd ds) t
      else OBad m_op
    | _ => OBad m_op
    end
  | _ :: _ => OBad m_op
  end.
Definition run_cov (args : list sexp) : err sexp :=
  match args with
  | [regs; ops] =>
    with_panic (odo l <- tagged s_regs regs; odo rs <- emap region_of l; odo ops <- tagged s_ops ops;
                let s := iset_new rs in cov_ops s (cov_new s) (mkSCov 0 []) ops)
  | _ => Bad m_args
  end.

Definition bcov_both (s : iset) (b : N) (d : bcov) (sp : sbcov) (op : bop) : err (bcov * sbcov) :=
  edo d' <- ok (bcov_step s b (Ok d) op); edo sp' <- ok (sbcov_step s b (Ok sp) op); Good (d', sp').
Fixpoint bcov_ops (s : iset) (b : N) (d : bcov) (sp : sbcov) (ops : list sexp) : outs :=
  match ops with
  | [] => ODone
  | SL (SA h :: args) :: t =>
    match args with
    | [] =>
      if is_ s_reset h then odo ds <- bcov_both s b d sp BReset; bcov_ops s b (fst ds) (snd ds) t
      else if is_ s_get h then
        OEmit (SL [SA s_dense; az (bc_total d); SL (map (fun r => SL (map az r)) (bc_counts d))])
          (odo v <- ok (smap_as_vec (sb_map sp) (N.to_nat (sb_len sp)));
           OEmit (SL [SA s_sparse; az (sb_total sp); an (sb_len sp); SL (map az v)]) (bcov_ops s b d sp t))
      else if is_ s_len h then
        OEmit (anat (fold_left (fun a r => (a + length r)%nat) (bc_counts d) 0%nat))
          (OEmit (an (sb_len sp)) (bcov_ops s b d sp t))
      else if is_ s_regions h then
        odo rs <- ok (bcov_regions s b);
        OEmit (SL (SA s_regions :: map (fun r => SL (map sx_region r)) rs)) (bcov_ops s b d sp t)
      else OBad m_op
    | [i] =>
      if is_ s_getregion h then
        odo i <- num i; odo r <- ok (sb_get_region sp s b i); OEmit (sx_opt sx_region r) (bcov_ops s b d sp t)
      else if is_ s_getchrom h then
        odo i <- num i; odo r <- ok (sb_get_chrom sp s b i); OEmit (sx_opt sx_chr r) (bcov_ops s b d sp t)
      else OBad m_op
    | [c; x; y; k] =>
      if is_ s_ins h then
        odo q <- qry c x y; odo k <- znum k;
        odo ds <- bcov_both s b d sp (BInsert (fst (fst q)) (snd (fst q)) (snd q) k); bcov_ops s b (fst ds) (snd ds) t
      else OBad m_op
    | _ => OBad m_op
    end
  | _ :: _ => OBad m_op
  end.
Definition run_bcov (args : list sexp) : err sexp :=
  match args with
  | [b; regs; ops] =>
    with_panic (odo b <- num b; odo l <- tagged s_regs regs; odo rs <- emap region_of l;
                let s := iset_new rs in
                odo d <- ok (bcov_new s b); odo sp <- ok (sbcov_new s b);
                odo ops <- tagged s_ops ops;
                bcov_ops s b d sp ops)
  | _ => Bad m_args
  end.

(* sbcov: the sparse binned counter alone (region lists whose total number of bins no dense vector could hold):
   the map itself is emitted, as (flat index, count) pairs in model order (the comparison sorts them) *)
Fixpoint sbcov_ops (s : iset) (b : N) (sp : sbcov) (ops : list sexp) : outs :=
  match ops with
  | [] => ODone
  | SL (SA h :: args) :: t =>
    match args with
    | [] =>
      if is_ s_reset h then odo sp' <- ok (sbcov_step s b (Ok sp) BReset); sbcov_ops s b sp' t
      else if is_ s_getmap h then
        OEmit (SL [SA s_smap; az (sb_total sp); an (sb_len sp); SL (map (fun kv => SL [an (fst kv); az (snd kv)]) (sb_map sp))])
          (sbcov_ops s b sp t)
      else OBad m_op
    | [i] =>
      if is_ s_getregion h then
        odo i <- num i; odo r <- ok (sb_get_region sp s b i); OEmit (sx_opt sx_region r) (sbcov_ops s b sp t)
      else if is_ s_getchrom h then
        odo i <- num i; odo r <- ok (sb_get_chrom sp s b i); OEmit (sx_opt sx_chr r) (sbcov_ops s b sp t)
      else OBad m_op
    | [c; x; y; k] =>
      if is_ s_ins h then
        odo q <- qry c x y; odo k <- znum k;
        odo sp' <- ok (sbcov_step s b (Ok sp) (BInsert (fst (fst q)) (snd (fst q)) (snd q) k)); sbcov_ops s b sp' t
      else OBad m_op
    | _ => OBad m_op
    end
  | _ :: _ => OBad m_op
  end.
Definition run_sbcov (args : list sexp) : err sexp :=
  match args with
  | [b; regs; ops] =>
    with_panic (odo b <- num b; odo l <- tagged s_regs regs; odo rs <- emap region_of l;
                let s := iset_new rs in
                odo sp <- ok (sbcov_new s b);
                odo ops <- tagged s_ops ops;
                sbcov_ops s b sp ops)
  | _ => Bad m_args
  end.

(* ---------- algebra ---------- *)
Definition W64 : N := 18446744073709551615.
Definition sx_gr (g : bytes * N * N) : sexp := SL [sx_chr (fst (fst g)); an (snd (fst g)); an (snd g)].
Definition run_alg (args : list sexp) : err sexp :=
  match args with
  | [_; a; b; c] =>
    with_panic (odo a <- brec_of a; odo b <- brec_of b; odo c <- brec_of c;
      let ov x y := sx_opt sx_gr (boverlap x y) in
      OEmit (SL [SA s_len; an (blen a); an (blen b); an (blen c)])
      (OEmit (SL [SA s_ov; ov a b; ov b a; ov a c; ov a a])
      (OEmit (SL [SA s_nov; an (bn_overlap a b); an (bn_overlap b a); an (bn_overlap a c); an (bn_overlap a a)])
      (OEmit (SL [SA s_cmp; sx_cmp (bcompare a b); sx_cmp (bcompare b a); sx_cmp (bcompare b c);
                  sx_cmp (bcompare a c); sx_cmp (bcompare a a)])
      (let a' := bset_end (bset_start (bset_chrom a (b_chr b)) (b_st c)) (b_en b) in
       let g := to_genomic_range a' in
       OEmit (SL [SA s_set; sx_chr (fst (fst g)); an (snd (fst g)); an (snd g)]) ODone)))))
  | _ => Bad m_args
  end.
Definition sx_pair (p : N * N) : sexp := SL [an (fst p); an (snd p)].
Definition run_split (args : list sexp) : err sexp :=
  match args with
  | [s; e; b] =>
    with_panic (odo s <- num s; odo e <- num e; odo b <- num b;
      odo l <- ok (split_by_len s e b);
      OEmit (SL (SA s_sp :: map sx_pair l))
        (odo r <- ok (rsplit_by_len W64 s e b);
         OEmit (SL (SA s_rsp :: map sx_pair r)) ODone))
  | _ => Bad m_args
  end.
(* (splithead s e b k): the first k pieces of both tilings, for records with far too many pieces to enumerate *)
Definition run_splithead (args : list sexp) : err sexp :=
  match args with
  | [s; e; b; k] =>
    with_panic (odo s <- num s; odo e <- num e; odo b <- num b; odo k <- num k;
      odo l <- ok (split_head s e b k);
      OEmit (SL (SA s_sp :: map sx_pair l))
        (odo r <- ok (rsplit_head W64 s e b k);
         OEmit (SL (SA s_rsp :: map sx_pair r)) ODone))
  | _ => Bad m_args
  end.
Definition run_merge (args : list sexp) : err sexp :=
  match args with
  | [recs] =>
    with_panic (odo l <- tagged s_recs recs; odo l <- emap brec_of l;
      odo gs <- ok (merge_groups l);
      OEmit (SL (SA s_groups :: map (fun g => SL (map (fun r => az (b_val r)) g)) gs))
        (odo rs <- ok (merge_sorted_bed l);
         OEmit (SL (SA s_ranges :: map sx_gr rs)) ODone))
  | _ => Bad m_args
  end.
Definition run_bg (args : list sexp) : err sexp :=
  match args with
  | [recs] =>
    with_panic (odo l <- tagged s_recs recs; odo l <- emap brec_of l;
      odo o <- ok (merge_sorted_bedgraph l);
      OEmit (SL (SA s_out :: map (fun r => SL [sx_chr (b_chr r); an (b_st r); an (b_en r); az (b_val r)]) o)) ODone)
  | _ => Bad m_args
  end.

(* ---------- text: Display / FromStr / Reader / Writer ---------- *)
Definition opt_of {A} (f : sexp -> err A) (x : sexp) : err (option A) :=
  match x with
  | SA a => if is_ s_none a then Good None else (edo v <- f x; Good (Some v))
  | SL _ => edo v <- f x; Good (Some v)
  end.
Definition strand_of (x : sexp) : err strand :=
  edo a <- atom x; match a with [43] => Good Fwd | [45] => Good Rev | _ => Bad m_rec end.
Definition bed_of (l : list sexp) : err (bed * list sexp) :=
  match l with
  | c :: s :: e :: nm :: sc :: sd :: rest =>
    edo c <- chr c; edo s <- num s; edo e <- num e;
    edo nm <- opt_of chr nm; edo sc <- opt_of num sc; edo sd <- opt_of strand_of sd;
    Good (mkBed c s e nm sc sd, rest)
  | _ => Bad m_rec
  end.
Definition sx_strand (s : strand) : sexp := SA (match s with Fwd => [43] | Rev => [45] end).
Definition sx_bedfields (b : bed) : list sexp :=
  [sx_chr (bd_chr b); an (bd_st b); an (bd_en b); sx_opt sx_chr (bd_name b); sx_opt an (bd_score b);
   sx_opt sx_strand (bd_strand b)].
(* float tables shipped with the case: (ftab (bits hex)...) and (ptab (hex bits|none)...); keys are compared as text *)
Fixpoint assoc {A} (k : bytes) (l : list (bytes * A)) : option A :=
  match l with [] => None | (k', v) :: t => if bytes_eqb k k' then Some v else assoc k t end.
Definition ftab := list (bytes * bytes).
Definition mk_ftab (ft : sexp) : err ftab :=
  edo l <- tagged s_ftab ft;
  emap (fun e => match e with
                 | SL [b; h] => edo b <- atom b; edo h <- chr h; Good (b, h)
                 | SL _ => Bad m_rec
                 | SA _ => Bad m_list
                 end) l.
Definition ptab := list (bytes * option N).
Definition mk_ptab (pt : sexp) : err ptab :=
  edo l <- tagged s_ptab pt;
  emap (fun e => match e with
                 | SL [h; b] => edo h <- atom h; edo v <- opt_of num b; Good (h, v)
                 | SL _ => Bad m_rec
                 | SA _ => Bad m_list
                 end) l.
(* driver.ml raised Bad from inside the lookup when a float / token was not in its table.  A Gallina function
   cannot; the lookups are total and a miss is made visible in the result:
   - show: a missed float shows as the single byte 256, which no other part of a shown text can be (the chromosome
     and name bytes come from hex text, the rest is ASCII); every shown float is part of the text;
   - parse: see [parse_typed]. *)
Definition MISS_BYTE : N := 256.
Definition show_f_of (tbl : ftab) (bits : N) : bytes :=
  match assoc (text_of_N bits) tbl with Some v => v | None => [MISS_BYTE] end.
Definition has_miss (s : bytes) : bool := existsb (fun b => 255 <? b) s.
Definition MISS_BITS : N := 18446744073709551616.          (* 2^64: not the bit pattern of an f64 *)
Definition parse_f_of (miss : option N) (tbl : ptab) (s : bytes) : option N :=
  match assoc (hex_of_bytes s) tbl with Some v => v | None => miss end.

Definition sx_perr (e : perr) : bytes :=
  match e with
  | MissingChrom => s_missing_chrom | MissingStart => s_missing_start | InvalidStart => s_invalid_start
  | MissingEnd => s_missing_end | InvalidEnd => s_invalid_end | MissingName => s_missing_name
  | MissingScore => s_missing_score | InvalidScore => s_invalid_score | MissingStrand => s_missing_strand
  | InvalidStrand => s_invalid_strand | MissingField => s_ext | InvalidField => s_ext
  end.
Definition sx_pres {A} (f : A -> sexp) (r : pres A) : sexp :=
  match r with POk a => SL [SA s_ok; f a] | PErr e => SL [SA s_err; SA (sx_perr e)] | PPanic => SA s_panic end.
Definition sx_bed (b : bed) : sexp := SL (sx_bedfields b).
Definition sx_np (r : npeak) : sexp :=
  SL (sx_bedfields (np_bed r) ++ [an (np_signal r); sx_opt an (np_p r); sx_opt an (np_q r); an (np_peak r)]).
Definition sx_bp (r : bpeak) : sexp :=
  SL (sx_bedfields (bp_bed r) ++ [an (bp_signal r); sx_opt an (bp_p r); sx_opt an (bp_q r)]).
Definition sx_bgr (r : bgraph) : sexp :=
  SL [sx_chr (bg_chr r); an (bg_st r); an (bg_en r); match bg_val r with VInt z => az z | VFloat b => an b end].

Inductive ttype := TGr | TBed (n : N) | TNp | TBp | TBgi | TBgf.
Definition ttype_of (t : bytes) : err ttype :=
  if is_ s_gr t then Good TGr
  else if is_ s_bed3 t then Good (TBed 3) else if is_ s_bed4 t then Good (TBed 4)
  else if is_ s_bed5 t then Good (TBed 5) else if is_ s_bed6 t then Good (TBed 6)
  else if is_ s_np t then Good TNp else if is_ s_bp t then Good TBp
  else if is_ s_bgi t then Good TBgi else if is_ s_bgf t then Good TBgf
  else Bad m_type.
Definition np_of (r : sexp) : err npeak :=
  edo l <- lst r; edo br <- bed_of l;
  match snd br with
  | [sg; p; q; pk] => edo sg <- num sg; edo p <- opt_of num p; edo q <- opt_of num q; edo pk <- num pk;
                      Good (mkNP (fst br) sg p q pk)
  | _ => Bad m_rec
  end.
Definition bp_of (r : sexp) : err bpeak :=
  edo l <- lst r; edo br <- bed_of l;
  match snd br with
  | [sg; p; q] => edo sg <- num sg; edo p <- opt_of num p; edo q <- opt_of num q; Good (mkBP (fst br) sg p q)
  | _ => Bad m_rec
  end.
Definition bg_of (is_float : bool) (r : sexp) : err bgraph :=
  match r with
  | SL [c; s; e; v] =>
    edo c <- chr c; edo s <- num s; edo e <- num e;
    if is_float then (edo v <- num v; Good (mkBG c s e (VFloat v))) else (edo v <- znum v; Good (mkBG c s e (VInt v)))
  | SL _ => Bad m_rec
  | SA _ => Bad m_list
  end.
(* a typed record: its shown text *)
Definition show_typed (ty : ttype) (tbl : ftab) (r : sexp) : err bytes :=
  let sf := show_f_of tbl in
  edo txt <-
    match ty with
    | TGr => edo g <- region_of r; Good (show_grange (fst (fst g)) (snd (fst g)) (snd g))
    | TBed n => edo l <- lst r; edo br <- bed_of l; Good (show_bed n (fst br))
    | TNp => edo x <- np_of r; Good (show_npeak sf x)
    | TBp => edo x <- bp_of r; Good (show_bpeak sf x)
    | TBgi => edo x <- bg_of false r; Good (show_bgraph sf x)
    | TBgf => edo x <- bg_of true r; Good (show_bgraph sf x)
    end;
  match ty with
  | TGr | TBed _ => Good txt
  | _ => if has_miss txt then Bad m_ftab else Good txt
  end.

Fixpoint sexp_eqb (x y : sexp) : bool :=
  match x, y with
  | SA a, SA b => bytes_eqb a b
  | SL l, SL m =>
    (fix go (l m : list sexp) : bool :=
       match l, m with
       | [], [] => true
       | a :: l', b :: m' => sexp_eqb a b && go l' m'
       | _, _ => false
       end) l m
  | _, _ => false
  end.
Definition sexps_eqb (l m : list sexp) : bool := sexp_eqb (SL l) (SL m).

(* the parser for a type, printing results as sexp *)
Definition parse_with (ty : ttype) (pf : bytes -> option N) (s : bytes) : sexp :=
  match ty with
  | TGr => sx_pres sx_gr (parse_grange s)
  | TBed n => sx_pres sx_bed (parse_bed n s)
  | TNp => sx_pres sx_np (parse_npeak pf s)
  | TBp => sx_pres sx_bp (parse_bpeak pf s)
  | TBgi => sx_pres sx_bgr (parse_bgraph false pf s)
  | TBgf => sx_pres sx_bgr (parse_bgraph true pf s)
  end.
Definition uses_pf (ty : ttype) : bool := match ty with TGr | TBed _ => false | _ => true end.
(* a token missing from ptab: a parser that consults [pf] on a missed token and gets None answers PErr InvalidField
   for that line, printed (err ext).  So when no (err ext) appears in the result computed with "missed = None", no
   missed token was consulted and the result is the result under any other answer for missed tokens (theorems
   parse_with_probe and items_with_probe in RunCheck.v).  Otherwise the parse is run again with "missed = Some of a
   value that is no f64"; if the two runs differ, a missed token was consulted and the case is Bad as in driver.ml.
   (When both runs give the same answer although a missed token was consulted, the answer is that result, where
   driver.ml answered glue-error: the generators never ship an incomplete table.) *)
Definition is_ext_err (x : sexp) : bool :=
  match x with SL [SA e; SA m] => is_ s_err e && is_ s_ext m | _ => false end.
Definition parse_typed (ty : ttype) (tbl : ptab) (s : bytes) : err sexp :=
  let r1 := parse_with ty (parse_f_of None tbl) s in
  if uses_pf ty && is_ext_err r1 then
    if sexp_eqb r1 (parse_with ty (parse_f_of (Some MISS_BITS) tbl) s) then Good r1 else Bad m_ptab
  else Good r1.
Definition items_with (ty : ttype) (pf : bytes -> option N) (prefix : option bytes) (s : bytes) : list sexp :=
  match ty with
  | TGr => map (sx_pres sx_gr) (reader_items parse_grange prefix s)
  | TBed n => map (sx_pres sx_bed) (reader_items (parse_bed n) prefix s)
  | TNp => map (sx_pres sx_np) (reader_items (parse_npeak pf) prefix s)
  | TBp => map (sx_pres sx_bp) (reader_items (parse_bpeak pf) prefix s)
  | TBgi => map (sx_pres sx_bgr) (reader_items (parse_bgraph false pf) prefix s)
  | TBgf => map (sx_pres sx_bgr) (reader_items (parse_bgraph true pf) prefix s)
  end.
Definition reader_items_sx (ty : ttype) (tbl : ptab) (prefix : option bytes) (s : bytes) : err (list sexp) :=
  let r1 := items_with ty (parse_f_of None tbl) prefix s in
  if uses_pf ty && existsb is_ext_err r1 then
    if sexps_eqb r1 (items_with ty (parse_f_of (Some MISS_BITS) tbl) prefix s) then Good r1 else Bad m_ptab
  else Good r1.

Definition run_fmt (args : list sexp) : err sexp :=
  match args with
  | [t; r; ft; pt] =>
    with_panic (odo t <- atom t; odo ftb <- mk_ftab ft; odo ptb <- mk_ptab pt; odo ty <- ttype_of t;
      odo txt <- show_typed ty ftb r;
      OEmit (SL [SA s_txt; sx_hex txt])
        (odo back <- parse_typed ty ptb txt;
         OEmit (SL [SA s_rt; back])
           (match ty with
            | TGr =>
              odo g <- region_of r;
              let p := pretty_show (fst (fst g)) (snd (fst g)) (snd g) in
              OEmit (SL [SA s_pretty; sx_hex p])
                (odo back <- parse_typed ty ptb p; OEmit (SL [SA s_prt; back]) ODone)
            | _ => ODone
            end)))
  | _ => Bad m_args
  end.
Definition run_parse (args : list sexp) : err sexp :=
  match args with
  | [t; s; pt] =>
    with_panic (odo t <- atom t; odo ptb <- mk_ptab pt; odo s <- chr s; odo ty <- ttype_of t;
                odo r <- parse_typed ty ptb s; OEmit r ODone)
  | _ => Bad m_args
  end.
Definition run_misc (args : list sexp) : err sexp :=
  match args with
  | [SA k; x] =>
    if is_ s_optf k then
      with_panic (odo l <- lst x; odo fs <- emap chr l; OEmit (sx_hex (show_optional_fields fs)) ODone)
    else if is_ s_strand k then
      with_panic (odo s <- chr x;
        OEmit (match strand_from_str s with
               | SOk sd => SL [SA s_ok; sx_hex (show_strand sd)]
               | SEmpty => SA s_empty
               | SInvalid => SA s_invalid
               end) ODone)
    else Bad m_args
  | _ => Bad m_args
  end.
(* bincode wire format of the crate's record types: serialized bytes and the deserialization of those bytes *)
Definition ser_out (bytes_ : bytes) (back : sexp) : outs :=
  OEmit (SL [SA s_bytes; sx_hex bytes_]) (OEmit (SL [SA s_rt; back]) ODone).
Definition run_ser (args : list sexp) : err sexp :=
  match args with
  | [SA t; r] =>
    with_panic (odo ty <- ttype_of t;
      match ty with
      | TGr => odo g <- region_of r; ser_out (ser_grange g) (sx_opt sx_gr (de_all de_grange (ser_grange g)))
      | TBed _ =>
        odo l <- lst r; odo br <- bed_of l;
        let b := fst br in
        ser_out (ser_bedrec b []) (match de_all de_bedrec (ser_bedrec b []) with Some (x, []) => sx_bed x | _ => SA s_none end)
      | TNp => odo x <- np_of r; ser_out (ser_npeak x) (sx_opt sx_np (de_all de_npeak (ser_npeak x)))
      | TBp => odo x <- bp_of r; ser_out (ser_bpeak x) (sx_opt sx_bp (de_all de_bpeak (ser_bpeak x)))
      | TBgi => odo x <- bg_of false r; ser_out (ser_bgraph x) (sx_opt sx_bgr (de_all (de_bgraph false) (ser_bgraph x)))
      | TBgf => odo x <- bg_of true r; ser_out (ser_bgraph x) (sx_opt sx_bgr (de_all (de_bgraph true) (ser_bgraph x)))
      end)
  | _ => Bad m_args
  end.
Definition sx_okn (o : option N) : sexp := match o with Some v => SL [SA s_ok; an v] | None => SA s_err end.
Definition run_score (args : list sexp) : err sexp :=
  match args with
  | [SA k; v] =>
    if is_ s_try k then with_panic (odo v <- num v; OEmit (sx_okn (score_try_from v)) ODone)
    else if is_ s_str k then with_panic (odo s <- chr v; OEmit (sx_okn (score_from_str s)) ODone)
    else Bad m_args
  | _ => Bad m_args
  end.
(* each written line ends in LF; replace it by the requested terminator *)
Fixpoint reterminate (lines : list bytes) (terms : list sexp) : err bytes :=
  match lines, terms with
  | [], [] => Good []
  | l :: ls, t :: ts =>
    edo t <- atom t;
    let body := removelast l in
    edo x <- (if is_ s_lf t then Good (body ++ [LF]) else if is_ s_crlf t then Good (body ++ [CR; LF])
              else if is_ s_none t then Good body else Bad m_rec);
    edo r <- reterminate ls ts; Good (x ++ r)
  | _, _ => Bad m_map2
  end.
Definition prefix_of (p : sexp) : err (option bytes) := opt_of chr p.
Definition run_read (args : list sexp) : err sexp :=
  match args with
  | [t; prefix; stream; _; pt] =>
    with_panic (odo t <- atom t; odo ptb <- mk_ptab pt; odo prefix <- prefix_of prefix; odo s <- chr stream;
                odo ty <- ttype_of t;
                odo items <- reader_items_sx ty ptb prefix s; OEmit (SL (SA s_items :: items)) ODone)
  | _ => Bad m_args
  end.
Definition run_wr (args : list sexp) : err sexp :=
  match args with
  | [t; prefix; recs; terms; _; ft; pt] =>
    with_panic (odo t <- atom t; odo ftb <- mk_ftab ft; odo ptb <- mk_ptab pt; odo prefix <- prefix_of prefix;
      odo l <- tagged s_recs recs; odo ty <- ttype_of t;
      odo lines <- emap (fun r => edo x <- show_typed ty ftb r; Good (write_record x)) l;
      OEmit (SL [SA s_txt; sx_hex (concat lines)])
        (odo terms <- tagged s_terms terms; odo s <- reterminate lines terms;
         odo items <- reader_items_sx ty ptb prefix s; OEmit (SL (SA s_items :: items)) ODone))
  | _ => Bad m_args
  end.
Fixpoint rep_lines (k : nat) (line acc : bytes) : bytes :=
  match k with O => acc | S k' => rep_lines k' line (line ++ acc) end.
Definition run_skiprun (args : list sexp) : err sexp :=
  match args with
  | [nn; prefix; tail] =>
    with_panic (odo p <- chr prefix; odo k <- intd nn;
      if (k <? 0)%Z then OBad m_neg else                (* driver.ml's loop does not end for a negative count *)
      odo tl <- chr tail;
      let s := rep_lines (Z.to_nat k) (p ++ [120; LF]) tl in
      odo items <- reader_items_sx (TBed 3) [] (Some p) s; OEmit (SL (SA s_items :: items)) ODone)
  | _ => Bad m_args
  end.

(* ---------- extsort ---------- *)
Definition wop_of (x : sexp) : err wop :=
  match x with
  | SL [SA h; k] => if is_ s_acc h then (edo k <- natd k; Good (WAccept k)) else Bad m_rec
  | SA a => if is_ s_zero a then Good WZero else if is_ s_err a then Good WErr else if is_ s_intr a then Good WIntr
            else Bad m_rec
  | _ => Bad m_rec
  end.
Definition rop_of (x : sexp) : err rop :=
  match x with
  | SL [SA h; k] => if is_ s_give h then (edo k <- natd k; Good (RGive k)) else Bad m_rec
  | SA a => if is_ s_intr a then Good RIntr else if is_ s_err a then Good RErr else Bad m_rec
  | _ => Bad m_rec
  end.
Definition sx_citem (c : citem) : sexp :=
  match c with CItem v => SL [SA s_ok; sx_hex v] | CIoErr => SA s_ioerr | CDeErr => SA s_deerr end.
Definition citem_of (x : sexp) : err citem :=
  match x with
  | SL [SA h; v] => if is_ s_ok h then (edo v <- chr v; Good (CItem v)) else Bad m_rec
  | SA a => if is_ s_ioerr a then Good CIoErr else if is_ s_deerr a then Good CDeErr else Bad m_rec
  | _ => Bad m_rec
  end.
(* payloads are given as (len seed): byte i of the blob = (seed + i * 7) mod 256 *)
Fixpoint blob_gen (n : nat) (b : N) : bytes :=
  match n with
  | O => []
  | S k => b :: blob_gen k (let c := b + 7 in if c <? 256 then c else c - 256)
  end.
Definition blob_of (x : sexp) : err bytes :=
  match x with
  | SL [len; seed] =>
    edo n <- intd len; edo sd <- intd seed;
    if (n <? 0)%Z then Bad m_neg                               (* List.init: Invalid_argument *)
    else Good (blob_gen (Z.to_nat n) (Z.to_N (sd mod 256)%Z))
  | _ => Bad m_rec
  end.
Definition run_chunk (args : list sexp) : err sexp :=
  match args with
  | SA stack :: items :: wplan :: rplan :: more =>
    edo cutx <- match more with [] => Good None | [c] => Good (Some c) | _ => Bad m_args end;
    with_panic (
      odo cut <- match cutx with
                 | None => Good 0%Z
                 | Some c => edo l <- tagged s_cut c; match l with [k] => intd k | _ => Bad m_rec end
                 end;
      odo l <- tagged s_items items; odo items <- emap blob_of l;
      if is_ s_lz4 stack then OEmit (SA s_oracle_only) ODone
      else
        odo wl <- tagged s_wplan wplan; odo wp <- emap wop_of wl;
        odo rl <- tagged s_rplan rplan; odo rp <- emap rop_of rl;
        let bare := is_ s_bare stack in
        let '(stw, e) := if bare then dump (mkW [] wp) items else dump_buffered wp items in
        match e with
        | Some _ => OEmit (SL [SA s_dump; SA s_err]) ODone
        | None =>
          OEmit (SL [SA s_dump; SA s_ok])
          (OEmit (SL [SA s_stored; sx_hex (w_stored stw)])
          (let keep := (Z.of_nat (length (w_stored stw)) - cut)%Z in
           let data := firstn (Z.to_nat keep) (w_stored stw) in
           OEmit (SL (SA s_items :: map sx_citem (if bare then chunk_read data rp else chunk_read_buffered data rp))) ODone))
        end)
  | _ => Bad m_args
  end.
Definition is1 (a : bytes) : bool := match a with [49] => true | _ => false end.
Definition run_chunkchk (args : list sexp) : err sexp :=
  match args with
  | [items; SA dump_ok; got; SA hard] =>
    edo l <- tagged s_items items; edo items <- emap blob_of l;
    edo g <- tagged s_got got; edo got <- emap citem_of g;
    Good (SL [SA s_verdict; sx_bool (chunk_oracle items (is1 dump_ok) got (is1 hard))])
  | _ => Bad m_args
  end.
Definition mitem_of (x : sexp) : err mitem :=
  match x with
  | SL [SA h; k; id] => if is_ s_ok h then (edo k <- num k; edo id <- num id; Good (MOk k id)) else Bad m_rec
  | SL [SA h; t] => if is_ s_err h then (edo t <- num t; Good (MErr t)) else Bad m_rec
  | _ => Bad m_rec
  end.
Definition sx_mout (o : mout) : sexp :=
  match o with OutOk k id => SL [SA s_ok; an k; an id] | OutErr t => SL [SA s_err; an t] end.
Definition mout_of (x : sexp) : err mout :=
  match x with
  | SL [SA h; k; id] => if is_ s_ok h then (edo k <- num k; edo id <- num id; Good (OutOk k id)) else Bad m_rec
  | SL [SA h; t] => if is_ s_err h then (edo t <- num t; Good (OutErr t)) else Bad m_rec
  | _ => Bad m_rec
  end.
Definition chunks_of (x : sexp) : err (list (list mitem)) :=
  edo l <- tagged s_chunks x; emap (fun c => edo cl <- lst c; emap mitem_of cl) l.
Definition run_kmerge (args : list sexp) : err sexp :=
  match args with
  | SA rev :: chunks :: ncalls :: more =>
    match more with
    | [] | [_] =>
      with_panic (odo n <- natd ncalls; odo cs <- chunks_of chunks;
        odo r <- ok (merger_calls (is1 rev) n (mkM cs [] false));
        OEmit (SL (SA s_calls :: map (sx_opt sx_mout) r)) ODone)
    | _ => Bad m_args
    end
  | _ => Bad m_args
  end.
Definition run_kmergechk (args : list sexp) : err sexp :=
  match args with
  | [SA rev; chunks; outs_] =>
    edo cs <- chunks_of chunks; edo l <- tagged s_outs outs_; edo os <- emap mout_of l;
    Good (SL [SA s_verdict; sx_bool (merge_oracle (is1 rev) cs os)])
  | _ => Bad m_args
  end.
Definition xsort_item_of (x : sexp) : err (N * N) :=
  match x with
  | SL (k :: id :: _) => edo k <- num k; edo id <- num id; Good (k, id)
  | SL _ => Bad m_rec
  | SA _ => Bad m_list
  end.
Definition xsort_outs (cs : sexp) (rev : bytes) (items : sexp) : outs :=
  odo l <- tagged s_items items; odo input <- emap xsort_item_of l;
  (* the default chunk size (50,000,000) exceeds every generated input: same behaviour as len + 1 *)
  odo cs <- match cs with
            | SA a => if is_ s_default a then Good (S (length input)) else natd cs
            | SL _ => natd cs
            end;
  odo r <- ok (ext_sort_isort (is1 rev) cs input);
  OEmit (SL [SA s_len; anat (fst r)]) (OEmit (SL (SA s_out :: map sx_mout (snd r))) ODone).
Definition run_xsort (args : list sexp) : err sexp :=
  match args with
  | cs :: _ :: _ :: SA rev :: items :: more =>
    match more with
    | [] | [_] => with_panic (xsort_outs cs rev items)
    | _ => Bad m_args
    end
  | _ => Bad m_args
  end.
(* two sorts on one sorter object, results consumed interleaved: the sorter keeps no state between calls in the model *)
Definition run_xsort2 (args : list sexp) : err sexp :=
  match args with
  | [cs; _; _; SA rev; a; b] =>
    edo rb <- finish_tail (xsort_outs cs rev b);
    edo ra <- finish_tail (xsort_outs cs rev a);
    Good (SL (SA s_r :: ra ++ rb))
  | _ => Bad m_args
  end.
Definition names_of (l : list sexp) : err (list bytes) := emap chr l.
Definition run_tmpchk (args : list sexp) : err sexp :=
  match args with
  | [cfg; before; during; after; opens] =>
    edo cfg <- chr cfg;
    edo b <- tagged s_before before; edo b <- names_of b;
    edo d <- tagged s_during during; edo d <- emap (fun x => edo l <- lst x; names_of l) d;
    edo a <- tagged s_after after; edo a <- names_of a;
    if tmp_ok cfg b d a then
      (* && is lazy: the open-file snapshots are decoded only now *)
      edo o <- tagged s_opens opens; edo o <- emap (fun x => edo l <- lst x; names_of l) o;
      Good (SL [SA s_verdict; sx_bool (tmp_open_ok cfg o)])
    else Good (SL [SA s_verdict; sx_bool false])
  | _ => Bad m_args
  end.
(* records of the crate's own types: the generator supplies the rank of each record's (chrom,start,end) as key *)
Definition run_xsortrec (cs recs : sexp) : err sexp :=
  edo l <- tagged s_recs recs;
  edo items <- emap (fun r => match r with
                              | SL (rank :: id :: _) => Good (SL [rank; id])
                              | SL _ => Bad m_rec
                              | SA _ => Bad m_list
                              end) l;
  with_panic (xsort_outs cs [48] (SL (SA s_items :: items))).

Definition oracle_only : err sexp := Good (SL [SA s_r; SA s_oracle_only]).
Definition run_case_err (x : sexp) : err sexp :=
  match x with
  | SL (SA k :: args) =>
    if is_ s_lap k then run_lap args
    else if is_ s_gmap k then run_gmap args
    else if is_ s_iset k then run_iset args
    else if is_ s_imap k then run_imap args
    else if is_ s_cov k then run_cov args
    else if is_ s_bcov k then run_bcov args
    else if is_ s_sbcov k then run_sbcov args
    else if is_ s_alg k then run_alg args
    else if is_ s_split k then run_split args
    else if is_ s_splithead k then run_splithead args
    else if is_ s_merge k then run_merge args
    else if is_ s_bg k then run_bg args
    else if is_ s_fmt k then run_fmt args
    else if is_ s_parse k then run_parse args
    else if is_ s_score k then run_score args
    else if is_ s_ser k then run_ser args
    else if is_ s_misc k then run_misc args
    else if is_ s_read k then run_read args
    else if is_ s_wr k then run_wr args
    else if is_ s_skiprun k then run_skiprun args
    else if is_ s_chunk k then run_chunk args
    else if is_ s_chunkchk k then run_chunkchk args
    else if is_ s_kmerge k then run_kmerge args
    else if is_ s_kmergechk k then run_kmergechk args
    else if is_ s_xsort k then run_xsort args
    else if is_ s_xsort2 k then run_xsort2 args
    else if is_ s_tmpchk k then run_tmpchk args
    else if is_ s_xsortrec k then
      match args with [_; cs; _; _; recs] => run_xsortrec cs recs | _ => Bad m_kind end
    else if is_ s_tmp k then oracle_only
    else if is_ s_xsortquota k then oracle_only
    else if is_ s_wrfail k then oracle_only
    else Bad m_kind
  | _ => Bad m_kind
  end.

(* one case in, one answer out; total *)
Definition run_case (x : sexp) : sexp :=
  match run_case_err x with
  | Good s => s
  | Bad m => SL [SA s_glue_error; SA m]
  | Panicked => SL [SA s_glue_error; SA m_uncaught]
  end.

(* MergerProofs.v — proofs about the k-way merger (merger.rs, C10) and the external sort (sort.rs, C01).
   Stdlib only, no axioms. *)
From BedV Require Import Base ListFacts AlgebraModel ExtSortModel.

Definition no_err (c : list mitem) : Prop := forall x, In x c -> is_merr x = false.
Definition oks_of (c : list mitem) : list (N * N) := flat_map (fun x => match x with MOk k id => [(k, id)] | MErr _ => [] end) c.
(* the Ok items of a chunk before its first error *)
Fixpoint ok_head (c : list mitem) : list (N * N) := match c with MOk k id :: t => (k, id) :: ok_head t | _ => [] end.
Definition outs_oks (outs : list mout) : list (N * N) := flat_map (fun o => match o with OutOk k id => [(k, id)] | OutErr _ => [] end) outs.
Definition chunk_sorted (rev : bool) (c : list mitem) : Prop := sorted_keys rev (ok_head c) = true.

(* ================= the comparator is a total preorder on keys ================= *)
Definition kle (rv : bool) (a b : N) : Prop := if rv then b <= a else a <= b.
Lemma kcmp_kle rv a b : kcmp rv a b <> Gt <-> kle rv a b.
Proof. unfold kcmp, kle, N.le. destruct rv; tauto. Qed.
Lemma kle_refl rv a : kle rv a a.
Proof. unfold kle; destruct rv; lia. Qed.
Lemma kle_trans rv a b c : kle rv a b -> kle rv b c -> kle rv a c.
Proof. unfold kle; destruct rv; lia. Qed.
Lemma kle_antisym rv a b : kle rv a b -> kle rv b a -> a = b.
Proof. unfold kle; destruct rv; lia. Qed.
Lemma kcmp_Gt rv a b : kcmp rv a b = Gt -> kle rv b a /\ a <> b.
Proof. unfold kcmp, kle. destruct rv; rewrite N.compare_gt_iff; lia. Qed.
Lemma kcmp_Lt rv a b : kcmp rv a b = Lt -> kle rv a b /\ a <> b.
Proof. unfold kcmp, kle. destruct rv; rewrite N.compare_lt_iff; lia. Qed.
Lemma kcmp_Eq rv a b : kcmp rv a b = Eq -> a = b.
Proof. unfold kcmp. destruct rv; rewrite N.compare_eq_iff; auto. Qed.
Lemma kcmp_not_Lt rv a b : kcmp rv a b <> Lt <-> kle rv b a.
Proof.
  destruct (kcmp rv a b) eqn:E.
  - apply kcmp_Eq in E. subst. split; [intros _; apply kle_refl|discriminate].
  - pose proof (kcmp_Lt _ _ _ E) as [H1 H2]. split; [congruence|]. intros H. exfalso. apply H2. apply (kle_antisym rv); assumption.
  - split; [intros _; apply (kcmp_Gt _ _ _ E)|discriminate].
Qed.

(* ---------- sorted_keys ---------- *)
Lemma sorted_cons rv a b l :
  sorted_keys rv (a :: b :: l) = true <-> kle rv (fst a) (fst b) /\ sorted_keys rv (b :: l) = true.
Proof.
  rewrite <- kcmp_kle.
  change (sorted_keys rv (a :: b :: l))
    with ((match kcmp rv (fst a) (fst b) with Gt => false | _ => true end) && sorted_keys rv (b :: l)).
  rewrite andb_true_iff. destruct (kcmp rv (fst a) (fst b)); split; intros [H1 H2]; split;
    try assumption; try discriminate; try reflexivity. exfalso. apply H1. reflexivity.
Qed.
Lemma sorted_tl rv a l : sorted_keys rv (a :: l) = true -> sorted_keys rv l = true.
Proof. destruct l; [reflexivity|]. intros H. apply sorted_cons in H. apply H. Qed.
Lemma sorted_skip rv a b l : sorted_keys rv (a :: b :: l) = true -> sorted_keys rv (a :: l) = true.
Proof.
  destruct l as [|c l]; [reflexivity|]. rewrite !sorted_cons. intros (H1 & H2 & H3).
  split; [eapply kle_trans; eassumption|assumption].
Qed.
Lemma sorted_head rv a l : sorted_keys rv (a :: l) = true -> Forall (fun y => kle rv (fst a) (fst y)) l.
Proof.
  induction l as [|b l IH]; intros H; constructor.
  - apply sorted_cons in H. apply H.
  - apply IH. eapply sorted_skip. exact H.
Qed.
Lemma sorted_push rv a l :
  Forall (fun y => kle rv (fst a) (fst y)) l -> sorted_keys rv l = true -> sorted_keys rv (a :: l) = true.
Proof.
  destruct l as [|b l]; [reflexivity|]. intros H1 H2. apply sorted_cons. inversion H1; subst. split; assumption.
Qed.

Definition kleP (rv : bool) (a b : N * N) : Prop := kle rv (fst a) (fst b).
Lemma sorted_keys_SS rv l : sorted_keys rv l = true <-> StronglySorted (kleP rv) l.
Proof.
  split.
  - induction l as [|a l IH]; intros H; constructor.
    + apply IH. eapply sorted_tl. exact H.
    + apply sorted_head. exact H.
  - induction 1 as [|a l Hs IH Hall]; [reflexivity|]. apply sorted_push; assumption.
Qed.

(* two sorted lists of keys that are permutations of each other are equal *)
Lemma SS_perm_eq rv (l1 : list N) : forall l2,
  StronglySorted (kle rv) l1 -> StronglySorted (kle rv) l2 -> Permutation l1 l2 -> l1 = l2.
Proof.
  induction l1 as [|a t1 IH]; intros l2 H1 H2 Hp.
  - apply Permutation_nil in Hp. auto.
  - destruct l2 as [|b t2]; [symmetry in Hp; apply Permutation_nil in Hp; discriminate|].
    inversion H1 as [|? ? Hs1 Ha]; subst. inversion H2 as [|? ? Hs2 Hb]; subst.
    assert (a = b).
    { rewrite Forall_forall in Ha, Hb.
      assert (Hab : kle rv a b).
      { assert (Hin : In b (a :: t1)) by (eapply Permutation_in; [symmetry; exact Hp|left; reflexivity]).
        destruct Hin as [->|Hin]; [apply kle_refl|auto]. }
      assert (Hba : kle rv b a).
      { assert (Hin : In a (b :: t2)) by (eapply Permutation_in; [exact Hp|left; reflexivity]).
        destruct Hin as [->|Hin]; [apply kle_refl|auto]. }
      eapply kle_antisym; eassumption. }
    subst b. f_equal. apply IH; try assumption. eapply Permutation_cons_inv. exact Hp.
Qed.
Lemma SS_map_fst rv l : StronglySorted (kleP rv) l -> StronglySorted (kle rv) (map fst l).
Proof.
  induction 1 as [|a l Hs IH Hall]; cbn [map]; constructor; [assumption|].
  rewrite Forall_forall in *. intros k Hk. apply in_map_iff in Hk. destruct Hk as (y & <- & Hy). apply Hall. exact Hy.
Qed.
Theorem sorted_perm_unique : forall rev l1 l2,
  sorted_keys rev l1 = true -> sorted_keys rev l2 = true -> Permutation l1 l2 -> map fst l1 = map fst l2.
Proof.
  intros rv l1 l2 H1 H2 Hp. apply (SS_perm_eq rv).
  - apply SS_map_fst, sorted_keys_SS, H1.
  - apply SS_map_fst, sorted_keys_SS, H2.
  - apply Permutation_map. exact Hp.
Qed.

(* ---------- isort (kltb rev) is a sorting function ---------- *)
Lemma kltb_true rv a b : kltb rv a b = true <-> kcmp rv (fst a) (fst b) = Lt.
Proof. unfold kltb. destruct (kcmp rv (fst a) (fst b)); split; congruence. Qed.
Lemma leR_kleP rv a b : leR (kltb rv) a b <-> kleP rv a b.
Proof.
  unfold leR, kleP. rewrite <- kcmp_not_Lt. rewrite <- kltb_true.
  destruct (kltb rv b a); split; congruence.
Qed.
Lemma kltb_asym rv x y : kltb rv x y = true -> kltb rv y x = false.
Proof.
  intros H. apply kltb_true in H. apply kcmp_Lt in H. destruct H as [H1 H2].
  destruct (kltb rv y x) eqn:E; [|reflexivity]. apply kltb_true, kcmp_Lt in E. destruct E as [E1 E2].
  exfalso. apply H2. eapply kle_antisym; eassumption.
Qed.
Lemma kltb_le_trans rv x y z : leR (kltb rv) x y -> leR (kltb rv) y z -> leR (kltb rv) x z.
Proof. rewrite !leR_kleP. unfold kleP. apply kle_trans. Qed.
Lemma isort_kltb_sorting rv r :
  Permutation (isort (kltb rv) r) r /\ sorted_keys rv (isort (kltb rv) r) = true.
Proof.
  split; [apply isort_perm|]. apply sorted_keys_SS.
  pose proof (isort_sorted (kltb rv) (kltb_asym rv) (kltb_le_trans rv) r) as H.
  eapply StronglySorted_ind with (P := fun l => StronglySorted (kleP rv) l); [constructor| |exact H].
  intros a l _ IH Hall. constructor; [exact IH|].
  eapply Forall_impl; [|exact Hall]. intros b Hb. apply leR_kleP. exact Hb.
Qed.

(* ================= run formation (C01) ================= *)
Lemma runs_loop_concat A cs (l : list A) : forall buf, concat (runs_loop cs buf l) = List.rev buf ++ l.
Proof.
  induction l as [|x t IH]; intros buf; cbn [runs_loop].
  - destruct buf; [reflexivity|]. cbn [concat]. reflexivity.
  - destruct (Nat.leb cs (length (x :: buf))).
    + cbn [concat]. rewrite IH. cbn [List.rev app]. rewrite <- app_assoc. reflexivity.
    + rewrite IH. cbn [List.rev]. rewrite <- app_assoc. reflexivity.
Qed.
Theorem runs_concat : forall A cs (l : list A), concat (runs cs l) = l.
Proof. intros. unfold runs. rewrite runs_loop_concat. reflexivity. Qed.

Lemma runs_loop_sizes A cs (l : list A) : forall buf, (length buf < Nat.max cs 1)%nat ->
  Forall (fun r => r <> [] /\ (length r <= Nat.max cs 1)%nat) (runs_loop cs buf l) /\
  (forall pre r post, runs_loop cs buf l = pre ++ r :: post -> post <> [] -> length r = Nat.max cs 1).
Proof.
  induction l as [|x t IH]; intros buf Hb; cbn [runs_loop].
  - destruct buf as [|b buf].
    + split; [constructor|]. intros pre r post H. destruct pre; discriminate.
    + split.
      * constructor; [|constructor]. split.
        -- intros H. apply (f_equal (@length A)) in H. rewrite rev_length in H. discriminate.
        -- rewrite rev_length. lia.
      * intros pre r post H Hp. destruct pre as [|p pre]; [injection H as _ H; congruence|].
        destruct pre; discriminate.
  - destruct (Nat.leb cs (length (x :: buf))) eqn:E.
    + apply Nat.leb_le in E. cbn [length] in E.
      assert (Hl : length (List.rev (x :: buf)) = Nat.max cs 1) by (rewrite rev_length; cbn [length]; lia).
      destruct (IH []) as [IH1 IH2]; [cbn [length]; lia|]. split.
      * constructor; [|exact IH1]. split; [|lia].
        intros H. rewrite H in Hl. cbn [length] in Hl. lia.
      * intros pre r post H Hp. destruct pre as [|p pre].
        -- injection H as <- _. exact Hl.
        -- injection H as _ H. eapply IH2; eassumption.
    + apply Nat.leb_gt in E. cbn [length] in E. apply IH. cbn [length]. lia.
Qed.
Theorem runs_sizes : forall A cs (l : list A),
  Forall (fun r => r <> [] /\ (length r <= Nat.max cs 1)%nat) (runs cs l) /\
  (forall pre r post, runs cs l = pre ++ r :: post -> post <> [] -> length r = Nat.max cs 1).
Proof. intros. unfold runs. apply runs_loop_sizes. cbn [length]. lia. Qed.

(* ================= multiset bookkeeping by counting ================= *)
Definition kid_dec (x y : N * N) : {x = y} + {x <> y}.
Proof. decide equality; apply N.eq_dec. Defined.
Definition one (z x : N * N) : nat := if kid_dec x z then 1%nat else 0%nat.
Definition cnt (z : N * N) (l : list (N * N)) : nat := count_occ kid_dec l z.
Lemma cnt_nil z : cnt z [] = 0%nat.
Proof. reflexivity. Qed.
Lemma cnt_cons z x l : cnt z (x :: l) = (one z x + cnt z l)%nat.
Proof. unfold cnt, one. cbn [count_occ]. destruct (kid_dec x z); reflexivity. Qed.
Lemma cnt_app z l1 l2 : cnt z (l1 ++ l2) = (cnt z l1 + cnt z l2)%nat.
Proof. apply count_occ_app. Qed.
Lemma perm_cnt l1 l2 : Permutation l1 l2 <-> forall z, cnt z l1 = cnt z l2.
Proof. apply Permutation_count_occ. Qed.
Lemma all_oks_cons c t : all_oks (c :: t) = oks_of c ++ all_oks t.
Proof. reflexivity. Qed.
Lemma all_oks_nil : all_oks [] = [].
Proof. reflexivity. Qed.
Lemma all_oks_app a b : all_oks (a ++ b) = all_oks a ++ all_oks b.
Proof. unfold all_oks. apply flat_map_app. Qed.
Lemma oks_of_ok k id c : oks_of (MOk k id :: c) = (k, id) :: oks_of c.
Proof. reflexivity. Qed.
Lemma oks_of_err tag c : oks_of (MErr tag :: c) = oks_of c.
Proof. reflexivity. Qed.
Lemma oks_of_nil : oks_of [] = [].
Proof. reflexivity. Qed.
Lemma outs_oks_ok k id o : outs_oks (OutOk k id :: o) = (k, id) :: outs_oks o.
Proof. reflexivity. Qed.
Lemma outs_oks_err tag o : outs_oks (OutErr tag :: o) = outs_oks o.
Proof. reflexivity. Qed.
Lemma outs_oks_nil : outs_oks [] = [].
Proof. reflexivity. Qed.
Global Opaque cnt one.
#[global] Hint Rewrite cnt_nil cnt_cons cnt_app all_oks_cons all_oks_nil all_oks_app oks_of_ok oks_of_err oks_of_nil
  outs_oks_ok outs_oks_err outs_oks_nil map_app map_cons app_nil_r : cnt.
(* turn every Permutation hypothesis and the goal into counting equations at a fresh point, then lia *)
Ltac perm_lia :=
  let zz := fresh "zz" in
  apply perm_cnt; intros zz;
  repeat match goal with H : Permutation _ _ |- _ => apply perm_cnt with (z := zz) in H end;
  cbn [map fst] in *; autorewrite with cnt in *; cbn [map fst] in *; lia.

(* ================= the merger (C10) ================= *)
Definition key (e : N * N * nat) : N := fst (fst e).
Notation hk h := (map (@fst (N * N) nat) h).

Lemma better_true rv y x : better rv y x = true -> kle rv (key y) (key x).
Proof.
  unfold better, key. destruct (kcmp rv (fst (fst y)) (fst (fst x))) eqn:E; intros H.
  - apply kcmp_Eq in E. rewrite E. apply kle_refl.
  - apply kcmp_Lt in E. apply E.
  - discriminate.
Qed.
Lemma better_false rv y x : better rv y x = false -> kle rv (key x) (key y).
Proof.
  unfold better, key. destruct (kcmp rv (fst (fst y)) (fst (fst x))) eqn:E; intros H.
  - apply kcmp_Eq in E. rewrite E. apply kle_refl.
  - discriminate.
  - apply kcmp_Gt in E. apply E.
Qed.
Lemma pop_best_none rv h : pop_best rv h = None -> h = [].
Proof.
  destruct h as [|x t]; [reflexivity|]. cbn [pop_best].
  destruct (pop_best rv t) as [[y r]|]; [destruct (better rv y x)|]; discriminate.
Qed.
Lemma pop_best_spec rv h : forall x h2, pop_best rv h = Some (x, h2) ->
  Permutation h (x :: h2) /\ Forall (fun y => kle rv (key x) (key y)) h2.
Proof.
  induction h as [|a t IH]; intros x h2 H; cbn [pop_best] in H; [discriminate|].
  destruct (pop_best rv t) as [[y r]|] eqn:E.
  - destruct (IH y r eq_refl) as [Hp Hf].
    destruct (better rv y a) eqn:B; inversion H; subst; clear H.
    + split; [rewrite Hp; apply perm_swap|]. constructor; [apply better_true; exact B|exact Hf].
    + split; [reflexivity|]. apply better_false in B.
      rewrite Forall_forall in *. intros z Hz. eapply Permutation_in in Hz; [|exact Hp].
      destruct Hz as [<-|Hz]; [exact B|]. eapply kle_trans; [exact B|auto].
  - inversion H; subst; clear H. apply pop_best_none in E. subst. split; [reflexivity|constructor].
Qed.

(* ---------- set_nth ---------- *)
Lemma set_nth_split {A} (l : list A) : forall i y x, nth_error l i = Some y ->
  exists l1 l2, l = l1 ++ y :: l2 /\ length l1 = i /\ set_nth l i x = l1 ++ x :: l2.
Proof.
  induction l as [|a l IH]; intros [|i] y x H; try discriminate.
  - injection H as ->. exists [], l. auto.
  - cbn [nth_error] in H. destruct (IH i y x H) as (l1 & l2 & -> & <- & E). exists (a :: l1), l2.
    cbn [set_nth app length]. rewrite E. auto.
Qed.
Lemma set_nth_length {A} (l : list A) : forall i x, length (set_nth l i x) = length l.
Proof. induction l; intros [|i] x; cbn [set_nth length]; auto. Qed.
Lemma nth_set_nth_eq {A} (l : list A) : forall i y x, nth_error l i = Some y -> nth_error (set_nth l i x) i = Some x.
Proof. induction l; intros [|i] y x H; try discriminate; cbn [set_nth nth_error]; eauto. Qed.
Lemma nth_set_nth_neq {A} (l : list A) : forall i j x, i <> j -> nth_error (set_nth l i x) j = nth_error l j.
Proof. induction l; intros [|i] [|j] x H; cbn [set_nth nth_error]; auto; try congruence. Qed.

Lemma total_len_cons c t : total_len (c :: t) = (length c + total_len t)%nat.
Proof. reflexivity. Qed.
Lemma total_len_app a b : total_len (a ++ b) = (total_len a + total_len b)%nat.
Proof. induction a as [|c a IH]; [reflexivity|]. cbn [app]. rewrite !total_len_cons, IH. lia. Qed.

(* ---------- the priming loop ---------- *)
Ltac prime_ind chunks :=
  let IH := fresh "IH" in let H := fresh "H" in let E := fresh "E" in
  induction chunks as [|c t IH]; intros ci heap c1 h1 e H; cbn [prime] in H;
  [ inversion H; subst; clear H
  | destruct c as [|[k id|tag] c'];
    [ destruct (prime t (S ci) heap) as [[t' h'] e'] eqn:E; inversion H; subst; clear H; specialize (IH _ _ _ _ _ E)
    | destruct (prime t (S ci) ((k, id, ci) :: heap)) as [[t' h'] e'] eqn:E; inversion H; subst; clear H; specialize (IH _ _ _ _ _ E)
    | inversion H; subst; clear H ] ].

Lemma prime_length chunks : forall ci heap c1 h1 e, prime chunks ci heap = (c1, h1, e) -> length c1 = length chunks.
Proof. prime_ind chunks; cbn [length]; congruence. Qed.
Lemma prime_mono chunks : forall ci heap c1 h1 e, prime chunks ci heap = (c1, h1, e) -> forall x, In x heap -> In x h1.
Proof. prime_ind chunks; intros x Hx; auto. apply IH. right. exact Hx. Qed.
Lemma prime_idx chunks : forall ci heap c1 h1 e, prime chunks ci heap = (c1, h1, e) ->
  forall x, In x h1 -> In x heap \/ (ci <= snd x < ci + length chunks)%nat.
Proof.
  prime_ind chunks; intros x Hx; auto; cbn [length].
  - destruct (IH x Hx) as [Hh|Hh]; [left; exact Hh|right; lia].
  - destruct (IH x Hx) as [[<-|Hh]|Hh]; [right; cbn [snd]; lia|left; exact Hh|right; lia].
Qed.
Lemma prime_acc chunks : forall ci heap c1 h1 e, prime chunks ci heap = (c1, h1, e) ->
  Permutation (hk heap ++ all_oks chunks) (hk h1 ++ all_oks c1).
Proof. prime_ind chunks; try reflexivity; perm_lia. Qed.
Lemma prime_measure chunks : forall ci heap c1 h1 e, prime chunks ci heap = (c1, h1, e) ->
  (total_len c1 + length h1 + (match e with Some _ => 1 | None => 0 end) = total_len chunks + length heap)%nat.
Proof. prime_ind chunks; rewrite ?total_len_cons in *; cbn [length] in *; lia. Qed.
Lemma no_err_tl x c : no_err (x :: c) -> no_err c.
Proof. intros H y Hy. apply H. right. exact Hy. Qed.
Lemma prime_clean chunks : forall ci heap c1 h1 e, prime chunks ci heap = (c1, h1, e) ->
  Forall no_err chunks -> e = None /\ Forall no_err c1.
Proof.
  prime_ind chunks; intros Hc; auto; inversion Hc as [|? ? Hc1 Hc2]; subst.
  - destruct (IH Hc2) as [-> Hf]. split; [reflexivity|constructor; assumption].
  - destruct (IH Hc2) as [-> Hf]. split; [reflexivity|constructor; [eapply no_err_tl; exact Hc1|assumption]].
  - specialize (Hc1 (MErr tag) (or_introl eq_refl)). discriminate.
Qed.
Lemma prime_err chunks : forall ci heap c1 h1 e, prime chunks ci heap = (c1, h1, e) ->
  forall tag, e = Some tag -> exists c, In c chunks /\ In (MErr tag) c.
Proof.
  prime_ind chunks; intros tg Ht; try discriminate.
  - destruct (IH tg Ht) as (c & Hc1 & Hc2). exists c. split; [right|]; assumption.
  - destruct (IH tg Ht) as (c & Hc1 & Hc2). exists c. split; [right|]; assumption.
  - injection Ht as <-. eexists. split; [left; reflexivity|left; reflexivity].
Qed.
Lemma prime_none chunks : forall ci heap c1 h1 e, prime chunks ci heap = (c1, h1, e) -> e = None ->
  forall j c, nth_error chunks j = Some c ->
    (c = [] /\ nth_error c1 j = Some []) \/
    (exists k id c', c = MOk k id :: c' /\ nth_error c1 j = Some c' /\ In (k, id, (ci + j)%nat) h1).
Proof.
  prime_ind chunks; intros He j c0 Hj; try discriminate.
  - destruct j; discriminate.
  - destruct j as [|j]; cbn [nth_error] in *.
    + injection Hj as <-. left. auto.
    + destruct (IH He j c0 Hj) as [?|(k & id & c' & ? & ? & Hin)]; [left; assumption|right].
      exists k, id, c'. repeat split; try assumption. replace (ci + S j)%nat with (S ci + j)%nat by lia. exact Hin.
  - destruct j as [|j]; cbn [nth_error] in *.
    + injection Hj as <-. right. exists k, id, c'. repeat split.
      replace (ci + 0)%nat with ci by lia. eapply prime_mono; [exact E|left; reflexivity].
    + destruct (IH He j c0 Hj) as [?|(k2 & id2 & c2 & ? & ? & Hin)]; [left; assumption|right].
      exists k2, id2, c2. repeat split; try assumption. replace (ci + S j)%nat with (S ci + j)%nat by lia. exact Hin.
Qed.
Lemma prime_new chunks : forall ci heap c1 h1 e, prime chunks ci heap = (c1, h1, e) -> e = None ->
  forall k id i, In (k, id, i) h1 -> In (k, id, i) heap \/
    exists j c', i = (ci + j)%nat /\ nth_error chunks j = Some (MOk k id :: c') /\ nth_error c1 j = Some c'.
Proof.
  prime_ind chunks; intros He k0 id0 i Hin; try discriminate; auto.
  - destruct (IH He _ _ _ Hin) as [?|(j & c' & -> & H1 & H2)]; [left; assumption|right].
    exists (S j), c'. repeat split; try assumption. lia.
  - destruct (IH He _ _ _ Hin) as [[Heq|?]|(j & c2 & -> & H1 & H2)]; [right|left; assumption|right].
    + injection Heq as <- <- <-. exists 0%nat, c'. repeat split. lia.
    + exists (S j), c2. repeat split; try assumption. lia.
Qed.

(* ---------- one call of next, as a relation ---------- *)
(* the pop-and-refill half, from chunks c and heap h *)
Inductive pstep (rv : bool) (c : list (list mitem)) (h : list (N * N * nat)) : mstate -> option mout -> Prop :=
| ps_none : h = [] -> pstep rv c h (mkM c [] true) None
| ps_empty k id ci h2 : pop_best rv h = Some ((k, id, ci), h2) -> nth_error c ci = Some [] ->
    pstep rv c h (mkM c h2 true) (Some (OutOk k id))
| ps_ok k id ci h2 k' id' c' : pop_best rv h = Some ((k, id, ci), h2) -> nth_error c ci = Some (MOk k' id' :: c') ->
    pstep rv c h (mkM (set_nth c ci c') ((k', id', ci) :: h2) true) (Some (OutOk k id))
| ps_err k id ci h2 tag c' : pop_best rv h = Some ((k, id, ci), h2) -> nth_error c ci = Some (MErr tag :: c') ->
    pstep rv c h (mkM (set_nth c ci c') h2 true) (Some (OutErr tag)).
(* the state in which the pop happens: the state itself when initiated, the primed one otherwise *)
Inductive ready : mstate -> list (list mitem) -> list (N * N * nat) -> Prop :=
| ready_init c h : ready (mkM c h true) c h
| ready_prime c h c1 h1 : prime c 0 h = (c1, h1, None) -> ready (mkM c h false) c1 h1.
Inductive nstep (rv : bool) : mstate -> mstate -> option mout -> Prop :=
| ns_perr c h c1 h1 tag : prime c 0 h = (c1, h1, Some tag) ->
    nstep rv (mkM c h false) (mkM c1 h1 false) (Some (OutErr tag))
| ns_pop s c1 h1 s' o : ready s c1 h1 -> pstep rv c1 h1 s' o -> nstep rv s s' o.

Definition pop_step (rv : bool) (chunks1 : list (list mitem)) (heap1 : list (N * N * nat)) : res (mstate * option mout) :=
  match pop_best rv heap1 with
  | None => Ok (mkM chunks1 heap1 true, None)
  | Some ((k, id, ci), heap2) =>
    do c <- idx chunks1 ci;
    match c with
    | [] => Ok (mkM chunks1 heap2 true, Some (OutOk k id))
    | MOk k' id' :: c' => Ok (mkM (set_nth chunks1 ci c') ((k', id', ci) :: heap2) true, Some (OutOk k id))
    | MErr tag :: c' => Ok (mkM (set_nth chunks1 ci c') heap2 true, Some (OutErr tag))
    end
  end.
Lemma merger_next_eq rv s :
  merger_next rv s =
  if m_init s then pop_step rv (m_chunks s) (m_heap s)
  else match prime (m_chunks s) 0 (m_heap s) with
       | (c1, h1, Some tag) => Ok (mkM c1 h1 false, Some (OutErr tag))
       | (c1, h1, None) => pop_step rv c1 h1
       end.
Proof.
  unfold merger_next, pop_step. destruct (m_init s); [reflexivity|].
  destruct (prime (m_chunks s) 0 (m_heap s)) as [[c1 h1] [tag|]]; reflexivity.
Qed.
Lemma pop_step_pstep rv c h s' o : pop_step rv c h = Ok (s', o) <-> pstep rv c h s' o.
Proof.
  unfold pop_step. split.
  - destruct (pop_best rv h) as [[[[k id] ci] h2]|] eqn:E.
    + unfold idx. destruct (nth_error c ci) as [[|[k' id'|tag] c']|] eqn:En; cbn [of_opt rbind]; intros H;
        inversion H; subst; econstructor; eassumption.
    + intros H. inversion H; subst. apply pop_best_none in E. subst. constructor. reflexivity.
  - intros H. destruct H as [->|k id ci h2 E En|k id ci h2 k' id' c' E En|k id ci h2 tag c' E En];
      [reflexivity|..]; rewrite E; unfold idx; rewrite En; reflexivity.
Qed.
Lemma next_nstep rv s s' o : merger_next rv s = Ok (s', o) <-> nstep rv s s' o.
Proof.
  rewrite merger_next_eq. destruct s as [c h [|]]; cbn [m_init m_chunks m_heap].
  - rewrite pop_step_pstep. split.
    + intros H. eapply ns_pop; [constructor|exact H].
    + intros H. inversion H as [|? ? ? ? ? Hr Hp]; subst. inversion Hr; subst. exact Hp.
  - destruct (prime c 0 h) as [[c1 h1] [tag|]] eqn:E.
    + split.
      * intros H. inversion H; subst. constructor. exact E.
      * intros H. inversion H as [? ? ? ? ? E'|? ? ? ? ? Hr Hp]; subst.
        -- rewrite E in E'. inversion E'; subst. reflexivity.
        -- inversion Hr as [|? ? ? ? E']; subst. rewrite E in E'. discriminate.
    + rewrite pop_step_pstep. split.
      * intros H. eapply ns_pop; [constructor; exact E|exact H].
      * intros H. inversion H as [? ? ? ? ? E'|? ? ? ? ? Hr Hp]; subst.
        -- rewrite E in E'. discriminate.
        -- inversion Hr as [|? ? ? ? E']; subst. rewrite E in E'. inversion E'; subst. exact Hp.
Qed.

(* ---------- invariants ---------- *)
Definition heap_ok (c : list (list mitem)) (h : list (N * N * nat)) : Prop := forall x, In x h -> (snd x < length c)%nat.
Definition measure (s : mstate) : nat := (total_len (m_chunks s) + length (m_heap s))%nat.

Lemma ready_heap_ok s c1 h1 : ready s c1 h1 -> heap_ok (m_chunks s) (m_heap s) -> heap_ok c1 h1.
Proof.
  intros [c h|c h c1' h1' E] Hok; [exact Hok|]. cbn [m_chunks m_heap] in Hok. intros x Hx.
  rewrite (prime_length _ _ _ _ _ _ E). destruct (prime_idx _ _ _ _ _ _ E x Hx) as [Hh|Hh]; [auto|lia].
Qed.
Lemma pstep_total rv c h : heap_ok c h -> exists s' o, pstep rv c h s' o.
Proof.
  intros Hok. destruct (pop_best rv h) as [[[[k id] ci] h2]|] eqn:E.
  - destruct (pop_best_spec _ _ _ _ E) as [Hp _].
    assert (Hci : (ci < length c)%nat).
    { apply (Hok (k, id, ci)). eapply Permutation_in; [symmetry; exact Hp|left; reflexivity]. }
    destruct (nth_error c ci) as [[|[k' id'|tag] c']|] eqn:En.
    + do 2 eexists. eapply ps_empty; eassumption.
    + do 2 eexists. eapply ps_ok; eassumption.
    + do 2 eexists. eapply ps_err; eassumption.
    + apply nth_error_None in En. lia.
  - apply pop_best_none in E. do 2 eexists. apply ps_none. exact E.
Qed.
Lemma nstep_total rv s : heap_ok (m_chunks s) (m_heap s) -> exists s' o, nstep rv s s' o.
Proof.
  intros Hok. destruct s as [c h [|]].
  - destruct (pstep_total rv c h Hok) as (s' & o & Hp). exists s', o. eapply ns_pop; [constructor|exact Hp].
  - destruct (prime c 0 h) as [[c1 h1] [tag|]] eqn:E.
    + do 2 eexists. constructor. exact E.
    + assert (Hr : ready (mkM c h false) c1 h1) by (constructor; exact E).
      destruct (pstep_total rv c1 h1 (ready_heap_ok _ _ _ Hr Hok)) as (s' & o & Hp).
      exists s', o. eapply ns_pop; eassumption.
Qed.
Lemma pstep_heap_ok rv c h s' o : pstep rv c h s' o -> heap_ok c h -> heap_ok (m_chunks s') (m_heap s').
Proof.
  intros [->|k id ci h2 E En|k id ci h2 k' id' c' E En|k id ci h2 tag c' E En] Hok; cbn [m_chunks m_heap];
    [intros x Hx; destruct Hx|..]; destruct (pop_best_spec _ _ _ _ E) as [Hp _]; intros x Hx; rewrite ?set_nth_length.
  - apply Hok. eapply Permutation_in; [symmetry; exact Hp|right; exact Hx].
  - destruct Hx as [<-|Hx].
    + cbn [snd]. apply nth_error_Some. congruence.
    + apply Hok. eapply Permutation_in; [symmetry; exact Hp|right; exact Hx].
  - apply Hok. eapply Permutation_in; [symmetry; exact Hp|right; exact Hx].
Qed.
Lemma set_nth_total_len c ci x c' : nth_error c ci = Some (x :: c') -> S (total_len (set_nth c ci c')) = total_len c.
Proof.
  intros H. destruct (set_nth_split c ci _ c' H) as (l1 & l2 & -> & _ & ->).
  rewrite !total_len_app, !total_len_cons. cbn [length]. lia.
Qed.
Lemma pstep_measure rv c h s' o : pstep rv c h s' o ->
  (o = None -> s' = mkM c [] true /\ h = []) /\ (o <> None -> (measure s' < total_len c + length h)%nat).
Proof.
  intros [->|k id ci h2 E En|k id ci h2 k' id' c' E En|k id ci h2 tag c' E En];
    (split; [intros Ho; try discriminate; auto|intros Ho; try congruence]);
    destruct (pop_best_spec _ _ _ _ E) as [Hp _]; apply Permutation_length in Hp; cbn [length] in Hp;
    unfold measure; cbn [m_chunks m_heap length].
  - lia.
  - pose proof (set_nth_total_len _ _ _ _ En). lia.
  - pose proof (set_nth_total_len _ _ _ _ En). lia.
Qed.
Lemma ready_measure s c1 h1 : ready s c1 h1 -> (total_len c1 + length h1)%nat = measure s.
Proof.
  intros [c h|c h c1' h1' E]; [reflexivity|]. unfold measure. cbn [m_chunks m_heap].
  pose proof (prime_measure _ _ _ _ _ _ E). cbn beta iota in *. lia.
Qed.
Lemma nstep_heap_ok rv s s' o : nstep rv s s' o -> heap_ok (m_chunks s) (m_heap s) ->
  heap_ok (m_chunks s') (m_heap s') /\ (o <> None -> (measure s' < measure s)%nat) /\
  (o = None -> m_init s' = true /\ m_heap s' = []).
Proof.
  intros [c h c1 h1 tag E|s0 c1 h1 s1 o1 Hr Hp] Hok; cbn [m_chunks m_heap] in *.
  - split; [|split; [|discriminate]].
    + intros x Hx. rewrite (prime_length _ _ _ _ _ _ E).
      destruct (prime_idx _ _ _ _ _ _ E x Hx) as [Hh|Hh]; [auto|lia].
    + intros _. unfold measure. cbn [m_chunks m_heap]. pose proof (prime_measure _ _ _ _ _ _ E). cbn beta iota in *. lia.
  - pose proof (ready_heap_ok _ _ _ Hr Hok) as Hok1. split; [eapply pstep_heap_ok; eassumption|].
    destruct (pstep_measure _ _ _ _ _ Hp) as [Hn Hs]. rewrite <- (ready_measure _ _ _ Hr). split; [exact Hs|].
    intros Ho. destruct (Hn Ho) as [-> _]. split; reflexivity.
Qed.

(* ---------- C10: no panic ---------- *)
Lemma drain_total rv : forall fuel s, heap_ok (m_chunks s) (m_heap s) -> (measure s < fuel)%nat ->
  exists outs, merger_drain rv fuel s = Ok outs.
Proof.
  induction fuel as [|f IH]; intros s Hok Hm; [lia|].
  destruct (nstep_total rv s Hok) as (s' & o & Hn).
  destruct (nstep_heap_ok _ _ _ _ Hn Hok) as (Hok' & Hlt & _).
  apply next_nstep in Hn. cbn [merger_drain]. rewrite Hn. cbn [rbind fst snd].
  destruct o as [o|]; [|eexists; reflexivity].
  destruct (IH s' Hok') as (outs & Ho); [assert (Some o <> None) by discriminate; specialize (Hlt H); lia|].
  rewrite Ho. eexists. reflexivity.
Qed.
Theorem merge_no_panic : forall rev chunks, exists outs, merge_all rev chunks = Ok outs.
Proof.
  intros rv chunks. unfold merge_all. apply drain_total.
  - intros x [].
  - unfold measure. cbn [m_chunks m_heap length]. lia.
Qed.

(* induction principle for properties of a successful drain *)
Lemma drain_ind rv (P : mstate -> list mout -> Prop) :
  (forall s s', nstep rv s s' None -> P s []) ->
  (forall s s' o outs, nstep rv s s' (Some o) -> P s' outs -> P s (o :: outs)) ->
  forall fuel s outs, merger_drain rv fuel s = Ok outs -> P s outs.
Proof.
  intros Hb Hs. induction fuel as [|f IH]; intros s outs H; [discriminate|].
  cbn [merger_drain] in H. destruct (merger_next rv s) as [[s' o]|] eqn:E; [|discriminate].
  cbn [rbind fst snd] in H. apply next_nstep in E. destruct o as [o|].
  - destruct (merger_drain rv f s') as [rest|] eqn:Er; [|discriminate]. cbn [rbind] in H. inversion H; subst.
    eapply Hs; [exact E|]. apply IH. exact Er.
  - inversion H; subst. eapply Hb. exact E.
Qed.

(* ---------- coverage: once initiated, every non-exhausted chunk has an entry in the heap ---------- *)
Definition cover (c : list (list mitem)) (h : list (N * N * nat)) : Prop :=
  forall j cc, nth_error c j = Some cc -> cc <> [] -> exists kid, In (kid, j) h.
Definition Cst (s : mstate) : Prop := m_init s = true -> cover (m_chunks s) (m_heap s).

Lemma ready_cover s c1 h1 : ready s c1 h1 -> Cst s -> cover c1 h1.
Proof.
  intros [c h|c h c1' h1' E] HC; [apply HC; reflexivity|].
  intros j cc Hj Hne.
  assert (Hc0 : exists c0, nth_error c j = Some c0).
  { destruct (nth_error c j) eqn:En; eauto. apply nth_error_None in En.
    rewrite <- (prime_length _ _ _ _ _ _ E) in En. apply nth_error_None in En. congruence. }
  destruct Hc0 as (c0 & Hc0).
  destruct (prime_none _ _ _ _ _ _ E eq_refl j c0 Hc0) as [[_ H2]|(k & id & c' & _ & H2 & Hin)].
  - rewrite H2 in Hj. injection Hj as <-. congruence.
  - exists (k, id). exact Hin.
Qed.
Lemma pstep_cover rv c h s' o : pstep rv c h s' o -> cover c h -> (forall tag, o <> Some (OutErr tag)) ->
  cover (m_chunks s') (m_heap s').
Proof.
  intros [->|k id ci h2 E En|k id ci h2 k' id' c' E En|k id ci h2 tag c' E En] Hc Ho; cbn [m_chunks m_heap];
    [exact Hc|..]; try (exfalso; eapply Ho; reflexivity);
    destruct (pop_best_spec _ _ _ _ E) as [Hp _]; intros j cc Hj Hne.
  - destruct (Hc j cc Hj Hne) as (kid & Hin). eapply Permutation_in in Hin; [|exact Hp].
    destruct Hin as [Heq|Hin]; [|eauto]. injection Heq as <- <-. congruence.
  - destruct (Nat.eq_dec ci j) as [<-|Hne'].
    + exists (k', id'). left. reflexivity.
    + rewrite nth_set_nth_neq in Hj by assumption.
      destruct (Hc j cc Hj Hne) as (kid & Hin). eapply Permutation_in in Hin; [|exact Hp].
      destruct Hin as [Heq|Hin]; [|exists kid; right; exact Hin]. injection Heq as <- <-. congruence.
Qed.
Lemma nstep_cover rv s s' o : nstep rv s s' o -> Cst s -> (forall tag, o <> Some (OutErr tag)) -> Cst s'.
Proof.
  intros [c h c1 h1 tag E|s0 c1 h1 s1 o1 Hr Hp] HC Ho.
  - exfalso. eapply Ho. reflexivity.
  - intros _. eapply pstep_cover; [exact Hp| |exact Ho]. eapply ready_cover; eassumption.
Qed.
Lemma nstep_none rv s s' : nstep rv s s' None -> m_init s' = true /\ m_heap s' = [].
Proof.
  intros H. inversion H as [|? ? ? ? ? Hr Hp]; subst. inversion Hp; subst. split; reflexivity.
Qed.
Lemma cover_nil c : cover c [] -> all_oks c = [].
Proof.
  intros Hc. assert (Hall : forall cc, In cc c -> cc = []).
  { intros cc Hin. destruct (In_nth_error _ _ Hin) as [j Hj]. destruct cc as [|x cc]; [reflexivity|].
    destruct (Hc j _ Hj) as [kid []]. discriminate. }
  clear Hc. induction c as [|a c IH]; [reflexivity|]. rewrite all_oks_cons.
  rewrite (Hall a (or_introl eq_refl)). cbn [oks_of flat_map app]. apply IH. intros cc Hin. apply Hall. right. exact Hin.
Qed.

(* ---------- accounting: where every Ok item goes ---------- *)
Definition out_ok (o : option mout) : list (N * N) := match o with Some (OutOk k id) => [(k, id)] | _ => [] end.
Lemma no_err_set_nth c ci x c' : nth_error c ci = Some (x :: c') -> Forall no_err c -> Forall no_err (set_nth c ci c').
Proof.
  intros H Hf. destruct (set_nth_split c ci _ c' H) as (l1 & l2 & -> & _ & ->).
  apply Forall_app in Hf. destruct Hf as [H1 H2]. inversion H2; subst. apply Forall_app. split; [assumption|].
  constructor; [eapply no_err_tl; eassumption|assumption].
Qed.
Lemma pstep_acc rv c h s' o : pstep rv c h s' o ->
  exists r, Permutation (hk h ++ all_oks c) (out_ok o ++ r ++ hk (m_heap s') ++ all_oks (m_chunks s')) /\
    (Forall no_err c -> r = [] /\ Forall no_err (m_chunks s') /\ forall tag, o <> Some (OutErr tag)).
Proof.
  intros [->|k id ci h2 E En|k id ci h2 k' id' c' E En|k id ci h2 tag c' E En]; cbn [m_chunks m_heap out_ok].
  - exists []. split; [reflexivity|]. intros Hf. repeat split; [assumption|discriminate].
  - destruct (pop_best_spec _ _ _ _ E) as [Hp _]. apply (Permutation_map fst) in Hp.
    exists []. split; [perm_lia|]. intros Hf. repeat split; [assumption|discriminate].
  - destruct (pop_best_spec _ _ _ _ E) as [Hp _]. apply (Permutation_map fst) in Hp.
    exists []. split.
    + destruct (set_nth_split c ci _ c' En) as (l1 & l2 & -> & _ & ->). perm_lia.
    + intros Hf. repeat split; [eapply no_err_set_nth; eassumption|discriminate].
  - destruct (pop_best_spec _ _ _ _ E) as [Hp _]. apply (Permutation_map fst) in Hp.
    exists [(k, id)]. split.
    + destruct (set_nth_split c ci _ c' En) as (l1 & l2 & -> & _ & ->). perm_lia.
    + intros Hf. exfalso. rewrite Forall_forall in Hf. apply nth_error_In in En.
      specialize (Hf _ En (MErr tag) (or_introl eq_refl)). discriminate.
Qed.
Lemma ready_acc s c1 h1 : ready s c1 h1 ->
  Permutation (hk (m_heap s) ++ all_oks (m_chunks s)) (hk h1 ++ all_oks c1) /\
  (Forall no_err (m_chunks s) -> Forall no_err c1).
Proof.
  intros [c h|c h c1' h1' E]; cbn [m_chunks m_heap]; [split; [reflexivity|auto]|].
  split; [eapply prime_acc; exact E|]. intros Hf. eapply prime_clean; eassumption.
Qed.
Lemma nstep_acc rv s s' o : nstep rv s s' o ->
  exists r, Permutation (hk (m_heap s) ++ all_oks (m_chunks s)) (out_ok o ++ r ++ hk (m_heap s') ++ all_oks (m_chunks s')) /\
    (Forall no_err (m_chunks s) -> r = [] /\ Forall no_err (m_chunks s') /\ forall tag, o <> Some (OutErr tag)).
Proof.
  intros [c h c1 h1 tag E|s0 c1 h1 s1 o1 Hr Hp]; cbn [m_chunks m_heap out_ok].
  - exists []. split; [apply prime_acc in E; perm_lia|].
    intros Hf. destruct (prime_clean _ _ _ _ _ _ E Hf) as [He _]. discriminate.
  - destruct (ready_acc _ _ _ Hr) as [Hpr Hcl]. destruct (pstep_acc _ _ _ _ _ Hp) as (r & Hpp & Hcl2).
    exists r. split; [perm_lia|]. intros Hf. apply Hcl2. apply Hcl. exact Hf.
Qed.

(* a clean drain delivers everything *)
Lemma drain_clean rv fuel s outs : merger_drain rv fuel s = Ok outs -> Cst s -> Forall no_err (m_chunks s) ->
  has_out_err outs = false /\ Permutation (outs_oks outs) (hk (m_heap s) ++ all_oks (m_chunks s)) /\
  length (outs_oks outs) = length outs.
Proof.
  revert fuel s outs.
  apply (drain_ind rv (fun s outs => Cst s -> Forall no_err (m_chunks s) ->
    has_out_err outs = false /\ Permutation (outs_oks outs) (hk (m_heap s) ++ all_oks (m_chunks s)) /\
    length (outs_oks outs) = length outs)).
  - intros s s' Hn HC Hf. destruct (nstep_acc _ _ _ _ Hn) as (r & Hp & Hcl). destruct (Hcl Hf) as (-> & _ & Ho).
    pose proof (nstep_cover _ _ _ _ Hn HC Ho) as HC'. destruct (nstep_none _ _ _ Hn) as [Hi Hh].
    specialize (HC' Hi). rewrite Hh in *. apply cover_nil in HC'. rewrite HC' in Hp. cbn [out_ok map app] in Hp.
    split; [reflexivity|]. split; [|reflexivity]. cbn [outs_oks flat_map]. symmetry. exact Hp.
  - intros s s' o outs Hn IH HC Hf. destruct (nstep_acc _ _ _ _ Hn) as (r & Hp & Hcl). destruct (Hcl Hf) as (-> & Hf' & Ho).
    pose proof (nstep_cover _ _ _ _ Hn HC Ho) as HC'. destruct (IH HC' Hf') as (I1 & I2 & I3).
    destruct o as [k id|tag]; [|exfalso; eapply Ho; reflexivity]. cbn [out_ok] in Hp.
    split; [exact I1|]. split; [perm_lia|]. rewrite outs_oks_ok. cbn [length]. congruence.
Qed.
(* in general, the delivered Ok items are a sub-multiset of the chunks' Ok items *)
Lemma drain_acc rv fuel s outs : merger_drain rv fuel s = Ok outs ->
  exists r, Permutation (hk (m_heap s) ++ all_oks (m_chunks s)) (outs_oks outs ++ r).
Proof.
  revert fuel s outs.
  apply (drain_ind rv (fun s outs => exists r, Permutation (hk (m_heap s) ++ all_oks (m_chunks s)) (outs_oks outs ++ r))).
  - intros s s' _. eexists. cbn [outs_oks flat_map app]. reflexivity.
  - intros s s' o outs Hn (r1 & Hp1). destruct (nstep_acc _ _ _ _ Hn) as (r & Hp & _).
    exists (r ++ r1). destruct o as [k id|tag]; cbn [out_ok] in Hp; perm_lia.
Qed.

(* ---------- order ---------- *)
Definition Srt (rv : bool) (c : list (list mitem)) (h : list (N * N * nat)) : Prop :=
  forall k id ci, In (k, id, ci) h -> exists cc, nth_error c ci = Some cc /\ sorted_keys rv ((k, id) :: ok_head cc) = true.
Definition Sst (rv : bool) (s : mstate) : Prop :=
  if m_init s then Srt rv (m_chunks s) (m_heap s) else m_heap s = [] /\ Forall (chunk_sorted rv) (m_chunks s).
Lemma ready_Srt rv s c1 h1 : ready s c1 h1 -> Sst rv s -> Srt rv c1 h1.
Proof.
  intros [c h|c h c1' h1' E]; unfold Sst; cbn [m_init m_chunks m_heap]; [auto|]. intros [-> Hf] k id ci Hin.
  destruct (prime_new _ _ _ _ _ _ E eq_refl _ _ _ Hin) as [[]|(j & c' & -> & H1 & H2)].
  exists c'. split; [exact H2|]. rewrite Forall_forall in Hf. apply nth_error_In in H1. apply (Hf _ H1).
Qed.
Lemma pstep_Srt rv c h s' o : pstep rv c h s' o -> Srt rv c h -> forall k id, o = Some (OutOk k id) ->
  Srt rv (m_chunks s') (m_heap s') /\ Forall (fun y => kle rv k (key y)) (m_heap s') /\ exists ci, In (k, id, ci) h.
Proof.
  intros [->|k id ci h2 E En|k id ci h2 k' id' c' E En|k id ci h2 tag c' E En] HS k0 id0 Ho; try discriminate;
    injection Ho as <- <-; destruct (pop_best_spec _ _ _ _ E) as [Hp Hlb]; cbn [m_chunks m_heap];
    assert (Hx : In (k, id, ci) h) by (eapply Permutation_in; [symmetry; exact Hp|left; reflexivity]).
  - split; [|split; [exact Hlb|eauto]]. intros k1 id1 ci1 Hin. apply HS.
    eapply Permutation_in; [symmetry; exact Hp|right; exact Hin].
  - destruct (HS _ _ _ Hx) as (cc & Hcc & Hs). rewrite En in Hcc. injection Hcc as <-. cbn [ok_head] in Hs.
    split; [|split; [|eauto]].
    + intros k1 id1 ci1 [Heq|Hin].
      * injection Heq as <- <- <-. exists c'. split; [eapply nth_set_nth_eq; exact En|]. eapply sorted_tl. exact Hs.
      * assert (Hin' : In (k1, id1, ci1) h) by (eapply Permutation_in; [symmetry; exact Hp|right; exact Hin]).
        destruct (HS _ _ _ Hin') as (cc & Hcc & Hs1). destruct (Nat.eq_dec ci ci1) as [<-|Hne].
        -- rewrite En in Hcc. injection Hcc as <-. cbn [ok_head] in Hs1.
           exists c'. split; [eapply nth_set_nth_eq; exact En|]. eapply sorted_skip. exact Hs1.
        -- exists cc. split; [rewrite nth_set_nth_neq by assumption; exact Hcc|exact Hs1].
    + constructor; [|exact Hlb]. apply sorted_cons in Hs. apply Hs.
Qed.
Lemma nstep_Sst rv s s' k id : nstep rv s s' (Some (OutOk k id)) -> Sst rv s ->
  Sst rv s' /\ m_init s' = true /\ Forall (fun y => kle rv k (key y)) (m_heap s') /\
  (m_init s = true -> exists ci, In (k, id, ci) (m_heap s)).
Proof.
  intros H HS. inversion H as [|? ? ? ? ? Hr Hp]; subst.
  pose proof (ready_Srt _ _ _ _ Hr HS) as HS1.
  destruct (pstep_Srt _ _ _ _ _ Hp HS1 k id eq_refl) as (HS' & Hlb & ci & Hin).
  assert (Hi : m_init s' = true) by (inversion Hp; reflexivity).
  split; [unfold Sst; rewrite Hi; exact HS'|]. split; [exact Hi|]. split; [exact Hlb|].
  intros Hinit. inversion Hr; subst; [|discriminate]. eauto.
Qed.
Lemma drain_sorted rv fuel s outs : merger_drain rv fuel s = Ok outs -> Sst rv s ->
  sorted_keys rv (ok_prefix outs) = true /\
  (m_init s = true -> forall lb, Forall (fun y => kle rv lb (key y)) (m_heap s) ->
     Forall (fun y => kle rv lb (fst y)) (ok_prefix outs)).
Proof.
  revert fuel s outs.
  apply (drain_ind rv (fun s outs => Sst rv s -> sorted_keys rv (ok_prefix outs) = true /\
    (m_init s = true -> forall lb, Forall (fun y => kle rv lb (key y)) (m_heap s) ->
       Forall (fun y => kle rv lb (fst y)) (ok_prefix outs)))).
  - intros s s' _ _. split; [reflexivity|]. intros _ lb _. constructor.
  - intros s s' o outs Hn IH HS. destruct o as [k id|tag]; [|split; [reflexivity|intros _ lb _; constructor]].
    destruct (nstep_Sst _ _ _ _ _ Hn HS) as (HS' & Hi' & Hlb & Hin). destruct (IH HS') as [I1 I2].
    specialize (I2 Hi' k Hlb). cbn [ok_prefix]. split.
    + apply sorted_push; assumption.
    + intros Hi lb Hf. destruct (Hin Hi) as (ci & Hx). rewrite Forall_forall in Hf. specialize (Hf _ Hx).
      unfold key in Hf. cbn [fst] in Hf. constructor; [exact Hf|].
      eapply Forall_impl; [|exact I2]. intros y Hy. eapply kle_trans; eassumption.
Qed.

(* ---------- errors are delivered ---------- *)
Definition has_err (cc : list mitem) : Prop := exists x, In x cc /\ is_merr x = true.
Definition has_err_chunks (c : list (list mitem)) : Prop := exists j cc, nth_error c j = Some cc /\ has_err cc.
Lemma has_err_ok_tl k id c' : has_err (MOk k id :: c') -> has_err c'.
Proof. intros (x & [<-|Hx] & He); [discriminate|]. exists x. auto. Qed.
Lemma has_err_ne cc : has_err cc -> cc <> [].
Proof. intros (x & Hx & _) ->. destruct Hx. Qed.
Lemma ready_errd s c1 h1 : ready s c1 h1 -> has_err_chunks (m_chunks s) -> has_err_chunks c1.
Proof.
  intros [c h|c h c1' h1' E]; cbn [m_chunks]; [auto|]. intros (j & cc & Hj & He).
  destruct (prime_none _ _ _ _ _ _ E eq_refl j cc Hj) as [[-> _]|(k & id & c' & -> & H2 & _)].
  - exfalso. eapply has_err_ne; [exact He|reflexivity].
  - exists j, c'. split; [exact H2|]. eapply has_err_ok_tl. exact He.
Qed.
Lemma pstep_errd rv c h s' o : pstep rv c h s' o -> cover c h -> has_err_chunks c ->
  (exists tag, o = Some (OutErr tag)) \/ (exists k id, o = Some (OutOk k id) /\ has_err_chunks (m_chunks s')).
Proof.
  intros [->|k id ci h2 E En|k id ci h2 k' id' c' E En|k id ci h2 tag c' E En] Hc (j & cc & Hj & He); cbn [m_chunks].
  - exfalso. destruct (Hc j cc Hj (has_err_ne _ He)) as [kid []].
  - right. exists k, id. split; [reflexivity|]. exists j, cc. auto.
  - right. exists k, id. split; [reflexivity|]. destruct (Nat.eq_dec ci j) as [<-|Hne].
    + rewrite En in Hj. injection Hj as <-. exists ci, c'. split; [eapply nth_set_nth_eq; exact En|].
      eapply has_err_ok_tl. exact He.
    + exists j, cc. split; [rewrite nth_set_nth_neq by assumption; exact Hj|exact He].
  - left. eauto.
Qed.
Lemma nstep_errd rv s s' o : nstep rv s s' o -> Cst s -> has_err_chunks (m_chunks s) ->
  (exists tag, o = Some (OutErr tag)) \/
  (exists k id, o = Some (OutOk k id) /\ Cst s' /\ has_err_chunks (m_chunks s')).
Proof.
  intros Hn HC He. pose proof Hn as Hn0. destruct Hn as [c h c1 h1 tag E|s0 c1 h1 s1 o1 Hr Hp]; [left; eauto|].
  pose proof (ready_cover _ _ _ Hr HC) as Hc1. pose proof (ready_errd _ _ _ Hr He) as He1.
  destruct (pstep_errd _ _ _ _ _ Hp Hc1 He1) as [?|(k & id & -> & He')]; [left; assumption|right].
  exists k, id. split; [reflexivity|]. split; [|exact He']. eapply nstep_cover; [exact Hn0|exact HC|discriminate].
Qed.
Lemma drain_errd rv fuel s outs : merger_drain rv fuel s = Ok outs -> Cst s -> has_err_chunks (m_chunks s) ->
  has_out_err outs = true.
Proof.
  revert fuel s outs.
  apply (drain_ind rv (fun s outs => Cst s -> has_err_chunks (m_chunks s) -> has_out_err outs = true)).
  - intros s s' Hn HC He. destruct (nstep_errd _ _ _ _ Hn HC He) as [(tag & Ho)|(k & id & Ho & _)]; discriminate.
  - intros s s' o outs Hn IH HC He.
    destruct (nstep_errd _ _ _ _ Hn HC He) as [(tag & Ho)|(k & id & Ho & HC' & He')]; injection Ho as ->.
    + reflexivity.
    + cbn [has_out_err existsb orb]. apply IH; assumption.
Qed.

(* ================= C10: the theorems ================= *)
Lemma Cst_start chunks : Cst (mkM chunks [] false).
Proof. intros H. discriminate. Qed.
Lemma ok_prefix_clean outs : has_out_err outs = false -> ok_prefix outs = outs_oks outs.
Proof.
  induction outs as [|[k id|tag] t IH]; intros H; [reflexivity| |discriminate].
  cbn [ok_prefix]. rewrite outs_oks_ok. f_equal. apply IH. exact H.
Qed.
Lemma ok_prefix_split outs : exists rest, outs_oks outs = ok_prefix outs ++ rest.
Proof.
  induction outs as [|[k id|tag] t IH].
  - exists []. reflexivity.
  - destruct IH as (rest & IH). exists rest. rewrite outs_oks_ok, IH. reflexivity.
  - eexists. cbn [ok_prefix app]. reflexivity.
Qed.

Theorem merge_err_prefix : forall rev chunks outs,
  Forall (chunk_sorted rev) chunks -> merge_all rev chunks = Ok outs -> sorted_keys rev (ok_prefix outs) = true.
Proof.
  intros rv chunks outs Hs Hm. unfold merge_all in Hm. eapply drain_sorted; [exact Hm|].
  unfold Sst. cbn [m_init m_heap m_chunks]. split; [reflexivity|exact Hs].
Qed.

Theorem merge_sorted : forall rev chunks, Forall no_err chunks -> Forall (chunk_sorted rev) chunks ->
  exists outs, merge_all rev chunks = Ok outs /\ has_out_err outs = false /\
    sorted_keys rev (outs_oks outs) = true /\ Permutation (outs_oks outs) (all_oks chunks) /\
    length (outs_oks outs) = length outs.
Proof.
  intros rv chunks Hne Hs. destruct (merge_no_panic rv chunks) as (outs & Hm). exists outs.
  pose proof (merge_err_prefix _ _ _ Hs Hm) as Hsorted. unfold merge_all in Hm.
  destruct (drain_clean _ _ _ _ Hm (Cst_start chunks) Hne) as (H1 & H2 & H3). cbn [m_heap m_chunks map app] in H2.
  rewrite (ok_prefix_clean _ H1) in Hsorted. auto.
Qed.

Lemma planted_spec chunks :
  existsb (existsb is_merr) chunks = true <-> exists c, In c chunks /\ exists x, In x c /\ is_merr x = true.
Proof.
  rewrite existsb_exists. split; intros (c & Hc & H); exists c; (split; [exact Hc|]); apply existsb_exists; exact H.
Qed.
Lemma planted_false chunks : existsb (existsb is_merr) chunks = false <-> Forall no_err chunks.
Proof.
  split.
  - intros H. apply Forall_forall. intros c Hc x Hx. destruct (is_merr x) eqn:E; [|reflexivity].
    assert (Ht : existsb (existsb is_merr) chunks = true) by (apply planted_spec; eauto). congruence.
  - intros H. destruct (existsb (existsb is_merr) chunks) eqn:E; [|reflexivity].
    apply planted_spec in E. destruct E as (c & Hc & x & Hx & He). rewrite Forall_forall in H.
    rewrite (H c Hc x Hx) in He. discriminate.
Qed.

Theorem merge_err_delivered : forall rev chunks, (exists c, In c chunks /\ exists x, In x c /\ is_merr x = true) ->
  exists outs, merge_all rev chunks = Ok outs /\ has_out_err outs = true.
Proof.
  intros rv chunks (c & Hc & Hx). destruct (merge_no_panic rv chunks) as (outs & Hm). exists outs. split; [exact Hm|].
  unfold merge_all in Hm. eapply drain_errd; [exact Hm|apply Cst_start|]. cbn [m_chunks].
  destruct (In_nth_error _ _ Hc) as [j Hj]. exists j, c. split; [exact Hj|exact Hx].
Qed.

Theorem merge_complete_if_clean : forall rev chunks outs,
  merge_all rev chunks = Ok outs -> has_out_err outs = false -> Forall no_err chunks.
Proof.
  intros rv chunks outs Hm He. apply planted_false. destruct (existsb (existsb is_merr) chunks) eqn:E; [|reflexivity].
  apply planted_spec in E. destruct (merge_err_delivered rv chunks E) as (outs' & Hm' & He'). congruence.
Qed.

(* the state in which a drain stops *)
Fixpoint merger_drain_state (rev : bool) (fuel : nat) (s : mstate) : res mstate :=
  match fuel with
  | O => Panic
  | S f => do r <- merger_next rev s;
           match snd r with
           | None => Ok (fst r)
           | Some _ => merger_drain_state rev f (fst r)
           end
  end.
Lemma drain_state_ended rv : forall fuel s outs, merger_drain rv fuel s = Ok outs ->
  exists sf, merger_drain_state rv fuel s = Ok sf /\ m_init sf = true /\ m_heap sf = [].
Proof.
  induction fuel as [|f IH]; intros s outs H; [discriminate|].
  cbn [merger_drain] in H. cbn [merger_drain_state]. destruct (merger_next rv s) as [[s' o]|] eqn:E; [|discriminate].
  cbn [rbind fst snd] in *. destruct o as [o|].
  - destruct (merger_drain rv f s') as [rest|] eqn:Er; [|discriminate]. eapply IH. exact Er.
  - exists s'. split; [reflexivity|]. apply next_nstep in E. eapply nstep_none. exact E.
Qed.
Lemma ended_calls rv sf : m_init sf = true -> m_heap sf = [] -> forall n, merger_calls rv n sf = Ok (repeat None n).
Proof.
  destruct sf as [c h i]. cbn [m_init m_heap]. intros -> ->.
  assert (Hn : merger_next rv (mkM c [] true) = Ok (mkM c [] true, None)) by reflexivity.
  induction n as [|n IH]; [reflexivity|]. cbn [merger_calls repeat]. rewrite Hn. cbn [rbind fst snd]. rewrite IH. reflexivity.
Qed.
(* once the merged stream has ended (first None) it stays ended; holds whether or not errors were delivered *)
Theorem merge_stays_ended_gen : forall rev fuel s outs, merger_drain rev fuel s = Ok outs ->
  exists sf, merger_drain_state rev fuel s = Ok sf /\ forall n, merger_calls rev n sf = Ok (repeat None n).
Proof.
  intros rv fuel s outs H. destruct (drain_state_ended _ _ _ _ H) as (sf & H1 & H2 & H3).
  exists sf. split; [exact H1|]. apply ended_calls; assumption.
Qed.
Theorem merge_stays_ended : forall rev chunks outs,
  merger_drain rev (S (S (total_len chunks))) (mkM chunks [] false) = Ok outs -> has_out_err outs = false ->
  exists sf, merger_drain_state rev (S (S (total_len chunks))) (mkM chunks [] false) = Ok sf /\
    forall n, merger_calls rev n sf = Ok (repeat None n).
Proof. intros rv chunks outs H _. eapply merge_stays_ended_gen. exact H. Qed.

(* ---------- the extracted oracle accepts the model ---------- *)
Lemma remove_one_in x b : In x b -> exists b', remove_one x b = Some b' /\ Permutation b (x :: b').
Proof.
  induction b as [|y t IH]; intros Hin; [destruct Hin|]. cbn [remove_one].
  destruct ((fst x =? fst y) && (snd x =? snd y)) eqn:E.
  - apply andb_true_iff in E. destruct E as [E1 E2]. apply N.eqb_eq in E1, E2.
    assert (x = y) by (destruct x, y; cbn [fst snd] in *; congruence). subst. exists t. split; reflexivity.
  - destruct Hin as [<-|Hin]; [rewrite !N.eqb_refl in E; discriminate|].
    destruct (IH Hin) as (b' & -> & Hp). exists (y :: b'). split; [reflexivity|]. rewrite Hp. apply perm_swap.
Qed.
Lemma sub_multiset_complete a : forall b r, Permutation b (a ++ r) ->
  exists r', sub_multiset a b = Some r' /\ Permutation r' r.
Proof.
  induction a as [|x t IH]; intros b r Hp; cbn [sub_multiset].
  - exists b. split; [reflexivity|exact Hp].
  - assert (Hin : In x b) by (eapply Permutation_in; [symmetry; exact Hp|left; reflexivity]).
    destruct (remove_one_in x b Hin) as (b' & -> & Hp'). apply IH.
    eapply Permutation_cons_inv with (a := x). rewrite <- Hp'. exact Hp.
Qed.
Theorem merge_oracle_accepts_model : forall rev chunks outs,
  Forall (chunk_sorted rev) chunks -> merge_all rev chunks = Ok outs -> merge_oracle rev chunks outs = true.
Proof.
  intros rv chunks outs Hs Hm. unfold merge_oracle. cbv zeta.
  rewrite (merge_err_prefix _ _ _ Hs Hm). cbn [andb]. pose proof Hm as Hd. unfold merge_all in Hd.
  destruct (has_out_err outs) eqn:He.
  - destruct (existsb (existsb is_merr) chunks) eqn:Ep.
    + cbn [andb]. destruct (drain_acc _ _ _ _ Hd) as (r & Hp). cbn [m_heap m_chunks map app] in Hp.
      destruct (ok_prefix_split outs) as (rest & Hsp). rewrite Hsp, <- app_assoc in Hp.
      destruct (sub_multiset_complete _ _ _ Hp) as (r' & -> & _). reflexivity.
    + apply planted_false in Ep. destruct (drain_clean _ _ _ _ Hd (Cst_start chunks) Ep) as (H1 & _). congruence.
  - pose proof (merge_complete_if_clean _ _ _ Hm He) as Hc. rewrite (proj2 (planted_false chunks) Hc). cbn [negb andb].
    destruct (drain_clean _ _ _ _ Hd (Cst_start chunks) Hc) as (_ & H2 & H3). cbn [m_heap m_chunks map app] in H2.
    rewrite (ok_prefix_clean _ He).
    assert (Hp : Permutation (all_oks chunks) (outs_oks outs ++ [])) by (rewrite app_nil_r; symmetry; exact H2).
    destruct (sub_multiset_complete _ _ _ Hp) as (r' & -> & Hr). symmetry in Hr. apply Permutation_nil in Hr. subst r'.
    rewrite H3. apply Nat.eqb_refl.
Qed.
(* and what the oracle's verdict means *)
Lemma sub_multiset_sound a : forall b r, sub_multiset a b = Some r -> Permutation b (a ++ r).
Proof.
  induction a as [|x t IH]; intros b r H; cbn [sub_multiset] in H.
  - injection H as ->. reflexivity.
  - destruct (remove_one x b) as [b'|] eqn:E; [|discriminate].
    assert (Hp : Permutation b (x :: b')).
    { clear - E. revert b' E. induction b as [|y u IHb]; intros b' E; cbn [remove_one] in E; [discriminate|].
      destruct ((fst x =? fst y) && (snd x =? snd y)) eqn:Eq.
      - injection E as <-. apply andb_true_iff in Eq. destruct Eq as [E1 E2]. apply N.eqb_eq in E1, E2.
        assert (x = y) by (destruct x, y; cbn [fst snd] in *; congruence). subst. reflexivity.
      - destruct (remove_one x u) as [r0|]; [|discriminate]. injection E as <-.
        rewrite (IHb r0 eq_refl). apply perm_swap. }
    rewrite Hp. cbn [app]. constructor. apply IH. exact H.
Qed.
Theorem merge_oracle_sound : forall rev chunks outs, merge_oracle rev chunks outs = true ->
  sorted_keys rev (ok_prefix outs) = true /\
  (has_out_err outs = false -> Forall no_err chunks /\ Permutation (outs_oks outs) (all_oks chunks)) /\
  (has_out_err outs = true -> exists c, In c chunks /\ ~ no_err c).
Proof.
  intros rv chunks outs H. unfold merge_oracle in H. cbv zeta in H. apply andb_true_iff in H. destruct H as [H1 H2].
  split; [exact H1|]. split; intros He; rewrite He in H2; apply andb_true_iff in H2; destruct H2 as [H2 H3].
  - apply negb_true_iff in H2. split; [apply planted_false; exact H2|].
    destruct (sub_multiset (ok_prefix outs) (all_oks chunks)) as [[|? ?]|] eqn:E; try discriminate.
    apply sub_multiset_sound in E. rewrite app_nil_r in E. rewrite <- (ok_prefix_clean _ He). symmetry. exact E.
  - apply planted_spec in H2. destruct H2 as (c & Hc & x & Hx & Hxe). exists c. split; [exact Hc|].
    intros Hn. rewrite (Hn x Hx) in Hxe. discriminate.
Qed.

(* ================= C01: the external sort ================= *)
Lemma ok_head_map l : ok_head (map (fun x : N * N => MOk (fst x) (snd x)) l) = l.
Proof. induction l as [|[k id] l IH]; [reflexivity|]. cbn [map ok_head fst snd]. f_equal. exact IH. Qed.
Lemma oks_of_map l : oks_of (map (fun x : N * N => MOk (fst x) (snd x)) l) = l.
Proof. induction l as [|[k id] l IH]; [reflexivity|]. cbn [map fst snd]. rewrite oks_of_ok. f_equal. exact IH. Qed.
Lemma no_err_map l : no_err (map (fun x : N * N => MOk (fst x) (snd x)) l).
Proof. intros x Hx. apply in_map_iff in Hx. destruct Hx as (y & <- & _). reflexivity. Qed.
Lemma all_oks_map (srt : list (N * N) -> list (N * N)) rs :
  all_oks (map (fun r => map (fun x : N * N => MOk (fst x) (snd x)) (srt r)) rs) = concat (map srt rs).
Proof.
  induction rs as [|r rs IH]; [reflexivity|]. cbn [map concat]. rewrite all_oks_cons, oks_of_map, IH. reflexivity.
Qed.
Lemma perm_concat_map (srt : list (N * N) -> list (N * N)) rs :
  (forall r, Permutation (srt r) r) -> Permutation (concat (map srt rs)) (concat rs).
Proof.
  intros H. induction rs as [|r rs IH]; [reflexivity|]. cbn [map concat]. apply Permutation_app; [apply H|exact IH].
Qed.
Theorem ext_sort_ok : forall srt rev cs input,
  (forall r, Permutation (srt r) r /\ sorted_keys rev (srt r) = true) ->
  exists out, ext_sort srt rev cs input = Ok (length input, out) /\ has_out_err out = false /\
    length (outs_oks out) = length out /\
    sorted_keys rev (outs_oks out) = true /\ Permutation (outs_oks out) input.
Proof.
  intros srt rv cs input Hsrt. unfold ext_sort. cbv zeta.
  set (chunks := map (fun r => map (fun x : N * N => MOk (fst x) (snd x)) (srt r)) (runs cs input)).
  assert (Hne : Forall no_err chunks).
  { apply Forall_forall. intros c Hc. apply in_map_iff in Hc. destruct Hc as (r & <- & _). apply no_err_map. }
  assert (Hs : Forall (chunk_sorted rv) chunks).
  { apply Forall_forall. intros c Hc. apply in_map_iff in Hc. destruct Hc as (r & <- & _).
    unfold chunk_sorted. rewrite ok_head_map. apply Hsrt. }
  destruct (merge_sorted rv chunks Hne Hs) as (outs & Hm & H1 & H2 & H3 & H4).
  exists outs. rewrite Hm. cbn [rbind]. repeat split; try assumption.
  rewrite H3. unfold chunks. rewrite all_oks_map. rewrite perm_concat_map by (intros r; apply Hsrt).
  rewrite runs_concat. reflexivity.
Qed.
Theorem ext_sort_isort_ok : forall rev cs input,
  exists out, ext_sort_isort rev cs input = Ok (length input, out) /\ has_out_err out = false /\
    length (outs_oks out) = length out /\
    sorted_keys rev (outs_oks out) = true /\ Permutation (outs_oks out) input.
Proof. intros rv cs input. unfold ext_sort_isort. apply ext_sort_ok. intros r. apply isort_kltb_sorting. Qed.

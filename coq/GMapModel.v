(* GMapModel.v — Gallina transliteration of src/bed/map.rs (GIntervalMap, GIntervalIndexSet,
   GIntervalIndexMap) and src/coverage.rs (Coverage, SparseCoverage, BinnedCoverage,
   SparseBinnedCoverage).  HashMap<String, Lapper> is an association list (iteration order of the
   real map is unspecified; results are compared as multisets). *)
From BedV Require Import Base LapperModel AlgebraModel.

Definition gmap := list (bytes * lapper).
Fixpoint glookup (m : gmap) (c : bytes) : option lapper :=
  match m with
  | [] => None
  | (k, L) :: t => if bytes_eqb k c then Some L else glookup t c
  end.
Fixpoint gupdate (m : gmap) (c : bytes) (L : lapper) : gmap :=
  match m with
  | [] => [(c, L)]
  | (k, L0) :: t => if bytes_eqb k c then (k, L) :: t else (k, L0) :: gupdate t c L
  end.
(* a stored record: chromosome, interval with payload *)
Definition grec := (bytes * iv)%type.

(* FromIterator: group by chromosome (supply order kept inside a group), Lapper::new per group *)
Fixpoint gpush (g : list (bytes * list iv)) (c : bytes) (i : iv) : list (bytes * list iv) :=
  match g with
  | [] => [(c, [i])]
  | (k, v) :: t => if bytes_eqb k c then (k, v ++ [i]) :: t else (k, v) :: gpush t c i
  end.
Definition gcollect (rs : list grec) : gmap :=
  map (fun kv => (fst kv, lnew (snd kv))) (fold_left (fun g r => gpush g (fst r) (snd r)) rs []).
(* GIntervalMap::insert *)
Definition ginsert (m : gmap) (r : grec) : res gmap :=
  let L := match glookup m (fst r) with Some L => L | None => lnew [] end in
  do L' <- linsert L (snd r); Ok (gupdate m (fst r) L').
(* GIntervalMap::find *)
Definition gfind (m : gmap) (c : bytes) (s e : N) : res (list grec) :=
  match glookup m c with
  | None => Ok []
  | Some L => do h <- lfind L s e; Ok (map (fun i => (c, i)) h)
  end.
Definition gis_overlapped (m : gmap) (c : bytes) (s e : N) : res bool :=
  do h <- gfind m c s e; Ok (match h with [] => false | _ => true end).
Definition glen (m : gmap) : nat := fold_right (fun kv a => (length (ivs (snd kv)) + a)%nat) 0%nat m.
Definition giter (m : gmap) : list grec := flat_map (fun kv => map (fun i => (fst kv, i)) (ivs (snd kv))) m.

(* ---- GIntervalIndexSet / GIntervalIndexMap: data vector + map from region to position ---- *)
Definition region := (bytes * N * N)%type.
Record iset := mkIS { is_data : list region; is_idx : gmap }.
Fixpoint enumerate_from {A} (k : N) (l : list A) : list (N * A) :=
  match l with [] => [] | x :: t => (k, x) :: enumerate_from (k + 1) t end.
Definition iset_new (rs : list region) : iset :=
  mkIS rs (gcollect (map (fun kr => (fst (fst (snd kr)), mkiv (snd (fst (snd kr))) (snd (snd kr)) (fst kr))) (enumerate_from 0 rs))).
Definition iset_len (s : iset) : nat := length (is_data s).
Definition iset_get (s : iset) (i : nat) : option region := nth_error (is_data s) i.
(* find_full: (region, position) pairs *)
Definition iset_find_full (s : iset) (c : bytes) (qs qe : N) : res (list (region * N)) :=
  do h <- gfind (is_idx s) c qs qe; Ok (map (fun g => ((fst g, st (snd g), en (snd g)), vl (snd g))) h).
Definition iset_find_index (s : iset) (c : bytes) (qs qe : N) : res (list N) :=
  do h <- iset_find_full s c qs qe; Ok (map snd h).
Definition iset_find (s : iset) (c : bytes) (qs qe : N) : res (list region) :=
  do h <- iset_find_full s c qs qe; Ok (map fst h).
(* GIntervalIndexMap<D>: data values + index; find returns (region, data[i]) : indexing may panic *)
Record imap := mkIM { im_data : list N; im_idx : gmap }.
Definition imap_new (rs : list (region * N)) : imap :=
  mkIM (map snd rs) (is_idx (iset_new (map fst rs))).
Definition imap_find (s : imap) (c : bytes) (qs qe : N) : res (list (region * N)) :=
  do h <- gfind (im_idx s) c qs qe;
  mapM (fun g => do d <- idx (im_data s) (N.to_nat (vl (snd g))); Ok ((fst g, st (snd g), en (snd g)), d)) h.

(* ---- Coverage / SparseCoverage ---- *)
Record cov := mkCov { c_total : Z; c_counts : list Z }.
Definition cov_new (s : iset) : cov := mkCov 0 (repeat 0%Z (iset_len s)).
Fixpoint add_at (l : list Z) (i : nat) (k : Z) : res (list Z) :=
  match l, i with
  | [], _ => Panic                                             (* coverage[idx] out of bounds *)
  | x :: t, O => Ok ((x + k)%Z :: t)
  | x :: t, S j => do t' <- add_at t j k; Ok (x :: t')
  end.
Fixpoint add_all (l : list Z) (is : list N) (k : Z) : res (list Z) :=
  match is with [] => Ok l | i :: t => do l' <- add_at l (N.to_nat i) k; add_all l' t k end.
Inductive cop := CInsert (c : bytes) (s e : N) (k : Z) | CInsertAt (i : nat) (k : Z) | CReset.
Definition cov_step (s : iset) (r : res cov) (o : cop) : res cov :=
  do c <- r;
  match o with
  | CInsert ch qs qe k => do is <- iset_find_index s ch qs qe; do l <- add_all (c_counts c) is k; Ok (mkCov (c_total c + k) l)
  | CInsertAt i k => do l <- add_at (c_counts c) i k; Ok (mkCov (c_total c + k) l)
  | CReset => Ok (mkCov 0 (repeat 0%Z (length (c_counts c))))
  end.
(* SparseCoverage: BTreeMap<usize, N> as an association list (unordered; read through lookups) *)
Record scov := mkSCov { sc_total : Z; sc_map : list (N * Z) }.
Fixpoint smap_add (m : list (N * Z)) (i : N) (k : Z) : list (N * Z) :=
  match m with
  | [] => [(i, k)]
  | (j, v) :: t => if j =? i then (j, (v + k)%Z) :: t else (j, v) :: smap_add t i k
  end.
Fixpoint smap_get (m : list (N * Z)) (i : N) : option Z :=
  match m with [] => None | (j, v) :: t => if j =? i then Some v else smap_get t i end.
Definition scov_step (s : iset) (r : res scov) (o : cop) : res scov :=
  do c <- r;
  match o with
  | CInsert ch qs qe k => do is <- iset_find_index s ch qs qe;
                          Ok (mkSCov (sc_total c + k) (fold_left (fun m i => smap_add m i k) is (sc_map c)))
  | CInsertAt i k => Ok (mkSCov (sc_total c + k) (smap_add (sc_map c) (N.of_nat i) k))
  | CReset => Ok (mkSCov 0 [])
  end.
(* get_coverage_as_vec: vec![0; len]; coverage[idx] = v  (panics if a key is >= len) *)
Definition smap_as_vec (m : list (N * Z)) (len : nat) : res (list Z) :=
  if forallb (fun kv => N.to_nat (fst kv) <? len)%nat m
  then Ok (map (fun i => match smap_get m (N.of_nat i) with Some v => v | None => 0%Z end) (seq 0 len))
  else Panic.

(* ---- BinnedCoverage / SparseBinnedCoverage ---- *)
Definition rlen (r : region) : N := snd r - snd (fst r).
Definition nbins (r : region) (b : N) : N := div_ceil (rlen r) b.
(* first and last bin of a tag inside an overlapping region; the raw subtractions panic on underflow *)
Definition sub_chk (a b : N) : res N := if a <? b then Panic else Ok (a - b).
Definition bin_range (r : region) (ts te b : N) : res (N * N) :=
  let rs := snd (fst r) in
  if b =? 0 then Panic else
  let i := (ts - rs) / b in
  do t1 <- sub_chk te 1;
  do t2 <- sub_chk t1 rs;
  do l1 <- sub_chk (rlen r) 1;
  Ok (i, N.min t2 l1 / b).
Definition irange (i j : N) : list N := map (fun k => i + k) (nrange (j + 1 - i)).   (* i..=j *)
Record bcov := mkBC { bc_total : Z; bc_counts : list (list Z) }.
Definition bcov_new (s : iset) (b : N) : res bcov :=
  if b =? 0 then Panic else Ok (mkBC 0 (map (fun r => repeat 0%Z (N.to_nat (nbins r b))) (is_data s))).
Fixpoint add_row (rows : list (list Z)) (o : nat) (is : list N) (k : Z) : res (list (list Z)) :=
  match rows, o with
  | [], _ => Panic
  | r :: t, O => do r' <- add_all r is k; Ok (r' :: t)
  | r :: t, S j => do t' <- add_row t j is k; Ok (r :: t')
  end.
Inductive bop := BInsert (c : bytes) (s e : N) (k : Z) | BReset.
Definition bcov_step (s : iset) (b : N) (r : res bcov) (o : bop) : res bcov :=
  do c <- r;
  match o with
  | BInsert ch ts te k =>
    do hits <- iset_find_full s ch ts te;
    do rows <- fold_left (fun acc h => do rows <- acc; do ij <- bin_range (fst h) ts te b;
                             add_row rows (N.to_nat (snd h)) (irange (fst ij) (snd ij)) k) hits (Ok (bc_counts c));
    Ok (mkBC (bc_total c + k) rows)
  | BReset => Ok (mkBC 0 (map (fun r => repeat 0%Z (length r)) (bc_counts c)))
  end.
(* regions(): per region split_by_len *)
Definition bcov_regions (s : iset) (b : N) : res (list (list region)) :=
  mapM (fun r => do ps <- split_by_len (snd (fst r)) (snd r) b; Ok (map (fun p => (fst (fst r), fst p, snd p)) ps)) (is_data s).

Record sbcov := mkSB { sb_len : N; sb_total : Z; sb_accu : list N; sb_map : list (N * Z) }.
Fixpoint accu_sizes (rs : list region) (b : N) (len : N) : list N * N :=
  match rs with
  | [] => ([], len)
  | r :: t => let (a, l) := accu_sizes t b (len + nbins r b) in (len :: a, l)
  end.
Definition sbcov_new (s : iset) (b : N) : res sbcov :=
  if b =? 0 then Panic else let (a, l) := accu_sizes (is_data s) b 0 in Ok (mkSB l 0 a []).
Definition sbcov_step (s : iset) (b : N) (r : res sbcov) (o : bop) : res sbcov :=
  do c <- r;
  match o with
  | BInsert ch ts te k =>
    do hits <- iset_find_full s ch ts te;
    do m <- fold_left (fun acc h => do m <- acc; do ij <- bin_range (fst h) ts te b;
                          do n <- idx (sb_accu c) (N.to_nat (snd h));
                          Ok (fold_left (fun m k' => smap_add m (n + k') k) (irange (fst ij) (snd ij)) m)) hits (Ok (sb_map c));
    Ok (mkSB (sb_len c) (sb_total c + k) (sb_accu c) m)
  | BReset => Ok (mkSB (sb_len c) 0 (sb_accu c) [])
  end.
(* slice::binary_search contract on a strictly increasing vector: Found j (v[j] = x) or the insertion point *)
Inductive bsres := Found (j : nat) | NotFound (j : nat).
Fixpoint std_bsearch (l : list N) (x : N) (k : nat) : bsres :=
  match l with
  | [] => NotFound k
  | y :: t => if y =? x then Found k else if x <? y then NotFound k else std_bsearch t x (S k)
  end.
(* get_region / get_chrom (repaired: index >= len -> None first) *)
Definition sb_locate (c : sbcov) (s : iset) (b : N) (index : N) : res (option (region * N)) :=
  if sb_len c <=? index then Ok None else
  match std_bsearch (sb_accu c) index 0 with
  | Found j =>
    if (N.of_nat j <? sb_len c) then do site <- idx (is_data s) j; Ok (Some (site, 0)) else Ok None
  | NotFound j =>
    match j with
    | O => Panic                                              (* j - 1 underflows *)
    | S j1 =>
      if (N.of_nat j1 <? sb_len c) then
        do site <- idx (is_data s) j1; do prev <- idx (sb_accu c) j1; Ok (Some (site, index - prev))
      else Ok None
    end
  end.
Definition sb_get_region (c : sbcov) (s : iset) (b : N) (index : N) : res (option region) :=
  do r <- sb_locate c s b index;
  match r with
  | None => Ok None
  | Some (site, k) =>
    let start := snd (fst site) + k * b in
    Ok (Some (fst (fst site), start, N.min (start + b) (snd site)))
  end.
Definition sb_get_chrom (c : sbcov) (s : iset) (b : N) (index : N) : res (option bytes) :=
  do r <- sb_locate c s b index;
  Ok (match r with None => None | Some (site, _) => Some (fst (fst site)) end).

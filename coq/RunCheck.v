(* RunCheck.v — run_case evaluated inside Coq (vm_compute) on real cases of every case kind, taken from the
   generated case files with the answers the extracted runner gave (terms written by sx2coq.py); cases that end in
   a panic (the answers emitted before it are kept) and malformed cases; the lemmas behind the float-token probe;
   checks of the number / hex conversions. *)
From BedV Require Import Run.

(* ---------- one or more real cases per case kind ---------- *)
(* line 1: (ser bgf (312c3030302c303030 672 7305167184812865199 10235413465469469998)) *)
Example x0 : run_case (SL [SA [115;101;114]; SA [98;103;102]; SL [SA [51;49;50;99;51;48;51;48;51;48;50;99;51;48;51;48;51;48]; SA [54;55;50]; SA [55;51;48;53;49;54;55;49;56;52;56;49;50;56;54;53;49;57;57]; SA [49;48;50;51;53;52;49;51;52;54;53;52;54;57;52;54;57;57;57;56]]]) = SL [SA [114]; SL [SA [98;121;116;101;115]; SA [48;57;51;49;50;99;51;48;51;48;51;48;50;99;51;48;51;48;51;48;102;98;97;48;48;50;102;100;97;102;55;54;57;99;97;51;100;57;50;97;54;49;54;53;50;101;99;53;56;101;51;97;53;49;55;101;48;98;56;101]]; SL [SA [114;116]; SL [SA [51;49;50;99;51;48;51;48;51;48;50;99;51;48;51;48;51;48]; SA [54;55;50]; SA [55;51;48;53;49;54;55;49;56;52;56;49;50;56;54;53;49;57;57]; SA [49;48;50;51;53;52;49;51;52;54;53;52;54;57;52;54;57;57;57;56]]]].
Proof. vm_compute. reflexivity. Qed.
(* line 300: (xsortrec bgi 3 2 4 (recs)) *)
Example x1 : run_case (SL [SA [120;115;111;114;116;114;101;99]; SA [98;103;105]; SA [51]; SA [50]; SA [52]; SL [SA [114;101;99;115]]]) = SL [SA [114]; SL [SA [108;101;110]; SA [48]]; SL [SA [111;117;116]]].
Proof. vm_compute. reflexivity. Qed.
(* line 380: (xsort2 default 2 1 1 (items (3 700001 0) (5 700002 0) (2 700003 40) (2 700004 3)) (items (1 700005 0) (5 700006 0) (4 700007 40) (0 700008 0) (4 700009 0) (2 700010 0) (0 700011 0) (4 700012 0))) *)
Example x2 : run_case (SL [SA [120;115;111;114;116;50]; SA [100;101;102;97;117;108;116]; SA [50]; SA [49]; SA [49]; SL [SA [105;116;101;109;115]; SL [SA [51]; SA [55;48;48;48;48;49]; SA [48]]; SL [SA [53]; SA [55;48;48;48;48;50]; SA [48]]; SL [SA [50]; SA [55;48;48;48;48;51]; SA [52;48]]; SL [SA [50]; SA [55;48;48;48;48;52]; SA [51]]]; SL [SA [105;116;101;109;115]; SL [SA [49]; SA [55;48;48;48;48;53]; SA [48]]; SL [SA [53]; SA [55;48;48;48;48;54]; SA [48]]; SL [SA [52]; SA [55;48;48;48;48;55]; SA [52;48]]; SL [SA [48]; SA [55;48;48;48;48;56]; SA [48]]; SL [SA [52]; SA [55;48;48;48;48;57]; SA [48]]; SL [SA [50]; SA [55;48;48;48;49;48]; SA [48]]; SL [SA [48]; SA [55;48;48;48;49;49]; SA [48]]; SL [SA [52]; SA [55;48;48;48;49;50]; SA [48]]]]) = SL [SA [114]; SL [SA [108;101;110]; SA [52]]; SL [SA [111;117;116]; SL [SA [111;107]; SA [53]; SA [55;48;48;48;48;50]]; SL [SA [111;107]; SA [51]; SA [55;48;48;48;48;49]]; SL [SA [111;107]; SA [50]; SA [55;48;48;48;48;51]]; SL [SA [111;107]; SA [50]; SA [55;48;48;48;48;52]]]; SL [SA [108;101;110]; SA [56]]; SL [SA [111;117;116]; SL [SA [111;107]; SA [53]; SA [55;48;48;48;48;54]]; SL [SA [111;107]; SA [52]; SA [55;48;48;48;48;55]]; SL [SA [111;107]; SA [52]; SA [55;48;48;48;48;57]]; SL [SA [111;107]; SA [52]; SA [55;48;48;48;49;50]]; SL [SA [111;107]; SA [50]; SA [55;48;48;48;49;48]]; SL [SA [111;107]; SA [49]; SA [55;48;48;48;48;53]]; SL [SA [111;107]; SA [48]; SA [55;48;48;48;48;56]]; SL [SA [111;107]; SA [48]; SA [55;48;48;48;49;49]]]].
Proof. vm_compute. reflexivity. Qed.
(* line 420: (xsort 1 default 4 0 (items (5 4 0) (5 13 0) (4 12 0) (3 2 0) (3 6 20) (2 8 0) (2 11 2) (1 1 0) (1 3 6) (1 7 0) (1 9 2) (0 5 1) (0 10 7))) *)
Example x3 : run_case (SL [SA [120;115;111;114;116]; SA [49]; SA [100;101;102;97;117;108;116]; SA [52]; SA [48]; SL [SA [105;116;101;109;115]; SL [SA [53]; SA [52]; SA [48]]; SL [SA [53]; SA [49;51]; SA [48]]; SL [SA [52]; SA [49;50]; SA [48]]; SL [SA [51]; SA [50]; SA [48]]; SL [SA [51]; SA [54]; SA [50;48]]; SL [SA [50]; SA [56]; SA [48]]; SL [SA [50]; SA [49;49]; SA [50]]; SL [SA [49]; SA [49]; SA [48]]; SL [SA [49]; SA [51]; SA [54]]; SL [SA [49]; SA [55]; SA [48]]; SL [SA [49]; SA [57]; SA [50]]; SL [SA [48]; SA [53]; SA [49]]; SL [SA [48]; SA [49;48]; SA [55]]]]) = SL [SA [114]; SL [SA [108;101;110]; SA [49;51]]; SL [SA [111;117;116]; SL [SA [111;107]; SA [48]; SA [49;48]]; SL [SA [111;107]; SA [48]; SA [53]]; SL [SA [111;107]; SA [49]; SA [57]]; SL [SA [111;107]; SA [49]; SA [55]]; SL [SA [111;107]; SA [49]; SA [51]]; SL [SA [111;107]; SA [49]; SA [49]]; SL [SA [111;107]; SA [50]; SA [49;49]]; SL [SA [111;107]; SA [50]; SA [56]]; SL [SA [111;107]; SA [51]; SA [54]]; SL [SA [111;107]; SA [51]; SA [50]]; SL [SA [111;107]; SA [52]; SA [49;50]]; SL [SA [111;107]; SA [53]; SA [49;51]]; SL [SA [111;107]; SA [53]; SA [52]]]].
Proof. vm_compute. reflexivity. Qed.
(* line 671: (xsortquota default none 8191 100) *)
Example x4 : run_case (SL [SA [120;115;111;114;116;113;117;111;116;97]; SA [100;101;102;97;117;108;116]; SA [110;111;110;101]; SA [56;49;57;49]; SA [49;48;48]]) = SL [SA [114]; SA [111;114;97;99;108;101;45;111;110;108;121]].
Proof. vm_compute. reflexivity. Qed.
(* line 1368: (gmap (recs (31 0 12 0) (636872c3a9 9 12 1)) (ops (find 636872c3a9 1 12) (isov 636872c3a9 1 12) (ins 31 4 6 2) (find 636872c3a9 9 13) (isov 636872c3a9 9 13) (find 31 0 12) (isov 31 0 12) (find 31 7 9) (isov 31 7 9) (len) (iter))) *)
Example x5 : run_case (SL [SA [103;109;97;112]; SL [SA [114;101;99;115]; SL [SA [51;49]; SA [48]; SA [49;50]; SA [48]]; SL [SA [54;51;54;56;55;50;99;51;97;57]; SA [57]; SA [49;50]; SA [49]]]; SL [SA [111;112;115]; SL [SA [102;105;110;100]; SA [54;51;54;56;55;50;99;51;97;57]; SA [49]; SA [49;50]]; SL [SA [105;115;111;118]; SA [54;51;54;56;55;50;99;51;97;57]; SA [49]; SA [49;50]]; SL [SA [105;110;115]; SA [51;49]; SA [52]; SA [54]; SA [50]]; SL [SA [102;105;110;100]; SA [54;51;54;56;55;50;99;51;97;57]; SA [57]; SA [49;51]]; SL [SA [105;115;111;118]; SA [54;51;54;56;55;50;99;51;97;57]; SA [57]; SA [49;51]]; SL [SA [102;105;110;100]; SA [51;49]; SA [48]; SA [49;50]]; SL [SA [105;115;111;118]; SA [51;49]; SA [48]; SA [49;50]]; SL [SA [102;105;110;100]; SA [51;49]; SA [55]; SA [57]]; SL [SA [105;115;111;118]; SA [51;49]; SA [55]; SA [57]]; SL [SA [108;101;110]]; SL [SA [105;116;101;114]]]]) = SL [SA [114]; SL [SA [104]; SL [SA [54;51;54;56;55;50;99;51;97;57]; SA [57]; SA [49;50]; SA [49]]]; SA [49]; SL [SA [104]; SL [SA [54;51;54;56;55;50;99;51;97;57]; SA [57]; SA [49;50]; SA [49]]]; SA [49]; SL [SA [104]; SL [SA [51;49]; SA [48]; SA [49;50]; SA [48]]; SL [SA [51;49]; SA [52]; SA [54]; SA [50]]]; SA [49]; SL [SA [104]; SL [SA [51;49]; SA [48]; SA [49;50]; SA [48]]]; SA [49]; SA [51]; SL [SA [104]; SL [SA [51;49]; SA [48]; SA [49;50]; SA [48]]; SL [SA [51;49]; SA [52]; SA [54]; SA [50]]; SL [SA [54;51;54;56;55;50;99;51;97;57]; SA [57]; SA [49;50]; SA [49]]]].
Proof. vm_compute. reflexivity. Qed.
(* line 4357: (fmt bed5 (2c 2044424604930209996 18446744073709551615 none 0 none) (ftab) (ptab)) *)
Example x6 : run_case (SL [SA [102;109;116]; SA [98;101;100;53]; SL [SA [50;99]; SA [50;48;52;52;52;50;52;54;48;52;57;51;48;50;48;57;57;57;54]; SA [49;56;52;52;54;55;52;52;48;55;51;55;48;57;53;53;49;54;49;53]; SA [110;111;110;101]; SA [48]; SA [110;111;110;101]]; SL [SA [102;116;97;98]]; SL [SA [112;116;97;98]]]) = SL [SA [114]; SL [SA [116;120;116]; SA [50;99;48;57;51;50;51;48;51;52;51;52;51;52;51;50;51;52;51;54;51;48;51;52;51;57;51;51;51;48;51;50;51;48;51;57;51;57;51;57;51;54;48;57;51;49;51;56;51;52;51;52;51;54;51;55;51;52;51;52;51;48;51;55;51;51;51;55;51;48;51;57;51;53;51;53;51;49;51;54;51;49;51;53;48;57;50;101;48;57;51;48]]; SL [SA [114;116]; SL [SA [111;107]; SL [SA [50;99]; SA [50;48;52;52;52;50;52;54;48;52;57;51;48;50;48;57;57;57;54]; SA [49;56;52;52;54;55;52;52;48;55;51;55;48;57;53;53;49;54;49;53]; SA [110;111;110;101]; SA [48]; SA [110;111;110;101]]]]].
Proof. vm_compute. reflexivity. Qed.
(* line 6856: (score try 0) *)
Example x7 : run_case (SL [SA [115;99;111;114;101]; SA [116;114;121]; SA [48]]) = SL [SA [114]; SL [SA [111;107]; SA [48]]].
Proof. vm_compute. reflexivity. Qed.
(* line 7019: (misc optf ()) *)
Example x8 : run_case (SL [SA [109;105;115;99]; SA [111;112;116;102]; SL []]) = SL [SA [114]; SA [45]].
Proof. vm_compute. reflexivity. Qed.
(* line 9539: (skiprun 20000 23 63687231093109320a) *)
Example x9 : run_case (SL [SA [115;107;105;112;114;117;110]; SA [50;48;48;48;48]; SA [50;51]; SA [54;51;54;56;55;50;51;49;48;57;51;49;48;57;51;50;48;97]]) = SL [SA [114]; SL [SA [105;116;101;109;115]; SL [SA [111;107]; SL [SA [54;51;54;56;55;50;51;49]; SA [49]; SA [50]; SA [110;111;110;101]; SA [110;111;110;101]; SA [110;111;110;101]]]]].
Proof. vm_compute. reflexivity. Qed.
(* line 9542: (read gr none 0d0a2c09343909300a636872310d0a0a (frag 3) (ptab (- none) (0d none) (2c none) (30 0) (3439 4632092954238910464) (63687231 none) (636872310d none))) *)
Example x10 : run_case (SL [SA [114;101;97;100]; SA [103;114]; SA [110;111;110;101]; SA [48;100;48;97;50;99;48;57;51;52;51;57;48;57;51;48;48;97;54;51;54;56;55;50;51;49;48;100;48;97;48;97]; SL [SA [102;114;97;103]; SA [51]]; SL [SA [112;116;97;98]; SL [SA [45]; SA [110;111;110;101]]; SL [SA [48;100]; SA [110;111;110;101]]; SL [SA [50;99]; SA [110;111;110;101]]; SL [SA [51;48]; SA [48]]; SL [SA [51;52;51;57]; SA [52;54;51;50;48;57;50;57;53;52;50;51;56;57;49;48;52;54;52]]; SL [SA [54;51;54;56;55;50;51;49]; SA [110;111;110;101]]; SL [SA [54;51;54;56;55;50;51;49;48;100]; SA [110;111;110;101]]]]) = SL [SA [114]; SL [SA [105;116;101;109;115]; SL [SA [101;114;114]; SA [109;105;115;115;105;110;103;45;115;116;97;114;116]]; SL [SA [111;107]; SL [SA [50;99]; SA [52;57]; SA [48]]]; SL [SA [101;114;114]; SA [109;105;115;115;105;110;103;45;115;116;97;114;116]]; SL [SA [101;114;114]; SA [109;105;115;115;105;110;103;45;115;116;97;114;116]]]].
Proof. vm_compute. reflexivity. Qed.
(* line 9549: (wr bgf 23 (recs) (terms) (frag 1 7 2) (ftab (13830554455654793216 2d31)) (ptab)) *)
Example x11 : run_case (SL [SA [119;114]; SA [98;103;102]; SA [50;51]; SL [SA [114;101;99;115]]; SL [SA [116;101;114;109;115]]; SL [SA [102;114;97;103]; SA [49]; SA [55]; SA [50]]; SL [SA [102;116;97;98]; SL [SA [49;51;56;51;48;53;53;52;52;53;53;54;53;52;55;57;51;50;49;54]; SA [50;100;51;49]]]; SL [SA [112;116;97;98]]]) = SL [SA [114]; SL [SA [116;120;116]; SA [45]]; SL [SA [105;116;101;109;115]]].
Proof. vm_compute. reflexivity. Qed.
(* line 10740: (wrfail gr (recs (6368723130 0 0) (6368725f312e32 18446744073709551615 1425) (6368723130 0 1766) (312c3030302c303030 0 1687) (6368723120 1857 4294967295)) 5) *)
Example x12 : run_case (SL [SA [119;114;102;97;105;108]; SA [103;114]; SL [SA [114;101;99;115]; SL [SA [54;51;54;56;55;50;51;49;51;48]; SA [48]; SA [48]]; SL [SA [54;51;54;56;55;50;53;102;51;49;50;101;51;50]; SA [49;56;52;52;54;55;52;52;48;55;51;55;48;57;53;53;49;54;49;53]; SA [49;52;50;53]]; SL [SA [54;51;54;56;55;50;51;49;51;48]; SA [48]; SA [49;55;54;54]]; SL [SA [51;49;50;99;51;48;51;48;51;48;50;99;51;48;51;48;51;48]; SA [48]; SA [49;54;56;55]]; SL [SA [54;51;54;56;55;50;51;49;50;48]; SA [49;56;53;55]; SA [52;50;57;52;57;54;55;50;57;53]]]; SA [53]]) = SL [SA [114]; SA [111;114;97;99;108;101;45;111;110;108;121]].
Proof. vm_compute. reflexivity. Qed.
(* line 12010: (cov (regs (636872c3a9 0 9) (636872c3a9 3 11) (636872c3a9 5 6) (636872c3a9 0 9) (636872c3a9 3 11) (636872c3a9 3 10)) (ops (ins 636872c3a9 3 10 1) (ins 6368723130 4 8 1) (ins 636872c3a9 3 4 1) (ins 63687258 3 11 1) (insat 5 2) (ins 636872 6 8 2) (reset) (get))) *)
Example x13 : run_case (SL [SA [99;111;118]; SL [SA [114;101;103;115]; SL [SA [54;51;54;56;55;50;99;51;97;57]; SA [48]; SA [57]]; SL [SA [54;51;54;56;55;50;99;51;97;57]; SA [51]; SA [49;49]]; SL [SA [54;51;54;56;55;50;99;51;97;57]; SA [53]; SA [54]]; SL [SA [54;51;54;56;55;50;99;51;97;57]; SA [48]; SA [57]]; SL [SA [54;51;54;56;55;50;99;51;97;57]; SA [51]; SA [49;49]]; SL [SA [54;51;54;56;55;50;99;51;97;57]; SA [51]; SA [49;48]]]; SL [SA [111;112;115]; SL [SA [105;110;115]; SA [54;51;54;56;55;50;99;51;97;57]; SA [51]; SA [49;48]; SA [49]]; SL [SA [105;110;115]; SA [54;51;54;56;55;50;51;49;51;48]; SA [52]; SA [56]; SA [49]]; SL [SA [105;110;115]; SA [54;51;54;56;55;50;99;51;97;57]; SA [51]; SA [52]; SA [49]]; SL [SA [105;110;115]; SA [54;51;54;56;55;50;53;56]; SA [51]; SA [49;49]; SA [49]]; SL [SA [105;110;115;97;116]; SA [53]; SA [50]]; SL [SA [105;110;115]; SA [54;51;54;56;55;50]; SA [54]; SA [56]; SA [50]]; SL [SA [114;101;115;101;116]]; SL [SA [103;101;116]]]]) = SL [SA [114]; SL [SA [100;101;110;115;101]; SA [48]; SA [54]; SL [SA [48]; SA [48]; SA [48]; SA [48]; SA [48]; SA [48]]]; SL [SA [115;112;97;114;115;101]; SA [48]; SA [54]; SL [SA [48]; SA [48]; SA [48]; SA [48]; SA [48]; SA [48]]]].
Proof. vm_compute. reflexivity. Qed.
(* line 14408: (bcov 100 (regs (63687231 0 250)) (ops (len) (getregion 2) (getregion 3) (getregion 4) (getchrom 3) (getchrom 2))) *)
Example x14 : run_case (SL [SA [98;99;111;118]; SA [49;48;48]; SL [SA [114;101;103;115]; SL [SA [54;51;54;56;55;50;51;49]; SA [48]; SA [50;53;48]]]; SL [SA [111;112;115]; SL [SA [108;101;110]]; SL [SA [103;101;116;114;101;103;105;111;110]; SA [50]]; SL [SA [103;101;116;114;101;103;105;111;110]; SA [51]]; SL [SA [103;101;116;114;101;103;105;111;110]; SA [52]]; SL [SA [103;101;116;99;104;114;111;109]; SA [51]]; SL [SA [103;101;116;99;104;114;111;109]; SA [50]]]]) = SL [SA [114]; SA [51]; SA [51]; SL [SA [54;51;54;56;55;50;51;49]; SA [50;48;48]; SA [50;53;48]]; SA [110;111;110;101]; SA [110;111;110;101]; SA [110;111;110;101]; SA [54;51;54;56;55;50;51;49]].
Proof. vm_compute. reflexivity. Qed.
(* line 16811: (merge (recs (636872 64 103 0) (636872 64 103 1))) *)
Example x15 : run_case (SL [SA [109;101;114;103;101]; SL [SA [114;101;99;115]; SL [SA [54;51;54;56;55;50]; SA [54;52]; SA [49;48;51]; SA [48]]; SL [SA [54;51;54;56;55;50]; SA [54;52]; SA [49;48;51]; SA [49]]]]) = SL [SA [114]; SL [SA [103;114;111;117;112;115]; SL [SA [48]; SA [49]]]; SL [SA [114;97;110;103;101;115]; SL [SA [54;51;54;56;55;50]; SA [54;52]; SA [49;48;51]]]].
Proof. vm_compute. reflexivity. Qed.
(* line 20844: (bg (recs (63687231 0 10 1) (63687231 0 10 -2))) *)
Example x16 : run_case (SL [SA [98;103]; SL [SA [114;101;99;115]; SL [SA [54;51;54;56;55;50;51;49]; SA [48]; SA [49;48]; SA [49]]; SL [SA [54;51;54;56;55;50;51;49]; SA [48]; SA [49;48]; SA [45;50]]]]) = SL [SA [114]; SL [SA [111;117;116]; SL [SA [54;51;54;56;55;50;51;49]; SA [48]; SA [49;48]; SA [45;49]]]].
Proof. vm_compute. reflexivity. Qed.
(* line 25070: (chunk bare (items (0 1) (3 7)) (wplan (acc 100000) (acc 100000) (acc 100000) (acc 1)) (rplan)) *)
Example x17 : run_case (SL [SA [99;104;117;110;107]; SA [98;97;114;101]; SL [SA [105;116;101;109;115]; SL [SA [48]; SA [49]]; SL [SA [51]; SA [55]]]; SL [SA [119;112;108;97;110]; SL [SA [97;99;99]; SA [49;48;48;48;48;48]]; SL [SA [97;99;99]; SA [49;48;48;48;48;48]]; SL [SA [97;99;99]; SA [49;48;48;48;48;48]]; SL [SA [97;99;99]; SA [49]]]; SL [SA [114;112;108;97;110]]]) = SL [SA [114]; SL [SA [100;117;109;112]; SA [111;107]]; SL [SA [115;116;111;114;101;100]; SA [48;49;48;48;48;48;48;48;48;48;48;48;48;48;48;48;48;48;48;52;48;48;48;48;48;48;48;48;48;48;48;48;48;48;48;51;48;55;48;101;49;53]]; SL [SA [105;116;101;109;115]; SL [SA [111;107]; SA [45]]; SL [SA [111;107]; SA [48;55;48;101;49;53]]]].
Proof. vm_compute. reflexivity. Qed.
(* line 26301: (chunkchk (items (0 1) (3 7) (300 9) (9000 2)) 0 (got) 1) *)
Example x18 : run_case (SL [SA [99;104;117;110;107;99;104;107]; SL [SA [105;116;101;109;115]; SL [SA [48]; SA [49]]; SL [SA [51]; SA [55]]; SL [SA [51;48;48]; SA [57]]; SL [SA [57;48;48;48]; SA [50]]]; SA [48]; SL [SA [103;111;116]]; SA [49]]) = SL [SA [118;101;114;100;105;99;116]; SA [49]].
Proof. vm_compute. reflexivity. Qed.
(* line 26574: (kmerge 0 (chunks ((ok 5 300) (ok 5 301)) ((err 7) (ok 1 100) (ok 1 101) (ok 1 102) (ok 1 103) (ok 1 104) (ok 1 105) (ok 1 106) (ok 1 107) (ok 1 108)) ((ok 5 302))) 15 exact) *)
Example x19 : run_case (SL [SA [107;109;101;114;103;101]; SA [48]; SL [SA [99;104;117;110;107;115]; SL [SL [SA [111;107]; SA [53]; SA [51;48;48]]; SL [SA [111;107]; SA [53]; SA [51;48;49]]]; SL [SL [SA [101;114;114]; SA [55]]; SL [SA [111;107]; SA [49]; SA [49;48;48]]; SL [SA [111;107]; SA [49]; SA [49;48;49]]; SL [SA [111;107]; SA [49]; SA [49;48;50]]; SL [SA [111;107]; SA [49]; SA [49;48;51]]; SL [SA [111;107]; SA [49]; SA [49;48;52]]; SL [SA [111;107]; SA [49]; SA [49;48;53]]; SL [SA [111;107]; SA [49]; SA [49;48;54]]; SL [SA [111;107]; SA [49]; SA [49;48;55]]; SL [SA [111;107]; SA [49]; SA [49;48;56]]]; SL [SL [SA [111;107]; SA [53]; SA [51;48;50]]]]; SA [49;53]; SA [101;120;97;99;116]]) = SL [SA [114]; SL [SA [99;97;108;108;115]; SL [SA [101;114;114]; SA [55]]; SL [SA [111;107]; SA [49]; SA [49;48;48]]; SL [SA [111;107]; SA [49]; SA [49;48;49]]; SL [SA [111;107]; SA [49]; SA [49;48;50]]; SL [SA [111;107]; SA [49]; SA [49;48;51]]; SL [SA [111;107]; SA [49]; SA [49;48;52]]; SL [SA [111;107]; SA [49]; SA [49;48;53]]; SL [SA [111;107]; SA [49]; SA [49;48;54]]; SL [SA [111;107]; SA [49]; SA [49;48;55]]; SL [SA [111;107]; SA [49]; SA [49;48;56]]; SL [SA [111;107]; SA [53]; SA [51;48;50]]; SL [SA [111;107]; SA [53]; SA [51;48;49]]; SL [SA [111;107]; SA [53]; SA [51;48;48]]; SA [110;111;110;101]; SA [110;111;110;101]]].
Proof. vm_compute. reflexivity. Qed.
(* line 31685: (kmergechk 0 (chunks ((ok 5 300) (ok 5 301)) ((ok 1 100) (err 7) (ok 1 101) (ok 1 102) (ok 1 103) (ok 1 104) (ok 1 105) (ok 1 106) (ok 1 107) (ok 1 108)) ((ok 5 302))) (outs (err 7) (ok 5 302) (ok 5 300) (ok 5 301))) *)
Example x20 : run_case (SL [SA [107;109;101;114;103;101;99;104;107]; SA [48]; SL [SA [99;104;117;110;107;115]; SL [SL [SA [111;107]; SA [53]; SA [51;48;48]]; SL [SA [111;107]; SA [53]; SA [51;48;49]]]; SL [SL [SA [111;107]; SA [49]; SA [49;48;48]]; SL [SA [101;114;114]; SA [55]]; SL [SA [111;107]; SA [49]; SA [49;48;49]]; SL [SA [111;107]; SA [49]; SA [49;48;50]]; SL [SA [111;107]; SA [49]; SA [49;48;51]]; SL [SA [111;107]; SA [49]; SA [49;48;52]]; SL [SA [111;107]; SA [49]; SA [49;48;53]]; SL [SA [111;107]; SA [49]; SA [49;48;54]]; SL [SA [111;107]; SA [49]; SA [49;48;55]]; SL [SA [111;107]; SA [49]; SA [49;48;56]]]; SL [SL [SA [111;107]; SA [53]; SA [51;48;50]]]]; SL [SA [111;117;116;115]; SL [SA [101;114;114]; SA [55]]; SL [SA [111;107]; SA [53]; SA [51;48;50]]; SL [SA [111;107]; SA [53]; SA [51;48;48]]; SL [SA [111;107]; SA [53]; SA [51;48;49]]]]) = SL [SA [118;101;114;100;105;99;116]; SA [49]].
Proof. vm_compute. reflexivity. Qed.
(* line 33173: (imap (recs) (ops (len) (get 0) (get 1) (get 2) (find 616273656e74 1 9) (findidx 616273656e74 1 9) (find 616273656e74 5 9) (findidx 616273656e74 5 9))) *)
Example x21 : run_case (SL [SA [105;109;97;112]; SL [SA [114;101;99;115]]; SL [SA [111;112;115]; SL [SA [108;101;110]]; SL [SA [103;101;116]; SA [48]]; SL [SA [103;101;116]; SA [49]]; SL [SA [103;101;116]; SA [50]]; SL [SA [102;105;110;100]; SA [54;49;54;50;55;51;54;53;54;101;55;52]; SA [49]; SA [57]]; SL [SA [102;105;110;100;105;100;120]; SA [54;49;54;50;55;51;54;53;54;101;55;52]; SA [49]; SA [57]]; SL [SA [102;105;110;100]; SA [54;49;54;50;55;51;54;53;54;101;55;52]; SA [53]; SA [57]]; SL [SA [102;105;110;100;105;100;120]; SA [54;49;54;50;55;51;54;53;54;101;55;52]; SA [53]; SA [57]]]]) = SL [SA [114]; SA [48]; SA [110;111;110;101]; SA [110;111;110;101]; SA [110;111;110;101]; SL [SA [104]]; SL [SA [104]]; SL [SA [104]]; SL [SA [104]]].
Proof. vm_compute. reflexivity. Qed.
(* line 33232: (iset (regs (636872 5 12)) (ops (len) (iter) (get 0) (get 1) (get 2) (get 3) (find 636872 0 4) (findidx 636872 0 4) (findfull 636872 0 4) (isov 636872 0 4) (find 636872 4 6) (findidx 636872 4 6) (findfull 636872 4 6) (isov 636872 4 6))) *)
Example x22 : run_case (SL [SA [105;115;101;116]; SL [SA [114;101;103;115]; SL [SA [54;51;54;56;55;50]; SA [53]; SA [49;50]]]; SL [SA [111;112;115]; SL [SA [108;101;110]]; SL [SA [105;116;101;114]]; SL [SA [103;101;116]; SA [48]]; SL [SA [103;101;116]; SA [49]]; SL [SA [103;101;116]; SA [50]]; SL [SA [103;101;116]; SA [51]]; SL [SA [102;105;110;100]; SA [54;51;54;56;55;50]; SA [48]; SA [52]]; SL [SA [102;105;110;100;105;100;120]; SA [54;51;54;56;55;50]; SA [48]; SA [52]]; SL [SA [102;105;110;100;102;117;108;108]; SA [54;51;54;56;55;50]; SA [48]; SA [52]]; SL [SA [105;115;111;118]; SA [54;51;54;56;55;50]; SA [48]; SA [52]]; SL [SA [102;105;110;100]; SA [54;51;54;56;55;50]; SA [52]; SA [54]]; SL [SA [102;105;110;100;105;100;120]; SA [54;51;54;56;55;50]; SA [52]; SA [54]]; SL [SA [102;105;110;100;102;117;108;108]; SA [54;51;54;56;55;50]; SA [52]; SA [54]]; SL [SA [105;115;111;118]; SA [54;51;54;56;55;50]; SA [52]; SA [54]]]]) = SL [SA [114]; SA [49]; SL [SA [105;116]; SL [SA [54;51;54;56;55;50]; SA [53]; SA [49;50]]]; SL [SA [54;51;54;56;55;50]; SA [53]; SA [49;50]]; SA [110;111;110;101]; SA [110;111;110;101]; SA [110;111;110;101]; SL [SA [104]]; SL [SA [104]]; SL [SA [104]]; SA [48]; SL [SA [104]; SL [SA [54;51;54;56;55;50]; SA [53]; SA [49;50]]]; SL [SA [104]; SA [48]]; SL [SA [104]; SL [SL [SA [54;51;54;56;55;50]; SA [53]; SA [49;50]]; SA [48]]]; SA [49]].
Proof. vm_compute. reflexivity. Qed.
(* line 35551: (parse bgf 6368723109310932 (ptab)) *)
Example x23 : run_case (SL [SA [112;97;114;115;101]; SA [98;103;102]; SA [54;51;54;56;55;50;51;49;48;57;51;49;48;57;51;50]; SL [SA [112;116;97;98]]]) = SL [SA [114]; SL [SA [101;114;114]; SA [101;120;116]]].
Proof. vm_compute. reflexivity. Qed.
(* line 42801: (alg ggg (31 1 2) (31 1 5) (31 0 8)) *)
Example x24 : run_case (SL [SA [97;108;103]; SA [103;103;103]; SL [SA [51;49]; SA [49]; SA [50]]; SL [SA [51;49]; SA [49]; SA [53]]; SL [SA [51;49]; SA [48]; SA [56]]]) = SL [SA [114]; SL [SA [108;101;110]; SA [49]; SA [52]; SA [56]]; SL [SA [111;118]; SL [SA [51;49]; SA [49]; SA [50]]; SL [SA [51;49]; SA [49]; SA [50]]; SL [SA [51;49]; SA [49]; SA [50]]; SL [SA [51;49]; SA [49]; SA [50]]]; SL [SA [110;111;118]; SA [49]; SA [49]; SA [49]; SA [49]]; SL [SA [99;109;112]; SA [108;116]; SA [103;116]; SA [103;116]; SA [103;116]; SA [101;113]]; SL [SA [115;101;116]; SA [51;49]; SA [48]; SA [53]]].
Proof. vm_compute. reflexivity. Qed.
(* line 45833: (alg ggg (63 9 18446744073709551605) (63687231 4294967298 4294967305) (63687231 4294967297 18446744073709551604)) *)
Example x25 : run_case (SL [SA [97;108;103]; SA [103;103;103]; SL [SA [54;51]; SA [57]; SA [49;56;52;52;54;55;52;52;48;55;51;55;48;57;53;53;49;54;48;53]]; SL [SA [54;51;54;56;55;50;51;49]; SA [52;50;57;52;57;54;55;50;57;56]; SA [52;50;57;52;57;54;55;51;48;53]]; SL [SA [54;51;54;56;55;50;51;49]; SA [52;50;57;52;57;54;55;50;57;55]; SA [49;56;52;52;54;55;52;52;48;55;51;55;48;57;53;53;49;54;48;52]]]) = SL [SA [114]; SL [SA [108;101;110]; SA [49;56;52;52;54;55;52;52;48;55;51;55;48;57;53;53;49;53;57;54]; SA [55]; SA [49;56;52;52;54;55;52;52;48;54;57;52;49;52;53;56;52;51;48;55]]; SL [SA [111;118]; SA [110;111;110;101]; SA [110;111;110;101]; SA [110;111;110;101]; SL [SA [54;51]; SA [57]; SA [49;56;52;52;54;55;52;52;48;55;51;55;48;57;53;53;49;54;48;53]]]; SL [SA [110;111;118]; SA [48]; SA [48]; SA [48]; SA [49;56;52;52;54;55;52;52;48;55;51;55;48;57;53;53;49;53;57;54]]; SL [SA [99;109;112]; SA [108;116]; SA [103;116]; SA [103;116]; SA [108;116]; SA [101;113]]; SL [SA [115;101;116]; SA [54;51;54;56;55;50;51;49]; SA [52;50;57;52;57;54;55;50;57;55]; SA [52;50;57;52;57;54;55;51;48;53]]].
Proof. vm_compute. reflexivity. Qed.
(* line 48801: (split 5 10 18446744073709551615) *)
Example x26 : run_case (SL [SA [115;112;108;105;116]; SA [53]; SA [49;48]; SA [49;56;52;52;54;55;52;52;48;55;51;55;48;57;53;53;49;54;49;53]]) = SL [SA [114]; SL [SA [115;112]; SL [SA [53]; SA [49;48]]]; SL [SA [114;115;112]; SL [SA [53]; SA [49;48]]]].
Proof. vm_compute. reflexivity. Qed.
(* line 52143: (tmp (steps (dir) (threads 2) (cs 7) (comp 4)) 1 returned 1 iter_first dir) *)
Example x27 : run_case (SL [SA [116;109;112]; SL [SA [115;116;101;112;115]; SL [SA [100;105;114]]; SL [SA [116;104;114;101;97;100;115]; SA [50]]; SL [SA [99;115]; SA [55]]; SL [SA [99;111;109;112]; SA [52]]]; SA [49]; SA [114;101;116;117;114;110;101;100]; SA [49]; SA [105;116;101;114;95;102;105;114;115;116]; SA [100;105;114]]) = SL [SA [114]; SA [111;114;97;99;108;101;45;111;110;108;121]].
Proof. vm_compute. reflexivity. Qed.
(* line 52712: (lap 18446744073709551615 (ivs (5 10 0)) (ops (count 1 5) (find 1 5))) *)
Example x28 : run_case (SL [SA [108;97;112]; SA [49;56;52;52;54;55;52;52;48;55;51;55;48;57;53;53;49;54;49;53]; SL [SA [105;118;115]; SL [SA [53]; SA [49;48]; SA [48]]]; SL [SA [111;112;115]; SL [SA [99;111;117;110;116]; SA [49]; SA [53]]; SL [SA [102;105;110;100]; SA [49]; SA [53]]]]) = SL [SA [114]; SA [48]; SL [SA [104]]].
Proof. vm_compute. reflexivity. Qed.

(* ---------- panics: what was emitted before is kept ---------- *)
(* line 1: (lap 18446744073709551615 (ivs (0 18446744073709551615 0) (0 18446744073709551615 1) (4294967302 18446744073709551607 2) (4294967301 4294967304 3) (12 9223372036854775815 4)) (ops (cov) (ins 0 18446744073709551615 5) (cov) (setcov) (cov) (ins 4294967296 18446744073709551604 6) (cov) (reload) (ins 4294967302 18446744073709551613 7) (cov) (ui (ivs (4294967293 18446744073709551610 100)) (ops)) (cov))) *)
Example panic_kept_0 : run_case (SL [SA [108;97;112]; SA [49;56;52;52;54;55;52;52;48;55;51;55;48;57;53;53;49;54;49;53]; SL [SA [105;118;115]; SL [SA [48]; SA [49;56;52;52;54;55;52;52;48;55;51;55;48;57;53;53;49;54;49;53]; SA [48]]; SL [SA [48]; SA [49;56;52;52;54;55;52;52;48;55;51;55;48;57;53;53;49;54;49;53]; SA [49]]; SL [SA [52;50;57;52;57;54;55;51;48;50]; SA [49;56;52;52;54;55;52;52;48;55;51;55;48;57;53;53;49;54;48;55]; SA [50]]; SL [SA [52;50;57;52;57;54;55;51;48;49]; SA [52;50;57;52;57;54;55;51;48;52]; SA [51]]; SL [SA [49;50]; SA [57;50;50;51;51;55;50;48;51;54;56;53;52;55;55;53;56;49;53]; SA [52]]]; SL [SA [111;112;115]; SL [SA [99;111;118]]; SL [SA [105;110;115]; SA [48]; SA [49;56;52;52;54;55;52;52;48;55;51;55;48;57;53;53;49;54;49;53]; SA [53]]; SL [SA [99;111;118]]; SL [SA [115;101;116;99;111;118]]; SL [SA [99;111;118]]; SL [SA [105;110;115]; SA [52;50;57;52;57;54;55;50;57;54]; SA [49;56;52;52;54;55;52;52;48;55;51;55;48;57;53;53;49;54;48;52]; SA [54]]; SL [SA [99;111;118]]; SL [SA [114;101;108;111;97;100]]; SL [SA [105;110;115]; SA [52;50;57;52;57;54;55;51;48;50]; SA [49;56;52;52;54;55;52;52;48;55;51;55;48;57;53;53;49;54;49;51]; SA [55]]; SL [SA [99;111;118]]; SL [SA [117;105]; SL [SA [105;118;115]; SL [SA [52;50;57;52;57;54;55;50;57;51]; SA [49;56;52;52;54;55;52;52;48;55;51;55;48;57;53;53;49;54;49;48]; SA [49;48;48]]]; SL [SA [111;112;115]]]; SL [SA [99;111;118]]]]) = SL [SA [114]; SA [49;56;52;52;54;55;52;52;48;55;51;55;48;57;53;53;49;54;49;53]; SA [49;56;52;52;54;55;52;52;48;55;51;55;48;57;53;53;49;54;49;53]; SA [49;56;52;52;54;55;52;52;48;55;51;55;48;57;53;53;49;54;49;53]; SA [49;56;52;52;54;55;52;52;48;55;51;55;48;57;53;53;49;54;49;53]; SA [49;56;52;52;54;55;52;52;48;55;51;55;48;57;53;53;49;54;49;53]; SA [112;97;110;105;99]].
Proof. vm_compute. reflexivity. Qed.
(* line 2: (lap 18446744073709551615 (ivs (0 18446744073709551615 0) (0 18446744073709551615 1) (4294967302 18446744073709551607 2) (4294967301 4294967304 3) (12 9223372036854775815 4)) (ops (cov) (merge) (cov) (ins 2 10 5) (clone) (cov) (ui (ivs (4294967293 18446744073709551610 100)) (ops (merge))) (cov))) *)
Example panic_kept_1 : run_case (SL [SA [108;97;112]; SA [49;56;52;52;54;55;52;52;48;55;51;55;48;57;53;53;49;54;49;53]; SL [SA [105;118;115]; SL [SA [48]; SA [49;56;52;52;54;55;52;52;48;55;51;55;48;57;53;53;49;54;49;53]; SA [48]]; SL [SA [48]; SA [49;56;52;52;54;55;52;52;48;55;51;55;48;57;53;53;49;54;49;53]; SA [49]]; SL [SA [52;50;57;52;57;54;55;51;48;50]; SA [49;56;52;52;54;55;52;52;48;55;51;55;48;57;53;53;49;54;48;55]; SA [50]]; SL [SA [52;50;57;52;57;54;55;51;48;49]; SA [52;50;57;52;57;54;55;51;48;52]; SA [51]]; SL [SA [49;50]; SA [57;50;50;51;51;55;50;48;51;54;56;53;52;55;55;53;56;49;53]; SA [52]]]; SL [SA [111;112;115]; SL [SA [99;111;118]]; SL [SA [109;101;114;103;101]]; SL [SA [99;111;118]]; SL [SA [105;110;115]; SA [50]; SA [49;48]; SA [53]]; SL [SA [99;108;111;110;101]]; SL [SA [99;111;118]]; SL [SA [117;105]; SL [SA [105;118;115]; SL [SA [52;50;57;52;57;54;55;50;57;51]; SA [49;56;52;52;54;55;52;52;48;55;51;55;48;57;53;53;49;54;49;48]; SA [49;48;48]]]; SL [SA [111;112;115]; SL [SA [109;101;114;103;101]]]]; SL [SA [99;111;118]]]]) = SL [SA [114]; SA [49;56;52;52;54;55;52;52;48;55;51;55;48;57;53;53;49;54;49;53]; SA [49;56;52;52;54;55;52;52;48;55;51;55;48;57;53;53;49;54;49;53]; SA [49;56;52;52;54;55;52;52;48;55;51;55;48;57;53;53;49;54;49;53]; SA [112;97;110;105;99]].
Proof. vm_compute. reflexivity. Qed.

(* ---------- malformed cases, the order of panic and malformed op, lazily decoded arguments, missed floats ---------- *)
(* line 1: (nosuch 1 2) *)
Example edge_0 : run_case (SL [SA [110;111;115;117;99;104]; SA [49]; SA [50]]) = SL [SA [103;108;117;101;45;101;114;114;111;114]; SA [117;110;107;110;111;119;110;45;99;97;115;101;45;107;105;110;100]].
Proof. vm_compute. reflexivity. Qed.
(* line 2: (split 1 x 3) *)
Example edge_1 : run_case (SL [SA [115;112;108;105;116]; SA [49]; SA [120]; SA [51]]) = SL [SA [103;108;117;101;45;101;114;114;111;114]; SA [98;97;100;45;110;117;109;98;101;114]].
Proof. vm_compute. reflexivity. Qed.
(* line 3: (split 18446744073709551615 18446744073709551615 3) *)
Example edge_2 : run_case (SL [SA [115;112;108;105;116]; SA [49;56;52;52;54;55;52;52;48;55;51;55;48;57;53;53;49;54;49;53]; SA [49;56;52;52;54;55;52;52;48;55;51;55;48;57;53;53;49;54;49;53]; SA [51]]) = SL [SA [114]; SL [SA [115;112]]; SA [112;97;110;105;99]].
Proof. vm_compute. reflexivity. Qed.
(* line 4: (lap 255 (ivs (1 5 0)) (ops (cov) (frob) (depth))) *)
Example edge_3 : run_case (SL [SA [108;97;112]; SA [50;53;53]; SL [SA [105;118;115]; SL [SA [49]; SA [53]; SA [48]]]; SL [SA [111;112;115]; SL [SA [99;111;118]]; SL [SA [102;114;111;98]]; SL [SA [100;101;112;116;104]]]]) = SL [SA [103;108;117;101;45;101;114;114;111;114]; SA [98;97;100;45;111;112]].
Proof. vm_compute. reflexivity. Qed.
(* line 5: (bcov 0 (regs (63 1 5)) (nope)) *)
Example edge_4 : run_case (SL [SA [98;99;111;118]; SA [48]; SL [SA [114;101;103;115]; SL [SA [54;51]; SA [49]; SA [53]]]; SL [SA [110;111;112;101]]]) = SL [SA [114]; SA [112;97;110;105;99]].
Proof. vm_compute. reflexivity. Qed.
(* line 6: (cov (regs (63 1 5)) (ops (insat 3 1) (get) (bad))) *)
Example edge_5 : run_case (SL [SA [99;111;118]; SL [SA [114;101;103;115]; SL [SA [54;51]; SA [49]; SA [53]]]; SL [SA [111;112;115]; SL [SA [105;110;115;97;116]; SA [51]; SA [49]]; SL [SA [103;101;116]]; SL [SA [98;97;100]]]]) = SL [SA [114]; SA [112;97;110;105;99]].
Proof. vm_compute. reflexivity. Qed.
(* line 7: (tmpchk 64 (before 61) (during) (after) oops) *)
Example edge_6 : run_case (SL [SA [116;109;112;99;104;107]; SA [54;52]; SL [SA [98;101;102;111;114;101]; SA [54;49]]; SL [SA [100;117;114;105;110;103]]; SL [SA [97;102;116;101;114]]; SA [111;111;112;115]]) = SL [SA [118;101;114;100;105;99;116]; SA [48]].
Proof. vm_compute. reflexivity. Qed.
(* line 8: (tmpchk 64 (before) (during) (after) oops) *)
Example edge_7 : run_case (SL [SA [116;109;112;99;104;107]; SA [54;52]; SL [SA [98;101;102;111;114;101]]; SL [SA [100;117;114;105;110;103]]; SL [SA [97;102;116;101;114]]; SA [111;111;112;115]]) = SL [SA [103;108;117;101;45;101;114;114;111;114]; SA [101;120;112;101;99;116;101;100;45;116;97;103;103;101;100;45;108;105;115;116]].
Proof. vm_compute. reflexivity. Qed.
(* line 9: (fmt np (63 1 2 6e 5 + 4607182418800017408 none 4607182418800017408 3) (ftab (4607182418800017408 31)) (ptab (31 4607182418800017408))) *)
Example edge_8 : run_case (SL [SA [102;109;116]; SA [110;112]; SL [SA [54;51]; SA [49]; SA [50]; SA [54;101]; SA [53]; SA [43]; SA [52;54;48;55;49;56;50;52;49;56;56;48;48;48;49;55;52;48;56]; SA [110;111;110;101]; SA [52;54;48;55;49;56;50;52;49;56;56;48;48;48;49;55;52;48;56]; SA [51]]; SL [SA [102;116;97;98]; SL [SA [52;54;48;55;49;56;50;52;49;56;56;48;48;48;49;55;52;48;56]; SA [51;49]]]; SL [SA [112;116;97;98]; SL [SA [51;49]; SA [52;54;48;55;49;56;50;52;49;56;56;48;48;48;49;55;52;48;56]]]]) = SL [SA [103;108;117;101;45;101;114;114;111;114]; SA [102;108;111;97;116;45;110;111;116;45;105;110;45;102;116;97;98]].
Proof. vm_compute. reflexivity. Qed.
(* line 10: (parse np 63093109320939350935092b0931097809310937 (ptab (31 4607182418800017408))) *)
Example edge_9 : run_case (SL [SA [112;97;114;115;101]; SA [110;112]; SA [54;51;48;57;51;49;48;57;51;50;48;57;51;57;51;53;48;57;51;53;48;57;50;98;48;57;51;49;48;57;55;56;48;57;51;49;48;57;51;55]; SL [SA [112;116;97;98]; SL [SA [51;49]; SA [52;54;48;55;49;56;50;52;49;56;56;48;48;48;49;55;52;48;56]]]]) = SL [SA [103;108;117;101;45;101;114;114;111;114]; SA [116;111;107;101;110;45;110;111;116;45;105;110;45;112;116;97;98]].
Proof. vm_compute. reflexivity. Qed.
(* line 11: (parse np 63093109320939350935092b0931097809310937 (ptab (31 4607182418800017408) (78 none))) *)
Example edge_10 : run_case (SL [SA [112;97;114;115;101]; SA [110;112]; SA [54;51;48;57;51;49;48;57;51;50;48;57;51;57;51;53;48;57;51;53;48;57;50;98;48;57;51;49;48;57;55;56;48;57;51;49;48;57;51;55]; SL [SA [112;116;97;98]; SL [SA [51;49]; SA [52;54;48;55;49;56;50;52;49;56;56;48;48;48;49;55;52;48;56]]; SL [SA [55;56]; SA [110;111;110;101]]]]) = SL [SA [114]; SL [SA [101;114;114]; SA [101;120;116]]].
Proof. vm_compute. reflexivity. Qed.

(* ---------- the float-token probe of Run.parse_typed / Run.reader_items_sx ----------
   [agree pf1 pf2]: pf2 answers like pf1 wherever pf1 answers at all (pf1 = "missed tokens give None",
   pf2 = "missed tokens give Some x").  A parser that consults pf1 on a missed token ends in PErr InvalidField;
   so a result without (err ext) is the result under every agreeing pf2: no missed token was consulted. *)
From BedV Require Import TextModel.
Definition agree (pf1 pf2 : bytes -> option N) : Prop := forall t v, pf1 t = Some v -> pf2 t = Some v.
Definition prel {A} (x y : pres A) : Prop := x = y \/ x = PErr InvalidField.
Lemma prel_refl {A} (x : pres A) : prel x x.
Proof. left; reflexivity. Qed.
Lemma prel_bind {A B} (r1 r2 : pres A) (f1 f2 : A -> pres B) :
  prel r1 r2 -> (forall a, prel (f1 a) (f2 a)) -> prel (pbind r1 f1) (pbind r2 f2).
Proof.
  intros [-> | ->] H.
  - destruct r2; simpl; auto using prel_refl.
  - right; reflexivity.
Qed.
Lemma prel_take_field {A} (m : perr) (f1 f2 : bytes -> pres A) fs :
  (forall s, prel (f1 s) (f2 s)) -> prel (take_field m f1 fs) (take_field m f2 fs).
Proof.
  intros H. destruct fs as [|x t]; simpl; [apply prel_refl|].
  apply prel_bind; [apply H | intros; apply prel_refl].
Qed.
Lemma prel_p_float pf1 pf2 fs : agree pf1 pf2 -> prel (p_float pf1 fs) (p_float pf2 fs).
Proof.
  intros H. apply prel_take_field. intros s. destruct (pf1 s) eqn:E.
  - rewrite (H _ _ E). apply prel_refl.
  - right; reflexivity.
Qed.
Lemma prel_p_pvalue pf1 pf2 fs : agree pf1 pf2 -> prel (p_pvalue pf1 fs) (p_pvalue pf2 fs).
Proof. intros H. apply prel_bind; [apply prel_p_float, H | intros; apply prel_refl]. Qed.
Lemma prel_p_bgval b pf1 pf2 fs : agree pf1 pf2 -> prel (p_bgval b pf1 fs) (p_bgval b pf2 fs).
Proof.
  intros H. apply prel_take_field. intros s. destruct b; [|apply prel_refl].
  destruct (pf1 s) eqn:E.
  - rewrite (H _ _ E). apply prel_refl.
  - right; reflexivity.
Qed.
Ltac prel_chain H :=
  repeat (first [ apply prel_refl | apply prel_p_float, H | apply prel_p_pvalue, H | apply prel_p_bgval, H
                | apply prel_bind; [| intros ? ] ]).
Lemma prel_npeak pf1 pf2 s : agree pf1 pf2 -> prel (parse_npeak pf1 s) (parse_npeak pf2 s).
Proof. intros H. unfold parse_npeak. prel_chain H. Qed.
Lemma prel_bpeak pf1 pf2 s : agree pf1 pf2 -> prel (parse_bpeak pf1 s) (parse_bpeak pf2 s).
Proof. intros H. unfold parse_bpeak. prel_chain H. Qed.
Lemma prel_bgraph b pf1 pf2 s : agree pf1 pf2 -> prel (parse_bgraph b pf1 s) (parse_bgraph b pf2 s).
Proof. intros H. unfold parse_bgraph. prel_chain H. Qed.

Lemma sx_pres_ext {A} (f : A -> sexp) (x y : pres A) :
  prel x y -> is_ext_err (sx_pres f x) = false -> sx_pres f y = sx_pres f x.
Proof. intros [-> | ->] E; [reflexivity | vm_compute in E; discriminate]. Qed.

Theorem parse_with_probe ty pf1 pf2 s :
  agree pf1 pf2 -> is_ext_err (parse_with ty pf1 s) = false -> parse_with ty pf2 s = parse_with ty pf1 s.
Proof.
  intros H E. destruct ty; simpl in *; try reflexivity;
    (apply sx_pres_ext; [| exact E]); auto using prel_npeak, prel_bpeak, prel_bgraph.
Qed.

(* the reader: which lines become items does not depend on the parser *)
Lemma rd_next_rel {A} (p1 p2 : bytes -> pres A) prefix :
  (forall l, prel (p1 l) (p2 l)) ->
  forall fuel s,
    match rd_next p1 prefix fuel s, rd_next p2 prefix fuel s with
    | None, None => True
    | Some (i1, r1), Some (i2, r2) => prel i1 i2 /\ r1 = r2
    | _, _ => False
    end.
Proof.
  intros H. induction fuel as [|f IH]; intros s; simpl; [exact I|].
  destruct (read_record prefix s) as [[sz line] rest]. destruct sz as [[|n]|]; auto. apply IH.
Qed.
Lemma rd_all_rel {A} (p1 p2 : bytes -> pres A) prefix :
  (forall l, prel (p1 l) (p2 l)) ->
  forall fuel s, Forall2 prel (rd_all p1 prefix fuel s) (rd_all p2 prefix fuel s).
Proof.
  intros H. induction fuel as [|f IH]; intros s; cbn [rd_all]; [constructor|].
  pose proof (rd_next_rel p1 p2 prefix H (S (length s)) s) as R.
  destruct (rd_next p1 prefix (S (length s)) s) as [[i1 r1]|], (rd_next p2 prefix (S (length s)) s) as [[i2 r2]|];
    try contradiction; [|constructor].
  destruct R as [Ri ->]. constructor; auto.
Qed.
Lemma map_sx_pres_ext {A} (f : A -> sexp) (l1 l2 : list (pres A)) :
  Forall2 prel l1 l2 -> existsb is_ext_err (map (sx_pres f) l1) = false -> map (sx_pres f) l2 = map (sx_pres f) l1.
Proof.
  induction 1 as [|x y l1 l2 R F IH]; simpl; intros E; [reflexivity|].
  apply orb_false_iff in E. destruct E as [E1 E2].
  rewrite (sx_pres_ext f x y R E1), (IH E2). reflexivity.
Qed.
Theorem items_with_probe ty pf1 pf2 prefix s :
  agree pf1 pf2 -> existsb is_ext_err (items_with ty pf1 prefix s) = false ->
  items_with ty pf2 prefix s = items_with ty pf1 prefix s.
Proof.
  intros H E. destruct ty; simpl in *; try reflexivity;
    (apply map_sx_pres_ext; [| exact E]); unfold reader_items; apply rd_all_rel; intros l;
    auto using prel_npeak, prel_bpeak, prel_bgraph.
Qed.
(* the two lookups used by the runner agree *)
Lemma parse_f_of_agree tbl m : agree (parse_f_of None tbl) (parse_f_of (Some m) tbl).
Proof. intros t v. unfold parse_f_of. destruct (assoc (hex_of_bytes t) tbl); [auto | discriminate]. Qed.

(* ---------- the decimal printer of the runner is the model's ---------- *)
Example text_of_N_small : forallb (fun n => bytes_eqb (text_of_N n) (show_N n)) (nrange 3000) = true.
Proof. vm_compute. reflexivity. Qed.
Example text_of_N_big :
  forallb (fun n => bytes_eqb (text_of_N n) (show_N n))
    [18446744073709551615; 18446744073709551616; 9223372036854775808; 1000000000000000000; 999999999999999999;
     4294967295; 4294967296; 65535; 65536; 100000; 99999; 1234567890123456789012345678901234567890] = true.
Proof. vm_compute. reflexivity. Qed.
(* OCaml's int_of_string *)
From Coq Require String.
Module Samples.
Import String.
Example int_of_string_samples :
  map ocaml_int_of_string [bs "0"; bs "-7"; bs "+12"; bs "1_000"; bs "0x1f"; bs "0b101"; bs "0o17"; bs "0u9"; bs "";
                           bs "-"; bs "_1"; bs "12a"; bs "4611686018427387903"; bs "4611686018427387904";
                           bs "-4611686018427387904"; bs "0x7fffffffffffffff"; bs "0x8000000000000000"]
  = [Some 0; Some (-7); Some 12; Some 1000; Some 31; Some 5; Some 15; Some 9; None; None; None; None;
     Some 4611686018427387903; None; Some (-4611686018427387904); Some (-1); None]%Z.
Proof. vm_compute. reflexivity. Qed.
(* hex text: "-" is the empty string, a '_' second character is skipped, a trailing odd character is ignored *)
Example hex_samples :
  (bytes_of_hex (bs "-"), bytes_of_hex (bs "00ff7A"), bytes_of_hex (bs "a_1"), bytes_of_hex (bs "zz"),
   hex_of_bytes [], hex_of_bytes [0; 255; 122; 256])
  = (Good [], Good [0; 255; 122], Good [10], Bad m_hex, bs "-", bs "00ff7a100").
Proof. vm_compute. reflexivity. Qed.
End Samples.

(* sbcov: the sparse binned counter alone over a region list with more than 2^32 bins (case kind added after the port) *)
Example rc_sbcov : run_case (SL [SA [115;98;99;111;118]; SA [49]; SL [SA [114;101;103;115]; SL [SA [54;51;54;56;55;50;51;49]; SA [48]; SA [52;50;57;52;57;54;55;52;48;48]]; SL [SA [54;51;54;56;55;50;51;50]; SA [49;48;48;48]; SA [50;48;48;48]]]; SL [SA [111;112;115]; SL [SA [105;110;115]; SA [54;51;54;56;55;50;51;50]; SA [49;53;48;48]; SA [49;53;48;51]; SA [50]]; SL [SA [103;101;116;109;97;112]]; SL [SA [103;101;116;114;101;103;105;111;110]; SA [52;50;57;52;57;54;56;57;48;48]]; SL [SA [103;101;116;99;104;114;111;109]; SA [52;50;57;52;57;54;55;57;48;48]]; SL [SA [103;101;116;114;101;103;105;111;110]; SA [52;50;57;52;57;54;55;57;48;49]]; SL [SA [105;110;115]; SA [54;51;54;56;55;50;51;49]; SA [52;50;57;52;57;54;55;51;57;56]; SA [52;50;57;52;57;54;55;53;48;48]; SA [49]]; SL [SA [103;101;116;109;97;112]]; SL [SA [114;101;115;101;116]]; SL [SA [103;101;116;109;97;112]]]]) = SL [SA [114]; SL [SA [115;109;97;112]; SA [50]; SA [52;50;57;52;57;54;56;52;48;48]; SL [SL [SA [52;50;57;52;57;54;55;57;48;48]; SA [50]]; SL [SA [52;50;57;52;57;54;55;57;48;49]; SA [50]]; SL [SA [52;50;57;52;57;54;55;57;48;50]; SA [50]]]]; SA [110;111;110;101]; SA [54;51;54;56;55;50;51;50]; SL [SA [54;51;54;56;55;50;51;50]; SA [49;53;48;49]; SA [49;53;48;50]]; SL [SA [115;109;97;112]; SA [51]; SA [52;50;57;52;57;54;56;52;48;48]; SL [SL [SA [52;50;57;52;57;54;55;57;48;48]; SA [50]]; SL [SA [52;50;57;52;57;54;55;57;48;49]; SA [50]]; SL [SA [52;50;57;52;57;54;55;57;48;50]; SA [50]]; SL [SA [52;50;57;52;57;54;55;51;57;56]; SA [49]]; SL [SA [52;50;57;52;57;54;55;51;57;57]; SA [49]]]]; SL [SA [115;109;97;112]; SA [48]; SA [52;50;57;52;57;54;56;52;48;48]; SL []]].
Proof. vm_compute. reflexivity. Qed.

(* splithead: the first k pieces of a record with about 2^61 pieces (case kind added after the port) *)
Example rc_splithead : run_case (SL [SA [115;112;108;105;116;104;101;97;100]; SA [53]; SA [49;56;52;52;54;55;52;52;48;55;51;55;48;57;53;53;49;54;49;53]; SA [55]; SA [51]]) = SL [SA [114]; SL [SA [115;112]; SL [SA [53]; SA [49;50]]; SL [SA [49;50]; SA [49;57]]; SL [SA [49;57]; SA [50;54]]]; SL [SA [114;115;112]; SL [SA [49;56;52;52;54;55;52;52;48;55;51;55;48;57;53;53;49;54;48;56]; SA [49;56;52;52;54;55;52;52;48;55;51;55;48;57;53;53;49;54;49;53]]; SL [SA [49;56;52;52;54;55;52;52;48;55;51;55;48;57;53;53;49;54;48;49]; SA [49;56;52;52;54;55;52;52;48;55;51;55;48;57;53;53;49;54;48;56]]; SL [SA [49;56;52;52;54;55;52;52;48;55;51;55;48;57;53;53;49;53;57;52]; SA [49;56;52;52;54;55;52;52;48;55;51;55;48;57;53;53;49;54;48;49]]]].
Proof. vm_compute. reflexivity. Qed.

(* ListFacts.v — generic lemmas: partitioned lists and the two binary searches, stable insertion
   sort, insertion at a searched position, counting under permutation. *)
From BedV Require Import Base LapperModel.

Lemma idx_ok {A} (l : list A) i : (i < length l)%nat -> exists v, idx l i = Ok v /\ nth_error l i = Some v.
Proof.
  intros H. unfold idx. destruct (nth_error l i) eqn:E.
  - exists a. split; reflexivity.
  - apply nth_error_None in E. lia.
Qed.

(* l is p-partitioned at k: the first k elements satisfy p, the others do not *)
Definition part_at {A} (p : A -> bool) (l : list A) (k : nat) : Prop :=
  (k <= length l)%nat /\
  (forall i v, nth_error l i = Some v -> (i < k)%nat -> p v = true) /\
  (forall i v, nth_error l i = Some v -> (k <= i)%nat -> p v = false).

Lemma part_at_app {A} (p : A -> bool) l1 l2 :
  Forall (fun v => p v = true) l1 -> Forall (fun v => p v = false) l2 ->
  part_at p (l1 ++ l2) (length l1).
Proof.
  intros H1 H2. split; [rewrite app_length; lia|]. split; intros i v Hn Hi.
  - rewrite nth_error_app1 in Hn by lia. rewrite Forall_forall in H1. apply H1. eapply nth_error_In; eauto.
  - rewrite nth_error_app2 in Hn by lia. rewrite Forall_forall in H2. apply H2. eapply nth_error_In; eauto.
Qed.

Lemma In_firstn_In {A} (x : A) n l : In x (firstn n l) -> In x l.
Proof. intros H. rewrite <- (firstn_skipn n l). apply in_or_app. left. exact H. Qed.
Lemma In_skipn_In {A} (x : A) n l : In x (skipn n l) -> In x l.
Proof. intros H. rewrite <- (firstn_skipn n l). apply in_or_app. right. exact H. Qed.

Lemma div2_lt n : (0 < n)%nat -> (Nat.div2 n < n)%nat.
Proof. intros. apply Nat.lt_div2. assumption. Qed.

Lemma div2_bounds n : (2 * Nat.div2 n <= n <= 2 * Nat.div2 n + 1)%nat.
Proof.
  rewrite (Nat.div2_odd n) at 2 3. destruct (Nat.odd n); simpl Nat.b2n; lia.
Qed.

Lemma lb_loop_spec {A} (p : A -> bool) (l : list A) k :
  part_at p l k ->
  forall fuel size low, (size <= fuel)%nat -> (low <= k <= low + size)%nat -> (low + size <= length l)%nat ->
  lb_loop p l fuel size low = Ok k.
Proof.
  intros (Hk & Ht & Hf). induction fuel as [|f IH]; intros size low Hfu Hb Hl.
  - assert (size = 0)%nat by lia. subst. simpl. f_equal. lia.
  - cbn [lb_loop]. destruct (Nat.eqb size 0) eqn:E0.
    + apply Nat.eqb_eq in E0. f_equal. lia.
    + apply Nat.eqb_neq in E0.
      pose proof (div2_bounds size) as Hd.
      destruct (idx_ok l (low + Nat.div2 size)) as (v & Hv & Hn); [lia|].
      rewrite Hv. cbn [rbind].
      destruct (p v) eqn:Epv.
      * assert (low + Nat.div2 size < k)%nat.
        { destruct (Nat.lt_ge_cases (low + Nat.div2 size) k); [assumption|].
          rewrite (Hf _ _ Hn) in Epv by assumption. discriminate. }
        apply IH; lia.
      * assert (k <= low + Nat.div2 size)%nat.
        { destruct (Nat.lt_ge_cases (low + Nat.div2 size) k); [|assumption].
          rewrite (Ht _ _ Hn) in Epv by assumption. discriminate. }
        apply IH; lia.
Qed.

Lemma bs_loop_spec {A} (lt : A -> bool) (l : list A) k :
  part_at lt l k ->
  forall fuel low high, (high - low <= fuel)%nat -> (low < k <= high)%nat -> (high <= length l)%nat ->
  bs_loop lt l fuel low high = Ok k.
Proof.
  intros (Hk & Ht & Hf). induction fuel as [|f IH]; intros low high Hfu Hb Hl.
  - cbn [bs_loop]. destruct (Nat.leb (high - low) 1) eqn:E; [f_equal; apply Nat.leb_le in E; lia|].
    apply Nat.leb_gt in E. lia.
  - cbn [bs_loop]. destruct (Nat.leb (high - low) 1) eqn:E.
    + apply Nat.leb_le in E. f_equal. lia.
    + apply Nat.leb_gt in E.
      pose proof (div2_bounds (high + low)) as Hd.
      destruct (idx_ok l (Nat.div2 (high + low))) as (v & Hv & Hn); [lia|].
      rewrite Hv. cbn [rbind].
      destruct (lt v) eqn:Epv.
      * assert (Nat.div2 (high + low) < k)%nat.
        { destruct (Nat.lt_ge_cases (Nat.div2 (high + low)) k); [assumption|].
          rewrite (Hf _ _ Hn) in Epv by assumption. discriminate. }
        apply IH; lia.
      * assert (k <= Nat.div2 (high + low))%nat.
        { destruct (Nat.lt_ge_cases (Nat.div2 (high + low)) k); [|assumption].
          rewrite (Ht _ _ Hn) in Epv by assumption. discriminate. }
        apply IH; lia.
Qed.

(* bsearch with the repaired guard (guard = negb lt on the first element) *)
Lemma bsearch_gen_spec {A} (guard lt : A -> bool) (l : list A) k :
  (forall v, guard v = negb (lt v)) ->
  part_at lt l k -> bsearch_gen guard lt l = Ok k.
Proof.
  intros Hg Hp. pose proof Hp as (Hk & Ht & Hf). unfold bsearch_gen. destruct l as [|e0 t].
  - simpl in Hk. f_equal. lia.
  - rewrite Hg. destruct (lt e0) eqn:E; cbn [negb].
    + assert (0 < k)%nat.
      { destruct k; [|lia]. rewrite (Hf 0%nat e0) in E; [discriminate|reflexivity|lia]. }
      apply bs_loop_spec; [assumption|lia|lia|lia].
    + destruct k; [reflexivity|]. rewrite (Ht 0%nat e0) in E; [discriminate|reflexivity|lia].
Qed.

(* ---- sorted lists and partitions ---- *)
Section Ordered.
  Context {A : Type} (ltb : A -> A -> bool).
  Definition leR (x y : A) : Prop := ltb y x = false.
  Hypothesis asym : forall x y, ltb x y = true -> ltb y x = false.
  Hypothesis le_trans : forall x y z, leR x y -> leR y z -> leR x z.

  Lemma leR_refl x : leR x x.
  Proof. unfold leR. destruct (ltb x x) eqn:E; [|reflexivity]. pose proof (asym _ _ E). congruence. Qed.

  Lemma lt_le_trans x y z : ltb x y = true -> leR y z -> ltb x z = true.
  Proof.
    intros H1 H2. destruct (ltb x z) eqn:E; [reflexivity|].
    (* z <= x and y <= z gives y <= x, contradiction with x < y *)
    assert (leR y x) by (eapply le_trans; [exact H2|exact E]).
    unfold leR in H. congruence.
  Qed.

  Lemma le_lt_trans x y z : leR x y -> ltb y z = true -> ltb x z = true.
  Proof.
    intros H1 H2. destruct (ltb x z) eqn:E; [reflexivity|].
    assert (leR z y) by (eapply le_trans; [exact E|exact H1]).
    unfold leR in H. congruence.
  Qed.

  Lemma ins_perm x l : Permutation (ins ltb x l) (x :: l).
  Proof.
    induction l as [|y t IH]; cbn [ins]; [reflexivity|].
    destruct (ltb y x); [|reflexivity].
    rewrite IH. apply perm_swap.
  Qed.

  Lemma isort_perm l : Permutation (isort ltb l) l.
  Proof.
    induction l as [|x t IH]; cbn [isort fold_right]; [reflexivity|].
    fold (isort ltb t). rewrite ins_perm. constructor. exact IH.
  Qed.

  Lemma ins_sorted x l : StronglySorted leR l -> StronglySorted leR (ins ltb x l).
  Proof.
    induction 1 as [|y t Hs IH Hall]; cbn [ins].
    - constructor; constructor.
    - destruct (ltb y x) eqn:E.
      + constructor; [exact IH|].
        rewrite Forall_forall. intros z Hz.
        apply (Permutation_in _ (ins_perm x t)) in Hz. destruct Hz as [<-|Hz].
        * unfold leR. apply asym. exact E.
        * rewrite Forall_forall in Hall. auto.
      + constructor; [constructor; assumption|].
        constructor; [exact E|].
        rewrite Forall_forall in *. intros z Hz. eapply le_trans; [exact E|auto].
  Qed.

  Lemma isort_sorted l : StronglySorted leR (isort ltb l).
  Proof.
    induction l as [|x t IH]; cbn [isort fold_right]; [constructor|].
    apply ins_sorted. exact IH.
  Qed.

  (* a sorted list is partitioned by every "less than key" test *)
  Lemma sorted_part (key : A) l :
    StronglySorted leR l ->
    part_at (fun v => ltb v key) l (count_if (fun v => ltb v key) l).
  Proof.
    unfold count_if. induction 1 as [|y t Hs IH Hall]; cbn [filter length].
    - split; [simpl; lia|]. split; intros i v Hn; destruct i; discriminate.
    - destruct IH as (Hk & Ht & Hf). destruct (ltb y key) eqn:E; cbn [length].
      + split; [cbn [length]; lia|]. split; intros i v Hn Hi.
        * destruct i; [injection Hn as <-; exact E|]. simpl in Hn. eapply Ht; [exact Hn|lia].
        * destruct i; [lia|]. simpl in Hn. eapply Hf; [exact Hn|lia].
      + assert (Hz : filter (fun v => ltb v key) t = []).
        { clear - Hall E asym le_trans. induction t as [|z t IH]; [reflexivity|]. cbn [filter].
          inversion Hall as [|? ? Hyz Hall']; subst.
          destruct (ltb z key) eqn:Ez; [|auto].
          pose proof (le_lt_trans _ _ _ Hyz Ez). congruence. }
        rewrite Hz in *. cbn [length] in *. split; [lia|]. split; intros i v Hn Hi; [lia|].
        destruct i; [injection Hn as <-; exact E|]. simpl in Hn. eapply Hf; [exact Hn|lia].
  Qed.

  (* inserting [key] at the partition point keeps the list sorted *)
  Lemma insert_at_part_sorted (key : A) l :
    StronglySorted leR l ->
    StronglySorted leR (firstn (count_if (fun v => ltb v key) l) l ++ key :: skipn (count_if (fun v => ltb v key) l) l).
  Proof.
    unfold count_if. induction 1 as [|y t Hs IH Hall]; cbn [filter length firstn skipn app].
    - constructor; constructor.
    - destruct (ltb y key) eqn:E; cbn [length firstn skipn app].
      + constructor; [exact IH|].
        rewrite Forall_forall in *. intros z Hz. apply in_app_or in Hz. destruct Hz as [Hz|[<-|Hz]].
        * apply Hall. eapply (In_firstn_In); exact Hz.
        * unfold leR. apply asym. exact E.
        * apply Hall. eapply (In_skipn_In); exact Hz.
      + assert (Hz : filter (fun v => ltb v key) t = []).
        { clear - Hall E asym le_trans. induction t as [|z t IH]; [reflexivity|]. cbn [filter].
          inversion Hall as [|? ? Hyz Hall']; subst.
          destruct (ltb z key) eqn:Ez; [|auto].
          pose proof (le_lt_trans _ _ _ Hyz Ez). congruence. }
        rewrite Hz. cbn [length firstn skipn app].
        constructor; [constructor; assumption|].
        constructor; [exact E|].
        rewrite Forall_forall in *. intros z Hz'. eapply le_trans; [exact E|auto].
  Qed.
End Ordered.

Lemma count_if_perm {A} (p : A -> bool) l l' : Permutation l l' -> count_if p l = count_if p l'.
Proof.
  unfold count_if. induction 1; cbn [filter]; try lia.
  - destruct (p x); cbn [length]; lia.
  - destruct (p x), (p y); cbn [length]; lia.
Qed.

Lemma count_if_map {A B} (f : A -> B) (p : B -> bool) l : count_if p (map f l) = count_if (fun x => p (f x)) l.
Proof.
  unfold count_if. induction l as [|x t IH]; cbn [map filter]; [reflexivity|].
  destruct (p (f x)); cbn [length]; lia.
Qed.

Lemma count_if_le {A} (p : A -> bool) l : (count_if p l <= length l)%nat.
Proof. unfold count_if. induction l as [|x t IH]; cbn [filter length]; [lia|]. destruct (p x); cbn [length]; lia. Qed.

Lemma vec_insert_ok {A} i (x : A) l : (i <= length l)%nat -> vec_insert i x l = Ok (firstn i l ++ x :: skipn i l).
Proof. intros H. unfold vec_insert. apply Nat.leb_le in H. rewrite H. reflexivity. Qed.

Lemma insert_perm {A} i (x : A) l : Permutation (firstn i l ++ x :: skipn i l) (x :: l).
Proof.
  rewrite <- (firstn_skipn i l) at 3. symmetry. apply Permutation_middle.
Qed.

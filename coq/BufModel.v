(* BufModel.v — Gallina transliteration of the parts of std::io::{BufWriter, BufReader} (capacity 8192) that
   ExternalChunk::new puts between dump / ExternalChunk::next and the temp file when no compression is
   configured, over the abstract faulty storage of ExtSortModel.v.  With it the uncompressed production stack
   (dump -> BufWriter -> storage ; storage -> BufReader -> ExternalChunk::next) is inside the model. *)
From BedV Require Import Base AlgebraModel ExtSortModel.

Definition BUF_CAP : N := 8192.
Definition nlen (s : bytes) : N := N.of_nat (length s).

(* ---------------- BufWriter<W> ---------------- *)
Record bufw := mkBW { bw_buf : bytes; bw_inner : wstore }.
Definition bw_spare (w : bufw) : N := BUF_CAP - nlen (bw_buf w).
(* BufWriter::flush_buf: write the buffered bytes out; the part already written is drained from the buffer
   whatever the outcome (BufGuard) *)
Fixpoint bw_flush_buf (fuel : nat) (w : bufw) : bufw * option ioerr :=
  match bw_buf w with
  | [] => (w, None)
  | _ =>
    match fuel with
    | O => (w, Some EOther)
    | S f =>
      let (st', r) := sys_write (bw_inner w) (bw_buf w) in
      match r with
      | WOk O => (mkBW (bw_buf w) st', Some EWriteZero)
      | WOk n => bw_flush_buf f (mkBW (skipn n (bw_buf w)) st')
      | WFailIntr => bw_flush_buf f (mkBW (bw_buf w) st')
      | WFailHard => (mkBW (bw_buf w) st', Some EOther)
      end
    end
  end.
Definition bw_fuel (w : bufw) : nat := S (length (bw_buf w) + length (w_plan (bw_inner w))).
(* BufWriter::write_all (fast path + write_all_cold) *)
Definition bw_write_all (w : bufw) (data : bytes) : bufw * option ioerr :=
  if nlen data <? bw_spare w then (mkBW (bw_buf w ++ data) (bw_inner w), None)
  else
    let (w1, e1) := if bw_spare w <? nlen data then bw_flush_buf (bw_fuel w) w else (w, None) in
    match e1 with
    | Some e => (w1, Some e)
    | None =>
      if BUF_CAP <=? nlen data then
        let (st', e) := write_all (wa_fuel (bw_inner w1) data) (bw_inner w1) data in (mkBW (bw_buf w1) st', e)
      else (mkBW (bw_buf w1 ++ data) (bw_inner w1), None)
    end.
(* BufWriter::write (fast path + write_cold): returns the accepted count *)
Definition bw_write (w : bufw) (data : bytes) : bufw * (nat + ioerr) :=
  if nlen data <? bw_spare w then (mkBW (bw_buf w ++ data) (bw_inner w), inl (length data))
  else
    let (w1, e1) := if bw_spare w <? nlen data then bw_flush_buf (bw_fuel w) w else (w, None) in
    match e1 with
    | Some e => (w1, inr e)
    | None =>
      if BUF_CAP <=? nlen data then
        let (st', r) := sys_write (bw_inner w1) data in
        (mkBW (bw_buf w1) st', match r with WOk n => inl n | WFailHard => inr EOther | WFailIntr => inr EOther end)
      else (mkBW (bw_buf w1 ++ data) (bw_inner w1), inl (length data))
    end.
(* BufWriter::flush = flush_buf, then the inner flush (a no-op for the storage) *)
Definition bw_flush (w : bufw) : bufw * option ioerr := bw_flush_buf (bw_fuel w) w.
(* dump over a BufWriter, then flush: what ExternalChunk::new does without compression *)
Fixpoint dump_bw (w : bufw) (items : list bytes) : bufw * option ioerr :=
  match items with
  | [] => (w, None)
  | v :: t =>
    let p := ser_blob v in
    let (w1, e1) := bw_write_all w (le64 (N.of_nat (length p))) in
    match e1 with
    | Some e => (w1, Some e)
    | None => let (w2, e2) := bw_write_all w1 p in
              match e2 with Some e => (w2, Some e) | None => dump_bw w2 t end
    end
  end.
Definition dump_buffered (plan : list wop) (items : list bytes) : wstore * option ioerr :=
  let (w, e) := dump_bw (mkBW [] (mkW [] plan)) items in
  match e with
  | Some x => (bw_inner w, Some x)
  | None => let (w', e') := bw_flush w in (bw_inner w', e')
  end.
(* the code as found (payload through BufWriter::write, count ignored), for the refutation of finding F8 behind BufWriter *)
Fixpoint dump_bw_orig (w : bufw) (items : list bytes) : bufw * option ioerr :=
  match items with
  | [] => (w, None)
  | v :: t =>
    let p := ser_blob v in
    let (w1, e1) := bw_write_all w (le64 (N.of_nat (length p))) in
    match e1 with
    | Some e => (w1, Some e)
    | None => match p with
              | [] => dump_bw_orig w1 t          (* write(&[]) : nothing to do *)
              | _ => let (w2, r) := bw_write w1 p in
                     match r with inl _ => dump_bw_orig w2 t | inr e => (w2, Some e) end
              end
    end
  end.

(* ---------------- BufReader<R> ---------------- *)
Record bufr := mkBR { br_buf : bytes; br_inner : rstore }.     (* br_buf = the unread part of the internal buffer *)
(* BufReader::read(buf) with buf.len() = req > 0 *)
Definition br_read (r : bufr) (req : nat) : bufr * rres :=
  match br_buf r with
  | [] =>
    if BUF_CAP <=? N.of_nat req then let (st', x) := sys_read (br_inner r) req in (mkBR [] st', x)
    else
      let (st', x) := sys_read (br_inner r) (N.to_nat BUF_CAP) in
      match x with
      | ROk got => let n := Nat.min req (length got) in (mkBR (skipn n got) st', ROk (firstn n got))
      | e => (mkBR [] st', e)
      end
  | b => let n := Nat.min req (length b) in (mkBR (skipn n b) (br_inner r), ROk (firstn n b))
  end.
(* io::default_read_exact over BufReader::read *)
Fixpoint br_read_loop (fuel : nat) (r : bufr) (req : nat) (acc : bytes) : bufr * (bytes + ioerr) :=
  match req with
  | O => (r, inl acc)
  | _ =>
    match fuel with
    | O => (r, inr EOther)
    | S f =>
      let (r', x) := br_read r req in
      match x with
      | ROk [] => (r', inr EUnexpectedEof)
      | ROk got => br_read_loop f r' (req - length got) (acc ++ got)
      | RFailIntr => br_read_loop f r' req acc
      | RFailHard => (r', inr EOther)
      end
    end
  end.
(* BufReader::read_exact: served from the buffer when it holds enough, default loop otherwise *)
Definition br_read_exact (r : bufr) (req : nat) : bufr * (bytes + ioerr) :=
  if Nat.leb req (length (br_buf r)) then (mkBR (skipn req (br_buf r)) (br_inner r), inl (firstn req (br_buf r)))
  else br_read_loop (S (S (req + length (r_plan (br_inner r))))) r req [].
(* ExternalChunk::next over a BufReader *)
Definition chunk_next_br (r : bufr) : bufr * option citem :=
  let (r1, h) := br_read_exact r 8 in
  match h with
  | inr EUnexpectedEof => (r1, None)
  | inr _ => (r1, Some CIoErr)
  | inl hb =>
    let size := N.to_nat (le_val hb) in
    let (r2, p) := br_read_exact r1 size in
    match p with
    | inr _ => (r2, Some CIoErr)
    | inl pb => (r2, Some (match de_blob pb with Some v => CItem v | None => CDeErr end))
    end
  end.
Fixpoint chunk_all_br (fuel : nat) (r : bufr) : list citem :=
  match fuel with
  | O => []
  | S f => match chunk_next_br r with
           | (_, None) => []
           | (r', Some (CItem v)) => CItem v :: chunk_all_br f r'
           | (_, Some e) => [e]
           end
  end.
Definition chunk_read_buffered (data : bytes) (plan : list rop) : list citem :=
  chunk_all_br (S (length data)) (mkBR [] (mkR data plan)).

(* TmpProofs.v — C15 on the abstract resource model, and the meaning of the listing oracle tmp_ok. *)
From BedV Require Import Base AlgebraModel ExtSortModel TmpModel LapperModel LapperProofs LapperSpecs MergeProofs AlgebraProofs.

Lemma remove_name_not_in d l : ~ In d l -> remove_name d l = l.
Proof.
  unfold remove_name. induction l as [|x t IH]; intros H; cbn [filter]; [reflexivity|].
  destruct (bytes_eqb x d) eqn:E.
  - apply bytes_eqb_eq in E. subst. exfalso. apply H. left. reflexivity.
  - cbn [negb]. f_equal. apply IH. intros Hi. apply H. right. exact Hi.
Qed.
Lemma remove_name_head d l : ~ In d l -> remove_name d (d :: l) = l.
Proof.
  intros H. unfold remove_name. cbn [filter].
  assert (E : bytes_eqb d d = true) by (apply bytes_eqb_eq; reflexivity).
  rewrite E. cbn [negb]. apply remove_name_not_in. exact H.
Qed.

(* after Build d: as long as the sorter is alive the entries are d :: e0; once dropped they are e0 again *)
Definition TInv (e0 : list bytes) (d : bytes) (s : tstate) : Prop :=
  (t_dir s = Some d /\ t_entries s = d :: e0) \/ (t_dir s = None /\ t_entries s = e0).

Lemma tstep_inv e0 d s e : ~ In d e0 -> is_build e = false -> TInv e0 d s -> TInv e0 d (tstep s e).
Proof.
  intros Hd Hb [(H1 & H2)|(H1 & H2)]; destruct e as [d'| | | |]; cbn [tstep is_build] in *; try discriminate;
    try (left; split; assumption); try (right; split; assumption).
  - rewrite H1. right. cbn [t_dir t_entries]. split; [reflexivity|]. rewrite H2. apply remove_name_head. exact Hd.
  - rewrite H1. right. split; assumption.
Qed.

Lemma trun_inv e0 d script : ~ In d e0 -> forallb (fun e => negb (is_build e)) script = true ->
  forall s, TInv e0 d s -> TInv e0 d (trun s script) /\ Forall (TInv e0 d) (ttrace s script).
Proof.
  intros Hd. induction script as [|e t IH]; intros Hs s Hi; cbn [trun fold_left ttrace].
  - split; [exact Hi|constructor; [exact Hi|constructor]].
  - cbn [forallb] in Hs. apply andb_true_iff in Hs. destruct Hs as (He & Ht).
    apply negb_true_iff in He.
    destruct (IH Ht (tstep s e) (tstep_inv e0 d s e Hd He Hi)) as (H1 & H2).
    split; [exact H1|constructor; assumption].
Qed.

Lemma dropped_stays e0 d script : ~ In d e0 -> forallb (fun e => negb (is_build e)) script = true ->
  forall s, TInv e0 d s -> t_dir s = None -> t_dir (trun s script) = None.
Proof.
  intros Hd. induction script as [|e t IH]; intros Hs s Hi Hn; cbn [trun fold_left]; [exact Hn|].
  cbn [forallb] in Hs. apply andb_true_iff in Hs. destruct Hs as (He & Ht). apply negb_true_iff in He.
  apply (IH Ht); [apply tstep_inv; assumption|].
  destruct e; cbn [tstep is_build] in *; try discriminate; try exact Hn. rewrite Hn. exact Hn.
Qed.

(* every lifetime: Build d (d fresh), then any events without a second Build, in which the sorter is
   dropped at some point (normal return, error, or unwinding) *)
Theorem tmp_restored : forall e0 d script,
  ~ In d e0 -> forallb (fun e => negb (is_build e)) script = true -> In TDropSorter script ->
  t_entries (trun (mkT e0 None 0) (TBuild d :: script)) = e0.
Proof.
  intros e0 d script Hd Hs Hin. cbn [trun fold_left tstep t_entries t_dir t_open].
  assert (H0 : TInv e0 d (mkT (d :: e0) (Some d) 0)) by (left; split; reflexivity).
  apply in_split in Hin. destruct Hin as (l1 & l2 & ->).
  rewrite forallb_app in Hs. apply andb_true_iff in Hs. destruct Hs as (Hs1 & Hs2).
  cbn [forallb] in Hs2. apply andb_true_iff in Hs2. destruct Hs2 as (_ & Hs2).
  unfold trun. rewrite fold_left_app. cbn [fold_left].
  fold (trun (mkT (d :: e0) (Some d) 0) l1).
  destruct (trun_inv e0 d l1 Hd Hs1 _ H0) as (H1 & _).
  set (s1 := trun (mkT (d :: e0) (Some d) 0) l1) in *.
  assert (H2 : TInv e0 d (tstep s1 TDropSorter)) by (apply tstep_inv; [exact Hd|reflexivity|exact H1]).
  assert (Hn : t_dir (tstep s1 TDropSorter) = None).
  { cbn [tstep]. destruct H1 as [(Ha & _)|(Ha & _)]; rewrite Ha; [reflexivity|exact Ha]. }
  fold (trun (tstep s1 TDropSorter) l2).
  destruct (trun_inv e0 d l2 Hd Hs2 _ H2) as ([(Hc & _)|(_ & He)] & _).
  - rewrite (dropped_stays e0 d l2 Hd Hs2 _ H2 Hn) in Hc. discriminate.
  - exact He.
Qed.

(* while the sort is in progress everything it creates lives under its own directory d: the visible
   entries are the initial ones plus at most d, in every intermediate state *)
Theorem tmp_confined : forall e0 d script,
  ~ In d e0 -> forallb (fun e => negb (is_build e)) script = true ->
  Forall (fun s => t_entries s = d :: e0 \/ t_entries s = e0) (ttrace (mkT e0 None 0) (TBuild d :: script)).
Proof.
  intros e0 d script Hd Hs. cbn [ttrace tstep t_entries t_dir t_open].
  constructor; [right; reflexivity|].
  assert (H0 : TInv e0 d (mkT (d :: e0) (Some d) 0)) by (left; split; reflexivity).
  destruct (trun_inv e0 d script Hd Hs _ H0) as (_ & Ht).
  eapply Forall_impl; [|exact Ht]. intros s [(_ & H)|(_ & H)]; [left|right]; exact H.
Qed.

(* ---------- the listing oracle ---------- *)
Lemma str_in_iff x l : str_in x l = true <-> In x l.
Proof.
  unfold str_in. rewrite existsb_exists. split.
  - intros (y & Hy & E). apply bytes_eqb_eq in E. subst. exact Hy.
  - intros H. exists x. split; [exact H|apply bytes_eqb_eq; reflexivity].
Qed.
Lemma subset_b_iff a b : subset_b a b = true <-> incl a b.
Proof.
  unfold subset_b. rewrite forallb_forall. split; intros H x Hx; [apply str_in_iff|apply str_in_iff]; auto.
Qed.

Lemma strip_prefix_app p s t : strip_prefix p s = Some t -> s = p ++ t.
Proof.
  revert s. induction p as [|a p IH]; intros s H; cbn [strip_prefix] in H.
  - injection H as <-. reflexivity.
  - destruct s as [|b s']; [discriminate|]. destruct (N.eqb_spec a b) as [->|]; [|discriminate].
    cbn [app]. f_equal. apply IH. exact H.
Qed.
(* what an accepted observation means: the final listing has exactly the initial entries, and every snapshot taken in
   between contains all initial entries, and whatever else it contains lives under the configured directory *)
Theorem tmp_ok_spec : forall cfg before during after, tmp_ok cfg before during after = true ->
  (incl before after /\ incl after before) /\
  forall l, In l during -> incl before l /\
    forall x, In x l -> In x before \/ exists rest, x = cfg ++ [47] ++ rest.
Proof.
  intros cfg before during after H. unfold tmp_ok in H. apply andb_true_iff in H. destruct H as (Hd & Hs).
  split.
  - unfold same_set in Hs. apply andb_true_iff in Hs. destruct Hs as (H1 & H2).
    split; apply subset_b_iff; assumption.
  - intros l Hl. rewrite forallb_forall in Hd. specialize (Hd l Hl). unfold during_ok' in Hd.
    apply andb_true_iff in Hd. destruct Hd as (Hsub & Hnew). split; [apply subset_b_iff; exact Hsub|].
    intros x Hx. destruct (str_in x before) eqn:E; [left; apply str_in_iff; exact E|right].
    rewrite forallb_forall in Hnew.
    assert (Hin : In x (new_entries before l)).
    { unfold new_entries. apply filter_In. split; [exact Hx|]. rewrite E. reflexivity. }
    specialize (Hnew x Hin). unfold under_cfg in Hnew.
    destruct (strip_prefix (cfg ++ [47]) x) as [rest|] eqn:E2; [|discriminate].
    exists rest. apply strip_prefix_app in E2. rewrite E2, <- app_assoc. reflexivity.
Qed.

(* a direct child really is cfg/name with a non-empty name free of separators *)
Theorem direct_child_spec : forall cfg d, direct_child cfg d = true ->
  exists name, d = cfg ++ [47] ++ name /\ name <> [] /\ has_sep name = false.
Proof.
  intros cfg d H. unfold direct_child in H. destruct (strip_prefix (cfg ++ [47]) d) as [name|] eqn:E; [|discriminate].
  apply strip_prefix_app in E. apply andb_true_iff in H. destruct H as (H1 & H2).
  exists name. split; [rewrite E, <- app_assoc; reflexivity|]. split.
  - intros ->. discriminate.
  - apply negb_true_iff in H1. exact H1.
Qed.

(* every file held open at any snapshot lives under the configured directory *)
Theorem tmp_open_ok_spec : forall cfg opens, tmp_open_ok cfg opens = true ->
  forall l p, In l opens -> In p l -> exists rest, p = cfg ++ [47] ++ rest.
Proof.
  intros cfg opens H l p Hl Hp. unfold tmp_open_ok in H. rewrite forallb_forall in H. specialize (H l Hl).
  rewrite forallb_forall in H. specialize (H p Hp). unfold under_cfg in H.
  destruct (strip_prefix (cfg ++ [47]) p) as [rest|] eqn:E; [|discriminate].
  exists rest. apply strip_prefix_app in E. rewrite E, <- app_assoc. reflexivity.
Qed.

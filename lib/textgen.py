"""Generators for text cases (C03, C12, C04): records, standard-layout lines, malformed mutations, float tables."""
import struct, subprocess
import sx
import common

W64 = 18446744073709551615
TYPES = ['gr', 'bed3', 'bed4', 'bed5', 'bed6', 'np', 'bp', 'bgi', 'bgf']
NEG_ONE = 0xBFF0000000000000


def bits(x):
    return struct.unpack('<Q', struct.pack('<d', x))[0]


FLOATS = [bits(v) for v in (0.0, 1.0, 1.5, 0.1, 100.0, 5e-324, 2.2250738585072014e-308, 1e300, 1.7976931348623157e308,
                             float('inf'), 123456789.125, 1e-7, 1e21, 0.30000000000000004)] + [0x8000000000000000]
NEGFLOATS = [bits(v) for v in (-1.0, -0.5, -1e300, float('-inf'), -5e-324)]


def f32_widened(x):
    """the f64 that holds exactly the f32 nearest to x"""
    return bits(struct.unpack('<f', struct.pack('<f', x))[0])


# doubles that are exactly representable in single precision but whose shortest f32 text differs from their shortest f64
# text (0.1f32, f32::MAX, f32 subnormals), powers of two above 2^24 .. 2^63 and just beyond u64 (integers printed with 9..20
# digits), and the u64 / i64 / u32 boundaries as floats: anything that prints or parses floats through a narrower type,
# an integer fast path or a fixed number of digits goes wrong on some of these
FLOATS += [f32_widened(v) for v in (0.1, 5.0945, 3.4028234663852886e38, 1e-45, 1.17549435e-38, 16777217.0, 0.3, 1e10, 123456.789)]
FLOATS += [bits(float(2 ** k)) for k in (24, 27, 30, 31, 32, 33, 52, 53, 54, 62, 63, 64, 65, 66)]
FLOATS += [bits(v) for v in (2.0 ** 53 + 2, 9007199254740993.0, 18446744073709551615.0, 9223372036854775807.0, 4294967295.0, 4294967296.0,
                             3e19, 5e19, 7e19, 9e19, 9.999999999999999e19, 1e20, 1e22, 1e23, 4.35, 0.1 + 0.2, 1 / 3)]


def rand_float_bits(rng, allow_neg=True):
    r = rng.random()
    if r < 0.55:
        return rng.choice(FLOATS)
    if r < 0.7 and allow_neg:
        return rng.choice(NEGFLOATS)
    if r < 0.78:
        return f32_widened(struct.unpack('<f', struct.pack('<I', rng.getrandbits(31) % 0x7F800000))[0])     # a random finite non-negative f32, widened
    while True:
        b = rng.getrandbits(64)
        if not allow_neg:
            b &= 0x7FFFFFFFFFFFFFFF
        if (b & 0x7FF0000000000000) != 0x7FF0000000000000 or (b & 0x000FFFFFFFFFFFFF) == 0:   # no NaN
            return b


def float_tables(bitlist, tokens):
    """text of every float (Rust Display) and parse result of every token (f64::from_str), via std in the harness"""
    bitlist = sorted(set(bitlist))
    lines = ['s %d' % b for b in bitlist]
    p = subprocess.run([common.HARNESS, 'ftab'], input=('\n'.join(lines) + '\n').encode(), stdout=subprocess.PIPE, env=common.ENV)
    texts = p.stdout.decode().split('\n')[:len(bitlist)]
    ft = dict(zip(bitlist, texts))
    toks = sorted(set(tokens) | set(texts))
    lines = ['p %s' % t for t in toks]
    p = subprocess.run([common.HARNESS, 'ftab'], input=('\n'.join(lines) + '\n').encode(), stdout=subprocess.PIPE, env=common.ENV)
    res = p.stdout.decode().split('\n')[:len(toks)]
    pt = dict(zip(toks, res))
    return ft, pt


def ftab_sx(ft):
    return ['ftab'] + [[b, t] for b, t in sorted(ft.items())]


def ptab_sx(pt):
    return ['ptab'] + [[t, v] for t, v in sorted(pt.items())]


NAMES = [b'peak1', b'', b'a b', 'né'.encode(), b'..', b'+', b'-', b'0', b'x' * 40, b' lead', b'trail ', b'a:b-c',
         b'1,000', b'.5', b'. ', b'a;b', b'"q"', b'\\', b'#x', 'p字'.encode() * 30, b'n' * 300]
CHROMS = [b'chr1', b'chr10', b'', b'chrX_random', 'chré'.encode(), b'1', b'scaffold 7',
          b'ctg1,000', b'a,b', b',', b'chr1;2', b'chr_1.2', b'.', b'#chr', b'chr1 ', b'HLA-DRB1*15:01:01:01', b'HLA-DRB1*15:01:01:02',
          b'NW_017852933.1_unplaced_genomic_scaffold_0001', b'c' * 255 + b'a', 'é'.encode() * 33, b'1,000,000', b'0']


def rand_u64(rng):
    r = rng.random()
    if r < 0.5: return rng.randint(0, 2000)
    if r < 0.6: return 0
    if r < 0.7: return W64
    if r < 0.8: return W64 - rng.randint(0, 3)
    if r < 0.9: return 2**32 + rng.randint(-2, 2)
    return rng.getrandbits(64)


def rand_record(rng, t):
    """record as the S-expression field list of the case syntax (python values)"""
    chrom = rng.choice(CHROMS)
    if t == 'gr':
        chrom = rng.choice([c for c in CHROMS if b':' not in c and b'-' not in c])
    s, e = rand_u64(rng), rand_u64(rng)
    base = [sx.hexs(chrom), s, e]
    if t == 'gr' or t == 'bed3':
        return base if t == 'gr' else base + ['none', 'none', 'none']
    name = rng.choice(NAMES) if rng.random() < 0.7 else None
    score = rng.choice([0, 1, 999, 1000, rng.randint(0, 1000)]) if rng.random() < 0.7 else None
    strand = rng.choice(['+', '-']) if rng.random() < 0.7 else None
    f6 = [sx.hexs(name) if name is not None else 'none', score if score is not None else 'none', strand or 'none']
    if t == 'bed4': return base + [f6[0], 'none', 'none']
    if t == 'bed5': return base + [f6[0], f6[1], 'none']
    if t == 'bed6': return base + f6
    if t in ('np', 'bp'):
        sig = rand_float_bits(rng)
        p = rand_float_bits(rng, False) if rng.random() < 0.6 else None
        q = rand_float_bits(rng, False) if rng.random() < 0.6 else None
        r = base + f6 + [sig, p if p is not None else 'none', q if q is not None else 'none']
        return r + [rand_u64(rng)] if t == 'np' else r
    if t == 'bgi':
        return base + [rng.choice([0, 1, -1, 2**63 - 1, -2**63, rng.randint(-1000, 1000)])]
    if t == 'bgf':
        return base + [rand_float_bits(rng)]
    raise ValueError(t)


def record_floats(t, rec):
    if t in ('np', 'bp'):
        return [x for x in rec[6:9] if x != 'none'] + [NEG_ONE]
    if t == 'bgf':
        return [rec[3]]
    return []


def unhex(h):
    return b'' if h == '-' else bytes.fromhex(h)


def std_line(t, rec, ft):
    """the standard-layout text of a record, used only to BUILD input streams (never as an oracle)"""
    def o(x, f=str):
        return b'.' if x == 'none' else (f(x) if isinstance(f(x), bytes) else str(f(x)).encode())
    cols = [unhex(rec[0]), str(rec[1]).encode(), str(rec[2]).encode()]
    n = {'gr': 3, 'bed3': 3, 'bed4': 4, 'bed5': 5, 'bed6': 6, 'np': 6, 'bp': 6, 'bgi': 3, 'bgf': 3}[t]
    if n > 3: cols.append(b'.' if rec[3] == 'none' else unhex(rec[3]))
    if n > 4: cols.append(b'.' if rec[4] == 'none' else str(rec[4]).encode())
    if n > 5: cols.append(b'.' if rec[5] == 'none' else rec[5].encode())
    fl = lambda b: unhex(ft[b])
    if t in ('np', 'bp'):
        cols += [fl(rec[6]), fl(NEG_ONE if rec[7] == 'none' else rec[7]), fl(NEG_ONE if rec[8] == 'none' else rec[8])]
        if t == 'np': cols.append(str(rec[9]).encode())
    if t == 'bgi': cols.append(str(rec[3]).encode())
    if t == 'bgf': cols.append(fl(rec[3]))
    return b'\t'.join(cols)


BAD_NUM = [b'', b'abc', b'-5', b'1.5', b'18446744073709551616', b' 5', b'5 ', b'+5', b'05', b'1e3', b'1_0', '５'.encode(), b'0x10', b'-0', b'+', b'-',
           b'4294967296', b'4294967295', b'1001', b'99999999999999999999999', b'nan', b'inf', b'-inf', b'1.', b'.5', b'1e400', b'--1', b'+-1']
BAD_STRAND = [b'', b'*', b'+-', b'++', b'plus', b' ', b'.+']


# lexical-parse-integer 0.8.6 (pinned dependency) does not detect an overflow whose wrapped value has as many
# digits as the type maximum: 20-digit v >= 2^64 with v mod 2^64 >= 10^19 (u64), 10-digit v >= 2^32 with
# v mod 2^32 >= 10^9 (u32).  Known finding (KNOWN_FINDINGS); generated on purpose so that the class stays watched.
LEXICAL_CLASS = [b'28446744073709551616', b'36893488147419103230', b'65340232221128654848', b'+28446744073709551616', b'036893488147419103231']
LEXICAL_CLASS_U32 = [b'5294967296', b'9999999999', b'8589934591', b'+5294967296', b'05294967296', b'007777777777', b'+9999999999', b'+06000000001']


def in_lexical_class(tok):
    import re
    m = re.fullmatch(rb'\+?0*([1-9][0-9]*)', tok)
    if not m:
        return False
    d = m.group(1)
    v = int(d)
    if len(d) == 20 and v >= 2**64 and v % 2**64 >= 10**19:
        return True
    if len(d) == 10 and v >= 2**32 and v % 2**32 >= 10**9:
        return True
    return False


def line_in_lexical_class(line):
    for ch in (b':', b'-', b'\n', b'\r'):
        line = line.replace(ch, b'\t')
    return any(in_lexical_class(t) for t in line.split(b'\t'))


def long_bad(rng):
    """a long malformed column: 60..140 (sometimes ~4100) bytes of mixed 1/2/3/4-byte characters, so that any byte offset
    a parser might cut an error payload at (64, 128, 4096 ...) can fall inside a multi-byte character"""
    alph = ['a', '9', 'é', '字', '𝒳', ' ', '.']
    w = rng.choice([[1, 0, 0, 0, 0, 0, 0], [1, 0, 6, 0, 0, 0, 0], [0, 0, 0, 1, 0, 0, 0], [1, 1, 3, 3, 1, 0, 0], [1, 1, 1, 1, 1, 1, 1]])
    target = rng.choice([rng.randint(60, 70), rng.randint(60, 140), rng.randint(120, 135), rng.randint(250, 262), rng.randint(4090, 4104)])
    out = b''
    if rng.random() < 0.5:
        out = b'a' * rng.randint(0, 3)
    while len(out) < target:
        out += rng.choices(alph, weights=w)[0].encode()
    return out


def mutate(rng, line):
    """one malformed / unusual variant of a valid line"""
    cols = line.split(b'\t')
    r = rng.random()
    if rng.random() < 0.06:
        j = rng.randrange(len(cols))
        if rng.random() < 0.6:
            j = len(cols) - 1 - rng.randrange(min(4, len(cols)))          # the format's own columns are the last ones
        cols[j] = long_bad(rng)
        return b'\t'.join(cols)
    if rng.random() < 0.03:
        j = rng.randrange(len(cols))
        cols[j] = rng.choice(LEXICAL_CLASS_U32 if j == 4 else LEXICAL_CLASS)
        return b'\t'.join(cols)
    if rng.random() < 0.03:
        # hundreds of extra trailing columns (column counts around 256, 512, 1024: a narrow column counter wraps)
        extra = rng.choice([rng.randint(240, 270), rng.randint(500, 520), rng.randint(1015, 1030)]) - len(cols)
        return line + b'\t' + b'\t'.join(rng.choice([b'x', b'', b'1', b'.']) for _ in range(max(1, extra)))
    if r < 0.22:
        return b'\t'.join(cols[:rng.randint(0, len(cols))])                       # prefix of the columns
    if r < 0.62:
        j = rng.randrange(len(cols))
        cols[j] = rng.choice(BAD_STRAND if (j == 5 and rng.random() < 0.6) else BAD_NUM)
        return b'\t'.join(cols)
    if r < 0.72:
        return line + b'\t' + rng.choice([b'extra', b'', b'1\t2\t3', 'é'.encode()])   # extra trailing columns
    if r < 0.8:
        return rng.choice([b'', b'\t', b'\t\t', b'\t\t\t\t\t\t\t\t\t\t', b' ', 'é'.encode(), b'chr1', b'chr1\t', b'chr1:1-2', b'chr1-1-2'])
    if r < 0.9:
        j = rng.randrange(len(cols)); cols[j] = b''
        return b'\t'.join(cols)
    sep = rng.choice([b' ', b',', b'\t\t'])
    return sep.join(cols)

HOOK_COMMITS = ['a46b2dc60a65fd79169ab18c9f49da5d18b16b50']
NOTES = ('Every claimed check = (1) kernel-checked theorems about a Gallina model of the code, statements in coq/Props/<id>.v, '
         'axiom-free (Print Assumptions checked on every run); (2) a differential correspondence run of the extracted model '
         'against the real crate built from the current /repo tree. See DESIGN.md.')
NOT_CLAIMED = {}
CLAIMED = {
 'C16': dict(
   text='Theorem C16_count_equals_find: for every initial vector and every history of insert/merge_overlaps/set_cov over intervals with start<=stop and every query qs<qe, the model does not panic, find = filter overlap and count = its length (induction over the history, invariants of the two binary searches); C16_orig_refuted machine-checks finding F1 on the pre-repair search. The Rust is tied to the model by a differential run (u64 and u8 instances, endpoint-coincidence generators, corpus of the F1 inputs).',
   note='Trusted: Coq kernel, extraction (ExtrOcamlBasic), the S-expression glue in OCaml/Rust/Python, the generators. The theorems are about the model; the code is covered only where the correspondence samples it. No axioms.'),
 'C17': dict(
   text='Theorems C17_seek_equals_find / C17_seek_step: for every reachable Lapper state and every query sequence with non-decreasing starts through one cursor from 0, every seek equals filter-overlap (= find) and no slice index is out of range (indices are modelled with Panic); insert-only histories are covered for arbitrary intervals. Differential run against the real seek with repeated, jumping and past-the-end queries.',
   note='Trusted: as C16. Cursor values themselves are not compared (unspecified by the property).'),
 'C18': dict(
   text='Theorems C18_merge_canonical (for every history over non-empty intervals, merge_overlaps yields a strictly separated ascending list covering exactly the same positions; merging again changes nothing; the state invariant is kept), C18_canonical_unique (such a cover is unique) and C18_after_merge (after the merge and any continuation of inserts/merges, find = filter overlap, count = its length, cov = cardinality of the covered set). Differential run compares the merged (start,stop) list, a second merge, and find/count/seek/cov before and after further inserts.',
   note='Trusted: as C16. The payload `val` of merged intervals is not compared (unspecified).'),
 'C19': dict(
   text='Theorems C19_cov_card (cov(), cached or recomputed, is the cardinality of the covered position set in every reachable state), C19_union_intersect(_reachable) (both branches of union_and_intersect return the cardinalities of union and intersection, under the guard cov A + cov B <= type maximum) and C19_symmetric. CardOf is witnessed by a duplicate-free enumeration of positions. Differential run over pairs of sets x merged/unmerged x histories of set_cov/insert/merge, both argument orders.',
   note='Trusted: as C16. Guard: cov A + cov B must be representable in the coordinate type (the raw addition in the code panics/wraps otherwise; the model says Panic there and the harness observes the same).'),
 'C20': dict(
   text='Theorems C20_depth_rle (for every reachable Lapper over non-empty intervals bounded by the type maximum W, depth() does not panic, needs no look-ahead past W, and its output is a DepthRLE: non-empty runs with positive depth equal to the pointwise depth, ascending, adjacent runs differ, runs tile exactly the covered positions), C20_empty, C20_unique (the encoding is unique) and C20_depth_step_counts. Differential run on u64 and u8 instances incl. stop = u8::MAX and the empty set (findings F2a/F2b, fixed).',
   note='Trusted: as C16. More than W overlapping intervals at one position (I::from(depth).unwrap()) is outside the model.'),
}

HOOK_COMMITS = ['a46b2dc60a65fd79169ab18c9f49da5d18b16b50']
NOTES = ('Every claimed check = (1) kernel-checked theorems about a Gallina model of the code, statements in coq/Props/<id>.v, '
         'axiom-free (Print Assumptions checked on every run); (2) a differential correspondence run of the extracted model '
         'against the real crate built from the current /repo tree. See DESIGN.md.')
NOT_CLAIMED = {}
CLAIMED = {
 'C16': dict(
   text='Theorem C16_count_equals_find: for every initial vector and every history of insert/merge_overlaps/set_cov over intervals with start<=stop and every query qs<qe, the model does not panic, find = filter overlap and count = its length (induction over the history, invariants of the two binary searches); C16_orig_refuted machine-checks finding F1 on the pre-repair search. The Rust is tied to the model by a differential run (u64 and u8 instances, endpoint-coincidence generators, corpus of the F1 inputs).',
   note='Trusted: Coq kernel, extraction (ExtrOcamlBasic), the S-expression glue in OCaml/Rust/Python, the generators. The theorems are about the model; the code is covered only where the correspondence samples it. No axioms.'),
 'C17': dict(
   text='Theorems C17_seek_equals_find / C17_seek_step: for every reachable Lapper state and every query sequence with non-decreasing starts through one cursor from 0, every seek equals filter-overlap (= find) and no slice index is out of range (indices are modelled with Panic); insert-only histories are covered for arbitrary intervals. Differential run against the real seek with repeated, jumping and past-the-end queries.',
   note='Trusted: as C16. Cursor values themselves are not compared (unspecified by the property).'),
}

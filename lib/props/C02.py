"""C02: GIntervalMap lookup returns exactly the overlapping records, for every build history."""
import lapgen as G
import recgen as R
import sx
from common import Case

ID = 'C02'
RULE = ('gmap cases: record multisets with distinct ids as values (duplicates, nested, book-ended, zero-length, one long '
        'region among short ones, wide u64 coordinates, chromosome names that are prefixes of each other), built by '
        'collect, by new()+insert*, or collect then inserts of a shuffled remainder; then find / is_overlapped for '
        'non-empty queries drawn from stored endpoints +-1 on stored and absent chromosomes, len() and iter(); '
        'non-trivial = >= 2 chromosomes or a long record, and at least one hit; distinct by case text')
UNIQUE_NOTE = 'gmap_find: the multiset of hits is determined by the stored multiset and the query'
EXHAUSTIVE = {}


def recs_sx(regs, first=0):
    return [[R.h(c), s, e, first + i] for i, (c, s, e) in enumerate(regs)]


def gen(rng, tier):
    n = 1500 if tier == 'quick' else 40000
    for _ in range(n):
        mode = rng.choice(['small', 'small', 'small', 'small', 'wide', 'medium', 'dense'])
        regs = R.rand_regions(rng, mode, rng.choice([0, 1, 2, 3, 5, 8, 12]), rng.choice(['le', 'le', 'ne', 'any']), rng.choice([1, 2, 3]))
        split = rng.choice([0, len(regs), rng.randint(0, len(regs))])
        first, rest = regs[:split], regs[split:]
        rng.shuffle(rest)
        ops = []
        stored = list(first)
        nid = len(first)
        qn = rng.randint(3, 10)
        hits = 0
        pending = list(rest)
        while pending or qn > 0:
            if pending and (qn == 0 or rng.random() < 0.5):
                c, s, e = pending.pop()
                ops.append(['ins', R.h(c), s, e, nid]); nid += 1; stored.append((c, s, e))
            else:
                qn -= 1
                q = R.rand_query(rng, stored, mode)
                hits += sum(1 for r in stored if R.hit(q, r))
                ops.append(['find', R.h(q[0]), q[1], q[2]])
                ops.append(['isov', R.h(q[0]), q[1], q[2]])
        ops += [['len'], ['iter']]
        nchr = len(set(c for c, _, _ in stored))
        nt = hits > 0 and (nchr >= 2 or any(e - s > 6 for _, s, e in stored))
        yield Case(sx.dump(['gmap', ['recs'] + recs_sx(first), ['ops'] + ops]), nt, mode)
    if tier == 'thorough':
        # small-scope exhaustive: multisets of <= 2 intervals over 0..3 on one chromosome x split x all queries
        c = R.h(b'chr1')
        for ivs in G.small_multisets(2, 3, 'any'):
            for split in range(len(ivs) + 1):
                ops = [['ins', c, s, e, 10 + i] for i, (s, e) in enumerate(ivs[split:])]
                for a in range(0, 4):
                    for b in range(a + 1, 5):
                        ops.append(['find', c, a, b]); ops.append(['isov', c, a, b])
                ops += [['len'], ['iter']]
                yield Case(sx.dump(['gmap', ['recs'] + [[c, s, e, i] for i, (s, e) in enumerate(ivs[:split])], ['ops'] + ops]), bool(ivs), 'exhaustive')


def skey(t):
    """sort key: numbers zero-padded so that textual order = numeric order; nested lists handled"""
    if isinstance(t, list):
        return [skey(x) for x in t]
    if t.isdigit():
        return '%030d' % int(t)
    return t


def canon(case, out):
    try:
        o = sx.parse(out)
    except Exception:
        return out
    if not isinstance(o, list):
        return out
    res = []
    for x in o:
        if isinstance(x, list) and x and x[0] == 'h':
            res.append(['h'] + sorted(x[1:], key=lambda t: sx.dump(skey(t))))
        else:
            res.append(x)
    return res


def classify(case, impl, model):
    return 'mismatch'


def explain(case, impl, model):
    return 'find / is_overlapped / len / iter differs from the proved model (filter of the stored multiset)'

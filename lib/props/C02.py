"""C02: GIntervalMap lookup returns exactly the overlapping records, for every build history."""
import lapgen as G
import recgen as R
import sx
from common import Case

ID = 'C02'
RULE = ('gmap cases: record multisets with distinct ids as values (duplicates, nested, book-ended, zero-length, one long '
        'region among short ones, wide u64 coordinates, chromosome names that are prefixes of each other), built by '
        'collect, by new()+insert*, or collect then inserts of a shuffled remainder; then find / is_overlapped for '
        'non-empty queries drawn from stored endpoints +-1 on stored and absent chromosomes, len() and iter(); '
        'non-trivial = >= 2 chromosomes or a long record, and at least one hit; distinct by case text')
UNIQUE_NOTE = 'gmap_find: the multiset of hits is determined by the stored multiset and the query'
EXHAUSTIVE = {}


def recs_sx(regs, first=0):
    return [[R.h(c), s, e, first + i] for i, (c, s, e) in enumerate(regs)]


def gen(rng, tier):
    n = 1500 if tier == 'quick' else 40000
    for _ in range(n):
        mode = rng.choice(['small', 'small', 'small', 'small', 'wide', 'medium', 'dense'])
        regs = R.rand_regions(rng, mode, rng.choice([0, 1, 2, 3, 5, 8, 12]), rng.choice(['le', 'le', 'ne', 'any']), rng.choice([1, 2, 3]))
        split = rng.choice([0, len(regs), rng.randint(0, len(regs))])
        first, rest = regs[:split], regs[split:]
        rng.shuffle(rest)
        ops = []
        stored = list(first)
        nid = len(first)
        qn = rng.randint(3, 10)
        hits = 0
        pending = list(rest)
        while pending or qn > 0:
            if pending and (qn == 0 or rng.random() < 0.5):
                c, s, e = pending.pop()
                ops.append(['ins', R.h(c), s, e, nid]); nid += 1; stored.append((c, s, e))
            else:
                qn -= 1
                q = R.rand_query(rng, stored, mode)
                hits += sum(1 for r in stored if R.hit(q, r))
                ops.append(['find', R.h(q[0]), q[1], q[2]])
                ops.append(['isov', R.h(q[0]), q[1], q[2]])
        ops += [['len'], ['iter']]
        nchr = len(set(c for c, _, _ in stored))
        nt = hits > 0 and (nchr >= 2 or any(e - s > 6 for _, s, e in stored))
        yield Case(sx.dump(['gmap', ['recs'] + recs_sx(first), ['ops'] + ops]), nt, mode)
    # 130..400 records on one chromosome (past any per-block summary of 64 / 128 / 256 entries), a few LONG records placed
    # just before / after multiples of 64 in sorted position, collected in bulk, then inserts that shift every later
    # element by one (a new first record, duplicates of the first, a record in the middle), then queries into the far
    # tails of the long records and across the block boundaries; no re-collection in between
    for k in range(10 if tier == 'quick' else 150):
        m = rng.choice([130, 193, 257, 300, 400])
        step = 10
        base = [(b'chr1', 10 + i * step, 10 + i * step + rng.randint(1, 8)) for i in range(m)]
        longs = [j for j in (62, 63, 64, 127, 128, 191, 255, 256) if j < m]
        for j in rng.sample(longs, min(len(longs), rng.randint(1, 3))):
            base[j] = (b'chr1', base[j][1], base[j][1] + rng.choice([700, 1500, 5000]))
        first = list(base)
        if k % 3 == 0:
            rng.shuffle(first)
        ops = []
        nid = len(first)
        stored = list(first)
        def ins(r):
            nonlocal nid
            ops.append(['ins', R.h(r[0]), r[1], r[2], nid]); nid += 1; stored.append(r)
        def ask(a0, b0):
            ops.append(['find', R.h(b'chr1'), a0, b0]); ops.append(['isov', R.h(b'chr1'), a0, b0])
        for rnd in range(rng.randint(1, 3)):
            ins((b'chr1', rng.randint(0, 9), rng.randint(10, 12)))            # a new first record: everything shifts
            if rng.random() < 0.5:
                ins((b'chr2', 5, 9))
            if rng.random() < 0.5:
                j = rng.randrange(m); ins((b'chr1', base[j][1] + 1, base[j][1] + 2))
            for (c, s_, e_) in [r for r in stored if r[2] - r[1] > 100]:
                t0 = rng.randint(s_ + 100, e_ - 1); ask(t0, t0 + 1)
                ask(e_ - 1, e_); ask(e_, e_ + 3)
            for j in (63, 64, 127, 128, 255, 256):
                if j < m:
                    ask(base[j][1] - 2, base[j][1] + 2)
        ops += [['len']]
        yield Case(sx.dump(['gmap', ['recs'] + recs_sx(first), ['ops'] + ops]), True, 'many-records')
    if tier == 'thorough':
        # small-scope exhaustive: multisets of <= 2 intervals over 0..3 on one chromosome x split x all queries
        c = R.h(b'chr1')
        for ivs in G.small_multisets(2, 3, 'any'):
            for split in range(len(ivs) + 1):
                ops = [['ins', c, s, e, 10 + i] for i, (s, e) in enumerate(ivs[split:])]
                for a in range(0, 4):
                    for b in range(a + 1, 5):
                        ops.append(['find', c, a, b]); ops.append(['isov', c, a, b])
                ops += [['len'], ['iter']]
                yield Case(sx.dump(['gmap', ['recs'] + [[c, s, e, i] for i, (s, e) in enumerate(ivs[:split])], ['ops'] + ops]), bool(ivs), 'exhaustive')


def skey(t):
    """sort key: numbers zero-padded so that textual order = numeric order; nested lists handled"""
    if isinstance(t, list):
        return [skey(x) for x in t]
    if t.isdigit():
        return '%030d' % int(t)
    return t


def canon(case, out):
    try:
        o = sx.parse(out)
    except Exception:
        return out
    if not isinstance(o, list):
        return out
    res = []
    for x in o:
        if isinstance(x, list) and x and x[0] == 'h':
            res.append(['h'] + sorted(x[1:], key=lambda t: sx.dump(skey(t))))
        else:
            res.append(x)
    return res


def classify(case, impl, model):
    return 'mismatch'


def explain(case, impl, model):
    return 'find / is_overlapped / len / iter differs from the proved model (filter of the stored multiset)'

"""C10: the k-way merge is ordered and complete, or it reports an error."""
import sx
from common import Case

ID = 'C10'
RULE = ('kmerge cases: 0..6 chunk streams of length 0..8, keys 0..4 with distinct payload ids, individually sorted under '
        'the natural or the reversed comparator, error items planted at first / middle / last position of one or several '
        'chunks or nowhere; BinaryHeapMerger (hook), built with an exact, too small or too large item-count hint (which only len() may reflect), is called total+3 times (so past its end); the call sequence is '
        'compared with the model after canonicalising the order inside runs of equal keys; a sequence that still differs is '
        'judged by the extracted merge_oracle (ordered prefix, completeness, error delivered); non-trivial = >= 2 non-empty '
        'chunks and a cross-chunk tie or an error item; distinct by case text')
UNIQUE_NOTE = 'merge_sorted / merge_err_delivered; merge_oracle for tie-order differences'
EXHAUSTIVE = {}


def gen_special(rng, tier):
    # more chunk streams than a 16-bit index can address; only a handful are non-empty
    for _ in range(1 if tier == 'quick' else 6):
        k = rng.choice([65600, 70000])
        chunks = [[] for _i in range(k)]
        nid = 0
        for pos in [3, 65535, 65536, 65540, k - 1, rng.randrange(k)]:
            ks = sorted(rng.randint(0, 9) for _i in range(rng.choice([1, 3, 4])))
            chunks[pos] = [['ok', kk, 500 + nid + i] for i, kk in enumerate(ks)]; nid += 10
        total = sum(len(c) for c in chunks)
        yield Case(sx.dump(['kmerge', 0, ['chunks'] + chunks, total + 3, 'exact']), True, 'wide-fan-in')
    # medium fan-in (17..130 chunk streams) drained in two or three WAVES: a group of short chunks runs dry first, then a
    # group of medium ones, while a few long ones go on; chunk positions of the groups interleaved (bookkeeping that
    # releases or renumbers exhausted chunks is exercised twice)
    for k_ in range(12 if tier == 'quick' else 200):
        k = rng.choice([17, 33, 48, 64, 65, 100, 130])
        rev = rng.choice([0, 0, 1])
        chunks = []
        nid = 0
        for ci in range(k):
            grp = (ci * 7 + k_) % 3
            m = rng.randint(1, 3) if grp == 0 else (rng.randint(8, 14) if grp == 1 else rng.randint(25, 40))
            lo = 0 if grp == 0 else (0 if rng.random() < 0.5 else 20)
            ks = sorted((rng.randint(lo, lo + (5 if grp == 0 else 60)) for _i in range(m)), reverse=bool(rev))
            chunks.append([['ok', kk, 10000 + nid + i] for i, kk in enumerate(ks)]); nid += m
        if k_ % 4 == 3:
            c = rng.choice(chunks); c.insert(rng.randint(0, len(c)), ['err', 3])
        total = sum(len(c) for c in chunks)
        yield Case(sx.dump(['kmerge', rev, ['chunks'] + chunks, total + 3, 'exact']), True, 'waves')
    # chunk streams far longer than any read-ahead block (16385 .. 40000 items), clean and with an error item exactly at and
    # around positions 16384 / 32768
    for k_ in range(3 if tier == 'quick' else 16):
        L = rng.choice([16385, 16390, 32769, 40000])
        long_ = [['ok', i // 3, 200000 + i] for i in range(L)]
        if k_ % 3 == 1:
            long_.insert(rng.choice([16383, 16384, 16385, 32768]), ['err', 5])
        chunks = [[['ok', 7, 1], ['ok', 9000, 2]], long_, []]
        yield Case(sx.dump(['kmerge', 0, ['chunks'] + chunks, len(long_) + 5, 'exact']), True, 'long-chunk')
    # one chunk supplies a long streak of consecutive outputs, then holds an error: at every position of the streak
    for L in ([9, 12] if tier == 'quick' else [8, 9, 12, 20, 40]):
        for pos in range(L + 1):
            for rev in (0, 1):
                run = [['ok', (1 if not rev else 9), 100 + i] for i in range(L)]
                run.insert(pos, ['err', 7])
                other = [['ok', 5, 300], ['ok', 5, 301]]
                chunks = [other, run, [['ok', 5, 302]]]
                yield Case(sx.dump(['kmerge', rev, ['chunks'] + chunks, L + 6, 'exact']), True, 'streak-then-error')


def gen(rng, tier):
    yield from gen_special(rng, tier)
    n = 3000 if tier == 'quick' else 60000
    nid = 0
    for _ in range(n):
        rev = rng.choice([0, 0, 1])
        k = rng.choice([0, 1, 2, 2, 3, 4, 6])
        chunks = []
        keys_seen = []
        for _c in range(k):
            m = rng.choice([0, 1, 2, 3, 5, 8])
            ks = sorted((rng.randint(0, 4) for _i in range(m)), reverse=bool(rev))
            items = []
            for kk in ks:
                nid += 1
                items.append(['ok', kk, nid % 100000])
            chunks.append(items)
            keys_seen.append(set(ks))
        err = False
        r = rng.random()
        if r < 0.45 and chunks:
            for _e in range(rng.choice([1, 1, 2])):
                c = rng.choice(chunks)
                pos = rng.choice([0, len(c) // 2, len(c)])
                c.insert(pos, ['err', rng.randint(1, 9)])
                err = True
        nonempty = [c for c in chunks if c]
        tie = any(keys_seen[i] & keys_seen[j] for i in range(len(keys_seen)) for j in range(i + 1, len(keys_seen)))
        total = sum(len(c) for c in chunks)
        hint = rng.choice(['exact', 'exact', 'exact', 0, max(0, total - 1), total // 2, total + 5])
        yield Case(sx.dump(['kmerge', rev, ['chunks'] + chunks, total + 3, hint]), len(nonempty) >= 2 and (tie or err), 'err' if err else 'clean')


def canon(case, out):
    """sort ids inside maximal runs of consecutive ok items with equal key"""
    try:
        o = sx.parse(out)
    except Exception:
        return out
    res = []
    for x in o:
        if isinstance(x, list) and x and x[0] == 'calls':
            calls = x[1:]
            outc = []
            i = 0
            while i < len(calls):
                if isinstance(calls[i], list) and calls[i][0] == 'ok':
                    j = i
                    while j < len(calls) and isinstance(calls[j], list) and calls[j][0] == 'ok' and calls[j][1] == calls[i][1]:
                        j += 1
                    outc += sorted(calls[i:j], key=lambda t: int(t[2]))
                    i = j
                else:
                    outc.append(calls[i]); i += 1
            res.append(['calls'] + outc)
        else:
            res.append(x)
    return res


def oracle_line(case, impl, model, bad):
    if not bad:
        return None
    c = sx.parse(case)
    try:
        o = sx.parse(impl)
        calls = [x for x in o if isinstance(x, list) and x[0] == 'calls'][0][1:]
    except Exception:
        return None
    if 'ORACLE-FAIL' in impl or 'panic' in impl:
        return None
    outs = []
    for x in calls:
        if x == 'none':
            break
        outs.append(x)
    # "then ends and stays ended" when no error was ever yielded
    if not any(isinstance(x, list) and x[0] == 'err' for x in calls):
        k = len(outs)
        if any(x != 'none' for x in calls[k:]):
            return None
    return sx.dump(['kmergechk', c[1], c[2], ['outs'] + outs])


def classify(case, impl, model):
    return 'mismatch'


def explain(case, impl, model):
    return 'merged stream is out of order, incomplete without an error, or an error item was swallowed'

"""C07: merge_sorted_bed(_with) groups exactly the connected runs."""
import recgen as R
import lapgen as G
import sx
from common import Case
from C05 import canon

ID = 'C07'
RULE = ('merge cases: record streams sorted by (chromosome, start, end) over 1-3 chromosomes whose coordinate ranges '
        'interleave, with duplicates, nested records ending below the running end, book-ended records, 1-base gaps and '
        'zero-length records, chromosome names sharing a 16/32/64/255-byte prefix, and a few connected runs of 1000-4200 '
        'records; the groups handed to the merge closure (record ids, in order) and the merged ranges are '
        'compared; non-trivial = a chromosome change inside the stream and a nested record; distinct by case text')
UNIQUE_NOTE = 'merge_groups_spec + groups_unique: the partition into maximal chained groups is unique'
EXHAUSTIVE = {}


def sorted_stream(rng, mode, n, kind='le'):
    regs = R.rand_regions(rng, mode, n, kind, rng.choice([1, 2, 3]))
    if regs and rng.random() < 0.4:
        regs.append(rng.choice(regs))
    regs.sort()
    return regs


def nontrivial(regs):
    chg = len(set(c for c, _, _ in regs)) >= 2
    nested = any(i < j and regs[i][0] == regs[j][0] and regs[j][2] < regs[i][2] for i in range(len(regs)) for j in range(i + 1, len(regs)))
    return chg and nested


def gen(rng, tier):
    n = 2500 if tier == 'quick' else 50000
    for _ in range(n):
        mode = rng.choice(['small', 'small', 'small', 'wide', 'medium'])
        regs = sorted_stream(rng, mode, rng.choice([0, 1, 2, 3, 5, 8, 12]))
        yield Case(sx.dump(['merge', ['recs'] + [[R.h(c), s, e, i] for i, (c, s, e) in enumerate(regs)]]), nontrivial(regs), mode)
    # connected runs far larger than any internal batch threshold, then a book-ended record, a 1-base gap, a new chromosome
    for k in range(6 if tier == 'quick' else 40):
        N = rng.choice([1023, 1024, 1025, 2048, 2049, 4096, 4100, rng.randint(1000, 4200)])
        c = rng.choice([b'chr1', b'chr2'])
        if k % 3 == 0:
            recs = [(c, 0, 10)] * N
        else:
            recs = sorted((c, s0, s0 + rng.randint(0, 9)) for s0 in (rng.randint(0, N // 4) for _ in range(N)))
        # make it one connected run: each record starts at or before the running end
        run, end = [], None
        for (cc, s0, e0) in recs:
            if end is not None and s0 > end:
                s0 = end
                e0 = max(e0, s0)
            run.append((cc, s0, e0)); end = e0 if end is None else max(end, e0)
        run.sort()
        tail = [(c, end, end + 3), (c, end + 4, end + 4), (c, end + 4, end + 9), (b'chr3', 0, 1)]
        allr = run + tail
        yield Case(sx.dump(['merge', ['recs'] + [[R.h(ch), s_, e_, i] for i, (ch, s_, e_) in enumerate(allr)]]), True, 'big-run')
    if tier == 'thorough':
        import itertools
        c1, c2 = R.h(b'chr1'), R.h(b'chr2')
        uni = [(c, s, e) for c in (b'chr1', b'chr2') for s in range(4) for e in range(s, 4)]
        for k in range(0, 4):
            for comb in itertools.combinations_with_replacement(sorted(uni), k):
                yield Case(sx.dump(['merge', ['recs'] + [[R.h(c), s, e, i] for i, (c, s, e) in enumerate(comb)]]), nontrivial(list(comb)), 'exhaustive')


def classify(case, impl, model):
    return 'mismatch'


def explain(case, impl, model):
    return 'groups / merged ranges differ from the unique maximal chained partition computed by the proved model'

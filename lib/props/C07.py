"""C07: merge_sorted_bed(_with) groups exactly the connected runs."""
import recgen as R
import lapgen as G
import sx
from common import Case
from C05 import canon

ID = 'C07'
RULE = ('merge cases: record streams sorted by (chromosome, start, end) over 1-3 chromosomes whose coordinate ranges '
        'interleave, with duplicates, nested records ending below the running end, book-ended records, 1-base gaps and '
        'zero-length records; the groups handed to the merge closure (record ids, in order) and the merged ranges are '
        'compared; non-trivial = a chromosome change inside the stream and a nested record; distinct by case text')
UNIQUE_NOTE = 'merge_groups_spec + groups_unique: the partition into maximal chained groups is unique'
EXHAUSTIVE = {}


def sorted_stream(rng, mode, n, kind='le'):
    regs = R.rand_regions(rng, mode, n, kind, rng.choice([1, 2, 3]))
    if regs and rng.random() < 0.4:
        regs.append(rng.choice(regs))
    regs.sort()
    return regs


def nontrivial(regs):
    chg = len(set(c for c, _, _ in regs)) >= 2
    nested = any(i < j and regs[i][0] == regs[j][0] and regs[j][2] < regs[i][2] for i in range(len(regs)) for j in range(i + 1, len(regs)))
    return chg and nested


def gen(rng, tier):
    n = 2500 if tier == 'quick' else 50000
    for _ in range(n):
        mode = rng.choice(['small', 'small', 'small', 'wide', 'medium'])
        regs = sorted_stream(rng, mode, rng.choice([0, 1, 2, 3, 5, 8, 12]))
        yield Case(sx.dump(['merge', ['recs'] + [[R.h(c), s, e, i] for i, (c, s, e) in enumerate(regs)]]), nontrivial(regs), mode)
    if tier == 'thorough':
        import itertools
        c1, c2 = R.h(b'chr1'), R.h(b'chr2')
        uni = [(c, s, e) for c in (b'chr1', b'chr2') for s in range(4) for e in range(s, 4)]
        for k in range(0, 4):
            for comb in itertools.combinations_with_replacement(sorted(uni), k):
                yield Case(sx.dump(['merge', ['recs'] + [[R.h(c), s, e, i] for i, (c, s, e) in enumerate(comb)]]), nontrivial(list(comb)), 'exhaustive')


def classify(case, impl, model):
    return 'mismatch'


def explain(case, impl, model):
    return 'groups / merged ranges differ from the unique maximal chained partition computed by the proved model'

"""C12: record parsers are total and name the offending column."""
import sx
import textgen as T
from common import Case

ID = 'C12'
RULE = ('parse cases: for every shipped record type, strings derived from a valid line: every prefix of its columns, '
        'single-column corruptions (empty, non-numeric, negative, fractional, > u64::MAX, padded, bad strand), extra '
        'trailing columns, empty string, lone separators, wrong separators, Unicode; result class Ok(record) / error '
        'variant / panic compared (errors of format-specific extension columns are compared as "some error"); '
        'non-trivial = the first bad column is not the first column; distinct by case text')
UNIQUE_NOTE = 'first_bad_column: the result class is a function of the string'
EXHAUSTIVE = {}


def gen(rng, tier):
    n = 4000 if tier == 'quick' else 80000
    pend = []
    for _ in range(n):
        t = rng.choice(T.TYPES)
        pend.append((t, T.rand_record(rng, t)))
    allbits = [b for t, r in pend for b in T.record_floats(t, r)] + [T.NEG_ONE]
    ft, _ = T.float_tables(allbits, [])
    strings = []
    for t, r in pend:
        line = T.std_line(t, r, ft)
        s = line if rng.random() < 0.12 else T.mutate(rng, line)
        try:
            s.decode('utf-8')
        except UnicodeDecodeError:
            s = line
        strings.append((t, s))
    toks = set()
    for t, s in strings:
        for tok in s.split(b'\t'):
            toks.add(sx.hexs(tok))
    _, pt = T.float_tables([], toks)
    for t, s in strings:
        pt1 = {sx.hexs(tok): pt[sx.hexs(tok)] for tok in s.split(b'\t')}
        cols = s.split(b'\t')
        nt = len(cols) >= 2
        yield Case(sx.dump(['parse', t, sx.hexs(s), T.ptab_sx(pt1)]), nt, t)


def canon(case, out):
    try:
        return sx.parse(out)
    except Exception:
        return out


def agree(case, impl, model):
    """equal, except that where the model reports an extension-column error any error variant is accepted"""
    def eq(a, b):
        if isinstance(b, list) and len(b) == 2 and b[0] == 'err' and b[1] == 'ext':
            return isinstance(a, list) and len(a) == 2 and a[0] == 'err'
        if isinstance(a, list) and isinstance(b, list):
            return len(a) == len(b) and all(eq(x, y) for x, y in zip(a, b))
        return a == b
    return eq(canon(case, impl), canon(case, model))


def classify(case, impl, model):
    if 'panic' in impl:
        return 'parser-panics'
    try:
        c = sx.parse(case)
        line = T.unhex(c[2]) if c[0] == 'parse' else (T.unhex(c[3]) if c[0] == 'read' else b'')
        if T.line_in_lexical_class(line):
            # every point where the two outputs differ must be "model: invalid start/end/score, implementation: Ok"
            a, b = sx.parse(impl), sx.parse(model)
            def items(o):
                out = []
                for x in o[1:]:
                    if isinstance(x, list) and x and x[0] == 'items':
                        out += x[1:]
                    else:
                        out.append(x)
                return out
            ia, ib = items(a), items(b)
            if len(ia) == len(ib):
                diffs = [(x, y) for x, y in zip(ia, ib) if x != y]
                # the implementation accepted the over-range column and went on: Ok, or the error of a LATER column
                later = {'invalid-start': ('missing-end', 'invalid-end', 'missing-name', 'missing-score', 'invalid-score', 'missing-strand', 'invalid-strand', 'ext'),
                         'invalid-end': ('missing-name', 'missing-score', 'invalid-score', 'missing-strand', 'invalid-strand', 'ext'),
                         'invalid-score': ('missing-strand', 'invalid-strand', 'ext')}
                if diffs and all(isinstance(y, list) and y[0] == 'err' and y[1] in later and isinstance(x, list)
                                 and (x[0] == 'ok' or (x[0] == 'err' and x[1] in later[y[1]])) for x, y in diffs):
                    return 'lexical-overflow-undetected'
    except Exception:
        pass
    return 'mismatch'


def explain(case, impl, model):
    if 'panic' in impl:
        return 'the parser panicked; the property requires Ok or Err for every string'
    return 'result class differs from the proved model (first missing or malformed column decides the error)'

"""C05: Coverage / SparseCoverage hold the exact overlap-weighted tag sums."""
import lapgen as G
import recgen as R
import sx
from common import Case

ID = 'C05'
RULE = ('cov cases: lists of NON-EMPTY regions (duplicates, overlapping, nested, several chromosomes, the empty list) and '
        'histories of insert(tag,k) / insert_at_index(i,k) / reset with integer multiplicities (0, negative, >1) driven '
        'through Coverage<i64> and SparseCoverage<i64> at once; tags touch region boundaries, span several regions, or sit '
        'on chromosomes without regions; the dense vector, the sparse vector view, totals and len are read after every '
        'few steps; non-trivial = history has a reset followed by inserts, an insert_at_index and a tag hitting >= 2 '
        'regions; distinct by case text')
UNIQUE_NOTE = 'cov_counts: each counter is a function (a sum) of the history'
EXHAUSTIVE = {}


def gen(rng, tier):
    n = 1200 if tier == 'quick' else 30000
    for _ in range(n):
        mode = rng.choice(['small', 'small', 'small', 'small', 'wide', 'medium', 'dense'])
        regs = R.rand_regions(rng, mode, rng.choice([0, 1, 2, 3, 5, 8]), 'ne', rng.choice([1, 2, 3]))
        if regs and rng.random() < 0.4:
            regs.insert(rng.randint(0, len(regs)), rng.choice(regs))
        ops = []
        small_mult = rng.random() < 0.35        # only multiplicities 0..2: the harness then also drives u16 counters
        long_hist = small_mult and rng.random() < 0.15
        saw_reset = reset_then_ins = insat = multi = False
        for _k in range(rng.randint(3, 16) if not long_hist else rng.randint(300, 420)):
            r = rng.random()
            if r < 0.62:
                q = R.rand_query(rng, regs, mode)
                if long_hist and rng.random() < 0.8:
                    q = (b'absent', q[1], q[2])          # totals grow, region counts stay small
                k = rng.choice([1, 1, 1, 2, 3, 0, -1, -2, 5]) if not small_mult else rng.choice([1, 1, 2, 0])
                ops.append(['ins', R.h(q[0]), q[1], q[2], k])
                if sum(1 for g in regs if R.hit(q, g)) >= 2:
                    multi = True
                if saw_reset:
                    reset_then_ins = True
            elif r < 0.75 and regs:
                ops.append(['insat', rng.randrange(len(regs)), rng.choice([1, 2, -1, 4]) if not small_mult else rng.choice([1, 2])]); insat = True
            elif r < 0.85 and not (long_hist and _k > 5):
                ops.append(['reset']); saw_reset = True
            else:
                ops.append(['get'])
        ops.append(['get'])
        yield Case(sx.dump(['cov', ['regs'] + [[R.h(c), s, e] for c, s, e in regs], ['ops'] + ops]), reset_then_ins and insat and multi, mode)
    # long region lists (65..300) swept almost completely between two resets, then sparse touches
    for k in range(8 if tier == 'quick' else 60):
        nreg = rng.choice([65, 66, 100, 129, 257, 300])
        chs = R.chrom_set(rng, 2)
        regs = []
        x = 0
        for i in range(nreg):
            x += rng.randint(0, 6); L = rng.randint(1, 12)
            regs.append((chs[i % len(chs)] if k % 2 else chs[0], x, x + L)); x += L
        if k % 3 == 0:
            rng.shuffle(regs)
        def sweep(frac):
            return [['ins', R.h(c), s_ + rng.randint(0, max(0, e_ - s_ - 1)), e_ + rng.randint(0, 2), rng.choice([1, 1, 2])] for (c, s_, e_) in regs if rng.random() < frac]
        ops = sweep(rng.choice([0.3, 0.95, 1.0])) + [['get'], ['reset'], ['get']] + sweep(0.03) + [['insat', rng.randrange(nreg), 2], ['get'], ['reset'], ['get']] + sweep(0.05) + [['get']]
        if k % 4 == 0:
            # more than 1024 (and 4096) counter updates between two resets, the last ones on slots not touched before
            first = [r for r in regs[:nreg // 2]]
            heavy = []
            while len(heavy) < rng.choice([1030, 1100, 1100, 4100]):
                c, s_, e_ = rng.choice(first); heavy.append(['ins', R.h(c), s_, e_, 1])
            late = [['ins', R.h(c), s_, e_, 3] for (c, s_, e_) in regs[nreg // 2:][:5]] + [['insat', nreg - 1, 4]]
            ops += [['reset']] + heavy + late + [['get'], ['reset'], ['get']] + sweep(0.02) + [['get']]
        yield Case(sx.dump(['cov', ['regs'] + [[R.h(c), s_, e_] for c, s_, e_ in regs], ['ops'] + ops]), True, 'many-regions')


def canon(case, out):
    try:
        return sx.parse(out)
    except Exception:
        return out


def classify(case, impl, model):
    return 'mismatch'


def explain(case, impl, model):
    return 'a region counter / total differs from the sum computed by the proved model'

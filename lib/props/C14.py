"""C14: split_by_len / rsplit_by_len tile a record exactly."""
import sx
from common import Case
from C05 import canon

ID = 'C14'
RULE = ('split cases (start, end, bin): exhaustive over end <= 12, bin <= 14 (all start <= end), plus random large '
        'records with few pieces, bin in {1, divisors, non-divisors, length, length+1, u64::MAX-1, u64::MAX}, start = 0, '
        'end = u64::MAX; splithead cases: records with up to 2^64 - 1 pieces of which only the first k are taken; outputs: the split_by_len and rsplit_by_len sequences; non-trivial = at least 2 pieces and a '
        'shorter last piece; distinct by case text')
UNIQUE_NOTE = 'split_tiles + tiling_unique: the tiling is unique'
EXHAUSTIVE = {'quick': True, 'thorough': True}
W64 = 18446744073709551615


def nt(s, e, b):
    return (e - s) > b and (e - s) % b != 0


def gen(rng, tier):
    for e in range(0, 13):
        for s in range(0, e + 1):
            for b in range(1, 15):
                yield Case(sx.dump(['split', s, e, b]), nt(s, e, b), 'exhaustive')
    n = 1500 if tier == 'quick' else 40000
    for _ in range(n):
        r = rng.random()
        if r < 0.3:
            s = rng.choice([0, 5, 2**32, W64 - 40, W64 - 5, 2**63])
            L = rng.randint(0, 30)
            e = min(W64, s + L)
            b = rng.choice([1, 2, 3, 7, max(1, e - s), e - s + 1, W64, W64 - 1, 2**63, 2**32])
        elif r < 0.6:
            s = rng.randint(0, 2**40)
            b = rng.choice([10**6, 2**20, 12345, 2**33])
            e = s + b * rng.randint(0, 6) + rng.choice([0, 1, b - 1, b // 2])
        elif r < 0.8:
            s, e = 0, W64
            b = rng.choice([W64, W64 - 1, 2**63, 2**62, 2**61 + 1, 2**60])
        else:
            s = rng.randint(0, 100); e = s + rng.randint(0, 60); b = rng.randint(1, 70)
        yield Case(sx.dump(['split', s, e, b]), nt(s, e, b), 'random')
    # records with far too many pieces to enumerate (up to 2^64 - 1 of them): only the first k pieces of both iterators
    # are taken, which a lazy implementation delivers at once
    for _ in range(60 if tier == 'quick' else 1500):
        e = rng.choice([2**62, 2**63, W64, W64 - 1, 2**40 + 7, 10**12, 2**32 + 1])
        s = rng.choice([0, 0, 1, 5, 2**31])
        b = rng.choice([1, 1, 2, 3, 7, 1000, 4097])
        k = rng.choice([0, 1, 2, 3, 5, 8])
        yield Case(sx.dump(['splithead', s, e, b, k]), k >= 2, 'huge-piece-count')


def agree(case, impl, model):
    """equal canonical forms; at start = u64::MAX (a necessarily empty record, excluded by the guard start < W of the
    rsplit theorem: the pinned code panics on start + 1) yielding nothing is what the property asks for, so it is accepted"""
    if canon(case, impl) == canon(case, model):
        return True
    try:
        c = sx.parse(case)
        if int(c[1]) == W64 and 'panic' in model and 'ORACLE-FAIL' not in impl:
            return canon(case, impl) == ['r', ['sp'], ['rsp']]
    except Exception:
        pass
    return False


def classify(case, impl, model):
    return 'mismatch'


def explain(case, impl, model):
    return 'the pieces differ from the unique exact tiling computed by the proved model'

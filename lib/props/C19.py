"""C19: cov, union and intersect are cardinalities of covered position sets."""
import lapgen as G
import sx
from common import Case
from C16 import canon

ID = 'C19'
RULE = ('lap scripts over pairs of multisets of NON-EMPTY intervals (empty, disjoint, identical, interleaved, nested; u8 '
        'and wide ranges): histories interleaving set_cov / insert / merge_overlaps, cov() read after each step, then '
        'union_and_intersect against a second set in all four merged/unmerged combinations and in both argument orders; '
        'non-trivial = both sets non-empty, they share a position and at least one is unmerged with an internal overlap; '
        'distinct by case text')
UNIQUE_NOTE = 'cov_card / ui_card + card_unique: a cardinality is unique'
EXHAUSTIVE = {}


def overlap_inside(ivs):
    return any(i != j and a < d and c < b for i, (a, b) in enumerate(ivs) for j, (c, d) in enumerate(ivs))


def share(A, B):
    return any(a < d and c < b for (a, b) in A for (c, d) in B)


def hist(rng, mode, cur, nid, want_merge):
    ops = []
    for _ in range(rng.choice([0, 1, 2, 4])):
        r = rng.random()
        if r < 0.4:
            s, e = G.rand_ivs(rng, mode, 1, 'ne')[0]
            ops.append(['ins', s, e, nid[0]]); nid[0] += 1; cur.append((s, e))
        elif r < 0.7:
            ops.append(['setcov'])
        else:
            ops.append(['merge'])
    if want_merge:
        ops.append(['merge'])
        if rng.random() < 0.5:
            ops.append(['setcov'])
    return ops


def gen(rng, tier):
    yield from gen_big(rng, tier)
    n = 1200 if tier == 'quick' else 30000
    for _ in range(n):
        mode = G.pick_mode(rng)
        A = G.rand_ivs(rng, mode, rng.choice([0, 1, 2, 3, 5, 8]), 'ne')
        r = rng.random()
        if r < 0.1:
            B = list(A)
        elif r < 0.2:
            B = []
        else:
            B = G.rand_ivs(rng, mode, rng.choice([0, 1, 2, 3, 5, 8]), 'ne')
        for swap in (False, True):
            X, Y = (B, A) if swap else (A, B)
            for ma in (False, True):
                for mb in (False, True):
                    if rng.random() < 0.5 and not (ma == mb == False):
                        continue
                    nid = [len(X)]
                    curX = list(X)
                    opsX = []
                    # cov after every step of the history
                    for o in hist(random_clone(rng), mode, curX, nid, ma):
                        opsX.append(o); opsX.append(['cov'])
                    curY = list(Y)
                    nidY = [100 + len(Y)]
                    opsY = hist(random_clone(rng), mode, curY, nidY, mb)
                    ops = [['cov']] + opsX + [['ui', G.iv_sx(Y, 100), ['ops'] + opsY], ['cov']]
                    nt = bool(curX) and bool(curY) and share(curX, curY) and ((not ma and overlap_inside(curX)) or (not mb and overlap_inside(curY)))
                    yield Case(G.case(mode, X, ops), nt, mode)


def gen_big(rng, tier):
    """union_and_intersect calls that generate well over a thousand overlapping (self, other) pairs"""
    for _ in range(3 if tier == 'quick' else 60):
        nb = rng.choice([250, 300])
        B = []
        x = 0
        for _i in range(nb):
            x += rng.randint(1, 6); B.append((x, x + rng.randint(3, 12)))
        A = []
        for _i in range(rng.choice([100, 120])):
            s0 = rng.randint(0, x); A.append((s0, s0 + rng.randint(30, 90)))
        for ma, mb in ((False, False), (True, False), (True, True)):
            opsB = [['merge']] if mb else []
            ops = ([['merge']] if ma else []) + [['ui', G.iv_sx(B, 5000), ['ops'] + opsB], ['cov']]
            yield Case(G.case('medium', A, ops), True, 'big-union')


def random_clone(rng):
    import random
    return random.Random(rng.getrandbits(64))


def classify(case, impl, model):
    return 'mismatch'


def explain(case, impl, model):
    return 'cov / union / intersect differs from the cardinality computed by the proved model'

"""C08: merge_sorted_bedgraph is the pointwise sum, run-length encoded."""
import recgen as R
import lapgen as G
import sx
from common import Case
from C05 import canon
from C07 import sorted_stream

ID = 'C08'
RULE = ('bg cases: sorted streams of NON-EMPTY BedGraph<i64> records over 1-3 chromosomes with values in -3..3 (zero, '
        'cancelling sums), identical / nested / partially overlapping / book-ended records, several records starting or '
        'ending at one position, plus a few connected runs of 1000-4200 records followed by a book-ended record carrying the '
        'level left of the touching point; the output sequence is compared (collected, and re-walked by next-then-fold / '
        'for_each / nth / skip / step_by / count / last); non-trivial = mixed signs starting at one position or a '
        'stretch whose values cancel; distinct by case text')
UNIQUE_NOTE = 'bedgraph_spec + bgrle_unique: the run-length encoding of the pointwise sum is unique'
EXHAUSTIVE = {}


def gen(rng, tier):
    n = 2500 if tier == 'quick' else 50000
    for _ in range(n):
        mode = rng.choice(['small', 'small', 'small', 'wide', 'medium'])
        regs = sorted_stream(rng, mode, rng.choice([0, 1, 2, 3, 4, 6, 9]), 'ne')
        vals = [rng.choice([1, 1, 2, -1, -2, 3, 0, -3]) for _k in regs]
        if rng.random() < 0.3:
            vals = [abs(v) or 1 for v in vals]
        nt = False
        for i in range(len(regs)):
            for j in range(len(regs)):
                if i != j and regs[i][0] == regs[j][0] and regs[i][1] == regs[j][1] and vals[i] * vals[j] < 0:
                    nt = True
        yield Case(sx.dump(['bg', ['recs'] + [[R.h(c), s, e, v] for (c, s, e), v in zip(regs, vals)]]), nt, mode)
    # chains of 11..70 book-ended records of EQUAL value (a maximal encoding is one record), some with nested records: at
    # every interior joint all open records end and others start, so any sweep that relies on the order of equal-position
    # events (starts before ends) and on an unstable sort shows here
    for k in range(25 if tier == 'quick' else 400):
        m = rng.choice([11, 17, 21, 25, 40, 41, 64, 70])
        v = rng.choice([1, 3, -2])
        x = rng.randint(0, 20); recs = []
        for i in range(m):
            L = rng.randint(1, 60)
            recs.append((b'chr1', x, x + L, v))
            if rng.random() < 0.3 and L >= 3:
                a0 = x + rng.randint(0, L - 2); recs.append((b'chr1', a0, rng.randint(a0 + 1, x + L), rng.choice([0, 0, 2, -1])))
            x += L
        recs.sort(key=lambda r: (r[0], r[1], r[2]))
        yield Case(sx.dump(['bg', ['recs'] + [[R.h(ch), s_, e_, vv] for (ch, s_, e_, vv) in recs]]), True, 'book-ended-chain')
    # clusters far larger than any internal batch / flush threshold a rewrite might introduce (1023 .. 4100 records in
    # one connected run), followed by a book-ended record whose value equals the level just left of the touching point
    # (so a maximal encoding must continue the run) and by a second cluster
    for k in range(8 if tier == 'quick' else 60):
        N = rng.choice([1023, 1024, 1025, 1030, 2047, 2048, 2049, 4096, 4100, rng.randint(1000, 4200)])
        shape = rng.choice(['same', 'stair', 'random'])
        c = rng.choice([b'chr1', b'chr2'])
        if shape == 'same':
            recs = [(c, 0, 10, 1)] * N
        elif shape == 'stair':
            recs = [(c, i // 7, i // 7 + 3 + (i % 3), rng.choice([1, 1, -1, 2])) for i in range(N)]
        else:
            recs = [(c, rng.randint(0, 40), 0, rng.choice([1, 2, -1, 3])) for _ in range(N)]
            recs = [(c, s, s + rng.randint(1, 30), v) for (c, s, _e, v) in recs]
        if k % 2 == 1:
            # the right-most stretch of the run sums to ZERO (covered, level 0: it must still be reported), once through
            # cancelling values and once through zero-valued records only
            e0 = max(r[2] for r in recs)
            recs += [(c, e0 - 3, e0 + 5, 5), (c, e0 - 3, e0 + 5, -5)] if k % 4 == 1 else [(c, e0 - 1, e0 + 4, 0)]
        recs.sort(key=lambda r: (r[0], r[1], r[2]))
        end = max(r[2] for r in recs)
        level = sum(r[3] for r in recs if r[1] <= end - 1 < r[2])
        tail = [(c, end, end + 10, level if k % 4 != 3 else level + 1), (c, end + 10, end + 12, level), (c, end + 30, end + 31, 5)]
        if k % 2 == 0:
            tail.append((b'chr3', 0, 4, 1))
        allr = recs + tail
        yield Case(sx.dump(['bg', ['recs'] + [[R.h(ch), s_, e_, v] for (ch, s_, e_, v) in allr]]), True, 'big-cluster')
    if tier == 'thorough':
        import itertools
        c = b'chr1'
        uni = [(s, e, v) for s in range(4) for e in range(s + 1, 5) for v in (-1, 1)]
        for k in range(0, 4):
            for comb in itertools.combinations_with_replacement(sorted(uni), k):
                yield Case(sx.dump(['bg', ['recs'] + [[R.h(c), s, e, v] for (s, e, v) in comb]]), k >= 2, 'exhaustive')


def classify(case, impl, model):
    o = sx.parse(impl)
    try:
        for x in o[1:]:
            if isinstance(x, list) and x[0] == 'out':
                if any(int(r[1]) >= int(r[2]) for r in x[1:]):
                    return 'bedgraph-empty-output-record'
    except Exception:
        pass
    return 'mismatch'


def explain(case, impl, model):
    return 'output differs from the unique run-length encoding of the pointwise sum computed by the proved model'

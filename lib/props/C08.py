"""C08: merge_sorted_bedgraph is the pointwise sum, run-length encoded."""
import recgen as R
import lapgen as G
import sx
from common import Case
from C05 import canon
from C07 import sorted_stream

ID = 'C08'
RULE = ('bg cases: sorted streams of NON-EMPTY BedGraph<i64> records over 1-3 chromosomes with values in -3..3 (zero, '
        'cancelling sums), identical / nested / partially overlapping / book-ended records, several records starting or '
        'ending at one position; the output sequence is compared; non-trivial = mixed signs starting at one position or a '
        'stretch whose values cancel; distinct by case text')
UNIQUE_NOTE = 'bedgraph_spec + bgrle_unique: the run-length encoding of the pointwise sum is unique'
EXHAUSTIVE = {}


def gen(rng, tier):
    n = 2500 if tier == 'quick' else 50000
    for _ in range(n):
        mode = rng.choice(['small', 'small', 'small', 'wide', 'medium'])
        regs = sorted_stream(rng, mode, rng.choice([0, 1, 2, 3, 4, 6, 9]), 'ne')
        vals = [rng.choice([1, 1, 2, -1, -2, 3, 0, -3]) for _k in regs]
        if rng.random() < 0.3:
            vals = [abs(v) or 1 for v in vals]
        nt = False
        for i in range(len(regs)):
            for j in range(len(regs)):
                if i != j and regs[i][0] == regs[j][0] and regs[i][1] == regs[j][1] and vals[i] * vals[j] < 0:
                    nt = True
        yield Case(sx.dump(['bg', ['recs'] + [[R.h(c), s, e, v] for (c, s, e), v in zip(regs, vals)]]), nt, mode)
    if tier == 'thorough':
        import itertools
        c = b'chr1'
        uni = [(s, e, v) for s in range(4) for e in range(s + 1, 5) for v in (-1, 1)]
        for k in range(0, 4):
            for comb in itertools.combinations_with_replacement(sorted(uni), k):
                yield Case(sx.dump(['bg', ['recs'] + [[R.h(c), s, e, v] for (s, e, v) in comb]]), k >= 2, 'exhaustive')


def classify(case, impl, model):
    o = sx.parse(impl)
    try:
        for x in o[1:]:
            if isinstance(x, list) and x[0] == 'out':
                if any(int(r[1]) >= int(r[2]) for r in x[1:]):
                    return 'bedgraph-empty-output-record'
    except Exception:
        pass
    return 'mismatch'


def explain(case, impl, model):
    return 'output differs from the unique run-length encoding of the pointwise sum computed by the proved model'

"""C17: cursor-based seek agrees with find on ascending queries."""
import lapgen as G
import sx
from common import Case
from C16 import canon

ID = 'C17'
RULE = ('lap scripts: random interval multisets (incl. empty set, one huge interval over many small ones, u8/wide '
        'ranges), optional insert/merge history, then a sequence of seek queries with non-decreasing start through '
        'one cursor (repeats, jumps past the last interval, queries before the first), each followed by an '
        'independent find of the same query; non-trivial = at least 3 seeks, at least one hit and one repeat or jump; '
        'distinct by case text')
UNIQUE_NOTE = 'seek_run / find_filter: seek and find must both equal filter overlap, the unique allowed answer'
EXHAUSTIVE = {}


def queries(rng, mode, cur, n):
    pts = G.points(cur, mode)
    w = G.width(mode)
    starts = sorted(rng.choice(pts) if rng.random() < 0.8 else G.coord(rng, mode) for _ in range(n))
    out = []
    prev = None
    for s in starts:
        if prev is not None and rng.random() < 0.2:
            s = prev                                           # repeat
        r = rng.random()
        if r < 0.6:
            e = min(w, s + rng.randint(1, 4))
        elif r < 0.8:
            e = rng.choice([p for p in pts if p >= s] or [s])
        elif r < 0.9:
            e = w
        else:
            e = rng.choice(pts)                                 # arbitrary stop, possibly < start
        out.append((s, e)); prev = s
    return out


def gen(rng, tier):
    n = 1500 if tier == 'quick' else 40000
    for _ in range(n):
        mode = G.pick_mode(rng)
        kind = rng.choice(['le', 'le', 'ne', 'any'])
        ivs = G.rand_ivs(rng, mode, rng.choice([0, 1, 2, 3, 5, 8, 12]), kind)
        if rng.random() < 0.12:
            # many SHORT intervals (small max_len): a jump of the query passes dozens of them in one cursor walk
            mode = 'medium'
            xs = sorted(rng.sample(range(0, 900), rng.choice([25, 40, 70, 130, 150])))
            ivs = [(x, x + rng.randint(1, 4)) for x in xs]
            kind = 'le'
        elif rng.random() < 0.08:
            # many intervals, so that one query step passes dozens of them (long cursor walks)
            mode = 'medium'
            ivs = G.rand_ivs(rng, mode, rng.choice([20, 35, 60]), kind if kind != 'any' else 'le')
        cur = list(ivs)
        ops = []
        nid = len(ivs)
        for _ in range(rng.choice([0, 0, 1, 2, 4])):
            if rng.random() < 0.7 or kind == 'any':
                s, e = G.rand_ivs(rng, mode, 1, kind)[0]
                ops.append(['ins', s, e, nid]); nid += 1; cur.append((s, e))
            else:
                ops.append(['merge'])
        qs = queries(rng, mode, cur, rng.randint(1, 10))
        hit = False
        for s, e in qs:
            ops.append(['seek', s, e]); ops.append(['find', s, e])
            hit = hit or any(a < e and s < b for a, b in cur)
        if rng.random() < 0.2:
            ops.append(['cur0'])
            for s, e in queries(rng, mode, cur, rng.randint(1, 4)):
                ops.append(['seek', s, e]); ops.append(['find', s, e])
        yield Case(G.case(mode, ivs, ops), hit and len(qs) >= 3, mode)
    if tier == 'thorough':
        for ivs in G.small_multisets(3, 4, 'le'):
            ops = []
            qs = [(a, b) for a in range(0, 6) for b in (a + 1, a + 3)]
            for a, b in qs:
                ops.append(['seek', a, b]); ops.append(['find', a, b])
            yield Case(G.case('small', ivs, ops), bool(ivs), 'exhaustive')


def classify(case, impl, model):
    return 'mismatch'


def explain(case, impl, model):
    return 'seek/find output differs from filter-overlap (the proved model output)'

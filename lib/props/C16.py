"""C16: count(start, stop) == number of intervals find returns, for every build history."""
import lapgen as G
import sx
from common import Case

ID = 'C16'
RULE = ('lap scripts: Lapper::new over random interval multisets with start<=stop (small alphabet so that '
        'endpoints coincide; u8 and wide u64 ranges), histories of insert/merge_overlaps interleaved with '
        'count+find on queries q.start<q.stop drawn from stored endpoints +-1; non-trivial = some query '
        'endpoint equals a stored endpoint and the set is non-empty; distinct by case text')
UNIQUE_NOTE = 'count_find / find_filter: the model output is the unique value allowed by the property, so a mismatch is a violation'
EXHAUSTIVE = {}


def script(rng, mode, ivs, nops):
    cur = list(ivs)
    ops = []
    nid = len(ivs)
    touched = False
    for _ in range(nops):
        r = rng.random()
        if r < 0.15:
            s, e = G.rand_ivs(rng, mode, 1, 'le')[0] if not cur or rng.random() < 0.5 else G.rand_ivs(rng, mode, 1, 'le')[0]
            ops.append(['ins', s, e, nid]); nid += 1; cur.append((s, e))
        elif r < 0.22:
            ops.append(['merge'])
        elif r < 0.30 and cur:
            # merge, then insert an interval that SHARES AN ENDPOINT with a stored one without overlapping it (possible
            # only when one of the two is zero-length: [a,p) next to [p,p), [p,p) next to [a,p), [p,p) twice, [p,b) next
            # to [p,p)), then query with start resp. stop exactly at the shared coordinate, no merge in between
            s0, e0 = rng.choice(cur)
            p0 = rng.choice([s0, e0])
            lo = max(0, p0 - rng.randint(1, 4)); hi = min(G.width(mode), p0 + rng.randint(1, 4))
            new_iv = rng.choice([(p0, p0), (lo, p0), (p0, hi), (p0, p0)])
            if rng.random() < 0.7:
                ops.append(['merge'])
            ops.append(['ins', new_iv[0], new_iv[1], nid]); nid += 1; cur.append(new_iv)
            if rng.random() < 0.3:
                ops.append(['ins', p0, p0, nid]); nid += 1; cur.append((p0, p0))
            for (a, b) in [(p0, hi), (lo, p0), (p0, min(G.width(mode), p0 + 1))]:
                if a < b <= G.width(mode):
                    ops.append(['count', a, b]); ops.append(['find', a, b]); touched = True
        elif r < 0.25:
            ops.append(['isempty']); ops.append(['len'])
            if rng.random() < 0.5:
                ops.append(['setcov'])          # a cached coverage (possibly 0) must not influence count / find
        elif r < 0.28:
            a, b = G.rand_iv(rng, mode, 'any'), G.rand_iv(rng, mode, 'any')
            if cur and rng.random() < 0.5:
                b = rng.choice(cur)
                a = rng.choice([b, (b[0], a[1]), (a[0], b[1])])
            ops.append(['ivcmp', [a[0], a[1], 0], [b[0], b[1], 1]])
        else:
            pts = G.points(cur, mode)
            a, b = G.rand_query(rng, pts, mode)
            if cur and rng.random() < 0.25:
                m = min(s for s, _ in cur)          # the class behind finding F1: q.stop == smallest start
                if m > 0:
                    a, b = rng.randint(max(0, m - 3), m - 1), m
            ends = set(x for iv in cur for x in iv)
            if cur and (a in ends or b in ends):
                touched = True
            ops.append(['count', a, b]); ops.append(['find', a, b])
    return ops, touched


def gen(rng, tier):
    n = 1500 if tier == 'quick' else 40000
    for _ in range(n):
        mode = G.pick_mode(rng)
        ivs = G.rand_ivs(rng, mode, rng.choice([0, 1, 1, 2, 3, 4, 6, 9]), 'le')
        if rng.random() < 0.06:
            # only zero-length intervals (insertion sites): they cover nothing and still overlap every query around them
            pts = [G.coord(rng, mode) for _k in range(rng.randint(1, 4))]
            ivs = [(x, x) for x in pts]
            ops = [['setcov']]
            for x in pts:
                lo, hi = max(0, x - rng.randint(1, 3)), min(G.width(mode), x + rng.randint(1, 3))
                if lo < hi:
                    ops += [['count', lo, hi], ['find', lo, hi]]
            ops += [['merge'], ['setcov'], ['count', 0, G.width(mode)], ['find', 0, G.width(mode)]]
            yield Case(G.case(mode, ivs, ops), True, mode)
            continue
        ops, touched = script(rng, mode, ivs, rng.randint(3, 14))
        yield Case(G.case(mode, ivs, ops), touched, mode)
    if tier == 'thorough':
        # small-scope exhaustive: all multisets of <= 3 intervals over 0..4, every query over 0..5
        for ivs in G.small_multisets(3, 4, 'le'):
            ops = []
            for a in range(0, 6):
                for b in range(a + 1, 6):
                    ops.append(['count', a, b]); ops.append(['find', a, b])
            yield Case(G.case('small', ivs, ops), bool(ivs), 'exhaustive')


EMITS = {'find': 1, 'seek': 1, 'count': 1, 'cov': 1, 'len': 1, 'ivs': 1, 'depth': 1, 'ui': 1, 'isempty': 1, 'ivcmp': 1}


def canon(case, out):
    """hit lists as sorted multisets; (start,stop) only for dumps of the stored list; and once merge_overlaps has run,
    the payload of a stored interval is unspecified (which of several merged intervals donates its value depends on the
    order of equal keys), so values are dropped from every later hit list"""
    try:
        o = sx.parse(out)
        c = sx.parse(case)
    except Exception:
        return out
    if not isinstance(o, list):
        return out
    merged_at = None        # index (in the output list) from which values are unspecified
    try:
        k = 0
        for op in c[3][1:]:
            if op[0] == 'merge' and merged_at is None:
                merged_at = k
            k += EMITS.get(op[0], 0)
    except Exception:
        pass
    res = []
    for j, x in enumerate(o[1:]):
        drop = merged_at is not None and j >= merged_at
        if isinstance(x, list) and x and x[0] == 'h':
            items = [t[:2] for t in x[1:]] if drop else x[1:]
            res.append(['h'] + sorted(items, key=lambda t: [int(v) for v in t]))
        elif isinstance(x, list) and x and x[0] == 'ivs':
            res.append(['ivs'] + [t[:2] for t in x[1:]])
        else:
            res.append(x)
    return [o[0]] + res


def classify(case, impl, model):
    return 'mismatch'


def explain(case, impl, model):
    try:
        o = sx.parse(impl)
        bad = []
        for i in range(1, len(o) - 1):
            if isinstance(o[i], str) and isinstance(o[i + 1], list) and o[i + 1][0] == 'h' and o[i].isdigit():
                if int(o[i]) != len(o[i + 1]) - 1:
                    bad.append('count=%s but find returned %d intervals' % (o[i], len(o[i + 1]) - 1))
        return '; '.join(bad) or 'implementation output differs from the proved model output'
    except Exception:
        return 'implementation output differs from the proved model output'

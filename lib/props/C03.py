"""C03: BED text formats round-trip and follow the standard column layout."""
import sx
import textgen as T
from common import Case

ID = 'C03'
RULE = ('fmt cases: records of every shipped type (GenomicRange, BED<3..6>, NarrowPeak, BroadPeak, BedGraph<i64>, '
        'BedGraph<f64>) whose fields the text format can carry (u64 extremes, score 0..=1000, optionals present and '
        'absent, names incl. empty / multi-byte / "+" / "-", floats incl. subnormal, 1e300, inf, -0.0): to_string() bytes vs '
        'the model text, parse of that text vs the original; pretty_show for GenomicRange; Score::try_from over 0..1100 and '
        'u32 extremes; Score::from_str on digit strings around 1000 / 2^32; float text is supplied to the model from std '
        '(table) so only the layout around it is compared; non-trivial = one optional present and one absent, or a float '
        'column, or an extreme u64; distinct by case text')
UNIQUE_NOTE = 'show_*_columns / parse_show_*: text and round-trip result are functions of the record'
EXHAUSTIVE = {}


def gen(rng, tier):
    n = 2500 if tier == 'quick' else 60000
    recs = []
    for _ in range(n):
        t = rng.choice(T.TYPES)
        recs.append((t, T.rand_record(rng, t)))
    allbits = [b for t, r in recs for b in T.record_floats(t, r)] + [T.NEG_ONE]
    ft, pt = T.float_tables(allbits, [])
    for t, r in recs:
        fl = T.record_floats(t, r)
        ft1 = {b: ft[b] for b in set(fl)}
        pt1 = {ft[b]: pt[ft[b]] for b in set(fl)}
        opts = [x for x in r[3:6]] if len(r) >= 6 else []
        nt = bool(fl) or ('none' in opts and any(x != 'none' for x in opts)) or r[1] > 2**63 or r[2] > 2**63
        yield Case(sx.dump(['fmt', t, r, T.ftab_sx(ft1), T.ptab_sx(pt1)]), nt, t)
    for v in list(range(0, 1101, 1 if tier == 'thorough' else 7)) + [999, 1000, 1001, 65535, 65536, 4294967295]:
        yield Case(sx.dump(['score', 'try', v]), True, 'score')
    for fs in [[], [b'n'], [b'n', b'd'], [b'', b''], [b'a b', 'é'.encode(), b''], [b'x'] * 5]:
        yield Case(sx.dump(['misc', 'optf', [sx.hexs(f) for f in fs]]), len(fs) >= 2, 'misc')
    for s in [b'+', b'-', b'', b'.', b'++', b'+-', b' +', b'plus', '＋'.encode()]:
        yield Case(sx.dump(['misc', 'strand', sx.hexs(s)]), True, 'misc')
    for s in [b'0', b'1000', b'1001', b'999', b'4294967295', b'4294967296', b'+7', b'007', b'', b'.', b'-1', b'1e3', b' 1', b'65536', b'70000']:
        yield Case(sx.dump(['score', 'str', sx.hexs(s)]), True, 'score')


def canon(case, out):
    try:
        return sx.parse(out)
    except Exception:
        return out


def classify(case, impl, model):
    return 'mismatch'


def explain(case, impl, model):
    return 'formatted text or the parse of it differs from the proved model (standard column layout, round trip)'

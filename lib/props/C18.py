"""C18: merge_overlaps produces the canonical disjoint cover; later queries/inserts work."""
import lapgen as G
import sx
from common import Case
from C16 import canon

ID = 'C18'
RULE = ('lap scripts over multisets of NON-EMPTY intervals (duplicates, nested, book-ended chains, one spanning interval, '
        'u8/wide ranges): new/insert*, merge_overlaps, dump of the stored (start,stop) list, a second merge + dump, then '
        'find/count/seek/cov queries interleaved with further inserts and merges; non-trivial = the set has a book-ended '
        'pair or an interval containing another; distinct by case text')
UNIQUE_NOTE = 'merge_canon + canon_unique: the merged (start,stop) list is unique; find/count/seek/cov are functions of the stored set'
EXHAUSTIVE = {}


def nontrivial(ivs):
    for i, (a, b) in enumerate(ivs):
        for j, (c, d) in enumerate(ivs):
            if i != j and (b == c or (a <= c and d <= b)):
                return True
    return False


def merged_cover(ivs):
    """the canonical cover (python reference, used only to aim the generator)"""
    out = []
    for a, b in sorted(ivs):
        if out and a <= out[-1][1]:
            out[-1][1] = max(out[-1][1], b)
        else:
            out.append([a, b])
    return [tuple(x) for x in out]


def touching_insert(rng, cur, mode):
    """an interval that touches a merged block without overlapping it (book-ended), or exactly fills a gap"""
    cov = merged_cover(cur)
    w = G.width(mode)
    if not cov:
        return None
    i = rng.randrange(len(cov))
    a, b = cov[i]
    r = rng.random()
    if r < 0.4 and b < w:
        hi = cov[i + 1][0] if i + 1 < len(cov) else w
        return (b, min(w, rng.choice([b + 1, b + 2, hi])) if hi > b else b + 1)
    if r < 0.8 and a > 0:
        lo = cov[i - 1][1] if i > 0 else 0
        return (rng.choice([max(lo, a - 2), a - 1, lo]) if a - 1 >= lo else a - 1, a)
    if i + 1 < len(cov):
        return (b, cov[i + 1][0])
    return None


def gen(rng, tier):
    n = 1200 if tier == 'quick' else 30000
    for _ in range(n):
        mode = G.pick_mode(rng)
        ivs = G.rand_ivs(rng, mode, rng.choice([0, 1, 2, 3, 4, 6, 9]), 'ne')
        if rng.random() < 0.15 and mode in ('small', 'medium'):
            # a chain of book-ended intervals
            x = rng.randint(0, 3); ivs = []
            for _k in range(rng.randint(2, 5)):
                y = x + rng.randint(1, 3); ivs.append((x, y)); x = y
            rng.shuffle(ivs)
        cur = list(ivs)
        ops = []
        nid = len(ivs)
        for _ in range(rng.choice([0, 0, 1, 3])):
            s, e = G.rand_ivs(rng, mode, 1, 'ne')[0]
            ops.append(['ins', s, e, nid]); nid += 1; cur.append((s, e))
        if rng.random() < 0.3:
            ops.append(['setcov'])                 # a cached coverage must stay right through merges and later inserts
        ops += [['merge'], ['ivs'], ['len'], ['merge'], ['ivs']]
        # merge ; insert something that only touches a merged block ; merge again (the re-merge must fuse them)
        for _t in range(rng.choice([0, 1, 1, 2])):
            t = touching_insert(rng, cur, mode)
            if t and t[0] < t[1]:
                ops.append(['ins', t[0], t[1], nid]); nid += 1; cur.append(t)
                if rng.random() < 0.3:
                    ops.insert(len(ops) - 1, ['setcov'])
                ops += [['cov'], ['merge'], ['ivs'], ['count', t[0], t[1]], ['cov']]
        # an insert whose start is the start of one stored interval and whose stop is the stop of ANOTHER one (both
        # endpoints already present in the sorted endpoint arrays, the interval itself new; it may bridge two merged
        # blocks), with the coverage cached just before and read just after, before or after a merge
        if cur and rng.random() < 0.35:
            a0 = rng.choice(cur)[0]
            bs = [e for (_s, e) in cur if e > a0]
            if bs:
                b0 = rng.choice(bs)
                if rng.random() < 0.5:
                    ops.append(['merge'])
                ops += [['setcov'], ['ins', a0, b0, nid], ['cov'], ['merge'], ['ivs'], ['cov']]; nid += 1; cur.append((a0, b0))
        for _ in range(rng.randint(2, 10)):
            r = rng.random()
            pts = G.points(cur, mode)
            if r < 0.12:
                s, e = G.rand_ivs(rng, mode, 1, 'ne')[0]
                ops.append(['ins', s, e, nid]); nid += 1; cur.append((s, e))
            elif r < 0.2:
                ops += [['merge'], ['ivs']]
            elif r < 0.3:
                ops.append(['cov'])
            elif r < 0.4:
                ops.append(['cur0'])
                for a, b in sorted(G.rand_query(rng, pts, mode) for _k in range(3 if mode != 'dense' else 8)):
                    ops.append(['seek', a, b]); ops.append(['find', a, b])
            else:
                a, b = G.rand_query(rng, pts, mode)
                ops.append(['find', a, b]); ops.append(['count', a, b])
        if mode == 'dense':
            cov = merged_cover(cur)
            inside = [(a, b) for (a, b) in cov if b - a >= 3]
            if len(inside) > 80:
                ops.append(['cur0'])
                i = rng.randrange(0, 8); j = rng.randrange(i + 66, len(inside))
                for (a, b) in (inside[i], inside[j]):
                    ops.append(['seek', a + 1, a + 2]); ops.append(['find', a + 1, a + 2])
        yield Case(G.case(mode, ivs, ops), nontrivial(cur), mode)
    if tier == 'thorough':
        for ivs in G.small_multisets(3, 5, 'ne'):
            ops = [['merge'], ['ivs'], ['merge'], ['ivs'], ['cov']]
            for a in range(0, 6):
                ops.append(['count', a, a + 1]); ops.append(['find', a, a + 2])
            yield Case(G.case('small', ivs, ops), nontrivial(ivs), 'exhaustive')


def classify(case, impl, model):
    return 'mismatch'


def explain(case, impl, model):
    return 'merged set / later query differs from the canonical disjoint cover computed by the proved model'

"""C11: GIntervalIndexSet / GIntervalIndexMap keep positional identity."""
import lapgen as G
import recgen as R
import sx
from common import Case
from C02 import canon

ID = 'C11'
RULE = ('iset / imap cases: region sequences with duplicates, interleaved chromosomes (per-chromosome order differs from '
        'supply order), unsorted coordinates; get for every index 0..len+2, len, iteration order, find / find_index_of / '
        'find_full / is_overlapped on queries from stored endpoints +-1; imap with distinct values; non-trivial = a '
        'duplicated region and a supply order that is not sorted; distinct by case text')
UNIQUE_NOTE = 'iset_find_index: the set of reported positions is determined by the supplied sequence and the query'
EXHAUSTIVE = {}


def gen(rng, tier):
    n = 1200 if tier == 'quick' else 30000
    for k in range(n):
        mode = rng.choice(['small', 'small', 'small', 'small', 'wide', 'medium', 'dense'])
        regs = R.rand_regions(rng, mode, rng.choice([0, 1, 2, 3, 5, 8, 12]), rng.choice(['le', 'ne', 'ne', 'any']), rng.choice([1, 2, 3]))
        if regs and rng.random() < 0.5:
            regs.insert(rng.randint(0, len(regs)), rng.choice(regs))
        dup = len(set(regs)) < len(regs)
        unsorted_ = regs != sorted(regs)
        ops = [['len'], ['iter']] + [['get', i] for i in range(len(regs) + 3)]
        for _ in range(rng.randint(2, 8)):
            q = R.rand_query(rng, regs, mode)
            qa = [R.h(q[0]), q[1], q[2]]
            if k % 2 == 0:
                ops += [['find'] + qa, ['findidx'] + qa, ['findfull'] + qa, ['isov'] + qa]
            else:
                ops += [['find'] + qa, ['findidx'] + qa]
        if k % 2 == 0:
            yield Case(sx.dump(['iset', ['regs'] + [[R.h(c), s, e] for c, s, e in regs], ['ops'] + ops]), dup and unsorted_, mode)
        else:
            vals = rng.sample(range(1000, 1000 + 10 * (len(regs) + 1)), len(regs))
            ops = [o for o in ops if o[0] != 'iter']
            yield Case(sx.dump(['imap', ['recs'] + [[R.h(c), s, e, v] for (c, s, e), v in zip(regs, vals)], ['ops'] + ops]), dup and unsorted_, mode)


def classify(case, impl, model):
    return 'mismatch'


def explain(case, impl, model):
    return 'positional accessor or query result differs from the proved model'
